import Driver.Proto
import ZipVerif.Model.Clones
import ZipVerif.Spec.Crc32
import ZipVerif.Spec.Pkware
/- C20 ops: `clones.*`

`clones.run k=<handles> zip=<archive hex> data=<decoded content per entry, comma separated hex>
            script=<h:op[:arg],…>`
  runs the call-level schedule `script` (each item = one whole API call of handle `h`, i.e. its atomic
  steps back to back — the granularity available to a single-threaded harness) on the model and prints
  `opens:<number of successful opens>` and the observation of every call, `|`-separated.  The immutable entry table is read off the archive's
  central directory by the small well-formed-archive parser below (driver glue, not part of the model:
  it only has to handle the archives the `clones` stream writes; anything else is `bad-archive`).
  Script items added in round 3: `h:opendec:<i>:<pw hex>` = `by_index_decrypt`, `h:byname:<name hex>` = `by_name`,
  `h:bynamedec:<name hex>:<pw hex>` = `by_name_decrypt`.  The model's parameter `Arch.unlock` (verdict of
  validation + decryption + decoding for (entry, password)) is instantiated by the glue below:
  * ZipCrypto entries: COMPUTED from `Spec.Pkware.decryptEntry` (APPNOTE 6.1 cipher, check byte = CRC high byte,
    or time high byte with a data descriptor) over the stored bytes; for a stored entry the decrypted payload IS the
    content and the end-of-entry verdict is `Spec.Crc32.crc32 content ≠ declared CRC`; for a compressed one the
    decoded content comes from the table (inflate is not modelled);
  * WinZip-AES entries: PBKDF2 / AES / HMAC are parameters of the framework (C16), so the verdict is the table
    `keys=<entry>:<pw hex>:<content hex>,…` the harness computes with ITS OWN AE-x implementation (not the
    crate's): a listed pair opens with that content, any other password is `wrong`; AE-1 entries check the CRC-32.
  For plain entries the end-of-entry verdict is computed here: CRC-32 of the given content vs the declared one.
`clones.threads …` is answered `ok`: the multi-threaded stress run is an observation of the real
  implementation under OS schedules, not a correspondence with the model. -/

namespace Driver
open ZipVerif ZipVerif.Model.Clones

namespace Clones

def u16At (b : Bytes) (o : Nat) : Option Nat := (rd16 (b.drop o)).map (·.1.toNat)
def u32At (b : Bytes) (o : Nat) : Option Nat := (rd32 (b.drop o)).map (·.1.toNat)

/-- Walk extra-field records for the WinZip AES record 0x9901: (vendor version, actual method). -/
def aesExtra : Nat → Bytes → Option (Nat × Nat)
  | 0, _ => none
  | fuel + 1, ex => do
    let id ← (rd16 ex).map (·.1.toNat)
    let len ← (rd16 (ex.drop 2)).map (·.1.toNat)
    let body := (ex.drop 4).take len
    if body.length != len then none
    if id == 0x9901 then
      if len != 7 then none
      let ver ← (rd16 body).map (·.1.toNat)
      let m ← (rd16 (body.drop 5)).map (·.1.toNat)
      some (ver, m)
    else aesExtra fuel (ex.drop (4 + len))

/-- Per-entry facts the `unlock` glue needs besides the model's `Entry`. -/
structure Crypt where
  aes : Option Nat        -- vendor version of an AES entry
  check : UInt8           -- ZipCrypto check byte
  deriving Inhabited

def centralEntries (b : Bytes) (data : List Bytes) : Nat → Nat → Nat → Option (List (Entry × Crypt) × Nat)
  | 0, o, _ => some ([], o)
  | fuel + 1, o, idx => do
    let sig ← u32At b o
    if sig != 0x02014b50 then none
    let flags ← u16At b (o + 8)
    let enc := flags % 2 == 1
    let method0 ← u16At b (o + 10)
    let time ← u16At b (o + 12)
    let crc ← u32At b (o + 16)
    let csize ← u32At b (o + 20)
    let usize ← u32At b (o + 24)
    let nl ← u16At b (o + 28)
    let el ← u16At b (o + 30)
    let cl ← u16At b (o + 32)
    let lho ← u32At b (o + 42)
    if csize == 0xffffffff || usize == 0xffffffff || lho == 0xffffffff then none  -- no ZIP64 here
    let name := (b.drop (o + 46)).take nl
    if name.length != nl then none
    let extra := (b.drop (o + 46 + nl)).take el
    -- the AES pseudo-method is replaced by the actual method found in the 0x9901 record
    let ae := if method0 == 99 then aesExtra 64 extra else none
    let method := match ae with | some (_, m) => m | none => method0
    let content := (data[idx]?).getD []
    let crc32 := UInt32.ofNat crc
    let crcBad : Option IoKind := if Spec.Crc32.crc32 content == crc32 then none else some .other
    let e : Entry :=
      { name := name, headerStart := UInt64.ofNat lho, compSize := UInt64.ofNat csize,
        size := UInt64.ofNat usize, crc := crc32, stored := method == 0,
        decodable := [0, 8, 12, 93].contains method, content := content,
        encrypted := enc, eofErr := if enc then none else crcBad }
    let c : Crypt :=
      { aes := ae.map (·.1),
        check := Spec.Pkware.checkByte ((flags / 8) % 2 == 1) crc32 (UInt16.ofNat time) }
    let (rest, o') ← centralEntries b data fuel (o + 46 + nl + el + cl) (idx + 1)
    some ((e, c) :: rest, o')

/-- `keys=` table: (entry, password) ↦ decoded content. -/
def parseKeys (s : String) : Option (List (Nat × Bytes × Bytes)) :=
  if s == "-" || s == "" then some [] else
  (s.splitOn ",").mapM fun item =>
    match item.splitOn ":" with
    | [i, p, c] => do some (← i.toNat?, ← parseHex p, ← parseHex c)
    | _ => none

/-- Instantiation of the model parameter `Arch.unlock` (see the header of this file). -/
def unlockOf (b : Bytes) (es : List (Entry × Crypt)) (keys : List (Nat × Bytes × Bytes))
    (i : Nat) (p : Bytes) : Unlock :=
  match es[i]? with
  | none => .wrong
  | some (e, c) =>
    let tbl := (keys.find? (fun k => k.1 == i && k.2.1 == p)).map (·.2.2)
    let crcBad (content : Bytes) : Option IoKind :=
      if Spec.Crc32.crc32 content == e.crc then none else some .other
    match c.aes with
    | some ver =>
      match tbl with
      | some content => .opens content (if ver == 2 then none else crcBad content)
      | none => .wrong
    | none =>
      match findContent b e.headerStart with
      | .ok ds =>
        let stored := (b.drop ds.toNat).take e.compSize.toNat
        match Spec.Pkware.decryptEntry p c.check stored with
        | none => .wrong
        | some d =>
          if e.stored then .opens d (crcBad d)
          else match tbl with
            | some content => .opens content (crcBad content)
            | none => .fails .invalidArchive   -- decoded form of a foreign stream: not given (generator avoids it)
      | _ => .wrong

/-- Entry table of a well-formed archive without comment, ZIP64 or prepended data. -/
def parseArch (b : Bytes) (data : List Bytes) (keys : List (Nat × Bytes × Bytes)) : Option Arch := do
  if b.length < 22 then none
  let eo := b.length - 22
  let sig ← u32At b eo
  if sig != 0x06054b50 then none
  let cnt ← u16At b (eo + 10)
  let cdSize ← u32At b (eo + 12)
  let cdOff ← u32At b (eo + 16)
  if cdOff + cdSize != eo then none
  let (es, o') ← centralEntries b data cnt cdOff 0
  if o' != eo then none
  some { bytes := b, entries := es.map (·.1), unlock := unlockOf b es keys }

def pwArg (s : String) : Option Bytes := parseHex s

def parseCall (s : String) : Option (Nat × Op) :=
  match s.splitOn ":" with
  | [h, "open", i] => do some (← h.toNat?, .openIdx (← i.toNat?))
  | [h, "openraw", i] => do some (← h.toNat?, .openRaw (← i.toNat?))
  | [h, "opendec", i, p] => do some (← h.toNat?, .openDec (← i.toNat?) (← parseHex p))
  | [h, "byname", nm] => do some (← h.toNat?, .openName (← parseHex nm))
  | [h, "bynamedec", nm, p] => do some (← h.toNat?, .openNameDec (← parseHex nm) (← parseHex p))
  | [h, "read", n] => do some (← h.toNat?, .read (← n.toNat?))
  | [h, "ds"] => do some (← h.toNat?, .dataStart)
  | [h, "name"] => do some (← h.toNat?, .info)
  | [h, "close"] => do some (← h.toNat?, .close)
  | [h, "len"] => do some (← h.toNat?, .len)
  | _ => none

def showObs : Obs → String
  | .opened => "ok"
  | .openErr e => Out.className e
  | .openPanic => "panic"
  | .invalidPassword => "invalidpw"
  | .readErr k => Out.className (.io k)
  | .bytes b => s!"b:{toHex b}"
  | .dataStart v => s!"ds:{v.toNat}"
  | .info n sz crc hs => s!"name:{toHex n},size:{sz.toNat},crc:{crc.toNat},hs:{hs.toNat}"
  | .closed => "closed"
  | .len n => s!"len:{n}"
  | .noFile => "nofile"
  | .busy => "busy"
  | .noCell => "nocell"

/-- Run the call-level schedule; collect the observation each call produced. -/
def runCalls (A : Arch) : Sys → List Nat → List String → List String
  | _, [], acc => acc.reverse
  | s, h :: rest, acc =>
    let s' := Sys.call A s h
    let o := match s'.hs[h]? with
      | some H => (match H.obs.getLast? with | some o => showObs o | none => "none")
      | none => "nohandle"
    runCalls A s' rest (o :: acc)

end Clones

def opClones (op : String) (a : Args) : Option String := do
  match op with
  | "clones.run" =>
    let k ← a.nat? "k"
    let zip ← a.hex? "zip"
    let dataS ← a.get? "data"
    let data ← (if dataS == "" then some [] else (dataS.splitOn ",").mapM parseHex)
    let scriptS ← a.get? "script"
    let calls ← (if scriptS == "-" || scriptS == "" then some [] else (scriptS.splitOn ",").mapM Clones.parseCall)
    let keys ← Clones.parseKeys ((a.get? "keys").getD "-")
    match Clones.parseArch zip data keys with
    | none => some "bad-archive"
    | some A =>
      if calls.any (fun c => c.1 ≥ k) then none else
      let scripts := (List.range k).map fun h => (calls.filter (·.1 == h)).map (·.2)
      let out := Clones.runCalls A (Sys.init A scripts) (calls.map (·.1)) []
      let opens := (out.filter (· == "ok")).length
      some s!"opens:{opens} {if out.isEmpty then "-" else "|".intercalate out}"
  | "clones.threads" => some "ok"
  | _ => none

end Driver
