import Driver.Proto
import ZipVerif.Model.DateTime
/- C18 ops: `dos.*` -/

namespace Driver
open ZipVerif ZipVerif.Model

def optNat (o : Option Nat) : String := match o with | some n => toString n | none => "panic"

def showDT (x : DateTime) : String :=
  s!"{x.year.toNat} {x.month.toNat} {x.day.toNat} {x.hour.toNat} {x.minute.toNat} {x.second.toNat}"

def opDos (op : String) (a : Args) : Option String := do
  match op with
  | "dos.unpack" =>
    let d ← a.nat? "d"; let t ← a.nat? "t"
    let x := DateTime.fromMsdos (UInt16.ofNat d) (UInt16.ofNat t)
    some s!"{showDT x} dp={optNat (x.datepart.map (·.toNat))} tp={x.timepart.toNat}"
  | "dos.ctor" =>
    let y ← a.nat? "y"; let mo ← a.nat? "mo"; let d ← a.nat? "d"
    let h ← a.nat? "h"; let mi ← a.nat? "mi"; let s ← a.nat? "s"
    match DateTime.fromDateAndTime (UInt16.ofNat y) (UInt8.ofNat mo) (UInt8.ofNat d)
        (UInt8.ofNat h) (UInt8.ofNat mi) (UInt8.ofNat s) with
    | some x => some s!"ok {showDT x} dp={optNat (x.datepart.map (·.toNat))} tp={x.timepart.toNat}"
    | none => some "err"
  | "dos.totime" =>
    let d ← a.nat? "d"; let t ← a.nat? "t"
    let x := DateTime.fromMsdos (UInt16.ofNat d) (UInt16.ofNat t)
    match x.toTime with
    | some c =>
      let back := match DateTime.tryFromCal c with
        | some y => s!"back={showDT y}"
        | none => "back=err"
      some s!"ok {c.year} {c.month} {c.day} {c.hour} {c.minute} {c.second} {back}"
    | none => some "err"
  | "dos.tryfrom" =>
    let y ← a.int? "y"; let mo ← a.nat? "mo"; let d ← a.nat? "d"
    let h ← a.nat? "h"; let mi ← a.nat? "mi"; let s ← a.nat? "s"
    let c : Cal := ⟨y, mo, d, h, mi, s⟩
    if !c.valid then some "invalid-cal" else
    match DateTime.tryFromCal c with
    | some x =>
      let back := match x.toTime with
        | some c' => if c' = c then "back=same" else "back=diff"
        | none => "back=err"
      some s!"ok {showDT x} {back}"
    | none => some "err"
  | _ => none

end Driver
