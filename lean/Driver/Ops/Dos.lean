import Driver.Proto
import ZipVerif.Model.DateTime
/- C18 ops: `dos.*` -/

namespace Driver
open ZipVerif ZipVerif.Model

def optNat (o : Option Nat) : String := match o with | some n => toString n | none => "panic"

def showDT (x : DateTime) : String :=
  s!"{x.year.toNat} {x.month.toNat} {x.day.toNat} {x.hour.toNat} {x.minute.toNat} {x.second.toNat}"

/-- Digest of everything the `dos.unpack` / `dos.totime` ops observe for one pair of words. -/
def dosMix (h v : UInt64) : UInt64 := (h ^^^ v) * 0x100000001b3

def dosDigestOne (h : UInt64) (d t : UInt16) : UInt64 :=
  let x := DateTime.fromMsdos d t
  let h := [x.year.toNat, x.month.toNat, x.day.toNat, x.hour.toNat, x.minute.toNat, x.second.toNat,
            (match x.datepart with | some v => v.toNat | none => 0xFFFFFFFF), x.timepart.toNat].foldl
    (fun h v => dosMix h (UInt64.ofNat v)) h
  match x.toTime with
  | none => dosMix h 0
  | some c =>
    [1, c.year.toNat, c.month, c.day, c.hour, c.minute, c.second].foldl (fun h v => dosMix h (UInt64.ofNat v)) h

def dosBlock (byDate : Bool) (fixed lo : Nat) : Nat → UInt64 → UInt64
  | 0, h => h
  | n + 1, h =>
    let w := UInt16.ofNat lo
    let f := UInt16.ofNat fixed
    dosBlock byDate fixed (lo + 1) n (if byDate then dosDigestOne h w f else dosDigestOne h f w)

def opDos (op : String) (a : Args) : Option String := do
  match op with
  | "dos.unpack" =>
    let d ← a.nat? "d"; let t ← a.nat? "t"
    let x := DateTime.fromMsdos (UInt16.ofNat d) (UInt16.ofNat t)
    some s!"{showDT x} dp={optNat (x.datepart.map (·.toNat))} tp={x.timepart.toNat}"
  | "dos.ctor" =>
    let y ← a.nat? "y"; let mo ← a.nat? "mo"; let d ← a.nat? "d"
    let h ← a.nat? "h"; let mi ← a.nat? "mi"; let s ← a.nat? "s"
    match DateTime.fromDateAndTime (UInt16.ofNat y) (UInt8.ofNat mo) (UInt8.ofNat d)
        (UInt8.ofNat h) (UInt8.ofNat mi) (UInt8.ofNat s) with
    | some x => some s!"ok {showDT x} dp={optNat (x.datepart.map (·.toNat))} tp={x.timepart.toNat}"
    | none => some "err"
  | "dos.totime" =>
    let d ← a.nat? "d"; let t ← a.nat? "t"
    let x := DateTime.fromMsdos (UInt16.ofNat d) (UInt16.ofNat t)
    match x.toTime with
    | some c =>
      let back := match DateTime.tryFromCal c with
        | some y => s!"back={showDT y}"
        | none => "back=err"
      some s!"ok {c.year} {c.month} {c.day} {c.hour} {c.minute} {c.second} {back}"
    | none => some "err"
  | "dos.tryfrom" =>
    let y ← a.int? "y"; let mo ← a.nat? "mo"; let d ← a.nat? "d"
    let h ← a.nat? "h"; let mi ← a.nat? "mi"; let s ← a.nat? "s"
    let c : Cal := ⟨y, mo, d, h, mi, s⟩
    if !c.valid then some "invalid-cal" else
    -- the value's own UTC offset (seconds) and nanoseconds: parameters of the model's `OCal`
    let o : OCal := ⟨c, (a.nat? "ns").getD 0, (a.int? "off").getD 0⟩
    match DateTime.tryFromO o with
    | some x =>
      let back := match x.toTimeO with
        | some o' =>
          -- `shift` = instant of the result minus instant of the argument, in whole seconds: same wall-clock
          -- fields read in UTC instead of in `offset`
          (if o'.cal = c then "back=same" else "back=diff") ++
            s!" off2={o'.offset} ns2={o'.nanos} shift={if o'.cal = c then o.offset - o'.offset else 0}"
        | none => "back=err"
      some s!"ok {showDT x} {back}"
    | none => some "err"
  | "dos.dim" =>
    let y ← a.int? "y"; let m ← a.nat? "m"
    some s!"ok {Spec.Dos.daysInMonth y m} leap={if Spec.Dos.isLeap y then 1 else 0}"
  | "dos.block" =>
    let kind ← a.get? "kind"; let fixed ← a.nat? "fixed"; let lo ← a.nat? "lo"; let n ← a.nat? "n"
    if lo + n > 65536 || fixed > 65535 || (kind != "date" && kind != "time") then none else
    let h := dosBlock (kind == "date") fixed lo n 0xcbf29ce484222325
    some s!"ok {h.toNat}"
  | _ => none

end Driver
