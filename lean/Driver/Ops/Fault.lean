import Driver.Ops.Write
import Driver.Ops.Read
/- Ops `fault.*` (C11): the same scenarios with the k-th I/O call failing. -/

namespace Driver
open ZipVerif ZipVerif.Model

def storedExt : Ext := mkExt []

/-- kind names as `Out.className` prints them -/
def parseKind : String → Option IoKind
  | "injected" => some .injected
  | "invalidinput" => some .invalidInput
  | "eof" => some .unexpectedEof
  | "invaliddata" => some .invalidData
  | "other" => some .other
  | "writezero" => some .writeZero
  | "brokenpipe" => some .brokenPipe
  | _ => none

def faultRead (bytes : Bytes) (fa : Option Nat) (kind : IoKind := .injected) : String :=
  match openArchive fa (Dev.ofBytesK bytes kind) with
  | (.err e, d) => s!"open={(Out.className e).replace " " ":"} ncalls={d.calls}"
  | (.panic _, _) => "panic"
  | (.ok a, d) =>
    let rec go (i : Nat) (n : Nat) (d : Dev) (acc : String) : String :=
      match n with
      | 0 => acc ++ s!" ncalls={d.calls}"
      | n + 1 =>
        match (byIndexRead storedExt a i none) fa d with
        | (.err e, d') => go (i + 1) n d' (acc ++ s!" {i}={(Out.className e).replace " " ":"}")
        | (.panic _, _) => "panic"
        | (.ok .invalidPassword, d') => go (i + 1) n d' (acc ++ s!" {i}=err:passwordrequired")
        | (.ok (.ok (_, res)), d') => go (i + 1) n d' (acc ++ s!" {i}={showOutBytes res}")
    go 0 a.files.length d s!"open=ok n={a.files.length}"

def opFault (op : String) (a : Args) : Option String := do
  let fa : Option Nat := match a.get? "k" with
    | some "none" | none => none
    | some v => v.toNat?
  let kind : IoKind ← (match a.get? "kind" with
    | none => some .injected
    | some n => parseKind n)
  match op with
  | "fault.enc" | "fault.writec" | "fault.writeo" | "fault.rawcopy" | "fault.stream" => some "oracle-only"   -- cipher / codec layers are external: judged by the oracle alone
  | "fault.read" => some (faultRead (← a.hex? "bytes") fa kind)
  | "fault.write" =>
    let calls := ((a.get? "calls").getD "").splitOn ";"
    let ext := mkWExt (parseComp ((a.get? "comp").getD "-")) (parseZc ((a.get? "zc").getD "-"))
    let tail := fun (d : Dev) => s!" ncalls={d.calls}"
    -- sources of raw copies: opened fault-free (the fault is on the SINK; the source reader delivers each entry whole)
    let srcs : List (Archive × Dev) := (List.range 8).filterMap fun i =>
      match a.hex? s!"src{i}" with
      | some b =>
        match openArchive.runPure (Dev.ofBytes b) with
        | (.ok ar, d) => some (ar, d)
        | _ => none
      | none => none
    match calls with
    | first :: rest =>
      match first.splitOn "," with
      | ["new"] => some (runCallsF ext srcs fa tail rest WState.init (Dev.ofBytesK [] kind) ["ok"])
      | ["ap", base] => do
        let b ← parseHex base
        match newAppend fa (Dev.ofBytesK b kind) with
        | (.ok s, d) => some (runCallsF ext srcs fa tail rest s d ["ok"])
        | (.err e, d) => some ((Out.className e).replace " " ":" ++ " " ++ showFinal d ++ tail d)
        | (.panic _, _) => some "panic"
      | _ => some "bad-op"
    | [] => some "bad-op"
  | _ => none

end Driver
