import Driver.Ops.Write
import Driver.Ops.Read
import ZipVerif.Model.Interrupted
/- Ops `fault.*` (C11): the same scenarios with the k-th I/O call failing. -/

namespace Driver
open ZipVerif ZipVerif.Model

def storedExt : Ext := mkExt []

/-- kind names as `Out.className` prints them -/
def parseKind : String → Option IoKind
  | "injected" => some .injected
  | "invalidinput" => some .invalidInput
  | "eof" => some .unexpectedEof
  | "invaliddata" => some .invalidData
  | "other" => some .other
  | "writezero" => some .writeZero
  | "brokenpipe" => some .brokenPipe
  | "interrupted" => some .interrupted
  | _ => none

/-- `fault.read`: `ZipArchive::new`, then every entry by index, read to its end by the harness's own `read` loop.
On a device failing with `Interrupted` the model with std's convention answers: `openArchiveI` (`read_exact` retries, the
`seek`s do not) and `byIndexReadB` (`find_content` likewise; the consumer is a hand-written `read` loop that does NOT
retry, so an `Interrupted` failure of its read is the entry's error).  On every other kind these ARE `openArchive` /
`byIndexRead` (`Props/C11.open_hard_kinds`); the hard-failure functions are kept there for speed. -/
def faultRead (bytes : Bytes) (fa : Option Nat) (kind : IoKind := .injected) : String :=
  let intr := kind == .interrupted
  let openM : M Archive := if intr then openArchiveI else openArchive
  let readM (a : Archive) (i : Nat) : M (PwResult (Nat × Out Bytes)) :=
    if intr then byIndexReadB storedExt a i none else byIndexRead storedExt a i none
  match openM fa (Dev.ofBytesK bytes kind) with
  | (.err e, d) => s!"open={(Out.className e).replace " " ":"} ncalls={d.calls}"
  | (.panic _, _) => "panic"
  | (.ok a, d) =>
    let rec go (i : Nat) (n : Nat) (d : Dev) (acc : String) : String :=
      match n with
      | 0 => acc ++ s!" ncalls={d.calls}"
      | n + 1 =>
        match readM a i fa d with
        | (.err e, d') => go (i + 1) n d' (acc ++ s!" {i}={(Out.className e).replace " " ":"}")
        | (.panic _, _) => "panic"
        | (.ok .invalidPassword, d') => go (i + 1) n d' (acc ++ s!" {i}=err:passwordrequired")
        | (.ok (.ok (_, res)), d') => go (i + 1) n d' (acc ++ s!" {i}={showOutBytes res}")
    go 0 a.files.length d s!"open=ok n={a.files.length}"

/-- the class of an error as the harness prints it (`err:io:injected`) -/
def clsC (e : ZErr) : String := (Out.className e).replace " " ":"

/-- `fault.stream`: the entry loop of `read_zipfile_from_stream` under per-entry consumers, ONE model call
(`streamEntryC`) per implementation call, the device threaded through — so the outcomes of the calls before an error
stay visible, as they are to the caller.  At most 64 entries are handed out (the harness stops there too). -/
def faultStream (bytes : Bytes) (ext : Ext) (cs : Array Consume) (dflt : Consume) (fa : Option Nat) (kind : IoKind) : String :=
  let fin (acc : List String) (d : Dev) : String := " ".intercalate (acc.reverse ++ [s!"ncalls={d.calls}"])
  let rec go (fuel i : Nat) (d : Dev) (acc : List String) : String :=
    match fuel with
    | 0 => fin acc d
    | fuel + 1 =>
      match streamEntryCI ext ((cs[i]?).getD dflt) fa d with
      | (.err e, d') => fin (s!"{i}={clsC e}" :: acc) d'
      | (.panic _, _) => "panic"
      | (.ok none, d') => fin ("end" :: acc) d'
      | (.ok (some (f, res)), d') => go fuel (i + 1) d' (s!"{i}={toHex f.fileName}:{showOutBytes res}" :: acc)
  go 64 0 (Dev.ofBytesK bytes kind) []

/-- `fault.visit`: `ZipStreamReader::visit` — one `visitFile` + drain (= `visitEntry`) per round (the entries shown before an
error stay visible), then `visitCentral`; the composition is `Model.streamVisitC`. -/
def faultVisit (bytes : Bytes) (ext : Ext) (cs : Array Consume) (dflt : Consume) (fa : Option Nat) (kind : IoKind) : String :=
  let fin (acc : List String) (d : Dev) : String := " ".intercalate (acc.reverse ++ [s!"ncalls={d.calls}"])
  let central (acc : List String) (d : Dev) : String :=
    match visitCentral bytes.length fa d with
    | (.err e, d') => fin (s!"visit={clsC e}" :: acc) d'
    | (.panic _, _) => "panic"
    | (.ok ms, d') => fin ("visit=ok" :: (ms.map fun m => s!"m={toHex m.fileName}").reverse ++ acc) d'
  let rec go (fuel i : Nat) (d : Dev) (acc : List String) : String :=
    match fuel with
    | 0 => central acc d
    | fuel + 1 =>
      match visitFile ext ((cs[i]?).getD dflt) fa d with
      | (.err e, d') => fin (s!"visit={clsC e}" :: acc) d'
      | (.panic _, _) => "panic"
      | (.ok none, d') => central acc d'
      | (.ok (some (f, bs, rem)), d') =>
        -- `visit_file` has returned: the entry was shown; now the explicit drain (the second half of `visitEntry`)
        let acc := s!"{i}={toHex f.fileName}:{showOutBytes (.ok bs)}" :: acc
        match M.retried (drainE rem) fa d' with
        | (.err e, d'') => fin (s!"visit={clsC e}" :: acc) d''
        | (.panic _, _) => "panic"
        | (.ok (), d'') => go fuel (i + 1) d'' acc
  go (bytes.length / 30 + 1) 0 (Dev.ofBytesK bytes kind) []

/-- the consumers of a `fault.stream` / `fault.visit` line: everyone asks for `consume` decoded bytes; `pulled=` /
`cbuf=` per entry (measured by the harness on the fault-free run for compressed entries), default: pulls what it
asks for, in reads of at most 64 KiB (exact for Stored entries) -/
def consumersOf (a : Args) : Option (Array Consume × Consume) := do
  let k ← a.nat? "consume"
  let pulled := ((a.get? "pulled").bind natList?).getD []
  let cbuf := ((a.get? "cbuf").bind natList?).getD []
  let cs := (List.range pulled.length).map fun i =>
    ({ k, pulled := pulled.getD i k, chunk := cbuf.getD i 65536 } : Consume)
  some (cs.toArray, { k, pulled := k, chunk := 65536 })

def opFault (op : String) (a : Args) : Option String := do
  let fa : Option Nat := match a.get? "k" with
    | some "none" | none => none
    | some v => v.toNat?
  let kind : IoKind ← (match a.get? "kind" with
    | none => some .injected
    | some n => parseKind n)
  -- `Interrupted` inside std's retry loops: the streaming ops (`M.retried`), the seekable reader and the writer (the `MI`
  -- instances of the generic parsers / the generic writer) describe it.  Not described: COMPRESSING write scenarios (the
  -- encoders' own output loops do not retry, the model coalesces their output into one `write_all`) - see the harness
  if op == "fault.write" && kind == .interrupted && fa.isSome && ((a.get? "comp").getD "-") != "-" && ((a.get? "comp").getD "-") != "" then some "oracle-only" else
  match op with
  | "fault.enc" | "fault.writec" | "fault.writeo" | "fault.rawcopy" | "fault.streamo" | "fault.visito" => some "oracle-only"   -- cipher / codec layers are external: judged by the oracle alone
  | "fault.stream" =>
    let (cs, dflt) ← consumersOf a
    let codec := (a.get? "codec").getD "-"
    some (faultStream (← a.hex? "bytes") (mkExtB (parseCodec codec) (parseBefore codec)) cs dflt fa kind)
  | "fault.visit" =>
    let (cs, dflt) ← consumersOf a
    let codec := (a.get? "codec").getD "-"
    some (faultVisit (← a.hex? "bytes") (mkExtB (parseCodec codec) (parseBefore codec)) cs dflt fa kind)
  | "fault.read" => some (faultRead (← a.hex? "bytes") fa kind)
  | "fault.write" =>
    let calls := ((a.get? "calls").getD "").splitOn ";"
    let ext := mkWExt (parseComp ((a.get? "comp").getD "-")) (parseZc ((a.get? "zc").getD "-"))
    let tail := fun (d : Dev) => s!" ncalls={d.calls}"
    -- a device failing with `Interrupted`: the generic writer at `MI` (`write_all` retries; `seek` / `flush` are bare) and
    -- `newAppendI`; every other kind: the writer model itself (= the generic writer at `M`, `GW.step_M`)
    let intr := kind == .interrupted
    let W : WSteps := if intr then intrSteps else modelSteps
    -- sources of raw copies: opened fault-free (the fault is on the SINK; the source reader delivers each entry whole)
    let srcs : List (Archive × Dev) := (List.range 8).filterMap fun i =>
      match a.hex? s!"src{i}" with
      | some b =>
        match openArchive.runPure (Dev.ofBytes b) with
        | (.ok ar, d) => some (ar, d)
        | _ => none
      | none => none
    match calls with
    | first :: rest =>
      match first.splitOn "," with
      | ["new"] => some (runCallsF ext srcs fa tail W rest WState.init (Dev.ofBytesK [] kind) ["ok"])
      | ["ap", base] => do
        let b ← parseHex base
        match (if intr then newAppendI else newAppend) fa (Dev.ofBytesK b kind) with
        | (.ok s, d) => some (runCallsF ext srcs fa tail W rest s d ["ok"])
        | (.err e, d) => some ((Out.className e).replace " " ":" ++ " " ++ showFinal d ++ tail d)
        | (.panic _, _) => some "panic"
      | _ => some "bad-op"
    | [] => some "bad-op"
  | _ => none

end Driver
