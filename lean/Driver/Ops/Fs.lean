import Driver.Proto
import ZipVerif.Model.Extract
/- C07 ops: `fs.*`

`fs.extract which=<seek|stream> priv=<0|1> dmode=<oct> fmode=<oct> root=<absent|oct mode> entries=<e,e,…|->`
with `e = <name>:<local name|=>:<kind>:<attrs>:<data>`:
  * name / local name: hex of the UTF-8 bytes (`-` = empty, `=` = same as the central name);
    the seekable extractor sees the central name, the streaming one the local name for the file and the
    central name for the metadata callback;
  * kind: `f` readable, `c` the reader reports a checksum error after delivering the data,
    `u` opening the entry fails (unsupported compression method);
  * attrs: `n` = external attributes 0, `u<oct>` = made-by Unix with `mode << 16`, `d<hex>` = made-by DOS
    with these external attributes;
  * data: hex.
→ `<ok|err invalid|err io:other|err unsupported> root=<absent|oct> tree=<items|-> outside=<none|paths>`
with items `<path>:d:<oct mode>` / `<path>:f:<oct mode>:<data hex>` sorted as strings, `path` = the
hex-rendered components below the extraction directory joined by '/'.

The modelled world: "/" , the sandbox directory `/sbx` (0o755) holding `canary/` (0o755) with the file
`canary/keep` (0o644, "canary") and — unless `root=absent` — the empty target directory `/sbx/root`. -/

namespace Driver
open ZipVerif ZipVerif.Spec.Paths ZipVerif.Spec.FS ZipVerif.Spec.Tree ZipVerif.Model.Paths ZipVerif.Model.Extract

def parseOct (s : String) : Option Nat :=
  if s.isEmpty then none else
  s.toList.foldlM (fun acc ch =>
    if '0' ≤ ch ∧ ch ≤ '7' then some (acc * 8 + (ch.toNat - '0'.toNat)) else none) 0

def parseHexNatFs (s : String) : Option Nat :=
  if s.isEmpty then none else
  s.toList.foldlM (fun acc ch => (hexVal ch).map (acc * 16 + ·)) 0

def showOct (n : Nat) : String := String.ofList (Nat.toDigits 8 n)

def nameOfHex (s : String) : Option Name := do
  let bs ← parseHex s
  let str ← String.fromUTF8? (ByteArray.mk bs.toArray)
  some str.toList

/-- `ZipFileData::unix_mode` on (system, external attributes). -/
def unixModeOf (unix : Bool) (ext : Nat) : Option Nat :=
  if ext == 0 then none
  else if unix then some (ext >>> 16)
  else
    let mode := if ext &&& 0x10 == 0x10 then 0o40775 else 0o100664
    some (if ext &&& 0x01 == 0x01 then mode &&& 0o555 else mode)

def parseAttrs (s : String) : Option (Option Nat) :=
  match s.toList with
  | ['n'] => some none
  | 'u' :: r => do
    let m ← parseOct (String.ofList r)
    if m < 65536 then some (unixModeOf true (m <<< 16)) else none
  | 'd' :: r => do
    let x ← parseHexNatFs (String.ofList r)
    if x < 4294967296 then some (unixModeOf false x) else none
  | _ => none

/-- One entry: (central view, local view). -/
def parseFsEntry (s : String) : Option (EntryView × EntryView) :=
  match s.splitOn ":" with
  | [n, ln, k, att, d] => do
    let name ← nameOfHex n
    let lname ← if ln == "=" then some name else nameOfHex ln
    let mode ← parseAttrs att
    let data ← parseHex d
    let (openErr, readErr) ← match k with
      | "f" => some (none, none)
      | "c" => some (none, some SrcErr.ioOther)
      | "u" => some (some SrcErr.unsupported, none)
      | _ => none
    some ({ name := name, openErr := openErr, data := data, readErr := readErr, mode := mode },
          { name := lname, openErr := openErr, data := data, readErr := readErr, mode := none })
  | _ => none

def parseEntries (s : String) : Option (List (EntryView × EntryView)) :=
  if s == "-" || s == "" then some [] else (s.splitOn ",").mapM parseFsEntry

def errClass : Option Err → String
  | none => "ok"
  | some .invalidPath => "err invalid"
  | some .noCentral => "err invalid"
  | some (.fs _) => "err io:other"
  | some (.src .ioOther) => "err io:other"
  | some (.src .unsupported) => "err unsupported"
  | some (.src .invalid) => "err invalid"

def dedup (ps : List Path) : List Path :=
  ps.foldl (fun acc p => if acc.contains p then acc else p :: acc) []

def showRel (p : Path) : String :=
  if p.isEmpty then "." else "/".intercalate (p.map hexOfNameFs)
where hexOfNameFs (s : Name) : String := toHex (String.ofList s).toUTF8.toList

def showNode (rel : Path) : Node → String
  | .dir m => s!"{showRel rel}:d:{showOct m}"
  | .file b m => s!"{showRel rel}:f:{showOct m}:{toHex b}"

def sortStrings (l : List String) : List String := l.mergeSort (fun a b => !(decide (b < a)))

def sbx : Path := ["sbx".toList]
def rootPath : Path := ["sbx".toList, "root".toList]

def world (root : Option Nat) : FS :=
  let base : List (Path × Node) :=
    [ ([], .dir 0o755), (sbx, .dir 0o755), (sbx ++ ["canary".toList], .dir 0o755),
      (sbx ++ ["canary".toList, "keep".toList], .file "canary".toUTF8.toList 0o644) ]
  match root with
  | none => ⟨base⟩
  | some m => ⟨(rootPath, .dir m) :: base⟩

def opFs (op : String) (a : Args) : Option String := do
  match op with
  | "fs.extract" =>
    let which ← a.get? "which"
    let priv ← a.nat? "priv"
    let dmode ← (a.get? "dmode").bind parseOct
    let fmode ← (a.get? "fmode").bind parseOct
    let rootArg ← a.get? "root"
    let root ← if rootArg == "absent" then some none else (parseOct rootArg).map some
    let es ← match (a.get? "entries").bind parseEntries with
      | some es => some es
      | none => none
    let c : Cfg := { dirMode := dmode, fileMode := fmode, priv := priv != 0 }
    let fs0 := world root
    let (fs1, err) ← match which with
      | "seek" => some (extractSeek c rootPath (es.map (·.1)) fs0)
      | "stream" => some (extractStream c rootPath (es.map (·.2)) (es.map fun e => (e.1.name, e.1.mode)) fs0)
      | _ => none
    -- the operation targets: the new part of the write log
    let newKeys := dedup ((fs1.nodes.take (fs1.nodes.length - fs0.nodes.length)).map (·.1))
    let inside := newKeys.filter (fun p => rootPath.isPrefixOf p && p != rootPath)
    let outside := newKeys.filter (fun p => !(rootPath.isPrefixOf p))
    let items := inside.filterMap fun p => (fs1.lookup p).map (showNode (p.drop rootPath.length))
    let tree := if items.isEmpty then "-" else ",".intercalate (sortStrings items)
    let rootS := match fs1.lookup rootPath with
      | some (.dir m) => showOct m
      | some (.file _ _) => "file"
      | none => "absent"
    let outS := if outside.isEmpty then "none" else
      ",".intercalate (sortStrings (outside.map fun p => showRel (p.drop sbx.length)))
    some s!"{errClass err} root={rootS} tree={tree} outside={outS}"
  | _ => none

end Driver
