import Driver.Proto
import ZipVerif.Model.Layers
/- C04 / C09 ops: `layers.*` (reader layers over scripted short-read sources, the writer's data path
over scripted short-write sinks). The response formats are mirrored in harness/src/streams/layers.rs. -/

namespace Driver
open ZipVerif ZipVerif.Spec ZipVerif.Model.Layers

/-- Result of driving a source with a cyclic buffer schedule. -/
structure Driven (σ : Type) where
  chunksRev : List Bytes
  callsRev : List String
  term : String
  st : σ

def nextBuf (full cur : List Nat) : Nat × List Nat :=
  match cur with
  | n :: r => (n, r)
  | [] => match full with
    | n :: r => (n, r)
    | [] => (4096, [])

/-- Read until a non-empty request returns 0 bytes, an error or a panic; at most `fuel` calls. -/
def driveLoop {σ} (src : Src σ) (full : List Nat) :
    Nat → σ → List Nat → List Bytes → List String → Driven σ
  | 0, s, _, acc, calls => ⟨acc, calls, "open", s⟩
  | fuel + 1, s, cur, acc, calls =>
    let nb := nextBuf full cur
    match src.rd s nb.1 with
    | (.ok bs, s') =>
      let calls' := toString bs.length :: calls
      if nb.1 > 0 && bs.isEmpty then ⟨acc, calls', "eof", s'⟩
      else driveLoop src full fuel s' nb.2 (bs :: acc) calls'
    | (.err e, s') => ⟨acc, "E" :: calls, Out.className (.io e), s'⟩
    | (.panic, s') => ⟨acc, "P" :: calls, "panic", s'⟩

def showRes : ReadRes → String
  | .ok bs => toString bs.length
  | .err _ => "E"
  | .panic => "P"

/-- Three more reads (sizes 0, 1, 4096) after a clean EOF. -/
def afterReads {σ} (src : Src σ) (s : σ) : String :=
  let r := run src s [0, 1, 4096]
  ",".intercalate (r.1.map showRes)

def rleAux : List String → Option (String × Nat) → List String → List String
  | [], none, acc => acc.reverse
  | [], some (v, k), acc => (s!"{v}*{k}" :: acc).reverse
  | x :: xs, none, acc => rleAux xs (some (x, 1)) acc
  | x :: xs, some (v, k), acc =>
    if x == v then rleAux xs (some (v, k + 1)) acc else rleAux xs (some (x, 1)) (s!"{v}*{k}" :: acc)

def rle (xs : List String) : String :=
  match rleAux xs none [] with
  | [] => "-"
  | l => ",".intercalate l

def flattenRev (chunksRev : List Bytes) : Bytes :=
  chunksRev.foldl (fun acc c => c ++ acc) []

def showOut (bs : Bytes) : String :=
  if bs.length ≤ 48 then toHex bs else s!"#{bs.length}:{(Crc32.crc32 bs).toNat}"

def capFor (len : Nat) (bufs : List Nat) : Nat := (len + 2) * (max bufs.length 1) + 2

def driveShow {σ} (src : Src σ) (s : σ) (bufs : List Nat) (len : Nat) (withCalls : Bool) : String :=
  let d := driveLoop src bufs (capFor len bufs) s bufs [] []
  let out := showOut (flattenRev d.chunksRev)
  let calls := if withCalls then s!" calls={rle d.callsRev.reverse}" else ""
  let after := if d.term == "eof" then s!" after={afterReads src d.st}" else ""
  s!"done:{d.term.replace " " "_"} out={out}{calls}{after}"

def ioKind? (s : String) : Option IoKind :=
  match s with
  | "eof" => some .unexpectedEof
  | "other" => some .other
  | "brokenpipe" => some .brokenPipe
  | "invaliddata" => some .invalidData
  | "invalidinput" => some .invalidInput
  | "writezero" => some .writeZero
  | "injected" => some .injected
  | _ => none

def failArg (a : Args) : Option IoKind := (a.get? "fail").bind ioKind?

def sched (a : Args) (k : String) : Option (List Nat) :=
  match a.get? k with
  | some s => natList? s
  | none => some []

def u16At (bs : Bytes) (off : Nat) : Option Nat := (rd16 (bs.drop off)).map (·.1.toNat)
def u32At (bs : Bytes) (off : Nat) : Option Nat := (rd32 (bs.drop off)).map (·.1.toNat)

def exactShow : ExactRes → String
  | .ok bs => toHex bs
  | .err e => Out.className (.io e)
  | .panic => "panic"

/-- Sequence of `read_exact` calls, stopping at the first failure. -/
def rxSeq (s : Scripted) : List Nat → List String → List String
  | [], acc => acc.reverse
  | n :: ns, acc =>
    match readExact scripted s n with
    | (.ok bs, s') => rxSeq s' ns (toHex bs :: acc)
    | (r, _) => (exactShow r :: acc).reverse

def splitLoop : Nat → Bytes → List Nat → List Nat → List Bytes → List Bytes
  | 0, _, _, _, acc => acc.reverse
  | fuel + 1, data, full, cur, acc =>
    if data.isEmpty then acc.reverse
    else
      let nb := nextBuf full cur
      splitLoop fuel (data.drop nb.1) full nb.2 (data.take nb.1 :: acc)

/-- The caller's chunks: sizes used cyclically (zero = an empty `write_all`); all-zero or empty
schedule = one chunk. -/
def splitBy (data : Bytes) (sizes : List Nat) : List Bytes :=
  if sizes.all (· == 0) then [data]
  else splitLoop ((data.length + 1) * (sizes.length + 1)) data sizes sizes []

/-- A compressed entry under the codec hypothesis: the decoder's output is `plain`, delivered in
some chunking; the CRC layer on top. -/
def decodedShow (_method : Nat) (check : UInt32) (plain : Bytes) (inner bufs : List Nat) (len : Nat) :
    String :=
  let st : Scripted := ⟨plain, inner, inner, none⟩
  driveShow (crcLayer scripted check false) (st, Crc32.init) bufs (max len plain.length) false

/-- The model of one archive entry read through the public API, from the central (seekable reader)
or local (streaming reader) header fields. -/
def entryOp (a : Args) : Option String := do
  let archive ← a.hex? "archive"
  let lh ← a.nat? "lh"
  let inner ← sched a "inner"
  let bufs ← sched a "bufs"
  let stream := (a.get? "stream") == some "1"
  let pw := a.hex? "pw"
  let plain := a.hex? "plain"
  -- header fields
  let (flags, method, time, crc, csize) ←
    if stream then do
      let f ← u16At archive (lh + 6); let m ← u16At archive (lh + 8); let t ← u16At archive (lh + 10)
      let c ← u32At archive (lh + 14); let z ← u32At archive (lh + 18)
      pure (f, m, t, c, z)
    else do
      let ch ← a.nat? "ch"
      let f ← u16At archive (ch + 8); let m ← u16At archive (ch + 10); let t ← u16At archive (ch + 12)
      let c ← u32At archive (ch + 16); let z ← u32At archive (ch + 20)
      pure (f, m, t, c, z)
  let nameLen ← u16At archive (lh + 26)
  let extraLen ← u16At archive (lh + 28)
  let dstart := lh + 30 + nameLen + extraLen
  let encrypted := flags % 2 == 1
  let descriptor := (flags / 8) % 2 == 1
  let check := UInt32.ofNat crc
  let src0 : Scripted := ⟨archive.drop dstart, inner, inner, none⟩
  let len := archive.length
  if stream && encrypted then some "err unsupported"
  else if stream && descriptor then some "err unsupported"
  else if encrypted && pw.isNone then some "err passwordrequired"
  else if encrypted then
    let pwb := pw.getD []
    let expect : UInt8 := if descriptor then UInt8.ofNat (time / 256) else UInt8.ofNat (crc / 16777216)
    match zcValidate Pk.dec (take scripted) (src0, csize) (Pk.derive pwb) expect with
    | .wrongPassword => some "badpw"
    | .err e => some (Out.className (.io e))
    | .panic => some "panic"
    | .valid st =>
      if method == 0 then
        some (driveShow (entryPipelineZc storedCodec Pk.dec scripted check) (st, Crc32.init) bufs len false)
      else match plain with
        | some p =>
          some (decodedShow method check p inner bufs len)
        | none => none
  else if method == 0 then
    some (driveShow (entryPipeline storedCodec scripted check false) ((src0, csize), Crc32.init) bufs len false)
  else match plain with
    | some p =>
      some (decodedShow method check p inner bufs len)
    | none => none

def opLayers (op : String) (a : Args) : Option String := do
  match op with
  | "layers.crc" =>
    let data ← a.hex? "data"; let check ← a.nat? "check"; let ae2 ← a.nat? "ae2"
    let inner ← sched a "inner"; let bufs ← sched a "bufs"
    let s : Scripted := ⟨data, inner, inner, failArg a⟩
    some (driveShow (crcLayer scripted (UInt32.ofNat check) (ae2 != 0)) (s, Crc32.init) bufs data.length true)
  | "layers.take" =>
    let data ← a.hex? "data"; let limit ← a.nat? "limit"
    let inner ← sched a "inner"; let bufs ← sched a "bufs"
    let s : Scripted := ⟨data, inner, inner, failArg a⟩
    some (driveShow (take scripted) (s, limit) bufs data.length true)
  | "layers.zc" =>
    let pw ← a.hex? "pw"; let ct ← a.hex? "ct"; let v ← a.nat? "v"
    let inner ← sched a "inner"; let bufs ← sched a "bufs"
    let s : Scripted := ⟨ct, inner, inner, failArg a⟩
    match zcValidate Pk.dec scripted s (Pk.derive pw) (UInt8.ofNat (v / 16777216)) with
    | .wrongPassword => some "badpw"
    | .err e => some (Out.className (.io e))
    | .panic => some "panic"
    | .valid st => some (driveShow (zipCryptoLayer Pk.dec scripted) st bufs ct.length true)
  | "layers.rx" =>
    let data ← a.hex? "data"; let inner ← sched a "inner"; let ns ← sched a "ns"
    let s : Scripted := ⟨data, inner, inner, failArg a⟩
    some ("rx " ++ " ".intercalate (rxSeq s ns []))
  | "layers.entry" => entryOp a
  | "layers.xentry" => some "same sound"
  | "layers.write" =>
    let data ← a.hex? "data"; let sizes ← sched a "sizes"; let wsched ← sched a "wsched"
    let chunks := splitBy data sizes
    let st0 : ZwState SSink := ⟨⟨[], wsched, wsched⟩, Crc32.init, 0, false, false⟩
    match writeAllSeq (zipWriterWr scriptedSink) st0 chunks with
    | (.ok (), st) =>
      let same := if st.sink.contents == data then 1 else 0
      some s!"written crc={(Crc32.finalize st.reg).toNat} size={st.written} same={same}"
    | (.err e, _) => some (Out.className e)
    | (.panic _, _) => some "panic"
  | _ => none

end Driver
