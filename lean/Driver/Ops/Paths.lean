import Driver.Proto
import ZipVerif.Model.Paths
/- C06 ops: `paths.*`

`paths.name name=<hex of the UTF-8 name>` → `<some|none> enclosed=<none|comps> mangled=<comps>` where `comps` is
`-` for the empty list, otherwise the components joined by '/': `R` RootDir, `.` CurDir, `..`
ParentDir, lower-case hex of the UTF-8 bytes for Normal (never empty, so the rendering is
unambiguous).

`paths.wrappers` → the assumed bodies of the two unreachable `ZipStreamFileMetadata` wrappers.

`enclosed` renders `components p` for `enclosedName n = some p`.  `mangled` renders
`(mangledComps n).map Comp.normal`, which is `components (mangledName n)` by the theorem
`ZipVerif.Props.C06.mangled_components` (folding up to 32 K components into a `List Char` buffer with
`++` would be quadratic on the 64 KiB names). -/

namespace Driver
open ZipVerif ZipVerif.Spec.Paths ZipVerif.Model.Paths

def hexOfName (s : Name) : String := toHex (String.ofList s).toUTF8.toList

def showComp : Comp → String
  | .rootDir => "R"
  | .curDir => "."
  | .parentDir => ".."
  | .normal s => hexOfName s

def showComps (cs : List Comp) : String :=
  if cs.isEmpty then "-" else "/".intercalate (cs.map showComp)

def opPaths (op : String) (a : Args) : Option String := do
  match op with
  | "paths.name" =>
    let bs ← a.hex? "name"
    match String.fromUTF8? (ByteArray.mk bs.toArray) with
    | none => some "bad-utf8"
    | some s =>
      let n : Name := s.toList
      let (cls, e) := match enclosedName n with
        | some p => ("some", showComps (components p))
        | none => ("none", "none")
      some s!"{cls} enclosed={e} mangled={showComps ((mangledComps n).map Comp.normal)}"
  | "paths.wrappers" =>
    -- `ZipStreamFileMetadata::{mangled_name, enclosed_name}` (pub(crate) module, unreachable from the
    -- harness) are modelled as direct calls of the two `ZipFileData` functions modelled above; the
    -- harness prints their source bodies.
    some "wrappers mangled=self.0.file_name_sanitized() enclosed=self.0.enclosed_name()"
  | _ => none

end Driver
