import Driver.Proto
import Driver.Ops.Write
import ZipVerif.Model.Reader
import ZipVerif.Model.CryptoExt
import ZipVerif.Model.Writer
/- Ops `read.*`: seekable and streaming reader over a byte string, and `new_append` on the same bytes. -/

namespace Driver
open ZipVerif ZipVerif.Model

structure CodecRow where
  method : Nat
  rawCrc : Nat
  rawLen : Nat
  result : Out Bytes

/-- a row `B:<method>:<crc32 of the compressed stream>:<its length>:<k>:<hex>`: the bytes the codec library
hands out before its error to a consumer that asks for `k` bytes (`Ext.decodeBefore`) -/
structure BeforeRow where
  method : Nat
  rawCrc : Nat
  rawLen : Nat
  k : Nat
  bytes : Bytes

def parseErrClass (s : String) : ZErr :=
  match s with
  | "io:eof" => .io .unexpectedEof
  | "io:other" => .io .other
  | "io:invaliddata" => .io .invalidData
  | "io:invalidinput" => .io .invalidInput
  | "invalid" => .invalidArchive
  | "unsupported" => .unsupportedArchive
  | _ => .io .other

def parseCodec (s : String) : List CodecRow :=
  if s == "-" || s == "" then [] else
  (s.splitOn ";").filterMap fun row =>
    match row.splitOn ":" with
    | [m, c, l, "ok", d] => do
      let m ← m.toNat?; let c ← c.toNat?; let l ← l.toNat?; let d ← parseHex d
      some ⟨m, c, l, .ok d⟩
    | [m, c, l, "err", k1, k2] => do
      let m ← m.toNat?; let c ← c.toNat?; let l ← l.toNat?
      some ⟨m, c, l, .err (parseErrClass (k1 ++ ":" ++ k2))⟩
    | [m, c, l, "err", k] => do
      let m ← m.toNat?; let c ← c.toNat?; let l ← l.toNat?
      some ⟨m, c, l, .err (parseErrClass k)⟩
    | _ => none

def parseBefore (s : String) : List BeforeRow :=
  if s == "-" || s == "" then [] else
  (s.splitOn ";").filterMap fun row =>
    match row.splitOn ":" with
    | ["B", m, c, l, k, d] => do
      let m ← m.toNat?; let c ← c.toNat?; let l ← l.toNat?; let k ← k.toNat?; let d ← parseHex d
      some ⟨m, c, l, k, d⟩
    | _ => none

/-- FNV-1a, 64 bit (the harness's fingerprint of an HMAC message) -/
def fnv1a64 (bs : Bytes) : UInt64 :=
  bs.foldl (fun h b => (h ^^^ b.toUInt64) * 0x100000001b3) 0xcbf29ce484222325

/-- a key stream cut into its 16-byte blocks -/
def blocks16 : Nat → Bytes → Array Bytes → Array Bytes
  | 0, _, acc => acc
  | f + 1, bs, acc => if bs.isEmpty then acc else blocks16 f (bs.drop 16) (acc.push (bs.take 16))

/-- a row `salt:dk:ks:mlen:mh:mac` of the `aesp=` argument (computed by the harness with the RustCrypto crates for
the line's password): PBKDF2-HMAC-SHA1(pw, salt) of `dk.length` bytes; the AES key stream of the key `dk[..k]`
(`k = (dk.length - 2) / 2`), one 16-byte block per counter value from 1; HMAC-SHA1 under the key `dk[k..2k]` of the
message of length `mlen` whose FNV-1a hash is `mh`. -/
structure AesRow where
  salt : Bytes
  dk : Bytes
  ks : Array Bytes
  mlen : Nat
  mh : UInt64
  mac : Bytes

def AesRow.k (r : AesRow) : Nat := (r.dk.length - 2) / 2

def parseAesRows (s : String) : List AesRow :=
  if s == "-" || s == "" then [] else
  (s.splitOn ";").filterMap fun row =>
    match row.splitOn ":" with
    | [salt, dk, ks, mlen, mh, mac] => do
      let salt ← parseHex salt; let dk ← parseHex dk; let ks ← parseHex ks
      let mlen ← mlen.toNat?; let mh ← mh.toNat?; let mac ← parseHex mac
      some ⟨salt, dk, blocks16 (ks.length / 16 + 1) ks #[], mlen, UInt64.ofNat mh, mac⟩
    | _ => none

/-- The uninterpreted primitives of `Model/Aes.lean` as look-ups into the rows of the op line (a miss yields an
output of the wrong length: the password verifier then differs and the model answers `invalidpw`, which shows up
as a disagreement - never as agreement by construction). -/
def rowPrims (pw : Bytes) (rows : List AesRow) : Aes.AesPrims where
  pbkdf2 p salt n :=
    if p != pw then [] else
    match rows.find? (fun r => r.salt == salt && r.dk.length == n) with
    | some r => r.dk
    | none => []
  block key inp :=
    if inp.length != 16 then [] else
    match rows.find? (fun r => r.dk.take r.k == key) with
    | some r =>
      let c := Aes.fromLE inp
      if c = 0 then [] else (r.ks[c - 1]?).getD []
    | none => []
  hmac key msg :=
    match rows.find? (fun r => (r.dk.drop r.k).take r.k == key && msg.length == r.mlen && fnv1a64 msg == r.mh) with
    | some r => r.mac
    | none => []

def mkExtB (rows : List CodecRow) (before : List BeforeRow) (P : Aes.AesPrims := rowPrims [] []) : Ext where
  decode m raw :=
    match m with
    | .stored => .ok raw
    | m =>
      let c := (Spec.Crc32.crc32 raw).toNat
      match rows.find? (fun r => r.method == m.toU16.toNat && r.rawCrc == c && r.rawLen == raw.length) with
      | some r => r.result
      | none => .panic "codec-table-miss"
  decodeBefore m raw k :=
    if before.isEmpty then [] else
    let c := (Spec.Crc32.crc32 raw).toNat
    match before.find? (fun r => r.method == m.toU16.toNat && r.rawCrc == c && r.rawLen == raw.length && r.k == k) with
    | some r => r.bytes
    | none => []
  -- the crate's own decryption layers: the models of zipcrypto.rs and aes.rs (Model/CryptoExt.lean)
  zipCrypto := zipCryptoLayer
  aes := aesLayer P

def mkExt (rows : List CodecRow) : Ext := mkExtB rows []

def showOpt (o : Option UInt32) : String := match o with | some v => toString v.toNat | none => "none"

def showOutBytes (o : Out Bytes) : String :=
  match o with
  | .ok b => s!"ok:{(Spec.Crc32.crc32 b).toNat}:{b.length}"
  | .err e => (Out.className e).replace " " ":"
  | .panic s => "panic:" ++ s

def showMeta (f : FileData) : String :=
  let t := f.time
  s!"name={toHex f.fileName} raw={toHex f.fileNameRaw} m={f.method.toU16.toNat} " ++
  s!"t={t.year.toNat}-{t.month.toNat}-{t.day.toNat}-{t.hour.toNat}-{t.minute.toNat}-{t.second.toNat} " ++
  s!"crc={f.crc32.toNat} cs={f.compressedSize.toNat} us={f.uncompressedSize.toNat} " ++
  s!"mode={showOpt f.unixMode} extra={toHex f.extraField} comment={toHex f.fileComment} " ++
  s!"vmb={f.versionMadeBy.toNat}"

def readSeek (bytes : Bytes) (pw : Option Bytes) (ext : Ext) : String :=
  match openArchive.runPure (Dev.ofBytes bytes) with
  | (.err e, _) => "open=" ++ (Out.className e).replace " " ":"
  | (.panic s, _) => "open=panic:" ++ s
  | (.ok a, d) =>
    let hdr := s!"open=ok n={a.files.length} off={a.offset} comment={toHex a.comment}"
    let per := (List.range a.files.length).map fun i =>
      match a.files[i]? with
      | none => ""
      | some f =>
        let dec := match (byIndexRead ext a i pw).runPure d with
          | (.err e, _) => (Out.className e).replace " " ":"
          | (.panic s, _) => "panic:" ++ s
          | (.ok .invalidPassword, _) => if pw.isSome then "invalidpw" else "err:passwordrequired"
          | (.ok (.ok (ds, res)), _) => s!"ds={ds} {showOutBytes res}"
        let (rawOk, raw) := match (byIndexRaw a i).runPure d with
          | (.err e, _) => (false, (Out.className e).replace " " ":")
          | (.panic s, _) => (false, "panic:" ++ s)
          | (.ok (_, r), _) => (true, s!"ok:{(Spec.Crc32.crc32 r).toNat}:{r.length}")
        let byname := match a.indexOfName f.fileName with
          | some j =>
            (match (byIndexRead ext a j none).runPure d with
              | (.err e, _) => (Out.className e).replace " " ":"
              | (.panic s, _) => "panic:" ++ s
              | (.ok .invalidPassword, _) => "err:passwordrequired"
              | (.ok (.ok _), _) =>
                match a.files[j]? with
                | some g => toString g.centralHeaderStart.toNat
                | none => "none")
          | none => "err:notfound"
        -- metadata is observable only through a handle, i.e. when `find_content` succeeds
        if rawOk then
          s!" | {i} {showMeta f} hs={f.headerStart.toNat} chs={f.centralHeaderStart.toNat} rawread={raw} dec={dec} byname={byname}"
        else s!" | {i} nometa rawread={raw} dec={dec}"
    hdr ++ String.join per

def readStream (bytes : Bytes) (ext : Ext) : String :=
  match (streamVisit ext).runPure (Dev.ofBytes bytes) with
  | (.err e, _) => "visit=" ++ (Out.className e).replace " " ":"
  | (.panic s, _) => "visit=panic:" ++ s
  | (.ok (files, metas), _) =>
    let fs := files.map fun (f, res) => s!" | file {showMeta f} dec={showOutBytes res}"
    let ms := metas.map fun f =>
      s!" | meta name={toHex f.fileName} raw={toHex f.fileNameRaw} mode={showOpt f.unixMode} comment={toHex f.fileComment}"
    s!"visit=ok files={files.length} metas={metas.length}" ++ String.join fs ++ String.join ms

/-- `read.append`: `ZipWriter::new_append(bytes)` → `append=<class>` | `append=ok n=<entries>
ds=<directory start>` + the outcome of `finish()`: `fin=<class>` | `fin=ok final=crc:<crc32>:<len>`;
`fin=skipped` (hard guard, unreachable since the D16 fix) when the directory start lies more than
1 MiB beyond the input (finish would zero-fill up to it: neither side executes that). The device position after `newAppend` is the directory start. -/
def readAppend (bytes : Bytes) : String :=
  let cls (e : ZErr) : String := (Out.className e).replace " " ":"
  match newAppend.runPure (Dev.ofBytes bytes) with
  | (.err e, _) => "append=" ++ cls e
  | (.panic s, _) => "append=panic:" ++ s
  | (.ok s, d) =>
    let head := s!"append=ok n={s.files.length} ds={d.pos}"
    if d.pos > bytes.length + 1048576 then head ++ " fin=skipped" else
    match (finish (mkWExt [] []) s).runPure d with
    | (.ok (.ok (), _), d') =>
      head ++ s!" fin=ok final=crc:{(Spec.Crc32.crc32 d'.buf).toNat}:{d'.buf.length}"
    | (.ok (.error e, _), _) => head ++ " fin=" ++ cls e
    | (.err e, _) => head ++ " fin=" ++ cls e
    | (.panic _, _) => head ++ " fin=panic"

/-- `read.mem`: `ZipArchive::new(bytes)` only. -/
def readMem (bytes : Bytes) : String :=
  match openArchive.runPure (Dev.ofBytes bytes) with
  | (.err e, _) => "open=" ++ (Out.className e).replace " " ":"
  | (.panic s, _) => "open=panic:" ++ s
  | (.ok a, _) => s!"open=ok n={a.files.length}"
/-- `read.streamc`: the entry loop under the consumers `pattern` (`consume=` the decoded bytes each asks for;
`pulled=` the compressed bytes its reads pull through the `Take`, by default as many as it asks for — exact
for Stored entries, and nothing printed depends on it: `Props.C10.drain_positions`). -/
def readStreamC (bytes : Bytes) (ext : Ext) (pattern : List Consume) : String :=
  match (streamEntriesC ext pattern (bytes.length / 30 + 1) 0).runPure (Dev.ofBytes bytes) with
  | (.err e, _) => "end=" ++ (Out.className e).replace " " ":"
  | (.panic s, _) => "end=panic:" ++ s
  | (.ok files, _) =>
    let fs := files.map fun (f, res) => s!" | {showMeta f} got={showOutBytes res}"
    s!"end=ok files={files.length}" ++ String.join fs

def opRead (op : String) (a : Args) : Option String := do
  let bytes ← a.hex? "bytes"
  let ext := mkExt (parseCodec ((a.get? "codec").getD "-"))
  match op with
  | "read.seek" =>
    let pw := match a.get? "pw" with
      | some s => if s == "none" then none else parseHex s
      | none => none
    let ext := match pw with
      | some p => mkExtB (parseCodec ((a.get? "codec").getD "-")) [] (rowPrims p (parseAesRows ((a.get? "aesp").getD "-")))
      | none => ext
    some (readSeek bytes pw ext)
  | "read.stream" => some (readStream bytes ext)
  | "read.append" => some (readAppend bytes)
  | "read.mem" => some (readMem bytes)
  | "read.streamc" =>
    let pat ← (a.get? "consume").bind natList?
    let pat := if pat.isEmpty then [0] else pat
    let pulled := ((a.get? "pulled").bind natList?).getD []
    let chunk := (a.nat? "cbuf").getD 65536
    let cs : List Consume := (List.range pat.length).map fun i =>
      let k := pat.getD i 0
      { k, pulled := (pulled[i % pulled.length]?).getD k, chunk }
    some (readStreamC bytes (mkExtB (parseCodec ((a.get? "codec").getD "-")) (parseBefore ((a.get? "codec").getD "-"))) cs)
  | _ => none

end Driver
