import Driver.Proto
import ZipVerif.Spec.ZipView
import ZipVerif.Spec.ZipOrder
import ZipVerif.Spec.Crc32
/- Ops `spec.*`: the Lean reference builder `Spec.Zip.build` and the expected reader view
   `Spec.Zip.viewOf` evaluated on a layout given by parameters (cross-checked by the harness against
   the independent Rust builder, the real crate's reader and CPython `zipfile`). -/

namespace Driver
open ZipVerif ZipVerif.Spec.Zip ZipVerif.Model

def descOf (n : Nat) : Desc :=
  match n with
  | 1 => .sig32 | 2 => .nosig32 | 3 => .sig64 | 4 => .nosig64 | _ => .none

/-- `madeBy,ver,flags,method,time,date,crc,usize,name,cextra,comment,iattr,xattr,z64bits,lextra,lz64,
desc,gap,data,lver` (numbers decimal, byte strings hex or `-`, `lver` = 65536 for "same as central"). -/
def parseSpecEntry (s : String) : Option Entry :=
  match s.splitOn "," with
  | [mb, ver, fl, me, ti, da, crc, us, name, cx, cm, ia, xa, z, lx, lz, de, gap, data, lv] => do
    let z ← z.toNat?
    let lv ← lv.toNat?
    some
      { madeBy := UInt16.ofNat (← mb.toNat?), versionNeeded := UInt16.ofNat (← ver.toNat?)
        flags := UInt16.ofNat (← fl.toNat?), method := UInt16.ofNat (← me.toNat?)
        time := UInt16.ofNat (← ti.toNat?), date := UInt16.ofNat (← da.toNat?)
        crc := UInt32.ofNat (← crc.toNat?), usize := UInt64.ofNat (← us.toNat?)
        name := ← parseHex name, centralExtra := ← parseHex cx, comment := ← parseHex cm
        internalAttrs := UInt16.ofNat (← ia.toNat?), externalAttrs := UInt32.ofNat (← xa.toNat?)
        z64 := (z % 2 == 1, z / 2 % 2 == 1, z / 4 % 2 == 1)
        localExtra := ← parseHex lx, localZip64 := (← lz.toNat?) == 1
        desc := descOf (← de.toNat?), gapBefore := ← parseHex gap, data := ← parseHex data
        localVersion := if lv ≥ 65536 then none else some (UInt16.ofNat lv) }
  | _ => none

def parseLayout (a : Args) : Option Layout := do
  let n ← a.nat? "n"
  let rep := (a.nat? "rep").getD 1
  let es ← (List.range n).mapM fun i => (a.get? s!"e{i}").bind parseSpecEntry
  let es := if rep ≤ 1 then es else (List.replicate rep es).flatten
  some
    { pre := ← a.hex? "pre", entries := es, gapBeforeCd := ← a.hex? "gapcd", comment := ← a.hex? "comment"
      zip64End := (← a.nat? "z64end") == 1, trailing := ← a.hex? "trailing"
      end64Versions := (UInt16.ofNat ((a.nat? "v64a").getD 45), UInt16.ofNat ((a.nat? "v64b").getD 45)) }

def showOptNat (o : Option UInt32) : String := match o with | some v => toString v.toNat | none => "none"

/-- no little-endian word `sig` starts at any of the first `n` positions of `bs` -/
def noSigIn (sig : UInt32) : Nat → Bytes → Bool
  | 0, _ => true
  | n + 1, bs =>
    match rd32 bs with
    | some (w, _) => w != sig && noSigIn sig n (bs.drop 1)
    | none => noSigIn sig n (bs.drop 1)

/-- `Spec.Zip.NoFalseSig l`, computed in one pass over the already built bytes (the definition
recomputes `build l` and the record positions at every probed offset — fine for the kernel on the
examples, quadratic here).  Checked against `decide (NoFalseSig l)` on every small layout below. -/
def noFalseSigFast (l : Layout) (bytes : Bytes) : Bool :=
  let clen := l.comment.length
  let tlen := l.trailing.length
  let n64 := l.needs64
  let eocdPos := bytes.length - 22 - clen - tlen
  let okI := clen + tlen ≤ 65535 && noSigIn sigEocd (clen + tlen) (bytes.drop (eocdPos + 1))
  let okII := n64 || bytes.length < 42 + clen ||
    noSigIn sigLocator 1 (bytes.drop (bytes.length - 42 - clen))
  let okIII := !n64 || noSigIn sigEocd64 l.pre.length (bytes.drop (eocdPos - 76 - l.pre.length))
  okI && okII && okIII

@[noinline] def nfsByDefinition (l : Layout) : Bool := decide (NoFalseSig l)

/-- the hypotheses of `Props.C03.reader_on_wf`, evaluated; `none` = the fast and the defining form of
`NoFalseSig` disagree (driver bug) -/
def hypHolds (l : Layout) (bytes : Bytes) : Option Bool :=
  let fits := l.entries.all (fun e => decide e.Fits) && l.comment.length ≤ 0xFFFF && bytes.length < 2 ^ 63
  let nfs := noFalseSigFast l bytes
  let r := fits && decide l.Readable && nfs && (l.trailing.isEmpty || !l.needs64)
  if bytes.length ≤ 1200 then
    if nfs != nfsByDefinition l then none else some r
  else some r

/-- one entry of the expected view, in the same shape the harness prints the real crate's `ZipFile` -/
def showView (all : List (Entry × Nat × FileData)) (e : Entry) (off : Nat) (pre : Nat) (f : FileData) : String :=
  let t := f.time
  let enc := e.flagsOut &&& 1 == 1
  let dec :=
    if enc then "err:passwordrequired"
    else match f.method with
      | .stored =>
        if Spec.Crc32.crc32 e.data == e.crc then s!"ok:{e.crc.toNat}:{e.data.length}" else "err:io:other"
      | .unsupported _ => "err:unsupported"
      | _ => "skip"
  -- `by_name`: the LAST entry with this decoded name, opened like `by_index` (no password)
  let byname := match (all.filter fun (_, _, g) => g.fileName == f.fileName).getLast? with
    | some (ej, _, g) =>
      if ej.flagsOut &&& 1 == 1 then "err:passwordrequired"
      else match g.method with
        | .unsupported _ => "err:unsupported"
        | _ => toString g.centralHeaderStart.toNat
    | none => "err:notfound"
  s!"name={toHex f.fileName} raw={toHex f.fileNameRaw} m={f.method.toU16.toNat} " ++
  s!"t={t.year.toNat}-{t.month.toNat}-{t.day.toNat}-{t.hour.toNat}-{t.minute.toNat}-{t.second.toNat} " ++
  s!"crc={f.crc32.toNat} cs={f.compressedSize.toNat} us={f.uncompressedSize.toNat} " ++
  s!"mode={showOptNat f.unixMode} extra={toHex f.extraField} comment={toHex f.fileComment} " ++
  s!"vmb={f.versionMadeBy.toNat} hs={f.headerStart.toNat} chs={f.centralHeaderStart.toNat} " ++
  s!"ds={e.dataStart off pre} rawread=ok:{(Spec.Crc32.crc32 e.data).toNat}:{e.data.length} dec={dec} byname={byname}"

def zip3 {α β γ} : List α → List β → List γ → List (α × β × γ)
  | a :: as, b :: bs, c :: cs => (a, b, c) :: zip3 as bs cs
  | _, _, _ => []

def specBuild (l : Layout) : String :=
  let bytes := build l
  let n := bytes.length
  let head := s!"b len={n} crc={(Spec.Crc32.crc32 bytes).toNat} hex={if n ≤ 400 then toHex bytes else "-"}"
  match hypHolds l bytes with
  | none => head ++ " hyp=MISMATCH"
  | some false => head ++ " hyp=0"
  | some true =>
  let views := viewOf l
  let rows := zip3 l.entries (localOffsets l.entries 0) views
  let cnt := rows.length
  let shown := (List.range cnt).zip rows |>.filter fun (i, _) => cnt ≤ 8 || i < 3 || i + 1 == cnt
  let per := shown.map fun (i, (e, off, f)) => s!" | {i} {showView rows e off l.pre.length f}"
  head ++ s!" hyp=1 | open n={cnt} off={l.pre.length} comment={toHex l.comment}" ++ String.join per

/-! ### generalised layouts (`Spec.Zip.LayoutG`): `order=`, `sat=`, `ext=`, `egap=`, `zp=`, `zd=` -/

/-- the generalised parameters of a `spec.build` line; `none` when the line has none of them (a plain layout).
`order` = indices the directory lists (any list: permutation, sub-list, repetitions, out-of-range indices),
`sat` = 1: markers in the plain end record next to forced ZIP64 records, 0: real values, `ext` = extensible
data sector, `egap` = bytes in front of the ZIP64 end record, `zp` / `zd` = per entry (local order) the number of
foreign records in front of the central ZIP64 record / 1 when it carries the disk-start field (value 0). -/
def parseLayoutG (a : Args) (l : Layout) : Option (Option LayoutG) :=
  if (a.get? "order").isNone && (a.get? "sat").isNone && (a.get? "ext").isNone && (a.get? "egap").isNone &&
      (a.get? "zp").isNone && (a.get? "zd").isNone then some none
  else do
    let order ← match a.get? "order" with
      | some s => natList? s
      | none => some (List.range l.entries.length)
    let zp ← match a.get? "zp" with
      | some s => natList? s
      | none => some []
    let zd ← match a.get? "zd" with
      | some s => natList? s
      | none => some []
    let n := max zp.length zd.length
    let places : List Z64Place := (List.range n).map fun i =>
      { pos := match zp[i]? with | some v => v | none => 0
        disk := match zd[i]? with | some 1 => some 0 | _ => none }
    let ext ← match a.get? "ext" with | some _ => a.hex? "ext" | none => some []
    let egap ← match a.get? "egap" with | some _ => a.hex? "egap" | none => some []
    some (some { base := l, cdOrder := order, eocdSaturate := (a.nat? "sat").getD 1 != 0, end64Ext := ext,
                 end64Gap := egap, z64Place := places })

/-- `Spec.Zip.NoFalseSigG g` in one pass over the built bytes (cross-checked against the definition on small
layouts, like `noFalseSigFast`) -/
def noFalseSigFastG (g : LayoutG) (bytes : Bytes) : Bool :=
  let clen := g.base.comment.length
  let tlen := g.base.trailing.length
  let n64 := g.needs64
  let eocdPos := bytes.length - 22 - clen - tlen
  let okI := clen + tlen ≤ 65535 && noSigIn sigEocd (clen + tlen) (bytes.drop (eocdPos + 1))
  let okII := n64 || bytes.length < 42 + clen ||
    noSigIn sigLocator 1 (bytes.drop (bytes.length - 42 - clen))
  let okIII := !n64 ||
    noSigIn sigEocd64 g.base.pre.length (bytes.drop (eocdPos - 76 - g.end64Ext.length - g.base.pre.length))
  okI && okII && okIII

@[noinline] def nfsByDefinitionG (g : LayoutG) : Bool := decide (NoFalseSigG g)

/-- the hypotheses of `Props.C03Order.reader_on_wf_cd_order`, evaluated -/
def hypHoldsG (g : LayoutG) (bytes : Bytes) : Option Bool :=
  let fits := g.base.entries.all (fun e => decide e.Fits) && g.base.comment.length ≤ 0xFFFF &&
    bytes.length < 2 ^ 63 &&
    g.cdList.all (fun q => (q.1.1.centralExtraAllG (UInt64.ofNat q.1.2) q.2).length ≤ 0xFFFF)
  let nfs := noFalseSigFastG g bytes
  let r := fits && decide g.base.Readable && nfs && (g.base.trailing.isEmpty || !g.needs64)
  if bytes.length ≤ 1200 then
    if nfs != nfsByDefinitionG g then none else some r
  else some r

/-- bytes of `buildG`, then the view `viewOfG` that `reader_on_wf_cd_order` says the reader returns -/
def specBuildG (g : LayoutG) : String :=
  let bytes := buildG g
  let n := bytes.length
  let head := s!"b len={n} crc={(Spec.Crc32.crc32 bytes).toNat} hex={if n ≤ 400 then toHex bytes else "-"}"
  match hypHoldsG g bytes with
  | none => head ++ " hyp=MISMATCH"
  | some false => head ++ " hyp=0"
  | some true =>
  let views := viewOfG g
  let rows := zip3 (g.cdList.map (·.1.1)) (g.cdList.map (·.1.2)) views
  let cnt := rows.length
  let shown := (List.range cnt).zip rows |>.filter fun (i, _) => cnt ≤ 8 || i < 3 || i + 1 == cnt
  let per := shown.map fun (i, (e, off, f)) => s!" | {i} {showView rows e off g.base.pre.length f}"
  head ++ s!" hyp=1 | open n={cnt} off={g.base.pre.length} comment={toHex g.base.comment}" ++ String.join per

def opSpec (op : String) (a : Args) : Option String := do
  match op with
  | "spec.build" =>
    let l ← parseLayout a
    match ← parseLayoutG a l with
    | none => some (specBuild l)
    | some g => some (specBuildG g)
  | _ => none

end Driver
