import Driver.Proto
import ZipVerif.Model.Text
import ZipVerif.Model.Reader
/- C19 ops: `text.*`.  Scalars are printed as comma-separated lower-case hex (`-` = empty); every
   successful response starts with the class token `ok`. -/

namespace Driver
open ZipVerif ZipVerif.Model ZipVerif.Spec

def hexNat (n : Nat) : String := String.ofList (Nat.toDigits 16 n)

def showScalars (cs : List Char) : String :=
  if cs.isEmpty then "-" else ",".intercalate (cs.map fun c => hexNat c.toNat)

def showOutChars (o : Out (List Char)) : String :=
  match o with
  | .ok cs => "ok " ++ showScalars cs
  | .err e => Out.className e
  | .panic _ => "panic"

def parseHexNat (s : String) : Option Nat :=
  if s.isEmpty then none else
  s.toList.foldlM (fun acc c => (hexVal c).map (acc * 16 + ·)) 0

/-- `chars=` argument: comma-separated hex scalar values; every one must be a Unicode scalar value. -/
def parseChars (s : String) : Option (List Char) :=
  if s == "-" || s == "" then some [] else
  (s.splitOn ",").mapM fun t => do
    let n ← parseHexNat t
    if h : n.isValidChar then some (Char.ofNatAux n h) else none

/-- FNV-1a (64 bit) over scalar values (4 little-endian bytes each), `0xFF` after each sequence. -/
def fnvByte (h : UInt64) (b : UInt64) : UInt64 := (h ^^^ b) * 0x100000001b3

def fnvScalars (h : UInt64) (cs : List Char) : UInt64 :=
  let h := cs.foldl (fun h c =>
    let v := c.val.toUInt64
    fnvByte (fnvByte (fnvByte (fnvByte h (v &&& 0xff)) ((v >>> 8) &&& 0xff)) ((v >>> 16) &&& 0xff))
      ((v >>> 24) &&& 0xff)) h
  fnvByte h 0xff

def hex16 (h : UInt64) : String :=
  let d := Nat.toDigits 16 h.toNat
  String.ofList (List.replicate (16 - d.length) '0' ++ d)

def opText (op : String) (a : Args) : Option String := do
  match op with
  | "text.cp437" =>
    let bs ← a.hex? "bytes"
    some (showOutChars (fromCp437 bs))
  | "text.utf8lossy" =>
    let bs ← a.hex? "bytes"
    some ("ok " ++ showScalars (utf8Lossy bs))
  | "text.utf8block" =>
    -- all 256 one-byte extensions of `prefix`, lossy-decoded, digested in order
    let p ← a.hex? "prefix"
    let h := (List.range 256).foldl (fun h x => fnvScalars h (utf8Lossy (p ++ [UInt8.ofNat x])))
      0xcbf29ce484222325
    some ("ok " ++ hex16 h)
  | "text.name" =>
    let flag ← a.nat? "flag"
    let name ← a.hex? "name"
    let comment ← a.hex? "comment"
    let flags : UInt16 := if flag != 0 then 0x0800 else 0
    -- central header (ZipArchive) and local header (streaming reader) decode under the same rule
    let central := match centralNameFields flags name comment with
      | .ok f => s!"ok name={showScalars f.fileName} comment={showScalars f.fileComment} raw={toHex f.fileNameRaw}"
      | .err e => Out.className e
      | .panic _ => "panic"
    let stream := match decodeName (isUtf8Flag flags) name with
      | .ok n => s!"sname={showScalars n} sraw={toHex name}"
      | .err e => Out.className e
      | .panic _ => "panic"
    some s!"{central} {stream}"
  | "text.arch" =>
    -- the WHOLE reader model on the archive bytes: `ZipArchive::new` (central header parser incl.
    -- `parse_extra_field`) and `read_zipfile_from_stream` (local header parser); names are printed as the
    -- scalar values of the `String` the model holds (its UTF-8 bytes decoded back, `utf8Lossy_encode`)
    let zip ← a.hex? "zip"
    match openArchive.runPure (Dev.ofBytes zip) with
    | (.err e, _) => some (Out.className e)
    | (.panic _, _) => some "panic"
    | (.ok ar, _) =>
    match ar.files[0]? with
    | none => some "err notfound"
    | some f =>
    let central := s!"ok name={showScalars (utf8Lossy f.fileName)} comment={showScalars (utf8Lossy f.fileComment)} raw={toHex f.fileNameRaw}"
    let stream := match streamHeader.runPure (Dev.ofBytes zip) with
      | (.ok (some f), _) => s!"sname={showScalars (utf8Lossy f.fileName)} sraw={toHex f.fileNameRaw}"
      | (.ok none, _) => "err nofile"
      | (.err e, _) => Out.className e
      | (.panic _, _) => "panic"
    some s!"{central} {stream}"
  | "text.write" =>
    let cs ← (a.get? "chars").bind parseChars
    let enc := (a.get? "enc") == some "1"
    match writerStoreName cs enc with
    | .err e => some (Out.className e)
    | .panic _ => some "panic"
    | .ok st =>
      let back := match readBackName st with
        | .ok f => s!"back={showScalars f.fileName} raw={toHex f.fileNameRaw}"
        | .err e => Out.className e
        | .panic _ => "panic"
      some s!"ok stored={toHex st.bytes} len={st.lenField.toNat} flag={if isUtf8Flag st.flags then 1 else 0} bit0={(st.flags &&& 1).toNat} {back}"
  | _ => none

end Driver
