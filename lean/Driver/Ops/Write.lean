import Driver.Proto
import ZipVerif.Model.Writer
import ZipVerif.Model.Reader
import ZipVerif.Model.InterruptedW
/- Ops `write.*`: a sequence of `ZipWriter` calls → per-call outcome + final sink bytes. -/

namespace Driver
open ZipVerif ZipVerif.Model

structure CompRow where
  method : Nat
  level : Int
  crc : Nat
  len : Nat
  out : Bytes

structure ZcRow where
  pw : Bytes
  crc : Nat
  len : Nat
  out : Bytes

def parseComp (s : String) : List CompRow :=
  if s == "-" || s == "" then [] else
  (s.splitOn ";").filterMap fun row =>
    match row.splitOn ":" with
    | [m, l, c, n, h] => do
      some ⟨← m.toNat?, ← l.toInt?, ← c.toNat?, ← n.toNat?, ← parseHex h⟩
    | _ => none

def parseZc (s : String) : List ZcRow :=
  if s == "-" || s == "" then [] else
  (s.splitOn ";").filterMap fun row =>
    match row.splitOn ":" with
    | [p, c, n, h] => do some ⟨← parseHex p, ← c.toNat?, ← n.toNat?, ← parseHex h⟩
    | _ => none

def mkWExt (comp : List CompRow) (zc : List ZcRow) : WExt where
  compress m l plain :=
    let c := (Spec.Crc32.crc32 plain).toNat
    match comp.find? (fun r => r.method == m.toU16.toNat && r.level == l && r.crc == c && r.len == plain.length) with
    | some r => r.out
    | none => [0xde, 0xad, 0xbe, 0xef]    -- table miss: shows up as a byte disagreement
  zcEncrypt pw buf :=
    let c := (Spec.Crc32.crc32 buf).toNat
    match zc.find? (fun r => r.pw == pw && r.crc == c && r.len == buf.length) with
    | some r => r.out
    | none => [0xde, 0xad, 0xbe, 0xef]

def optTok (s : String) : Option String := if s == "n" then none else some s

def parseOpts (xs : List String) : Option FileOptions :=
  match xs with
  | [m, l, dp, tp, perm, large, pw] => do
    let m ← m.toNat?
    let level ← (match optTok l with | none => some none | some v => v.toInt?.map some)
    let dp ← dp.toNat?; let tp ← tp.toNat?
    let permissions ← (match optTok perm with | none => some none | some v => v.toNat?.map (fun n => some (UInt32.ofNat n &&& 0o777)))  -- `unix_permissions`: `mode & 0o777`
    let encryptWith ← (match optTok pw with | none => some none | some v => (parseHex v).map some)
    some { method := Method.fromU16 (UInt16.ofNat m), level,
           time := DateTime.fromMsdos (UInt16.ofNat dp) (UInt16.ofNat tp),
           permissions, largeFile := large == "1", encryptWith }
  | _ => none

def showExc {α} (r : Except ZErr α) (f : α → String) : String :=
  match r with
  | .ok a => f a
  | .error e => (Out.className e).replace " " ":"

/-- the writer's step functions, either the writer model's (`Model/Writer.lean`, tied to the translated source) or the
generic writer `GW` at `MI` - std's `Interrupted` convention (`Model/InterruptedW.lean`): `write_all` on the sink and the
callers' `write_all` over `ZipWriter::write` retry, `seek` / `flush` do not.  `GW` at `M` IS the writer model
(`GW.step_M`); the `MI` instance is used for `fault.write … kind=interrupted` only. -/
structure WSteps where
  startFile : WExt → Bytes → FileOptions → Step Unit
  startFileWithExtraData : WExt → Bytes → FileOptions → Step Nat
  startFileAligned : WExt → Bytes → FileOptions → UInt16 → Step Nat
  writeData : Bytes → Step Unit
  endLocalStartCentral : WExt → Step Nat
  endExtraData : WExt → Step Nat
  addDirectory : WExt → Bytes → FileOptions → Step Unit
  addSymlink : WExt → Bytes → Bytes → FileOptions → Step Unit
  rawCopy : WExt → FileData → Bytes → Bytes → Step Unit
  finish : WExt → Step Unit
  dropWriter : WExt → Step Unit

def modelSteps : WSteps where
  startFile := Model.startFile
  startFileWithExtraData := Model.startFileWithExtraData
  startFileAligned := Model.startFileAligned
  writeData := Model.writeData
  endLocalStartCentral := Model.endLocalStartCentral
  endExtraData := Model.endExtraData
  addDirectory := Model.addDirectory
  addSymlink := Model.addSymlink
  rawCopy := Model.rawCopy
  finish := Model.finish
  dropWriter := Model.dropWriter

def whole (x : Bytes) : Nat := x.length

def intrSteps : WSteps where
  startFile := fun ext n o => (GW.startFile ext n o : GW.StepG MI Unit)
  startFileWithExtraData := fun ext n o => (GW.startFileWithExtraData ext n o : GW.StepG MI Nat)
  startFileAligned := fun ext n o a => (GW.startFileAligned whole ext n o a : GW.StepG MI Nat)
  writeData := fun b => (GW.writeData whole b : GW.StepG MI Unit)
  endLocalStartCentral := fun ext => (GW.endLocalStartCentral ext : GW.StepG MI Nat)
  endExtraData := fun ext => (GW.endExtraData ext : GW.StepG MI Nat)
  addDirectory := fun ext n o => (GW.addDirectory ext n o : GW.StepG MI Unit)
  addSymlink := fun ext n t o => (GW.addSymlink whole ext n t o : GW.StepG MI Unit)
  rawCopy := fun ext src raw n => (GW.rawCopy whole ext src raw n : GW.StepG MI Unit)
  finish := fun ext => (GW.finish ext : GW.StepG MI Unit)
  dropWriter := fun ext => (GW.dropWriter ext : GW.StepG MI Unit)

/-- Execute one call token; returns the response token and the new (state, device), or a panic. -/
def stepCall (ext : WExt) (srcs : List (Archive × Dev)) (tok : String) (s : WState) (d : Dev)
    (fa : Option Nat := none) (W : WSteps := modelSteps) : Option (String × WState × Dev) :=
  let run {α} (st : Step α) (f : α → String) : Option (String × WState × Dev) :=
    match (st s) fa d with
    | (.ok (r, s'), d') => some (showExc r f, s', d')
    | (.err e, d') => some ((Out.className e).replace " " ":", s, d')   -- not produced by Step functions
    | (.panic _, _) => none
  match tok.splitOn "," with
  | "sf" :: name :: opts => do
    let n ← parseHex name; let o ← parseOpts opts
    run (W.startFile ext n o) fun _ => "ok"
  | "sx" :: name :: opts => do
    let n ← parseHex name; let o ← parseOpts opts
    run (W.startFileWithExtraData ext n o) fun v => s!"ok={v}"
  | ["sa", name, m, l, dp, tp, perm, large, pw, al] => do
    let n ← parseHex name; let o ← parseOpts [m, l, dp, tp, perm, large, pw]; let al ← al.toNat?
    run (W.startFileAligned ext n o (UInt16.ofNat al)) fun v => s!"ok={v}"
  | ["w", h] => do
    let b ← parseHex h
    run (W.writeData b) fun _ => "ok"
  | ["fl"] => run flushWriter fun _ => "ok"
  | ["el"] => run (W.endLocalStartCentral ext) fun v => s!"ok={v}"
  | ["ex"] => run (W.endExtraData ext) fun v => s!"ok={v}"
  | "dir" :: name :: opts => do
    let n ← parseHex name; let o ← parseOpts opts
    run (W.addDirectory ext n o) fun _ => "ok"
  | "sym" :: name :: target :: opts => do
    let n ← parseHex name; let t ← parseHex target; let o ← parseOpts opts
    run (W.addSymlink ext n t o) fun _ => "ok"
  | ["c", h] => do
    let b ← parseHex h
    some ("ok", { s with comment := b }, d)
  | ["rc", si, ei, name] => do
    let si ← si.toNat?; let ei ← ei.toNat?
    let (a, sd) ← srcs[si]?
    -- the source handle comes from `by_index_raw`; its failure is the call's failure
    match (byIndexRaw a ei).runPure sd with
    | (.ok (_, raw), _) =>
      let src ← a.files[ei]?
      let nm ← (if name == "same" then some src.fileName else parseHex name)
      run (W.rawCopy ext src raw nm) fun _ => "ok"
    | (.err e, _) => some ("src:" ++ (Out.className e).replace " " ":", s, d)
    | (.panic _, _) => none
  | ["fin"] => run (W.finish ext) fun _ => "ok"
  | _ => some ("bad-call", s, d)

def showFinal (d : Dev) : String :=
  if d.buf.length ≤ 6000 then s!"final={toHex d.buf}"
  else s!"final=crc:{(Spec.Crc32.crc32 d.buf).toNat}:{d.buf.length}"

def runCallsF (ext : WExt) (srcs : List (Archive × Dev)) (fa : Option Nat) (tail : Dev → String)
    (W : WSteps := modelSteps) :
    List String → WState → Dev → List String → String
  | [], s, d, acc =>
    -- the harness drops the writer at the end of every run (after an explicit `drop` this is a no-op)
    match (W.dropWriter ext s) fa d with
    | (.panic _, _) => " ".intercalate ("panic" :: acc).reverse
    | (_, d') => " ".intercalate acc.reverse ++ " " ++ showFinal d' ++ tail d'
  | t :: ts, s, d, acc =>
    if t == "drop" then
      match (W.dropWriter ext s) fa d with
      | (.panic _, _) => " ".intercalate ("panic" :: acc).reverse
      | (.ok (_, _), d') => " ".intercalate ("ok" :: acc).reverse ++ " " ++ showFinal d' ++ tail d'
      | (.err _, d') => " ".intercalate ("ok" :: acc).reverse ++ " " ++ showFinal d' ++ tail d'
    else
    match stepCall ext srcs t s d fa W with
    | none => " ".intercalate ("panic" :: acc).reverse
    | some (r, s', d') => runCallsF ext srcs fa tail W ts s' d' (r :: acc)

def runCalls (ext : WExt) (srcs : List (Archive × Dev)) (calls : List String) (s : WState) (d : Dev)
    (acc : List String) : String :=
  runCallsF ext srcs none (fun _ => "") modelSteps calls s d acc

def opWrite (op : String) (a : Args) : Option String := do
  -- `write.big`: appending to a base with more than 65535 entries (about 5 MB) — an implementation-side
  -- observation (strict parser + append oracle); the list-based model needs minutes on such a base
  if op == "write.big" then some "oracle-only" else
  if op != "write.run" then none else
  let calls := ((a.get? "calls").getD "").splitOn ";"
  let ext := mkWExt (parseComp ((a.get? "comp").getD "-")) (parseZc ((a.get? "zc").getD "-"))
  let srcs : List (Archive × Dev) := (List.range 8).filterMap fun i =>
    match a.hex? s!"src{i}" with
    | some b =>
      match openArchive.runPure (Dev.ofBytes b) with
      | (.ok ar, d) => some (ar, d)
      | _ => none
    | none => none
  match calls with
  | first :: rest =>
    match first.splitOn "," with
    | ["new"] => some (runCalls ext srcs rest WState.init (Dev.ofBytes []) ["ok"])
    | ["ap", base] => do
      let b ← parseHex base
      match newAppend.runPure (Dev.ofBytes b) with
      | (.ok s, d) => some (runCalls ext srcs rest s d ["ok"])
      | (.err e, d) => some ((Out.className e).replace " " ":" ++ " " ++ showFinal d)
      | (.panic _, _) => some "panic"
    | _ => some "bad-op"
  | [] => some "bad-op"

end Driver
