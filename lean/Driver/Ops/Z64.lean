import Driver.Proto
import ZipVerif.Model.Reader
import ZipVerif.Model.Writer
/- Ops `z64.*`: record-level ZIP64 round trips with arbitrary 64-bit field values (C08). -/

namespace Driver
open ZipVerif ZipVerif.Model

def mkFile (us cs hs : Nat) (extra name : Bytes) (m : Nat) (large : Bool) : FileData :=
  { system := .unix, versionMadeBy := 46, encrypted := false, usingDataDescriptor := false,
    method := Method.fromU16 (UInt16.ofNat m), level := none, time := DateTime.default, crc32 := 0x12345678,
    compressedSize := UInt64.ofNat cs, uncompressedSize := UInt64.ofNat us, fileName := name,
    fileNameRaw := [], extraField := extra, fileComment := [], headerStart := UInt64.ofNat hs,
    centralHeaderStart := 0, dataStart := 0, externalAttributes := (0o100644 : UInt32) <<< 16, largeFile := large,
    aesMode := none }

def opZ64 (op : String) (a : Args) : Option String := do
  match op with
  | "z64.central" =>
    let us ← a.nat? "us"; let cs ← a.nat? "cs"; let hs ← a.nat? "hs"
    let extra ← a.hex? "extra"; let name ← a.hex? "name"; let m ← a.nat? "m"
    let f := mkFile us cs hs extra name m false
    match centralHeaderChunks f with
    | .panic _ => some "panic"
    | .err e => some ((Out.className e).replace " " ":")
    | .ok chunks =>
      let bytes := ser chunks
      let parsed := match (centralHeader 0).runPure (Dev.ofBytes bytes) with
        | (.ok g, _) => s!"ok us={g.uncompressedSize.toNat} cs={g.compressedSize.toNat} hs={g.headerStart.toNat} extra={toHex g.extraField} vn={f.versionNeeded.toNat}"
        | (.err e, _) => (Out.className e).replace " " ":"
        | (.panic _, _) => "panic"
      some s!"bytes={toHex bytes} parsed={parsed}"
  | "z64.local" =>
    let us ← a.nat? "us"; let cs ← a.nat? "cs"
    let name ← a.hex? "name"; let m ← a.nat? "m"; let large := (a.get? "large") == some "1"
    let f := mkFile us cs 0 [] name m large
    match localHeaderChunks f with
    | .panic _ => some "panic"
    | .err e => some ((Out.className e).replace " " ":")
    | .ok chunks => some s!"bytes={toHex (ser chunks)}"
  | "z64.end" =>
    let n ← a.nat? "n"; let size ← a.nat? "size"; let off ← a.nat? "off"
    let e64 : Eocd64 := ⟨46, 46, 0, 0, UInt64.ofNat n, UInt64.ofNat n, UInt64.ofNat size, UInt64.ofNat off⟩
    let loc : Locator := ⟨0, UInt64.ofNat (off + size), 1⟩
    let bytes := ser (eocd64Chunks e64) ++ ser (locatorChunks loc)
    -- parse back: the ZIP64 end record by forward search from offset 0, the locator right after it
    let p1 := match (findEocd64 0 0).runPure (Dev.ofBytes bytes) with
      | (.ok (g, ao), _) => s!"ok n={g.files.toNat} size={g.cdSize.toNat} off={g.cdOffset.toNat} ao={ao}"
      | (.err e, _) => (Out.className e).replace " " ":"
      | (.panic _, _) => "panic"
    let p2 := match parseLocator.runPure { buf := bytes, pos := 56, calls := 0 } with
      | (.ok l, _) => s!"ok off={l.eocd64Offset.toNat} disks={l.disks.toNat}"
      | (.err e, _) => (Out.className e).replace " " ":"
      | (.panic _, _) => "panic"
    some s!"bytes={toHex bytes} end={p1} loc={p2}"
  | "z64.big" | "z64.cguard" | "z64.pos" => some "oracle-only"
  | "z64.rawcopy" =>
    -- the local header `raw_copy_file(_rename)` writes for a source entry `src.bin` (made by Unix, mode 0o100644,
    -- 1980-01-01 00:00, declared CRC `crc`) with the given sizes: `Model.rawCopy` on a fresh writer
    -- over an empty sink, run with an EMPTY raw stream - the 4 GiB of data are not materialised; whether the copy
    -- loop and finish() cope with them is the oracle's part
    let cs ← a.nat? "cs"; let us ← a.nat? "us"; let m ← a.nat? "m"
    let nm ← (match a.get? "name" with
      | some "same" => some "src.bin".toUTF8.toList
      | some h => parseHex h
      | none => none)
    let crc ← a.nat? "crc"
    let src := { mkFile us cs 0 [] "src.bin".toUTF8.toList m false with crc32 := UInt32.ofNat crc }
    let ext : WExt := { compress := fun _ _ _ => [], zcEncrypt := fun _ _ => [] }
    match (rawCopy ext src [] nm WState.init) none (Dev.ofBytes []) with
    | (.ok (.ok _, _), d) => some s!"hdr={toHex d.buf}"
    | (.ok (.error e, _), _) => some ((Out.className e).replace " " ":")
    | (.err e, _) => some ((Out.className e).replace " " ":")
    | (.panic _, _) => some "panic"
  | _ => none

end Driver
