import Driver.Proto
import ZipVerif.Model.ZipCrypto
/- C15 ops: `zc.*` (ZipCrypto cipher, writer, reader, open-time decisions). -/

namespace Driver
open ZipVerif ZipVerif.Model.ZipCrypto

def zcOutBytes : Out Bytes → String
  | .ok b => s!"ok {toHex b}"
  | .err e => Out.className e
  | .panic _ => "panic"

/-- `ok <hex>` | `badpw` | error class | `panic` -/
def zcOutOpt (bad : String) : Out (Option Bytes) → String
  | .ok (some b) => s!"ok {toHex b}"
  | .ok none => bad
  | .err e => Out.className e
  | .panic _ => "panic"

def zcValidator (a : Args) : Option Validator := do
  let v ← a.get? "v"
  let n ← a.nat? "val"
  if v == "crc" then some (.pkzipCrc32 (UInt32.ofNat n))
  else if v == "time" then some (.infoZipMsdosTime (UInt16.ofNat n))
  else none

/-- Sizes of the inner reads when the inner reader hands out at most `chunk` bytes at a time. -/
def zcSizes (len chunk : Nat) : List Nat := List.replicate (len / chunk + 1) chunk

def zcPw (a : Args) : Option (Option Bytes) :=
  match a.get? "pw" with
  | some "none" => some none
  | some s => (parseHex s).map some
  | none => none

def zcFlag (a : Args) (k : String) : Option Bool := (a.nat? k).map (· != 0)

def opZc (op : String) (a : Args) : Option String := do
  match op with
  | "zc.encrypt" =>
    let pw ← a.hex? "pw"; let crc ← a.nat? "crc"; let data ← a.hex? "data"
    some (zcOutBytes (writeEntry pw [data] (UInt32.ofNat crc)))
  | "zc.finish" =>
    let pw ← a.hex? "pw"; let crc ← a.nat? "crc"; let buf ← a.hex? "buf"
    some (zcOutBytes ((Writer.mk buf (derive pw)).finish (UInt32.ofNat crc)))
  | "zc.decrypt" =>
    let pw ← a.hex? "pw"; let ct ← a.hex? "ct"; let v ← zcValidator a
    match a.nat? "chunk" with
    | none => some (zcOutOpt "badpw" (decrypt pw v ct))
    | some chunk =>
      if chunk == 0 then none else
      match (Reader.new ct pw).validate v with
      | .ok (some r) => some s!"ok {toHex (r.readWith (zcSizes r.file.length chunk))}"
      | .ok none => some "badpw"
      | .err e => some (Out.className e)
      | .panic _ => some "panic"
  | "zc.entry" =>
    let pw ← zcPw a; let enc ← zcFlag a "enc"; let dd ← zcFlag a "dd"
    let crc ← a.nat? "crc"; let t ← a.nat? "time"; let raw ← a.hex? "raw"
    let r := match pw with
      | none =>
        -- `by_index`: goes through `byIndex` (InvalidPassword ↦ password required)
        match byIndex enc dd (UInt32.ofNat crc) (UInt16.ofNat t) raw with
        | .ok (.plaintext d) => some <$> crcCheckedRead (UInt32.ofNat crc) d
        | .ok (.zipCrypto r) => some <$> crcCheckedRead (UInt32.ofNat crc) r.readAll
        | .ok .invalidPassword => .ok none
        | .err e => .err e
        | .panic s => .panic s
      | some p => readStoredEntry (some p) enc dd (UInt32.ofNat crc) (UInt16.ofNat t) raw
    some (zcOutOpt "invalidpw" r)
  | "zc.arch" =>
    let pw ← a.hex? "pw"; let data ← a.hex? "data"; let wrong ← a.hex? "wrong"
    let m ← a.get? "m"
    let crc := Spec.Crc32.crc32 data
    let k := derive pw
    let hdr := (encryptAll k (List.replicate 11 (0 : UInt8) ++ [(crc >>> 24).toUInt8])).1
    if m == "stored" then
      let ct := writeEntry pw [data] crc
      let ctb := match ct with | .ok b => b | _ => []
      let cts := match ct with | .ok b => toHex b | .err e => Out.className e | .panic _ => "panic"
      let w := match readStoredEntry (some wrong) true false crc 0 ctb with
        | .ok (some d) => if d = data then "same" else "diff"
        | .ok none => "invalidpw"
        | .err e => Out.className e
        | .panic _ => "panic"
      some s!"arch hdr={toHex hdr} ct={cts} right=same nopw=err passwordrequired wrong={w} plainpw=same"
    else
      -- the compressed payload is a parameter (flate2); the header check is still decided here
      let w := match (Reader.new hdr wrong).validate (.pkzipCrc32 crc) with
        | .ok (some _) => "pass"
        | .ok none => "invalidpw"
        | .err e => Out.className e
        | .panic _ => "panic"
      some s!"arch hdr={toHex hdr} ct=* right=same nopw=err passwordrequired wrong={w} plainpw=same"
  | "zc.foreign" =>
    -- an entry encrypted by another producer decrypts to its content
    let data ← a.hex? "data"
    some s!"ok {toHex data}"
  | _ => none

end Driver
