import Driver.Proto
import Driver.Ops.Read
import ZipVerif.Model.ZipCrypto
/- C15 ops: `zc.*` (ZipCrypto cipher, writer, reader, open-time decisions). -/

namespace Driver
open ZipVerif ZipVerif.Model.ZipCrypto

def zcOutBytes : Out Bytes → String
  | .ok b => s!"ok {toHex b}"
  | .err e => Out.className e
  | .panic _ => "panic"

/-- `ok <hex>` | `badpw` | error class | `panic` -/
def zcOutOpt (bad : String) : Out (Option Bytes) → String
  | .ok (some b) => s!"ok {toHex b}"
  | .ok none => bad
  | .err e => Out.className e
  | .panic _ => "panic"

def zcValidator (a : Args) : Option Validator := do
  let v ← a.get? "v"
  let n ← a.nat? "val"
  if v == "crc" then some (.pkzipCrc32 (UInt32.ofNat n))
  else if v == "time" then some (.infoZipMsdosTime (UInt16.ofNat n))
  else none

/-- Sizes of the inner reads when the inner reader hands out at most `chunk` bytes at a time. -/
def zcSizes (len chunk : Nat) : List Nat := List.replicate (len / chunk + 1) chunk

def zcPw (a : Args) : Option (Option Bytes) :=
  match a.get? "pw" with
  | some "none" => some none
  | some s => (parseHex s).map some
  | none => none

def zcFlag (a : Args) (k : String) : Option Bool := (a.nat? k).map (· != 0)

/-- The decoders are parameters of the model: a table of (method, CRC-32 and length of the input) →
result, computed by the harness with the codec libraries directly. -/
def zcDecoder (rows : List CodecRow) (m : Nat) (raw : Bytes) : Out Bytes :=
  if m == 0 then .ok raw else
  let c := (Spec.Crc32.crc32 raw).toNat
  match rows.find? (fun r => r.method == m && r.rawCrc == c && r.rawLen == raw.length) with
  | some r => r.result
  | none => .panic "codec-table-miss"

def zcMethodNum : String → Option Nat
  | "stored" => some 0 | "deflated" => some 8 | "bzip2" => some 12 | "zstd" => some 93 | _ => none

def zcSame (data : Bytes) : Out (Option Bytes) → String
  | .ok (some d) => if d = data then "same" else "diff"
  | .ok none => "invalidpw"
  | .err e => Out.className e
  | .panic _ => "panic"

def zcOpened : Out (Option Bytes) → String
  | .ok (some _) => "opened"
  | .ok none => "invalidpw"
  | .err e => Out.className e
  | .panic _ => "panic"

def opZc (op : String) (a : Args) : Option String := do
  match op with
  | "zc.encrypt" =>
    let pw ← a.hex? "pw"; let crc ← a.nat? "crc"; let data ← a.hex? "data"
    some (zcOutBytes (writeEntry pw [data] (UInt32.ofNat crc)))
  | "zc.finish" =>
    let pw ← a.hex? "pw"; let crc ← a.nat? "crc"; let buf ← a.hex? "buf"
    some (zcOutBytes ((Writer.mk buf (derive pw)).finish (UInt32.ofNat crc)))
  | "zc.decrypt" =>
    let pw ← a.hex? "pw"; let ct ← a.hex? "ct"; let v ← zcValidator a
    match a.nat? "chunk" with
    | none => some (zcOutOpt "badpw" (decrypt pw v ct))
    | some chunk =>
      if chunk == 0 then none else
      match (Reader.new ct pw).validate v with
      | .ok (some r) => some s!"ok {toHex (r.readWith (zcSizes r.file.length chunk))}"
      | .ok none => some "badpw"
      | .err e => some (Out.className e)
      | .panic _ => some "panic"
  | "zc.entry" =>
    let pw ← zcPw a; let enc ← zcFlag a "enc"; let dd ← zcFlag a "dd"
    let crc ← a.nat? "crc"; let t ← a.nat? "time"; let raw ← a.hex? "raw"
    let r := match pw with
      | none =>
        -- `by_index`: goes through `byIndex` (InvalidPassword ↦ password required)
        match byIndex enc dd (UInt32.ofNat crc) (UInt16.ofNat t) raw with
        | .ok (.plaintext d) => some <$> crcCheckedRead (UInt32.ofNat crc) d
        | .ok (.zipCrypto r) => some <$> crcCheckedRead (UInt32.ofNat crc) r.readAll
        | .ok .invalidPassword => .ok none
        | .err e => .err e
        | .panic s => .panic s
      | some p => readStoredEntry (some p) enc dd (UInt32.ofNat crc) (UInt16.ofNat t) raw
    some (zcOutOpt "invalidpw" r)
  | "zc.arch" =>
    -- Everything is computed by the model: the stored bytes by the model WRITER from the compressor's
    -- output (`comp`, a parameter supplied by the harness's direct codec call; the content itself for
    -- Stored), and all four readings by the model READER on those model-built bytes (decoders through
    -- the codec table `codec=`; a missing row is a `panic`, never a guess).
    let pw ← a.hex? "pw"; let data ← a.hex? "data"; let wrong ← a.hex? "wrong"
    let m ← zcMethodNum (← a.get? "m")
    let comp ← if m == 0 then some data else a.hex? "comp"
    let rows := parseCodec ((a.get? "codec").getD "-")
    let pm ← a.nat? "pm"; let praw ← a.hex? "praw"; let pdata ← a.hex? "pdata"
    let crc := Spec.Crc32.crc32 data
    let hdr := (encryptAll (derive pw) (List.replicate 11 (0 : UInt8) ++ [(crc >>> 24).toUInt8])).1
    let ct := writeEntry pw [comp] crc
    let ctb := match ct with | .ok b => b | _ => []
    let cts := match ct with | .ok b => toHex b | .err e => Out.className e | .panic _ => "panic"
    -- `DateTime::default()` = 1980-01-01 00:00:00: DOS time 0; the writer never sets bit 3 on a seekable sink
    let right := zcSame data (readEntry (zcDecoder rows m) (some pw) true false crc 0 ctb)
    let nopw :=
      let a1 := zcOpened (readEntryNoPassword (zcDecoder rows m) true false crc 0 ctb)
      let a2 := match byIndex true false crc 0 ctb with
        | .ok _ => "opened" | .err e => Out.className e | .panic _ => "panic"
      if a1 == a2 then a1 else s!"mismatch({a1}|{a2})"
    let w := zcSame data (readEntry (zcDecoder rows m) (some wrong) true false crc 0 ctb)
    let plainpw := zcSame pdata
      (readEntry (zcDecoder rows pm) (some pw) false false (Spec.Crc32.crc32 pdata) 0 praw)
    some s!"arch hdr={toHex hdr} ct={cts} right={right} nopw={nopw} wrong={w} plainpw={plainpw}"
  | "zc.reopen" =>
    -- a sequence of opens on one archive object: the model's archive has no state between opens, so every
    -- step is answered like a first open (which is the property: each open behaves like the first)
    let pw ← a.hex? "pw"; let data ← a.hex? "data"; let wrong ← a.hex? "wrong"
    let m ← zcMethodNum (← a.get? "m")
    let comp ← if m == 0 then some data else a.hex? "comp"
    let rows := parseCodec ((a.get? "codec").getD "-")
    let pm ← a.nat? "pm"; let praw ← a.hex? "praw"; let pdata ← a.hex? "pdata"
    let seq ← a.get? "seq"
    let crc := Spec.Crc32.crc32 data
    let ct := writeEntry pw [comp] crc
    let ctb := match ct with | .ok b => b | _ => []
    let colon (s : String) : String := s.replace " " ":"
    let step (st : String) : Option String :=
      match st with
      | "r" => some (zcSame data (readEntry (zcDecoder rows m) (some pw) true false crc 0 ctb))
      | "w" => some (zcSame data (readEntry (zcDecoder rows m) (some wrong) true false crc 0 ctb))
      | "n" => some (zcOpened (readEntryNoPassword (zcDecoder rows m) true false crc 0 ctb))
      | "b" => some (match byIndex true false crc 0 ctb with
          | .ok _ => "opened" | .err e => Out.className e | .panic _ => "panic")
      | "p" => some (zcSame pdata
          (readEntry (zcDecoder rows pm) (some pw) false false (Spec.Crc32.crc32 pdata) 0 praw))
      | "x" => some (match ct with | .ok _ => "raw" | .err e => Out.className e | .panic _ => "panic")
      | _ => none
    let outs ← (seq.splitOn ",").mapM step
    some s!"reopen {"|".intercalate (outs.map colon)}"
  | "zc.fentry" =>
    -- an entry encrypted by another producer: flags, CRC, DOS time, method and stored bytes as an
    -- independent central-directory walk of the harness found them in that producer's archive
    let pw ← a.hex? "pw"; let enc ← zcFlag a "enc"; let dd ← zcFlag a "dd"
    let crc ← a.nat? "crc"; let t ← a.nat? "time"; let raw ← a.hex? "raw"; let m ← a.nat? "m"
    let rows := parseCodec ((a.get? "codec").getD "-")
    some (zcOutOpt "invalidpw"
      (readEntry (zcDecoder rows m) (some pw) enc dd (UInt32.ofNat crc) (UInt16.ofNat t) raw))
  | _ => none

end Driver
