import ZipVerif.Basic.Bytes
import ZipVerif.Basic.Out
/- Line protocol helpers for the correspondence driver (no Mathlib anywhere in this closure). -/

namespace Driver
open ZipVerif

abbrev Args := List (String × String)

def parseLine (line : String) : String × Args :=
  match line.trimAscii.toString.splitOn " " with
  | [] => ("", [])
  | op :: rest =>
    (op, rest.filterMap fun kv =>
      match kv.splitOn "=" with
      | [k, v] => some (k, v)
      | [k] => if k.isEmpty then none else some (k, "")
      | k :: vs => some (k, "=".intercalate vs)
      | [] => none)

def Args.get? (a : Args) (k : String) : Option String := (a.find? (·.1 == k)).map (·.2)

def Args.nat? (a : Args) (k : String) : Option Nat := (a.get? k).bind String.toNat?

def Args.int? (a : Args) (k : String) : Option Int := (a.get? k).bind String.toInt?

def hexVal (c : Char) : Option Nat :=
  if '0' ≤ c ∧ c ≤ '9' then some (c.toNat - '0'.toNat)
  else if 'a' ≤ c ∧ c ≤ 'f' then some (c.toNat - 'a'.toNat + 10)
  else if 'A' ≤ c ∧ c ≤ 'F' then some (c.toNat - 'A'.toNat + 10)
  else none

def parseHexAux : List Char → Array UInt8 → Option (Array UInt8)
  | [], acc => some acc
  | [_], _ => none
  | a :: b :: r, acc => do
    let x ← hexVal a
    let y ← hexVal b
    parseHexAux r (acc.push (UInt8.ofNat (16 * x + y)))

def parseHex (s : String) : Option Bytes :=
  if s == "-" then some [] else (parseHexAux s.toList #[]).map Array.toList

def Args.hex? (a : Args) (k : String) : Option Bytes := (a.get? k).bind parseHex

def hexDigit (n : Nat) : Char :=
  if n < 10 then Char.ofNat (n + '0'.toNat) else Char.ofNat (n - 10 + 'a'.toNat)

def toHex (bs : Bytes) : String :=
  if bs.isEmpty then "-" else
  String.ofList (bs.foldr (fun b acc => hexDigit (b.toNat / 16) :: hexDigit (b.toNat % 16) :: acc) [])

def natList? (s : String) : Option (List Nat) :=
  if s == "-" || s == "" then some [] else (s.splitOn ",").mapM String.toNat?

end Driver
