import ZipVerif.Basic.Bytes
