/-
Bit-level helper lemmas and the `bits16` tactic (bitwise extensionality on `UInt16`, axiom-free:
no `bv_decide`, no `native_decide`).
-/

namespace ZipVerif

theorem bv16_mod256 (x : BitVec 16) : x % 256#16 = x &&& 255#16 := by
  apply BitVec.eq_of_toNat_eq
  simp only [BitVec.toNat_umod, BitVec.toNat_and, BitVec.toNat_ofNat]
  exact (Nat.and_two_pow_sub_one_eq_mod x.toNat 8).symm

-- Prove an equation between `UInt16` bit-vector expressions bit by bit.
set_option hygiene false in
macro "bits16" : tactic => `(tactic|
  (apply UInt16.eq_of_toBitVec_eq
   ext i hi
   have h : i = 0 ∨ i = 1 ∨ i = 2 ∨ i = 3 ∨ i = 4 ∨ i = 5 ∨ i = 6 ∨ i = 7 ∨ i = 8 ∨ i = 9 ∨
       i = 10 ∨ i = 11 ∨ i = 12 ∨ i = 13 ∨ i = 14 ∨ i = 15 := by omega
   rcases h with rfl | rfl | rfl | rfl | rfl | rfl | rfl | rfl | rfl | rfl | rfl | rfl | rfl |
     rfl | rfl | rfl <;> simp [bv16_mod256]))

/-! Nat-level characterisations of mask / shift / or combinations. -/

theorem nat_and_mask (x k : Nat) : x &&& (2 ^ k - 1) = x % 2 ^ k :=
  Nat.and_two_pow_sub_one_eq_mod x k

/-- `(x &&& (m <<< s)) >>> s = (x >>> s) &&& m`. -/
theorem nat_and_shr (x m s : Nat) : (x &&& (m <<< s)) >>> s = (x >>> s) &&& m := by
  rw [Nat.shiftRight_and_distrib, Nat.shiftLeft_shiftRight]

theorem nat_field (x s k : Nat) : (x &&& ((2 ^ k - 1) <<< s)) >>> s = x / 2 ^ s % 2 ^ k := by
  rw [nat_and_shr, nat_and_mask, Nat.shiftRight_eq_div_pow]

/-- Disjoint "or" of a low part and a shifted high part is addition. -/
theorem nat_or_shl (lo hi s : Nat) (h : lo < 2 ^ s) : lo ||| (hi <<< s) = lo + hi * 2 ^ s := by
  rw [Nat.or_comm, ← Nat.shiftLeft_add_eq_or_of_lt h, Nat.shiftLeft_eq, Nat.add_comm]

end ZipVerif
