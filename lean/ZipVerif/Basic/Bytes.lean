/-
Bytes, little-endian codecs and their round-trip lemmas.
No imports beyond core: this file is in the import closure of the compiled driver.
-/

abbrev Bytes := List UInt8

namespace ZipVerif

/-! ### Little-endian encoders (what `byteorder::WriteBytesExt::write_uNN::<LittleEndian>` emits) -/

def le16 (v : UInt16) : Bytes :=
  [UInt8.ofNat (v.toNat % 256), UInt8.ofNat (v.toNat / 256)]

def le32 (v : UInt32) : Bytes :=
  [UInt8.ofNat (v.toNat % 256), UInt8.ofNat (v.toNat / 256 % 256),
   UInt8.ofNat (v.toNat / 65536 % 256), UInt8.ofNat (v.toNat / 16777216)]

def le64 (v : UInt64) : Bytes :=
  [UInt8.ofNat (v.toNat % 256), UInt8.ofNat (v.toNat / 256 % 256),
   UInt8.ofNat (v.toNat / 65536 % 256), UInt8.ofNat (v.toNat / 16777216 % 256),
   UInt8.ofNat (v.toNat / 4294967296 % 256), UInt8.ofNat (v.toNat / 1099511627776 % 256),
   UInt8.ofNat (v.toNat / 281474976710656 % 256), UInt8.ofNat (v.toNat / 72057594037927936)]

/-! ### Decoders on a fixed number of bytes -/

def mk16 (a b : UInt8) : UInt16 := UInt16.ofNat (a.toNat + 256 * b.toNat)

def mk32 (a b c d : UInt8) : UInt32 :=
  UInt32.ofNat (a.toNat + 256 * b.toNat + 65536 * c.toNat + 16777216 * d.toNat)

def mk64 (a b c d e f g h : UInt8) : UInt64 :=
  UInt64.ofNat (a.toNat + 256 * b.toNat + 65536 * c.toNat + 16777216 * d.toNat +
    4294967296 * e.toNat + 1099511627776 * f.toNat + 281474976710656 * g.toNat +
    72057594037927936 * h.toNat)

/-- Parse a little-endian `u16` off the front of a byte list. -/
def rd16 : Bytes → Option (UInt16 × Bytes)
  | a :: b :: r => some (mk16 a b, r)
  | _ => none

def rd32 : Bytes → Option (UInt32 × Bytes)
  | a :: b :: c :: d :: r => some (mk32 a b c d, r)
  | _ => none

def rd64 : Bytes → Option (UInt64 × Bytes)
  | a :: b :: c :: d :: e :: f :: g :: h :: r => some (mk64 a b c d e f g h, r)
  | _ => none

/-- Take exactly `n` bytes off the front. -/
def rdN (n : Nat) (bs : Bytes) : Option (Bytes × Bytes) :=
  if n ≤ bs.length then some (bs.take n, bs.drop n) else none

@[simp] theorem le16_length (v : UInt16) : (le16 v).length = 2 := rfl
@[simp] theorem le32_length (v : UInt32) : (le32 v).length = 4 := rfl
@[simp] theorem le64_length (v : UInt64) : (le64 v).length = 8 := rfl

theorem mk16_le16 (v : UInt16) :
    mk16 (UInt8.ofNat (v.toNat % 256)) (UInt8.ofNat (v.toNat / 256)) = v := by
  have hv := v.toNat_lt
  apply UInt16.toNat_inj.mp
  simp only [mk16, UInt16.toNat_ofNat', UInt8.toNat_ofNat']
  omega

theorem mk32_le32 (v : UInt32) :
    mk32 (UInt8.ofNat (v.toNat % 256)) (UInt8.ofNat (v.toNat / 256 % 256))
      (UInt8.ofNat (v.toNat / 65536 % 256)) (UInt8.ofNat (v.toNat / 16777216)) = v := by
  have hv := v.toNat_lt
  apply UInt32.toNat_inj.mp
  simp only [mk32, UInt32.toNat_ofNat', UInt8.toNat_ofNat']
  omega

theorem mk64_le64 (v : UInt64) :
    mk64 (UInt8.ofNat (v.toNat % 256)) (UInt8.ofNat (v.toNat / 256 % 256))
      (UInt8.ofNat (v.toNat / 65536 % 256)) (UInt8.ofNat (v.toNat / 16777216 % 256))
      (UInt8.ofNat (v.toNat / 4294967296 % 256)) (UInt8.ofNat (v.toNat / 1099511627776 % 256))
      (UInt8.ofNat (v.toNat / 281474976710656 % 256))
      (UInt8.ofNat (v.toNat / 72057594037927936)) = v := by
  have hv := v.toNat_lt
  apply UInt64.toNat_inj.mp
  simp only [mk64, UInt64.toNat_ofNat', UInt8.toNat_ofNat']
  omega

@[simp] theorem rd16_le16 (v : UInt16) (r : Bytes) : rd16 (le16 v ++ r) = some (v, r) := by
  simp [rd16, le16, mk16_le16]

@[simp] theorem rd32_le32 (v : UInt32) (r : Bytes) : rd32 (le32 v ++ r) = some (v, r) := by
  simp [rd32, le32, mk32_le32]

@[simp] theorem rd64_le64 (v : UInt64) (r : Bytes) : rd64 (le64 v ++ r) = some (v, r) := by
  simp [rd64, le64, mk64_le64]

@[simp] theorem rdN_append (a r : Bytes) : rdN a.length (a ++ r) = some (a, r) := by
  simp [rdN]

theorem rdN_append' (n : Nat) (a r : Bytes) (h : a.length = n) : rdN n (a ++ r) = some (a, r) := by
  subst h; simp

/-- The encoders are injective (distinct values never share an encoding). -/
theorem le16_inj {a b : UInt16} (h : le16 a = le16 b) : a = b := by
  have h1 : rd16 (le16 a ++ []) = rd16 (le16 b ++ []) := by rw [h]
  rw [rd16_le16, rd16_le16] at h1
  exact (Prod.mk.inj (Option.some.inj h1)).1

theorem le32_inj {a b : UInt32} (h : le32 a = le32 b) : a = b := by
  have h1 : rd32 (le32 a ++ []) = rd32 (le32 b ++ []) := by rw [h]
  rw [rd32_le32, rd32_le32] at h1
  exact (Prod.mk.inj (Option.some.inj h1)).1

theorem le64_inj {a b : UInt64} (h : le64 a = le64 b) : a = b := by
  have h1 : rd64 (le64 a ++ []) = rd64 (le64 b ++ []) := by rw [h]
  rw [rd64_le64, rd64_le64] at h1
  exact (Prod.mk.inj (Option.some.inj h1)).1

end ZipVerif
