/-
Outcome type shared by every model function that mirrors fallible Rust code.
`panic` is an explicit outcome: the model never hides a panic site behind a default value.
-/

namespace ZipVerif

/-- `std::io::ErrorKind`s the crate produces or forwards.  `interrupted` is never produced by the crate or by a
`Cursor`; a faulty device can fail with it, and it is the one kind std's loops (`read_exact`, `write_all`,
`read_to_end`, `io::copy`) do not forward but retry (`Model/IO.lean`, `M.retried`). -/
inductive IoKind
  | unexpectedEof | other | brokenPipe | invalidData | invalidInput | writeZero | injected | interrupted
  deriving DecidableEq, Repr, Inhabited

/-- `ZipError`, with message strings dropped except for the documented password-required case. -/
inductive ZErr
  | io (k : IoKind)
  | invalidArchive
  | unsupportedArchive
  | passwordRequired      -- `UnsupportedArchive(ZipError::PASSWORD_REQUIRED)`
  | fileNotFound
  deriving DecidableEq, Repr, Inhabited

inductive Out (α : Type) where
  | ok (a : α)
  | err (e : ZErr)
  | panic (site : String)
  deriving Repr

namespace Out

instance : Monad Out where
  pure := Out.ok
  bind x f := match x with
    | .ok a => f a
    | .err e => .err e
    | .panic s => .panic s

@[simp] theorem pure_def {α} (a : α) : (pure a : Out α) = .ok a := rfl
@[simp] theorem bind_ok {α β} (a : α) (f : α → Out β) : (Out.ok a >>= f) = f a := rfl
@[simp] theorem bind_err {α β} (e : ZErr) (f : α → Out β) : (Out.err e >>= f) = .err e := rfl
@[simp] theorem bind_panic {α β} (s : String) (f : α → Out β) : (Out.panic s >>= f) = .panic s := rfl

def isPanic {α} : Out α → Bool
  | .panic _ => true
  | _ => false

def isOk {α} : Out α → Bool
  | .ok _ => true
  | _ => false

def ofOption {α} (e : ZErr) : Option α → Out α
  | some a => .ok a
  | none => .err e

def className : ZErr → String
  | .io .unexpectedEof => "err io:eof"
  | .io .other => "err io:other"
  | .io .brokenPipe => "err io:brokenpipe"
  | .io .invalidData => "err io:invaliddata"
  | .io .invalidInput => "err io:invalidinput"
  | .io .writeZero => "err io:writezero"
  | .io .injected => "err io:injected"
  | .io .interrupted => "err io:interrupted"
  | .invalidArchive => "err invalid"
  | .unsupportedArchive => "err unsupported"
  | .passwordRequired => "err passwordrequired"
  | .fileNotFound => "err notfound"

end Out
end ZipVerif
