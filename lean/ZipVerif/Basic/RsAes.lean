import ZipVerif.Basic.RsL
/-
Vocabulary of the AES layer (aes.rs) for the LAYER mode of rs2lean: the external cryptographic code
is UNINTERPRETED, exactly as in `Model/Aes.lean` (`AesPrims`).

Trusted vocabulary:
  * `pbkdf2::pbkdf2::<Hmac<Sha1>>` (a function of password, salt, the number of rounds and the LENGTH of the
    output buffer, which it fills), the AES block function and HMAC-SHA1 are the fields of the class
    `AesPrims` (arbitrary functions).
  * `Hmac<Sha1>` is its key and the message fed so far: `update` appends, `finalize_reset` returns the
    HMAC of the message and empties it, `new_from_slice` accepts every key length (so its `unwrap()`
    cannot panic); `into_bytes()` is the identity on byte strings.
  * `constant_time_eq(a, b)` is equality of byte strings.
  * `u128` is `BitVec 128` with checked arithmetic; `write_u128::<LittleEndian>` hands the 16 bytes
    `U128.toLE` (least significant first) to `write_all`.
  * `C::Cipher` (`aes::Aes128` / `Aes192` / `Aes256`) is its key (`AesBlock`); `encrypt_block` on
    `GenericArray::from_mut_slice(&mut b)` panics unless `b` has 16 bytes and otherwise replaces `b` by the
    uninterpreted `AesPrims.block key b`.
  * `Box<dyn AesCipher>` is an arbitrary member of the class `AesDyn` (a state type with one operation
    `crypt_in_place`); the Tie instantiates it with the translated `AesCtrZipKeyStream` (the only
    implementor of the trait) resp. the model's key stream.
  * A kind `C: AesKind` (the unit structures `Aes128` / `Aes192` / `Aes256` of aes_ctr.rs, translated with their
    `impl AesKind`) stands for the cipher `type Cipher = aes::AesNNN`; the key sizes of the `aes` crate's ciphers
    are 16 / 24 / 32 bytes (`AesCrate.*.keySize`).  `C::Cipher::new(GenericArray::from_slice(key))` panics (the
    length assertion of `from_slice`) unless `key` has that size, and otherwise is the keyed cipher.
-/

namespace Rs

class AesPrims where
  /-- `pbkdf2::<Hmac<Sha1>>(password, salt, rounds, out)` with `out.len() = len` -/
  pbkdf2 : (pw salt : Bytes) → (rounds : UInt32) → (len : Nat) → Bytes
  /-- `encrypt_block` on a 16-byte block -/
  block : (key inp : Bytes) → Bytes
  /-- HMAC-SHA1 of a whole message -/
  hmac : (key msg : Bytes) → Bytes

/-- `pbkdf2::pbkdf2::<Hmac<Sha1>>(password, salt, rounds, &mut out)`: fills the whole of `out` -/
def pbkdf2 [AesPrims] (pw salt : Bytes) (rounds : UInt32) (out : Bytes) : Bytes :=
  AesPrims.pbkdf2 pw salt rounds out.length

/-- `Box<dyn AesCipher>` -/
class AesDyn where
  Cipher : Type
  /-- `cipher.crypt_in_place(target)`: the new contents of `target` and the cipher afterwards (`none` = panic) -/
  crypt_in_place : Cipher → Bytes → Option (Bytes × Cipher)

/-- `u128` -/
abbrev U128 := BitVec 128

instance : Arith U128 where
  add a b := if a.toNat + b.toNat < 2 ^ 128 then some (a + b) else none
  sub a b := if b.toNat ≤ a.toNat then some (a - b) else none
  mul a b := if a.toNat * b.toNat < 2 ^ 128 then some (a * b) else none
  shl a n := if n < 128 then some (a <<< n) else none
  shr a n := if n < 128 then some (a >>> n) else none
  div a b := if b = 0 then none else some (a / b)
  rem a b := if b = 0 then none else some (a % b)

/-- the `n` low bytes of `v`, least significant first -/
def leBytes : Nat → Nat → Bytes
  | 0, _ => []
  | n + 1, v => UInt8.ofNat (v % 256) :: leBytes n (v / 256)

/-- `WriteBytesExt::write_u128::<LittleEndian>(v)`: the 16 bytes handed to `write_all` -/
def U128.toLE (v : U128) : Bytes := leBytes 16 v.toNat

/-- `C::Cipher` of `C: AesKind` (`aes::Aes128` / `Aes192` / `Aes256`): a keyed block cipher -/
structure AesBlock where
  key : Bytes
  deriving DecidableEq, Repr

/-- `C: AesKind`: the key size of `C::Cipher` -/
class AesKind (C : Type) where
  keyLen : Nat

/-- key sizes of the ciphers of the `aes` crate (`KeySizeUser::KeySize`) -/
def AesCrate.Aes128.keySize : Nat := 16
def AesCrate.Aes192.keySize : Nat := 24
def AesCrate.Aes256.keySize : Nat := 32

/-- `C::Cipher::new(GenericArray::from_slice(key))` (`KeyInit::new`): `from_slice` asserts the key length -/
def AesBlock.new (C : Type) [AesKind C] (key : Bytes) : Option AesBlock :=
  if key.length = AesKind.keyLen C then some ⟨key⟩ else none

/-- `cipher.encrypt_block(GenericArray::from_mut_slice(&mut block))`: `from_mut_slice` asserts the block
length (16), the block function itself is uninterpreted -/
def AesBlock.encrypt_block [AesPrims] (c : AesBlock) (block : Bytes) : Option Bytes :=
  if block.length = 16 then some (AesPrims.block c.key block) else none

/-- `Hmac<Sha1>` -/
structure Hmac where
  key : Bytes
  msg : Bytes
  deriving DecidableEq, Repr

/-- `Hmac::<Sha1>::new_from_slice(key)`: `Ok` for every key length -/
def Hmac.new_from_slice (key : Bytes) : Option Hmac := some ⟨key, []⟩
def Hmac.update (h : Hmac) (bs : Bytes) : Hmac := { h with msg := h.msg ++ bs }
/-- `hmac.finalize_reset().into_bytes()` -/
def Hmac.finalize_reset [AesPrims] (h : Hmac) : Bytes × Hmac := (AesPrims.hmac h.key h.msg, { h with msg := [] })

end Rs
