import ZipVerif.Basic.RsL
/-
Vocabulary of the AES layer (aes.rs) for the LAYER mode of rs2lean: the external cryptographic code
is UNINTERPRETED, exactly as in `Model/Aes.lean` (`AesPrims`).

Trusted vocabulary:
  * `pbkdf2::pbkdf2::<Hmac<Sha1>>`, the AES block function and HMAC-SHA1 are the fields of the class
    `AesPrims` (arbitrary functions).
  * `Hmac<Sha1>` is its key and the message fed so far: `update` appends, `finalize_reset` returns the
    HMAC of the message and empties it, `new_from_slice` accepts every key length (so its `unwrap()`
    cannot panic); `into_bytes()` is the identity on byte strings.
  * `constant_time_eq(a, b)` is equality of byte strings.
  * `Box<dyn AesCipher>` is an arbitrary member of the class `AesDyn` (a state type with one operation
    `crypt_in_place`); the Tie instantiates it with the translated `AesCtrZipKeyStream` (the only
    implementor of the trait) resp. the model's key stream.
-/

namespace Rs

class AesPrims where
  /-- `pbkdf2::<Hmac<Sha1>>(password, salt, 1000, out)` with `out.len() = len` -/
  pbkdf2 : (pw salt : Bytes) → (len : Nat) → Bytes
  /-- `encrypt_block` on a 16-byte block -/
  block : (key inp : Bytes) → Bytes
  /-- HMAC-SHA1 of a whole message -/
  hmac : (key msg : Bytes) → Bytes

/-- `Box<dyn AesCipher>` -/
class AesDyn where
  Cipher : Type
  /-- `cipher.crypt_in_place(target)`: the new contents of `target` and the cipher afterwards (`none` = panic) -/
  crypt_in_place : Cipher → Bytes → Option (Bytes × Cipher)

/-- `Hmac<Sha1>` -/
structure Hmac where
  key : Bytes
  msg : Bytes
  deriving DecidableEq, Repr

def Hmac.new_from_slice (key : Bytes) : Hmac := ⟨key, []⟩
def Hmac.update (h : Hmac) (bs : Bytes) : Hmac := { h with msg := h.msg ++ bs }
/-- `hmac.finalize_reset().into_bytes()` -/
def Hmac.finalize_reset [AesPrims] (h : Hmac) : Bytes × Hmac := (AesPrims.hmac h.key h.msg, { h with msg := [] })

end Rs
