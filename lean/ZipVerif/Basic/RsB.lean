import ZipVerif.Basic.RsM
/-
Vocabulary of helper t6w2's extension of `rs2lean` (`rs2lean/src/t6w2.rs`): plain-value functions over byte
slices (`tfn` items: `fn f(x: &[u8]) -> Vec<u8>`), translated with the typed READ-mode machinery into
`Gen.f (…) : Model.M T`.  No device operation is generated for them; the monad only carries the panics
(an index out of bounds, a checked addition, loop fuel), so a Tie theorem `Gen.f x = pure (Model.f x)`
also says that the function never panics.
-/
namespace Rs.B
open ZipVerif

/-- `x[i]` on a byte slice: a panic (`none`) when out of bounds -/
def byteAt (bs : Bytes) (i : UInt64) : Option UInt8 := bs[i.toNat]?
/-- `u16::from_le_bytes([a, b])` -/
def u16_from_le (a b : UInt8) : UInt16 := mk16 a b
/-- `Vec::<u8>::with_capacity(n)`: the empty vector (the capacity is not part of a byte vector's value) -/
def with_capacity (_n : UInt64) : Bytes := []
/-- `v.extend_from_slice(x)` -/
def extend (v x : Bytes) : Bytes := v ++ x

/-- the closure of `collectRange` applied to `i, i+1, …`, `n` times; its failure (an `Err` value of the
closure, a device error, a panic) ends the iteration -/
def collectN {α} (f : UInt64 → Model.M α) : Nat → UInt64 → Model.M (List α)
  | 0, _ => pure []
  | n + 1, i => do
    let x ← f i
    let rest ← collectN f n (i + 1)
    pure (x :: rest)

/-- `(lo..hi).map(|i| f(i)).collect::<Result<Vec<_>, _>>()?`: the closure (whose value is a `Result`) runs
for `i = lo, lo+1, …, hi-1` in order; the first `Err` ends the iteration and is the error of the whole
expression; otherwise the vector of the `Ok` values (the adapter reserves nothing in advance: its lower
size hint is 0) -/
def collectRange {α} (lo hi : UInt64) (f : UInt64 → Model.M α) : Model.M (List α) :=
  collectN f (hi.toNat - lo.toNat) lo

end Rs.B
