import ZipVerif.Basic.RsS
import ZipVerif.Basic.RsL
/-
Vocabulary of helper t6w4's extension of `rs2lean` (`rs2lean/src/t6w4.rs`): RAW COPY
(`ZipWriter::raw_copy_file_rename` / `raw_copy_file` of src/write.rs).

* `ZipFile<'_>` handed to the writer BY VALUE (`mut file: ZipFile`): `Rs.C.ZipFile D` - its metadata
  (`self.data`, the `ZipFileData` behind the `Cow`) and its raw reader.  The reader reads from ANOTHER device
  than the writer's sink (the archive the entry comes from), so it is not an operation of the monad `M`: it is
  represented by the finite sequence `raw : List Rs.RdRes` of results its successive `read` calls return when
  offered `io::copy`'s 8 KiB buffer (bytes delivered / an error kind / a panic); after the listed results the
  reader reports end of data (`Ok(0)`).  The accessors of `impl ZipFile` (`compressed_size()`, `size()`, …) are
  TRANSLATED (`Gen/ZipFileAcc.lean`, item kind `zacc`).
* `file.get_raw_reader()` (`Rs.C.get_raw_reader`): that reader.  ASSUMED: the handle has not been read from
  yet (`reader` is `NoReader` and `crypto_reader` is still there - the state in which `by_index` / `by_name` /
  `by_index_raw` hand it out), so that the call neither panics (`expect("Invalid reader state")`) nor returns
  a decompressing reader; the raw reader is then `crypto_reader.into_inner()`, the `io::Take` limited to the
  entry's `compressed_size` over the archive's reader.
* `io::copy(reader, writer)?` (`Rs.C.io_copy`): std's generic copy loop `stack_buffer_copy`
  (library/std/src/io/copy.rs; the specialisations are for file descriptors and `BufWriter`, neither applies to
  `&mut dyn Read` / `ZipWriter<W>`):

      let buf = [MaybeUninit<u8>; 8192]; let mut len = 0;
      loop {
          match reader.read_buf(buf.unfilled()) {
              Ok(()) => {}
              Err(e) if e.is_interrupted() => continue,
              Err(e) => return Err(e),
          };
          if buf.filled().is_empty() { break; }
          len += buf.filled().len() as u64;
          writer.write_all(buf.filled())?;
          buf.clear();
      }
      Ok(len)

  `read_buf`'s default body panics when the reader claims more bytes than the buffer holds; `write_all` is
  std's default body over the object's own `write` (`Rs.S.write_all`).
-/

namespace Rs.C
open ZipVerif ZipVerif.Model Rs

/-- `DEFAULT_BUF_SIZE` of library/std/src/sys_common/io.rs (8 KiB on every hosted target) -/
def DEFAULT_BUF_SIZE : Nat := 8192

/-- a `ZipFile<'_>` passed by value: `data` = `*self.data`; `raw` = what the successive `read` calls of its raw
reader return (then: end of data) -/
structure ZipFile (D : Type) where
  data : D
  raw : List RdRes

/-- `file.get_raw_reader()` -/
def get_raw_reader {D : Type} (file : ZipFile D) : List RdRes := file.raw

variable {σ : Type}

/-- `io::copy(reader, self)` (before `?`): the value is the number of bytes copied (the counter of the std
function is a plain `u64` addition in a release build of std). -/
def io_copy (w : σ → Bytes → S σ (UInt64 × σ)) : σ → List RdRes → UInt64 → S σ (UInt64 × σ)
  | st, [], len => pure (len, st)
  | st, .ok bs :: rest, len =>
    if bs.length > DEFAULT_BUF_SIZE then S.ofM (M.panic "rs2lean: read_buf: the reader overran the buffer")
    else if bs.isEmpty then pure (len, st)
    else do
      let (_, st') ← S.write_all w (bs.length + 1) st bs
      io_copy w st' rest (len + UInt64.ofNat bs.length)
  | st, .err e :: rest, len =>
    if e = .interrupted then io_copy w st rest len
    else S.throw (.io e) st
  | _, .panic :: _, _ => S.ofM (M.panic "rs2lean: the reader panicked")

end Rs.C
