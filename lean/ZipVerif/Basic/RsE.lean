import ZipVerif.Basic.RsL
import ZipVerif.Basic.RsGlue
/-
Prelude for the ENTRY mode of `rs2lean` (tier T6, helper t6r4, `rs2lean/src/t6r4b.rs`, item kinds `denum` /
`dstruct` / `dfn`): the `Read` implementations of the entry handle - `impl Read for CryptoReader`,
`impl Read for ZipFileReader`, `ZipFileReader::finish_crypto`, `ZipFile::get_reader`, `impl Read for ZipFile`
(src/read.rs) - over the LAYER translation's real structures (`Gen.Crc32Reader R`, `Gen.ZipCryptoReaderValid R`,
`Gen.AesReaderValid R`), in the LAYER mode's conventions (`Basic/RsL.lean`): a `&mut self` method returning
`io::Result<α>` is a plain function returning `(outcome, self afterwards [, buf afterwards])`, every exit site one
`return`.

Meaning of the additional constructs, given ONCE here:

* `io::Take<&'a mut dyn Read>` - the bounded view of the archive's reader every entry is read through - is the type
  parameter `T`, an arbitrary member of `Rs.Read` (its translation and tie: `Rs.H.take_read`, `Tie/Drain.lean`).
* `match self { Enum::V(r) => … }` on a `&mut` enum: `r` ALIASES the payload; a call that changes `r` is followed by
  the rebuild of every value the alias lives in, up to `self` (`r := …; self := .V r`).  `x.get_mut()` is the place of
  the wrapped reader: for a translated structure the field its body names (`&mut self.inner`), for the external
  decoders `inner`; `let p = match self { arms => place, _ => return … }` continues inside each arm.
* `x.read(buf)` is resolved by the TYPE of `x`: the layer translation's `read` of that structure, the translated
  `read` of an enum of this module, `Rs.L.read` for `T` and for the external decoders.
* `impl Read for X` with a translated `read` makes `X` a member of `Rs.Read` (`E.asRead`): the bytes delivered are
  the front of the buffer the translated function leaves behind.
* the external decompressors (`flate2::read::DeflateDecoder`, `bzip2::read::BzDecoder`, `zstd::Decoder`) and
  `io::BufReader` are `E.Dec kind R`: a state of their own and the reader below; ONE `read` call is the NAMED
  PARAMETER `DecOps.read` - an arbitrary function of that state, the reader below (used through its `Read`
  instance only) and the buffer length.
* `io::copy(reader, &mut io::sink())` is `E.copyToSink`: `read` with std's 8 KiB buffer until `Ok(0)` or an error;
  the count of bytes; no syntactic bound, so `fuel` is a parameter of the generated function (out of fuel = panic; the
  Tie shows `data_remaining + 1` rounds suffice).  `ErrorKind::Interrupted` is not among the modelled kinds.
* `opt.take().expect(msg)`: the old value or a panic; the place becomes `None`.  `make_reader` - translated and tied
  in READ mode over the symbolic layer records (`Tie/ReaderGlue2.tie_make_reader`) - is a named parameter `mk` here.
-/

namespace Rs
namespace E

inductive DecKind where
  | deflate | bzip2 | zstd | bufreader
  deriving DecidableEq, Repr

/-- the external decoders: per kind a state type and one `read` call -/
class DecOps where
  St : DecKind → Type
  read : (k : DecKind) → {R : Type} → [Rs.Read R] → St k → R → Nat → RdRes × St k × R

/-- an external decoder / `BufReader` over the reader `R` -/
structure Dec [DecOps] (k : DecKind) (R : Type) where
  st : DecOps.St k
  inner : R

abbrev DeflateDecoder [DecOps] (R : Type) := Dec .deflate R
abbrev BzDecoder [DecOps] (R : Type) := Dec .bzip2 R
abbrev ZstdDecoder [DecOps] (R : Type) := Dec .zstd R
abbrev BufReader [DecOps] (R : Type) := Dec .bufreader R

@[instance_reducible] instance readDec [DecOps] {k : DecKind} {R : Type} [Rs.Read R] : Rs.Read (Dec k R) :=
  ⟨fun d n => match DecOps.read k d.st d.inner n with
    | (r, s, i) => (r, ⟨s, i⟩)⟩

/-- `impl Read for X` whose `read` is translated -/
@[instance_reducible] def asRead {R : Type} (f : R → Bytes → IoRes UInt64 × R × Bytes) : Rs.Read R :=
  ⟨fun r n => match f r (List.replicate n 0) with
    | (.ok c, r', b) => (.ok (b.take c.toNat), r')
    | (.err e, r', _) => (.err e, r')
    | (.panic, r', _) => (.panic, r')⟩

/-- `io::copy(reader, &mut io::sink())` -/
def copyToSink {R : Type} [Rs.Read R] : Nat → R → UInt64 → IoRes UInt64 × R
  | 0, r, _ => (.panic, r)
  | f + 1, r, acc =>
    match Rs.Read.rd r 8192 with
    | (.ok bs, r') => if bs.isEmpty then (.ok acc, r') else copyToSink f r' (acc + UInt64.ofNat bs.length)
    | (.err e, r') => (.err e, r')
    | (.panic, r') => (.panic, r')

end E
end Rs
