import ZipVerif.Basic.RsM
/-
Prelude for the READER GLUE translated by `rs2lean` (tier T6, helper t6r): `ZipArchive::new`, `find_content`,
`by_index*`, `make_crypto_reader`, `make_reader`, `read_zipfile_from_stream` (src/read.rs; helpers t6r, t6r2).

Meaning of the additional Rust constructs, given ONCE here:

* `Vec<T>` for an element type other than `u8` is `Rs.Vec T`: the elements in order, plus the capacity that was
  REQUESTED when the vector was created (`Vec::with_capacity(n)`), because the amount of memory reserved before any
  input has been validated is what property C05 bounds.  `push` appends and never changes the recorded request.
* `HashMap<K, V>` is `Rs.HashMap K V`: a finite map (association list with at most one entry per key) plus the
  requested capacity.  `insert k v` replaces the value of an existing key and otherwise adds the entry; `get k` is
  the value stored for `k`.  This is the documented behaviour of `std::collections::HashMap` for a lawful `Eq + Hash`
  key type (`String`); iteration order is not modelled (the translated functions do not iterate).
* `Arc::new(x)` is `x` (sharing of immutable data has no observable effect in the translated functions).
* `for i in lo..hi { body }` is `Rs.R.forRange lo hi body` over the loop-carried variables: `hi - lo` iterations
  (none when `hi ≤ lo`), `i` counting up from `lo`; a `?` inside the body ends the function through the monad.
  `break` / `continue` / a successful `return` inside such a loop are outside the subset.
* `reader: &mut (impl Read + Seek)` is the device of the monad like `reader: &mut R`;
  `(reader as &mut dyn Read).take(n)` is the value `Rs.Take.mk n`.
* `p.cell.store(v)` on an `AtomicU64` field of a structure held by shared reference: see `Rs.Stores`.
-/

namespace Rs
open ZipVerif ZipVerif.Model

/-- `Vec<T>`, `T ≠ u8` -/
structure Vec (α : Type) where
  /-- the capacity requested at creation -/
  reserved : UInt64
  items : List α

namespace Vec
variable {α : Type}
/-- `Vec::with_capacity(n)` -/
def with_capacity (n : UInt64) : Vec α := ⟨n, []⟩
/-- `Vec::new()` -/
def new : Vec α := ⟨0, []⟩
/-- `v.push(a)` -/
def push (v : Vec α) (a : α) : Vec α := ⟨v.reserved, v.items ++ [a]⟩
/-- `v.len()` -/
def len (v : Vec α) : UInt64 := UInt64.ofNat v.items.length
/-- `v.get(i)` -/
def get (v : Vec α) (i : UInt64) : Option α := v.items[i.toNat]?
end Vec

/-- `HashMap<K, V>` -/
structure HashMap (κ ν : Type) where
  /-- the capacity requested at creation -/
  reserved : UInt64
  entries : List (κ × ν)

namespace HashMap
variable {κ ν : Type}
/-- `HashMap::with_capacity(n)` -/
def with_capacity (n : UInt64) : HashMap κ ν := ⟨n, []⟩
/-- `HashMap::new()` -/
def new : HashMap κ ν := ⟨0, []⟩

def insertList [BEq κ] : List (κ × ν) → κ → ν → List (κ × ν)
  | [], k, v => [(k, v)]
  | (k', v') :: r, k, v => if k' == k then (k', v) :: r else (k', v') :: insertList r k v

def getList [BEq κ] : List (κ × ν) → κ → Option ν
  | [], _ => none
  | (k', v') :: r, k => if k' == k then some v' else getList r k

/-- `m.insert(k, v)` (the previous value, which `insert` returns, is not used by the translated code) -/
def insert [BEq κ] (m : HashMap κ ν) (k : κ) (v : ν) : HashMap κ ν := ⟨m.reserved, insertList m.entries k v⟩
/-- `m.get(k)` (`.copied()` / `*index` on the result is the identity on values) -/
def get [BEq κ] (m : HashMap κ ν) (k : κ) : Option ν := getList m.entries k
end HashMap

/-- `Arc::new(x)` -/
@[inline] def Arc.new {α} (x : α) : α := x

/-- `io::Take<&mut dyn Read>` over THE device of the monad: a reader that delivers at most `limit` further bytes
of it.  (The layers stacked on a `Take` are another translation group; here a `Take` is the value that says how many
bytes of the device belong to the entry.) -/
structure Take where
  limit : UInt64
  deriving DecidableEq, Repr

/-- The `cell.store(v)` effects a translated function performed on `AtomicU64` cells of structures it only holds by
shared reference (`data.data_start.store(..)`), in order: place (as written in the source) and value.  They are part of
the function's value; a function that fails (`Err`) reports none (the cells written by the translated functions are
only read through handles that exist after a success). -/
abbrev Stores := List (String × UInt64)

/-- The stores a CALLEE performed, as they appear in the caller's list: each place is prefixed by the text of the
caller's argument through which the callee reached the structure (`find_content(data, ..)` stores into
`data.data_start` of ITS parameter `data`; for the caller that is `<its argument> / data.data_start`; for a method call
on `self` the label is `self`). -/
def Stores.via (arg : String) (st : Stores) : Stores := st.map fun pv => (arg ++ " / " ++ pv.1, pv.2)

/-- `std::borrow::Cow<'a, T>`: the value, and whether it is borrowed from the archive's table or owned by the handle
(`ZipFile::drop` drains the entry only for `Owned`, i.e. for the streaming reader). -/
inductive Cow (α : Type) where
  | Borrowed (a : α)
  | Owned (a : α)

/-- `&*cow` -/
def Cow.get {α : Type} : Cow α → α
  | .Borrowed a => a
  | .Owned a => a

/-- `result::InvalidPassword` -/
structure InvalidPassword where
  deriving DecidableEq, Repr

/-! ### The decryption layers as SYMBOLIC values

`make_crypto_reader` decides which layer is put on the entry's `Take`.  The layers themselves (`ZipCryptoReaderValid`,
`AesReaderValid`) are translated / modelled elsewhere; here a validated layer is the record of what it was built
from, and what its constructor does to the device - `ZipCryptoReader::new(r, pw).validate(v)` reads the 12-byte
header, `AesReader::new(r, mode, size).validate(pw)` reads salt and verification value - together with its verdict
(`Some` = accepted, `None` = wrong password) is an UNINTERPRETED computation `ext.…Validate` of the model's I/O
monad.  A Tie theorem about a function that takes `ext` holds for every `ext`. -/

/-- `ZipCryptoReaderValid<Take>` as built by `ZipCryptoReader::new(inner, password).validate(validator)` -/
structure ZcValid (V : Type) where
  inner : Take
  password : Bytes
  validator : V

/-- `AesReaderValid<Take>` as built by `AesReader::new(inner, mode, compressed_size).validate(password)` -/
structure AesValid (Mo : Type) where
  inner : Take
  mode : Mo
  compressed_size : UInt64
  password : Bytes

/-- The external constructors: their I/O and their verdict (`true` = `Some(valid reader)`). -/
structure ReadExt (V Mo : Type) where
  zcValidate : Take → Bytes → V → M Bool
  aesValidate : Take → Mo → UInt64 → Bytes → M Bool

/-! ### The decoders `make_reader` stacks on the decryption layer: OPAQUE records of their inner reader

`flate2::read::DeflateDecoder<R>`, `bzip2::read::BzDecoder<R>`, `zstd::stream::read::Decoder<'_, BufReader<R>>`
and `io::BufReader<R>` are external code.  `make_reader` only BUILDS them; what is tied is which one is built,
over which inner reader, and what the `Crc32Reader` around it is given.  `T::new(r)` records `r` (a fresh decoder
has no other state the translated functions observe).  `zstd::Decoder::new(r)` returns an `io::Result` (it fails
only when the zstd decompression context cannot be allocated): taken as `Ok`; `.unwrap()` on an `io::Result` is
`unwrapRes`. -/

structure DeflateDecoder (R : Type) where
  inner : R
structure BzDecoder (R : Type) where
  inner : R
structure BufReader (R : Type) where
  inner : R
structure ZstdDecoder (R : Type) where
  inner : R

/-- `DeflateDecoder::new(r)` -/
def DeflateDecoder.new {R : Type} (r : R) : DeflateDecoder R := ⟨r⟩
/-- `BzDecoder::new(r)` -/
def BzDecoder.new {R : Type} (r : R) : BzDecoder R := ⟨r⟩
/-- `zstd::stream::read::Decoder::new(r)`: wraps `r` into a `BufReader`; an `io::Result` -/
def ZstdDecoder.new {R : Type} (r : R) : Except ZipVerif.IoKind (ZstdDecoder (BufReader R)) := .ok ⟨⟨r⟩⟩
/-- `res.unwrap()` on a `Result`: a panic (`none`) on `Err` -/
def unwrapRes {ε α : Type} : Except ε α → Option α
  | .ok a => some a
  | .error _ => none

namespace R
variable {V Mo : Type}

/-- `ZipCryptoReader::new(r, pw).validate(v)?` -/
def zc_validate (ext : ReadExt V Mo) (r : Take) (pw : Bytes) (v : V) : M (Option (ZcValid V)) := do
  let ok ← ext.zcValidate r pw v
  pure (if ok then some ⟨r, pw, v⟩ else none)

/-- `AesReader::new(r, mode, size).validate(pw)?` -/
def aes_validate (ext : ReadExt V Mo) (r : Take) (mode : Mo) (size : UInt64) (pw : Bytes) :
    M (Option (AesValid Mo)) := do
  let ok ← ext.aesValidate r mode size pw
  pure (if ok then some ⟨r, mode, size, pw⟩ else none)

/-- a `ZipResult` VALUE as the outcome of the function (`res.map_err(|_| e)` in result position) -/
def of_result {α : Type} : Except ZipErr α → M α
  | .ok a => pure a
  | .error e => M.throw (zerr e)

/-- `(reader as &mut dyn Read).take(n)` -/
def take (n : UInt64) : Take := ⟨n⟩

/-- `n` iterations of a `for` body, the index counting up from `i` -/
def forN {σ : Type} (body : UInt64 → σ → M σ) : Nat → UInt64 → σ → M σ
  | 0, _, s => pure s
  | n + 1, i, s => do
    let s' ← body i s
    forN body n (i + 1) s'

/-- `for i in lo..hi { body }` -/
def forRange {σ : Type} (lo hi : UInt64) (body : UInt64 → σ → M σ) (s : σ) : M σ :=
  forN body (hi.toNat - lo.toNat) lo s

end R
end Rs
