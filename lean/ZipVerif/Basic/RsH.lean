import ZipVerif.Basic.RsGlue
/-
Prelude for the HANDLE mode of `rs2lean` (tier T6, helper t6r3, `rs2lean/src/t6r3.rs`): the methods of the entry
handle `ZipFile` and of the enums it holds (`ZipFileReader`, `CryptoReader`), and `ZipStreamReader::visit`
(src/read.rs, src/read/stream.rs).

A `&mut self` method returning `io::Result<α>` / `ZipResult<α>` is translated into

    Gen.T.f (fuel : Nat) (self : Gen.T) (…) : Model.M (Except ZErr α × Gen.T)

a computation of the model's I/O monad whose value is the `Result` AS A VALUE together with `self` as the method
left it (Rust mutates in place; the caller keeps the object after an `Err`).  Every exit site of the Rust text
(`return …`, the tail expression) is one `return (…, self)` with the value `self` has at that point; a panic is
`M.panic`.  A method taking `self` by value that does no I/O is a function of the panic monad `Option`.

Meaning of the additional Rust constructs, given ONCE here:

* `io::Error` values are the model's `ZErr.io kind` (the device fails with nothing else); `e.kind() == io::ErrorKind::K`
  is `H.kindIs e K`.
* `opt.take()` on an `Option` place: the old value; the place becomes `None`.  `mem::replace(place, v)`: the old value;
  the place becomes `v`.  A binding of a `match &mut place { … }` arm is the place itself: reading it reads the place,
  `mem::replace` through it writes the place.
* `[v; n]` is `H.array v n` (`n` copies).
* `take.read(&mut buf)` on an `io::Take` whose inner reader is THE device of the monad is `H.take_read`: std's
  `Take::read` - limit 0 answers `Ok(0)` without touching the inner reader; otherwise ONE `read` call of the device with
  a buffer of `min(buf.len(), limit)` bytes, the limit decreases by the count delivered; an error of the device is the
  error of the call (as a value), limit and buffer unchanged.
* `loop { body }` has no syntactic bound: `H.loop body fuel st` runs at most `fuel` rounds over the loop-carried variables
  `st`; the body answers `Step.next` (fell through / `continue`), `Step.brk` (`break`), `Step.ret` (`return` from the
  FUNCTION); running out of fuel is the distinguished panic `H.FUEL`.  `fuel` is a parameter of the generated function
  (and of every generated function that calls it); a Tie theorem holds for EVERY fuel above an explicit bound - i.e.
  the Rust loop terminates, and with the model's result.
* the external decoders (`flate2`, `bzip2`, `zstd`, `io::BufReader`) are the opaque records of `Basic/RsGlue.lean`;
  `decoder.into_inner()` / `zstd_decoder.finish()` / `buf_reader.into_inner()` return the wrapped reader (whatever the
  decoder had buffered is discarded: the inner reader's own state - the `Take`'s limit - is what counts);
  `layer.into_inner()` on a validated decryption layer returns the `Take` it was built on (the layer translation shows
  this for the real structures: `Gen.ZipCryptoReaderValid.into_inner`, `Gen.AesReaderValid.into_inner` return the
  reader field).
* a method of a tuple structure `S<R>(R)` wrapping its reader (`ZipStreamReader`): the device of the monad is `self.0`;
  its `ZipResult<T>` is the outcome of the `M`-computation (`?` on a call is a bind, as in READ mode); `x?` on a
  `Result` VALUE (a visitor callback, `file.drain_stream()`) returns the error through `M.throw` AFTER the handles in
  scope have been dropped; `while let P = e { body }` is `loop { match e { P => body, _ => break } }`;
  `res.map(Newtype)` is the identity on the translation (a `struct N(T)` is its content), `res.map(Some)` wraps;
  an untyped integer literal (also through a `let`) is typed by the callee it is passed to.
* a local whose type has a translated `Drop` impl is dropped (`Gen.T.drop`) at every exit of its scope: the end of the
  block, and the failure branch of every `?` inside the scope (before the error is returned).
-/

namespace Rs
open ZipVerif ZipVerif.Model

/-- `layer.into_inner()` on `ZipCryptoReaderValid<Take>` -/
def ZcValid.into_inner {V : Type} (r : ZcValid V) : Take := r.inner
/-- `layer.into_inner()` on `AesReaderValid<Take>` -/
def AesValid.into_inner {Mo : Type} (r : AesValid Mo) : Take := r.inner
/-- `flate2::read::DeflateDecoder::into_inner` -/
def DeflateDecoder.into_inner {R : Type} (r : DeflateDecoder R) : R := r.inner
/-- `bzip2::read::BzDecoder::into_inner` -/
def BzDecoder.into_inner {R : Type} (r : BzDecoder R) : R := r.inner
/-- `zstd::stream::read::Decoder::finish`: the `BufReader` it wraps -/
def ZstdDecoder.finish {R : Type} (r : ZstdDecoder R) : R := r.inner
/-- `io::BufReader::into_inner` -/
def BufReader.into_inner {R : Type} (r : BufReader R) : R := r.inner

/-- A `V: ZipStreamVisitor` parameter: the two callbacks as functions of the visitor's state.  `visit_file(&mut self,
&mut file)` may read from the handle (which moves the device) and changes both; `visit_additional_metadata(&mut self,
&meta)`.  Each returns its `ZipResult<()>` as a value.  A Tie theorem about a function that takes `vis` holds for
every visitor. -/
structure Visitor (V F Meta : Type) where
  visit_file : V → F → M (Except ZErr Unit × V × F)
  visit_additional_metadata : V → Meta → M (Except ZErr Unit × V)

namespace H

/-- the panic of a `loop` that ran out of the rounds it was given -/
def FUEL : String := "rs2lean: loop fuel"

/-- `e.kind() == io::ErrorKind::K` -/
def kindIs (e : ZErr) (k : ZipVerif.IoKind) : Bool := e == .io k

/-- `[v; n]` -/
def array {α : Type} (v : α) (n : UInt64) : List α := List.replicate n.toNat v

/-- `take.read(&mut buf)` (std's `impl Read for Take<T>`) over the device: result, the `Take` afterwards, the buffer
afterwards -/
def take_read (t : Take) (buf : Bytes) : M (Except ZErr UInt64 × Take × Bytes) :=
  if t.limit = 0 then pure (.ok 0, t, buf) else do
    let r ← M.attempt (M.read (min buf.length t.limit.toNat))
    match r with
    | .ok bs => pure (.ok (UInt64.ofNat bs.length), ⟨t.limit - UInt64.ofNat bs.length⟩, bs ++ buf.drop bs.length)
    | .error e => pure (.error e, t, buf)

/-- `loop { body }` over the loop-carried variables -/
def loop {σ ρ : Type} (body : σ → M (Step σ ρ)) : Nat → σ → M (LoopEnd σ ρ)
  | 0, _ => M.panic FUEL
  | fuel + 1, s => do
    match (← body s) with
    | .next s' => loop body fuel s'
    | .brk s' => pure (.done s')
    | .ret r => pure (.ret r)

/-- a panic-monad computation (`into_inner` chains, `expect`) inside an `M` function -/
def lift {α} : Option α → M α
  | some a => pure a
  | none => M.panic "rs2lean: checked operation"

end H
end Rs
