import ZipVerif.Basic.Rs
import ZipVerif.Basic.Out
import ZipVerif.Spec.Crc32
/-
Prelude for the LAYER mode of `rs2lean` (tier T6): methods of a structure that wraps an inner
`R: Read` / `W: Write` (`Crc32Reader<R>`, `ZipCryptoReaderValid<R>`, `AesReaderValid<R>`, …).

* The generated definition is a plain function (`Id.run do …`) of the arguments and of the values of
  everything the Rust function may mutate (`&mut self`, `buf: &mut [u8]`); it returns the outcome
  TOGETHER WITH the final values of those: `(outcome, self, buf)`.  Every exit site of the Rust text
  (`return …`, `?` on a failed result, the tail expression, a panic) is one `return (…, self, buf)`
  with the values the variables have at that point, so what a failed call leaves behind is part of
  the translation.
* Outcome of a function returning `io::Result<T>`: `IoRes T` (`ok` / `err kind` / `panic`); of a
  function returning `T`: `Option T` (`none` = panic).  `io::Error` values are their `ErrorKind`
  (`ZipVerif.IoKind`), messages are dropped.
* Integers keep their Rust widths (`usize` = `u64` = `UInt64`), `+ - *` are checked (`Rs.Arith`),
  indexing and slicing are checked (`L.idx`, `Rs.slice*`): a `none` is a panic exit.
* The inner reader / writer is an arbitrary member of the class `Read` / `Write` below; the
  vocabulary `inner.read(buf)`, `read_exact`, `write_all`, `flush` is given meaning ONCE here.

Trusted vocabulary (external code, not translated):
  `std::io::Read::read` of the type parameter = `Read.rd` (an arbitrary function of the reader's state
  and the buffer LENGTH returning the bytes delivered, an error kind, or a panic); the caller's buffer
  receives the delivered bytes at its front, the count is their number (`L.read`).  On `Err` the
  buffer is taken as unchanged (no model observes a buffer after an error).
  `Read::read_exact` = std's default body (`L.readExactAux`), `Write::write_all` = std's default body
  (`L.writeAllAux`); `ErrorKind::Interrupted` is not among the modelled kinds.
  `crc32fast::Hasher::{new, update, finalize, clone}` = the raw CRC-32 register of `Spec.Crc32`
  (`Crc32Hasher`).
  `impl Write for &mut [u8]` (`write_all` on a temporary view) = `L.sliceWriteAll`.

Loops: `for b in xs.iter_mut()` = `L.iterMut`, `for (a, b) in xs.iter_mut().zip(ys.iter())` = `L.iterMutZip`,
`while c { … }` = `L.whileLoop` with fuel (out of fuel = panic; the Tie shows the fuel adequate).  A panic
inside a loop body leaves the function with the values the variables had BEFORE the loop (the state after a
panic is not observable).  A `mut x: &mut [u8]` parameter is a VIEW into the caller's buffer that the body may
shorten from the front (`x = &mut x[n..]`, `L.splitAt`): `x` is the view, `x'` what was left behind, and the
caller's buffer at every exit is `x' ++ x`.
-/

namespace Rs
open ZipVerif

/-- Outcome of a function returning `io::Result<α>`. -/
inductive IoRes (α : Type) where
  | ok (a : α)
  | err (e : ZipVerif.IoKind)
  | panic
  deriving Repr, DecidableEq

/-- `r?` on a result that is not `Ok`: the same failure at the caller's result type. -/
def IoRes.fail {α β : Type} : IoRes α → IoRes β
  | .err e => .err e
  | _ => .panic

/-- `r.unwrap()` / `r.expect(msg)` -/
def IoRes.unwrap {α : Type} : IoRes α → Option α
  | .ok a => some a
  | _ => none

/-- What one `read` call of an inner reader delivered. -/
inductive RdRes where
  | ok (bs : Bytes)
  | err (e : ZipVerif.IoKind)
  | panic
  deriving Repr, DecidableEq

/-- `R: std::io::Read`: one `read` call with a buffer of `n` bytes. `ok bs` with `bs.length > n` stands
for a reader that returns a count larger than the buffer. -/
class Read (R : Type) where
  rd : R → Nat → RdRes × R

/-- What one `write` call of an inner writer did. -/
inductive WrRes where
  | ok (k : Nat)
  | err (e : ZipVerif.IoKind)
  | panic
  deriving Repr, DecidableEq

/-- `W: std::io::Write` -/
class Write (W : Type) where
  wr : W → Bytes → WrRes × W
  fl : W → IoRes Unit × W

/-- `crc32fast::Hasher`: the raw register. -/
structure Crc32Hasher where
  reg : UInt32
  deriving DecidableEq, Repr

/-- `Hasher::new()` -/
def Crc32Hasher.new : Crc32Hasher := ⟨0xFFFFFFFF⟩
/-- `hasher.update(bytes)` -/
def Crc32Hasher.update (h : Crc32Hasher) (bs : Bytes) : Crc32Hasher := ⟨Spec.Crc32.updateBytes h.reg bs⟩
/-- `hasher.finalize()` -/
def Crc32Hasher.finalize (h : Crc32Hasher) : UInt32 := h.reg ^^^ 0xFFFFFFFF
/-- `hasher.clone()` -/
def Crc32Hasher.clone (h : Crc32Hasher) : Crc32Hasher := h

/-- `io::ErrorKind::K` / `io::Error::new(io::ErrorKind::K, msg)` -/
def ioKind : Rs.IoKind → ZipVerif.IoKind
  | .Other => .other
  | .InvalidData => .invalidData
  | .InvalidInput => .invalidInput
  | .UnexpectedEof => .unexpectedEof
  | .WriteZero => .writeZero
  | .BrokenPipe => .brokenPipe

namespace L

/-- `r.read(buf)`: the result, the reader afterwards, the buffer afterwards. -/
def read {R : Type} [Read R] (r : R) (buf : Bytes) : IoRes UInt64 × R × Bytes :=
  match Read.rd r buf.length with
  | (.ok bs, r') => (.ok (UInt64.ofNat bs.length), r', (bs ++ buf.drop bs.length).take buf.length)
  | (.err e, r') => (.err e, r', buf)
  | (.panic, r') => (.panic, r', buf)

/-- `Read::read_exact`, default body: `read` until the buffer is full; `Ok(0)` before that is
`UnexpectedEof`; `&mut buf[n..]` with `n > len` panics. `fuel`: `read_exact` supplies the length. -/
def readExactAux {R : Type} [Read R] : Nat → R → Nat → RdRes × R
  | _, r, 0 => (.ok [], r)
  | 0, r, _ + 1 => (.panic, r)
  | fuel + 1, r, n + 1 =>
    match Read.rd r (n + 1) with
    | (.ok bs, r') =>
      if bs = [] then (.err .unexpectedEof, r')
      else if bs.length ≤ n + 1 then
        match readExactAux fuel r' (n + 1 - bs.length) with
        | (.ok rest, r'') => (.ok (bs ++ rest), r'')
        | x => x
      else (.panic, r')
    | (.err e, r') => (.err e, r')
    | (.panic, r') => (.panic, r')

/-- `r.read_exact(buf)` -/
def read_exact {R : Type} [Read R] (r : R) (buf : Bytes) : IoRes Unit × R × Bytes :=
  match readExactAux buf.length r buf.length with
  | (.ok bs, r') => (.ok (), r', bs)
  | (.err e, r') => (.err e, r', buf)
  | (.panic, r') => (.panic, r', buf)

/-- `Write::write_all`, default body: `Ok(0)` is `WriteZero`, otherwise go on with `&buf[n..]`. -/
def writeAllAux {W : Type} [Write W] : Nat → W → Bytes → IoRes Unit × W
  | _, w, [] => (.ok (), w)
  | 0, w, _ :: _ => (.panic, w)
  | fuel + 1, w, b :: bs =>
    match Write.wr w (b :: bs) with
    | (.ok 0, w') => (.err .writeZero, w')
    | (.ok k, w') =>
      if k ≤ (b :: bs).length then writeAllAux fuel w' ((b :: bs).drop k) else (.panic, w')
    | (.err e, w') => (.err e, w')
    | (.panic, w') => (.panic, w')

/-- `w.write_all(buf)` -/
def write_all {W : Type} [Write W] (w : W) (buf : Bytes) : IoRes Unit × W := writeAllAux buf.length w buf

/-- `w.flush()` -/
def flush {W : Type} [Write W] (w : W) : IoRes Unit × W := Write.fl w

/-- `x[i]` on a byte slice -/
def idx (bs : Bytes) (i : UInt64) : Option UInt8 := bs[i.toNat]?

/-- `x[i] = v` on a byte slice -/
def setIdx (bs : Bytes) (i : UInt64) (v : UInt8) : Option Bytes :=
  if i.toNat < bs.length then some (bs.set i.toNat v) else none

/-- write-back of a `&mut x[lo..hi]` that was handed to a callee: `new` replaces the bytes from `lo` on -/
def splice (buf : Bytes) (lo : UInt64) (new : Bytes) : Bytes :=
  buf.take lo.toNat ++ new ++ buf.drop (lo.toNat + new.length)

/-- `for byte in xs.iter_mut() { body }` where the body may assign `*byte` and the loop-carried
variables `st`; a panic in the body is a panic of the loop. -/
def iterMut {σ : Type} (xs : Bytes) (st : σ) (f : σ → UInt8 → Option (UInt8 × σ)) : Option (Bytes × σ) :=
  match xs with
  | [] => some ([], st)
  | b :: bs =>
    match f st b with
    | none => none
    | some (b', st') =>
      match iterMut bs st' f with
      | none => none
      | some (bs', st'') => some (b' :: bs', st'')

/-- `for (a, b) in xs.iter_mut().zip(ys.iter()) { body }`: stops with the shorter of the two; the body may
assign `*a` and the loop-carried variables `st`. -/
def iterMutZip {σ : Type} (xs ys : Bytes) (st : σ) (f : σ → UInt8 → UInt8 → Option (UInt8 × σ)) : Option (Bytes × σ) :=
  match xs, ys with
  | [], _ => some ([], st)
  | b :: bs, [] => some (b :: bs, st)
  | b :: bs, c :: cs =>
    match f st b c with
    | none => none
    | some (b', st') =>
      match iterMutZip bs cs st' f with
      | none => none
      | some (bs', st'') => some (b' :: bs', st'')

/-- `while cond { body }` over the loop-carried variables `st`; a panic in the body is a panic of the loop.
Running out of fuel is a panic too: a Tie proof has to show the generated fuel adequate. -/
def whileLoop {σ : Type} : Nat → σ → (σ → Bool) → (σ → Option σ) → Option σ
  | 0, _, _, _ => none
  | fuel + 1, st, cond, body =>
    if cond st then
      match body st with
      | none => none
      | some st' => whileLoop fuel st' cond body
    else some st

/-- `for x in xs { body }` over a list value with the loop-carried variables `st`: the body goes on
(`Step.next`) or leaves the FUNCTION with a result (`Step.ret`: `return`, a failed `?`); `none` = panic. -/
def forEach {α σ ρ : Type} (xs : List α) (st : σ) (f : σ → α → Option (Step σ ρ)) : Option (LoopEnd σ ρ) :=
  match xs with
  | [] => some (.done st)
  | x :: r =>
    match f st x with
    | none => none
    | some (.next st') => forEach r st' f
    | some (.brk st') => some (.done st')
    | some (.ret v) => some (.ret v)

/-- `xs.fold(init, |acc, x| body)` where the body may panic -/
def foldM {α σ : Type} (xs : List α) (init : σ) (f : σ → α → Option σ) : Option σ :=
  match xs with
  | [] => some init
  | x :: r =>
    match f init x with
    | none => none
    | some s => foldM r s f

/-- `x = &mut x[n..]` on a `mut x: &mut [u8]` parameter: the bytes left behind and the new view
(`n > x.len()` panics) -/
def splitAt (bs : Bytes) (n : UInt64) : Option (Bytes × Bytes) :=
  if n.toNat ≤ bs.length then some (bs.take n.toNat, bs.drop n.toNat) else none

/-- `Write for &mut [u8]`, `write_all(data)` on a temporary view of `buf` (`buf.as_mut().write_…`): the
front of `buf` is overwritten; data that does not fit is `WriteZero` after the part that fits was copied. -/
def sliceWriteAll (buf data : Bytes) : IoRes Unit × Bytes :=
  if data.length ≤ buf.length then (.ok (), data ++ buf.drop data.length)
  else (.err .writeZero, data.take buf.length)

/-- `opt.ok_or_else(|| err)` -/
def okOr {α : Type} (o : Option α) (e : ZipVerif.IoKind) : IoRes α :=
  match o with
  | some a => .ok a
  | none => .err e

/-- `assert!(c)` -/
def assert (c : Bool) : Option Unit := if c then some () else none

/-- `a == b` / `a != b` on byte slices and vectors -/
def bytesEq (a b : Bytes) : Bool := decide (a = b)

/-! Unfolding of the `Id.run do …` wrapper of the generated definitions (for Tie proofs). -/
theorem id_pure {α : Type} (x : α) : (pure x : Id α) = x := rfl
theorem id_bind {α β : Type} (x : Id α) (f : α → Id β) : (x >>= f) = f x := rfl

end L
end Rs
