import ZipVerif.Basic.Rs
import ZipVerif.Model.IO
import ZipVerif.Model.TextBytes
/-
Prelude for the READ mode of `rs2lean` (tier T5): a function
`fn f<T: Read [+ Seek]>(reader: &mut T, …) -> ZipResult<R>` is translated into
`Gen.f (…) : ZipVerif.Model.M R`, a computation in the model's own I/O monad, so that a Tie theorem
is a plain equation between `M`-computations (valid for every device state and every fault index).

* `reader.read_uNN::<LittleEndian>()?` is `M.readUNN`; `reader.read_exact(&mut buf)?` reads
  `buf.len()` bytes (`R.read_exact`); `reader.seek(SeekFrom::…)?` is `M.seek` with the position
  converted (`u64 → Nat`, `i64 → Int`) and the result narrowed back to `u64` (`R.seek`);
  `reader.stream_position()?` is `M.streamPosition`.
* Integers keep their Rust widths (`u64`/`usize` = `UInt64`, `i64` = `Int64`); `+ - *` are the checked
  operations of `Rs.Arith`, a `none` is a panic of the computation (`R.lift`).
* `return Err(e)` / `Err(e)?` is `M.throw` of the model's error value (`zerr`); an I/O error of the
  device propagates through the monadic bind like `?`.
* `while` loops are fuelled (`R.whileLoop`, out of fuel = panic: a Tie proof shows the generated fuel
  adequate); the body reports `break` / `return Ok(..)` through `Rs.Step`.
-/

namespace Rs
open ZipVerif ZipVerif.Model

/-- The model's error value of a translated `ZipError` expression (messages are dropped). -/
def zerr : ZipErr → ZErr
  | .Io .Other => .io .other
  | .Io .InvalidData => .io .invalidData
  | .Io .InvalidInput => .io .invalidInput
  | .Io .UnexpectedEof => .io .unexpectedEof
  | .Io .WriteZero => .io .writeZero
  | .Io .BrokenPipe => .io .brokenPipe
  | .InvalidArchive => .invalidArchive
  | .UnsupportedArchive => .unsupportedArchive
  | .FileNotFound => .fileNotFound
  | .PasswordRequired => .passwordRequired

/-- `String::from_utf8_lossy(&raw).into_owned()` (as the UTF-8 bytes of the `String`): the model's decoder -/
def fromUtf8Lossy (raw : Bytes) : Bytes := Model.Text.decodeToUtf8 true raw
/-- `raw.from_cp437()` (as the UTF-8 bytes of the `String`): the model's decoder -/
def fromCp437 (raw : Bytes) : Bytes := Model.Text.decodeToUtf8 false raw

namespace R

/-- a panic-monad computation (checked arithmetic, indexing, a translated pure function) -/
def lift {α} : Option α → M α
  | some a => pure a
  | none => M.panic "rs2lean: checked operation"

/-- `return Err(e)` / `Err(e)?` -/
def err {α} (e : ZipErr) : M α := M.throw (zerr e)

/-- `opt.ok_or(e)?` -/
def ok_or {α} (o : Option α) (e : ZipErr) : M α :=
  match o with
  | some a => pure a
  | none => M.throw (zerr e)

/-- call of a function that mutates a `&mut` local, without `?`: the `Result` as a value and the
final value of the local; a panic of the callee is a panic -/
def runP {σ α} (x : P σ (α × σ)) : M (Except ZErr α × σ) :=
  match P.run x with
  | (none, _) => M.panic "rs2lean: checked operation"
  | (some (.ok a), s) => pure (.ok a, s)
  | (some (.error e), s) => pure (.error (zerr e), s)

/-- `reader.seek(pos)?`: the new position as `u64` -/
def seek (s : SeekFrom) : M UInt64 := do
  let p ← M.seek s
  pure (UInt64.ofNat p)

/-- `reader.stream_position()?` -/
def stream_position : M UInt64 := do
  let p ← M.streamPosition
  pure (UInt64.ofNat p)

/-- `reader.read_exact(&mut buf)?`: the new contents of `buf` -/
def read_exact (buf : Bytes) : M Bytes := M.readExact buf.length

/-- `while cond { body }` over the loop-carried variables; running out of fuel is a panic. -/
def whileLoop {σ ρ : Type} (cond : σ → M Bool) (body : σ → M (Step σ ρ)) : Nat → σ → M (LoopEnd σ ρ)
  | 0, _ => M.panic "rs2lean: loop fuel"
  | fuel + 1, s => do
    if (← cond s) then
      match (← body s) with
      | .next s' => whileLoop cond body fuel s'
      | .brk s' => pure (.done s')
      | .ret r => pure (.ret r)
    else pure (.done s)

end R
end Rs
