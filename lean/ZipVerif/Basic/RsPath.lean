import ZipVerif.Basic.RsL
import ZipVerif.Spec.Utf8
/-
Vocabulary of `std::path` and of the string methods used next to it, for the LAYER mode of rs2lean
(types.rs: `enclosed_name`, `file_name_sanitized`; read.rs: `path_depth`).  Unix host.

Trusted vocabulary:
  * A Rust `String` / `&str` is its UTF-8 bytes; a `Path` / `PathBuf` is the bytes of its `OsStr`
    (`Path::new(s)` is the identity).
  * `s.contains(c)` / `s.find(c)` for an ASCII `char` literal look for its byte (in UTF-8 a byte below 0x80
    occurs only as that character); other arguments are outside the subset.
  * `c.to_string()` of a `char` is its UTF-8 encoding (`Spec.utf8EncodeChar`, RFC 3629).
  * `&s[a..b]` on a `str` is the byte slice; it panics on a bad range and when `a` or `b` is not a character
    boundary (`str::is_char_boundary`: 0, the length, or the index of a byte that is not a continuation byte 10xxxxxx).
  * `s.replace(pat, to)` with `&str` arguments replaces every non-overlapping occurrence of the BYTES of `pat`, found
    left to right (what `StrSearcher` does; an occurrence of well-formed UTF-8 inside well-formed UTF-8 starts at a
    character boundary).  The empty pattern matches at every character boundary.
  * `std::path::MAIN_SEPARATOR` is '/' (Unix host).
  * `std::path::Component` is `Rs.Component` (payloads: the bytes of the `OsStr`); `Component::as_os_str` gives the
    payload, "/" for `RootDir`, "." for `CurDir`, ".." for `ParentDir`.
  * `iter.filter(p)` on the list of components is `List.filter`.
  * `Path::components()` and `PathBuf::push` are the NAMED PARAMETERS `PathOps.components` /
    `PathOps.push` — arbitrary functions here; the Tie instantiates them with the functions of
    `Model/Paths.lean` (validated against std by the exhaustive `paths` correspondence stream).
-/

namespace Rs

/-- `std::path::Component` -/
inductive Component where
  | Prefix (p : Bytes)
  | RootDir
  | CurDir
  | ParentDir
  | Normal (s : Bytes)
  deriving DecidableEq, Repr

/-- `std::path` (external): the components of a path, and `PathBuf::push` -/
class PathOps where
  components : Bytes → List Component
  push : Bytes → Bytes → Bytes

/-- `s.contains(c)` for an ASCII `char` literal `c` (given by its code) -/
def Str.containsAscii (s : Bytes) (c : Nat) : Bool := s.contains (UInt8.ofNat c)

/-- `s.find(c)` for an ASCII `char` literal `c` (given by its code): the byte index of the first occurrence -/
def Str.findAscii (s : Bytes) (c : Nat) : Option UInt64 :=
  (s.findIdx? (· == UInt8.ofNat c)).map UInt64.ofNat

/-- `s.is_char_boundary(i)`: `i == 0`, or `i == s.len()`, or the byte at `i` is not a continuation byte
(`(b as i8) >= -0x40`) -/
def Str.isCharBoundary (s : Bytes) (i : Nat) : Bool :=
  i == 0 ||
    match s[i]? with
    | some b => decide (b < 0x80) || decide (b ≥ 0xC0)
    | none => i == s.length

/-- `&s[lo..hi]` on a `str`: panics unless `lo ≤ hi ≤ s.len()` and both are character boundaries -/
def Str.slice (s : Bytes) (lo hi : UInt64) : Option Bytes :=
  if lo.toNat ≤ hi.toNat ∧ hi.toNat ≤ s.length ∧ Str.isCharBoundary s lo.toNat ∧ Str.isCharBoundary s hi.toNat then
    some ((s.take hi.toNat).drop lo.toNat)
  else none

/-- `c.to_string()` -/
def Str.ofChar (c : Char) : Bytes := ZipVerif.Spec.utf8EncodeChar c

/-- the search of `Str.replace` for a non-empty pattern: `skip` bytes of a match still to be dropped -/
def Str.replaceGo (pat to : Bytes) : Bytes → Nat → Bytes
  | [], _ => []
  | _ :: r, skip + 1 => Str.replaceGo pat to r skip
  | b :: r, 0 =>
    if pat.isPrefixOf (b :: r) then to ++ Str.replaceGo pat to r (pat.length - 1)
    else b :: Str.replaceGo pat to r 0

/-- `s.replace(pat, to)` with `&str` arguments -/
def Str.replace (s pat to : Bytes) : Bytes :=
  if pat.isEmpty then
    -- a match at every character boundary: in front of every byte that starts a character, and at the end
    s.foldr (fun b acc => (if decide (b < 0x80) || decide (b ≥ 0xC0) then to else []) ++ b :: acc) to
  else Str.replaceGo pat to s 0

/-- `s.chars()` as the list of the characters (a Rust `String` is well-formed UTF-8, so the strict decoder applies;
`iter.rev()` is `List.reverse`, `iter.next()` on a fresh iterator `List.head?`, `opt.map_or(d, f)` a `match`) -/
def Str.chars (s : Bytes) : List Char :=
  match ZipVerif.Spec.utf8Strict s with
  | some cs => cs
  | none => []

/-- `std::path::MAIN_SEPARATOR` (Unix) -/
def Path.MAIN_SEPARATOR : Char := '/'

/-- `Component::as_os_str` (Unix) -/
def Component.as_os_str : Component → Bytes
  | .Prefix p => p
  | .RootDir => [0x2F]
  | .CurDir => [0x2E]
  | .ParentDir => [0x2E, 0x2E]
  | .Normal s => s

end Rs
