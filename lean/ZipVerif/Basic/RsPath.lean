import ZipVerif.Basic.RsL
/-
Vocabulary of `std::path` and of the string methods used next to it, for the LAYER mode of rs2lean
(types.rs: `enclosed_name`, `file_name_sanitized`; read.rs: `path_depth`).  Unix host.

Trusted vocabulary:
  * A Rust `String` / `&str` is its UTF-8 bytes; a `Path` / `PathBuf` is the bytes of its `OsStr`
    (`Path::new(s)` is the identity).
  * `s.contains(c)` / `s.find(c)` for an ASCII `char` literal look for its byte (in UTF-8 a byte below 0x80
    occurs only as that character); other arguments are outside the subset.
  * `std::path::Component` is `Rs.Component` (payloads: the bytes of the `OsStr`).
  * `Path::components()` and `PathBuf::push` are the NAMED PARAMETERS `PathOps.components` /
    `PathOps.push` — arbitrary functions here; the Tie instantiates them with the functions of
    `Model/Paths.lean` (validated against std by the exhaustive `paths` correspondence stream).
-/

namespace Rs

/-- `std::path::Component` -/
inductive Component where
  | Prefix (p : Bytes)
  | RootDir
  | CurDir
  | ParentDir
  | Normal (s : Bytes)
  deriving DecidableEq, Repr

/-- `std::path` (external): the components of a path, and `PathBuf::push` -/
class PathOps where
  components : Bytes → List Component
  push : Bytes → Bytes → Bytes

/-- `s.contains(c)` for an ASCII `char` literal `c` (given by its code) -/
def Str.containsAscii (s : Bytes) (c : Nat) : Bool := s.contains (UInt8.ofNat c)

end Rs
