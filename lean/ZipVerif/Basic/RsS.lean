import ZipVerif.Basic.RsM
import ZipVerif.Model.Writer
/-
Prelude for the STATE-MACHINE mode of `rs2lean` (tier T6, `rs2lean/src/t6w.rs`): a method
`fn f(&mut self, …) -> ZipResult<R>` / `io::Result<R>` of a structure that owns its sink
(`impl ZipWriter`) is translated into

    Gen.T.f (ext : Rs.S.Ext) (self : Gen.T) (…) : Rs.S Gen.T (R × Gen.T)

a computation in the model's I/O monad `M` that threads the value of `self` explicitly:
* `Rs.S σ α = M (Except (ZErr × σ) α)`: `Err(e)` carries the value `self` had when the method
  returned (Rust mutates in place, the caller keeps the object); a panic is `M.panic` (the object is
  gone with the unwinding); every failure site (`S.err`, `S.lift`, `S.io`, `S.ofResult`) is handed the
  current `self`.
* `self.field = v` is a record update of the local `self`; a `&mut` alias of a part of `self`
  (`let file = self.files.last_mut().unwrap()`) is a local copy that is written back after every
  assignment through it (`Rs.setLast`).
* `x?` on a sink operation (`writer.seek(..)?`, `writer.write_all(..)?`, a translated serialiser
  called with the sink) is `S.io`: the device error becomes the method's error.
* calling another `&mut self` method is a bind (the callee's final `self` is the caller's).

The compressor stack under `self.inner` (`GenericZipWriter`, `MaybeEncrypted`, flate2 / bzip2 / zstd
encoders, `ZipCryptoWriter`) is EXTERNAL code.  Its vocabulary is given the meaning of the model's
existing treatment (`Model/Writer.lean`: `Inner`, `EncState`, `WExt`, `switchTo`, `emit`,
`emitFinish`); this table is part of the trusted base and restated in `Tie/WriterSM.lean`.
-/

namespace Rs
open ZipVerif ZipVerif.Model

/-- `crc32fast::Hasher`: the raw CRC register (`Hasher::new()` = all ones). -/
abbrev Hasher := UInt32
def Hasher.new : Hasher := 0xFFFFFFFF
/-- `hasher.update(buf)` -/
def Hasher.update (h : Hasher) (buf : Bytes) : Hasher := Spec.Crc32.updateBytes h buf
/-- `hasher.clone().finalize()` -/
def Hasher.finalize (h : Hasher) : UInt32 := Model.hasherFinalize h

/-- `vec.last()` / `vec.last_mut()` -/
def last {α} (v : List α) : Option α := v.getLast?
/-- writing `x` through the `&mut` that `vec.last_mut()` returned -/
def setLast {α} (v : List α) (x : α) : List α :=
  match v.reverse with
  | [] => []
  | _ :: rest => (x :: rest).reverse
/-- the last byte of a `String`'s UTF-8 bytes (`s.chars().last()` matched against ASCII literals) -/
def lastByte (s : Bytes) : Option UInt8 := s.getLast?
/-- `vec.push(x)` -/
def push {α} (v : List α) (x : α) : List α := v ++ [x]
/-- `vec.len()` -/
def vlen {α} (v : List α) : UInt64 := UInt64.ofNat v.length
/-- `<Vec<u8> as Write>::write(buf)`: appends everything, `Ok(buf.len())` -/
def vecWrite (v buf : Bytes) : Except ZErr UInt64 × Bytes := (.ok (Rs.len buf), v ++ buf)

/-- How a `&mut self` method ends: `Ok(a)`, or `Err(e)` with the value of `self` at that point. -/
structure S (σ α : Type) : Type where
  ofM ::
  toM : M (Except (ZErr × σ) α)

namespace S
variable {σ τ α β : Type}

/-- the compressor stack `GenericZipWriter<W>` over the sink: the model's `Inner` -/
abbrev Inner := Model.Inner
/-- external code on the write side: the model's `WExt` (encoder output, ZipCrypto), plus how many
bytes of a buffer ONE `write` call of an encoder consumes (flate2 / bzip2 / zstd may take fewer than
offered; the model's `write_all` view of an entry is `accept = length`) -/
structure Ext extends Model.WExt where
  accept : Bytes → Nat
  accept_le : ∀ b, accept b ≤ b.length

instance : Monad (S σ) where
  pure a := ofM (pure (.ok a))
  bind x f := ofM (toM x >>= fun r => match r with
    | .ok a => toM (f a)
    | .error e => pure (.error e))

/-- `return Err(e)` / `Err(e)?` -/
def err (e : ZipErr) (st : σ) : S σ α := ofM (pure (.error (zerr e, st)))
/-- `Err(e)` for an error value bound by a pattern (already a model error) -/
def throw (e : ZErr) (st : σ) : S σ α := ofM (pure (.error (e, st)))
/-- a panic-monad computation (checked arithmetic, `unwrap`, indexing, `get_plain`) -/
def lift (o : Option α) (st : σ) : S σ α :=
  match o with
  | some a => pure a
  | none => ofM (M.panic "rs2lean: checked operation")
/-- `panic!` / `unreachable!` / a failed `assert!` -/
def panic (st : σ) : S σ α := ofM (M.panic "rs2lean: panic")
/-- `op?` on the sink: a device error is the method's error -/
def io (m : M α) (st : σ) : S σ α := ofM (do
  let r ← M.attempt m
  match r with
  | .ok a => pure (.ok a)
  | .error e => pure (.error (e, st)))
/-- `r?` / `r` in result position, for a `Result` value -/
def ofResult (r : Except ZErr α) (st : σ) : S σ α :=
  match r with
  | .ok a => pure a
  | .error e => ofM (pure (.error (e, st)))
/-- an operation of the external vocabulary (it reports its own errors as a value) -/
def call (m : M α) : S σ α := ofM (m >>= fun a => pure (.ok a))
/-- a `&mut self` method of a part `self.field` of the object: `wrap` puts the part back -/
def sub (wrap : τ → σ) (x : S τ α) : S σ α := ofM (toM x >>= fun r => match r with
  | .ok a => pure (.ok a)
  | .error (e, t) => pure (.error (e, wrap t)))
/-- a `&mut self` method called without `?`: the `Result` as a value, `self` as the callee left it -/
def attempt (x : S σ (α × σ)) : S σ (Except ZErr α × σ) := ofM (toM x >>= fun r => match r with
  | .ok (a, s) => pure (.ok (.ok a, s))
  | .error (e, s) => pure (.ok (.error e, s)))
/-- `opt.ok_or(e)?` / `opt.ok_or_else(|| e)?` -/
def okOr (o : Option α) (e : ZipErr) (st : σ) : S σ α :=
  match o with
  | some a => pure a
  | none => ofM (pure (.error (zerr e, st)))

/-- what a translated serialiser (`Rs.W Act`) handed to the sink, replayed on the device -/
def replay : List Act → M Unit
  | [] => pure ()
  | .write bs :: as => do M.writeAll bs; replay as
  | .seek p :: as => do let _ ← M.seek (.start p.toNat); replay as

/-- `serialiser(writer, …)?` with the bare sink: its writes and seeks in order (every one of them is
followed by `?` in the serialiser, so the first device error ends the call), then its own outcome -/
def runW (x : W Act α) (st : σ) : S σ α := ofM (do
  let r ← M.attempt (replay x.log)
  match r with
  | .error e => pure (.error (e, st))
  | .ok _ =>
    match x.res with
    | some (.ok a) => pure (.ok a)
    | some (.error e) => pure (.error (zerr e, st))
    | none => M.panic "rs2lean: checked operation")

/-- `serialiser(writer, …)?` for a serialiser that only writes (`T: Write`): its chunks, one `write_all`
each (`M.writeChunks`), then its own outcome -/
def runWB (x : W Bytes α) (st : σ) : S σ α := ofM (do
  let r ← M.attempt (M.writeChunks x.log)
  match r with
  | .error e => pure (.error (e, st))
  | .ok _ =>
    match x.res with
    | some (.ok a) => pure (.ok a)
    | some (.error e) => pure (.error (zerr e, st))
    | none => M.panic "rs2lean: checked operation")

/-- `for x in xs.iter() { body }` where the body changes no variable of the enclosing function and leaves
only through `?` -/
def forEach {γ : Type} (xs : List γ) (body : γ → S σ Unit) : S σ Unit :=
  match xs with
  | [] => pure ()
  | x :: rest => do body x; forEach rest body

/-- `self.write_all(buf)`: std's default body of `Write::write_all` over the object's own `write`
(`Ok(0)` is `WriteZero`; the rest `&buf[n..]` goes on; `ErrorKind::Interrupted` is not produced by
the model's sink); fuel `buf.len() + 1`, running out of it is a panic -/
def write_all (w : σ → Bytes → S σ (UInt64 × σ)) : Nat → σ → Bytes → S σ (Unit × σ)
  | 0, _, _ => ofM (M.panic "rs2lean: loop fuel")
  | fuel + 1, st, buf =>
    if buf.isEmpty then pure ((), st) else do
      let (n, st') ← w st buf
      if n == 0 then err (.Io .WriteZero) st'
      else match Rs.sliceFrom buf n with
        | some rest => write_all w fuel st' rest
        | none => ofM (M.panic "rs2lean: checked operation")

/-- the method as a step of the model's writer: outcome and final `self` -/
def run (x : S σ (α × σ)) : M (Except ZErr α × σ) := toM x >>= fun r => match r with
  | .ok (a, s) => pure (.ok a, s)
  | .error (e, s) => pure (.error e, s)

/-! ### Vocabulary of the external compressor stack (trusted: the model's treatment) -/

/-- `GenericZipWriter::Closed` -/
abbrev closed : Inner := Model.Inner.closed

/-- `inner.ref_mut()`: `None` when closed, else the current encoder as `&mut dyn Write` -/
def ref_mut (i : Inner) : Option Unit :=
  match i with
  | .closed => none
  | _ => some ()

/-- `inner.is_closed()` -/
def is_closed (i : Inner) : Bool := i.isClosed

/-- `inner.get_plain()`: the bare sink; panics unless `Storer(Unencrypted(_))` -/
def get_plain (i : Inner) : Option Unit :=
  match i with
  | .storer none => some ()
  | _ => none

/-- `inner.unwrap()`: the bare sink, by value; panics unless `Storer(Unencrypted(_))` -/
def unwrap_sink (i : Inner) : Option Unit := get_plain i

/-- `w.write(buf)` on the `&mut dyn Write` of `ref_mut()`: a plain storer hands the buffer to the
sink (one `write` call, the sink's count); the ZipCrypto layer buffers it; an encoder consumes it
`ext.accept buf` bytes of it (its output reaches the sink when the encoder is finished, see `switch_to`). -/
def enc_write (ext : Ext) (i : Inner) (buf : Bytes) : M (Except ZErr UInt64 × Inner) :=
  match i with
  | .storer none => do
    let r ← M.attempt (M.write buf)
    match r with
    | .ok n => pure (.ok (UInt64.ofNat n), i)
    | .error e => pure (.error e, i)
  | .storer (some e) => pure (.ok (Rs.len buf), .storer (some { e with buffer := e.buffer ++ buf }))
  | .compressor m l enc pending =>
    pure (.ok (UInt64.ofNat (ext.accept buf)), .compressor m l enc (pending ++ buf.take (ext.accept buf)))
  | .closed => M.panic "rs2lean: write through a closed writer"

/-- `w.flush()` on the `&mut dyn Write` of `ref_mut()`: a plain storer forwards to the sink's own `flush`
(one I/O call); `ZipCryptoWriter::flush` is `Ok(())` without I/O; an encoder's `flush` (flate2 / bzip2 / zstd:
end the current block, hand the compressed bytes so far to the layer below) is given the model's meaning
(`Model.flushWriter`): `Ok(())`, the state of the stack as this model sees it unchanged, no sink call - the
calls it would make under an injected fault are NOT modelled. -/
def enc_flush (ext : Ext) (i : Inner) : M (Except ZErr Unit) :=
  match i with
  | .storer none => M.attempt M.flush
  | .storer (some _) => pure (.ok ())
  | .compressor _ _ _ _ => pure (.ok ())
  | .closed => M.panic "rs2lean: flush through a closed writer"

/-- The panic of `position` below. -/
def OVF : String := "rs2lean: sink position exceeds u64"

/-- `writer.stream_position()` on the bare sink (before `?`): one `seek(Current(0))` call.  A real sink's
position IS a `u64`; the model's device counts in `Nat`, so on a (model-only) device whose position
does not fit the translated code stops with the distinguished panic `OVF` - Tie theorems for methods
that read positions are refinements "equal to the model wherever not `OVF`" (`Tie/WriterSM.lean`). -/
def position : M UInt64 := do
  let p ← M.streamPosition
  if p < 18446744073709551616 then pure (UInt64.ofNat p) else M.panic OVF

/-- a `CompressionMethod` value as the model's `Method` (instance for the generated enum: `Tie/Types.lean`) -/
class IsMethod (μ : Type) where
  toModel : μ → Model.Method

/-- `inner.switch_to(method, level)` as the translated `ZipWriter` methods call it: the model's `switchTo`
(finish the current encoder - its whole output goes to the sink or into the ZipCrypto buffer -, check the
level, start the new encoder).  `Tie/SwitchTo.lean` proves the TRANSLATED `GenericZipWriter::switch_to`
(`Gen/SwitchTo.lean`, over `GZW` below) equal to this function. -/
def switch_to {μ : Type} [IsMethod μ] (ext : Ext) (i : Inner) (m : μ) (level : Option Int32) :
    M (Except ZErr Unit × Inner) := do
  let (r, s) ← Model.switchTo ext.toWExt (IsMethod.toModel m) (level.map Int32.toInt) { WState.init with inner := i }
  pure (r, s.inner)

/-- `ZipCryptoWriter::finish(crc32)`: patch the check byte into the 12-byte header, encrypt the
buffer, hand it to the sink (`write_all`), `flush`; the value is the bare sink.  `Tie/ZcFinish.lean` links this
with the translated `Gen.ZipCryptoWriter.finish` over the model's device. -/
def zc_finish (ext : Ext) (e : EncState) (crc : UInt32) : M Unit :=
  if e.buffer.length < 12 then M.panic "zipcrypto.rs:133 buffer[11]" else do
    M.writeAll (ext.zcEncrypt e.pw (e.buffer.take 11 ++ [(crc >>> 24).toUInt8] ++ e.buffer.drop 12))
    M.flush

/-- `ZipCryptoWriter::write` / `write_all`: the bytes are buffered until `finish` -/
def zc_write (e : EncState) (bs : Bytes) : EncState := { e with buffer := e.buffer ++ bs }

/-! ### `GenericZipWriter` as the Rust enum, for the translation of ITS OWN methods (`switch_to`,
`current_compression`; `rs2lean/src/t6w3.rs`, tie: `Tie/SwitchTo.lean`) -/

/-- a flate2 / bzip2 / zstd write-side encoder over `MaybeEncrypted<W>`: its level, what it wraps
(`none` = the bare sink, `some` = the ZipCrypto layer), the plaintext it has consumed -/
structure Enc where
  level : Int
  inner : Option EncState
  pending : Bytes

/-- `GenericZipWriter<W>`, one constructor per variant (features deflate, bzip2, zstd on) -/
inductive GZW
  | Storer (w : Option EncState)
  | Deflater (w : Enc)
  | Bzip2 (w : Enc)
  | Zstd (w : Enc)
  | Closed

/-- the compressor stack of the model (`Model.Inner`) that a Rust value stands for -/
def GZW.toInner : GZW → Inner
  | .Storer w => .storer w
  | .Deflater w => .compressor .deflated w.level w.inner w.pending
  | .Bzip2 w => .compressor .bzip2 w.level w.inner w.pending
  | .Zstd w => .compressor .zstd w.level w.inner w.pending
  | .Closed => .closed

/-- `x?` on an operation of the external vocabulary that reports its own errors as a value -/
def tryM (m : M (Except ZErr α)) (st : σ) : S σ α := ofM (m >>= fun r => match r with
  | .ok a => pure (.ok a)
  | .error e => pure (.error (e, st)))

/-- `encoder.finish()` (before `?`): the encoder's whole output - `ext.compress` of everything it consumed -
goes to what it wraps: appended to the ZipCrypto buffer, or ONE `write_all` on the sink; the value is the
wrapped `MaybeEncrypted<W>`.  When that write fails the encoder is dropped with the error, and flate2's /
bzip2's destructors (`retry`) try the same write once more, result ignored; zstd's has no such destructor. -/
def enc_finish (ext : Ext) (m : Method) (retry : Bool) (w : Enc) : M (Except ZErr (Option EncState)) :=
  match w.inner with
  | some e => pure (.ok (some { e with buffer := e.buffer ++ ext.compress m w.level w.pending }))
  | none => do
    let r ← M.attempt (M.writeAll (ext.compress m w.level w.pending))
    match r with
    | .ok _ => pure (.ok none)
    | .error e =>
      if retry then do
        let _ ← M.attempt (M.writeAll (ext.compress m w.level w.pending))
        pure (.error e)
      else pure (.error e)

def DeflateEncoder.finish (ext : Ext) (w : Enc) := enc_finish ext .deflated true w
def BzEncoder.finish (ext : Ext) (w : Enc) := enc_finish ext .bzip2 true w
def ZstdEncoder.finish (ext : Ext) (w : Enc) := enc_finish ext .zstd false w

/-- `flate2::Compression::new(level)` / `bzip2::Compression::new(level)`: the level as a number -/
def flate2_Compression_new (level : UInt32) : Int := level.toNat
def bzip2_Compression_new (level : UInt32) : Int := level.toNat
/-- `DeflateEncoder::new(w, level)` / `BzEncoder::new(w, level)`: nothing consumed yet -/
def DeflateEncoder.new (w : Option EncState) (level : Int) : Enc := ⟨level, w, []⟩
def BzEncoder.new (w : Option EncState) (level : Int) : Enc := ⟨level, w, []⟩
/-- `ZstdEncoder::new(w, level)` (an `io::Result`; assumed `Ok` - it fails only when the library cannot
allocate its context) -/
def ZstdEncoder.new (w : Option EncState) (level : Int32) : Option Enc := some ⟨level.toInt, w, []⟩

/-- the level constants of the three libraries (flate2 1.x, bzip2 0.4, zstd 0.11) -/
def flate2_level_none : UInt32 := 0
def flate2_level_fast : UInt32 := 1
def flate2_level_best : UInt32 := 9
def flate2_level_default : UInt32 := 6
def bzip2_level_none : UInt32 := 0
def bzip2_level_fast : UInt32 := 1
def bzip2_level_best : UInt32 := 9
def bzip2_level_default : UInt32 := 6
def zstd_DEFAULT_COMPRESSION_LEVEL : Int32 := 3

end S

/-- `std::ops::RangeInclusive<T>` -/
structure RangeIncl (α : Type) where
  lo : α
  hi : α
/-- `range.contains(&v)` -/
def RangeIncl.contains {α} [LE α] [DecidableLE α] (r : RangeIncl α) (v : α) : Bool := decide (r.lo ≤ v ∧ v ≤ r.hi)

instance : As UInt32 Int32 := ⟨UInt32.toInt32⟩
instance : As Int32 UInt32 := ⟨Int32.toUInt32⟩
instance : As Int32 Int32 := ⟨id⟩

/-- `zstd::compression_level_range()` (`ZSTD_minCLevel() ..= ZSTD_maxCLevel()`) -/
def S.zstd_compression_level_range : RangeIncl Int32 := ⟨-131072, 22⟩

end Rs
