import ZipVerif.Basic.Rs
import ZipVerif.Basic.RsL
/-
Vocabulary of the `time` crate (0.3) for the LAYER mode of rs2lean (types.rs, feature `time`:
`DateTime::to_time`, `impl TryFrom<OffsetDateTime> for DateTime`).

Trusted vocabulary:
  * `time::Month` is `#[repr(u8)]` with January = 1 … December = 12: `Month::try_from(n: u8)` succeeds exactly for
    1..=12, `month as u8` gives the number back (`Rs.Month`, its number).
  * `time::error::ComponentRange` and `zip::result::DateTimeRangeError` carry nothing the crate looks at
    (`ComponentRange` names the offending component; the model has one error value).
  * The calendar itself is a NAMED PARAMETER (`Rs.TimeOps`, arbitrary here): the types `Date`, `Time`,
    `PrimitiveDateTime`, `OffsetDateTime`, the PARTIAL constructors `Date::from_calendar_date` and `Time::from_hms`,
    `PrimitiveDateTime::new`, `assume_utc`, and the field accessors of an `OffsetDateTime`.  The Tie instantiates it
    with the calendar of `Model/DateTime.lean` (`Spec.Dos.daysInMonth` / `isLeap`, compared with the `time` crate on
    every (year, month) by the `dos.dim` correspondence op).
  * `x as i32` for `u16` zero-extends, `x as u16` for `i32` truncates.
-/

namespace Rs

/-- `time::error::ComponentRange` -/
structure ComponentRange where
  deriving DecidableEq, Repr

/-- `zip::result::DateTimeRangeError` -/
structure DateTimeRangeError where
  deriving DecidableEq, Repr

/-- `time::Month` (`#[repr(u8)]`, January = 1): its number -/
structure Month where
  n : UInt8
  deriving DecidableEq, Repr

/-- `Month::try_from(n: u8)` -/
def Month.try_from (n : UInt8) : Except ComponentRange Month :=
  if 1 ≤ n ∧ n ≤ 12 then .ok ⟨n⟩ else .error {}

/-- `month as u8` -/
instance : As Month UInt8 := ⟨Month.n⟩

instance : As UInt16 Int32 := ⟨fun x => x.toUInt32.toInt32⟩
instance : As Int32 UInt16 := ⟨fun x => x.toUInt32.toUInt16⟩
instance : As Int32 Int32 := ⟨id⟩

/-- the `time` crate's calendar (external) -/
class TimeOps where
  Date : Type
  Time : Type
  PrimitiveDateTime : Type
  OffsetDateTime : Type
  /-- `Date::from_calendar_date(year, month, day)` -/
  from_calendar_date : Int32 → Month → UInt8 → Except ComponentRange Date
  /-- `Time::from_hms(hour, minute, second)` -/
  from_hms : UInt8 → UInt8 → UInt8 → Except ComponentRange Time
  /-- `PrimitiveDateTime::new(date, time)` -/
  pdt_new : Date → Time → PrimitiveDateTime
  /-- `pdt.assume_utc()` -/
  assume_utc : PrimitiveDateTime → OffsetDateTime
  year : OffsetDateTime → Int32
  month : OffsetDateTime → Month
  day : OffsetDateTime → UInt8
  hour : OffsetDateTime → UInt8
  minute : OffsetDateTime → UInt8
  second : OffsetDateTime → UInt8

end Rs
