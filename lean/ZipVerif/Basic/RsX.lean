import ZipVerif.Basic.RsPath
/-
Prelude for the EXTRACT mode of `rs2lean` (tier T6, helper t6r4, `rs2lean/src/t6r4.rs`, item kind `efn`): the two
extractors `ZipArchive::extract` (src/read.rs) / `ZipStreamReader::extract` (src/read/stream.rs, with the visitor
`Extractor` declared inside its body) and `apply_unix_modes`.

These functions act on the HOST FILESYSTEM through std (`std::fs`, `std::path`, `io::copy`) and on the archive
through the crate's reader.  Both are NAMED PARAMETERS of the generated code (records of operations over an abstract
world `W`); the generated text fixes what the crate's own code does with them: which operations, with which
arguments, in which order, under which conditions, what happens to their errors.  A translated function is

    Gen.f (ops …) (args) : Rs.X W E α        with   Rs.X W E α = W → W × XOut E α

a computation over the world whose outcome is `Ok` / `Err` / a panic; the world survives an `Err` (what was done so
far stays on disk).  `?` is the bind of the monad.

Meaning of the Rust constructs, given ONCE here:

* `std::fs::create_dir_all(p)`, `std::fs::File::create(p)`, `std::fs::set_permissions(p, Permissions::from_mode(m))`,
  `p.exists()`, `dir.join(rel)`, `p.parent()` are the fields of `FsOps` (`Permissions::from_mode` is the identity on
  the mode; `AsRef<Path>::as_ref` and `&` are the identity on a path).  `io::copy(&mut file, &mut outfile)` is
  `FsOps.copy`: it reads the handle to its end and writes what it read; the handle comes back changed.
* `?` on an `io::Result` inside a function returning `ZipResult` converts the error (`impl From<io::Error> for
  ZipError`): `X.io eo.io`.  `ZipError::InvalidArchive(msg)` is `eo.invalid_archive msg`.
* `opt.ok_or(e)?` is `X.okOr`.  A call of a function translated in the panic monad (LAYER mode: `enclosed_name`,
  `name`, `unix_mode`, `path_depth`) is `X.lift`.
* `s.ends_with(c)` for an ASCII `char` literal compares the last byte (`Str.endsWithAscii`; in UTF-8 a byte below 0x80
  occurs only as that character).
* `Vec<T>` is `List T` (`Vec::new()` = `[]`, `push` appends at the end; capacities are not observed here).
  `v.sort_by_key(|x| k)` is the STABLE sort by ascending key (`X.sortByKey`; std documents `sort_by_key` as stable,
  and all stable sorts compute the same list); `std::cmp::Reverse(k)` reverses the order of the key (`Rs.Reverse`).
* `for i in lo..hi { body }` is `X.forRange` (`hi - lo` rounds, `i` counting up), `for x in vec { body }` is
  `X.forVec` (the elements in order); both over the loop-carried variables; a `?` in the body ends the function.
* the archive in `ZipArchive::extract` is `SrcOps` (`self.len()`, `self.by_index(i)`); in `ZipStreamReader::extract`
  it is `StreamOps` (`self.visit(&mut visitor)`: the callee receives the two translated callbacks of the local
  `impl ZipStreamVisitor` and the visitor's value, and returns the visitor's value — an `X.K` computation: also when
  it fails, since `extract` binds the `Result` (`let visited = self.visit(&mut extractor);`) and goes on using the
  visitor.  `rs2lean` accepts a local visitor only when in each callback every write to `self` FOLLOWS the callback's
  last `?`, so a callback that fails has not touched the visitor: at an `Err` the visitor is as the last complete
  callback left it).
* a `&mut self` method with `&mut` parameters returns its value together with `self` and those parameters as it left
  them; after an `Err` they are not observable (every caller in the subset returns at once on `?`).
  The ONE exception is a "collector": a `&mut self` method of the seekable archive whose body is exactly one
  `for i in lo..hi { body }` followed by `Ok(())`, with one `&mut Vec` parameter that is the loop's only carried
  variable, and whose caller binds the `Result` (`let placed = self.f(.., &mut v);`) and goes on using `v`
  (`ZipArchive::place_entries`).  It is an `X.K` computation (`X.forRangeK`): the vector as it is when the function
  returns, `Ok` or `Err`, is part of the result.  `rs2lean` accepts the shape only when every write to the vector in
  the loop body FOLLOWS the last `?` of the body (top-level statements), so that a round that fails has not touched
  it: the vector at an `Err` is the one the last complete round left.
* `let r = f(..);` for a translated `f` returning a `Result`, WITHOUT `?`: the `Result` is a value (`X.attempt`, for
  a collector `X.keep`); a panic still ends everything.  `r?;` later is `X.ofRes r` (with `X.io` for an `io::Result`
  in a function returning `ZipResult`).
* the `Drop` of an entry handle acts on the archive reader only (it drains a streamed entry: `Tie/Drain.lean`), which
  this mode does not model: it is part of `SrcOps.by_index` / `StreamOps.visit`.
-/

namespace Rs

/-- outcome of an extraction-mode computation -/
inductive XOut (E α : Type) where
  | ok (a : α)
  | err (e : E)
  | panic
  deriving Repr

/-- a computation over the world `W` (host filesystem and archive reader) -/
def X (W E α : Type) : Type := W → W × XOut E α

namespace X
variable {W E IoE α β σ : Type}

def ret (a : α) : X W E α := fun w => (w, .ok a)

def bind' (x : X W E α) (f : α → X W E β) : X W E β := fun w =>
  match x w with
  | (w1, .ok a) => f a w1
  | (w1, .err e) => (w1, .err e)
  | (w1, .panic) => (w1, .panic)

instance : Monad (X W E) where
  pure := ret
  bind := bind'

/-- a function of the panic monad called from here -/
def lift : Option α → X W E α
  | some a => ret a
  | none => fun w => (w, .panic)

def throw (e : E) : X W E α := fun w => (w, .err e)

/-- an observation of the world that cannot fail (`p.exists()`) -/
def observe (f : W → α) : X W E α := fun w => (w, .ok (f w))

/-- `opt.ok_or(e)?` -/
def okOr : Option α → E → X W E α
  | some a, _ => ret a
  | none, e => throw e

/-- `?` on an `io::Result` in a function returning `ZipResult` -/
def io (conv : IoE → E) (x : X W IoE α) : X W E α := fun w =>
  match x w with
  | (w1, .ok a) => (w1, .ok a)
  | (w1, .err e) => (w1, .err (conv e))
  | (w1, .panic) => (w1, .panic)

def forN (body : UInt64 → σ → X W E σ) : Nat → UInt64 → σ → X W E σ
  | 0, _, s => ret s
  | n + 1, i, s => bind' (body i s) (fun s' => forN body n (i + 1) s')

/-- `for i in lo..hi { body }` -/
def forRange (lo hi : UInt64) (body : UInt64 → σ → X W E σ) (s : σ) : X W E σ :=
  forN body (hi.toNat - lo.toNat) lo s

/-- `for x in vec { body }` -/
def forVec : List α → (α → σ → X W E σ) → σ → X W E σ
  | [], _, s => ret s
  | x :: xs, body, s => bind' (body x s) (fun s' => forVec xs body s')

/-- a collector (see the head of the file): the world, the `&mut` vector as the function left it, the outcome -/
def K (W E σ : Type) : Type := W → W × σ × XOut E Unit

/-- the rounds of a collector's loop: a round that fails leaves the carried value as the previous round left it -/
def forNK (body : UInt64 → σ → X W E σ) : Nat → UInt64 → σ → K W E σ
  | 0, _, s => fun w => (w, s, .ok ())
  | n + 1, i, s => fun w =>
    match body i s w with
    | (w1, .ok s') => forNK body n (i + 1) s' w1
    | (w1, .err e) => (w1, s, .err e)
    | (w1, .panic) => (w1, s, .panic)

/-- `for i in lo..hi { body }; Ok(())` of a collector -/
def forRangeK (lo hi : UInt64) (body : UInt64 → σ → X W E σ) (s : σ) : K W E σ :=
  forNK body (hi.toNat - lo.toNat) lo s

/-- `let r = self.f(.., &mut v);` for a collector `f`: the `Result` as a value, and `v` -/
def keep {E' : Type} (x : K W E σ) : X W E' (Except E Unit × σ) := fun w =>
  match x w with
  | (w1, s, .ok ()) => (w1, .ok (.ok (), s))
  | (w1, s, .err e) => (w1, .ok (.error e, s))
  | (w1, _, .panic) => (w1, .panic)

/-- `self.f(.., &mut v)?` for an `X.K` computation: at an `Err` the function returns at once -/
def unK (x : K W E σ) : X W E (Unit × σ) := fun w =>
  match x w with
  | (w1, s, .ok ()) => (w1, .ok ((), s))
  | (w1, _, .err e) => (w1, .err e)
  | (w1, _, .panic) => (w1, .panic)

/-- `let r = f(..);` for a translated `f` returning a `Result`: the `Result` as a value -/
def attempt {E' : Type} (x : X W E α) : X W E' (Except E α) := fun w =>
  match x w with
  | (w1, .ok a) => (w1, .ok (.ok a))
  | (w1, .err e) => (w1, .ok (.error e))
  | (w1, .panic) => (w1, .panic)

/-- `r?` for a `Result` value -/
def ofRes : Except E α → X W E α
  | .ok a => ret a
  | .error e => throw e

end X

/-- the order of sort keys -/
class KeyLe (κ : Type) where
  le : κ → κ → Bool

instance : KeyLe UInt64 := ⟨fun a b => decide (a ≤ b)⟩

/-- `std::cmp::Reverse` -/
structure Reverse (κ : Type) where
  v : κ

instance {κ : Type} [KeyLe κ] : KeyLe (Reverse κ) := ⟨fun a b => KeyLe.le b.v a.v⟩

namespace X

/-- put `x` (which stood in front of `ys` in the unsorted list) in front of the first element whose key is not
smaller -/
def insertByKey {α κ : Type} [KeyLe κ] (key : α → κ) (x : α) : List α → List α
  | [] => [x]
  | y :: ys => if KeyLe.le (key x) (key y) then x :: y :: ys else y :: insertByKey key x ys

/-- `v.sort_by_key(key)`: the stable sort by ascending key -/
def sortByKey {α κ : Type} [KeyLe κ] (key : α → κ) : List α → List α
  | [] => []
  | x :: xs => insertByKey key x (sortByKey key xs)

end X

/-- `s.ends_with(c)` for an ASCII `char` literal `c` (given by its code) -/
def Str.endsWithAscii (s : Bytes) (c : Nat) : Bool := s.getLast? == some (UInt8.ofNat c)

/-- `std::fs::Permissions::from_mode` (Unix) -/
def Permissions.from_mode (m : UInt32) : UInt32 := m

/-- `std::fs`, `std::path` and `io::copy` on a Unix host (external).  `P`: `Path` / `PathBuf` values as the kernel
will see them; `F`: the entry handle read by `io::copy`; `Fh`: `std::fs::File`. -/
structure FsOps (W P F Fh IoE : Type) where
  /-- `dir.join(rel)`, `rel` a relative `&Path` given by its bytes -/
  join : P → Bytes → P
  /-- `p.parent()` -/
  parent : P → Option P
  /-- `p.exists()` -/
  «exists» : P → W → Bool
  /-- `std::fs::create_dir_all(p)` -/
  create_dir_all : P → X W IoE Unit
  /-- `std::fs::File::create(p)` -/
  file_create : P → X W IoE Fh
  /-- `io::copy(&mut file, &mut outfile)`: the number of bytes copied, the handle afterwards -/
  copy : F → Fh → X W IoE (UInt64 × F)
  /-- `std::fs::set_permissions(p, Permissions::from_mode(mode))` -/
  set_permissions : P → UInt32 → X W IoE Unit

/-- the error values a translated extractor builds -/
structure ErrOps (IoE E : Type) where
  /-- `impl From<io::Error> for ZipError` -/
  io : IoE → E
  /-- `ZipError::InvalidArchive(msg)` -/
  invalid_archive : String → E

/-- the seekable archive as far as `ZipArchive::extract` uses it -/
structure SrcOps (W F E : Type) where
  len : UInt64
  by_index : UInt64 → X W E F

/-- the streaming reader as far as `ZipStreamReader::extract` uses it: `self.visit(&mut visitor)` -/
structure StreamOps (W F Meta E V : Type) where
  visit : (V → F → X W E (Unit × V × F)) → (V → Meta → X W E (Unit × V)) → V → X.K W E V

end Rs
