import ZipVerif.Model.Aes
/-
Helper lemmas for C16 (part 1): the CTR key stream.
-/

namespace ZipVerif.Model.Aes
open ZipVerif

/-! ### `Out` plumbing -/

theorem Out.bind_eta {α} (x : Out α) : (x >>= fun r => Out.ok r) = x := by
  cases x <;> rfl

theorem Out.bind_assoc' {α β γ} (x : Out α) (f : α → Out β) (g : β → Out γ) :
    ((x >>= f) >>= g) = (x >>= fun a => f a >>= g) := by
  cases x <;> rfl

/-! ### little-endian counter -/

theorem leN_length (n v : Nat) : (leN n v).length = n := by
  induction n generalizing v with
  | zero => rfl
  | succ n ih => simp [leN, ih]

theorem fromLE_leN (n v : Nat) : fromLE (leN n v) = v % 256 ^ n := by
  induction n generalizing v with
  | zero => simp [leN, fromLE, Nat.mod_one]
  | succ n ih =>
    have e1 : (UInt8.ofNat (v % 256)).toNat = v % 256 := by
      have := UInt8.toNat_ofNat' (n := v % 256); omega
    have e2 : 256 ^ (n + 1) = 256 * 256 ^ n := by rw [Nat.pow_succ, Nat.mul_comm]
    simp only [leN, fromLE, ih]
    rw [e1, e2, Nat.mod_mul]

/-- Distinct counters below 2^128 give distinct blocks (`le128` is injective there). -/
theorem le128_inj {a b : Nat} (ha : a < U128) (hb : b < U128) (h : le128 a = le128 b) : a = b := by
  have h1 := fromLE_leN 16 a
  have h2 := fromLE_leN 16 b
  unfold le128 at h
  rw [h] at h1
  rw [h1] at h2
  have e : (256 : Nat) ^ 16 = U128 := by decide
  rw [e, Nat.mod_eq_of_lt ha, Nat.mod_eq_of_lt hb] at h2
  exact h2

/-! ### xor -/

theorem xorBytes_length (a b : Bytes) : (xorBytes a b).length = min a.length b.length := by
  simp [xorBytes]

theorem xor_cancel (a k : UInt8) : (a ^^^ k) ^^^ k = a := by
  rw [UInt8.xor_assoc, UInt8.xor_self, UInt8.xor_zero]

theorem xorBytes_cancel : ∀ (t ks : Bytes), t.length ≤ ks.length →
    xorBytes (xorBytes t ks) ks = t
  | [], _, _ => by simp [xorBytes]
  | _ :: _, [], h => by simp at h
  | a :: t, k :: ks, h => by
    have ih := xorBytes_cancel t ks (by simpa using h)
    simp only [xorBytes, List.zipWith_cons_cons] at ih ⊢
    rw [xor_cancel, ih]

theorem xorBytes_append (a b ka kb : Bytes) (h : a.length = ka.length) :
    xorBytes (a ++ b) (ka ++ kb) = xorBytes a ka ++ xorBytes b kb := by
  simp [xorBytes, List.zipWith_append h]

/-! ### per-byte CTR -/

variable (P : AesPrims) (key : Bytes)

theorem cryptBytes_append (st : CtrState) (a b : Bytes) :
    cryptBytes P key st (a ++ b) =
      (cryptBytes P key st a >>= fun r1 =>
       cryptBytes P key r1.2 b >>= fun r2 => Out.ok (r1.1 ++ r2.1, r2.2)) := by
  induction a generalizing st with
  | nil =>
    simp only [List.nil_append, cryptBytes, Out.bind_ok]
    exact (Out.bind_eta _).symm
  | cons x a ih =>
    simp only [List.cons_append, cryptBytes]
    cases stepByte P key st with
    | ok ks =>
      simp only [Out.bind_ok]
      rw [ih]
      cases cryptBytes P key ks.2 a with
      | ok r1 =>
        simp only [Out.bind_ok]
        cases cryptBytes P key r1.2 b <;> rfl
      | err e => rfl
      | panic m => rfl
    | err e => rfl
    | panic m => rfl

theorem cryptBytes_eq_ks (st : CtrState) (t : Bytes) :
    cryptBytes P key st t =
      (ksGen P key st t.length >>= fun r => Out.ok (xorBytes t r.1, r.2)) := by
  induction t generalizing st with
  | nil => rfl
  | cons b t ih =>
    simp only [cryptBytes, ksGen, List.length_cons]
    cases stepByte P key st with
    | ok ks =>
      simp only [Out.bind_ok]
      rw [ih]
      cases ksGen P key ks.2 t.length <;> rfl
    | err e => rfl
    | panic m => rfl

theorem ksGen_length {st st' : CtrState} {n : Nat} {ks : Bytes}
    (h : ksGen P key st n = .ok (ks, st')) : ks.length = n := by
  induction n generalizing st ks st' with
  | zero => simp only [ksGen] at h; cases h; rfl
  | succ n ih =>
    simp only [ksGen] at h
    cases h1 : stepByte P key st with
    | ok k1 =>
      rw [h1] at h
      simp only [Out.bind_ok] at h
      cases h2 : ksGen P key k1.2 n with
      | ok r =>
        rw [h2] at h
        simp only [Out.bind_ok] at h
        cases h
        have := ih (st := k1.2) (ks := r.1) (st' := r.2) (by rw [h2])
        simp [this]
      | err e => rw [h2] at h; cases h
      | panic m => rw [h2] at h; cases h
    | err e => rw [h1] at h; cases h
    | panic m => rw [h1] at h; cases h

/-- The output is the input xor a key stream that depends only on the start state and the length. -/
theorem cryptBytes_ok_iff (st : CtrState) (t : Bytes) (c : Bytes) (st' : CtrState) :
    cryptBytes P key st t = .ok (c, st') ↔
      ∃ ks, ksGen P key st t.length = .ok (ks, st') ∧ c = xorBytes t ks := by
  rw [cryptBytes_eq_ks]
  cases h : ksGen P key st t.length with
  | ok r =>
    obtain ⟨ks, s2⟩ := r
    simp only [Out.bind_ok]
    constructor
    · intro e; cases e; exact ⟨ks, rfl, rfl⟩
    · rintro ⟨ks', e, rfl⟩; cases e; rfl
  | err e => simp
  | panic m => simp

/-! ### closed form of the key stream -/

theorem drop_cons_of_getElem? {l : Bytes} {i : Nat} {k : UInt8} (h : l[i]? = some k) :
    l.drop i = k :: l.drop (i + 1) := by
  obtain ⟨hi, hk⟩ := List.getElem?_eq_some_iff.mp h
  rw [List.drop_eq_getElem_cons hi, hk]

theorem stepByte_good {st : CtrState} (hg : st.Good) (hpos : st.pos < 16) :
    ∃ k, st.buffer[st.pos]? = some k ∧
      stepByte P key st = .ok (k, ⟨st.counter, st.buffer, st.pos + 1⟩) := by
  have hlt : st.pos < st.buffer.length := by rw [hg.2]; exact hpos
  refine ⟨st.buffer[st.pos], List.getElem?_eq_getElem hlt, ?_⟩
  unfold stepByte
  rw [if_neg (by omega), if_neg (by omega)]
  simp only [Out.bind_ok, List.getElem?_eq_getElem hlt]

theorem stepByte_refill (hW : P.WF) {st : CtrState} (h16 : st.pos = 16)
    (hc : st.counter + 1 < U128) :
    ∃ k, (P.block key (le128 st.counter))[0]? = some k ∧
      stepByte P key st = .ok (k, ⟨st.counter + 1, P.block key (le128 st.counter), 1⟩) := by
  have hl := hW.block_len key (le128 st.counter)
  have hlt : 0 < (P.block key (le128 st.counter)).length := by omega
  refine ⟨(P.block key (le128 st.counter))[0], List.getElem?_eq_getElem hlt, ?_⟩
  unfold stepByte refill
  rw [if_neg (by omega), if_pos h16, if_neg (by omega)]
  simp only [Out.bind_ok, List.getElem?_eq_getElem hlt]

theorem ksGen_closed (hW : P.WF) : ∀ (n : Nat) (st : CtrState) (k : Nat), st.Good →
    n + st.pos ≤ 16 + 16 * k → st.counter + k < U128 →
    ∃ st', ksGen P key st n =
        .ok ((st.buffer.drop st.pos ++ ksBlocks P key st.counter k).take n, st') ∧
      st'.Good ∧ 16 * st'.counter + st'.pos = 16 * st.counter + st.pos + n := by
  intro n
  induction n with
  | zero =>
    intro st k hg _ _
    exact ⟨st, by simp [ksGen], hg, by omega⟩
  | succ n ih =>
    intro st k hg hn hc
    by_cases hp : st.pos < 16
    · obtain ⟨k0, hk0, hs⟩ := stepByte_good P key hg hp
      obtain ⟨st', h1, h2, h3⟩ := ih ⟨st.counter, st.buffer, st.pos + 1⟩ k
        ⟨by show st.pos + 1 ≤ 16; omega, hg.2⟩ (by show n + (st.pos + 1) ≤ _; omega) hc
      refine ⟨st', ?_, h2, by simp only at h3; omega⟩
      simp only [ksGen, hs, Out.bind_ok, h1]
      rw [drop_cons_of_getElem? hk0, List.cons_append, List.take_succ_cons]
    · have h16 : st.pos = 16 := by have := hg.1; omega
      obtain ⟨k', rfl⟩ : ∃ k', k = k' + 1 := ⟨k - 1, by omega⟩
      obtain ⟨k0, hk0, hs⟩ := stepByte_refill P key hW h16 (by omega)
      have hbl := hW.block_len key (le128 st.counter)
      obtain ⟨st', h1, h2, h3⟩ := ih ⟨st.counter + 1, P.block key (le128 st.counter), 1⟩ k'
        ⟨by show 1 ≤ 16; omega, hbl⟩ (by show n + 1 ≤ _; omega) (by show st.counter + 1 + k' < _; omega)
      refine ⟨st', ?_, h2, by simp only at h3; omega⟩
      simp only [ksGen, hs, Out.bind_ok, h1]
      have hd : st.buffer.drop st.pos = [] := by
        apply List.drop_eq_nil_of_le; rw [hg.2, h16]; exact Nat.le_refl _
      have hb : P.block key (le128 st.counter) = k0 :: (P.block key (le128 st.counter)).drop 1 := by
        have := drop_cons_of_getElem? hk0
        simpa using this
      rw [hd, List.nil_append, ksBlocks]
      conv => rhs; rw [hb]
      rw [List.cons_append, List.take_succ_cons]

theorem ksBlocks_length (hW : P.WF) (c k : Nat) : (ksBlocks P key c k).length = 16 * k := by
  induction k generalizing c with
  | zero => rfl
  | succ k ih => simp only [ksBlocks, List.length_append, hW.block_len, ih]; omega

/-- Byte `i` of the key stream that starts at block `c` lies in block `c + i / 16`, at offset `i % 16`. -/
theorem ksBlocks_getElem? (hW : P.WF) (c k i : Nat) (hi : i < 16 * k) :
    (ksBlocks P key c k)[i]? = (P.block key (le128 (c + i / 16)))[i % 16]? := by
  induction k generalizing c i with
  | zero => omega
  | succ k ih =>
    have hbl := hW.block_len key (le128 c)
    rw [ksBlocks]
    by_cases h : i < 16
    · rw [List.getElem?_append_left (by omega)]
      have e1 : i / 16 = 0 := by omega
      have e2 : i % 16 = i := by omega
      rw [e1, e2, Nat.add_zero]
    · rw [List.getElem?_append_right (by omega), hbl, ih (c + 1) (i - 16) (by omega)]
      have e1 : c + 1 + (i - 16) / 16 = c + i / 16 := by omega
      have e2 : (i - 16) % 16 = i % 16 := by omega
      rw [e1, e2]

/-! ### the chunked loop of `crypt_in_place` equals the per-byte loop -/

theorem xorBytes_take (t ks : Bytes) : xorBytes t (ks.take t.length) = xorBytes t ks := by
  induction t generalizing ks with
  | nil => simp [xorBytes]
  | cons a t ih =>
    cases ks with
    | nil => simp [xorBytes]
    | cons k ks =>
      have := ih ks
      simp only [xorBytes, List.length_cons, List.take_succ_cons, List.zipWith_cons_cons] at this ⊢
      rw [this]

theorem cryptBytes_within {st : CtrState} (hg : st.Good) (a : Bytes) (h : st.pos + a.length ≤ 16) :
    cryptBytes P key st a =
      .ok (xorBytes a ((st.buffer.drop st.pos).take a.length),
           ⟨st.counter, st.buffer, st.pos + a.length⟩) := by
  induction a generalizing st with
  | nil => cases st; simp [cryptBytes, xorBytes]
  | cons b a ih =>
    simp only [List.length_cons] at h
    obtain ⟨k0, hk0, hs⟩ := stepByte_good P key hg (by omega)
    have hg2 : CtrState.Good ⟨st.counter, st.buffer, st.pos + 1⟩ := ⟨by show st.pos + 1 ≤ 16; omega, hg.2⟩
    have := ih hg2 (by show st.pos + 1 + a.length ≤ 16; omega)
    simp only [cryptBytes, hs, Out.bind_ok, this, List.length_cons]
    rw [drop_cons_of_getElem? hk0, List.take_succ_cons]
    simp only [xorBytes, List.zipWith_cons_cons]
    have e : st.pos + 1 + a.length = st.pos + (a.length + 1) := by omega
    rw [e]

theorem cryptBytes_refill_first {st st1 : CtrState} (h16 : st.pos = 16)
    (hr : refill P key st = .ok st1) (h0 : st1.pos = 0) (b : UInt8) (t : Bytes) :
    cryptBytes P key st (b :: t) = cryptBytes P key st1 (b :: t) := by
  have e : stepByte P key st = stepByte P key st1 := by
    unfold stepByte
    rw [if_neg (by omega), if_pos h16, hr, if_neg (by omega), if_neg (by omega)]
  simp only [cryptBytes, e]

theorem refill_ok (hW : P.WF) {st st1 : CtrState} (hr : refill P key st = .ok st1) :
    st1.Good ∧ st1.pos = 0 := by
  unfold refill at hr
  split at hr
  · cases hr
  · cases hr
    exact ⟨⟨Nat.zero_le _, hW.block_len _ _⟩, rfl⟩

theorem cryptLoop_eq_bytes (hW : P.WF) : ∀ (fuel : Nat) (st : CtrState) (t : Bytes), st.Good →
    t.length ≤ fuel → cryptLoop P key fuel st t = cryptBytes P key st t := by
  intro fuel
  induction fuel with
  | zero =>
    intro st t _ hl
    have : t = [] := List.eq_nil_of_length_eq_zero (by omega)
    subst this
    rfl
  | succ f ih =>
    intro st t hg hl
    cases t with
    | nil => rfl
    | cons b t =>
      simp only [List.length_cons] at hl
      -- the common part, from a state with room in its buffer
      have body : ∀ (st1 : CtrState) (n : Nat) (src : Bytes), st1.Good → st1.pos < 16 →
          n = min (t.length + 1) (16 - st1.pos) → src = (st1.buffer.drop st1.pos).take n →
          (if src.length ≠ n then
             (Out.panic "range end index out of range for slice (aes_ctr.rs buffer)" : Out (Bytes × CtrState))
           else
             cryptLoop P key f ⟨st1.counter, st1.buffer, st1.pos + n⟩ ((b :: t).drop n) >>= fun r =>
             .ok (xorBytes ((b :: t).take n) src ++ r.1, r.2)) = cryptBytes P key st1 (b :: t) := by
        intro st1 n src hg1 hp1 hn hs
        have hn1 : 1 ≤ n := by omega
        have hn2 : n ≤ 16 - st1.pos := by omega
        have hn3 : n ≤ t.length + 1 := by omega
        have hsrc : src.length = n := by
          rw [hs, List.length_take, List.length_drop, hg1.2]; omega
        rw [if_neg (by omega)]
        have hg2 : CtrState.Good ⟨st1.counter, st1.buffer, st1.pos + n⟩ :=
          ⟨by show st1.pos + n ≤ 16; omega, hg1.2⟩
        have hdl : ((b :: t).drop n).length ≤ f := by
          rw [List.length_drop, List.length_cons]; omega
        rw [ih _ _ hg2 hdl]
        have htl : ((b :: t).take n).length = n := by
          rw [List.length_take, List.length_cons]; omega
        conv => rhs; rw [← List.take_append_drop n (b :: t), cryptBytes_append]
        rw [cryptBytes_within P key hg1 _ (by rw [htl]; omega)]
        simp only [Out.bind_ok, htl, hs]
      unfold cryptLoop
      rw [if_neg (by have := hg.1; omega)]
      by_cases h16 : st.pos = 16
      · rw [if_pos h16]
        cases hr : refill P key st with
        | ok st1 =>
          obtain ⟨hg1, h0⟩ := refill_ok P key hW hr
          simp only [Out.bind_ok]
          rw [cryptBytes_refill_first P key h16 hr h0]
          exact body st1 _ _ hg1 (by omega) rfl rfl
        | err e =>
          simp only [Out.bind_err, cryptBytes, stepByte]
          rw [if_neg (by omega), if_pos h16, hr]; rfl
        | panic m =>
          simp only [Out.bind_panic, cryptBytes, stepByte]
          rw [if_neg (by omega), if_pos h16, hr]; rfl
      · rw [if_neg h16]
        simp only [Out.bind_ok]
        exact body st _ _ hg (by have := hg.1; omega) rfl rfl

theorem cryptInPlace_eq_bytes (hW : P.WF) {st : CtrState} (hg : st.Good) (t : Bytes) :
    cryptInPlace P key st t = cryptBytes P key st t :=
  cryptLoop_eq_bytes P key hW _ st t hg (Nat.le_refl _)

/-- No panic and the state bookkeeping, for any amount of data that keeps the counter in `u128`. -/
theorem cryptBytes_closed (hW : P.WF) (st : CtrState) (t : Bytes) (k : Nat) (hg : st.Good)
    (hn : t.length + st.pos ≤ 16 + 16 * k) (hc : st.counter + k < U128) :
    ∃ st', cryptBytes P key st t =
        .ok (xorBytes t (st.buffer.drop st.pos ++ ksBlocks P key st.counter k), st') ∧
      st'.Good ∧ 16 * st'.counter + st'.pos = 16 * st.counter + st.pos + t.length := by
  obtain ⟨st', h1, h2, h3⟩ := ksGen_closed P key hW t.length st k hg hn hc
  refine ⟨st', ?_, h2, h3⟩
  rw [cryptBytes_eq_ks, h1]
  simp only [Out.bind_ok, xorBytes_take]

theorem stepByte_keeps_good (hW : P.WF) {st st' : CtrState} {k : UInt8} (hg : st.Good)
    (h : stepByte P key st = .ok (k, st')) : st'.Good := by
  by_cases hp : st.pos < 16
  · obtain ⟨k0, _, hs⟩ := stepByte_good P key hg hp
    rw [hs] at h; cases h
    exact ⟨by show st.pos + 1 ≤ 16; omega, hg.2⟩
  · have h16 : st.pos = 16 := by have := hg.1; omega
    unfold stepByte at h
    rw [if_neg (by omega), if_pos h16] at h
    cases hr : refill P key st with
    | ok st1 =>
      obtain ⟨hg1, h0⟩ := refill_ok P key hW hr
      rw [hr] at h
      simp only [Out.bind_ok] at h
      split at h
      · cases h
      · cases h
        exact ⟨by show st1.pos + 1 ≤ 16; omega, hg1.2⟩
    | err e => rw [hr] at h; cases h
    | panic m => rw [hr] at h; cases h

theorem cryptBytes_keeps_good (hW : P.WF) {st st' : CtrState} {t c : Bytes} (hg : st.Good)
    (h : cryptBytes P key st t = .ok (c, st')) : st'.Good := by
  induction t generalizing st c with
  | nil => simp only [cryptBytes] at h; cases h; exact hg
  | cons b t ih =>
    simp only [cryptBytes] at h
    cases h1 : stepByte P key st with
    | ok ks =>
      rw [h1] at h
      simp only [Out.bind_ok] at h
      cases h2 : cryptBytes P key ks.2 t with
      | ok r =>
        rw [h2] at h
        simp only [Out.bind_ok] at h
        cases h
        exact ih (stepByte_keeps_good P key hW hg (by rw [h1])) (by rw [h2])
      | err e => rw [h2] at h; cases h
      | panic m => rw [h2] at h; cases h
    | err e => rw [h1] at h; cases h
    | panic m => rw [h1] at h; cases h

end ZipVerif.Model.Aes
