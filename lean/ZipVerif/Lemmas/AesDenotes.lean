import ZipVerif.Lemmas.AesOneShot
import ZipVerif.Lemmas.Layers
import ZipVerif.Model.AesPipeline
/-
The AES reader in the layer model (C09 / C04 / C16 at archive level):

  * `aesSrc_denotes_intact`   over an entry `ct ‖ HMAC(ct)[0..10] ‖ tail`, under every short-read schedule of the
                              byte source, `AesReaderValid` DENOTES the CTR decryption of `ct` followed by a clean
                              end-of-file: whatever the caller's buffer sizes (zeros included), it delivers exactly
                              these bytes, never an error;
  * `finish_crypto_intact`    from every state such a reader can reach, `finish_crypto` succeeds;
  * `neverEof_of_bad_code`, `neverEof_of_truncated`   the complement: wrong code / missing bytes.
-/

namespace ZipVerif.Model
open ZipVerif ZipVerif.Model.Layers

namespace Aes

theorem cryptBytes_length (P : AesPrims) (key : Bytes) {st st' : CtrState} {t c : Bytes}
    (h : cryptBytes P key st t = .ok (c, st')) : c.length = t.length := by
  obtain ⟨ks, hk, rfl⟩ := (cryptBytes_ok_iff P key st t c st').mp h
  rw [xorBytes_length, ksGen_length P key hk, Nat.min_self]

theorem cryptBytes_prefix (P : AesPrims) (key : Bytes) {st st' : CtrState} {a b p : Bytes}
    (h : cryptBytes P key st (a ++ b) = .ok (p, st')) :
    ∃ p1 s1 p2, cryptBytes P key st a = .ok (p1, s1) ∧ p = p1 ++ p2 := by
  rw [cryptBytes_append] at h
  cases h1 : cryptBytes P key st a with
  | ok r1 =>
    rw [h1] at h
    simp only [Out.bind_ok] at h
    cases h2 : cryptBytes P key r1.2 b with
    | ok r2 =>
      rw [h2] at h
      simp only [Out.bind_ok, Out.ok.injEq, Prod.mk.injEq] at h
      exact ⟨r1.1, r1.2, r2.1, rfl, h.1.symm⟩
    | err e => rw [h2] at h; cases h
    | panic m => rw [h2] at h; cases h
  | err e => rw [h1] at h; cases h
  | panic m => rw [h1] at h; cases h

end Aes

theorem aesSrc_rd_ok (P : Aes.AesPrims) {σ : Type} (S : Aes.Src σ) {v v' : Aes.Valid σ} {n : Nat} {out : Bytes}
    (h : Aes.Valid.read P S v n = (.ok out, v')) : (aesSrc P S).rd v n = (.ok out, v') := by
  simp only [aesSrc, h]

open Aes in
/-- **The AES reader over an intact entry denotes the decryption of its payload**, for every short-read
schedule `sc` of the byte source and every schedule of caller buffers. -/
theorem aesSrc_denotes_intact (P : AesPrims) (hW : P.WF) {ct code tail key hk : Bytes} (hL : ct.length < U64)
    (hmac : (P.hmac hk ct).take AUTH_CODE_LENGTH = code) (sc : List Nat) {pt : Bytes} {cfin : CtrState}
    (hpt : cryptBytes P key CtrState.new ct = .ok (pt, cfin)) :
    Denotes (aesSrc P listSrc) (initValid ⟨ct ++ (code ++ tail), sc⟩ ct.length key hk) pt .eof := by
  have hptl := cryptBytes_length P key hpt
  apply Denotes.of_invariant
    (fun v rest => ∃ acc, ListInv P ct code tail key hk v acc ∧ acc ++ rest = pt)
  · rintro v rest n ⟨acc, hI, hacc⟩
    obtain ⟨out, v', hr, hI', hle, hlt⟩ := hI.step P hW hL hmac n
    have hrd : (aesSrc P listSrc).rd v n = (.ok out, v') := aesSrc_rd_ok P listSrc hr
    have sp := read_spec P hW listSrc hL v hI.run.inv n
    rw [hr] at sp
    obtain ⟨bs, _, hbn, _, _, _, hol, _⟩ := sp.ok out rfl
    -- lengths of what has been delivered
    have hal : acc.length = ct.length - v.dataRemaining := by
      have := cryptBytes_length P key hI.run.crypt
      rw [this, hI.ghost, List.length_take]; omega
    have hal' : (acc ++ out).length = ct.length - v'.dataRemaining := by
      have := cryptBytes_length P key hI'.run.crypt
      rw [this, hI'.ghost, List.length_take]; omega
    -- what has been delivered is a prefix of the plaintext
    obtain ⟨p1, s1, p2, hp1, hp⟩ : ∃ p1 s1 p2, cryptBytes P key CtrState.new v'.ghostCt = .ok (p1, s1) ∧
        pt = p1 ++ p2 := by
      have hsplit : ct = v'.ghostCt ++ ct.drop (ct.length - v'.dataRemaining) := by
        rw [hI'.ghost, List.take_append_drop]
      rw [hsplit] at hpt
      exact cryptBytes_prefix P key hpt
    rw [hI'.run.crypt] at hp1
    simp only [Out.ok.injEq, Prod.mk.injEq] at hp1
    obtain ⟨hp1, _⟩ := hp1
    subst hp1
    have hrest : rest = out ++ p2 := by
      rw [← hacc, List.append_assoc] at hp
      exact List.append_cancel_left hp
    have hlen1 := hI.run.inv.len
    have hlen2 := hI'.run.inv.len
    refine stepOK_of_ok hrd (by rw [hol]; exact hbn) ?_ ⟨p2, hrest, acc ++ out, hI', hp.symm⟩
    intro hn ho
    subst ho
    refine ⟨?_, rfl⟩
    rw [List.append_nil] at hal'
    have hrem : v.dataRemaining = 0 := by
      by_cases hp0 : 0 < v.dataRemaining
      · have := hlt hn hp0; omega
      · omega
    have : rest.length = 0 := by
      have := congrArg List.length hacc
      rw [List.length_append, hptl] at this
      omega
    exact List.eq_nil_of_length_eq_zero this
  · exact ⟨[], ListInv.init P ct code tail key hk sc, rfl⟩

open Aes in
/-- **`finish_crypto` on an intact entry succeeds from every reachable reader state**: it cannot turn a
decoder's end-of-file into an error. -/
theorem finish_crypto_intact (P : AesPrims) (hW : P.WF) {ct code tail key hk : Bytes} (hL : ct.length < U64)
    (hmac : (P.hmac hk ct).take AUTH_CODE_LENGTH = code) (compressing : Bool) {v : Valid ListSrc} {acc : Bytes}
    (hI : ListInv P ct code tail key hk v acc) :
    ∃ v', finishCrypto P listSrc compressing v = (.ok (), v') := by
  unfold finishCrypto
  cases compressing with
  | false => exact ⟨v, rfl⟩
  | true =>
    rw [if_pos rfl]
    have key : ∀ (f : Nat) (v : Valid ListSrc) (acc : Bytes), ListInv P ct code tail key hk v acc →
        v.dataRemaining < f → ∃ v', copyToSink P listSrc f v = (.ok (), v') := by
      intro f
      induction f with
      | zero => intro v acc _ h; omega
      | succ f ih =>
        intro v acc hI hf
        obtain ⟨out, v', hr, hI', hle, hlt⟩ := hI.step P hW hL hmac 8192
        unfold copyToSink
        rw [hr]
        simp only
        by_cases he : out.isEmpty = true
        · rw [if_pos he]; exact ⟨v', rfl⟩
        · rw [if_neg he]
          by_cases hp : 0 < v.dataRemaining
          · exact ih v' _ hI' (by have := hlt (by omega) hp; omega)
          · -- nothing was left: the call returned no bytes
            exfalso
            have sp := read_spec P hW listSrc hL v hI.run.inv 8192
            rw [hr] at sp
            obtain ⟨bs, _, _, hb, _, _, hol, _⟩ := sp.ok out rfl
            have hb : bs.length ≤ v.dataRemaining := hb
            have : out = [] := List.eq_nil_of_length_eq_zero (by omega)
            rw [this] at he
            exact he rfl
    exact key _ v acc hI (Nat.lt_succ_self _)

open Aes in
/-- A successful end-of-file over `ct ‖ code ‖ tail` means the code is the HMAC of `ct` (AES layer and
`ZipFile::read` level) - hence none when it is not. -/
theorem neverEof_of_bad_code (P : AesPrims) (hW : P.WF) {ct code tail key hk : Bytes} (hL : ct.length < U64)
    (hcl : code.length = AUTH_CODE_LENGTH) (hne : (P.hmac hk ct).take AUTH_CODE_LENGTH ≠ code) (sc : List Nat) :
    NeverEof P (initValid ⟨ct ++ (code ++ tail), sc⟩ ct.length key hk) := by
  have fin_mac : ∀ (v2 : Valid ListSrc) (acc : Bytes), ListInv P ct code tail key hk v2 acc →
      v2.dataRemaining = 0 → v2.finalized = true → False := by
    intro v2 acc hI2 hrem hfin
    obtain ⟨c, hcm⟩ := hI2.run.passed hfin
    obtain ⟨hc1, _, _⟩ := hI2.run.inv.mac c c hcm
    have hst := hI2.stored c c hcm
    have hg : v2.ghostCt = ct := by rw [hI2.ghost, hrem, Nat.sub_zero, List.take_length]
    apply hne
    rw [← hst, hc1, hg, hI2.run.hkeyEq]
  constructor
  · intro bufs out v1 n v2 hrun hn heof
    have hI1 := drain_list_ok P hW hL hcl bufs _ v1 [] out (ListInv.init P ct code tail key hk sc) hrun
    have hI2 := (hI1.step_ok P hW hL hcl n heof).1
    exact fin_mac v2 _ hI2 (eof_rem_zero P hW listSrc hL hI1.run.inv hn heof)
      (eof_finalized P hW listSrc hL hI1.run.inv hn heof)
  · intro δ H compressing D hD hS upd fin d0 c0 bufs out st1 n st2 hrun hn heof
    have hQ := listOk_stable P hW (rest := tail) (key := key) (hk := hk) hL hcl
    have h1 := entryDrain_ok P hW listSrc hL hQ D hD compressing upd fin bufs _ st1 [] out
      ⟨[], ListInv.init P ct code tail key hk sc⟩ hrun
    obtain ⟨⟨acc, hI⟩, hz⟩ := entryRead_ok P hW listSrc hL hQ D hD compressing upd fin st1 st2 n [] h1 heof
    have hrf : st2.aes.dataRemaining = 0 ∧ st2.aes.finalized = true := by
      cases compressing with
      | true => exact hz rfl rfl hn
      | false => exact entryRead_stored_eof P hW listSrc hL hQ D (hS rfl) upd fin st1 st2 n hn h1 heof
    exact fin_mac _ _ hI hrf.1 hrf.2

open Aes in
theorem neverEof_of_truncated (P : AesPrims) (hW : P.WF) {L : Nat} (hL : L < U64) (B : Bytes) (sc : List Nat)
    (key hk : Bytes) (h : B.length < L + AUTH_CODE_LENGTH) : NeverEof P (initValid ⟨B, sc⟩ L key hk) :=
  ⟨fun bufs out v1 n v2 hrun hn heof => truncated_no_eof P hW hL B sc key hk h bufs out v1 v2 hrun n hn heof,
   fun compressing D hD hS upd fin d0 c0 bufs out st1 n st2 hrun hn heof =>
    truncated_no_eof_entry P hW hL B sc key hk h compressing D hD hS upd fin d0 c0 bufs out st1 st2 hrun n hn heof⟩

end ZipVerif.Model
