import ZipVerif.Lemmas.AesList
/-
Helper lemmas for C16 (part 5): `ZipFile::read` = CRC layer ∘ arbitrary decoder ∘ AES reader, with
`finish_crypto` at the decoder's end-of-file.
-/

namespace ZipVerif.Model.Aes
open ZipVerif

/-- An `Ok(0)` for a non-empty buffer leaves the AES reader at its end. -/
theorem eof_rem_zero (P : AesPrims) (hW : P.WF) {σ} (S : Src σ) {L : Nat} (hL : L < U64)
    {v v' : Valid σ} (hI : Inv P L v) {n : Nat} (hn : 0 < n)
    (h : Valid.read P S v n = (.ok [], v')) : v'.dataRemaining = 0 := by
  have sp := read_spec P hW S hL v hI n
  rw [h] at sp
  obtain ⟨bs, _, _, _, hrem, _, hol, hpos, _, _⟩ := sp.ok [] rfl
  have hrem : v'.dataRemaining = v.dataRemaining - bs.length := hrem
  cases Nat.eq_zero_or_pos v.dataRemaining with
  | inl h0 => omega
  | inr hp => have := hpos hn hp; simp at hol; omega

/-- … and finalized: the authentication code has been read and compared, also when the entry has no
ciphertext at all (then by this very call). -/
theorem eof_finalized (P : AesPrims) (hW : P.WF) {σ} (S : Src σ) {L : Nat} (hL : L < U64)
    {v v' : Valid σ} (hI : Inv P L v) {n : Nat} (hn : 0 < n)
    (h : Valid.read P S v n = (.ok [], v')) : v'.finalized = true := by
  have sp := read_spec P hW S hL v hI n
  rw [h] at sp
  obtain ⟨bs, _, _, _, _, _, hol, hpos, hsame, _⟩ := sp.ok [] rfl
  have hsame : v.dataRemaining = 0 → v.finalized = true → v' = v := hsame
  cases Nat.eq_zero_or_pos v.dataRemaining with
  | inr hp => have := hpos hn hp; simp at hol; omega
  | inl h0 =>
    cases hf : v.finalized with
    | true => have : v' = v := hsame h0 hf; rw [this]; exact hf
    | false => exact (sp.emp [] rfl h0 hf).1

/-- A property of the AES reader that successful `read` calls preserve and that implies `Inv`. -/
structure OkStable (P : AesPrims) {σ} (S : Src σ) (L : Nat) (Q : Valid σ → Prop) : Prop where
  step : ∀ v n out v', Q v → Valid.read P S v n = (.ok out, v') → Q v'
  inv : ∀ v, Q v → Inv P L v

/-- The "decoder" of a `Stored` entry: one call on the reader below with the caller's buffer, result
passed through. -/
def Decoder.StoredLike {δ} (D : Decoder δ) : Prop :=
  ∀ d n, ∃ d', D.read d n = .pull n fun r => .done (match r with | .ok bs => .ok bs | .err e => .err e) d'

theorem storedDec_storedLike : storedDec.StoredLike := fun _ _ => ⟨(), rfl⟩

section
variable (P : AesPrims) (hW : P.WF) {σ : Type} (S : Src σ) {L : Nat} (hL : L < U64)
  {Q : Valid σ → Prop} (hQ : OkStable P S L Q)
include hW hL hQ

omit hW hL in
theorem runDec_ok {δ} (d0 : δ) (t : DecStep δ) (ht : t.Faithful) :
    ∀ (v v' : Valid σ) (bs : Bytes) (d : δ), Q v → runDec P S d0 t v = (.ok bs, d, v') → Q v' := by
  induction ht with
  | done r d => intro v v' bs d' hq h; simp only [runDec] at h; cases h; exact hq
  | pull k cont herr hok ih =>
    intro v v' bs d' hq h
    simp only [runDec] at h
    cases hr : Valid.read P S v k with
    | mk r v1 =>
    rw [hr] at h
    cases r with
    | ok b1 => exact ih b1 v1 v' bs d' (hQ.step _ _ _ _ hq hr) h
    | err e =>
      simp only at h
      obtain ⟨e', d2, hc⟩ := herr e
      rw [hc] at h
      simp [runDec] at h
    | panic m => simp at h

theorem copyToSink_ok : ∀ (f : Nat) (v v' : Valid σ), Q v → copyToSink P S f v = (.ok (), v') →
    Q v' ∧ v'.dataRemaining = 0 ∧ v'.finalized = true := by
  intro f
  induction f with
  | zero => intro v v' _ h; simp [copyToSink] at h
  | succ f ih =>
    intro v v' hq h
    simp only [copyToSink] at h
    cases hr : Valid.read P S v 8192 with
    | mk r v1 =>
    rw [hr] at h
    cases r with
    | ok bs =>
      simp only at h
      by_cases hb : bs.isEmpty
      · rw [if_pos hb] at h
        simp only [Prod.mk.injEq, true_and] at h
        subst h
        have hbs : bs = [] := by simpa using hb
        subst hbs
        exact ⟨hQ.step _ _ _ _ hq hr, eof_rem_zero P hW S hL (hQ.inv _ hq) (by decide) hr,
          eof_finalized P hW S hL (hQ.inv _ hq) (by decide) hr⟩
      · rw [if_neg hb] at h
        exact ih v1 v' (hQ.step _ _ _ _ hq hr) h
    | err e => simp at h
    | panic m => simp at h

omit hW hL in
theorem layersRead_ok {δ H} (D : Decoder δ) (hD : D.Faithful) (upd : H → Bytes → H) (fin : H → UInt32)
    (st st' : EntrySt σ δ H) (n : Nat) (out : Bytes) (hq : Q st.aes)
    (h : layersRead P S D upd fin st n = (.ok out, st')) : Q st'.aes := by
  unfold layersRead crcRead at h
  by_cases hn : n = 0
  · rw [if_pos hn] at h
    simp only [Prod.mk.injEq] at h
    rw [← h.2]; exact hq
  · rw [if_neg hn] at h
    simp only at h
    cases hr : runDec P S st.dec (D.read st.dec n) st.aes with
    | mk r rest =>
    obtain ⟨d, v⟩ := rest
    rw [hr] at h
    cases r with
    | ok bs =>
      have hv := runDec_ok P S hQ st.dec _ (hD st.dec n) _ _ _ _ hq hr
      simp only at h
      split at h
      · simp at h
      · simp only [Prod.mk.injEq] at h
        rw [← h.2]; exact hv
    | err e => simp at h
    | panic m => simp at h

theorem entryRead_ok {δ H} (D : Decoder δ) (hD : D.Faithful) (compressing : Bool) (upd : H → Bytes → H)
    (fin : H → UInt32) (st st' : EntrySt σ δ H) (n : Nat) (out : Bytes) (hq : Q st.aes)
    (h : entryRead P S D compressing upd fin st n = (.ok out, st')) :
    Q st'.aes ∧ (compressing = true → out = [] → 0 < n →
      st'.aes.dataRemaining = 0 ∧ st'.aes.finalized = true) := by
  unfold entryRead at h
  cases hl : layersRead P S D upd fin st n with
  | mk r st1 =>
  rw [hl] at h
  cases r with
  | ok bs =>
    have hq1 := layersRead_ok P S hQ D hD upd fin st st1 n bs hq hl
    simp only at h
    by_cases hz : bs.length = 0 ∧ n ≠ 0
    · rw [if_pos hz] at h
      cases hf : finishCrypto P S compressing st1.aes with
      | mk r2 v2 =>
      rw [hf] at h
      cases r2 with
      | ok u =>
        simp only [Prod.mk.injEq, Out.ok.injEq] at h
        obtain ⟨rfl, rfl⟩ := h
        unfold finishCrypto at hf
        cases compressing with
        | false =>
          simp only [Bool.false_eq_true, if_false, Prod.mk.injEq] at hf
          rw [← hf.2]
          exact ⟨hq1, fun h => by cases h⟩
        | true =>
          simp only [if_true] at hf
          obtain ⟨a, b⟩ := copyToSink_ok P hW S hL hQ _ _ _ hq1 hf
          exact ⟨a, fun _ _ _ => b⟩
      | err e => simp at h
      | panic m => simp at h
    · rw [if_neg hz] at h
      simp only [Prod.mk.injEq, Out.ok.injEq] at h
      obtain ⟨rfl, rfl⟩ := h
      refine ⟨hq1, fun _ ho hn => ?_⟩
      subst ho
      exact absurd ⟨rfl, by omega⟩ hz
  | err e => simp at h
  | panic m => simp at h

theorem entryDrain_ok {δ H} (D : Decoder δ) (hD : D.Faithful) (compressing : Bool) (upd : H → Bytes → H)
    (fin : H → UInt32) : ∀ (bufs : List Nat) (st st' : EntrySt σ δ H) (acc out : Bytes), Q st.aes →
    entryDrain P S D compressing upd fin bufs st acc = (.ok out, st') → Q st'.aes := by
  intro bufs
  induction bufs with
  | nil =>
    intro st st' acc out hq h
    simp only [entryDrain, Prod.mk.injEq] at h
    rw [← h.2]; exact hq
  | cons n ns ih =>
    intro st st' acc out hq h
    unfold entryDrain at h
    cases hr : entryRead P S D compressing upd fin st n with
    | mk r st1 =>
    rw [hr] at h
    cases r with
    | ok o => exact ih _ _ _ _ (entryRead_ok P hW S hL hQ D hD compressing upd fin st st1 n o hq hr).1 h
    | err e => simp at h
    | panic m => simp at h

/-- `Stored`: the entry's `Ok(0)` for a non-empty buffer is the AES reader's. -/
theorem entryRead_stored_eof {δ H} (D : Decoder δ) (hS : D.StoredLike) (upd : H → Bytes → H) (fin : H → UInt32)
    (st st' : EntrySt σ δ H) (n : Nat) (hn : 0 < n) (hq : Q st.aes)
    (h : entryRead P S D false upd fin st n = (.ok [], st')) :
    st'.aes.dataRemaining = 0 ∧ st'.aes.finalized = true := by
  unfold entryRead at h
  cases hl : layersRead P S D upd fin st n with
  | mk r st1 =>
  rw [hl] at h
  cases r with
  | ok bs =>
    simp only [finishCrypto, Bool.false_eq_true, if_false] at h
    have hbs : bs = [] ∧ st' = st1 := by
      by_cases hz : bs.length = 0 ∧ n ≠ 0
      · rw [if_pos hz] at h
        simp only [Prod.mk.injEq, Out.ok.injEq] at h
        exact ⟨h.1, h.2.symm⟩
      · rw [if_neg hz] at h
        simp only [Prod.mk.injEq, Out.ok.injEq] at h
        exact ⟨h.1, h.2.symm⟩
    obtain ⟨rfl, rfl⟩ := hbs
    unfold layersRead crcRead at hl
    rw [if_neg (by omega)] at hl
    obtain ⟨d', hd⟩ := hS st.dec n
    simp only [hd, runDec] at hl
    cases hr : Valid.read P S st.aes n with
    | mk r2 v2 =>
    rw [hr] at hl
    cases r2 with
    | ok b2 =>
      simp only at hl
      split at hl
      · simp at hl
      · simp only [Prod.mk.injEq, Out.ok.injEq] at hl
        obtain ⟨hb, hs⟩ := hl
        subst hb
        rw [← hs]
        exact ⟨eof_rem_zero P hW S hL (hQ.inv _ hq) hn hr, eof_finalized P hW S hL (hQ.inv _ hq) hn hr⟩
    | err e => simp at hl
    | panic m => simp at hl
  | err e => simp at h
  | panic m => simp at h

end

/-- `storedDec` passes errors on. -/
theorem storedDec_faithful : storedDec.Faithful := by
  intro d n
  exact .pull n _ (fun e => ⟨e, (), rfl⟩) (fun bs => .done _ _)

/-- The run invariant with the output forgotten. -/
def MacOk (P : AesPrims) (L : Nat) (key hk : Bytes) {σ} (v : Valid σ) : Prop :=
  ∃ acc, RunInv P L key hk v acc

theorem macOk_stable (P : AesPrims) (hW : P.WF) {σ} (S : Src σ) {L : Nat} (hL : L < U64) (key hk : Bytes) :
    OkStable P S L (MacOk P L key hk (σ := σ)) :=
  ⟨fun _ n _ _ ⟨_, hR⟩ h => ⟨_, hR.step P hW S hL n h⟩, fun _ ⟨_, hR⟩ => hR.inv⟩

/-- … and the same with the concrete entry `ct ‖ code ‖ rest` underneath. -/
def ListOk (P : AesPrims) (ct code rest key hk : Bytes) (v : Valid ListSrc) : Prop :=
  ∃ acc, ListInv P ct code rest key hk v acc

theorem listOk_stable (P : AesPrims) (hW : P.WF) {ct code rest key hk : Bytes} (hL : ct.length < U64)
    (hcl : code.length = AUTH_CODE_LENGTH) :
    OkStable P listSrc ct.length (ListOk P ct code rest key hk) :=
  ⟨fun _ n _ _ ⟨_, hI⟩ h => ⟨_, (hI.step_ok P hW hL hcl n h).1⟩, fun _ ⟨_, hI⟩ => hI.run.inv⟩

end ZipVerif.Model.Aes
