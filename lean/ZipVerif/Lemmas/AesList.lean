import ZipVerif.Lemmas.AesRun
/-
Helper lemmas for C16 (part 4): the concrete byte-list source with a short-read schedule.
-/

namespace ZipVerif.Model.Aes
open ZipVerif

theorem listRd_eq (d : Bytes) (sc : List Nat) (m : Nat) :
    ∃ cap, cap ≤ m ∧ (0 < m → 0 < cap) ∧
      listSrc.rd ⟨d, sc⟩ m = (.ok (d.take cap), ⟨d.drop cap, sc.tail⟩) := by
  cases sc with
  | nil => exact ⟨m, Nat.le_refl _, id, rfl⟩
  | cons k t => exact ⟨min m (k + 1), Nat.min_le_left _ _, fun h => by omega, rfl⟩

theorem listSrc_contract : listSrc.Contract := by
  intro s n bs s' h
  obtain ⟨d, sc⟩ := s
  obtain ⟨cap, h1, _, h3⟩ := listRd_eq d sc n
  rw [h3] at h
  simp only [Prod.mk.injEq, RdRes.ok.injEq] at h
  rw [← h.1, List.length_take]
  omega

theorem readExactAux_list : ∀ (f : Nat) (d : Bytes) (sc : List Nat) (need : Nat) (acc : Bytes),
    need ≤ f → need ≤ d.length →
    ∃ sc', readExactAux listSrc f ⟨d, sc⟩ need acc = (.ok (acc ++ d.take need), ⟨d.drop need, sc'⟩) := by
  intro f
  induction f with
  | zero =>
    intro d sc need acc h _
    have : need = 0 := by omega
    subst this
    exact ⟨sc, by simp [readExactAux]⟩
  | succ f ih =>
    intro d sc need acc h hd
    cases need with
    | zero => exact ⟨sc, by simp [readExactAux]⟩
    | succ need =>
      obtain ⟨cap, h1, h2, h3⟩ := listRd_eq d sc (need + 1)
      have hcap := h2 (by omega)
      unfold readExactAux
      rw [h3]
      have hl : (d.take cap).length = cap := by rw [List.length_take]; omega
      simp only [hl]
      rw [if_neg (by omega), if_neg (by omega)]
      obtain ⟨sc', e⟩ := ih (d.drop cap) sc.tail (need + 1 - cap) (acc ++ d.take cap) (by omega)
        (by rw [List.length_drop]; omega)
      refine ⟨sc', ?_⟩
      rw [e, List.append_assoc, List.drop_drop]
      have e1 : List.take cap d ++ List.take (need + 1 - cap) (List.drop cap d) = List.take (need + 1) d := by
        have := List.take_add (l := d) (i := cap) (j := need + 1 - cap)
        rw [show cap + (need + 1 - cap) = need + 1 by omega] at this
        exact this.symm
      rw [e1, show cap + (need + 1 - cap) = need + 1 by omega]

theorem readExact_list (d : Bytes) (sc : List Nat) (n : Nat) (h : n ≤ d.length) :
    ∃ sc', readExact listSrc ⟨d, sc⟩ n = (.ok (d.take n), ⟨d.drop n, sc'⟩) := by
  obtain ⟨sc', e⟩ := readExactAux_list n d sc n [] (Nat.le_refl _) h
  exact ⟨sc', by rw [readExact, e]; rfl⟩

/-- A reader in the middle of the concrete entry `ct ‖ code ‖ rest`. -/
structure ListInv (P : AesPrims) (ct code rest key hk : Bytes) (v : Valid ListSrc) (acc : Bytes) : Prop where
  run : RunInv P ct.length key hk v acc
  ghost : v.ghostCt = ct.take (ct.length - v.dataRemaining)
  inner : v.finalized = false →
    ∃ sc, v.inner = ⟨ct.drop (ct.length - v.dataRemaining) ++ (code ++ rest), sc⟩
  stored : ∀ c s, v.ghostMac = some (c, s) → s = code

theorem ListInv.inner_of_pos {P : AesPrims} {ct code rest key hk : Bytes} {v : Valid ListSrc} {acc : Bytes}
    (hI : ListInv P ct code rest key hk v acc) (hp : 0 < v.dataRemaining) :
    ∃ sc, v.inner = ⟨ct.drop (ct.length - v.dataRemaining) ++ (code ++ rest), sc⟩ := by
  apply hI.inner
  cases hf : v.finalized with
  | false => rfl
  | true => have := hI.run.inv.fin hf; omega

/-- A successful call keeps the concrete invariant (no assumption about the stored code). -/
theorem ListInv.step_ok (P : AesPrims) (hW : P.WF) {ct code rest key hk : Bytes} (hL : ct.length < U64)
    (hcl : code.length = AUTH_CODE_LENGTH)
    {v v' : Valid ListSrc} {acc out : Bytes} (hI : ListInv P ct code rest key hk v acc) (n : Nat)
    (hr : Valid.read P listSrc v n = (.ok out, v')) :
    ListInv P ct code rest key hk v' (acc ++ out) ∧
      v'.dataRemaining ≤ v.dataRemaining ∧
      (0 < n → 0 < v.dataRemaining → v'.dataRemaining < v.dataRemaining) := by
  have sp := read_spec P hW listSrc hL v hI.run.inv n
  have hlen := hI.run.inv.len
  have hin := fun hp => hI.inner_of_pos hp
  rw [hr] at sp
  have goal : ∃ out' v'', (Out.ok out, v') = ((Out.ok out' : Out Bytes), v'') ∧ ListInv P ct code rest key hk v'' (acc ++ out') ∧
      v''.dataRemaining ≤ v.dataRemaining ∧
      (0 < n → 0 < v.dataRemaining → v''.dataRemaining < v.dataRemaining) := by
      refine ⟨out, v', rfl, ?_⟩
      have hR' := hI.run.step P hW listSrc hL n hr
      obtain ⟨bs0, hct0, _, hb0, hrem0, _, hol0, hpos0, hsame, _⟩ := sp.ok out rfl
      have hrem0 : v'.dataRemaining = v.dataRemaining - bs0.length := hrem0
      have hct0 : v'.ghostCt = v.ghostCt ++ bs0 := hct0
      have hsame : v.dataRemaining = 0 → v.finalized = true → v' = v := hsame
      by_cases hp : 0 < v.dataRemaining
      · obtain ⟨bs, s', hrd, hct, hne, hlast⟩ := sp.src out rfl hp
        have hct : v'.ghostCt = v.ghostCt ++ bs := hct
        have hne : v'.dataRemaining ≠ 0 → v'.inner = s' := hne
        have hbb : bs0 = bs := List.append_cancel_left (hct0.symm.trans hct)
        subst hbb
        obtain ⟨sc, hi⟩ := hin hp
        rw [hi] at hrd
        obtain ⟨cap, hc1, _, hc3⟩ := listRd_eq (ct.drop (ct.length - v.dataRemaining) ++ (code ++ rest)) sc (min v.dataRemaining n)
        rw [hc3] at hrd
        simp only [Prod.mk.injEq, RdRes.ok.injEq] at hrd
        obtain ⟨hbs, hs'⟩ := hrd
        have hdl : (ct.drop (ct.length - v.dataRemaining)).length = v.dataRemaining := by
          rw [List.length_drop]; omega
        have hbs' : bs0 = (ct.drop (ct.length - v.dataRemaining)).take cap := by
          rw [← hbs, List.take_append_of_le_length (by omega)]
        have hbl : bs0.length = cap := by rw [hbs', List.length_take]; omega
        refine ⟨⟨hR', ?_, ?_, ?_⟩, by omega, fun h1 _ => by have := hpos0 h1 hp; omega⟩
        · rw [hct, hI.ghost, hbs', hrem0, hbl]
          have := List.take_add (l := ct) (i := ct.length - v.dataRemaining) (j := cap)
          rw [show ct.length - (v.dataRemaining - cap) = ct.length - v.dataRemaining + cap by omega]
          exact this.symm
        · intro hf
          have hrne : v'.dataRemaining ≠ 0 := by
            intro h0
            have := hR'.inv.finAt h0 (by omega)
            rw [hf] at this; cases this
          refine ⟨sc.tail, ?_⟩
          rw [hne hrne, ← hs', hrem0, hbl]
          congr 1
          rw [List.drop_append_of_le_length (by omega), List.drop_drop]
          rw [show ct.length - (v.dataRemaining - cap) = ct.length - v.dataRemaining + cap by omega]
        · intro c st hm
          by_cases hr0 : v'.dataRemaining = 0
          · obtain ⟨code0, hre, c0, hm0⟩ := hlast hr0
            have hm0 : v'.ghostMac = some (c0, code0) := hm0
            rw [hm0] at hm
            simp only [Option.some.injEq, Prod.mk.injEq] at hm
            have hcap : cap = v.dataRemaining := by omega
            have hs2 : s' = ⟨code ++ rest, sc.tail⟩ := by
              rw [← hs', hcap]
              congr 1
              rw [List.drop_append_of_le_length (by omega), List.drop_of_length_le (by omega), List.nil_append]
            obtain ⟨sc', hre'⟩ := readExact_list (code ++ rest) sc.tail AUTH_CODE_LENGTH
              (by rw [List.length_append]; omega)
            rw [hs2, hre'] at hre
            simp only [Prod.mk.injEq, Out.ok.injEq] at hre
            rw [← hm.2, ← hre.1, ← hcl, List.take_left]
          · have hnf : v'.finalized = false := by
              cases hf : v'.finalized with
              | false => rfl
              | true => exact absurd (hR'.inv.fin hf) hr0
            rw [(hR'.inv.notfin hnf).2] at hm
            cases hm
      · have h0 : v.dataRemaining = 0 := by omega
        have hout : out = [] := List.eq_nil_of_length_eq_zero (by omega)
        cases hvf : v.finalized with
        | true =>
          have hv : v' = v := hsame h0 hvf
          subst hv
          subst hout
          rw [List.append_nil]
          exact ⟨hI, Nat.le_refl _, fun _ h => by omega⟩
        | false =>
          -- an entry without ciphertext: this call read the code and compared it
          obtain ⟨hfin', code0, hre, c0, hm0⟩ := sp.emp out rfl h0 hvf
          have hfin' : v'.finalized = true := hfin'
          have hre : readExact listSrc v.inner AUTH_CODE_LENGTH = (.ok code0, v'.inner) := hre
          have hm0 : v'.ghostMac = some (c0, code0) := hm0
          have hb0' : bs0 = [] := List.eq_nil_of_length_eq_zero (by omega)
          refine ⟨⟨hR', ?_, ?_, ?_⟩, by omega, fun _ h => by omega⟩
          · rw [hct0, hb0', List.append_nil, hrem0, hb0', List.length_nil, Nat.sub_zero]
            exact hI.ghost
          · intro hf; rw [hfin'] at hf; cases hf
          · intro c st hm
            rw [hm0] at hm
            simp only [Option.some.injEq, Prod.mk.injEq] at hm
            obtain ⟨sc, hi⟩ := hI.inner hvf
            have hd : ct.drop (ct.length - v.dataRemaining) = [] := by
              rw [h0, Nat.sub_zero]; exact List.drop_of_length_le (Nat.le_refl _)
            rw [hd, List.nil_append] at hi
            obtain ⟨sc', hre'⟩ := readExact_list (code ++ rest) sc AUTH_CODE_LENGTH
              (by rw [List.length_append]; omega)
            rw [hi, hre'] at hre
            simp only [Prod.mk.injEq, Out.ok.injEq] at hre
            rw [← hm.2, ← hre.1, ← hcl, List.take_left]
  obtain ⟨o, w, e, h⟩ := goal
  cases e
  exact h

theorem ListInv.step (P : AesPrims) (hW : P.WF) {ct code rest key hk : Bytes} (hL : ct.length < U64)
    (hmac : (P.hmac hk ct).take AUTH_CODE_LENGTH = code)
    {v : Valid ListSrc} {acc : Bytes} (hI : ListInv P ct code rest key hk v acc) (n : Nat) :
    ∃ out v', Valid.read P listSrc v n = (.ok out, v') ∧ ListInv P ct code rest key hk v' (acc ++ out) ∧
      v'.dataRemaining ≤ v.dataRemaining ∧
      (0 < n → 0 < v.dataRemaining → v'.dataRemaining < v.dataRemaining) := by
  have sp := read_spec P hW listSrc hL v hI.run.inv n
  have hlen := hI.run.inv.len
  have hcl : code.length = AUTH_CODE_LENGTH := by
    rw [← hmac, List.length_take, hW.hmac_len]; decide
  -- the inner reader while data remains
  have hin : 0 < v.dataRemaining →
      ∃ sc, v.inner = ⟨ct.drop (ct.length - v.dataRemaining) ++ (code ++ rest), sc⟩ := by
    intro hp
    apply hI.inner
    cases hf : v.finalized with
    | false => rfl
    | true => have := hI.run.inv.fin hf; omega
  cases hr : Valid.read P listSrc v n with
  | mk r v' =>
  rw [hr] at sp
  cases r with
  | panic m => exact absurd (by rw [hr]) (read_no_panic P hW listSrc listSrc_contract hL v hI.run.inv n m)
  | err e =>
    exfalso
    cases sp.err e rfl with
    | inl h1 =>
      obtain ⟨k, s', hrd⟩ := h1
      cases hvi : v.inner with
      | mk d sc =>
      rw [hvi] at hrd
      obtain ⟨cap, _, _, h3⟩ := listRd_eq d sc (min v.dataRemaining n)
      rw [h3] at hrd; cases hrd
    | inr h2 =>
      cases h2 with
      | inl h2 =>
        obtain ⟨s', hrd, hp, hn⟩ := h2
        obtain ⟨sc, hi⟩ := hin hp
        rw [hi] at hrd
        obtain ⟨cap, _, h2', h3⟩ := listRd_eq (ct.drop (ct.length - v.dataRemaining) ++ (code ++ rest)) sc (min v.dataRemaining n)
        rw [h3] at hrd
        simp only [Prod.mk.injEq, RdRes.ok.injEq] at hrd
        have := congrArg List.length hrd.1
        rw [List.length_take, List.length_append, List.length_drop] at this
        have := h2' (by omega)
        simp at *
        omega
      | inr h34 =>
        cases h34 with
        | inl h3 =>
          obtain ⟨bs, s', s'', hrd, hbl, hbp, hlast⟩ := h3
          obtain ⟨sc, hi⟩ := hin (by omega)
          rw [hi] at hrd
          obtain ⟨cap, hc1, _, hc3⟩ := listRd_eq (ct.drop (ct.length - v.dataRemaining) ++ (code ++ rest)) sc (min v.dataRemaining n)
          rw [hc3] at hrd
          simp only [Prod.mk.injEq, RdRes.ok.injEq] at hrd
          obtain ⟨hbs, hs'⟩ := hrd
          have hdl : (ct.drop (ct.length - v.dataRemaining)).length = v.dataRemaining := by
            rw [List.length_drop]; omega
          have hcap : cap = v.dataRemaining := by
            have := congrArg List.length hbs
            rw [List.length_take, List.length_append, hdl] at this
            omega
          rw [hcap] at hbs hs'
          have hbs' : bs = ct.drop (ct.length - v.dataRemaining) := by
            rw [← hbs, List.take_append_of_le_length (by omega)]
            exact List.take_of_length_le (by omega)
          have hs2 : s' = ⟨code ++ rest, sc.tail⟩ := by
            rw [← hs']
            congr 1
            rw [List.drop_append_of_le_length (by omega), List.drop_of_length_le (by omega), List.nil_append]
          have hall : v.ghostCt ++ bs = ct := by
            rw [hI.ghost, hbs', List.take_append_drop]
          obtain ⟨sc', hre⟩ := readExact_list (code ++ rest) sc.tail AUTH_CODE_LENGTH
            (by rw [List.length_append]; omega)
          rw [hs2, hre] at hlast
          cases hlast with
          | inl h => obtain ⟨e', h⟩ := h; cases h
          | inr h =>
            obtain ⟨code', h, hne⟩ := h
            simp only [Prod.mk.injEq, Out.ok.injEq] at h
            apply hne
            rw [hall, hI.run.hkeyEq, hmac, ← h.1, ← hcl, List.take_left]
        | inr h4 =>
          -- an entry without ciphertext: the code read is the stored one, and it is the HMAC of nothing
          obtain ⟨h0, hnf, s'', hl⟩ := h4
          obtain ⟨sc, hi⟩ := hI.inner hnf
          have hd : ct.drop (ct.length - v.dataRemaining) = [] := by
            rw [h0, Nat.sub_zero]; exact List.drop_of_length_le (Nat.le_refl _)
          rw [hd, List.nil_append] at hi
          obtain ⟨sc', hre⟩ := readExact_list (code ++ rest) sc AUTH_CODE_LENGTH
            (by rw [List.length_append]; omega)
          rw [hi, hre] at hl
          have hg : v.ghostCt = ct := by rw [hI.ghost, h0, Nat.sub_zero, List.take_length]
          cases hl with
          | inl h => obtain ⟨e', h⟩ := h; cases h
          | inr h =>
            obtain ⟨code', h, hne⟩ := h
            simp only [Prod.mk.injEq, Out.ok.injEq] at h
            apply hne
            rw [hg, hI.run.hkeyEq, hmac, ← h.1, ← hcl, List.take_left]
  | ok out => exact ⟨out, v', rfl, hI.step_ok P hW hL hcl n hr⟩

/-- number of non-empty caller buffers in a schedule -/
def posCount (bufs : List Nat) : Nat := (bufs.filter (0 < ·)).length

theorem drain_list (P : AesPrims) (hW : P.WF) {ct code rest key hk : Bytes} (hL : ct.length < U64)
    (hmac : (P.hmac hk ct).take AUTH_CODE_LENGTH = code) :
    ∀ (bufs : List Nat) (v : Valid ListSrc) (acc : Bytes), ListInv P ct code rest key hk v acc →
    ∃ out v1, drain P listSrc bufs v acc = (.ok out, v1) ∧ ListInv P ct code rest key hk v1 out ∧
      v1.dataRemaining ≤ v.dataRemaining - posCount bufs := by
  intro bufs
  induction bufs with
  | nil => intro v acc hI; exact ⟨acc, v, rfl, hI, by simp [posCount]⟩
  | cons n ns ih =>
    intro v acc hI
    obtain ⟨out, v', hr, hI', hle, hlt⟩ := hI.step P hW hL hmac n
    obtain ⟨out1, v1, hd, hI1, hle1⟩ := ih v' (acc ++ out) hI'
    refine ⟨out1, v1, by rw [drain, hr]; exact hd, hI1, ?_⟩
    by_cases hn : 0 < n
    · have : posCount (n :: ns) = posCount ns + 1 := by simp [posCount, hn]
      by_cases hp : 0 < v.dataRemaining
      · have := hlt hn hp; omega
      · omega
    · have : posCount (n :: ns) = posCount ns := by simp [posCount, hn]
      omega

theorem drain_list_ok (P : AesPrims) (hW : P.WF) {ct code rest key hk : Bytes} (hL : ct.length < U64)
    (hcl : code.length = AUTH_CODE_LENGTH) :
    ∀ (bufs : List Nat) (v v1 : Valid ListSrc) (acc out : Bytes), ListInv P ct code rest key hk v acc →
    drain P listSrc bufs v acc = (.ok out, v1) → ListInv P ct code rest key hk v1 out := by
  intro bufs
  induction bufs with
  | nil =>
    intro v v1 acc out hI h
    simp only [drain, Prod.mk.injEq, Out.ok.injEq] at h
    obtain ⟨rfl, rfl⟩ := h
    exact hI
  | cons n ns ih =>
    intro v v1 acc out hI h
    unfold drain at h
    cases hr : Valid.read P listSrc v n with
    | mk r v' =>
    rw [hr] at h
    cases r with
    | ok o => exact ih _ _ _ _ (hI.step_ok P hW hL hcl n hr).1 h
    | err e => simp at h
    | panic m => simp at h

theorem validate_list_reads (n : Nat) (salt pvv tail : Bytes) (sc : List Nat) (hs : salt.length = n)
    (hp : pvv.length = PWD_VERIFY_LENGTH) :
    ∃ sc1 sc2, readExact listSrc ⟨salt ++ pvv ++ tail, sc⟩ n = (.ok salt, ⟨pvv ++ tail, sc1⟩) ∧
      readExact listSrc ⟨pvv ++ tail, sc1⟩ PWD_VERIFY_LENGTH = (.ok pvv, ⟨tail, sc2⟩) := by
  obtain ⟨sc1, e1⟩ := readExact_list (salt ++ pvv ++ tail) sc n (by simp [List.length_append]; omega)
  obtain ⟨sc2, e2⟩ := readExact_list (pvv ++ tail) sc1 PWD_VERIFY_LENGTH (by simp [List.length_append]; omega)
  refine ⟨sc1, sc2, ?_, ?_⟩
  · rw [e1, List.append_assoc, ← hs, List.take_left, List.drop_left]
  · rw [e2, ← hp, List.take_left, List.drop_left]

theorem ListInv.init (P : AesPrims) (ct code rest key hk : Bytes) (sc : List Nat) :
    ListInv P ct code rest key hk (initValid ⟨ct ++ (code ++ rest), sc⟩ ct.length key hk) [] := by
  refine ⟨RunInv.init P _ _ key hk, by simp [initValid], fun _ => ⟨sc, by simp [initValid]⟩, ?_⟩
  intro c s h; cases h

end ZipVerif.Model.Aes
