import ZipVerif.Lemmas.AesEntry
/-
Helper lemmas for C16 (part 6): the byte-list source WITHOUT assumptions about what it holds.

`Lemmas/AesList.lean` speaks about a source that holds a whole entry `ct ‖ code ‖ rest`.  The reader model
(`Model/CryptoExt.lean`) applies `validate` + a read-to-end to whatever bytes the `Take` over an accepted
archive delivers: possibly too few, possibly with a wrong code.  Here:

  * `validate_list`          the verdict of `validate` on ANY byte list, for any short-read schedule;
  * `read_*`                 closed forms of single `AesReaderValid::read` calls (any source);
  * `drainLL_*`              the fixed schedule of the one-shot reader (`aesReadAll`: a never-short source, two
                             reads with room for the whole payload) on any byte list: the decryption of the
                             payload iff payload and code are there and the code is right; `InvalidData` for a
                             wrong code; `UnexpectedEof` for missing bytes;
  * `TruncOk`                a source holding fewer than `payload + 10` bytes never reaches a successful
                             end-of-file, under any schedule, any buffers, any decoder.
-/

namespace ZipVerif.Model.Aes
open ZipVerif

/-! ### the list source: never short, too short -/

theorem listRd_nil (d : Bytes) (n : Nat) :
    listSrc.rd ⟨d, []⟩ n = (.ok (d.take n), ⟨d.drop n, []⟩) := rfl

theorem readExactAux_zero {σ} (S : Src σ) (f : Nat) (s : σ) (acc : Bytes) :
    readExactAux S f s 0 acc = (.ok acc, s) := by
  cases f <;> simp [readExactAux]

/-- A never-short source stays never-short. -/
theorem readExact_list_nil (d : Bytes) (n : Nat) (h : n ≤ d.length) :
    readExact listSrc ⟨d, []⟩ n = (.ok (d.take n), ⟨d.drop n, []⟩) := by
  unfold readExact
  cases n with
  | zero => rw [readExactAux_zero]; simp
  | succ n =>
    unfold readExactAux
    rw [listRd_nil]
    have hl : (d.take (n + 1)).length = n + 1 := by rw [List.length_take]; omega
    simp only [hl]
    rw [if_neg (by omega), if_neg (by omega), Nat.sub_self, readExactAux_zero]
    simp

theorem readExact_list' (d : Bytes) (sc : List Nat) (n : Nat) (h : n ≤ d.length) :
    ∃ sc', (sc = [] → sc' = []) ∧ readExact listSrc ⟨d, sc⟩ n = (.ok (d.take n), ⟨d.drop n, sc'⟩) := by
  cases sc with
  | nil => exact ⟨[], fun _ => rfl, readExact_list_nil d n h⟩
  | cons k t =>
    obtain ⟨sc', e⟩ := readExact_list d (k :: t) n h
    exact ⟨sc', fun hh => (by cases hh), e⟩

theorem readExactAux_list_short : ∀ (f : Nat) (d : Bytes) (sc : List Nat) (need : Nat) (acc : Bytes),
    need ≤ f → d.length < need →
    ∃ s', readExactAux listSrc f ⟨d, sc⟩ need acc = (.err (.io .unexpectedEof), s') := by
  intro f
  induction f with
  | zero => intro d sc need acc h hd; omega
  | succ f ih =>
    intro d sc need acc h hd
    cases need with
    | zero => omega
    | succ need =>
      obtain ⟨cap, h1, h2, h3⟩ := listRd_eq d sc (need + 1)
      have hcap := h2 (by omega)
      unfold readExactAux
      rw [h3]
      simp only
      by_cases hd0 : (d.take cap).length = 0
      · rw [if_pos hd0]; exact ⟨_, rfl⟩
      · rw [if_neg hd0]
        have hl : (d.take cap).length = min cap d.length := List.length_take
        rw [if_neg (by omega)]
        exact ih (d.drop cap) sc.tail (need + 1 - (d.take cap).length) (acc ++ d.take cap) (by omega)
          (by rw [List.length_drop]; omega)

theorem readExact_list_short (d : Bytes) (sc : List Nat) (n : Nat) (h : d.length < n) :
    ∃ s', readExact listSrc ⟨d, sc⟩ n = (.err (.io .unexpectedEof), s') :=
  readExactAux_list_short n d sc n [] (Nat.le_refl _) h

theorem saltLength_pos (mode : AesMode) : 0 < mode.saltLength := by
  cases mode <;> decide

/-! ### `validate` on any byte list -/

/-- **`AesReader::validate` on an arbitrary byte list, any short-read schedule**: fewer than salt + 2 bytes:
`UnexpectedEof`; otherwise the verdict is the comparison of bytes `salt_len .. salt_len + 2` with the derived
verifier, and an accepted reader stands behind the verifier with the derived keys.  The schedule enters only
the inner reader's remaining schedule. -/
theorem validate_list (P : AesPrims) (hW : P.WF) (mode : AesMode) (L : Nat) (raw : Bytes) (sched : List Nat)
    (pw : Bytes) :
    (raw.length < mode.saltLength + 2 →
      (validate P listSrc mode (some L) ⟨raw, sched⟩ pw).1 = .err (.io .unexpectedEof)) ∧
    (mode.saltLength + 2 ≤ raw.length →
      ((raw.drop mode.saltLength).take 2 ≠
          (P.pbkdf2 pw (raw.take mode.saltLength) (2 * mode.keyLength + 2)).drop (2 * mode.keyLength) →
        (validate P listSrc mode (some L) ⟨raw, sched⟩ pw).1 = .ok none) ∧
      ((raw.drop mode.saltLength).take 2 =
          (P.pbkdf2 pw (raw.take mode.saltLength) (2 * mode.keyLength + 2)).drop (2 * mode.keyLength) →
        ∃ sc, (sched = [] → sc = []) ∧
          validate P listSrc mode (some L) ⟨raw, sched⟩ pw =
            (.ok (some (initValid ⟨raw.drop (mode.saltLength + 2), sc⟩ L
              ((P.pbkdf2 pw (raw.take mode.saltLength) (2 * mode.keyLength + 2)).take mode.keyLength)
              (((P.pbkdf2 pw (raw.take mode.saltLength) (2 * mode.keyLength + 2)).drop mode.keyLength).take
                mode.keyLength))), ⟨raw.drop (mode.saltLength + 2), sc⟩))) := by
  have hsl := saltLength_pos mode
  refine ⟨fun hshort => ?_, fun hlong => ?_⟩
  · by_cases h1 : raw.length < mode.saltLength
    · obtain ⟨s', e⟩ := readExact_list_short raw sched mode.saltLength h1
      unfold validate
      simp only [e]
    · obtain ⟨sc1, e1⟩ := readExact_list raw sched mode.saltLength (by omega)
      obtain ⟨s', e2⟩ := readExact_list_short (raw.drop mode.saltLength) sc1 PWD_VERIFY_LENGTH
        (by rw [List.length_drop]; show _ < 2; omega)
      unfold validate
      simp only [e1, e2]
  · obtain ⟨sc1, hn1, e1⟩ := readExact_list' raw sched mode.saltLength (by omega)
    obtain ⟨sc2, hn2, e2⟩ := readExact_list' (raw.drop mode.saltLength) sc1 PWD_VERIFY_LENGTH
      (by rw [List.length_drop]; show 2 ≤ _; omega)
    have e2' : readExact listSrc ⟨raw.drop mode.saltLength, sc1⟩ PWD_VERIFY_LENGTH =
        (.ok ((raw.drop mode.saltLength).take 2), ⟨raw.drop (mode.saltLength + 2), sc2⟩) := by
      rw [e2, List.drop_drop]; rfl
    refine ⟨fun hne => ?_, fun heq => ⟨sc2, fun h => hn2 (hn1 h), ?_⟩⟩
    · unfold validate
      simp only [e1, e2']
      rw [if_pos]
      show (raw.drop mode.saltLength).take 2 ≠
        (P.pbkdf2 pw (raw.take mode.saltLength) (2 * mode.keyLength + 2)).drop (2 * mode.keyLength + 2 - 2)
      simpa using hne
    · unfold validate
      simp only [e1, e2']
      rw [if_neg, if_neg]
      · rfl
      · rw [List.length_take, hW.pbkdf2_len]
        show ¬ (min mode.keyLength (2 * mode.keyLength + 2) ≠ mode.keyLength)
        omega
      · show ¬ ((raw.drop mode.saltLength).take 2 ≠
          (P.pbkdf2 pw (raw.take mode.saltLength) (2 * mode.keyLength + 2)).drop (2 * mode.keyLength + 2 - 2))
        simpa using heq

/-! ### closed forms of single `read` calls -/

section
variable (P : AesPrims) {σ : Type} (S : Src σ)

theorem read_done (v : Valid σ) (n : Nat) (h0 : v.dataRemaining = 0) (hf : v.finalized = true) :
    Valid.read P S v n = (.ok [], v) := by
  unfold Valid.read; rw [if_pos h0, if_pos hf]

theorem read_at_eof (v : Valid σ) (n : Nat) (s' : σ) (h0 : v.dataRemaining ≠ 0) (hn : n ≠ 0)
    (hrd : S.rd v.inner (min v.dataRemaining n) = (.ok [], s')) :
    Valid.read P S v n = (.err (.io .unexpectedEof), { v with inner := s' }) := by
  unfold Valid.read; rw [if_neg h0]; simp only [hrd]
  rw [if_pos ⟨rfl, by omega⟩]

theorem read_mid_chunk (v : Valid σ) (n : Nat) (bs pt : Bytes) (s' : σ) (ctr' : CtrState)
    (hrd : S.rd v.inner (min v.dataRemaining n) = (.ok bs, s')) (hpos : 0 < bs.length)
    (hlt : bs.length < v.dataRemaining) (hn : bs.length ≤ n)
    (hc : cryptInPlace P v.key v.ctr bs = .ok (pt, ctr')) :
    Valid.read P S v n = (.ok pt, v.adv s' bs ctr') := by
  unfold Valid.read; rw [if_neg (by omega)]; simp only [hrd]
  rw [if_neg (by omega), if_neg (by omega), if_neg (by omega)]; simp only [hc]
  rw [if_neg (by omega)]
  try rfl

theorem read_last_chunk_err (v : Valid σ) (n : Nat) (bs pt : Bytes) (s' s'' : σ) (ctr' : CtrState) (e : ZErr)
    (hrd : S.rd v.inner (min v.dataRemaining n) = (.ok bs, s')) (hpos : 0 < bs.length)
    (hlen : bs.length = v.dataRemaining) (hn : bs.length ≤ n) (hnf : v.finalized = false)
    (hc : cryptInPlace P v.key v.ctr bs = .ok (pt, ctr'))
    (hre : readExact S s' AUTH_CODE_LENGTH = (.err e, s'')) :
    Valid.read P S v n = (.err e, v.fin1 s'' bs ctr') := by
  unfold Valid.read; rw [if_neg (by omega)]; simp only [hrd]
  rw [if_neg (by omega), if_neg (by omega), if_neg (by omega)]; simp only [hc]
  rw [if_pos (by omega), hnf]; simp only [Bool.false_eq_true, if_false, hre]
  try rfl

theorem read_last_chunk_bad (v : Valid σ) (n : Nat) (bs pt code : Bytes) (s' s'' : σ) (ctr' : CtrState)
    (hrd : S.rd v.inner (min v.dataRemaining n) = (.ok bs, s')) (hpos : 0 < bs.length)
    (hlen : bs.length = v.dataRemaining) (hn : bs.length ≤ n) (hnf : v.finalized = false)
    (hc : cryptInPlace P v.key v.ctr bs = .ok (pt, ctr'))
    (hre : readExact S s' AUTH_CODE_LENGTH = (.ok code, s''))
    (hcmp : (P.hmac v.hmacKey (v.hmacMsg ++ bs)).take AUTH_CODE_LENGTH ≠ code) :
    Valid.read P S v n = (.err (.io .invalidData), v.fin2 P s'' bs ctr' code) := by
  unfold Valid.read; rw [if_neg (by omega)]; simp only [hrd]
  rw [if_neg (by omega), if_neg (by omega), if_neg (by omega)]; simp only [hc]
  rw [if_pos (by omega), hnf]; simp only [Bool.false_eq_true, if_false, hre]
  rw [if_pos hcmp]
  try rfl

theorem read_last_chunk_ok (v : Valid σ) (n : Nat) (bs pt code : Bytes) (s' s'' : σ) (ctr' : CtrState)
    (hrd : S.rd v.inner (min v.dataRemaining n) = (.ok bs, s')) (hpos : 0 < bs.length)
    (hlen : bs.length = v.dataRemaining) (hn : bs.length ≤ n) (hnf : v.finalized = false)
    (hc : cryptInPlace P v.key v.ctr bs = .ok (pt, ctr'))
    (hre : readExact S s' AUTH_CODE_LENGTH = (.ok code, s''))
    (hcmp : (P.hmac v.hmacKey (v.hmacMsg ++ bs)).take AUTH_CODE_LENGTH = code) :
    Valid.read P S v n = (.ok pt, v.fin2 P s'' bs ctr' code) := by
  unfold Valid.read; rw [if_neg (by omega)]; simp only [hrd]
  rw [if_neg (by omega), if_neg (by omega), if_neg (by omega)]; simp only [hc]
  rw [if_pos (by omega), hnf]; simp only [Bool.false_eq_true, if_false, hre]
  rw [if_neg (by simpa using hcmp)]
  try rfl

theorem read_empty_err (v : Valid σ) (n : Nat) (s'' : σ) (e : ZErr) (h0 : v.dataRemaining = 0)
    (hnf : v.finalized = false) (hre : readExact S v.inner AUTH_CODE_LENGTH = (.err e, s'')) :
    Valid.read P S v n = (.err e, v.emp1 s'') := by
  unfold Valid.read; rw [if_pos h0, hnf]; simp only [Bool.false_eq_true, if_false, hre]
  try rfl

theorem read_empty_bad (v : Valid σ) (n : Nat) (s'' : σ) (code : Bytes) (h0 : v.dataRemaining = 0)
    (hnf : v.finalized = false) (hre : readExact S v.inner AUTH_CODE_LENGTH = (.ok code, s''))
    (hcmp : (P.hmac v.hmacKey v.hmacMsg).take AUTH_CODE_LENGTH ≠ code) :
    Valid.read P S v n = (.err (.io .invalidData), v.emp2 P s'' code) := by
  unfold Valid.read; rw [if_pos h0, hnf]; simp only [Bool.false_eq_true, if_false, hre]
  rw [if_pos hcmp]
  try rfl

theorem read_empty_ok (v : Valid σ) (n : Nat) (s'' : σ) (code : Bytes) (h0 : v.dataRemaining = 0)
    (hnf : v.finalized = false) (hre : readExact S v.inner AUTH_CODE_LENGTH = (.ok code, s''))
    (hcmp : (P.hmac v.hmacKey v.hmacMsg).take AUTH_CODE_LENGTH = code) :
    Valid.read P S v n = (.ok [], v.emp2 P s'' code) := by
  unfold Valid.read; rw [if_pos h0, hnf]; simp only [Bool.false_eq_true, if_false, hre]
  rw [if_neg (by simpa using hcmp)]
  try rfl

end

/-! ### the one-shot schedule: never-short source, two reads with room for everything -/

section
variable (P : AesPrims) (hW : P.WF) {L : Nat} (hL : L < U64) (B key hk : Bytes)
include hW hL

/-- Fewer than `L + 10` bytes behind the verifier: `UnexpectedEof`. -/
theorem drainLL_short (h : B.length < L + 10) :
    (drain P listSrc [L, L] (initValid ⟨B, []⟩ L key hk) []).1 = .err (.io .unexpectedEof) := by
  have hI := initValid_inv P (⟨B, []⟩ : ListSrc) L key hk
  by_cases h0 : L = 0
  · subst h0
    obtain ⟨s', e⟩ := readExact_list_short B [] AUTH_CODE_LENGTH (by show _ < 10; omega)
    have := read_empty_err P listSrc (initValid ⟨B, []⟩ 0 key hk) 0 s' _ rfl rfl e
    rw [drain, this]
  · have hrd : listSrc.rd (initValid (⟨B, []⟩ : ListSrc) L key hk).inner
        (min (initValid (⟨B, []⟩ : ListSrc) L key hk).dataRemaining L) = (.ok (B.take L), ⟨B.drop L, []⟩) := by
      show listSrc.rd ⟨B, []⟩ (min L L) = _
      rw [Nat.min_self]; rfl
    by_cases hB0 : B = []
    · subst hB0
      have hrd' : listSrc.rd (initValid (⟨[], []⟩ : ListSrc) L key hk).inner
          (min (initValid (⟨[], []⟩ : ListSrc) L key hk).dataRemaining L) = (.ok [], ⟨[], []⟩) := by
        rw [hrd]; simp
      have := read_at_eof P listSrc (initValid ⟨[], []⟩ L key hk) L _ h0 h0 hrd'
      rw [drain, this]
    · have hBl : 0 < B.length := List.length_pos_iff.mpr hB0
      obtain ⟨pt, ctr', hc, _, _, _, _⟩ := crypt_ok P hW hL hI (B.take L)
        (by rw [List.length_take]; exact Nat.min_le_left _ _)
      have hc : cryptInPlace P (initValid (⟨B, []⟩ : ListSrc) L key hk).key
          (initValid (⟨B, []⟩ : ListSrc) L key hk).ctr (B.take L) = .ok (pt, ctr') := hc
      by_cases hlt : B.length < L
      · -- the payload is cut: a partial chunk, then nothing
        have hlen : (B.take L).length = B.length := by rw [List.length_take]; omega
        have h1 := read_mid_chunk P listSrc (initValid ⟨B, []⟩ L key hk) L (B.take L) pt _ ctr' hrd
          (by omega) (by show _ < L; omega) (by omega) hc
        have hd : B.drop L = [] := List.drop_eq_nil_of_le (by omega)
        have h2 := read_at_eof P listSrc ((initValid ⟨B, []⟩ L key hk).adv ⟨B.drop L, []⟩ (B.take L) ctr') L
          ⟨[], []⟩ (by show L - (B.take L).length ≠ 0; omega) h0
          (by show listSrc.rd ⟨B.drop L, []⟩ _ = _; rw [hd]; simp [listSrc, listRd])
        rw [drain, h1]
        simp only
        rw [drain, h2]
      · -- the payload is there, the code is cut
        have hlen : (B.take L).length = L := by rw [List.length_take]; omega
        obtain ⟨s', e⟩ := readExact_list_short (B.drop L) [] AUTH_CODE_LENGTH
          (by rw [List.length_drop]; show _ < 10; omega)
        have h1 := read_last_chunk_err P listSrc (initValid ⟨B, []⟩ L key hk) L (B.take L) pt _ s' ctr' _ hrd
          (by omega) (by show _ = L; omega) (by omega) rfl hc e
        rw [drain, h1]

/-- Payload and code are there, the code is not the HMAC of the payload: `InvalidData`. -/
theorem drainLL_bad (h : L + 10 ≤ B.length)
    (hne : (P.hmac hk (B.take L)).take AUTH_CODE_LENGTH ≠ (B.drop L).take AUTH_CODE_LENGTH) :
    (drain P listSrc [L, L] (initValid ⟨B, []⟩ L key hk) []).1 = .err (.io .invalidData) := by
  have hI := initValid_inv P (⟨B, []⟩ : ListSrc) L key hk
  by_cases h0 : L = 0
  · subst h0
    have e := readExact_list_nil B AUTH_CODE_LENGTH (by show 10 ≤ _; omega)
    have := read_empty_bad P listSrc (initValid ⟨B, []⟩ 0 key hk) 0 _ _ rfl rfl e
      (by simpa [initValid] using hne)
    rw [drain, this]
  · have hrd : listSrc.rd (initValid (⟨B, []⟩ : ListSrc) L key hk).inner
        (min (initValid (⟨B, []⟩ : ListSrc) L key hk).dataRemaining L) = (.ok (B.take L), ⟨B.drop L, []⟩) := by
      show listSrc.rd ⟨B, []⟩ (min L L) = _
      rw [Nat.min_self]; rfl
    obtain ⟨pt, ctr', hc, _, _, _, _⟩ := crypt_ok P hW hL hI (B.take L)
      (by rw [List.length_take]; exact Nat.min_le_left _ _)
    have hc : cryptInPlace P (initValid (⟨B, []⟩ : ListSrc) L key hk).key
        (initValid (⟨B, []⟩ : ListSrc) L key hk).ctr (B.take L) = .ok (pt, ctr') := hc
    have hlen : (B.take L).length = L := by rw [List.length_take]; omega
    have e := readExact_list_nil (B.drop L) AUTH_CODE_LENGTH (by rw [List.length_drop]; show 10 ≤ _; omega)
    have h1 := read_last_chunk_bad P listSrc (initValid ⟨B, []⟩ L key hk) L (B.take L) pt _ _ _ ctr' hrd
      (by omega) (by show _ = L; omega) (by omega) rfl hc e (by simpa [initValid] using hne)
    rw [drain, h1]

/-- Payload and code are there and the code is right: the decryption of the payload. -/
theorem drainLL_ok (h : L + 10 ≤ B.length)
    (heq : (P.hmac hk (B.take L)).take AUTH_CODE_LENGTH = (B.drop L).take AUTH_CODE_LENGTH) :
    ∃ pt ctr', cryptBytes P key CtrState.new (B.take L) = .ok (pt, ctr') ∧
      (drain P listSrc [L, L] (initValid ⟨B, []⟩ L key hk) []).1 = .ok pt := by
  have hI := initValid_inv P (⟨B, []⟩ : ListSrc) L key hk
  by_cases h0 : L = 0
  · subst h0
    have e := readExact_list_nil B AUTH_CODE_LENGTH (by show 10 ≤ _; omega)
    have h1 := read_empty_ok P listSrc (initValid ⟨B, []⟩ 0 key hk) 0 _ _ rfl rfl e
      (by simpa [initValid] using heq)
    have h2 := read_done P listSrc ((initValid (⟨B, []⟩ : ListSrc) 0 key hk).emp2 P
      ⟨B.drop AUTH_CODE_LENGTH, []⟩ (B.take AUTH_CODE_LENGTH)) 0 rfl rfl
    refine ⟨[], CtrState.new, by simp [cryptBytes], ?_⟩
    rw [drain, h1]
    simp only
    rw [drain, h2]
    simp [drain]
  · have hrd : listSrc.rd (initValid (⟨B, []⟩ : ListSrc) L key hk).inner
        (min (initValid (⟨B, []⟩ : ListSrc) L key hk).dataRemaining L) = (.ok (B.take L), ⟨B.drop L, []⟩) := by
      show listSrc.rd ⟨B, []⟩ (min L L) = _
      rw [Nat.min_self]; rfl
    obtain ⟨pt, ctr', hc, hcb, _, _, _⟩ := crypt_ok P hW hL hI (B.take L)
      (by rw [List.length_take]; exact Nat.min_le_left _ _)
    have hc : cryptInPlace P (initValid (⟨B, []⟩ : ListSrc) L key hk).key
        (initValid (⟨B, []⟩ : ListSrc) L key hk).ctr (B.take L) = .ok (pt, ctr') := hc
    have hlen : (B.take L).length = L := by rw [List.length_take]; omega
    have e := readExact_list_nil (B.drop L) AUTH_CODE_LENGTH (by rw [List.length_drop]; show 10 ≤ _; omega)
    have h1 := read_last_chunk_ok P listSrc (initValid ⟨B, []⟩ L key hk) L (B.take L) pt _ _ _ ctr' hrd
      (by omega) (by show _ = L; omega) (by omega) rfl hc e (by simpa [initValid] using heq)
    have h2 := read_done P listSrc ((initValid (⟨B, []⟩ : ListSrc) L key hk).fin2 P
      ⟨(B.drop L).drop AUTH_CODE_LENGTH, []⟩ (B.take L) ctr' ((B.drop L).take AUTH_CODE_LENGTH)) L
      (by show L - (B.take L).length = 0; omega) rfl
    refine ⟨pt, ctr', hcb, ?_⟩
    rw [drain, h1]
    simp only
    rw [drain, h2]
    simp [drain]

end

/-! ### a source that holds too little never reaches a successful end-of-file -/

/-- The reader has not compared a code yet, and what its byte-list source still holds is less than the
outstanding payload plus the code. -/
def TruncOk (P : AesPrims) (L : Nat) (v : Valid ListSrc) : Prop :=
  Inv P L v ∧ v.finalized = false ∧ v.inner.data.length < v.dataRemaining + AUTH_CODE_LENGTH

theorem truncOk_stable (P : AesPrims) (hW : P.WF) {L : Nat} (hL : L < U64) :
    OkStable P listSrc L (TruncOk P L) := by
  refine ⟨?_, fun v h => h.1⟩
  intro v n out v' ⟨hI, hnf, hlt⟩ hr
  have sp := read_spec P hW listSrc hL v hI n
  rw [hr] at sp
  obtain ⟨bs0, hct0, _, hb0, hrem0, _, _, _, _, _⟩ := sp.ok out rfl
  have hrem0 : v'.dataRemaining = v.dataRemaining - bs0.length := hrem0
  have hct0 : v'.ghostCt = v.ghostCt ++ bs0 := hct0
  have hb0 : bs0.length ≤ v.dataRemaining := hb0
  by_cases hp : 0 < v.dataRemaining
  · obtain ⟨bs, s', hrd, hct, hne, hlast⟩ := sp.src out rfl hp
    have hct : v'.ghostCt = v.ghostCt ++ bs := hct
    have hne : v'.dataRemaining ≠ 0 → v'.inner = s' := hne
    have hbb : bs0 = bs := List.append_cancel_left (hct0.symm.trans hct)
    subst hbb
    cases hvi : v.inner with
    | mk d sc =>
    rw [hvi] at hrd hlt
    obtain ⟨cap, _, _, hc3⟩ := listRd_eq d sc (min v.dataRemaining n)
    rw [hc3] at hrd
    simp only [Prod.mk.injEq, RdRes.ok.injEq] at hrd
    obtain ⟨hbs, hs'⟩ := hrd
    have hbl : bs0.length = min cap d.length := by rw [← hbs]; exact List.length_take
    have hlt : d.length < v.dataRemaining + AUTH_CODE_LENGTH := hlt
    by_cases hr0 : v'.dataRemaining = 0
    · exfalso
      obtain ⟨code0, hre, _⟩ := hlast hr0
      rw [← hs'] at hre
      obtain ⟨s3, e3⟩ := readExact_list_short (d.drop cap) sc.tail AUTH_CODE_LENGTH
        (by rw [List.length_drop]; omega)
      rw [e3] at hre
      cases hre
    · refine ⟨sp.inv, ?_, ?_⟩
      · cases hf : v'.finalized with
        | false => rfl
        | true => exact absurd (sp.inv.fin hf) hr0
      · rw [hne hr0, ← hs']
        show (d.drop cap).length < _
        rw [List.length_drop]
        omega
  · exfalso
    have h0 : v.dataRemaining = 0 := by omega
    obtain ⟨_, code0, hre, _⟩ := sp.emp out rfl h0 hnf
    have hre : readExact listSrc v.inner AUTH_CODE_LENGTH = (.ok code0, v'.inner) := hre
    cases hvi : v.inner with
    | mk d sc =>
    rw [hvi] at hre hlt
    obtain ⟨s3, e3⟩ := readExact_list_short d sc AUTH_CODE_LENGTH (by
      have : d.length < v.dataRemaining + AUTH_CODE_LENGTH := hlt
      omega)
    rw [e3] at hre
    cases hre

theorem truncOk_init (P : AesPrims) (L : Nat) (B : Bytes) (sc : List Nat) (key hk : Bytes)
    (h : B.length < L + AUTH_CODE_LENGTH) : TruncOk P L (initValid ⟨B, sc⟩ L key hk) :=
  ⟨initValid_inv P _ L key hk, rfl, h⟩

/-- **A truncated AES entry never reads to a successful end-of-file** - AES layer: any short-read schedule,
any caller buffers. -/
theorem truncated_no_eof (P : AesPrims) (hW : P.WF) {L : Nat} (hL : L < U64) (B : Bytes) (sc : List Nat)
    (key hk : Bytes) (h : B.length < L + AUTH_CODE_LENGTH) (bufs : List Nat) (out : Bytes) (v1 v2 : Valid ListSrc)
    (hrun : drain P listSrc bufs (initValid ⟨B, sc⟩ L key hk) [] = (.ok out, v1)) (n : Nat) (hn : 0 < n)
    (heof : Valid.read P listSrc v1 n = (.ok [], v2)) : False := by
  have hQ := truncOk_stable P hW hL
  have h1 : ∀ (bufs : List Nat) (v v1 : Valid ListSrc) (acc out : Bytes), TruncOk P L v →
      drain P listSrc bufs v acc = (.ok out, v1) → TruncOk P L v1 := by
    intro bufs
    induction bufs with
    | nil =>
      intro v v1 acc out hq hd
      simp only [drain, Prod.mk.injEq] at hd
      rw [← hd.2]; exact hq
    | cons m ms ih =>
      intro v v1 acc out hq hd
      unfold drain at hd
      cases hr : Valid.read P listSrc v m with
      | mk r v' =>
      rw [hr] at hd
      cases r with
      | ok o => exact ih _ _ _ _ (hQ.step _ _ _ _ hq hr) hd
      | err e => simp at hd
      | panic m => simp at hd
  have hq1 := h1 bufs _ v1 [] out (truncOk_init P L B sc key hk h) hrun
  have hq2 := hQ.step _ _ _ _ hq1 heof
  have := eof_finalized P hW listSrc hL hq1.1 hn heof
  rw [hq2.2.1] at this
  cases this

/-- … nor at the level of `ZipFile::read`, for any decoder on top and with `finish_crypto`. -/
theorem truncated_no_eof_entry {δ H} (P : AesPrims) (hW : P.WF) {L : Nat} (hL : L < U64) (B : Bytes)
    (sc : List Nat) (key hk : Bytes) (h : B.length < L + AUTH_CODE_LENGTH) (compressing : Bool) (D : Decoder δ)
    (hD : D.Faithful) (hS : compressing = false → D.StoredLike) (upd : H → Bytes → H) (fin : H → UInt32)
    (d0 : δ) (c0 : CrcSt H) (bufs : List Nat) (out : Bytes) (st1 st2 : EntrySt ListSrc δ H)
    (hrun : entryDrain P listSrc D compressing upd fin bufs ⟨d0, initValid ⟨B, sc⟩ L key hk, c0⟩ [] = (.ok out, st1))
    (n : Nat) (hn : 0 < n) (heof : entryRead P listSrc D compressing upd fin st1 n = (.ok [], st2)) : False := by
  have hQ := truncOk_stable P hW hL
  have h1 := entryDrain_ok P hW listSrc hL hQ D hD compressing upd fin bufs _ st1 [] out
    (truncOk_init P L B sc key hk h) hrun
  obtain ⟨hq2, hz⟩ := entryRead_ok P hW listSrc hL hQ D hD compressing upd fin st1 st2 n [] h1 heof
  have hrf : st2.aes.dataRemaining = 0 ∧ st2.aes.finalized = true := by
    cases compressing with
    | true => exact hz rfl rfl hn
    | false => exact entryRead_stored_eof P hW listSrc hL hQ D (hS rfl) upd fin st1 st2 n hn h1 heof
  rw [hq2.2.1] at hrf
  cases hrf.2

end ZipVerif.Model.Aes
