import ZipVerif.Lemmas.Aes
/-
Helper lemmas for C16 (part 2): `read_exact`, the invariant of `AesReaderValid::read`.
-/

namespace ZipVerif.Model.Aes
open ZipVerif

/-! ### `read_exact` -/

theorem readExactAux_no_panic {σ} (S : Src σ) (hC : S.Contract) :
    ∀ (f : Nat) (s : σ) (need : Nat) (acc : Bytes), need ≤ f →
      ∀ m, (readExactAux S f s need acc).1 ≠ .panic m := by
  intro f
  induction f with
  | zero =>
    intro s need acc h m
    have : need = 0 := by omega
    subst this
    simp [readExactAux]
  | succ f ih =>
    intro s need acc h m
    cases need with
    | zero => simp [readExactAux]
    | succ need =>
      unfold readExactAux
      cases hrd : S.rd s (need + 1) with
      | mk res s' =>
        cases res with
        | err k => simp
        | ok bs =>
          have hc := hC _ _ _ _ hrd
          simp only
          split
          · simp
          · split
            · omega
            · exact ih _ _ _ (by omega) m

theorem readExact_no_panic {σ} (S : Src σ) (hC : S.Contract) (s : σ) (n : Nat) (m : String) :
    (readExact S s n).1 ≠ .panic m :=
  readExactAux_no_panic S hC n s n [] (Nat.le_refl _) m

theorem readExactAux_length {σ} (S : Src σ) :
    ∀ (f : Nat) (s : σ) (need : Nat) (acc out : Bytes) (s' : σ),
      readExactAux S f s need acc = (.ok out, s') → out.length = acc.length + need := by
  intro f
  induction f with
  | zero =>
    intro s need acc out s' h
    cases need with
    | zero => simp only [readExactAux] at h; cases h; rfl
    | succ need => simp [readExactAux] at h
  | succ f ih =>
    intro s need acc out s' h
    cases need with
    | zero => simp only [readExactAux] at h; cases h; rfl
    | succ need =>
      unfold readExactAux at h
      cases hrd : S.rd s (need + 1) with
      | mk res s1 =>
        rw [hrd] at h
        cases res with
        | err k => simp at h
        | ok bs =>
          simp only at h
          split at h
          · simp at h
          · split at h
            · simp at h
            · have := ih _ _ _ _ _ h
              rw [this, List.length_append]; omega

theorem readExact_length {σ} (S : Src σ) {s s' : σ} {n : Nat} {out : Bytes}
    (h : readExact S s n = (.ok out, s')) : out.length = n := by
  have := readExactAux_length S n s n [] out s' h
  simpa using this

/-! ### the invariant -/

/-- Invariant of `AesReaderValid` for an entry with `L` ciphertext bytes (stated on the fields, the
inner reader is not mentioned). -/
structure Inv (P : AesPrims) (L : Nat) {σ} (v : Valid σ) : Prop where
  len : v.ghostCt.length + v.dataRemaining = L
  good : v.ctr.Good
  ctrpos : 16 * v.ctr.counter + v.ctr.pos = 32 + v.ghostCt.length
  notfin : v.finalized = false → v.hmacMsg = v.ghostCt ∧ v.ghostMac = none
  fin : v.finalized = true → v.dataRemaining = 0
  finAt : v.dataRemaining = 0 → 0 < L → v.finalized = true
  mac : ∀ c s, v.ghostMac = some (c, s) →
    c = (P.hmac v.hmacKey v.ghostCt).take AUTH_CODE_LENGTH ∧ s.length = AUTH_CODE_LENGTH ∧
      v.finalized = true

theorem Inv.setInner {P : AesPrims} {L : Nat} {σ} {v : Valid σ} (h : Inv P L v) (s : σ) :
    Inv P L { v with inner := s } :=
  ⟨h.len, h.good, h.ctrpos, h.notfin, h.fin, h.finAt, h.mac⟩

/-- From a state satisfying the invariant the cipher cannot overflow its `u128` counter. -/
theorem crypt_ok (P : AesPrims) (hW : P.WF) {L : Nat} (hL : L < U64) {σ} {v : Valid σ}
    (hI : Inv P L v) (bs : Bytes) (hb : bs.length ≤ v.dataRemaining) :
    ∃ pt ctr', cryptInPlace P v.key v.ctr bs = .ok (pt, ctr') ∧
      cryptBytes P v.key v.ctr bs = .ok (pt, ctr') ∧ pt.length = bs.length ∧
      ctr'.Good ∧ 16 * ctr'.counter + ctr'.pos = 32 + (v.ghostCt ++ bs).length := by
  have h1 := hI.len
  have h2 := hI.ctrpos
  have h3 := hI.good.1
  obtain ⟨st', e, g, c⟩ := cryptBytes_closed P v.key hW v.ctr bs (bs.length / 16 + 1) hI.good
    (by omega) (by unfold U64 at hL; unfold U128; omega)
  refine ⟨_, st', ?_, e, ?_, g, ?_⟩
  · rw [cryptInPlace_eq_bytes P v.key hW hI.good, e]
  · rw [xorBytes_length, List.length_append, List.length_drop, ksBlocks_length P v.key hW, hI.good.2]
    omega
  · rw [List.length_append]; omega

/-- state after a data chunk that is not the last one -/
def Valid.adv {σ} (v : Valid σ) (s : σ) (bs : Bytes) (c : CtrState) : Valid σ :=
  { v with inner := s, dataRemaining := v.dataRemaining - bs.length, hmacMsg := v.hmacMsg ++ bs, ghostCt := v.ghostCt ++ bs, ctr := c }

/-- state after the last chunk when reading the code failed -/
def Valid.fin1 {σ} (v : Valid σ) (s : σ) (bs : Bytes) (c : CtrState) : Valid σ :=
  { v with inner := s, dataRemaining := v.dataRemaining - bs.length, hmacMsg := v.hmacMsg ++ bs, ghostCt := v.ghostCt ++ bs, ctr := c, finalized := true }

/-- state after the last chunk and the comparison of the codes -/
def Valid.fin2 {σ} (P : AesPrims) (v : Valid σ) (s : σ) (bs : Bytes) (c : CtrState) (code : Bytes) : Valid σ :=
  { v with inner := s, dataRemaining := v.dataRemaining - bs.length, hmacMsg := [], ghostCt := v.ghostCt ++ bs, ctr := c, finalized := true, ghostMac := some ((P.hmac v.hmacKey (v.hmacMsg ++ bs)).take AUTH_CODE_LENGTH, code) }

/-- an entry without ciphertext: state after a failed read of its code -/
def Valid.emp1 {σ} (v : Valid σ) (s : σ) : Valid σ :=
  { v with finalized := true, inner := s }

/-- an entry without ciphertext: state after its code has been read and compared -/
def Valid.emp2 {σ} (P : AesPrims) (v : Valid σ) (s : σ) (code : Bytes) : Valid σ :=
  { v with finalized := true, inner := s, hmacMsg := [], ghostMac := some ((P.hmac v.hmacKey v.hmacMsg).take AUTH_CODE_LENGTH, code) }

/-- What one `read` call does, from a state satisfying the invariant. -/
structure ReadSpec (P : AesPrims) {σ} (S : Src σ) (L : Nat) (v : Valid σ) (n : Nat)
    (r : Out Bytes × Valid σ) : Prop where
  inv : Inv P L r.2
  key : r.2.key = v.key
  hkey : r.2.hmacKey = v.hmacKey
  /-- a successful call: the bytes pulled from the inner reader, decrypted at the right offset -/
  ok : ∀ out, r.1 = .ok out → ∃ bs, r.2.ghostCt = v.ghostCt ++ bs ∧ bs.length ≤ n ∧
    bs.length ≤ v.dataRemaining ∧ r.2.dataRemaining = v.dataRemaining - bs.length ∧
    cryptBytes P v.key v.ctr bs = .ok (out, r.2.ctr) ∧ out.length = bs.length ∧
    (0 < n → 0 < v.dataRemaining → 0 < bs.length) ∧
    (v.dataRemaining = 0 → v.finalized = true → r.2 = v) ∧
    (r.2.finalized = true → v.finalized = false → ∃ c, r.2.ghostMac = some (c, c))
  /-- an error leaves everything the caller got so far as it was (nothing is returned) -/
  panic : ∀ m, r.1 = .panic m →
    (∃ bs s', S.rd v.inner (min v.dataRemaining n) = (.ok bs, s') ∧ min v.dataRemaining n < bs.length) ∨
    (∃ s m', (readExact S s AUTH_CODE_LENGTH).1 = .panic m')
  /-- the early-EOF branch -/
  eof : ∀ s', 0 < v.dataRemaining → 0 < n → S.rd v.inner (min v.dataRemaining n) = (.ok [], s') →
    r.1 = .err (.io .unexpectedEof)
  /-- where an error can come from -/
  err : ∀ e, r.1 = .err e →
    (∃ k s', S.rd v.inner (min v.dataRemaining n) = (.err k, s')) ∨
    (∃ s', S.rd v.inner (min v.dataRemaining n) = (.ok [], s') ∧ 0 < v.dataRemaining ∧ 0 < n) ∨
    (∃ bs s' s'', S.rd v.inner (min v.dataRemaining n) = (.ok bs, s') ∧
        bs.length = v.dataRemaining ∧ 0 < bs.length ∧
        ((∃ e', readExact S s' AUTH_CODE_LENGTH = (.err e', s'')) ∨
         (∃ code, readExact S s' AUTH_CODE_LENGTH = (.ok code, s'') ∧
            (P.hmac v.hmacKey (v.ghostCt ++ bs)).take AUTH_CODE_LENGTH ≠ code))) ∨
    (v.dataRemaining = 0 ∧ v.finalized = false ∧ ∃ s'',
        ((∃ e', readExact S v.inner AUTH_CODE_LENGTH = (.err e', s'')) ∨
         (∃ code, readExact S v.inner AUTH_CODE_LENGTH = (.ok code, s'') ∧
            (P.hmac v.hmacKey v.ghostCt).take AUTH_CODE_LENGTH ≠ code)))
  /-- an entry without ciphertext: the first successful call is the one that read and compared the code -/
  emp : ∀ out, r.1 = .ok out → v.dataRemaining = 0 → v.finalized = false →
    r.2.finalized = true ∧ ∃ code, readExact S v.inner AUTH_CODE_LENGTH = (.ok code, r.2.inner) ∧
      ∃ c, r.2.ghostMac = some (c, code)
  /-- where the bytes come from and where the inner reader is left -/
  src : ∀ out, r.1 = .ok out → 0 < v.dataRemaining →
    ∃ bs s', S.rd v.inner (min v.dataRemaining n) = (.ok bs, s') ∧ r.2.ghostCt = v.ghostCt ++ bs ∧
      (r.2.dataRemaining ≠ 0 → r.2.inner = s') ∧
      (r.2.dataRemaining = 0 → ∃ code, readExact S s' AUTH_CODE_LENGTH = (.ok code, r.2.inner) ∧
        ∃ c, r.2.ghostMac = some (c, code))

theorem read_spec (P : AesPrims) (hW : P.WF) {σ} (S : Src σ) {L : Nat} (hL : L < U64)
    (v : Valid σ) (hI : Inv P L v) (n : Nat) : ReadSpec P S L v n (Valid.read P S v n) := by
  by_cases h0 : v.dataRemaining = 0
  · cases hf : v.finalized with
    | true =>
      have hr : Valid.read P S v n = (.ok [], v) := by
        unfold Valid.read; rw [if_pos h0, hf]; rfl
      rw [hr]
      refine ⟨hI, rfl, rfl, ?_, ?_, ?_, ?_, ?_, ?_⟩
      · intro out ho; cases ho
        exact ⟨[], by simp, by simp, by simp, by simp, by simp [cryptBytes], rfl, by omega,
          fun _ _ => rfl, fun a b => by rw [a] at b; cases b⟩
      · intro m hm; cases hm
      · intro s' hp; omega
      · intro e he; cases he
      · intro out _ _ hnf; rw [hf] at hnf; cases hnf
      · intro out _ hp; omega
    | false =>
      obtain ⟨hmsg, hmac⟩ := hI.notfin hf
      cases hre : readExact S v.inner AUTH_CODE_LENGTH with
      | mk res s'' =>
      have hinv1 : Inv P L (v.emp1 s'') :=
        ⟨hI.len, hI.good, hI.ctrpos, (fun h => by cases h), (fun _ => h0), (fun _ _ => rfl),
          (fun c s h => by have h' : v.ghostMac = some (c, s) := h; rw [hmac] at h'; cases h')⟩
      cases res with
      | err e =>
        have hr : Valid.read P S v n = (.err e, v.emp1 s'') := by
          unfold Valid.read; rw [if_pos h0, hf]; simp only [Bool.false_eq_true, if_false, hre]
          try rfl
        rw [hr]
        refine ⟨hinv1, rfl, rfl, ?_, ?_, ?_, ?_, ?_, ?_⟩
        · intro out ho; cases ho
        · intro m hm; cases hm
        · intro s' hp; omega
        · intro e' _; exact Or.inr (Or.inr (Or.inr ⟨h0, hf, s'', Or.inl ⟨e, hre⟩⟩))
        · intro out ho; cases ho
        · intro out ho; cases ho
      | panic m =>
        have hr : Valid.read P S v n = (.panic m, v.emp1 s'') := by
          unfold Valid.read; rw [if_pos h0, hf]; simp only [Bool.false_eq_true, if_false, hre]
          try rfl
        rw [hr]
        refine ⟨hinv1, rfl, rfl, ?_, ?_, ?_, ?_, ?_, ?_⟩
        · intro out ho; cases ho
        · intro m' _; exact Or.inr ⟨v.inner, m, by rw [hre]⟩
        · intro s' hp; omega
        · intro e he; cases he
        · intro out ho; cases ho
        · intro out ho; cases ho
      | ok code =>
        have hcl := readExact_length S hre
        have hinv2 : Inv P L (v.emp2 P s'' code) := by
          refine ⟨hI.len, hI.good, hI.ctrpos, (fun h => by cases h), (fun _ => h0), (fun _ _ => rfl), ?_⟩
          intro c s h
          have h' : some ((P.hmac v.hmacKey v.hmacMsg).take AUTH_CODE_LENGTH, code) = some (c, s) := h
          simp only [Option.some.injEq, Prod.mk.injEq] at h'
          obtain ⟨rfl, rfl⟩ := h'
          exact ⟨by show _ = (P.hmac v.hmacKey v.ghostCt).take AUTH_CODE_LENGTH; rw [hmsg], hcl, rfl⟩
        by_cases hcmp : (P.hmac v.hmacKey v.hmacMsg).take AUTH_CODE_LENGTH ≠ code
        · have hr : Valid.read P S v n = (.err (.io .invalidData), v.emp2 P s'' code) := by
            unfold Valid.read; rw [if_pos h0, hf]; simp only [Bool.false_eq_true, if_false, hre]
            rw [if_pos hcmp]
            try rfl
          rw [hr]
          refine ⟨hinv2, rfl, rfl, ?_, ?_, ?_, ?_, ?_, ?_⟩
          · intro out ho; cases ho
          · intro m hm; cases hm
          · intro s' hp; omega
          · intro e' _
            exact Or.inr (Or.inr (Or.inr ⟨h0, hf, s'', Or.inr ⟨code, hre, by rw [← hmsg]; exact hcmp⟩⟩))
          · intro out ho; cases ho
          · intro out ho; cases ho
        · have hr : Valid.read P S v n = (.ok [], v.emp2 P s'' code) := by
            unfold Valid.read; rw [if_pos h0, hf]; simp only [Bool.false_eq_true, if_false, hre]
            rw [if_neg hcmp]
            try rfl
          have heq : (P.hmac v.hmacKey v.hmacMsg).take AUTH_CODE_LENGTH = code :=
            Classical.byContradiction hcmp
          rw [hr]
          refine ⟨hinv2, rfl, rfl, ?_, ?_, ?_, ?_, ?_, ?_⟩
          · intro out ho; cases ho
            refine ⟨[], by simp [Valid.emp2], by simp, by simp, by simp [Valid.emp2], by simp [cryptBytes, Valid.emp2], rfl,
              by omega, (fun _ h => by rw [hf] at h; cases h), ?_⟩
            intro _ _
            exact ⟨code, by show some _ = some _; rw [heq]⟩
          · intro m hm; cases hm
          · intro s' hp; omega
          · intro e he; cases he
          · intro out _ _ _
            exact ⟨rfl, code, hre, _, rfl⟩
          · intro out _ hp; omega
  · cases hrd : S.rd v.inner (min v.dataRemaining n) with
    | mk res s' =>
    cases res with
    | err k =>
      have hr : Valid.read P S v n = (.err (.io k), { v with inner := s' }) := by
        unfold Valid.read; rw [if_neg h0]; simp only [hrd]
      rw [hr]
      refine ⟨hI.setInner s', rfl, rfl, ?_, ?_, ?_, ?_, ?_, ?_⟩
      · intro out ho; cases ho
      · intro m hm; cases hm
      · intro s'' _ _ h; rw [hrd] at h; cases h
      · intro e _; exact Or.inl ⟨k, s', hrd⟩
      · intro out _ h0' _; exact absurd h0' h0
      · intro out ho; cases ho
    | ok bs =>
      by_cases hz : bs.length = 0 ∧ min v.dataRemaining n ≠ 0
      · have hr : Valid.read P S v n = (.err (.io .unexpectedEof), { v with inner := s' }) := by
          unfold Valid.read; rw [if_neg h0]; simp only [hrd]; rw [if_pos hz]
        rw [hr]
        refine ⟨hI.setInner s', rfl, rfl, ?_, ?_, ?_, ?_, ?_, ?_⟩
        · intro out ho; cases ho
        · intro m hm; cases hm
        · intro _ _ _ _; rfl
        · intro e _
          have hb : bs = [] := List.eq_nil_of_length_eq_zero hz.1
          subst hb
          exact Or.inr (Or.inl ⟨s', hrd, by omega, by omega⟩)
        · intro out _ h0' _; exact absurd h0' h0
        · intro out ho; cases ho
      · by_cases hov : bs.length > v.dataRemaining
        · have hr : Valid.read P S v n =
              (.panic "attempt to subtract with overflow (data_remaining)", { v with inner := s' }) := by
            unfold Valid.read; rw [if_neg h0]; simp only [hrd]; rw [if_neg hz, if_pos hov]
          rw [hr]
          refine ⟨hI.setInner s', rfl, rfl, ?_, ?_, ?_, ?_, ?_, ?_⟩
          · intro out ho; cases ho
          · intro m _; exact Or.inl ⟨bs, s', hrd, by omega⟩
          · intro s'' hp hn h; rw [hrd] at h; cases h; simp at hov
          · intro e he; cases he
          · intro out _ h0' _; exact absurd h0' h0
          · intro out ho; cases ho
        · by_cases hsl : bs.length > n
          · have hr : Valid.read P S v n =
                (.panic "range end index out of range for slice (buf[0..read])", { v with inner := s' }) := by
              unfold Valid.read; rw [if_neg h0]; simp only [hrd]; rw [if_neg hz, if_neg hov, if_pos hsl]
            rw [hr]
            refine ⟨hI.setInner s', rfl, rfl, ?_, ?_, ?_, ?_, ?_, ?_⟩
            · intro out ho; cases ho
            · intro m _; exact Or.inl ⟨bs, s', hrd, by omega⟩
            · intro s'' hp hn h; rw [hrd] at h; cases h; simp at hsl
            · intro e he; cases he
            · intro out _ h0' _; exact absurd h0' h0
            · intro out ho; cases ho
          · -- the data chunk is accepted
            obtain ⟨pt, ctr', hc, hcb, hpl, hg', hcp⟩ := crypt_ok P hW hL hI bs (by omega)
            have hlen := hI.len
            have hnf : v.finalized = false := by
              cases hf : v.finalized with
              | false => rfl
              | true => exact absurd (hI.fin hf) h0
            obtain ⟨hmsg, hmac⟩ := hI.notfin hnf
            have hpos : 0 < n → 0 < v.dataRemaining → 0 < bs.length := by
              intro h1 h2
              cases Nat.eq_zero_or_pos bs.length with
              | inl h => exact absurd ⟨h, by omega⟩ hz
              | inr h => exact h
            have heof : ∀ s'' : σ, 0 < v.dataRemaining → 0 < n →
                (RdRes.ok bs, s') = (RdRes.ok [], s'') → False := by
              intro s'' h1 h2 h; cases h; exact absurd (hpos h2 h1) (by simp)
            by_cases hrem : v.dataRemaining - bs.length = 0
            · -- last chunk: finalize
              cases hre : readExact S s' AUTH_CODE_LENGTH with
              | mk res2 s'' =>
              have hfin : ∀ (out2 : Out Bytes),
                  Inv P L (v.fin1 s'' bs ctr') := by
                intro _
                refine ⟨by show (v.ghostCt ++ bs).length + (v.dataRemaining - bs.length) = L; rw [List.length_append]; omega,
                  hg', hcp, ?_, fun _ => hrem, fun _ _ => rfl, ?_⟩
                · intro h; cases h
                · intro c s h; have h' : v.ghostMac = some (c, s) := h; rw [hmac] at h'; cases h'
              cases res2 with
              | err e =>
                have hr : Valid.read P S v n = (.err e,
                    (v.fin1 s'' bs ctr')) := by
                  unfold Valid.read; rw [if_neg h0]; simp only [hrd]
                  rw [if_neg hz, if_neg hov, if_neg hsl]; simp only [hc]
                  rw [if_pos hrem, hnf]; simp only [Bool.false_eq_true, if_false, hre]
                  try rfl
                rw [hr]
                refine ⟨hfin (.err e), rfl, rfl, ?_, ?_, ?_, ?_, ?_, ?_⟩
                · intro out ho; cases ho
                · intro m hm; cases hm
                · intro s3 h1 h2 h; exact (heof s3 h1 h2 (hrd ▸ h)).elim
                · intro e' _; exact Or.inr (Or.inr (Or.inl ⟨bs, s', s'', hrd, by omega, by omega, Or.inl ⟨e, hre⟩⟩))
                · intro out _ h0' _; exact absurd h0' h0
                · intro out ho; cases ho
              | panic m =>
                have hr : Valid.read P S v n = (.panic m,
                    (v.fin1 s'' bs ctr')) := by
                  unfold Valid.read; rw [if_neg h0]; simp only [hrd]
                  rw [if_neg hz, if_neg hov, if_neg hsl]; simp only [hc]
                  rw [if_pos hrem, hnf]; simp only [Bool.false_eq_true, if_false, hre]
                  try rfl
                rw [hr]
                refine ⟨hfin (.panic m), rfl, rfl, ?_, ?_, ?_, ?_, ?_, ?_⟩
                · intro out ho; cases ho
                · intro m' _; exact Or.inr ⟨s', m, by rw [hre]⟩
                · intro s3 h1 h2 h; exact (heof s3 h1 h2 (hrd ▸ h)).elim
                · intro e he; cases he
                · intro out _ h0' _; exact absurd h0' h0
                · intro out ho; cases ho
              | ok code =>
                have hcl := readExact_length S hre
                have hinv5 : Inv P L (v.fin2 P s'' bs ctr' code) := by
                  refine ⟨by show (v.ghostCt ++ bs).length + (v.dataRemaining - bs.length) = L; rw [List.length_append]; omega,
                    hg', hcp, ?_, fun _ => hrem, fun _ _ => rfl, ?_⟩
                  · intro h; cases h
                  · intro c s h
                    have h' : some ((P.hmac v.hmacKey (v.hmacMsg ++ bs)).take AUTH_CODE_LENGTH, code) = some (c, s) := h
                    simp only [Option.some.injEq, Prod.mk.injEq] at h'
                    obtain ⟨rfl, rfl⟩ := h'
                    exact ⟨by show _ = (P.hmac v.hmacKey (v.ghostCt ++ bs)).take AUTH_CODE_LENGTH; rw [hmsg], hcl, rfl⟩
                by_cases hcmp : (P.hmac v.hmacKey (v.hmacMsg ++ bs)).take AUTH_CODE_LENGTH ≠ code
                · have hr : Valid.read P S v n = (.err (.io .invalidData),
                      (v.fin2 P s'' bs ctr' code)) := by
                    unfold Valid.read; rw [if_neg h0]; simp only [hrd]
                    rw [if_neg hz, if_neg hov, if_neg hsl]; simp only [hc]
                    rw [if_pos hrem, hnf]; simp only [Bool.false_eq_true, if_false, hre]
                    rw [if_pos hcmp]
                    try rfl
                  rw [hr]
                  refine ⟨hinv5, rfl, rfl, ?_, ?_, ?_, ?_, ?_, ?_⟩
                  · intro out ho; cases ho
                  · intro m hm; cases hm
                  · intro s3 h1 h2 h; exact (heof s3 h1 h2 (hrd ▸ h)).elim
                  · intro e' _; exact Or.inr (Or.inr (Or.inl ⟨bs, s', s'', hrd, by omega, by omega, Or.inr ⟨code, hre, by rw [← hmsg]; exact hcmp⟩⟩))
                  · intro out _ h0' _; exact absurd h0' h0
                  · intro out ho; cases ho
                · have hr : Valid.read P S v n = (.ok pt,
                      (v.fin2 P s'' bs ctr' code)) := by
                    unfold Valid.read; rw [if_neg h0]; simp only [hrd]
                    rw [if_neg hz, if_neg hov, if_neg hsl]; simp only [hc]
                    rw [if_pos hrem, hnf]; simp only [Bool.false_eq_true, if_false, hre]
                    rw [if_neg hcmp]
                    try rfl
                  rw [hr]
                  refine ⟨hinv5, rfl, rfl, ?_, ?_, ?_, ?_, ?_, ?_⟩
                  · intro out ho; cases ho
                    refine ⟨bs, rfl, by omega, by omega, rfl, hcb, hpl, hpos, fun h _ => absurd h h0, ?_⟩
                    intro _ _
                    have : (P.hmac v.hmacKey (v.hmacMsg ++ bs)).take AUTH_CODE_LENGTH = code :=
                      Classical.byContradiction hcmp
                    exact ⟨code, by show some _ = some _; rw [this]⟩
                  · intro m hm; cases hm
                  · intro s3 h1 h2 h; exact (heof s3 h1 h2 (hrd ▸ h)).elim
                  · intro e he; cases he
                  · intro out _ h0' _; exact absurd h0' h0
                  · intro out ho hp; exact ⟨bs, s', hrd, rfl, fun h => absurd hrem h, fun _ => ⟨code, hre, _, rfl⟩⟩
            · -- more data to come
              have hr : Valid.read P S v n = (.ok pt,
                  (v.adv s' bs ctr')) := by
                unfold Valid.read; rw [if_neg h0]; simp only [hrd]
                rw [if_neg hz, if_neg hov, if_neg hsl]; simp only [hc]
                rw [if_neg hrem]
                try rfl
              rw [hr]
              refine ⟨?_, rfl, rfl, ?_, ?_, ?_, ?_, ?_, ?_⟩
              · refine ⟨by show (v.ghostCt ++ bs).length + (v.dataRemaining - bs.length) = L; rw [List.length_append]; omega,
                  hg', hcp, ?_, ?_, ?_, ?_⟩
                · intro _; exact ⟨by show v.hmacMsg ++ bs = v.ghostCt ++ bs; rw [hmsg], hmac⟩
                · intro h; have h' : v.finalized = true := h; rw [hnf] at h'; cases h'
                · intro h; exact absurd h hrem
                · intro c s h; have h' : v.ghostMac = some (c, s) := h; rw [hmac] at h'; cases h'
              · intro out ho; cases ho
                refine ⟨bs, rfl, by omega, by omega, rfl, hcb, hpl, hpos, fun h _ => absurd h h0, ?_⟩
                intro h1 _; have h' : v.finalized = true := h1; rw [hnf] at h'; cases h'
              · intro m hm; cases hm
              · intro s3 h1 h2 h; exact (heof s3 h1 h2 (hrd ▸ h)).elim
              · intro e he; cases he
              · intro out _ h0' _; exact absurd h0' h0
              · intro out ho hp; exact ⟨bs, s', hrd, rfl, fun _ => rfl, fun h => absurd h hrem⟩

end ZipVerif.Model.Aes
