import ZipVerif.Lemmas.AesReader
/-
Helper lemmas for C16 (part 3): `validate`, runs of `read` calls.
-/

namespace ZipVerif.Model.Aes
open ZipVerif

/-- The reader `validate` hands out. -/
def initValid {σ} (s : σ) (L : Nat) (key hmacKey : Bytes) : Valid σ :=
  { inner := s, dataRemaining := L, key := key, ctr := CtrState.new, hmacKey := hmacKey, hmacMsg := [], finalized := false, ghostCt := [], ghostMac := none }

theorem initValid_inv (P : AesPrims) {σ} (s : σ) (L : Nat) (key hk : Bytes) :
    Inv P L (initValid s L key hk) := by
  refine ⟨by simp [initValid], ⟨Nat.le_refl _, by simp [initValid, CtrState.new]⟩, rfl, fun _ => ⟨rfl, rfl⟩, ?_, ?_, ?_⟩
  · intro h; cases h
  · intro h hL; simp only [initValid] at h; omega
  · intro c s h; cases h

/-- Everything `validate` can answer. -/
theorem validate_ok {σ} (P : AesPrims) (S : Src σ) (mode : AesMode) (dl : Option Nat) (s s' : σ)
    (pw : Bytes) (v : Valid σ) (h : validate P S mode dl s pw = (.ok (some v), s')) :
    ∃ L salt pvv s1, dl = some L ∧ readExact S s mode.saltLength = (.ok salt, s1) ∧
      readExact S s1 PWD_VERIFY_LENGTH = (.ok pvv, s') ∧
      pvv = (P.pbkdf2 pw salt (2 * mode.keyLength + 2)).drop (2 * mode.keyLength) ∧
      v = initValid s' L ((P.pbkdf2 pw salt (2 * mode.keyLength + 2)).take mode.keyLength)
            (((P.pbkdf2 pw salt (2 * mode.keyLength + 2)).drop mode.keyLength).take mode.keyLength) := by
  unfold validate at h
  cases dl with
  | none => simp at h
  | some L =>
    simp only at h
    cases h1 : readExact S s mode.saltLength with
    | mk r1 s1 =>
    rw [h1] at h
    cases r1 with
    | err e => simp at h
    | panic m => simp at h
    | ok salt =>
      simp only at h
      cases h2 : readExact S s1 PWD_VERIFY_LENGTH with
      | mk r2 s2 =>
      rw [h2] at h
      cases r2 with
      | err e => simp at h
      | panic m => simp at h
      | ok pvv =>
        simp only at h
        by_cases hp : pvv ≠ (P.pbkdf2 pw salt (2 * mode.keyLength + PWD_VERIFY_LENGTH)).drop (2 * mode.keyLength + PWD_VERIFY_LENGTH - 2)
        · rw [if_pos hp] at h; simp at h
        · rw [if_neg hp] at h
          by_cases hk : ((P.pbkdf2 pw salt (2 * mode.keyLength + PWD_VERIFY_LENGTH)).take mode.keyLength).length ≠ mode.keyLength
          · rw [if_pos hk] at h; simp at h
          · rw [if_neg hk] at h
            simp only [Prod.mk.injEq, Out.ok.injEq, Option.some.injEq] at h
            obtain ⟨hv, hs⟩ := h
            subst hs
            refine ⟨L, salt, pvv, s1, rfl, rfl, h2, ?_, hv.symm⟩
            have : pvv = (P.pbkdf2 pw salt (2 * mode.keyLength + 2)).drop (2 * mode.keyLength + 2 - 2) :=
              Classical.byContradiction hp
            simpa using this

/-- Facts carried along a run of successful `read` calls that started at `validate`'s reader. -/
structure RunInv (P : AesPrims) (L : Nat) (key hk : Bytes) {σ} (v : Valid σ) (acc : Bytes) : Prop where
  inv : Inv P L v
  keyEq : v.key = key
  hkeyEq : v.hmacKey = hk
  crypt : cryptBytes P key CtrState.new v.ghostCt = .ok (acc, v.ctr)
  passed : v.finalized = true → ∃ c, v.ghostMac = some (c, c)

theorem RunInv.init (P : AesPrims) {σ} (s : σ) (L : Nat) (key hk : Bytes) :
    RunInv P L key hk (initValid s L key hk) [] :=
  ⟨initValid_inv P s L key hk, rfl, rfl, rfl, fun h => by cases h⟩

theorem RunInv.step (P : AesPrims) (hW : P.WF) {σ} (S : Src σ) {L : Nat} (hL : L < U64)
    {key hk : Bytes} {v v' : Valid σ} {acc out : Bytes} (n : Nat)
    (hR : RunInv P L key hk v acc) (h : Valid.read P S v n = (.ok out, v')) :
    RunInv P L key hk v' (acc ++ out) := by
  have sp := read_spec P hW S hL v hR.inv n
  rw [h] at sp
  obtain ⟨bs, hct, _, _, _, hcr, _, _, hsame, hpass⟩ := sp.ok out rfl
  refine ⟨sp.inv, by rw [sp.key, hR.keyEq], by rw [sp.hkey, hR.hkeyEq], ?_, ?_⟩
  · show cryptBytes P key CtrState.new v'.ghostCt = _
    rw [hct, cryptBytes_append, hR.crypt]
    simp only [Out.bind_ok]
    rw [← hR.keyEq, hcr]
    rfl
  · intro hf
    cases hvf : v.finalized with
    | false => exact hpass hf hvf
    | true =>
      have : v' = v := hsame (hR.inv.fin hvf) hvf
      rw [this]
      exact hR.passed hvf

theorem drain_runInv (P : AesPrims) (hW : P.WF) {σ} (S : Src σ) {L : Nat} (hL : L < U64)
    {key hk : Bytes} : ∀ (bufs : List Nat) (v v1 : Valid σ) (acc out : Bytes),
    RunInv P L key hk v acc → drain P S bufs v acc = (.ok out, v1) → RunInv P L key hk v1 out := by
  intro bufs
  induction bufs with
  | nil =>
    intro v v1 acc out hR h
    simp only [drain, Prod.mk.injEq, Out.ok.injEq] at h
    obtain ⟨rfl, rfl⟩ := h
    exact hR
  | cons n ns ih =>
    intro v v1 acc out hR h
    unfold drain at h
    cases hr : Valid.read P S v n with
    | mk r v' =>
    rw [hr] at h
    cases r with
    | ok o =>
      simp only at h
      exact ih _ _ _ _ (hR.step P hW S hL n hr) h
    | err e => simp at h
    | panic m => simp at h

/-- A run never reports the panic of the `finalized` assertion, nor any other when the inner reader
keeps the `Read` contract. -/
theorem read_no_panic (P : AesPrims) (hW : P.WF) {σ} (S : Src σ) (hC : S.Contract) {L : Nat}
    (hL : L < U64) (v : Valid σ) (hI : Inv P L v) (n : Nat) (m : String) :
    (Valid.read P S v n).1 ≠ .panic m := by
  intro h
  have sp := read_spec P hW S hL v hI n
  cases sp.panic m h with
  | inl h1 =>
    obtain ⟨bs, s', hrd, hlt⟩ := h1
    have := hC _ _ _ _ hrd
    omega
  | inr h2 =>
    obtain ⟨s, m', hp⟩ := h2
    exact readExact_no_panic S hC s _ m' hp

end ZipVerif.Model.Aes
