import ZipVerif.Model.Align
import ZipVerif.Spec.Extra
/-
Helper lemmas for C17: `validate_extra_data` against the APPNOTE record grammar, the
`end_extra_data` step, and the closed form of `start_file_aligned`.
-/

namespace ZipVerif.Model.Align
open ZipVerif ZipVerif.Spec.Extra

/-- Decidable equality of outcomes (for `decide` on concrete model evaluations); written out under
its own name so that it cannot clash with a derived instance elsewhere. -/
instance outDecEq {α : Type} [DecidableEq α] : DecidableEq (Out α)
  | .ok a, .ok b => if h : a = b then isTrue (by rw [h]) else isFalse (fun e => h (Out.ok.inj e))
  | .err a, .err b => if h : a = b then isTrue (by rw [h]) else isFalse (fun e => h (Out.err.inj e))
  | .panic a, .panic b => if h : a = b then isTrue (by rw [h]) else isFalse (fun e => h (Out.panic.inj e))
  | .ok _, .err _ => isFalse (fun e => by cases e)
  | .ok _, .panic _ => isFalse (fun e => by cases e)
  | .err _, .ok _ => isFalse (fun e => by cases e)
  | .err _, .panic _ => isFalse (fun e => by cases e)
  | .panic _, .ok _ => isFalse (fun e => by cases e)
  | .panic _, .err _ => isFalse (fun e => by cases e)

/-! ### `dropExact` -/

theorem dropExact_append (p r : Bytes) : dropExact p.length (p ++ r) = some r := by
  induction p with
  | nil => cases r <;> rfl
  | cons x p ih => exact ih

theorem dropExact_some {n : Nat} {l r : Bytes} (h : dropExact n l = some r) :
    ∃ p, p.length = n ∧ l = p ++ r := by
  induction n generalizing l with
  | zero =>
    cases l <;> (simp only [dropExact, Option.some.injEq] at h; subst h; exact ⟨[], rfl, rfl⟩)
  | succ n ih =>
    cases l with
    | nil => simp [dropExact] at h
    | cons x t =>
      obtain ⟨p, hp, ht⟩ := ih (l := t) h
      exact ⟨x :: p, by simp [hp], by simp [ht]⟩

theorem dropExact_none {n : Nat} {l : Bytes} (h : dropExact n l = none) : l.length < n := by
  induction n generalizing l with
  | zero => cases l <;> simp [dropExact] at h
  | succ n ih =>
    cases l with
    | nil => simp
    | cons x t => have := ih (l := t) h; simp only [List.length_cons]; omega

/-! ### Two-byte numbers -/

theorem mk16_toNat (a b : UInt8) : (mk16 a b).toNat = a.toNat + 256 * b.toNat := by
  have ha := a.toNat_lt
  have hb := b.toNat_lt
  simp only [mk16, UInt16.toNat_ofNat']
  omega

theorem u16le_mk16 (a b : UInt8) : u16le (mk16 a b).toNat = [a, b] := by
  have ha := a.toNat_lt
  have hb := b.toNat_lt
  rw [mk16_toNat]
  simp only [u16le]
  have h1 : (a.toNat + 256 * b.toNat) % 256 = a.toNat := by omega
  have h2 : (a.toNat + 256 * b.toNat) / 256 = b.toNat := by omega
  rw [h1, h2, UInt8.ofNat_toNat, UInt8.ofNat_toNat]

theorem mk16_u16le (n : Nat) (h : n < 65536) :
    (mk16 (UInt8.ofNat (n % 256)) (UInt8.ofNat (n / 256))).toNat = n := by
  rw [mk16_toNat]
  simp only [UInt8.toNat_ofNat']
  omega

/-! ### The reserved-ID test -/

theorem extraFieldMapping_toNat : extraFieldMapping.map UInt16.toNat = reservedIds := by decide

theorem reservedKind_iff (k : UInt16) :
    reservedKind k = true ↔ k.toNat ≤ 31 ∨ k.toNat ∈ reservedIds := by
  have e31 : (31 : UInt16).toNat = 31 := by decide
  unfold reservedKind
  rw [Bool.or_eq_true, decide_eq_true_iff, UInt16.le_iff_toNat_le, e31, List.any_eq_true,
    ← extraFieldMapping_toNat, List.mem_map]
  constructor
  · rintro (h | ⟨x, hx, hxk⟩)
    · exact Or.inl h
    · exact Or.inr ⟨x, hx, by rw [eq_of_beq hxk]⟩
  · rintro (h | ⟨x, hx, hxk⟩)
    · exact Or.inl h
    · exact Or.inr ⟨x, hx, by rw [UInt16.toNat_inj.mp hxk]; exact beq_self_eq_true k⟩

/-! ### `validate_extra_data` = the record grammar -/

theorem validateLoop_sound (fuel : Nat) (data : Bytes) (h : validateLoop fuel data = .ok ()) :
    ∃ rs : List Record, (∀ r ∈ rs, r.Fits ∧ r.Allowed) ∧ encodeAll rs = data := by
  fun_induction validateLoop fuel data with
  | case1 => exact ⟨[], by simp, rfl⟩
  | case2 => cases h
  | case3 => cases h
  | case4 => cases h
  | case5 => cases h
  | case6 fuel a b c d rest kind size hk hr r hd ih =>
    obtain ⟨rs, hrs, henc⟩ := ih h
    obtain ⟨p, hp, hrest⟩ := dropExact_some hd
    have hk1 : kind.toNat ≠ 1 := by
      intro e
      apply hk
      have : kind = 1 := UInt16.toNat_inj.mp (by rw [e]; rfl)
      rw [this]; rfl
    have hres : ¬ (kind.toNat ≤ 31 ∨ kind.toNat ∈ reservedIds) := fun hx => hr ((reservedKind_iff kind).mpr hx)
    refine ⟨⟨kind.toNat, p⟩ :: rs, ?_, ?_⟩
    · intro x hx
      rcases List.mem_cons.mp hx with rfl | hx
      · refine ⟨⟨kind.toNat_lt, ?_⟩, hk1, ?_, ?_⟩
        · show p.length < 65536
          rw [hp]; exact (mk16 c d).toNat_lt
        · show 31 < kind.toNat
          omega
        · exact fun hm => hres (Or.inr hm)
      · exact hrs x hx
    · show u16le kind.toNat ++ u16le p.length ++ p ++ encodeAll rs = a :: b :: c :: d :: rest
      rw [hp, henc, hrest, u16le_mk16, u16le_mk16]
      rfl
  | case7 => cases h

theorem validateLoop_complete (rs : List Record) (hrs : ∀ r ∈ rs, r.Fits ∧ r.Allowed) (fuel : Nat)
    (hf : (encodeAll rs).length ≤ fuel) : validateLoop fuel (encodeAll rs) = .ok () := by
  induction rs generalizing fuel with
  | nil => exact validateLoop.eq_1 fuel
  | cons r rs ih =>
    obtain ⟨⟨hid, hlen⟩, h1, h31, hmem⟩ := hrs r (List.mem_cons_self ..)
    have hshape : encodeAll (r :: rs) =
        UInt8.ofNat (r.id % 256) :: UInt8.ofNat (r.id / 256) :: UInt8.ofNat (r.payload.length % 256) ::
          UInt8.ofNat (r.payload.length / 256) :: (r.payload ++ encodeAll rs) := by
      simp [encodeAll, Record.encode, u16le]
    rw [hshape] at hf ⊢
    obtain ⟨fuel, rfl⟩ : ∃ f, fuel = f + 1 := ⟨fuel - 1, by simp only [List.length_cons] at hf; omega⟩
    rw [validateLoop.eq_3]
    have hkn := mk16_u16le r.id hid
    have hsn := mk16_u16le r.payload.length hlen
    have hk1 : ¬ ((mk16 (UInt8.ofNat (r.id % 256)) (UInt8.ofNat (r.id / 256)) == 1) = true) := by
      intro e
      have := eq_of_beq e
      rw [this] at hkn
      exact h1 hkn.symm
    have hres : ¬ (reservedKind (mk16 (UInt8.ofNat (r.id % 256)) (UInt8.ofNat (r.id / 256))) = true) := by
      rw [reservedKind_iff, hkn]
      rintro (h | h)
      · omega
      · exact hmem h
    rw [if_neg hk1, if_neg hres, hsn, dropExact_append]
    apply ih (fun x hx => hrs x (List.mem_cons_of_mem _ hx))
    simp only [List.length_cons, List.length_append] at hf
    omega

theorem validateLoop_fuel (fuel : Nat) (data : Bytes) (hf : data.length ≤ fuel) (s : String) :
    validateLoop fuel data ≠ .panic s := by
  fun_induction validateLoop fuel data with
  | case1 => intro h; cases h
  | case2 => simp at hf
  | case3 => intro h; cases h
  | case4 => intro h; cases h
  | case5 => intro h; cases h
  | case6 fuel a b c d rest kind size hk hr r hd ih =>
    apply ih
    obtain ⟨p, _, hrest⟩ := dropExact_some hd
    rw [hrest] at hf
    simp only [List.length_cons, List.length_append] at hf
    omega
  | case7 => intro h; cases h

theorem validateExtraData_ok_iff (large : Bool) (ed : Bytes) :
    validateExtraData large ed = .ok () ↔
      WFExtra ed ∧ ed.length + zip64LocalRecordLen large ≤ 65535 := by
  have hz : zip64Reserve large = zip64LocalRecordLen large := rfl
  unfold validateExtraData
  rw [hz]
  by_cases hl : ed.length + zip64LocalRecordLen large > 65535
  · rw [if_pos hl]
    constructor
    · intro h; cases h
    · intro h; omega
  · rw [if_neg hl]
    constructor
    · intro h
      exact ⟨⟨by omega, validateLoop_sound _ _ h⟩, by omega⟩
    · rintro ⟨⟨_, rs, hrs, henc⟩, _⟩
      subst henc
      exact validateLoop_complete rs hrs _ (Nat.le_refl _)

/-- `validate_extra_data` never panics (the loop terminates within its fuel). -/
theorem validateExtraData_no_panic (large : Bool) (ed : Bytes) (s : String) :
    validateExtraData large ed ≠ .panic s := by
  unfold validateExtraData
  split
  · intro h; cases h
  · exact validateLoop_fuel _ _ (Nat.le_refl _) s

/-! ### `end_extra_data` -/

theorem validate_ok_len {large : Bool} {ed : Bytes} (h : validateExtraData large ed = .ok ()) :
    ed.length + zip64Reserve large ≤ 65535 := by
  unfold validateExtraData at h
  split at h
  · cases h
  · omega

theorem base16_toNat (large : Bool) :
    (if large then (20 : UInt16) else 0).toNat = zip64Reserve large := by
  cases large <;> rfl

/-- The state after the local part has been ended successfully. -/
def EntrySt.afterLocal (st : EntrySt) : EntrySt :=
  { st with localExtra := st.localExtra ++ st.extraField,
            dataStart := st.dataStart + UInt64.ofNat st.extraField.length,
            xlenField := (if st.largeFile then 20 else 0) + UInt16.ofNat st.extraField.length,
            inExtra := false, centralOnly := false }

/-- `end_extra_data` with the `u16` addition resolved: after a successful validation
`20 + len as u16` cannot overflow. -/
theorem endExtraData_eq (st : EntrySt) : st.endExtraData =
    if !st.inExtra then .err (.io .other)
    else if st.closed then .err (.io .brokenPipe)
    else match validateExtraData st.largeFile st.extraField with
      | .err e => .err e
      | .panic s => .panic s
      | .ok () =>
        if st.centralOnly then .ok ({ st with inExtra := false, centralOnly := false }, st.dataStart)
        else if st.dataStart.toNat + st.extraField.length < 18446744073709551616 then
          if st.headerStart.toNat + 28 < 18446744073709551616 then
            .ok (st.afterLocal, st.dataStart + UInt64.ofNat st.extraField.length)
          else .panic "write.rs end_extra_data: header_start + 28"
        else .panic "write.rs end_extra_data: data_start + len" := by
  unfold EntrySt.endExtraData
  split
  · rfl
  split
  · rfl
  generalize hv : validateExtraData st.largeFile st.extraField = v
  cases v with
  | err e => rfl
  | panic s => rfl
  | ok u =>
    dsimp only
    have hlen := validate_ok_len hv
    have h64 : (UInt64.ofNat st.extraField.length).toNat = st.extraField.length := by
      rw [UInt64.toNat_ofNat']; omega
    have h16 : (UInt16.ofNat st.extraField.length).toNat = st.extraField.length := by
      rw [UInt16.toNat_ofNat']; omega
    have e28 : (28 : UInt64).toNat = 28 := by decide
    have hb : (if st.largeFile = true then (20 : UInt16) else 0).toNat +
        (UInt16.ofNat st.extraField.length).toNat < 65536 := by
      rw [base16_toNat, h16]; omega
    by_cases hc : st.centralOnly = true
    · rw [if_pos hc, if_pos hc]
    · rw [if_neg hc, if_neg hc]
      unfold checkedAdd64
      rw [h64, e28]
      by_cases h1 : st.dataStart.toNat + st.extraField.length < 18446744073709551616
      · rw [if_pos h1, if_pos h1]
        dsimp only
        rw [if_pos hb]
        by_cases h2 : st.headerStart.toNat + 28 < 18446744073709551616
        · rw [if_pos h2, if_pos h2]; rfl
        · rw [if_neg h2, if_neg h2]
      · rw [if_neg h1, if_neg h1]

/-! ### The padding record -/

theorem validate_nil (lf : Bool) : validateExtraData lf [] = .ok () := by cases lf <;> rfl

/-- The padding record as one byte string. -/
def zaBytes (p : Nat) : Bytes := [0x7a, 0x61] ++ le16 (UInt16.ofNat p) ++ List.replicate p 0

theorem zaBytes_length (p : Nat) : (zaBytes p).length = 4 + p := by
  simp only [zaBytes, List.length_append, List.length_cons, List.length_nil, le16_length,
    List.length_replicate]

theorem zaBytes_encode (p : Nat) (hp : p < 65536) :
    encodeAll [⟨0x617a, List.replicate p 0⟩] = zaBytes p := by
  have e : (UInt16.ofNat p).toNat = p := by rw [UInt16.toNat_ofNat']; omega
  simp only [encodeAll, Record.encode, u16le, zaBytes, le16, List.length_replicate, e,
    List.append_nil]
  rfl

theorem validate_za (lf : Bool) (p : Nat) (hp : p < 65536) :
    validateExtraData lf (zaBytes p) =
      if 4 + p + zip64Reserve lf > 65535 then .err (.io .invalidData) else .ok () := by
  by_cases h : 4 + p + zip64Reserve lf > 65535
  · rw [if_pos h]
    unfold validateExtraData
    rw [zaBytes_length, if_pos h]
  · rw [if_neg h, validateExtraData_ok_iff]
    refine ⟨⟨by rw [zaBytes_length]; omega, [⟨0x617a, List.replicate p 0⟩], ?_, zaBytes_encode p hp⟩, ?_⟩
    · intro r hr
      rw [List.mem_singleton] at hr
      subst hr
      refine ⟨⟨?_, by simpa using hp⟩, ?_, ?_, ?_⟩
      · show (0x617a : Nat) < 65536
        decide
      · show (0x617a : Nat) ≠ 1
        decide
      · show 31 < (0x617a : Nat)
        decide
      · show (0x617a : Nat) ∉ reservedIds
        decide
    · rw [zaBytes_length]
      exact Nat.le_of_not_gt h

theorem foldl_zaRecord (st : EntrySt) (p : UInt64) :
    (zaRecord p).foldl EntrySt.write st = { st with extraField := st.extraField ++ zaBytes p.toNat } := by
  have e : p.toUInt16 = UInt16.ofNat p.toNat := by
    apply UInt16.toNat_inj.mp
    rw [UInt64.toNat_toUInt16, UInt16.toNat_ofNat']
  simp only [zaRecord, List.foldl, EntrySt.write, zaBytes, e, List.append_assoc]

/-! ### The padding arithmetic -/

/-- The pad computed on naturals. -/
def padNat (d a : Nat) : Nat := (a - (d + 4) % a) % a

theorem padNat_lt (d a : Nat) (ha : 0 < a) : padNat d a < a := Nat.mod_lt _ ha

theorem padNat_aligned (d a : Nat) (ha : 0 < a) : (d + 4 + padNat d a) % a = 0 := by
  unfold padNat
  have hm : (d + 4) % a < a := Nat.mod_lt _ ha
  have hd := Nat.div_add_mod (d + 4) a
  by_cases h0 : (d + 4) % a = 0
  · rw [h0, Nat.sub_zero, Nat.mod_self, Nat.add_zero, h0]
  · have hlt : a - (d + 4) % a < a := by omega
    rw [Nat.mod_eq_of_lt hlt]
    have : d + 4 + (a - (d + 4) % a) = a * ((d + 4) / a + 1) := by
      rw [Nat.mul_add, Nat.mul_one]; omega
    rw [this, Nat.mul_mod_right]

theorem padLength_toNat (ds a : UInt64) (h4 : ds.toNat + 4 < 18446744073709551616)
    (ha : 0 < a.toNat) : (padLength ds a).toNat = padNat ds.toNat a.toNat := by
  have e4 : (4 : UInt64).toNat = 4 := by decide
  have hadd : (ds + 4).toNat = ds.toNat + 4 := by
    rw [UInt64.toNat_add, e4]; exact Nat.mod_eq_of_lt h4
  have hmod : ((ds + 4) % a).toNat = (ds.toNat + 4) % a.toNat := by rw [UInt64.toNat_mod, hadd]
  have hle : (ds + 4) % a ≤ a := by
    rw [UInt64.le_iff_toNat_le, hmod]; exact Nat.le_of_lt (Nat.mod_lt _ ha)
  unfold padLength padNat
  rw [UInt64.toNat_mod, UInt64.toNat_sub_of_le _ _ hle, hmod]

/-! ### `start_file_aligned`, evaluated -/

def base16 (lf : Bool) : UInt16 := if lf then 20 else 0

/-- State after a successful `start_file_aligned` that wrote `extra` into the local header. -/
def alignedFinal (hs : UInt64) (lf : Bool) (ds : UInt64) (le extra : Bytes) : EntrySt :=
  { headerStart := hs, largeFile := lf, dataStart := ds + UInt64.ofNat extra.length,
    extraField := [], inExtra := false, centralOnly := false, closed := false,
    localExtra := le ++ extra, xlenField := base16 lf + UInt16.ofNat extra.length }

theorem startFileAligned_unpadded (hs : UInt64) (lf : Bool) (ds : UInt64) (le : Bytes) (xl : UInt16)
    (al : UInt16) (hnp : ¬ (1 < al.toNat ∧ ds.toNat % al.toNat ≠ 0)) :
    EntrySt.startFileAligned ⟨hs, lf, ds, [], true, false, false, le, xl⟩ al =
      if hs.toNat + 28 < 18446744073709551616 then .ok (alignedFinal hs lf ds le [], 0)
      else .panic "write.rs end_extra_data: header_start + 28" := by
  have hc : ¬ (1 < al.toUInt64 ∧ ds % al.toUInt64 ≠ 0) := by
    rw [UInt64.lt_iff_toNat_lt, Ne, ← UInt64.toNat_inj, UInt64.toNat_mod, UInt16.toNat_toUInt64]
    exact hnp
  have hds : ds.toNat + 0 < 18446744073709551616 := by have := ds.toNat_lt; omega
  unfold EntrySt.startFileAligned
  simp only [hc, if_false, endExtraData_eq, validate_nil, Bool.not_true, Bool.false_eq_true,
    List.length_nil, hds, if_true]
  by_cases h28 : hs.toNat + 28 < 18446744073709551616
  · simp only [h28, if_true]
    have e0 : UInt64.ofNat 0 = 0 := rfl
    simp only [e0, UInt64.add_zero, UInt64.sub_self]
    rw [if_pos (Nat.le_refl _)]
    rfl
  · simp only [h28, if_false]

theorem startFileAligned_padded (hs : UInt64) (lf : Bool) (ds : UInt64) (le : Bytes) (xl : UInt16)
    (al : UInt16) (hp : 1 < al.toNat ∧ ds.toNat % al.toNat ≠ 0) :
    EntrySt.startFileAligned ⟨hs, lf, ds, [], true, false, false, le, xl⟩ al =
      if ds.toNat + 4 < 18446744073709551616 then
        if 4 + padNat ds.toNat al.toNat + zip64Reserve lf > 65535 then .err (.io .invalidData)
        else if ds.toNat + (4 + padNat ds.toNat al.toNat) < 18446744073709551616 then
          if hs.toNat + 28 < 18446744073709551616 then
            .ok (alignedFinal hs lf ds le (zaBytes (padNat ds.toNat al.toNat)),
                 UInt64.ofNat (4 + padNat ds.toNat al.toNat))
          else .panic "write.rs end_extra_data: header_start + 28"
        else .panic "write.rs end_extra_data: data_start + len"
      else .panic "write.rs start_file_aligned: data_start + 4" := by
  have ha : 0 < al.toUInt64.toNat := by rw [UInt16.toNat_toUInt64]; omega
  have hc : 1 < al.toUInt64 ∧ ds % al.toUInt64 ≠ 0 := by
    rw [UInt64.lt_iff_toNat_lt, Ne, ← UInt64.toNat_inj, UInt64.toNat_mod, UInt16.toNat_toUInt64]
    exact hp
  unfold EntrySt.startFileAligned
  simp only [hc.1, hc.2, ne_eq, not_false_eq_true, and_self, if_true]
  by_cases h4 : ds.toNat + 4 < 18446744073709551616
  · rw [if_pos h4, if_pos h4]
    have hpl := padLength_toNat ds al.toUInt64 h4 ha
    rw [UInt16.toNat_toUInt64] at hpl
    have hplt : padNat ds.toNat al.toNat < 65536 := by
      have := padNat_lt ds.toNat al.toNat (by omega); have := al.toNat_lt; omega
    have e4 : (4 : UInt64).toNat = 4 := by decide
    have hsub : ((ds + 4) % al.toUInt64).toNat ≤ al.toUInt64.toNat := by
      rw [UInt64.toNat_mod]; exact Nat.le_of_lt (Nat.mod_lt _ ha)
    rw [if_pos hsub, foldl_zaRecord, hpl]
    simp only [EntrySt.endLocalStartCentral, endExtraData_eq, List.nil_append, validate_za lf _ hplt,
      Bool.not_true, Bool.false_eq_true, if_false, zaBytes_length]
    by_cases hv : 4 + padNat ds.toNat al.toNat + zip64Reserve lf > 65535
    · simp only [hv, if_true]
    · simp only [hv, if_false]
      by_cases h1 : ds.toNat + (4 + padNat ds.toNat al.toNat) < 18446744073709551616
      · simp only [h1, if_true]
        by_cases h28 : hs.toNat + 28 < 18446744073709551616
        · simp only [h28, if_true]
          have e64 : (UInt64.ofNat (4 + padNat ds.toNat al.toNat)).toNat = 4 + padNat ds.toNat al.toNat := by
            rw [UInt64.toNat_ofNat']; omega
          have hfin : (ds + UInt64.ofNat (4 + padNat ds.toNat al.toNat)).toNat =
              ds.toNat + 4 + padNat ds.toNat al.toNat := by
            rw [UInt64.toNat_add, e64]; omega
          have hal : (ds + UInt64.ofNat (4 + padNat ds.toNat al.toNat)) % al.toUInt64 = 0 := by
            apply UInt64.toNat_inj.mp
            rw [UInt64.toNat_mod, hfin, UInt16.toNat_toUInt64]
            exact padNat_aligned ds.toNat al.toNat (by omega)
          simp only [EntrySt.afterLocal, zaBytes_length, hal, if_true, validate_nil]
          have hle : ds.toNat ≤ (ds + UInt64.ofNat (4 + padNat ds.toNat al.toNat)).toNat := by
            rw [hfin]; omega
          simp only [Bool.not_true, Bool.false_eq_true, if_false, hle, if_true]
          have hret : ds + UInt64.ofNat (4 + padNat ds.toNat al.toNat) - ds =
              UInt64.ofNat (4 + padNat ds.toNat al.toNat) := by
            rw [UInt64.add_comm, UInt64.add_sub_cancel]
          rw [hret]
          simp only [alignedFinal, zaBytes_length, base16]
        · simp only [h28, if_false]
      · simp only [h1, if_false]
  · rw [if_neg h4, if_neg h4]


/-! ### `alignedPlacement` and `extraPlacement`, evaluated -/

/-- Preliminary data start: stream position behind the local header, the name and the ZIP64 record. -/
def prelim (hs : UInt64) (n : Nat) (lf : Bool) : UInt64 := hs + UInt64.ofNat (30 + n + zip64Reserve lf)

theorem init_eq (hs : UInt64) (n : Nat) (lf : Bool) :
    EntrySt.init hs n lf = ⟨hs, lf, prelim hs n lf, [], true, false, false, [], base16 lf⟩ := rfl

/-- `start_file_aligned` with every checked operation resolved. -/
theorem alignedPlacement_eq (hs : UInt64) (n : Nat) (lf : Bool) (al : UInt16) :
    alignedPlacement hs n lf al =
      if n > 65535 then .err .invalidArchive
      else if 1 < al.toNat ∧ (prelim hs n lf).toNat % al.toNat ≠ 0 then
        if (prelim hs n lf).toNat + 4 < 18446744073709551616 then
          let pad := padNat (prelim hs n lf).toNat al.toNat
          if 4 + pad + zip64Reserve lf > 65535 then .err (.io .invalidData)
          else if (prelim hs n lf).toNat + (4 + pad) < 18446744073709551616 then
            if hs.toNat + 28 < 18446744073709551616 then
              .ok ⟨UInt64.ofNat (4 + pad), prelim hs n lf + UInt64.ofNat (4 + pad),
                   base16 lf + UInt16.ofNat (4 + pad), zaBytes pad, []⟩
            else .panic "write.rs end_extra_data: header_start + 28"
          else .panic "write.rs end_extra_data: data_start + len"
        else .panic "write.rs start_file_aligned: data_start + 4"
      else if hs.toNat + 28 < 18446744073709551616 then
        .ok ⟨0, prelim hs n lf, base16 lf, [], []⟩
      else .panic "write.rs end_extra_data: header_start + 28" := by
  unfold alignedPlacement
  by_cases hn : n > 65535
  · rw [if_pos hn, if_pos hn]
  rw [if_neg hn, if_neg hn, init_eq]
  by_cases hp : 1 < al.toNat ∧ (prelim hs n lf).toNat % al.toNat ≠ 0
  · rw [if_pos hp, startFileAligned_padded _ _ _ _ _ _ hp]
    dsimp only
    by_cases h4 : (prelim hs n lf).toNat + 4 < 18446744073709551616
    · rw [if_pos h4, if_pos h4]
      by_cases hv : 4 + padNat (prelim hs n lf).toNat al.toNat + zip64Reserve lf > 65535
      · rw [if_pos hv, if_pos hv]
      · rw [if_neg hv, if_neg hv]
        by_cases h1 : (prelim hs n lf).toNat + (4 + padNat (prelim hs n lf).toNat al.toNat) <
            18446744073709551616
        · rw [if_pos h1, if_pos h1]
          by_cases h28 : hs.toNat + 28 < 18446744073709551616
          · rw [if_pos h28, if_pos h28]
            simp only [alignedFinal, zaBytes_length, List.nil_append]
          · rw [if_neg h28, if_neg h28]
        · rw [if_neg h1, if_neg h1]
    · rw [if_neg h4, if_neg h4]
  · rw [if_neg hp, startFileAligned_unpadded _ _ _ _ _ _ hp]
    by_cases h28 : hs.toNat + 28 < 18446744073709551616
    · rw [if_pos h28, if_pos h28]
      simp only [alignedFinal, List.length_nil, List.append_nil]
      have e0 : UInt64.ofNat 0 = 0 := rfl
      have e1 : UInt16.ofNat 0 = 0 := rfl
      rw [e0, e1, UInt64.add_zero, UInt16.add_zero]
    · rw [if_neg h28, if_neg h28]

/-! ### The user-facing extra-data sequences, evaluated -/

theorem endExtraData_local_eval (hs : UInt64) (lf : Bool) (ds : UInt64) (ef le : Bytes) (xl : UInt16) :
    EntrySt.endExtraData ⟨hs, lf, ds, ef, true, false, false, le, xl⟩ =
      match validateExtraData lf ef with
      | .err e => .err e
      | .panic s => .panic s
      | .ok () =>
        if ds.toNat + ef.length < 18446744073709551616 then
          if hs.toNat + 28 < 18446744073709551616 then
            .ok (⟨hs, lf, ds + UInt64.ofNat ef.length, ef, false, false, false, le ++ ef,
                  base16 lf + UInt16.ofNat ef.length⟩, ds + UInt64.ofNat ef.length)
          else .panic "write.rs end_extra_data: header_start + 28"
        else .panic "write.rs end_extra_data: data_start + len" := by
  rw [endExtraData_eq]
  rfl

theorem endExtraData_central_eval (hs : UInt64) (lf : Bool) (ds : UInt64) (ef le : Bytes) (xl : UInt16) :
    EntrySt.endExtraData ⟨hs, lf, ds, ef, true, true, false, le, xl⟩ =
      match validateExtraData lf ef with
      | .err e => .err e
      | .panic s => .panic s
      | .ok () => .ok (⟨hs, lf, ds, ef, false, false, false, le, xl⟩, ds) := by
  rw [endExtraData_eq]
  rfl

/-- What the local phase writes. -/
def localPart (mode : ExtraMode) (lo : Bytes) : Bytes := if mode = .centralOnly then [] else lo

/-- What the central record carries. -/
def centralPart (mode : ExtraMode) (lo ce : Bytes) : Bytes := if mode = .shared then lo else ce

/-- Final state of a successful extra-data sequence. -/
def extraFinal (hs : UInt64) (n : Nat) (lf : Bool) (lo ce : Bytes) : EntrySt :=
  ⟨hs, lf, prelim hs n lf + UInt64.ofNat lo.length, ce, false, false, false, lo,
    base16 lf + UInt16.ofNat lo.length⟩

theorem extraPlacement_eq (hs : UInt64) (n : Nat) (lf : Bool) (mode : ExtraMode) (lo ce : Bytes) :
    extraPlacement hs n lf mode lo ce =
      match validateExtraData lf (localPart mode lo) with
      | .err e => .err e
      | .panic s => .panic s
      | .ok () =>
        if (prelim hs n lf).toNat + (localPart mode lo).length < 18446744073709551616 then
          if hs.toNat + 28 < 18446744073709551616 then
            if mode = .shared then .ok (extraFinal hs n lf lo lo)
            else match validateExtraData lf ce with
              | .err e => .err e
              | .panic s => .panic s
              | .ok () => .ok (extraFinal hs n lf (localPart mode lo) ce)
          else .panic "write.rs end_extra_data: header_start + 28"
        else .panic "write.rs end_extra_data: data_start + len" := by
  unfold extraPlacement extraLocalPhase
  cases mode
  · -- shared
    simp only [init_eq, EntrySt.write, List.nil_append, endExtraData_local_eval, localPart, reduceCtorEq,
      if_false, if_true]
    generalize validateExtraData lf lo = v
    cases v with
    | err e => rfl
    | panic s => rfl
    | ok u =>
      by_cases h1 : (prelim hs n lf).toNat + lo.length < 18446744073709551616
      · by_cases h28 : hs.toNat + 28 < 18446744073709551616
        · simp only [h1, h28, if_true]; rfl
        · simp only [h1, h28, if_true, if_false]
      · simp only [h1, if_false]
  · -- split
    simp only [init_eq, EntrySt.write, List.nil_append, EntrySt.endLocalStartCentral,
      endExtraData_local_eval, localPart, reduceCtorEq, if_false]
    generalize validateExtraData lf lo = v
    cases v with
    | err e => rfl
    | panic s => rfl
    | ok u =>
      by_cases h1 : (prelim hs n lf).toNat + lo.length < 18446744073709551616
      · by_cases h28 : hs.toNat + 28 < 18446744073709551616
        · simp only [h1, h28, if_true, extraCentralPhase, EntrySt.write, List.nil_append,
            endExtraData_central_eval]
          generalize validateExtraData lf ce = w
          cases w <;> rfl
        · simp only [h1, h28, if_true, if_false]
      · simp only [h1, if_false]
  · -- centralOnly
    simp only [init_eq, EntrySt.endLocalStartCentral, endExtraData_local_eval, localPart, validate_nil,
      if_true, reduceCtorEq, if_false, List.length_nil]
    by_cases h1 : (prelim hs n lf).toNat + 0 < 18446744073709551616
    · by_cases h28 : hs.toNat + 28 < 18446744073709551616
      · simp only [h1, h28, if_true, extraCentralPhase, EntrySt.write, List.nil_append,
          endExtraData_central_eval]
        generalize validateExtraData lf ce = w
        cases w <;> rfl
      · simp only [h1, h28, if_true, if_false]
    · simp only [h1, if_false]

/-! ### Rejection of malformed remainders -/

theorem encodeAll_length_ge (rs : List Record) : 4 * rs.length ≤ (encodeAll rs).length := by
  induction rs with
  | nil => simp [encodeAll]
  | cons r rs ih =>
    simp only [encodeAll, Record.encode, u16le, List.length_append, List.length_cons, List.length_nil]
    omega

theorem validateLoop_skip (rs : List Record) (hrs : ∀ r ∈ rs, r.Fits ∧ r.Allowed) (tail : Bytes)
    (fuel : Nat) (hf : rs.length ≤ fuel) :
    validateLoop fuel (encodeAll rs ++ tail) = validateLoop (fuel - rs.length) tail := by
  induction rs generalizing fuel with
  | nil => simp [encodeAll]
  | cons r rs ih =>
    obtain ⟨⟨hid, hlen⟩, h1, h31, hmem⟩ := hrs r (List.mem_cons_self ..)
    have hshape : encodeAll (r :: rs) ++ tail =
        UInt8.ofNat (r.id % 256) :: UInt8.ofNat (r.id / 256) :: UInt8.ofNat (r.payload.length % 256) ::
          UInt8.ofNat (r.payload.length / 256) :: (r.payload ++ (encodeAll rs ++ tail)) := by
      simp [encodeAll, Record.encode, u16le]
    rw [hshape]
    obtain ⟨fuel, rfl⟩ : ∃ f, fuel = f + 1 := ⟨fuel - 1, by simp only [List.length_cons] at hf; omega⟩
    rw [validateLoop.eq_3]
    have hkn := mk16_u16le r.id hid
    have hsn := mk16_u16le r.payload.length hlen
    have hk1 : ¬ ((mk16 (UInt8.ofNat (r.id % 256)) (UInt8.ofNat (r.id / 256)) == 1) = true) := by
      intro e
      have := eq_of_beq e
      rw [this] at hkn
      exact h1 hkn.symm
    have hres : ¬ (reservedKind (mk16 (UInt8.ofNat (r.id % 256)) (UInt8.ofNat (r.id / 256))) = true) := by
      rw [reservedKind_iff, hkn]
      rintro (h | h)
      · omega
      · exact hmem h
    rw [if_neg hk1, if_neg hres, hsn, dropExact_append]
    simp only [List.length_cons] at hf ⊢
    rw [ih (fun x hx => hrs x (List.mem_cons_of_mem _ hx)) fuel (by omega)]
    congr 1
    omega

theorem validateLoop_malformed (tail : Bytes) (h : Malformed tail) (fuel : Nat) :
    validateLoop (fuel + 1) tail = .err (.io .other) := by
  cases h with
  | shortHeader t h0 h4 =>
    apply validateLoop.eq_4
    · intro e; rw [e] at h0; simp at h0
    · intro a b c d rest e; rw [e] at h4; simp only [List.length_cons] at h4; omega
  | badId r more hfit hbad =>
    obtain ⟨hid, hlen⟩ := hfit
    have hshape : r.encode ++ more =
        UInt8.ofNat (r.id % 256) :: UInt8.ofNat (r.id / 256) :: UInt8.ofNat (r.payload.length % 256) ::
          UInt8.ofNat (r.payload.length / 256) :: (r.payload ++ more) := by
      simp [Record.encode, u16le]
    rw [hshape, validateLoop.eq_3]
    have hkn := mk16_u16le r.id hid
    by_cases hk1 : (mk16 (UInt8.ofNat (r.id % 256)) (UInt8.ofNat (r.id / 256)) == 1) = true
    · rw [if_pos hk1]
    · rw [if_neg hk1]
      have hres : reservedKind (mk16 (UInt8.ofNat (r.id % 256)) (UInt8.ofNat (r.id / 256))) = true := by
        rw [reservedKind_iff, hkn]
        have hne : r.id ≠ 1 := by
          intro e
          apply hk1
          have : mk16 (UInt8.ofNat (r.id % 256)) (UInt8.ofNat (r.id / 256)) = 1 :=
            UInt16.toNat_inj.mp (by rw [hkn, e]; rfl)
          rw [this]; rfl
        unfold Record.Allowed at hbad
        by_cases h31 : r.id ≤ 31
        · exact Or.inl h31
        · by_cases hm : r.id ∈ reservedIds
          · exact Or.inr hm
          · exact absurd ⟨hne, by omega, hm⟩ hbad
      rw [if_pos hres]
  | overrun id size payload hid hsize hshort =>
    have hshape : u16le id ++ u16le size ++ payload =
        UInt8.ofNat (id % 256) :: UInt8.ofNat (id / 256) :: UInt8.ofNat (size % 256) ::
          UInt8.ofNat (size / 256) :: payload := by
      simp [u16le]
    rw [hshape, validateLoop.eq_3]
    split
    · rfl
    · split
      · rfl
      · rw [mk16_u16le size hsize]
        cases hd : dropExact size payload with
        | none => rfl
        | some r =>
          obtain ⟨p, hp, hpl⟩ := dropExact_some hd
          rw [hpl, List.length_append, hp] at hshort
          omega

theorem malformed_ne_nil {t : Bytes} (h : Malformed t) : 0 < t.length := by
  cases h with
  | shortHeader t h0 _ => exact h0
  | badId r more _ _ => simp [Record.encode, u16le]
  | overrun id size payload _ _ _ => simp [u16le]

theorem validateExtraData_malformed (lf : Bool) (rs : List Record) (hrs : ∀ r ∈ rs, r.Fits ∧ r.Allowed)
    (tail : Bytes) (h : Malformed tail) :
    validateExtraData lf (encodeAll rs ++ tail) = .err (.io .invalidData) ∨
      validateExtraData lf (encodeAll rs ++ tail) = .err (.io .other) := by
  unfold validateExtraData
  split
  · exact Or.inl rfl
  · right
    have h1 := encodeAll_length_ge rs
    have h2 := malformed_ne_nil h
    rw [validateLoop_skip rs hrs tail _ (by rw [List.length_append]; omega)]
    obtain ⟨f, hf⟩ : ∃ f, (encodeAll rs ++ tail).length - rs.length = f + 1 :=
      ⟨(encodeAll rs ++ tail).length - rs.length - 1, by rw [List.length_append]; omega⟩
    rw [hf]
    exact validateLoop_malformed tail h f


end ZipVerif.Model.Align
