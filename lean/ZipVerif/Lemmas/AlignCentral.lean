import ZipVerif.Lemmas.Align
import ZipVerif.Lemmas.ExtraBridge
import ZipVerif.Lemmas.CentralParseZ
import ZipVerif.Lemmas.AppendClosed
import ZipVerif.Lemmas.WL2Records
/-
C17, central side: what `finish` writes into the central record of an entry carrying user extra data
(`write_central_directory_header`: its own ZIP64 record, then `file.extra_field`) and what the reader's
`central_header_to_zip_file` (Model/Records.lean `centralHeader`) returns for these bytes.
-/

namespace ZipVerif.Model
open ZipVerif ZipVerif.Spec.Zip

/-- `parses_centralInnerZ` under exactly the length conditions its proof uses (`Entry.Fits` asks for 28
spare bytes in the central extra field whether or not a ZIP64 record is present; here the bound is the
exact one: name, comment and the WHOLE central extra field fit their 16-bit length fields). -/
theorem parses_centralInnerZ_exact (e : Spec.Zip.Entry) (off ao chs p : Nat)
    (hn : e.name.length ≤ 0xFFFF) (hc : e.comment.length ≤ 0xFFFF)
    (hxl' : (e.centralExtraAll (UInt64.ofNat off)).length ≤ 65535)
    (hx : ExtraOkZ e (UInt64.ofNat off)) (hm : e.method ≠ 99) (ho : off + ao < 2 ^ 64) :
    Parses (centralHeaderInner ao chs) p
      (le16 e.madeBy ++ (le16 e.versionNeeded ++ (le16 e.flagsOut ++ (le16 e.method ++
      (le16 e.time ++ (le16 e.date ++ (le32 e.crc ++
      (le32 (if e.zC then 0xFFFFFFFF else lo32 e.csize) ++
      (le32 (if e.zU then 0xFFFFFFFF else lo32 e.usize) ++
      (le16 (UInt16.ofNat e.name.length) ++ (le16 (UInt16.ofNat (e.centralExtraAll (UInt64.ofNat off)).length) ++
      (le16 (UInt16.ofNat e.comment.length) ++ (le16 0 ++ (le16 e.internalAttrs ++ (le32 e.externalAttrs ++
      (le32 (if e.zO (UInt64.ofNat off) then 0xFFFFFFFF else lo32 (UInt64.ofNat off)) ++
      (e.name ++ (e.centralExtraAll (UInt64.ofNat off) ++ e.comment))))))))))))))))))
      (viewEntry e off ao chs) := by
  unfold centralHeaderInner
  refine Parses.bind (Parses.readU16 _) ?_
  refine Parses.bind (Parses.readU16 _) ?_
  refine Parses.bind (Parses.readU16 _) ?_
  refine Parses.bind (Parses.readU16 _) ?_
  refine Parses.bind (Parses.readU16 _) ?_
  refine Parses.bind (Parses.readU16 _) ?_
  refine Parses.bind (Parses.readU32 _) ?_
  refine Parses.bind (Parses.readU32 _) ?_
  refine Parses.bind (Parses.readU32 _) ?_
  refine Parses.bind (Parses.readU16 _) ?_
  refine Parses.bind (Parses.readU16 _) ?_
  refine Parses.bind (Parses.readU16 _) ?_
  refine Parses.bind (Parses.readU16 _) ?_
  refine Parses.bind (Parses.readU16 _) ?_
  refine Parses.bind (Parses.readU32 _) ?_
  refine Parses.bind (Parses.readU32 _) ?_
  refine Parses.bind (Parses.readExact (ofNat_toNat_of_le hn).symm) ?_
  refine Parses.bind (Parses.readExact (ofNat_toNat_of_le hxl').symm) ?_
  refine Parses.bind_last (Parses.readExact (ofNat_toNat_of_le hc).symm) ?_
  have hr := extra_on_centralZ e (UInt64.ofNat off) chs hx (e.centralExtraAll (UInt64.ofNat off)).length
  simp only [rawCentral] at hr
  simp only [hr]
  have ho' : (UInt64.ofNat off).toNat = off := by
    rw [UInt64.toNat_ofNat']; omega
  rw [fromU16_ne_aes hm, ho', if_neg (by simp), if_neg (by omega)]
  exact Parses.pure _

theorem parses_centralHeaderZ_exact (e : Spec.Zip.Entry) (off ao p : Nat)
    (hn : e.name.length ≤ 0xFFFF) (hc : e.comment.length ≤ 0xFFFF)
    (hxl' : (e.centralExtraAll (UInt64.ofNat off)).length ≤ 65535)
    (hx : ExtraOkZ e (UInt64.ofNat off)) (hm : e.method ≠ 99) (ho : off + ao < 2 ^ 64) :
    Parses (centralHeader ao) p (centralRecord e (UInt64.ofNat off)) (viewEntry e off ao p) := by
  rw [centralRecord_eq]
  unfold centralHeader
  refine Parses.bind_nil Parses.streamPosition ?_
  refine Parses.bind (Parses.readU32 _) ?_
  rw [if_neg (by decide)]
  exact parses_centralInnerZ_exact e off ao p _ hn hc hxl' hx hm ho

end ZipVerif.Model

namespace ZipVerif.WL
open ZipVerif ZipVerif.Model ZipVerif.Spec.Zip

/-- **The reader on the central record the writer emits for a finished record `f`**: whenever the name
fits, the extra field passed `validate_extra_data` (any record sequence without the identifiers 0x0001 and
0x9901 will do: `ExtraOk`) and the ZIP64 record plus the extra field fit the 16-bit length,
`write_central_directory_header` succeeds and `central_header_to_zip_file`, run on the bytes written (at any
position `p` of any stream continuing with them), returns a record whose `extra_field` — the value of
`ZipFile::extra_data()` — is the regenerated ZIP64 record followed by `f.extra_field`, byte for byte. -/
theorem reader_on_written_central (f : FileData) (dp : UInt16) (hdp : f.time.datepart = some dp)
    (hn : f.fileName.length ≤ 65535) (hxo : ExtraOk f.extraField)
    (hlen : (centralZip64Bytes f).length + f.extraField.length ≤ 65535)
    (hdd : f.usingDataDescriptor = false) (hm : f.method.toU16 ≠ 99) (p : Nat) :
    ∃ cs g, centralHeaderChunks f = .ok cs ∧ Parses (centralHeader 0) p (ser cs) g ∧
      g.extraField = centralZip64Bytes f ++ f.extraField ∧ g.headerStart = f.headerStart := by
  let data : Bytes := List.replicate f.compressedSize.toNat 0
  have hcs : f.compressedSize = UInt64.ofNat data.length := by
    show f.compressedSize = UInt64.ofNat (List.replicate f.compressedSize.toNat (0 : UInt8)).length
    rw [List.length_replicate, UInt64.ofNat_toNat]
  have hoff : f.headerStart = UInt64.ofNat f.headerStart.toNat := by rw [UInt64.ofNat_toNat]
  obtain ⟨cs, hcs1, hcs2⟩ := closed_specEntry f dp [] [] data f.versionNeeded f.largeFile f.headerStart.toNat
    hdp hlen hcs hoff hdd
  have hz := centralZip64_eq f dp [] [] data f.versionNeeded f.largeFile .none (flagOf f) f.headerStart.toNat hcs hoff
  -- the entry `closed_specEntry` speaks about
  generalize he : ({ specEntry f dp [] [] data f.versionNeeded with localZip64 := f.largeFile } : Spec.Zip.Entry) = e at hcs2
  have hz' : e.centralZ64 (UInt64.ofNat f.headerStart.toNat) = centralZip64Bytes f := by
    rw [← he]; exact hz
  have hce : e.centralExtra = f.extraField := by rw [← he]; rfl
  have hall : e.centralExtraAll (UInt64.ofNat f.headerStart.toNat) = centralZip64Bytes f ++ f.extraField := by
    unfold Entry.centralExtraAll; rw [hz', hce]
  have hp := parses_centralHeaderZ_exact e f.headerStart.toNat 0 p
    (by rw [← he]; exact hn) (by rw [← he]; exact Nat.zero_le _)
    (by rw [hall, List.length_append]; exact hlen)
    (extraOkZ_of_extraOk e _ (by rw [hce]; exact hxo))
    (by rw [← he]; exact hm) (by have := f.headerStart.toNat_lt; omega)
  refine ⟨cs, viewEntry e f.headerStart.toNat 0 p, hcs1, ?_, ?_, ?_⟩
  · rw [hcs2]; exact hp
  · show e.centralExtraAll (UInt64.ofNat f.headerStart.toNat) = _
    exact hall
  · show UInt64.ofNat (f.headerStart.toNat + 0) = f.headerStart
    rw [Nat.add_zero, UInt64.ofNat_toNat]

/-- `validate_extra_data` (the model the C17 theorems use) establishes `ExtraOk`. -/
theorem align_validate_extraOk {lf : Bool} {ed : Bytes} (h : Align.validateExtraData lf ed = .ok ()) :
    ExtraOk ed := by
  have h' := (Lemmas.ExtraBridge.validate_bridge_ok { (default : FileData) with largeFile := lf, extraField := ed }).mp h
  exact validate_extraOk h'

end ZipVerif.WL
