import ZipVerif.Lemmas.WriterSat
/-
Model-side facts for the unconditional tie of `start_file_aligned` (`Tie/AlignedDev.lean`, helper t6w5):
the postconditions of `Lemmas/WriterSat.lean` for `startEntry`, `startFileWithExtraData`, `writeData` (in local
extra-field mode) and `endLocalStartCentral`, extended by what the `u64`-fit hypotheses of the callee ties need -
the new entry's `headerStart` is a sink position NOT BEHIND the position after its local header (`p ≤ d'.pos`),
`statsBytes = 0` after `startEntry`, and both are kept by the writes that only append to the open entry's extra
field and by `endLocalStartCentral` (which clears that field).
-/

namespace ZipVerif.Model
open ZipVerif

/-- `StartEntryPost`, the byte counter, and where the new entry's header starts -/
def StartEntryPostH (o : FileOptions) (u : Unit) (s' : WState) (d' : Dev) : Prop :=
  StartEntryPost o u s' d' ∧ s'.statsBytes = 0 ∧
  ∃ f p, s'.files.getLast? = some f ∧ f.headerStart = UInt64.ofNat p ∧ p ≤ d'.pos

theorem startEntry_satH (ext : WExt) (name : Bytes) (o : FileOptions) (raw : Option (UInt32 × UInt64 × UInt64))
    (ho : TimeOk o.time) (s : WState) (hI : Inv s) (fa : Option Nat) (d : Dev) :
    Sat (startEntry ext name o raw s) fa d (Post (StartEntryPostH o)) := by
  unfold startEntry
  split
  · exact Sat.pure (Post.error hI)
  apply Sat.bind
  apply Sat.mono (finishFile_sat ext s hI fa d)
  intro ⟨r, s1⟩ d1 ⟨hI1, hp⟩
  dsimp only at hI1 hp ⊢
  cases r with
  | error e => exact Sat.pure (Post.error hI1)
  | ok u =>
    obtain ⟨hin, hwe, hco, hwf, hwr⟩ := hp () rfl
    dsimp only
    split
    · apply Sat.io_streamPosition _ (fun _ e d' => Post.error hI1)
      intro d2 hd2
      split
      · next site h => obtain ⟨c, hc⟩ := localHeaderChunks_new h ho rfl; cases hc
      · next e h => obtain ⟨c, hc⟩ := localHeaderChunks_new h ho rfl; cases hc
      next chunks hch =>
      apply Sat.io_writeChunks _ (fun _ e d' => Post.error hI1)
      intro d3 hd3
      apply Sat.io_streamPosition _ (fun _ e d' => Post.error hI1)
      intro d4 hd4
      have htimes : ∀ (f : FileData), f.time = o.time → ∀ g ∈ s1.files ++ [f], TimeOk g.time := by
        intro f hf g hg
        rcases List.mem_append.mp hg with h | h
        · exact hI1.times g h
        · have : g = f := by simpa using h
          rw [this, hf]; exact ho
      have hle : d1.pos ≤ d4.pos := by omega
      split
      · next pw hpw =>
        apply Sat.pure
        apply Post.ok
        · exact ⟨(fun _ => by simp), (fun _ => by simp), hI1.centralExtra, (fun h => by rw [hwe] at h; cases h),
            (by simp [InnerOk, EncOk]), htimes _ rfl⟩
        · refine ⟨⟨hwe, hco, hwf, hwr, (by rw [hpw]), _, List.getLast?_concat .., ?_, rfl⟩, rfl,
            _, d1.pos, List.getLast?_concat .., rfl, hle⟩
          rw [hd4]
      · next hpw =>
        apply Sat.pure
        apply Post.ok
        · exact ⟨(fun _ => by simp), (fun _ => by simp), hI1.centralExtra, (fun h => by rw [hwe] at h; cases h),
            hI1.innerOk, htimes _ rfl⟩
        · refine ⟨⟨hwe, hco, hwf, hwr, (by rw [hpw]; exact hin), _, List.getLast?_concat .., ?_, rfl⟩, rfl,
            _, d1.pos, List.getLast?_concat .., rfl, hle⟩
          rw [hd4]
    · next h => exact absurd hin h

/-- Local extra-field mode right after `start_file_with_extra_data`, with `x` written so far: `ExtraSt`, an
untouched byte counter and the open entry's header start. -/
def AlM (s : WState) (ds hs : UInt64) (x : Bytes) : Prop :=
  Inv s ∧ s.writingToFile = true ∧ s.writingToExtraField = true ∧ s.centralOnly = false ∧
  s.inner = .storer none ∧ s.statsBytes = 0 ∧
  ∃ f, s.files.getLast? = some f ∧ f.dataStart = ds ∧ f.extraField = x ∧ f.headerStart = hs

/-- what `start_file_with_extra_data` returns: the data start IS the sink position, the header start lies
not behind it -/
def StartExtraPostH (v : Nat) (s' : WState) (d' : Dev) : Prop :=
  ∃ p, p ≤ d'.pos ∧ AlM s' (UInt64.ofNat d'.pos) (UInt64.ofNat p) [] ∧ v = (UInt64.ofNat d'.pos).toNat

theorem startFileWithExtraData_satH (ext : WExt) (name : Bytes) (o : FileOptions) (ho : TimeOk o.time)
    (henc : o.encryptWith = none) (s : WState) (hI : Inv s) (fa : Option Nat) (d : Dev) :
    Sat (startFileWithExtraData ext name o s) fa d (Post StartExtraPostH) := by
  unfold startFileWithExtraData
  apply Sat.bind
  apply Sat.mono (startEntry_satH ext name (withFilePerm o 0o644 0o100000) none ho s hI fa d)
  intro ⟨r, s1⟩ d1 ⟨hI1, hp⟩
  dsimp only at hI1 hp ⊢
  cases r with
  | error e => exact Sat.pure (Post.error hI1)
  | ok u =>
    obtain ⟨⟨hwe, hco, hwf, hwr, hin, f, hf, hds, hx⟩, hsb, f', p, hf', hhs, hple⟩ := hp () rfl
    rw [hf] at hf'; cases hf'
    have hin' : s1.inner = .storer none := by
      rw [hin]; simp only [withFilePerm, henc]
      done
    dsimp only
    rw [hf]
    dsimp only
    apply Sat.pure
    have hI2 : Inv { s1 with writingToFile := true, writingToExtraField := true } :=
      ⟨(fun _ => ne_nil_of_getLast? hf), (fun _ => ne_nil_of_getLast? hf),
        (fun _ => rfl), (fun _ _ => Or.inl hin'), hI1.innerOk, hI1.times⟩
    apply Post.ok hI2
    exact ⟨p, hple, ⟨hI2, rfl, rfl, hco, hin', hsb, f, hf, hds, hx, hhs⟩, by rw [hds]⟩

/-- In extra-field mode `write` only appends to the last entry's extra field (no I/O, no statistics). -/
theorem writeData_alM {s : WState} {ds hs : UInt64} {x : Bytes} (h : AlM s ds hs x) (buf : Bytes) :
    ∃ s', writeData buf s = pure (.ok (), s') ∧ AlM s' ds hs (x ++ buf) := by
  obtain ⟨hI, hwf, hwe, hco, hin, hsb, f, hf, hds, hx, hhs⟩ := h
  unfold writeData
  by_cases hb : buf.isEmpty
  · have : buf = [] := List.isEmpty_iff.mp hb
    subst this
    exact ⟨s, by simp, hI, hwf, hwe, hco, hin, hsb, f, hf, hds, by simpa using hx, hhs⟩
  · obtain ⟨inner, files, sS, sB, sH, wF, wE, cO, wR, cm⟩ := s
    dsimp only at hwf hwe hco hin hf hsb
    subst hwf hwe hco hin
    simp only [hb, hf]
    refine ⟨_, rfl, hI.setLast_same_time hf rfl, rfl, rfl, rfl, rfl, hsb, _,
      getLast?_setLast (ne_nil_of_getLast? hf), hds, ?_, hhs⟩
    rw [hx]

/-- `end_local_start_central_extra_data` from local extra-field mode: the offset is the old data start plus the
extra field, the open entry keeps its header start and has an empty extra field again -/
def EndLocalPostH (ds hs : UInt64) (x : Bytes) (v : Nat) (s' : WState) (_ : Dev) : Prop :=
  v = ds.toNat + x.length ∧ ∃ f', s'.files.getLast? = some f' ∧ f'.extraField = [] ∧ f'.headerStart = hs

theorem endLocalStartCentral_satH (ext : WExt) {s : WState} {ds hs : UInt64} {x : Bytes} (h : AlM s ds hs x)
    (fa : Option Nat) (d : Dev) :
    Sat (endLocalStartCentral ext s) fa d (Post (EndLocalPostH ds hs x)) := by
  obtain ⟨hI, hwf0, hwe0, hco0, hin0, hsb0, f0, hf0, hds0, hx0, hhs0⟩ := h
  unfold endLocalStartCentral
  apply Sat.bind
  apply Sat.mono (endExtraData_sat ext s hI fa d)
  intro ⟨r, s1⟩ d1 ⟨hI1, hp⟩
  dsimp only at hI1 hp ⊢
  cases r with
  | error e => exact Sat.pure (Post.error hI1)
  | ok v =>
    obtain ⟨hwe, hco, hwf, f, hf, hcase⟩ := hp v rfl
    rw [hf0] at hf; cases hf
    dsimp only
    have hne1 : s1.files ≠ [] := by
      rcases hcase with ⟨_, _, h, _⟩ | ⟨_, _, _, h⟩
      · rw [h]; exact ne_nil_of_getLast? hf0
      · rw [h]; exact setLast_ne_nil (ne_nil_of_getLast? hf0)
    split
    · next hl => exact absurd (List.getLast?_eq_none_iff.mp hl) hne1
    · next f1 hf1 =>
      apply Sat.pure
      apply Post.ok
      · have := hI1.setLast_same_time hf1 (g := { f1 with extraField := [] }) rfl
        exact ⟨(fun _ => setLast_ne_nil hne1), this.fileFiles, (fun _ => rfl), (fun _ h => nomatch h), this.innerOk, this.times⟩
      · rcases hcase with ⟨hc, _⟩ | ⟨_, hv, _, hfiles⟩
        · rw [hco0] at hc; cases hc
        · refine ⟨by rw [hv, hds0, hx0], _, getLast?_setLast hne1, rfl, ?_⟩
          rw [hfiles, getLast?_setLast (ne_nil_of_getLast? hf0)] at hf1
          cases hf1
          exact hhs0

end ZipVerif.Model
