import ZipVerif.Lemmas.AppendOpen
import ZipVerif.Lemmas.Zip64
import ZipVerif.Lemmas.Dos
import ZipVerif.Lemmas.Text
/-
The bridge between `new_append`'s re-hydrated records and the writer invariant (C13, C14):
the record `appendRecord (viewEntry e off pre chs)` that `new_append` holds for the entry `e` of an existing archive
is `WL.Closed` for the NORMALISED spec entry `appendNorm e off pre`, which records exactly what
`write_central_directory_header` will emit for it when the appending writer finishes.
-/

namespace ZipVerif.WL
open ZipVerif ZipVerif.Model ZipVerif.Spec.Zip ZipVerif.Model.DateTime

/-! ### The central record the writer emits for an arbitrary `FileData` -/

theorem min32_slot (x : UInt64) :
    min32 x = if decide (x ≥ 0xFFFFFFFF) then (0xFFFFFFFF : UInt32) else lo32 x := by
  have e : ZIP64_BYTES_THR.toNat = 4294967295 := by decide
  have e' : (0xFFFFFFFF : UInt64).toNat = 4294967295 := by decide
  unfold min32 lo32
  by_cases h : x ≥ 0xFFFFFFFF
  · rw [decide_eq_true h, if_pos rfl]
    have hx : 4294967295 ≤ x.toNat := by
      have := UInt64.le_iff_toNat_le.mp h; omega
    by_cases hle : x ≤ ZIP64_BYTES_THR
    · have : x.toNat ≤ 4294967295 := by have := UInt64.le_iff_toNat_le.mp hle; omega
      have hx' : x = ZIP64_BYTES_THR := UInt64.toNat_inj.mp (by omega)
      rw [if_pos hle, hx']; decide
    · rw [if_neg hle]; decide
  · have hx : x.toNat < 4294967295 := by
      have : ¬ ((0xFFFFFFFF : UInt64).toNat ≤ x.toNat) := fun hc => h (UInt64.le_iff_toNat_le.mpr hc)
      omega
    have hle : x ≤ ZIP64_BYTES_THR := UInt64.le_iff_toNat_le.mpr (by omega)
    rw [if_pos hle, decide_eq_false h]
    rfl

theorem centralZip64_eq (f : FileData) (dp : UInt16) (gap lx data : Bytes) (lv : UInt16) (lz : Bool)
    (ds : Desc) (fl : UInt16) (off : Nat)
    (hcs : f.compressedSize = UInt64.ofNat data.length)
    (hoff : f.headerStart = UInt64.ofNat off) :
    ({ specEntry f dp gap lx data lv with localZip64 := lz, desc := ds, flags := fl } : Entry).centralZ64
        (UInt64.ofNat off) = centralZip64Bytes f := by
  unfold Entry.centralZ64 centralZip64Bytes Entry.zU Entry.zC Entry.zO Entry.csize specEntry
  simp only [Bool.false_or, ← hcs, ← hoff, decide_eq_true_eq]
  rfl

/-- the chunks `write_central_directory_header` hands to the sink -/
def centralChunksOf (f : FileData) (dp : UInt16) : List Bytes :=
  [le32 CENTRAL_SIG, le16 ((f.system.discr <<< 8) ||| f.versionMadeBy.toUInt16), le16 f.versionNeeded,
   le16 (centralFlagOf f), le16 f.method.toU16,
   le16 f.time.timepart, le16 dp, le32 f.crc32, le32 (min32 f.compressedSize),
   le32 (min32 f.uncompressedSize), le16 (UInt16.ofNat f.fileName.length),
   le16 (UInt16.ofNat ((centralZip64Bytes f).length + f.extraField.length)), le16 0, le16 0, le16 0,
   le32 f.externalAttributes, le32 (min32 f.headerStart), f.fileName, centralZip64Bytes f, f.extraField]

theorem centralHeaderChunks_ok (f : FileData) (dp : UInt16) (hdp : f.time.datepart = some dp)
    (hlen : (centralZip64Bytes f).length + f.extraField.length ≤ 65535) :
    centralHeaderChunks f = .ok (centralChunksOf f dp) := by
  unfold centralHeaderChunks
  simp only [datepartOut, hdp]
  rw [if_neg (by omega)]
  rfl

/-- The central record the writer emits for ANY record `f` is the spec's central record of the entry
`specEntry f …` with the local-only fields (`localZip64`, `desc`) free and the flag word chosen such that
the spec's `flagsOut` (= `flags`, plus bit 3 when there is a descriptor) is the writer's central flag
word `centralFlagOf f` (= `flagOf f`, plus bit 3 for a re-hydrated descriptor entry). -/
theorem closed_specEntry_gen (f : FileData) (dp : UInt16) (gap lx data : Bytes) (lv : UInt16) (lz : Bool)
    (ds : Desc) (fl : UInt16) (off : Nat) (hdp : f.time.datepart = some dp)
    (hlen : (centralZip64Bytes f).length + f.extraField.length ≤ 65535)
    (hcs : f.compressedSize = UInt64.ofNat data.length)
    (hoff : f.headerStart = UInt64.ofNat off)
    (hfl : (if ds != .none then fl ||| 8 else fl) = centralFlagOf f) :
    Closed { specEntry f dp gap lx data lv with localZip64 := lz, desc := ds, flags := fl } off f := by
  have hz := centralZip64_eq f dp gap lx data lv lz ds fl off hcs hoff
  have hfo : ({ specEntry f dp gap lx data lv with localZip64 := lz, desc := ds, flags := fl } : Entry).flagsOut
      = centralFlagOf f := hfl
  refine ⟨_, centralHeaderChunks_ok f dp hdp hlen, ?_⟩
  rw [centralRecord_eq]
  unfold Entry.centralExtraAll
  rw [hz, hfo]
  simp only [specEntry, Entry.zU, Entry.zC, Entry.zO, Entry.csize,
    Bool.false_or, ← hcs, ← hoff]
  simp [ser, centralChunksOf, CENTRAL_SIG, sigCentral, min32_slot]

theorem centralFlagOf_plain (f : FileData) (h : f.usingDataDescriptor = false) :
    centralFlagOf f = flagOf f := by
  unfold centralFlagOf; rw [h]
  show flagOf f ||| 0 = flagOf f
  exact UInt16.or_zero

/-- … in particular for a record the writer created itself (`using_data_descriptor = false`). -/
theorem closed_specEntry (f : FileData) (dp : UInt16) (gap lx data : Bytes) (lv : UInt16) (lz : Bool)
    (off : Nat) (hdp : f.time.datepart = some dp)
    (hlen : (centralZip64Bytes f).length + f.extraField.length ≤ 65535)
    (hcs : f.compressedSize = UInt64.ofNat data.length)
    (hoff : f.headerStart = UInt64.ofNat off) (hdd : f.usingDataDescriptor = false) :
    Closed { specEntry f dp gap lx data lv with localZip64 := lz } off f :=
  closed_specEntry_gen f dp gap lx data lv lz .none (flagOf f) off hdp hlen hcs hoff
    (by rw [centralFlagOf_plain f hdd]; rfl)

/-! ### Field round trips through the reader's decoders -/

/-- `CompressionMethod::from_u16` then `to_u16` is the identity on all 65536 values. -/
theorem method_roundtrip (m : UInt16) : (Method.fromU16 m).toU16 = m := by
  unfold Method.fromU16
  split
  · rename_i h; exact (eq_of_beq h).symm
  · split
    · rename_i h; exact (eq_of_beq h).symm
    · split
      · rename_i h; exact (eq_of_beq h).symm
      · split
        · rename_i h; exact (eq_of_beq h).symm
        · split
          · rename_i h; exact (eq_of_beq h).symm
          · rfl

/-- `DateTime::from_msdos` then `datepart`/`timepart` is the identity on all 2^32 stamps
(= `Props.C18.dos_unpack_pack`, restated here so that `Lemmas/` does not import `Props/`). -/
theorem msdos_roundtrip (d t : UInt16) :
    (DateTime.fromMsdos d t).datepart = some d ∧ (DateTime.fromMsdos d t).timepart = t := by
  have hf := fromMsdos_fields d t
  have hd := d.toNat_lt
  have ht := t.toNat_lt
  obtain ⟨hfy, hfm, hfd, hfh, hfi, hfs⟩ := fromMsdos_toNat d t
  have hup := Spec.Dos.unpack_pack d.toNat t.toNat hd ht
  constructor
  · obtain ⟨v, hv, hvn⟩ := datepart_toNat (DateTime.fromMsdos d t) (by omega) (by omega) (by omega) (by omega)
    rw [hf, hup.1] at hvn
    rw [hv, UInt16.toNat_inj.mp hvn]
  · apply UInt16.toNat_inj.mp
    rw [timepart_toNat _ (by omega) (by omega) (by omega), hf, hup.2]

/-! ### The normalised entry -/

/-- What `new_append` + `finish` make of the central record of entry `e` (local header `off` bytes after
the end of a prefix of `pre` bytes).  `v` is the record the re-hydration holds. -/
def appendNorm (e : Entry) (off pre : Nat) : Entry :=
  let v := viewEntry e off pre 0
  { -- host byte re-derived from the three-valued `System` (hosts other than 0/3 become 4), low byte kept
    madeBy := (v.system.discr <<< 8) ||| v.versionMadeBy.toUInt16
    -- recomputed from sizes / offset / method, the old value is not kept
    versionNeeded := v.versionNeeded
    -- bit 11 recomputed from the DECODED name, bits 0 and 3 kept, every other bit dropped
    flags := centralFlagOf v
    method := e.method
    time := e.time
    date := e.date
    crc := e.crc
    usize := e.usize
    -- the decoded name (CP437 names are transcoded to UTF-8, ill-formed UTF-8 is replaced)
    name := Text.decodeToUtf8 (e.flagsOut &&& 0x0800 != 0) e.name
    -- the old extra field WITHOUT its ZIP64 records (`strip_zip64_extra_field`, D20): for a `Readable`
    -- entry exactly the foreign records `e.centralExtra`; the new ZIP64 record is put in front of it
    centralExtra := e.keptExtra (UInt64.ofNat off)
    comment := []
    internalAttrs := 0
    externalAttrs := e.externalAttrs
    z64 := (false, false, false)
    -- the local record (descriptor included) is not touched by the rewrite
    localExtra := e.localExtra
    localZip64 := e.localZip64
    desc := e.desc
    gapBefore := e.gapBefore
    data := e.data
    localVersion := some (e.localVersion.getD e.versionNeeded) }

theorem or8_and8 (x : UInt16) : ((x ||| 8) &&& 8 != 0) = true := by
  have : (x ||| 8) &&& 8 = 8 := by bits16
  rw [this]; decide

theorem or8_idem (x : UInt16) : (x ||| 8) ||| 8 = x ||| 8 := by bits16

/-- a descriptor entry's central flags carry bit 3, so its re-hydrated record has `using_data_descriptor` -/
theorem view_usingDD_of_desc (e : Entry) (off pre chs : Nat) (h : e.hasDesc = true) :
    (viewEntry e off pre chs).usingDataDescriptor = true := by
  show (e.flagsOut &&& 0x0008 != 0) = true
  unfold Entry.flagsOut; rw [if_pos h]; exact or8_and8 _

/-- The flag word of the normalised entry's records IS the central flag word the writer emits. -/
theorem appendNorm_flagsOut (e : Entry) (off pre chs : Nat) :
    (appendNorm e off pre).flagsOut = centralFlagOf (viewEntry e off pre chs) := by
  show (if e.hasDesc then centralFlagOf (viewEntry e off pre 0) ||| 8 else centralFlagOf (viewEntry e off pre 0))
    = centralFlagOf (viewEntry e off pre chs)
  cases h : e.hasDesc
  · rfl
  · rw [if_pos rfl]
    unfold centralFlagOf
    rw [view_usingDD_of_desc e off pre 0 h, view_usingDD_of_desc e off pre chs h]
    exact or8_idem _

theorem appendNorm_eq_specEntry (e : Entry) (off pre chs : Nat) :
    appendNorm e off pre =
      { specEntry (appendRecord (viewEntry e off pre chs)) e.date e.gapBefore e.localExtra e.data
          (e.localVersion.getD e.versionNeeded) with
        localZip64 := e.localZip64, desc := e.desc, flags := centralFlagOf (viewEntry e off pre chs) } := by
  unfold appendNorm specEntry appendRecord
  simp only [viewEntry, method_roundtrip, (msdos_roundtrip e.date e.time).2]
  rfl

/-- The only way the rewritten record can fail to serialise: the new ZIP64 record plus the kept part of
the old extra field exceed the 16-bit length field.  (Since D20 the old ZIP64 records are dropped first:
for an entry that `Fits` and is `Readable` this always holds, `appendFits_of_fits_readable`.) -/
def AppendFits (e : Entry) (off pre : Nat) : Prop :=
  (centralZip64Bytes (viewEntry e off pre 0)).length + (e.keptExtra (UInt64.ofNat off)).length ≤ 65535

instance (e : Entry) (off pre : Nat) : Decidable (AppendFits e off pre) := by
  unfold AppendFits; infer_instance

theorem centralZip64Bytes_length_le (f : FileData) : (centralZip64Bytes f).length ≤ 28 := by
  unfold centralZip64Bytes
  by_cases h1 : f.uncompressedSize ≥ ZIP64_BYTES_THR <;> by_cases h2 : f.compressedSize ≥ ZIP64_BYTES_THR <;>
    by_cases h3 : f.headerStart ≥ ZIP64_BYTES_THR <;> simp [h1, h2, h3]

theorem appendFits_of_small (e : Entry) (off pre : Nat) (h : e.centralExtra.length + 56 ≤ 0xFFFF) :
    AppendFits e off pre := by
  unfold AppendFits
  have h1 := centralZip64Bytes_length_le (viewEntry e off pre 0)
  have h2 := centralZ64_length_le e (UInt64.ofNat off)
  have h3 := keptExtra_length_le e (UInt64.ofNat off)
  simp only [Entry.centralExtraAll, List.length_append] at h3
  omega

/-- **Since D20 a `Readable` entry that `Fits` always re-serialises**: what is kept is `e.centralExtra`,
and `Fits` leaves room for one ZIP64 record. -/
theorem appendFits_of_fits_readable (e : Entry) (off pre : Nat) (hf : e.Fits) (hr : e.Readable) :
    AppendFits e off pre := by
  unfold AppendFits
  rw [keptExtra_of_extraOk e _ hr.1]
  have h1 := centralZip64Bytes_length_le (viewEntry e off pre 0)
  have := hf.2.2.2.1
  omega

/-- `appendRecord` only touches the extra field -/
theorem centralZip64Bytes_appendRecord (f : FileData) :
    centralZip64Bytes (appendRecord f) = centralZip64Bytes f := rfl

/-- **`view_closed`** -/
theorem view_closed (e : Entry) (off pre chs : Nat) (hfit : AppendFits e off pre) :
    Closed (appendNorm e off pre) (off + pre) (appendRecord (viewEntry e off pre chs)) := by
  have hfo := appendNorm_flagsOut e off pre chs
  rw [appendNorm_eq_specEntry e off pre chs] at hfo ⊢
  exact closed_specEntry_gen (appendRecord (viewEntry e off pre chs)) e.date e.gapBefore e.localExtra e.data _
    e.localZip64 e.desc _ (off + pre) (msdos_roundtrip e.date e.time).1 hfit rfl rfl hfo


/-! ### When the local record survives: `AppendClean` -/

/-- The rewritten central record still describes the UNCHANGED local record (in the sense of
`Spec.Zip.Entry`, which shares name, flags, method, time and CRC between the two records) iff
* the name is a fixed point of the reader's decoding (ASCII, or flagged UTF-8 and well formed);
* the flag word is exactly what the writer recomputes: bit 11 iff the name is not ASCII, bit 0
  (encrypted) and bit 3 (data descriptor) kept, nothing else.
A data-descriptor entry can be `AppendClean`: its central record keeps bit 3. -/
def AppendClean (e : Entry) : Prop :=
  Text.decodeToUtf8 (e.flagsOut &&& 0x0800 != 0) e.name = e.name ∧
  e.flagsOut = (((if !isAscii e.name then (0x0800 : UInt16) else 0) |||
    (if e.flagsOut &&& 1 == 1 then 1 else 0)) ||| (if e.flagsOut &&& 0x0008 != 0 then 8 else 0))

instance (e : Entry) : Decidable (AppendClean e) := by unfold AppendClean; infer_instance

theorem appendNorm_localBytes (e : Entry) (off pre : Nat) (h : AppendClean e) :
    (appendNorm e off pre).localBytes = e.localBytes := by
  obtain ⟨hn, hf⟩ := h
  have hname : (appendNorm e off pre).name = e.name := hn
  have hflags : (appendNorm e off pre).flagsOut = e.flagsOut := by
    rw [appendNorm_flagsOut e off pre 0]
    show ((if !isAscii (Text.decodeToUtf8 (e.flagsOut &&& 0x0800 != 0) e.name) then (0x0800 : UInt16) else 0) |||
      (if (e.flagsOut &&& 1 == 1) then 1 else 0)) ||| (if (e.flagsOut &&& 0x0008 != 0) then 8 else 0) = e.flagsOut
    rw [hn]
    exact hf.symm
  have hhd : (appendNorm e off pre).hasDesc = e.hasDesc := rfl
  unfold Entry.localBytes localRecord descriptor Entry.csize
  rw [hname, hflags, hhd]
  rfl

/-- In particular the offsets of the following entries line up. -/
theorem appendNorm_localBytes_length (e : Entry) (off pre : Nat) (h : AppendClean e) :
    (appendNorm e off pre).localBytes.length = e.localBytes.length := by
  rw [appendNorm_localBytes e off pre h]

/-- Sufficient condition for the name clause. -/
theorem decode_stable (utf8 : Bool) (name : Bytes)
    (h : isAscii name = true ∨ (utf8 = true ∧ (Spec.utf8Strict name).isSome = true)) :
    Text.decodeToUtf8 utf8 name = name := by
  have key : ∀ s, Spec.utf8Strict name = some s → Text.decodeToUtf8 utf8 name = name := by
    intro s hs
    unfold Text.decodeToUtf8 decodeName
    cases utf8 with
    | true =>
      show Spec.utf8Encode (Spec.utf8Lossy name) = name
      rw [Spec.lossy_of_chunks (Spec.allSome_eq_some hs)]
      exact Spec.encode_of_chunks name s hs
    | false =>
      have ha : allAscii name = true := by
        rcases h with h | h
        · exact h
        · cases h.1
      have hc : fromCp437 name = .ok s := by
        unfold fromCp437; rw [if_pos ha, hs]
      show (match fromCp437 name with | .ok cs => Spec.utf8Encode cs | _ => name) = name
      rw [hc]
      exact Spec.encode_of_chunks name s hs
  rcases h with h | h
  · exact key _ (strict_ascii name h)
  · obtain ⟨s, hs⟩ := Option.isSome_iff_exists.mp h.2
    exact key s hs

/-! ### Entries the crate's own writer produced -/

theorem flagOf_bits (name : Bytes) (enc : Bool) :
    let fl : UInt16 := (if !isAscii name then (0x0800 : UInt16) else 0) ||| (if enc then 1 else 0)
    (fl &&& 0x0800 != 0) = !isAscii name ∧ (fl &&& 1 == 1) = enc ∧ (fl &&& 0x0008 != 0) = false := by
  cases isAscii name <;> cases enc <;> decide

/-- The name of a record the writer created is a Rust `String`: well-formed UTF-8.  Then the flag the
writer chose (bit 11 iff not ASCII) makes the reader decode the name to itself. -/
theorem writer_name_stable (name : Bytes) (enc : Bool) (hs : (Spec.utf8Strict name).isSome = true) :
    Text.decodeToUtf8 (((if !isAscii name then (0x0800 : UInt16) else 0) ||| (if enc then 1 else 0))
      &&& 0x0800 != 0) name = name := by
  rw [(flagOf_bits name enc).1]
  apply decode_stable
  cases h : isAscii name
  · right; exact ⟨rfl, hs⟩
  · left; rfl

/-- **Every entry the crate's writer produces is `AppendClean`** (its name being a `String`). -/
theorem specEntry_appendClean (f : FileData) (dp : UInt16) (gap lx data : Bytes) (lv : UInt16)
    (hs : (Spec.utf8Strict f.fileName).isSome = true) :
    AppendClean (specEntry f dp gap lx data lv) := by
  have hb := flagOf_bits f.fileName f.encrypted
  refine ⟨writer_name_stable f.fileName f.encrypted hs, ?_⟩
  show flagOf f = (((if !isAscii f.fileName then (0x0800 : UInt16) else 0) |||
    (if (flagOf f &&& 1 == 1) then 1 else 0)) ||| (if (flagOf f &&& 0x0008 != 0) then 8 else 0))
  unfold flagOf
  rw [hb.2.1, hb.2.2]
  exact UInt16.or_zero.symm

theorem madeBy_stable (sys : System) (v : UInt8) :
    System.fromU8 (((sys.discr <<< 8) ||| v.toUInt16) >>> 8).toUInt8 = sys ∧
    ((sys.discr <<< 8) ||| v.toUInt16).toUInt8 = v := by
  have key : ∀ v : UInt8,
      (decide (System.fromU8 ((((0 : UInt16) <<< 8) ||| v.toUInt16) >>> 8).toUInt8 = .dos) &&
       decide (System.fromU8 ((((3 : UInt16) <<< 8) ||| v.toUInt16) >>> 8).toUInt8 = .unix) &&
       decide (System.fromU8 ((((4 : UInt16) <<< 8) ||| v.toUInt16) >>> 8).toUInt8 = .unknown) &&
       decide ((((0 : UInt16) <<< 8) ||| v.toUInt16).toUInt8 = v) &&
       decide ((((3 : UInt16) <<< 8) ||| v.toUInt16).toUInt8 = v) &&
       decide ((((4 : UInt16) <<< 8) ||| v.toUInt16).toUInt8 = v)) = true :=
    Spec.forall_byte_of_range (by decide +kernel)
  have := key v
  simp only [Bool.and_eq_true, decide_eq_true_eq] at this
  obtain ⟨⟨⟨⟨⟨h1, h2⟩, h3⟩, h4⟩, h5⟩, h6⟩ := this
  cases sys
  · exact ⟨h1, h4⟩
  · exact ⟨h2, h5⟩
  · exact ⟨h3, h6⟩

/-- **The writer's entries are EXACT fixed points of `appendNorm`** (since D20): re-opening an archive the
crate wrote (no prefix) and finishing again re-emits the same central record — the inherited ZIP64 record
is dropped and regenerated, so the extra field no longer grows.  (`hx`: the record's own extra data carry
no ZIP64 / AES record; the writer's `end_extra_data` refuses those.) -/
theorem appendNorm_specEntry (f : FileData) (dp : UInt16) (gap lx data : Bytes) (lv : UInt16) (off : Nat)
    (hs : (Spec.utf8Strict f.fileName).isSome = true)
    (hm : Method.fromU16 f.method.toU16 = f.method)
    (hcs : f.compressedSize = UInt64.ofNat data.length)
    (hoff : f.headerStart = UInt64.ofNat off) (hx : ExtraOk f.extraField) :
    appendNorm (specEntry f dp gap lx data lv) off 0 = specEntry f dp gap lx data lv := by
  have hk : (specEntry f dp gap lx data lv).keptExtra (UInt64.ofNat off) = f.extraField :=
    keptExtra_of_extraOk _ _ hx
  have hmb := madeBy_stable f.system f.versionMadeBy
  have hn := writer_name_stable f.fileName f.encrypted hs
  have hb := flagOf_bits f.fileName f.encrypted
  unfold appendNorm
  rw [hk]
  simp only [viewEntry, specEntry, Entry.flagsOut, Entry.hasDesc, Entry.csize, Nat.add_zero]
  have hd : (Desc.none != Desc.none) = false := by decide
  simp only [hd, Bool.false_eq_true, if_false]
  have hn' : Text.decodeToUtf8 (!isAscii f.fileName) f.fileName = f.fileName := by
    have := hn; rw [hb.1] at this; exact this
  simp only [FileData.versionNeeded, FileData.zip64Extension, centralFlagOf, flagOf, hm, ← hcs, ← hoff,
    hmb.1, hmb.2, hb.1, hb.2.1, hb.2.2, hn', Option.getD_some, Bool.false_eq_true, if_false,
    UInt16.or_zero]

/-! ### Lists: the whole re-hydrated directory -/

/-- the normalised entries, offsets advancing as `viewList` / `localOffsets` do -/
def appendNormList (pre : Nat) : List Entry → (loc : Nat) → List Entry
  | [], _ => []
  | e :: es, loc =>
    appendNorm e (loc + e.gapBefore.length) pre :: appendNormList pre es (loc + e.localBytes.length)

/-- put `g` in front of the first entry's gap -/
def extendGap (g : Bytes) : List Entry → List Entry
  | [] => []
  | e :: es => { e with gapBefore := g ++ e.gapBefore } :: es

/-- The entries of the archive the appending writer continues: the normalised entries; the new archive
has no prefix, the old prefix becomes dead bytes in front of the first local header. -/
def appendNormAll (l : Layout) : List Entry :=
  extendGap l.pre (appendNormList l.pre.length l.entries 0)

/-- … and the dead bytes in front of the (old) central directory; an archive without entries keeps its
prefix there. -/
def appendGap (l : Layout) : Bytes :=
  match l.entries with
  | [] => l.pre ++ l.gapBeforeCd
  | _ :: _ => l.gapBeforeCd

theorem closed_gap_irrel (e : Entry) (g : Bytes) (off : Nat) (f : FileData) :
    Closed { e with gapBefore := g } off f ↔ Closed e off f := Iff.rfl

theorem closedAll_list (pre : Nat) : ∀ (es : List Entry) (loc chs : Nat),
    (∀ e ∈ es, AppendClean e ∧ e.centralExtra.length + 56 ≤ 0xFFFF) →
    ClosedAll (appendNormList pre es loc) (loc + pre) ((viewList pre es loc chs).map appendRecord) := by
  intro es
  induction es with
  | nil => intro _ _ _; exact True.intro
  | cons e es ih =>
    intro loc chs hall
    obtain ⟨hc, hx⟩ := hall e List.mem_cons_self
    show Closed (appendNorm e (loc + e.gapBefore.length) pre)
        (loc + pre + (appendNorm e (loc + e.gapBefore.length) pre).gapBefore.length) _ ∧
      ClosedAll _ (loc + pre + (appendNorm e (loc + e.gapBefore.length) pre).localBytes.length) _
    rw [appendNorm_localBytes_length _ _ _ hc]
    have e1 : loc + pre + (appendNorm e (loc + e.gapBefore.length) pre).gapBefore.length =
        loc + e.gapBefore.length + pre := by
      show loc + pre + e.gapBefore.length = _; omega
    have e2 : loc + pre + e.localBytes.length = loc + e.localBytes.length + pre := by omega
    rw [e1, e2]
    exact ⟨view_closed e _ pre chs (appendFits_of_small e _ pre hx),
      ih _ _ (fun x hx => hall x (List.mem_cons_of_mem _ hx))⟩

theorem closedAll_extendGap (g : Bytes) : ∀ (es : List Entry) (fs : List FileData),
    ClosedAll es g.length fs → ClosedAll (extendGap g es) 0 fs := by
  intro es fs h
  cases es with
  | nil => cases fs <;> exact h
  | cons e es =>
    cases fs with
    | nil => exact h
    | cons f fs =>
      obtain ⟨h1, h2⟩ := h
      refine ⟨?_, ?_⟩
      · show Closed e (0 + (g ++ e.gapBefore).length) f
        rw [List.length_append, Nat.zero_add]; exact h1
      · show ClosedAll es (0 + (g ++ e.gapBefore ++ localRecord e ++ e.data ++ descriptor e).length) fs
        have : 0 + (g ++ e.gapBefore ++ localRecord e ++ e.data ++ descriptor e).length =
            g.length + e.localBytes.length := by
          simp only [Entry.localBytes, List.length_append]; omega
        rw [this]; exact h2

/-- **`viewOf_closedAll`** -/
theorem viewOf_closedAll (l : Layout)
    (hall : ∀ e ∈ l.entries, AppendClean e ∧ e.centralExtra.length + 56 ≤ 0xFFFF) :
    ClosedAll (appendNormAll l) 0 ((viewOf l).map appendRecord) := by
  apply closedAll_extendGap
  have := closedAll_list l.pre.length l.entries 0 l.cdStart hall
  rwa [Nat.zero_add] at this

theorem localsBytes_appendNormList (pre : Nat) : ∀ (es : List Entry) (loc : Nat),
    (∀ e ∈ es, AppendClean e) → localsBytes (appendNormList pre es loc) = localsBytes es := by
  intro es
  induction es with
  | nil => intro _ _; rfl
  | cons e es ih =>
    intro loc hall
    show localsBytes (appendNorm e _ pre :: appendNormList pre es _) = _
    rw [localsBytes_cons, localsBytes_cons, appendNorm_localBytes _ _ _ (hall e List.mem_cons_self),
      ih _ (fun x hx => hall x (List.mem_cons_of_mem _ hx))]

theorem localsBytes_extendGap (g : Bytes) (e : Entry) (es : List Entry) :
    localsBytes (extendGap g (e :: es)) = g ++ localsBytes (e :: es) := by
  show localsBytes ({ e with gapBefore := g ++ e.gapBefore } :: es) = _
  rw [localsBytes_cons, localsBytes_cons]
  simp [Entry.localBytes, localRecord, descriptor, Entry.flagsOut, Entry.hasDesc, Entry.csize]

/-- **The live part of the sink is the local part of the normalised layout.** -/
theorem appendNormAll_bytes (l : Layout) (hall : ∀ e ∈ l.entries, AppendClean e) :
    localsBytes (appendNormAll l) ++ appendGap l = l.pre ++ localsBytes l.entries ++ l.gapBeforeCd := by
  unfold appendNormAll appendGap
  cases hes : l.entries with
  | nil => simp [appendNormList, extendGap, localsBytes]
  | cons e es =>
    rw [hes] at hall
    have h1 : appendNormList l.pre.length (e :: es) 0 =
        appendNorm e (0 + e.gapBefore.length) l.pre.length ::
          appendNormList l.pre.length es (0 + e.localBytes.length) := rfl
    rw [h1, localsBytes_extendGap, ← h1, localsBytes_appendNormList _ _ _ hall]

/-! ### Is the normalised entry again an entry `reader_on_wf` (C03) covers? -/

/-- **Since D20 the normalised entry of a `Readable` entry is `Readable` again**, ZIP64 or not … -/
theorem appendNorm_readable (e : Entry) (off pre : Nat) (hr : e.Readable) :
    (appendNorm e off pre).Readable := by
  refine ⟨?_, hr.2⟩
  show ExtraOk (e.keptExtra (UInt64.ofNat off))
  rw [keptExtra_of_extraOk e _ hr.1]; exact hr.1

/-- … and so is that of an entry whose foreign extra data contain further ZIP64 records (`ExtraOkZ`-style):
they are dropped. -/
theorem appendNorm_readable_of_okZ (e : Entry) (off pre : Nat) (hm : e.method ≠ 99) (a : Bool)
    (hx : extraOkZAux a e.centralExtra.length e.centralExtra = true) :
    (appendNorm e off pre).Readable :=
  ⟨keptExtra_extraOk e _ a hx, hm⟩

/-- … and it still `Fits` when it is `AppendClean` (the name keeps its length). -/
theorem appendNorm_fits (e : Entry) (off pre : Nat) (hf : e.Fits) (hc : AppendClean e)
    (hr : e.Readable) : (appendNorm e off pre).Fits := by
  obtain ⟨h1, _, h3, h4, h5, h6⟩ := hf
  have hname : (appendNorm e off pre).name = e.name := hc.1
  refine ⟨by rw [hname]; exact h1, by show ([] : Bytes).length ≤ 0xFFFF; simp, h3, ?_, h5, h6⟩
  show (e.keptExtra (UInt64.ofNat off)).length + 28 ≤ 0xFFFF
  rw [keptExtra_of_extraOk e _ hr.1]; exact h4

/-- one foreign record is a well-formed extra field -/
theorem extraOk_single (id : UInt16) (payload : Bytes) (h1 : id ≠ 1) (h2 : id ≠ 0x9901)
    (hl : payload.length ≤ 65535) :
    ExtraOk (le16 id ++ le16 (UInt16.ofNat payload.length) ++ payload) := by
  unfold ExtraOk
  have hlen : (le16 id ++ le16 (UInt16.ofNat payload.length) ++ payload).length = (payload.length + 2) + 1 + 1 := by
    simp; omega
  rw [hlen, List.append_assoc]
  unfold extraOkAux
  have hne : (le16 id ++ (le16 (UInt16.ofNat payload.length) ++ payload)).isEmpty = false := by simp [le16]
  rw [hne]
  simp only [Bool.false_eq_true, if_false, rd16_le16]
  have ht : (UInt16.ofNat payload.length).toNat = payload.length := by
    rw [UInt16.toNat_ofNat']; omega
  rw [ht, List.drop_length]
  unfold extraOkAux
  simp [h1, h2]


/-! ### `new_append` lands in the writer invariant's base shape -/

/-- A name that decodes to itself is written back with its own length: an `AppendClean` entry that `Fits`
is never refused by the A6 check of `new_append`. -/
theorem appendNameFits_of_clean (e : Entry) (hf : e.Fits) (hc : AppendClean e) : AppendNameFits e := by
  unfold AppendNameFits
  rw [hc.1]
  exact hf.1

theorem appendNamesFit_of_clean (l : Layout) (hF : l.Fits) (hall : ∀ e ∈ l.entries, AppendClean e) :
    ∀ e ∈ l.entries, AppendNameFits e :=
  fun e he => appendNameFits_of_clean e (hF.1 e he) (hall e he)

/-- **`append_open_is_base_state`** — shape (A) of the writer invariant after `new_append` on a layout all
of whose entries are `AppendClean`: the live part of the sink (everything in front of the position) is
the local part of the prefix-less layout `appendNormAll l` followed by the dead bytes `appendGap l`, the
re-hydrated records are `ClosedAll` for it, no entry is open, the sink is a plain storer. -/
theorem append_open_is_base_state (l : Layout) (hF : l.Fits) (hR : l.Readable) (hS : NoFalseSig l)
    (ht : l.trailing = [] ∨ l.needs64 = false)
    (hall : ∀ e ∈ l.entries, AppendClean e ∧ e.centralExtra.length + 56 ≤ 0xFFFF) :
    ∃ s d, newAppend.runPure (Dev.ofBytes (build l)) = (.ok s, d) ∧
      d.buf = build l ∧ d.pos = l.cdStart ∧
      d.buf.take d.pos = localsBytes (appendNormAll l) ++ appendGap l ∧
      ClosedAll (appendNormAll l) 0 s.files ∧
      s.files = (viewOf l).map appendRecord ∧ s.comment = l.comment ∧
      s.inner = .storer none ∧ s.writingToFile = false ∧ s.writingToExtraField = false ∧
      s.centralOnly = false ∧ (s.files = [] ∨ s.writingRaw = true) := by
  obtain ⟨d, h1, h2, h3⟩ := newAppend_on_layout l hF
    (appendNamesFit_of_clean l hF (fun e he => (hall e he).1)) hR hS ht
  refine ⟨appendStateOf l, d, h1, h2, h3, ?_, viewOf_closedAll l hall, rfl, rfl, rfl, rfl, rfl, rfl,
    Or.inr rfl⟩
  rw [h2, h3, take_cdStart, appendNormAll_bytes l (fun e he => (hall e he).1)]

end ZipVerif.WL
