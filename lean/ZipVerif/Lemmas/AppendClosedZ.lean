import ZipVerif.Lemmas.AppendClosed
/-
`new_append` on a `ReadableZ` base (foreign archives whose central extra data contain redundant ZIP64
records, Lemmas/CentralParseZ.lean).  Since the D20 repair (`strip_zip64_extra_field`) every inherited
ZIP64 record is dropped, so the normalised entries — hence the appended archive — are plainly `Readable`
again, with no condition on the sizes.  (Before the repair the old record was kept and the appended
archive was only `ReadableZ`, and not even that when a real size was exactly 0xFFFFFFFF: D20.)
-/

namespace ZipVerif.WL
open ZipVerif ZipVerif.Model ZipVerif.Spec.Zip

theorem appendNormList_readable (pre : Nat) : ∀ (es : List Entry) (loc : Nat), ReadableZFrom es loc →
    ∀ e ∈ appendNormList pre es loc, e.Readable := by
  intro es
  induction es with
  | nil => intro _ _ e he; cases he
  | cons x xs ih =>
    intro loc hz e he
    obtain ⟨⟨hm, hx⟩, hrest⟩ := hz
    rcases List.mem_cons.mp he with h | h
    · rw [h]; exact appendNorm_readable_of_okZ x _ pre hm _ hx
    · exact ih _ hrest e h

/-- **The normalised entries of a `ReadableZ` base are `Readable`.** -/
theorem appendNormAll_readable (l : Layout) (hR : l.ReadableZ) : ∀ e ∈ appendNormAll l, e.Readable := by
  have h := appendNormList_readable l.pre.length l.entries 0 hR
  unfold appendNormAll
  cases hl : appendNormList l.pre.length l.entries 0 with
  | nil => intro e he; cases he
  | cons x xs =>
    rw [hl] at h
    intro e he
    rcases List.mem_cons.mp he with h' | h'
    · rw [h']; exact h x List.mem_cons_self
    · exact h e (List.mem_cons_of_mem _ h')

/-- `append_open_is_base_state` under `ReadableZ`. -/
theorem append_open_is_base_stateZ (l : Layout) (hF : l.Fits) (hR : l.ReadableZ) (hS : NoFalseSig l)
    (ht : l.trailing = [] ∨ l.needs64 = false)
    (hall : ∀ e ∈ l.entries, AppendClean e ∧ e.centralExtra.length + 56 ≤ 0xFFFF) :
    ∃ s d, newAppend.runPure (Dev.ofBytes (build l)) = (.ok s, d) ∧
      d.buf = build l ∧ d.pos = l.cdStart ∧
      d.buf.take d.pos = localsBytes (appendNormAll l) ++ appendGap l ∧
      ClosedAll (appendNormAll l) 0 s.files ∧
      s.files = (viewOf l).map appendRecord ∧ s.comment = l.comment ∧
      s.inner = .storer none ∧ s.writingToFile = false ∧ s.writingToExtraField = false ∧
      s.centralOnly = false ∧ (s.files = [] ∨ s.writingRaw = true) := by
  obtain ⟨d, h1, h2, h3⟩ := newAppend_on_layoutZ l hF
    (appendNamesFit_of_clean l hF (fun e he => (hall e he).1)) hR hS ht
  refine ⟨appendStateOf l, d, h1, h2, h3, ?_, viewOf_closedAll l hall, rfl, rfl, rfl, rfl, rfl, rfl,
    Or.inr rfl⟩
  rw [h2, h3, take_cdStart, appendNormAll_bytes l (fun e he => (hall e he).1)]

end ZipVerif.WL
