import ZipVerif.Lemmas.ReadWfZ
import ZipVerif.Lemmas.StripZip64
import ZipVerif.Lemmas.WLDefs
/-
`ZipWriter::new_append` (`Model.newAppend`) on `Spec.Zip.build l`: the same end-record search, ZIP64
probe and central-directory loop as `ZipArchive::new` (`Lemmas/ReadWf.lean`), then the seek back to the
old central directory, which the appending writer will overwrite.

Differences to `openArchive` that matter here:
* the disk check is unconditional (`footer.diskNumber != footer.diskWithCd`, no `record_too_small`);
* the D16 check `directory_start > cde_start → InvalidArchive`;
* each re-hydrated record whose DECODED name no longer fits the 16-bit name length field is refused with
  `UnsupportedArchive` (A6 repair; `AppendNameFits` is the condition under which that does not happen);
* the result is a writer state (`WState.init` with the re-hydrated records — each passed through
  `appendRecord`, which drops inherited ZIP64 extra records (D20) —, the old comment and
  `writing_raw = true`), and the device is left positioned at `directory_start`.
-/

namespace ZipVerif.Model
open ZipVerif ZipVerif.Spec.Zip

/-- The name `new_append` would write back for `e` — the reader's DECODED name: a CP437 name transcoded to
UTF-8, ill-formed flagged UTF-8 replaced by U+FFFD — still fits the 16-bit name length field.  Otherwise
`new_append` refuses the archive (`newAppend_refuses_long_name`).  Decidable; every entry whose name
decodes to itself (`AppendClean`: ASCII or flagged well-formed UTF-8) and `Fits` has it. -/
def AppendNameFits (e : Entry) : Prop :=
  (Text.decodeToUtf8 (e.flagsOut &&& 0x0800 != 0) e.name).length ≤ 65535

instance (e : Entry) : Decidable (AppendNameFits e) := by unfold AppendNameFits; infer_instance

/-- the `let rec` loop of `newAppend` on the central directory of a layout: the reader's views, each
passed through `appendRecord` (the D20 repair: inherited ZIP64 extra records are dropped) -/
theorem parses_appendLoopZ (ao : Nat) : ∀ (es : List Entry) (loc chs : Nat),
    (∀ e ∈ es, e.Fits) → (∀ e ∈ es, AppendNameFits e) → ReadableZFrom es loc →
    loc + (localsBytes es).length + ao < 2 ^ 64 →
    Parses (newAppend.loop ao es.length) chs (centralBytes es (localOffsets es loc))
      ((viewList ao es loc chs).map appendRecord) := by
  intro es
  induction es with
  | nil => intro loc chs _ _ _ _; exact Parses.pure _
  | cons e es ih =>
    intro loc chs hall hnm hz hb
    have he := hall e (List.mem_cons_self)
    have hne : ¬ (viewEntry e (loc + e.gapBefore.length) ao chs).fileName.length > 65535 :=
      Nat.not_lt.mpr (hnm e List.mem_cons_self)
    obtain ⟨⟨hm, hx⟩, hzr⟩ := hz
    rw [localsBytes_cons, List.length_append] at hb
    have hlb : e.gapBefore.length ≤ e.localBytes.length := by
      simp only [Entry.localBytes, List.length_append]; omega
    show Parses (newAppend.loop ao (es.length + 1)) chs
      (centralRecord e (UInt64.ofNat (loc + e.gapBefore.length)) ++
        centralBytes es (localOffsets es (loc + e.localBytes.length))) _
    unfold newAppend.loop
    refine Parses.bind (parses_centralHeaderZ e _ ao chs he hx hm (by omega)) ?_
    rw [if_neg hne]
    refine Parses.bind_last (ih _ _ (fun x hx => hall x (List.mem_cons_of_mem _ hx))
      (fun x hx => hnm x (List.mem_cons_of_mem _ hx)) hzr (by omega)) ?_
    exact Parses.pure _

/-- **The loop refuses** (A6 repair): as soon as it has read the record of an entry whose decoded name
does not fit the name length field it stops with `UnsupportedArchive`, before the next record is read. -/
theorem runs_appendLoop_refuses (ao : Nat) : ∀ (es : List Entry) (loc chs : Nat),
    (∀ e ∈ es, e.Fits) → (∃ e ∈ es, ¬ AppendNameFits e) → ReadableZFrom es loc →
    loc + (localsBytes es).length + ao < 2 ^ 64 →
    ∀ B rest, B.drop chs = centralBytes es (localOffsets es loc) ++ rest →
    ∃ q, Runs (newAppend.loop ao es.length) B chs (.err .unsupportedArchive) q := by
  intro es
  induction es with
  | nil => intro loc chs _ ⟨e, he, _⟩; cases he
  | cons e es ih =>
    intro loc chs hall hbad hz hb B rest hB
    have he := hall e (List.mem_cons_self)
    obtain ⟨⟨hm, hx⟩, hzr⟩ := hz
    rw [localsBytes_cons, List.length_append] at hb
    have hlb : e.gapBefore.length ≤ e.localBytes.length := by
      simp only [Entry.localBytes, List.length_append]; omega
    have hB' : B.drop chs = centralRecord e (UInt64.ofNat (loc + e.gapBefore.length)) ++
        (centralBytes es (localOffsets es (loc + e.localBytes.length)) ++ rest) := by
      rw [hB]
      show (centralRecord e (UInt64.ofNat (loc + e.gapBefore.length)) ++
        centralBytes es (localOffsets es (loc + e.localBytes.length))) ++ rest = _
      rw [List.append_assoc]
    have hhdr := (parses_centralHeaderZ e _ ao chs he hx hm (by omega)).toRuns hB'
    show ∃ q, Runs (newAppend.loop ao (es.length + 1)) B chs _ q
    unfold newAppend.loop
    by_cases hn : AppendNameFits e
    · have hne : ¬ (viewEntry e (loc + e.gapBefore.length) ao chs).fileName.length > 65535 :=
        Nat.not_lt.mpr hn
      obtain ⟨x, hx', hxb⟩ := hbad
      have hx'' : x ∈ es := by
        rcases List.mem_cons.mp hx' with h | h
        · exact absurd (h ▸ hn) hxb
        · exact h
      obtain ⟨q, hq⟩ := ih _ _ (fun y hy => hall y (List.mem_cons_of_mem _ hy)) ⟨x, hx'', hxb⟩ hzr (by omega)
        B rest (drop_past hB')
      refine ⟨q, Runs.bind hhdr ?_⟩
      rw [if_neg hne]
      exact Runs.bind_err hq
    · have hgt : (viewEntry e (loc + e.gapBefore.length) ao chs).fileName.length > 65535 :=
        Nat.lt_of_not_le hn
      refine ⟨chs + (centralRecord e (UInt64.ofNat (loc + e.gapBefore.length))).length, Runs.bind hhdr ?_⟩
      rw [if_pos hgt]
      exact Runs.throw _

/-- The writer state `new_append` builds for the layout `l`. -/
def appendStateOf (l : Layout) : WState :=
  { WState.init with files := (viewOf l).map appendRecord, comment := l.comment, writingRaw := true }

/-- the run of `new_append`'s central-directory loop on `build l` -/
abbrev AppendLoopRuns (l : Layout) : Prop :=
  Runs (newAppend.loop l.pre.length l.entries.length) (build l) l.cdStart
    (.ok ((viewOf l).map appendRecord))
    (l.cdStart + (centralBytes l.entries (localOffsets l.entries 0)).length)

theorem runs_appendLoopZ (l : Layout) (hF : l.Fits) (hN : ∀ e ∈ l.entries, AppendNameFits e)
    (hR : l.ReadableZ) : AppendLoopRuns l := by
  have hb := fits_bounds l hF
  exact (parses_appendLoopZ l.pre.length l.entries 0 l.cdStart hF.1 hN hR (by omega)).toRuns (drop_cdStart l)

/-- The tail of `newAppend` once the end record and the directory counts are known. -/
theorem runs_newAppend_tail_of_loop (l : Layout) (hF : l.Fits)
    (hloop : AppendLoopRuns l) (p1 q1 : Nat)
    (hfind : Runs findAndParseEocd (build l) p1 (.ok (eocdOf l, l.eocdPos))
      (l.eocdPos + 22 + l.comment.length))
    (hcounts : Runs (getDirectoryCounts (eocdOf l) l.eocdPos) (build l)
      (l.eocdPos + 22 + l.comment.length) (.ok (l.pre.length, l.cdStart, l.entries.length)) q1) :
    Runs newAppend (build l) p1 (.ok (appendStateOf l)) l.cdStart := by
  have hb := fits_bounds l hF
  have hle : ¬ l.cdStart > l.eocdPos := by
    simp only [Layout.eocdPos]; omega
  unfold newAppend
  refine Runs.bind hfind ?_
  dsimp only
  rw [if_neg (by simp [eocdOf])]
  refine Runs.bind hcounts ?_
  dsimp only
  rw [if_neg hle]
  refine Runs.bind (Runs.attempt_ok (Runs.seek_start _)) ?_
  dsimp only
  refine Runs.bind hloop ?_
  refine Runs.bind (Runs.seek_start l.cdStart) ?_
  exact Runs.pure _

/-- The tail of `newAppend` when the central-directory loop ends in an error: that error is `new_append`'s
result (nothing was written: `Runs` keeps the buffer). -/
theorem runs_newAppend_tail_of_loop_err (l : Layout) (hF : l.Fits) {e : ZErr} {q : Nat}
    (hloop : Runs (newAppend.loop l.pre.length l.entries.length) (build l) l.cdStart (.err e) q)
    (p1 q1 : Nat)
    (hfind : Runs findAndParseEocd (build l) p1 (.ok (eocdOf l, l.eocdPos))
      (l.eocdPos + 22 + l.comment.length))
    (hcounts : Runs (getDirectoryCounts (eocdOf l) l.eocdPos) (build l)
      (l.eocdPos + 22 + l.comment.length) (.ok (l.pre.length, l.cdStart, l.entries.length)) q1) :
    Runs newAppend (build l) p1 (.err e) q := by
  have hb := fits_bounds l hF
  have hle : ¬ l.cdStart > l.eocdPos := by
    simp only [Layout.eocdPos]; omega
  unfold newAppend
  refine Runs.bind hfind ?_
  dsimp only
  rw [if_neg (by simp [eocdOf])]
  refine Runs.bind hcounts ?_
  dsimp only
  rw [if_neg hle]
  refine Runs.bind (Runs.attempt_ok (Runs.seek_start _)) ?_
  dsimp only
  exact Runs.bind_err hloop

/-- what the rest of `newAppend` does once the end record and the directory counts are known, as a
parameter of the two end-record analyses below -/
abbrev AppendTail (l : Layout) (o : Out WState) (q : Nat) : Prop :=
  ∀ p1 q1 : Nat,
    Runs findAndParseEocd (build l) p1 (.ok (eocdOf l, l.eocdPos)) (l.eocdPos + 22 + l.comment.length) →
    Runs (getDirectoryCounts (eocdOf l) l.eocdPos) (build l)
      (l.eocdPos + 22 + l.comment.length) (.ok (l.pre.length, l.cdStart, l.entries.length)) q1 →
    Runs newAppend (build l) p1 o q

/-- the run of `new_append`'s loop on `build l`, from `Readable` -/
theorem runs_appendLoop (l : Layout) (hF : l.Fits) (hN : ∀ e ∈ l.entries, AppendNameFits e)
    (hR : l.Readable) : AppendLoopRuns l :=
  runs_appendLoopZ l hF hN (readable_imp_readableZ l hR)

theorem runs_newAppend_tail (l : Layout) (hF : l.Fits) (hN : ∀ e ∈ l.entries, AppendNameFits e)
    (hR : l.Readable) (p1 q1 : Nat)
    (hfind : Runs findAndParseEocd (build l) p1 (.ok (eocdOf l, l.eocdPos))
      (l.eocdPos + 22 + l.comment.length))
    (hcounts : Runs (getDirectoryCounts (eocdOf l) l.eocdPos) (build l)
      (l.eocdPos + 22 + l.comment.length) (.ok (l.pre.length, l.cdStart, l.entries.length)) q1) :
    Runs newAppend (build l) p1 (.ok (appendStateOf l)) l.cdStart :=
  runs_newAppend_tail_of_loop l hF (runs_appendLoop l hF hN hR) p1 q1 hfind hcounts

/-- **`new_append` on a layout without ZIP64 end records** (the central-directory loop's run given). -/
theorem append_plain_of_tail (l : Layout) (hF : l.Fits) {o : Out WState} {q : Nat}
    (htail : AppendTail l o q) (h64 : l.needs64 = false)
    (hwin : l.comment.length + l.trailing.length ≤ 65535)
    (hnfE : ∀ k, l.eocdPos < k → k + 22 ≤ (build l).length → u32At (build l) k ≠ some sigEocd)
    (hnfL : 42 + l.comment.length ≤ (build l).length →
      u32At (build l) ((build l).length - 42 - l.comment.length) ≠ some sigLocator) (p0 : Nat) :
    Runs newAppend (build l) p0 o q := by
  obtain ⟨he, hsz, hoff, hcnt, hpos⟩ := plain_facts l h64
  have hlen := build_length l
  have hb := fits_bounds l hF
  have hc := hF.2.1
  have hfind := runs_findAndParseEocd (p0 := p0) (u32At_eocdPos l) (runs_parseEocd_build l hc)
    (by omega) (by omega) hnfE
  have hle : (eocdOf l).cdSize.toNat + (eocdOf l).cdOffset.toNat ≤ l.eocdPos := by omega
  obtain ⟨q1, hq1⟩ := runs_getDirectoryCounts_plain (B := build l) (footer := eocdOf l)
    (cdeStart := l.eocdPos) (p0 := l.eocdPos + 22 + l.comment.length) hnfL (by intro _; have hcm : (eocdOf l).comment = l.comment := rfl; rw [hcm]; omega) hle
  have hq1' : Runs (getDirectoryCounts (eocdOf l) l.eocdPos) (build l) (l.eocdPos + 22 + l.comment.length)
      (.ok (l.pre.length, l.cdStart, l.entries.length)) q1 := by
    refine hq1.cast ?_ rfl
    rw [hsz, hoff, hcnt, hpos]
    have e1 : l.pre.length + l.cdOffset + l.cdSize - l.cdSize - l.cdOffset = l.pre.length := by omega
    rw [e1, Nat.add_comm l.cdOffset]
    rfl
  exact htail p0 q1 hfind hq1'

theorem append_plain_of_loop (l : Layout) (hF : l.Fits)
    (hloop : AppendLoopRuns l) (h64 : l.needs64 = false)
    (hwin : l.comment.length + l.trailing.length ≤ 65535)
    (hnfE : ∀ k, l.eocdPos < k → k + 22 ≤ (build l).length → u32At (build l) k ≠ some sigEocd)
    (hnfL : 42 + l.comment.length ≤ (build l).length →
      u32At (build l) ((build l).length - 42 - l.comment.length) ≠ some sigLocator) (p0 : Nat) :
    Runs newAppend (build l) p0 (.ok (appendStateOf l)) l.cdStart :=
  append_plain_of_tail l hF (runs_newAppend_tail_of_loop l hF hloop) h64 hwin hnfE hnfL p0

/-- **`new_append` on a layout without ZIP64 end records.** -/
theorem append_plain (l : Layout) (hF : l.Fits) (hN : ∀ e ∈ l.entries, AppendNameFits e)
    (hR : l.Readable) (h64 : l.needs64 = false)
    (hwin : l.comment.length + l.trailing.length ≤ 65535)
    (hnfE : ∀ k, l.eocdPos < k → k + 22 ≤ (build l).length → u32At (build l) k ≠ some sigEocd)
    (hnfL : 42 + l.comment.length ≤ (build l).length →
      u32At (build l) ((build l).length - 42 - l.comment.length) ≠ some sigLocator) (p0 : Nat) :
    Runs newAppend (build l) p0 (.ok (appendStateOf l)) l.cdStart :=
  append_plain_of_loop l hF (runs_appendLoop l hF hN hR) h64 hwin hnfE hnfL p0

/-- **`new_append` on a layout with ZIP64 end record + locator** (the loop's run given). -/
theorem append_z64_of_tail (l : Layout) (hF : l.Fits) {o : Out WState} {q : Nat}
    (htail : AppendTail l o q) (h64 : l.needs64 = true)
    (ht : l.trailing = [])
    (hnfE : ∀ k, l.eocdPos < k → k + 22 ≤ (build l).length → u32At (build l) k ≠ some sigEocd)
    (hnf64 : ∀ k, l.cdOffset + l.cdSize ≤ k → k < l.end64Pos → u32At (build l) k ≠ some sigEocd64)
    (p0 : Nat) :
    Runs newAppend (build l) p0 o q := by
  have hlen := build_length l
  have hb := fits_bounds l hF
  have hc := hF.2.1
  have he := end64_eq l h64
  have hel : l.end64.length = 76 := by rw [he]; simp
  have hcl := count_le_locals l.entries
  rw [ht] at hlen hb
  simp only [List.length_nil, Nat.add_zero] at hlen hb
  have hcob : l.pre.length + l.cdOffset + l.cdSize + 98 + l.comment.length < 2 ^ 63 := by
    simp only [Layout.cdOffset]; omega
  have hcnt : l.count ≤ l.cdOffset := by simp only [Layout.cdOffset, Layout.count]; omega
  have hpos : l.eocdPos = l.end64Pos + 76 := by simp [Layout.eocdPos, Layout.end64Pos, hel]
  have h64p : l.end64Pos = l.pre.length + l.cdOffset + l.cdSize := by
    simp [Layout.end64Pos, Layout.cdStart]
  have hfind := runs_findAndParseEocd (p0 := p0) (u32At_eocdPos l) (runs_parseEocd_build l hc)
    (by omega) (by omega) hnfE
  have hd := drop_end64Pos l
  rw [he, List.append_assoc] at hd
  have hrec : (build l).drop l.end64Pos = le32 EOCD64_SIG ++ (le64 44 ++ (le16 l.end64Versions.1 ++
      (le16 l.end64Versions.2 ++ (le32 0 ++ (le32 0 ++ (le64 (UInt64.ofNat l.count) ++
      (le64 (UInt64.ofNat l.count) ++ (le64 (UInt64.ofNat l.cdSize) ++ (le64 (UInt64.ofNat l.cdOffset) ++
      ((le32 LOCATOR_SIG ++ (le32 0 ++ (le64 (UInt64.ofNat (l.cdOffset + l.cdSize)) ++ le32 1))) ++
        (l.eocd ++ l.trailing))))))))))) := by
    rw [hd]; simp only [List.append_assoc]
  have hloc : (build l).drop ((build l).length - 42 - (eocdOf l).comment.length) =
      le32 LOCATOR_SIG ++ (le32 0 ++ (le64 (UInt64.ofNat (l.cdOffset + l.cdSize)) ++ le32 1)) ++
        (l.eocd ++ l.trailing) := by
    have := drop_past hd
    have e : (build l).length - 42 - (eocdOf l).comment.length = l.end64Pos + 56 := by
      show (build l).length - 42 - l.comment.length = _
      omega
    rw [e]
    simpa using this
  have hnom : (UInt64.ofNat (l.cdOffset + l.cdSize)).toNat = l.cdOffset + l.cdSize :=
    u64_ofNat_toNat (by omega)
  have hq1 := runs_getDirectoryCounts_z64 (B := build l) (footer := eocdOf l) (cdeStart := l.eocdPos)
    (p0 := l.eocdPos + 22 + l.comment.length) (real := l.end64Pos)
    (by show 42 + l.comment.length ≤ _; omega) hloc (by simp [eocdOf]) hrec (by omega) (by omega)
    (by rw [hnom]; omega) (by rw [hnom]; exact hnf64)
    (by rw [hnom, u64_ofNat_toNat (n := l.cdOffset) (by omega)]; omega)
  have hq1' : Runs (getDirectoryCounts (eocdOf l) l.eocdPos) (build l) (l.eocdPos + 22 + l.comment.length)
      (.ok (l.pre.length, l.cdStart, l.entries.length)) (l.end64Pos + 56) := by
    refine hq1.cast ?_ rfl
    rw [hnom, u64_ofNat_toNat (n := l.cdOffset) (by omega),
      u64_ofNat_toNat (n := l.count) (by omega)]
    have e1 : l.end64Pos - (l.cdOffset + l.cdSize) = l.pre.length := by omega
    rw [e1, Nat.add_comm l.cdOffset]
    rfl
  exact htail p0 _ hfind hq1'

theorem append_z64_of_loop (l : Layout) (hF : l.Fits)
    (hloop : AppendLoopRuns l) (h64 : l.needs64 = true)
    (ht : l.trailing = [])
    (hnfE : ∀ k, l.eocdPos < k → k + 22 ≤ (build l).length → u32At (build l) k ≠ some sigEocd)
    (hnf64 : ∀ k, l.cdOffset + l.cdSize ≤ k → k < l.end64Pos → u32At (build l) k ≠ some sigEocd64)
    (p0 : Nat) :
    Runs newAppend (build l) p0 (.ok (appendStateOf l)) l.cdStart :=
  append_z64_of_tail l hF (runs_newAppend_tail_of_loop l hF hloop) h64 ht hnfE hnf64 p0

/-- **`new_append` on a layout with ZIP64 end record + locator** (nothing after the comment). -/
theorem append_z64 (l : Layout) (hF : l.Fits) (hN : ∀ e ∈ l.entries, AppendNameFits e)
    (hR : l.Readable) (h64 : l.needs64 = true)
    (ht : l.trailing = [])
    (hnfE : ∀ k, l.eocdPos < k → k + 22 ≤ (build l).length → u32At (build l) k ≠ some sigEocd)
    (hnf64 : ∀ k, l.cdOffset + l.cdSize ≤ k → k < l.end64Pos → u32At (build l) k ≠ some sigEocd64)
    (p0 : Nat) :
    Runs newAppend (build l) p0 (.ok (appendStateOf l)) l.cdStart :=
  append_z64_of_loop l hF (runs_appendLoop l hF hN hR) h64 ht hnfE hnf64 p0

/-- `newAppend_on_layout` with the run of the central-directory loop as a hypothesis. -/
theorem newAppend_on_layout_of_tail (l : Layout) (hF : l.Fits) {o : Out WState} {q : Nat}
    (htail : AppendTail l o q) (hS : NoFalseSig l)
    (ht : l.trailing = [] ∨ l.needs64 = false) :
    ∃ d', newAppend.runPure (Dev.ofBytes (build l)) = (o, d') ∧
      d'.buf = build l ∧ d'.pos = q := by
  obtain ⟨hwin, hi, hii, hiii⟩ := hS
  have hnfE : ∀ k, l.eocdPos < k → k + 22 ≤ (build l).length →
      u32At (build l) k ≠ some sigEocd := by
    intro k h1 h2
    have hlen := build_length l
    have := hi (k - (l.eocdPos + 1)) (by omega)
    have e : l.eocdPos + 1 + (k - (l.eocdPos + 1)) = k := by omega
    rwa [e] at this
  cases h64 : l.needs64 with
  | false =>
    exact append_plain_of_tail l hF htail h64 hwin hnfE (hii h64) 0 (Dev.ofBytes (build l)) rfl rfl
  | true =>
    have htr : l.trailing = [] := by
      rcases ht with h | h
      · exact h
      · rw [h64] at h; cases h
    have hnf64 : ∀ k, l.cdOffset + l.cdSize ≤ k → k < l.end64Pos →
        u32At (build l) k ≠ some sigEocd64 := by
      intro k h1 h2
      have h64p : l.end64Pos = l.pre.length + l.cdOffset + l.cdSize := by
        simp [Layout.end64Pos, Layout.cdStart]
      have := hiii h64 (k - (l.cdOffset + l.cdSize)) (by omega)
      have e : l.cdOffset + l.cdSize + (k - (l.cdOffset + l.cdSize)) = k := by omega
      rwa [e] at this
    exact append_z64_of_tail l hF htail h64 htr hnfE hnf64 0 (Dev.ofBytes (build l)) rfl rfl

theorem newAppend_on_layout_of_loop (l : Layout) (hF : l.Fits)
    (hloop : AppendLoopRuns l) (hS : NoFalseSig l)
    (ht : l.trailing = [] ∨ l.needs64 = false) :
    ∃ d', newAppend.runPure (Dev.ofBytes (build l)) = (.ok (appendStateOf l), d') ∧
      d'.buf = build l ∧ d'.pos = l.cdStart :=
  newAppend_on_layout_of_tail l hF (runs_newAppend_tail_of_loop l hF hloop) hS ht

/-- **`newAppend_on_layout`** — `ZipWriter::new_append` on the bytes of a well-formed layout returns the
writer state whose records are the reader's views of the central directory, whose comment is the old
archive comment and whose `writing_raw` flag is set; the sink still holds the archive and is positioned
on the first byte of the OLD central directory (which the next write overwrites).  `hN`: every decoded
name can be written back (since the A6 repair `new_append` refuses the archive otherwise). -/
theorem newAppend_on_layout (l : Layout) (hF : l.Fits) (hN : ∀ e ∈ l.entries, AppendNameFits e)
    (hR : l.Readable) (hS : NoFalseSig l)
    (ht : l.trailing = [] ∨ l.needs64 = false) :
    ∃ d', newAppend.runPure (Dev.ofBytes (build l)) = (.ok (appendStateOf l), d') ∧
      d'.buf = build l ∧ d'.pos = l.cdStart :=
  newAppend_on_layout_of_loop l hF (runs_appendLoop l hF hN hR) hS ht

/-- `newAppend_on_layout` under `ReadableZ` (further ZIP64 records in the foreign extra data). -/
theorem newAppend_on_layoutZ (l : Layout) (hF : l.Fits) (hN : ∀ e ∈ l.entries, AppendNameFits e)
    (hR : l.ReadableZ) (hS : NoFalseSig l)
    (ht : l.trailing = [] ∨ l.needs64 = false) :
    ∃ d', newAppend.runPure (Dev.ofBytes (build l)) = (.ok (appendStateOf l), d') ∧
      d'.buf = build l ∧ d'.pos = l.cdStart :=
  newAppend_on_layout_of_loop l hF (runs_appendLoopZ l hF hN hR) hS ht

/-- **`newAppend_refuses_long_name`** (A6 repair) — a layout with an entry whose DECODED name (CP437
transcoded to UTF-8, ill-formed UTF-8 replaced) needs more than 65535 bytes: `new_append` returns
`UnsupportedArchive` and the sink still holds the archive, byte for byte.  (Before the repair it returned a
writer whose `finish()` wrote the name length modulo 65536 and reported success.) -/
theorem newAppend_refuses_long_name (l : Layout) (hF : l.Fits) (hR : l.ReadableZ) (hS : NoFalseSig l)
    (ht : l.trailing = [] ∨ l.needs64 = false) (hbad : ∃ e ∈ l.entries, ¬ AppendNameFits e) :
    ∃ d', newAppend.runPure (Dev.ofBytes (build l)) = (.err .unsupportedArchive, d') ∧
      d'.buf = build l := by
  have hb := fits_bounds l hF
  obtain ⟨q, hq⟩ := runs_appendLoop_refuses l.pre.length l.entries 0 l.cdStart hF.1 hbad hR (by omega)
    (build l) _ (drop_cdStart l)
  obtain ⟨d', h1, h2, _⟩ := newAppend_on_layout_of_tail l hF
    (runs_newAppend_tail_of_loop_err l hF hq) hS ht
  exact ⟨d', h1, h2⟩

/-- The live part of the sink after `new_append`: everything in front of the old central directory. -/
theorem take_cdStart (l : Layout) :
    (build l).take l.cdStart = l.pre ++ localsBytes l.entries ++ l.gapBeforeCd := by
  have : build l = (l.pre ++ localsBytes l.entries ++ l.gapBeforeCd) ++
      (l.cdBytes ++ (l.end64 ++ (l.eocd ++ l.trailing))) := by simp [build]
  rw [this]
  exact List.take_left' (by simp [Layout.cdStart, Layout.cdOffset])

end ZipVerif.Model
