import ZipVerif.Lemmas.ReadWfZ
import ZipVerif.Lemmas.StripZip64
import ZipVerif.Lemmas.WLDefs
/-
`ZipWriter::new_append` (`Model.newAppend`) on `Spec.Zip.build l`: the same end-record search, ZIP64
probe and central-directory loop as `ZipArchive::new` (`Lemmas/ReadWf.lean`), then the seek back to the
old central directory, which the appending writer will overwrite.

Differences to `openArchive` that matter here:
* the disk check is unconditional (`footer.diskNumber != footer.diskWithCd`, no `record_too_small`);
* the D16 check `directory_start > cde_start → InvalidArchive`;
* the result is a writer state (`WState.init` with the re-hydrated records — each passed through
  `appendRecord`, which drops inherited ZIP64 extra records (D20) —, the old comment and
  `writing_raw = true`), and the device is left positioned at `directory_start`.
-/

namespace ZipVerif.Model
open ZipVerif ZipVerif.Spec.Zip

/-- the `let rec` loop of `newAppend` on the central directory of a layout: the reader's views, each
passed through `appendRecord` (the D20 repair: inherited ZIP64 extra records are dropped) -/
theorem parses_appendLoopZ (ao : Nat) : ∀ (es : List Entry) (loc chs : Nat),
    (∀ e ∈ es, e.Fits) → ReadableZFrom es loc → loc + (localsBytes es).length + ao < 2 ^ 64 →
    Parses (newAppend.loop ao es.length) chs (centralBytes es (localOffsets es loc))
      ((viewList ao es loc chs).map appendRecord) := by
  intro es
  induction es with
  | nil => intro loc chs _ _ _; exact Parses.pure _
  | cons e es ih =>
    intro loc chs hall hz hb
    have he := hall e (List.mem_cons_self)
    obtain ⟨⟨hm, hx⟩, hzr⟩ := hz
    rw [localsBytes_cons, List.length_append] at hb
    have hlb : e.gapBefore.length ≤ e.localBytes.length := by
      simp only [Entry.localBytes, List.length_append]; omega
    show Parses (newAppend.loop ao (es.length + 1)) chs
      (centralRecord e (UInt64.ofNat (loc + e.gapBefore.length)) ++
        centralBytes es (localOffsets es (loc + e.localBytes.length))) _
    unfold newAppend.loop
    refine Parses.bind (parses_centralHeaderZ e _ ao chs he hx hm (by omega)) ?_
    refine Parses.bind_last (ih _ _ (fun x hx => hall x (List.mem_cons_of_mem _ hx)) hzr (by omega)) ?_
    exact Parses.pure _

/-- The writer state `new_append` builds for the layout `l`. -/
def appendStateOf (l : Layout) : WState :=
  { WState.init with files := (viewOf l).map appendRecord, comment := l.comment, writingRaw := true }

/-- the run of `new_append`'s central-directory loop on `build l` -/
abbrev AppendLoopRuns (l : Layout) : Prop :=
  Runs (newAppend.loop l.pre.length l.entries.length) (build l) l.cdStart
    (.ok ((viewOf l).map appendRecord))
    (l.cdStart + (centralBytes l.entries (localOffsets l.entries 0)).length)

theorem runs_appendLoopZ (l : Layout) (hF : l.Fits) (hR : l.ReadableZ) : AppendLoopRuns l := by
  have hb := fits_bounds l hF
  exact (parses_appendLoopZ l.pre.length l.entries 0 l.cdStart hF.1 hR (by omega)).toRuns (drop_cdStart l)

/-- The tail of `newAppend` once the end record and the directory counts are known. -/
theorem runs_newAppend_tail_of_loop (l : Layout) (hF : l.Fits)
    (hloop : AppendLoopRuns l) (p1 q1 : Nat)
    (hfind : Runs findAndParseEocd (build l) p1 (.ok (eocdOf l, l.eocdPos))
      (l.eocdPos + 22 + l.comment.length))
    (hcounts : Runs (getDirectoryCounts (eocdOf l) l.eocdPos) (build l)
      (l.eocdPos + 22 + l.comment.length) (.ok (l.pre.length, l.cdStart, l.entries.length)) q1) :
    Runs newAppend (build l) p1 (.ok (appendStateOf l)) l.cdStart := by
  have hb := fits_bounds l hF
  have hle : ¬ l.cdStart > l.eocdPos := by
    simp only [Layout.eocdPos]; omega
  unfold newAppend
  refine Runs.bind hfind ?_
  dsimp only
  rw [if_neg (by simp [eocdOf])]
  refine Runs.bind hcounts ?_
  dsimp only
  rw [if_neg hle]
  refine Runs.bind (Runs.attempt_ok (Runs.seek_start _)) ?_
  dsimp only
  refine Runs.bind hloop ?_
  refine Runs.bind (Runs.attempt_ok (Runs.seek_start l.cdStart)) ?_
  exact Runs.pure _

/-- the run of `new_append`'s loop on `build l`, from `Readable` -/
theorem runs_appendLoop (l : Layout) (hF : l.Fits) (hR : l.Readable) : AppendLoopRuns l :=
  runs_appendLoopZ l hF (readable_imp_readableZ l hR)

theorem runs_newAppend_tail (l : Layout) (hF : l.Fits) (hR : l.Readable) (p1 q1 : Nat)
    (hfind : Runs findAndParseEocd (build l) p1 (.ok (eocdOf l, l.eocdPos))
      (l.eocdPos + 22 + l.comment.length))
    (hcounts : Runs (getDirectoryCounts (eocdOf l) l.eocdPos) (build l)
      (l.eocdPos + 22 + l.comment.length) (.ok (l.pre.length, l.cdStart, l.entries.length)) q1) :
    Runs newAppend (build l) p1 (.ok (appendStateOf l)) l.cdStart :=
  runs_newAppend_tail_of_loop l hF (runs_appendLoop l hF hR) p1 q1 hfind hcounts

/-- **`new_append` on a layout without ZIP64 end records** (the central-directory loop's run given). -/
theorem append_plain_of_loop (l : Layout) (hF : l.Fits)
    (hloop : AppendLoopRuns l) (h64 : l.needs64 = false)
    (hwin : l.comment.length + l.trailing.length ≤ 65535)
    (hnfE : ∀ k, l.eocdPos < k → k + 22 ≤ (build l).length → u32At (build l) k ≠ some sigEocd)
    (hnfL : 42 + l.comment.length ≤ (build l).length →
      u32At (build l) ((build l).length - 42 - l.comment.length) ≠ some sigLocator) (p0 : Nat) :
    Runs newAppend (build l) p0 (.ok (appendStateOf l)) l.cdStart := by
  obtain ⟨he, hsz, hoff, hcnt, hpos⟩ := plain_facts l h64
  have hlen := build_length l
  have hb := fits_bounds l hF
  have hc := hF.2.1
  have hfind := runs_findAndParseEocd (p0 := p0) (u32At_eocdPos l) (runs_parseEocd_build l hc)
    (by omega) (by omega) hnfE
  have hle : (eocdOf l).cdSize.toNat + (eocdOf l).cdOffset.toNat ≤ l.eocdPos := by omega
  obtain ⟨q1, hq1⟩ := runs_getDirectoryCounts_plain (B := build l) (footer := eocdOf l)
    (cdeStart := l.eocdPos) (p0 := l.eocdPos + 22 + l.comment.length) hnfL (by intro _; have hcm : (eocdOf l).comment = l.comment := rfl; rw [hcm]; omega) hle
  have hq1' : Runs (getDirectoryCounts (eocdOf l) l.eocdPos) (build l) (l.eocdPos + 22 + l.comment.length)
      (.ok (l.pre.length, l.cdStart, l.entries.length)) q1 := by
    refine hq1.cast ?_ rfl
    rw [hsz, hoff, hcnt, hpos]
    have e1 : l.pre.length + l.cdOffset + l.cdSize - l.cdSize - l.cdOffset = l.pre.length := by omega
    rw [e1, Nat.add_comm l.cdOffset]
    rfl
  exact runs_newAppend_tail_of_loop l hF hloop p0 q1 hfind hq1'

/-- **`new_append` on a layout without ZIP64 end records.** -/
theorem append_plain (l : Layout) (hF : l.Fits) (hR : l.Readable) (h64 : l.needs64 = false)
    (hwin : l.comment.length + l.trailing.length ≤ 65535)
    (hnfE : ∀ k, l.eocdPos < k → k + 22 ≤ (build l).length → u32At (build l) k ≠ some sigEocd)
    (hnfL : 42 + l.comment.length ≤ (build l).length →
      u32At (build l) ((build l).length - 42 - l.comment.length) ≠ some sigLocator) (p0 : Nat) :
    Runs newAppend (build l) p0 (.ok (appendStateOf l)) l.cdStart :=
  append_plain_of_loop l hF (runs_appendLoop l hF hR) h64 hwin hnfE hnfL p0

/-- **`new_append` on a layout with ZIP64 end record + locator** (the loop's run given). -/
theorem append_z64_of_loop (l : Layout) (hF : l.Fits)
    (hloop : AppendLoopRuns l) (h64 : l.needs64 = true)
    (ht : l.trailing = [])
    (hnfE : ∀ k, l.eocdPos < k → k + 22 ≤ (build l).length → u32At (build l) k ≠ some sigEocd)
    (hnf64 : ∀ k, l.cdOffset + l.cdSize ≤ k → k < l.end64Pos → u32At (build l) k ≠ some sigEocd64)
    (p0 : Nat) :
    Runs newAppend (build l) p0 (.ok (appendStateOf l)) l.cdStart := by
  have hlen := build_length l
  have hb := fits_bounds l hF
  have hc := hF.2.1
  have he := end64_eq l h64
  have hel : l.end64.length = 76 := by rw [he]; simp
  have hcl := count_le_locals l.entries
  rw [ht] at hlen hb
  simp only [List.length_nil, Nat.add_zero] at hlen hb
  have hcob : l.pre.length + l.cdOffset + l.cdSize + 98 + l.comment.length < 2 ^ 63 := by
    simp only [Layout.cdOffset]; omega
  have hcnt : l.count ≤ l.cdOffset := by simp only [Layout.cdOffset, Layout.count]; omega
  have hpos : l.eocdPos = l.end64Pos + 76 := by simp [Layout.eocdPos, Layout.end64Pos, hel]
  have h64p : l.end64Pos = l.pre.length + l.cdOffset + l.cdSize := by
    simp [Layout.end64Pos, Layout.cdStart]
  have hfind := runs_findAndParseEocd (p0 := p0) (u32At_eocdPos l) (runs_parseEocd_build l hc)
    (by omega) (by omega) hnfE
  have hd := drop_end64Pos l
  rw [he, List.append_assoc] at hd
  have hrec : (build l).drop l.end64Pos = le32 EOCD64_SIG ++ (le64 44 ++ (le16 l.end64Versions.1 ++
      (le16 l.end64Versions.2 ++ (le32 0 ++ (le32 0 ++ (le64 (UInt64.ofNat l.count) ++
      (le64 (UInt64.ofNat l.count) ++ (le64 (UInt64.ofNat l.cdSize) ++ (le64 (UInt64.ofNat l.cdOffset) ++
      ((le32 LOCATOR_SIG ++ (le32 0 ++ (le64 (UInt64.ofNat (l.cdOffset + l.cdSize)) ++ le32 1))) ++
        (l.eocd ++ l.trailing))))))))))) := by
    rw [hd]; simp only [List.append_assoc]
  have hloc : (build l).drop ((build l).length - 42 - (eocdOf l).comment.length) =
      le32 LOCATOR_SIG ++ (le32 0 ++ (le64 (UInt64.ofNat (l.cdOffset + l.cdSize)) ++ le32 1)) ++
        (l.eocd ++ l.trailing) := by
    have := drop_past hd
    have e : (build l).length - 42 - (eocdOf l).comment.length = l.end64Pos + 56 := by
      show (build l).length - 42 - l.comment.length = _
      omega
    rw [e]
    simpa using this
  have hnom : (UInt64.ofNat (l.cdOffset + l.cdSize)).toNat = l.cdOffset + l.cdSize :=
    u64_ofNat_toNat (by omega)
  have hq1 := runs_getDirectoryCounts_z64 (B := build l) (footer := eocdOf l) (cdeStart := l.eocdPos)
    (p0 := l.eocdPos + 22 + l.comment.length) (real := l.end64Pos)
    (by show 42 + l.comment.length ≤ _; omega) hloc (by simp [eocdOf]) hrec (by omega) (by omega)
    (by rw [hnom]; omega) (by rw [hnom]; exact hnf64)
    (by rw [hnom, u64_ofNat_toNat (n := l.cdOffset) (by omega)]; omega)
  have hq1' : Runs (getDirectoryCounts (eocdOf l) l.eocdPos) (build l) (l.eocdPos + 22 + l.comment.length)
      (.ok (l.pre.length, l.cdStart, l.entries.length)) (l.end64Pos + 56) := by
    refine hq1.cast ?_ rfl
    rw [hnom, u64_ofNat_toNat (n := l.cdOffset) (by omega),
      u64_ofNat_toNat (n := l.count) (by omega)]
    have e1 : l.end64Pos - (l.cdOffset + l.cdSize) = l.pre.length := by omega
    rw [e1, Nat.add_comm l.cdOffset]
    rfl
  exact runs_newAppend_tail_of_loop l hF hloop p0 _ hfind hq1'

/-- **`new_append` on a layout with ZIP64 end record + locator** (nothing after the comment). -/
theorem append_z64 (l : Layout) (hF : l.Fits) (hR : l.Readable) (h64 : l.needs64 = true)
    (ht : l.trailing = [])
    (hnfE : ∀ k, l.eocdPos < k → k + 22 ≤ (build l).length → u32At (build l) k ≠ some sigEocd)
    (hnf64 : ∀ k, l.cdOffset + l.cdSize ≤ k → k < l.end64Pos → u32At (build l) k ≠ some sigEocd64)
    (p0 : Nat) :
    Runs newAppend (build l) p0 (.ok (appendStateOf l)) l.cdStart :=
  append_z64_of_loop l hF (runs_appendLoop l hF hR) h64 ht hnfE hnf64 p0

/-- `newAppend_on_layout` with the run of the central-directory loop as a hypothesis. -/
theorem newAppend_on_layout_of_loop (l : Layout) (hF : l.Fits)
    (hloop : AppendLoopRuns l) (hS : NoFalseSig l)
    (ht : l.trailing = [] ∨ l.needs64 = false) :
    ∃ d', newAppend.runPure (Dev.ofBytes (build l)) = (.ok (appendStateOf l), d') ∧
      d'.buf = build l ∧ d'.pos = l.cdStart := by
  obtain ⟨hwin, hi, hii, hiii⟩ := hS
  have hnfE : ∀ k, l.eocdPos < k → k + 22 ≤ (build l).length →
      u32At (build l) k ≠ some sigEocd := by
    intro k h1 h2
    have hlen := build_length l
    have := hi (k - (l.eocdPos + 1)) (by omega)
    have e : l.eocdPos + 1 + (k - (l.eocdPos + 1)) = k := by omega
    rwa [e] at this
  cases h64 : l.needs64 with
  | false =>
    exact append_plain_of_loop l hF hloop h64 hwin hnfE (hii h64) 0 (Dev.ofBytes (build l)) rfl rfl
  | true =>
    have htr : l.trailing = [] := by
      rcases ht with h | h
      · exact h
      · rw [h64] at h; cases h
    have hnf64 : ∀ k, l.cdOffset + l.cdSize ≤ k → k < l.end64Pos →
        u32At (build l) k ≠ some sigEocd64 := by
      intro k h1 h2
      have h64p : l.end64Pos = l.pre.length + l.cdOffset + l.cdSize := by
        simp [Layout.end64Pos, Layout.cdStart]
      have := hiii h64 (k - (l.cdOffset + l.cdSize)) (by omega)
      have e : l.cdOffset + l.cdSize + (k - (l.cdOffset + l.cdSize)) = k := by omega
      rwa [e] at this
    exact append_z64_of_loop l hF hloop h64 htr hnfE hnf64 0 (Dev.ofBytes (build l)) rfl rfl

/-- **`newAppend_on_layout`** — `ZipWriter::new_append` on the bytes of a well-formed layout returns the
writer state whose records are the reader's views of the central directory, whose comment is the old
archive comment and whose `writing_raw` flag is set; the sink still holds the archive and is positioned
on the first byte of the OLD central directory (which the next write overwrites). -/
theorem newAppend_on_layout (l : Layout) (hF : l.Fits) (hR : l.Readable) (hS : NoFalseSig l)
    (ht : l.trailing = [] ∨ l.needs64 = false) :
    ∃ d', newAppend.runPure (Dev.ofBytes (build l)) = (.ok (appendStateOf l), d') ∧
      d'.buf = build l ∧ d'.pos = l.cdStart :=
  newAppend_on_layout_of_loop l hF (runs_appendLoop l hF hR) hS ht

/-- `newAppend_on_layout` under `ReadableZ` (further ZIP64 records in the foreign extra data). -/
theorem newAppend_on_layoutZ (l : Layout) (hF : l.Fits) (hR : l.ReadableZ) (hS : NoFalseSig l)
    (ht : l.trailing = [] ∨ l.needs64 = false) :
    ∃ d', newAppend.runPure (Dev.ofBytes (build l)) = (.ok (appendStateOf l), d') ∧
      d'.buf = build l ∧ d'.pos = l.cdStart :=
  newAppend_on_layout_of_loop l hF (runs_appendLoopZ l hF hR) hS ht

/-- The live part of the sink after `new_append`: everything in front of the old central directory. -/
theorem take_cdStart (l : Layout) :
    (build l).take l.cdStart = l.pre ++ localsBytes l.entries ++ l.gapBeforeCd := by
  have : build l = (l.pre ++ localsBytes l.entries ++ l.gapBeforeCd) ++
      (l.cdBytes ++ (l.end64 ++ (l.eocd ++ l.trailing))) := by simp [build]
  rw [this]
  exact List.take_left' (by simp [Layout.cdStart, Layout.cdOffset])

end ZipVerif.Model
