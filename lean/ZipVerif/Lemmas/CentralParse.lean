import ZipVerif.Lemmas.IORun
import ZipVerif.Spec.ZipView
/-
The model's central-header parser applied to the SPEC's serialisation of an arbitrary entry.
-/

namespace ZipVerif.Model
open ZipVerif ZipVerif.Spec.Zip

/-! ### `parse_extra_field` on records it does not interpret -/

theorem parseExtra_ok_aux : ∀ (fuel : Nat) (bs : Bytes), extraOkAux fuel bs = true →
    ∀ (k : Nat) (f : FileData), parseExtraField k f bs = (f, none) := by
  intro fuel
  induction fuel with
  | zero =>
    intro bs h k f
    have hb : bs = [] := by simpa [extraOkAux] using h
    subst hb
    cases k <;> simp [parseExtraField]
  | succ n ih =>
    intro bs h k f
    cases k with
    | zero => simp [parseExtraField]
    | succ k =>
      unfold parseExtraField
      unfold extraOkAux at h
      by_cases he : bs.isEmpty = true
      · rw [if_pos he]
      · rw [if_neg he] at h ⊢
        cases h1 : rd16 bs with
        | none => simp [h1] at h
        | some v1 =>
          obtain ⟨id, r1⟩ := v1
          simp only [h1] at h ⊢
          cases h2 : rd16 r1 with
          | none => simp [h2] at h
          | some v2 =>
            obtain ⟨len, r2⟩ := v2
            simp only [h2] at h ⊢
            simp only [Bool.and_eq_true, bne_iff_ne, ne_eq, decide_eq_true_eq] at h
            obtain ⟨⟨⟨hid1, hid2⟩, _⟩, hrest⟩ := h
            rw [if_neg (by simpa using hid1), if_neg (by simpa using hid2)]
            exact ih _ hrest k f

theorem parseExtra_ok {bs : Bytes} (h : ExtraOk bs) (k : Nat) (f : FileData) :
    parseExtraField k f bs = (f, none) := parseExtra_ok_aux _ _ h k f

/-! ### `parse_extra_field` on the ZIP64 extended information record (all 2^3 − 1 non-empty subsets) -/

theorem parseExtra_z64 (f : FileData) (u c o : UInt64) (cx : Bytes) (k : Nat)
    (zu zc zo : Bool)
    (hu : (f.uncompressedSize == ZIP64_BYTES_THR) = zu) (hc : (f.compressedSize == ZIP64_BYTES_THR) = zc)
    (ho : (f.headerStart == ZIP64_BYTES_THR) = zo) (hn : (zu || zc || zo) = true) :
    parseExtraField (k + 1) f
      (le16 1 ++ (le16 (UInt16.ofNat ((if zu then 8 else 0) + (if zc then 8 else 0) + (if zo then 8 else 0))) ++
        ((if zu then le64 u else []) ++ ((if zc then le64 c else []) ++ ((if zo then le64 o else []) ++ cx)))))
    = parseExtraField k
        { f with largeFile := f.largeFile || zu || zc,
                 uncompressedSize := if zu then u else f.uncompressedSize,
                 compressedSize := if zc then c else f.compressedSize,
                 headerStart := if zo then o else f.headerStart } cx := by
  have n16 : ∀ v, le16 v ≠ [] := by intro v; simp [le16]
  cases zu <;> cases zc <;> cases zo <;> simp at hn <;>
    simp [parseExtraField, takeU64If, hu, hc, ho, n16]

theorem thr_eq : (0xFFFFFFFF : UInt32).toUInt64 = ZIP64_BYTES_THR := by decide

theorem lo32_small {v : UInt64} (h : ¬ v ≥ 0xFFFFFFFF) :
    (lo32 v).toUInt64 = v ∧ ((lo32 v).toUInt64 == ZIP64_BYTES_THR) = false := by
  have hv : v.toNat < 4294967295 := by
    have : ¬ (0xFFFFFFFF : UInt64).toNat ≤ v.toNat := fun h' => h (UInt64.le_iff_toNat_le.mpr h')
    have e : (0xFFFFFFFF : UInt64).toNat = 4294967295 := by decide
    omega
  have e1 : (lo32 v).toUInt64 = v := by
    apply UInt64.toNat_inj.mp
    rw [lo32, UInt32.toNat_toUInt64, UInt64.toNat_toUInt32]
    omega
  refine ⟨e1, ?_⟩
  rw [e1]
  apply beq_false_of_ne
  intro h2
  rw [h2] at hv
  have e : ZIP64_BYTES_THR.toNat = 4294967295 := by decide
  omega

/-- The 32-bit slot of a field that may go through the ZIP64 record: `z = forced || v ≥ 0xFFFFFFFF`. -/
theorem slot_spec (forced : Bool) (v : UInt64) :
    let z := forced || decide (v ≥ 0xFFFFFFFF)
    (((if z then (0xFFFFFFFF : UInt32) else lo32 v).toUInt64 == ZIP64_BYTES_THR) = z) ∧
    ((if z then v else (if z then (0xFFFFFFFF : UInt32) else lo32 v).toUInt64) = v) := by
  intro z
  cases hz : z with
  | true => simp; rfl
  | false =>
    have hv : ¬ v ≥ 0xFFFFFFFF := by
      intro h
      have : z = true := by simp [z, h]
      rw [this] at hz; cases hz
    simpa using (lo32_small hv).symm

/-! ### The central header parser on `Spec.Zip.centralRecord` -/

/-- the record the parser has built when it turns to the extra field -/
def rawCentral (e : Entry) (off64 : UInt64) (chs : Nat) : FileData :=
  let utf8 : Bool := e.flagsOut &&& 0x0800 != 0
  { system := System.fromU8 (e.madeBy >>> 8).toUInt8
    versionMadeBy := e.madeBy.toUInt8
    encrypted := e.flagsOut &&& 1 == 1
    usingDataDescriptor := e.flagsOut &&& 0x0008 != 0
    method := Method.fromU16 e.method
    level := none
    time := DateTime.fromMsdos e.date e.time
    crc32 := e.crc
    compressedSize := (if e.zC then (0xFFFFFFFF : UInt32) else lo32 e.csize).toUInt64
    uncompressedSize := (if e.zU then (0xFFFFFFFF : UInt32) else lo32 e.usize).toUInt64
    fileName := Text.decodeToUtf8 utf8 e.name
    fileNameRaw := e.name
    extraField := e.centralExtraAll off64
    fileComment := Text.decodeToUtf8 utf8 e.comment
    headerStart := (if e.zO off64 then (0xFFFFFFFF : UInt32) else lo32 off64).toUInt64
    centralHeaderStart := UInt64.ofNat chs
    dataStart := 0
    externalAttributes := e.externalAttrs
    largeFile := false
    aesMode := none }

theorem extra_on_central (e : Entry) (off64 : UInt64) (chs : Nat) (hx : ExtraOk e.centralExtra) (k : Nat) :
    parseExtraField (k + 1) (rawCentral e off64 chs) (e.centralExtraAll off64) =
      ({ rawCentral e off64 chs with
          largeFile := e.zU || e.zC, uncompressedSize := e.usize, compressedSize := e.csize,
          headerStart := off64 }, none) := by
  obtain ⟨hu1, hu2⟩ := slot_spec e.z64.1 e.usize
  obtain ⟨hc1, hc2⟩ := slot_spec e.z64.2.1 e.csize
  obtain ⟨ho1, ho2⟩ := slot_spec e.z64.2.2 off64
  change ((if e.zU then (0xFFFFFFFF : UInt32) else lo32 e.usize).toUInt64 == ZIP64_BYTES_THR) = e.zU at hu1
  change (if e.zU then e.usize else (if e.zU then (0xFFFFFFFF : UInt32) else lo32 e.usize).toUInt64) = e.usize at hu2
  change ((if e.zC then (0xFFFFFFFF : UInt32) else lo32 e.csize).toUInt64 == ZIP64_BYTES_THR) = e.zC at hc1
  change (if e.zC then e.csize else (if e.zC then (0xFFFFFFFF : UInt32) else lo32 e.csize).toUInt64) = e.csize at hc2
  change ((if e.zO off64 then (0xFFFFFFFF : UInt32) else lo32 off64).toUInt64 == ZIP64_BYTES_THR) = e.zO off64 at ho1
  change (if e.zO off64 then off64 else (if e.zO off64 then (0xFFFFFFFF : UInt32) else lo32 off64).toUInt64) = off64 at ho2
  by_cases hn : (e.zU || e.zC || e.zO off64) = true
  · have hz : e.centralExtraAll off64 =
        le16 1 ++ (le16 (UInt16.ofNat ((if e.zU then 8 else 0) + (if e.zC then 8 else 0) +
          (if e.zO off64 then 8 else 0))) ++ ((if e.zU then le64 e.usize else []) ++
          ((if e.zC then le64 e.csize else []) ++ ((if e.zO off64 then le64 off64 else []) ++ e.centralExtra)))) := by
      unfold Entry.centralExtraAll Entry.centralZ64
      have : ¬ ((if e.zU then 8 else 0) + (if e.zC then 8 else 0) + (if e.zO off64 then 8 else 0) = 0) := by
        revert hn; cases e.zU <;> cases e.zC <;> cases e.zO off64 <;> simp
      simp only [if_neg this, List.append_assoc]
    rw [hz, parseExtra_z64 _ _ _ _ _ _ _ _ _ hu1 hc1 ho1 hn, parseExtra_ok hx]
    simp only [rawCentral, hu2, hc2, ho2, Bool.false_or]
  · have h3 : e.zU = false ∧ e.zC = false ∧ e.zO off64 = false := by
      revert hn; cases e.zU <;> cases e.zC <;> cases e.zO off64 <;> simp
    obtain ⟨h1, h2, h3⟩ := h3
    have hz : e.centralExtraAll off64 = e.centralExtra := by
      unfold Entry.centralExtraAll Entry.centralZ64
      simp [h1, h2, h3]
    rw [h1] at hu2; rw [h2] at hc2; rw [h3] at ho2
    simp only [Bool.false_eq_true, if_false] at hu2 hc2 ho2
    rw [hz, parseExtra_ok hx]
    simp only [rawCentral, h1, h2, h3, hu2, hc2, ho2, Bool.false_eq_true, if_false, Bool.or_self]


theorem ofNat_toNat_of_le {n : Nat} (h : n ≤ 65535) : (UInt16.ofNat n).toNat = n := by
  rw [UInt16.toNat_ofNat']; omega

theorem fromU16_ne_aes {v : UInt16} (h : v ≠ 99) : (Method.fromU16 v == Method.aes) = false := by
  unfold Method.fromU16
  have h99 : (v == 99) = false := beq_false_of_ne h
  rw [h99]
  repeat' split
  all_goals first | rfl | contradiction

theorem parses_centralInner (e : Entry) (off ao chs p : Nat) (hf : e.Fits) (hx : ExtraOk e.centralExtra)
    (hm : e.method ≠ 99) (ho : off + ao < 2 ^ 64) :
    Parses (centralHeaderInner ao chs) p
      (le16 e.madeBy ++ (le16 e.versionNeeded ++ (le16 e.flagsOut ++ (le16 e.method ++
      (le16 e.time ++ (le16 e.date ++ (le32 e.crc ++
      (le32 (if e.zC then 0xFFFFFFFF else lo32 e.csize) ++
      (le32 (if e.zU then 0xFFFFFFFF else lo32 e.usize) ++
      (le16 (UInt16.ofNat e.name.length) ++ (le16 (UInt16.ofNat (e.centralExtraAll (UInt64.ofNat off)).length) ++
      (le16 (UInt16.ofNat e.comment.length) ++ (le16 0 ++ (le16 e.internalAttrs ++ (le32 e.externalAttrs ++
      (le32 (if e.zO (UInt64.ofNat off) then 0xFFFFFFFF else lo32 (UInt64.ofNat off)) ++
      (e.name ++ (e.centralExtraAll (UInt64.ofNat off) ++ e.comment))))))))))))))))))
      (viewEntry e off ao chs) := by
  obtain ⟨hn, hc, _, hxl, _, _⟩ := hf
  have hxl' : (e.centralExtraAll (UInt64.ofNat off)).length ≤ 65535 := by
    have := centralZ64_length_le e (UInt64.ofNat off)
    simp only [Entry.centralExtraAll, List.length_append]; omega
  unfold centralHeaderInner
  refine Parses.bind (Parses.readU16 _) ?_
  refine Parses.bind (Parses.readU16 _) ?_
  refine Parses.bind (Parses.readU16 _) ?_
  refine Parses.bind (Parses.readU16 _) ?_
  refine Parses.bind (Parses.readU16 _) ?_
  refine Parses.bind (Parses.readU16 _) ?_
  refine Parses.bind (Parses.readU32 _) ?_
  refine Parses.bind (Parses.readU32 _) ?_
  refine Parses.bind (Parses.readU32 _) ?_
  refine Parses.bind (Parses.readU16 _) ?_
  refine Parses.bind (Parses.readU16 _) ?_
  refine Parses.bind (Parses.readU16 _) ?_
  refine Parses.bind (Parses.readU16 _) ?_
  refine Parses.bind (Parses.readU16 _) ?_
  refine Parses.bind (Parses.readU32 _) ?_
  refine Parses.bind (Parses.readU32 _) ?_
  refine Parses.bind (Parses.readExact (ofNat_toNat_of_le hn).symm) ?_
  refine Parses.bind (Parses.readExact (ofNat_toNat_of_le hxl').symm) ?_
  refine Parses.bind_last (Parses.readExact (ofNat_toNat_of_le hc).symm) ?_
  have hr := extra_on_central e (UInt64.ofNat off) chs hx (e.centralExtraAll (UInt64.ofNat off)).length
  simp only [rawCentral] at hr
  simp only [hr]
  have ho' : (UInt64.ofNat off).toNat = off := by
    rw [UInt64.toNat_ofNat']; omega
  rw [fromU16_ne_aes hm, ho', if_neg (by simp), if_neg (by omega)]
  exact Parses.pure _


/-- **`central_header_to_zip_file` on the spec's serialisation of an arbitrary foreign entry** returns
the view of that entry, consuming exactly the record. -/
theorem parses_centralHeader (e : Entry) (off ao p : Nat) (hf : e.Fits) (hx : ExtraOk e.centralExtra)
    (hm : e.method ≠ 99) (ho : off + ao < 2 ^ 64) :
    Parses (centralHeader ao) p (centralRecord e (UInt64.ofNat off)) (viewEntry e off ao p) := by
  rw [centralRecord_eq]
  unfold centralHeader
  refine Parses.bind_nil Parses.streamPosition ?_
  refine Parses.bind (Parses.readU32 _) ?_
  rw [if_neg (by decide)]
  exact parses_centralInner e off ao p _ hf hx hm ho

end ZipVerif.Model
