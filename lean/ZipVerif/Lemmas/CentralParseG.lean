import ZipVerif.Lemmas.CentralParseZ
import ZipVerif.Lemmas.ReaderBounds
import ZipVerif.Spec.ZipOrder
/-
`parse_extra_field` over record SEQUENCES: the central ZIP64 record at any position among foreign records, with
the optional 4-byte disk-start field (`Spec.Zip.Z64Place`, `centralRecordG`).

The reader walks all records of the extra field; a record it does not interpret is skipped by its declared
length; the 0x0001 record is applied to the fields that currently hold the 0xFFFFFFFF marker, in the fixed order
uncompressed size, compressed size, offset, and what is left of it (the disk-start field) is skipped.
-/

namespace ZipVerif.Spec.Zip
open ZipVerif

theorem rd16_eq {bs r : Bytes} {v : UInt16} (h : rd16 bs = some (v, r)) : bs = le16 v ++ r := by
  match bs, h with
  | a :: b :: t, h =>
    simp only [rd16, Option.some.injEq, Prod.mk.injEq] at h
    obtain ⟨h1, h2⟩ := h
    subst h1 h2
    have := mk16_le16 (mk16 a b)
    have h3 : rd16 (le16 (mk16 a b) ++ t) = some (mk16 a b, t) := rd16_le16 _ _
    have h4 : rd16 (a :: b :: t) = some (mk16 a b, t) := rfl
    -- both lists start with two bytes that decode to the same 16-bit value
    have hl : ∃ x y, le16 (mk16 a b) = [x, y] := ⟨_, _, rfl⟩
    obtain ⟨x, y, hxy⟩ := hl
    rw [hxy]
    have hm : mk16 x y = mk16 a b := by
      have := rd16_le16 (mk16 a b) t
      rw [hxy] at this
      simpa [rd16] using this
    have hx : x.toNat + 256 * y.toNat = a.toNat + 256 * b.toNat := by
      have := congrArg UInt16.toNat hm
      simp only [mk16, UInt16.toNat_ofNat'] at this
      have := UInt8.toNat_lt x; have := UInt8.toNat_lt y
      have := UInt8.toNat_lt a; have := UInt8.toNat_lt b
      omega
    have hxa : x = a := UInt8.toNat_inj.mp (by
      have := UInt8.toNat_lt x; have := UInt8.toNat_lt a; omega)
    have hyb : y = b := UInt8.toNat_inj.mp (by
      have := UInt8.toNat_lt x; have := UInt8.toNat_lt a; omega)
    rw [hxa, hyb]; rfl

theorem rd16_append {bs r : Bytes} {v : UInt16} (h : rd16 bs = some (v, r)) (rest : Bytes) :
    rd16 (bs ++ rest) = some (v, r ++ rest) := by
  rw [rd16_eq h, List.append_assoc, rd16_le16]

theorem extraOkAux_fuel (n m : Nat) (bs : Bytes) (h : n ≤ m) (hx : extraOkAux n bs = true) :
    extraOkAux m bs = true := by
  rw [← extraOkZAux_false] at hx ⊢
  exact extraOkZAux_fuel false n m bs h hx

/-- the two parts of a split are the sequence -/
theorem splitRecords_append : ∀ (n : Nat) (bs : Bytes), (splitRecords n bs).1 ++ (splitRecords n bs).2 = bs := by
  intro n
  induction n with
  | zero => intro bs; rfl
  | succ n ih =>
    intro bs
    unfold splitRecords
    cases h1 : rd16 bs with
    | none => rfl
    | some v1 =>
      obtain ⟨id, r1⟩ := v1
      dsimp only
      cases h2 : rd16 r1 with
      | none => rfl
      | some v2 =>
        obtain ⟨len, r2⟩ := v2
        dsimp only
        by_cases hl : len.toNat ≤ r2.length
        · rw [if_pos hl]
          dsimp only
          rw [rd16_eq h1, rd16_eq h2]
          simp only [List.append_assoc]
          rw [ih, List.take_append_drop]
        · rw [if_neg hl]; rfl

/-- both parts of a well-formed foreign record sequence are well-formed foreign record sequences -/
theorem splitRecords_ok : ∀ (n fuel : Nat) (bs : Bytes), extraOkAux fuel bs = true →
    extraOkAux fuel (splitRecords n bs).1 = true ∧ extraOkAux fuel (splitRecords n bs).2 = true := by
  intro n
  induction n with
  | zero =>
    intro fuel bs h
    refine ⟨?_, h⟩
    cases fuel <;> simp [splitRecords, extraOkAux]
  | succ n ih =>
    intro fuel bs h
    have hnil : extraOkAux fuel [] = true := by cases fuel <;> simp [extraOkAux]
    unfold splitRecords
    cases h1 : rd16 bs with
    | none => exact ⟨hnil, h⟩
    | some v1 =>
      obtain ⟨id, r1⟩ := v1
      dsimp only
      cases h2 : rd16 r1 with
      | none => exact ⟨hnil, h⟩
      | some v2 =>
        obtain ⟨len, r2⟩ := v2
        dsimp only
        by_cases hl : len.toNat ≤ r2.length
        · rw [if_pos hl]
          dsimp only
          cases fuel with
          | zero =>
            have hb : bs = [] := by simpa [extraOkAux] using h
            rw [hb] at h1; simp [rd16] at h1
          | succ fuel =>
            have hne : bs.isEmpty = false := by
              cases bs with
              | nil => simp [rd16] at h1
              | cons a t => rfl
            unfold extraOkAux at h
            rw [hne] at h
            simp only [Bool.false_eq_true, if_false, h1, h2, Bool.and_eq_true, bne_iff_ne, ne_eq,
              decide_eq_true_eq] at h
            obtain ⟨⟨⟨hid1, hid2⟩, _⟩, hrest⟩ := h
            obtain ⟨ha, hb⟩ := ih fuel _ hrest
            refine ⟨?_, extraOkAux_fuel _ _ _ (Nat.le_succ _) hb⟩
            unfold extraOkAux
            have hne2 : (le16 id ++ (le16 len ++ (List.take len.toNat r2 ++
                (splitRecords n (List.drop len.toNat r2)).1))).isEmpty = false := by simp [le16]
            rw [hne2]
            simp only [Bool.false_eq_true, if_false, rd16_le16, Bool.and_eq_true, bne_iff_ne, ne_eq,
              decide_eq_true_eq]
            have htl : (List.take len.toNat r2).length = len.toNat := by
              rw [List.length_take]; omega
            refine ⟨⟨⟨hid1, hid2⟩, by rw [List.length_append, htl]; omega⟩, ?_⟩
            rw [List.drop_left' htl]
            exact ha
        · rw [if_neg hl]; exact ⟨hnil, h⟩

theorem diskBytes_length (d : Option UInt32) : (diskBytes d).length = if d.isSome then 4 else 0 := by
  cases d <;> rfl

theorem centralZ64G_none (e : Entry) (off : UInt64) : e.centralZ64G off none = e.centralZ64 off := by
  unfold Entry.centralZ64G Entry.centralZ64
  simp [diskBytes]

/-- the default placement is where `centralRecord` puts the record -/
theorem centralExtraAllG_default (e : Entry) (off : UInt64) : e.centralExtraAllG off {} = e.centralExtraAll off := by
  unfold Entry.centralExtraAllG Entry.centralExtraAll
  simp [splitRecords, centralZ64G_none]

theorem centralRecordG_default (e : Entry) (off : UInt64) : centralRecordG e off {} = centralRecord e off := by
  rw [centralRecord_eq]
  unfold centralRecordG
  rw [centralExtraAllG_default]
  rfl

theorem viewEntryG_default (e : Entry) (off pre chs : Nat) : viewEntryG e off pre chs {} = viewEntry e off pre chs := by
  unfold viewEntryG
  rw [centralExtraAllG_default]
  rfl

/-- the extra field a reader reports consists of the foreign records and the ZIP64 record: nothing else -/
theorem centralExtraAllG_length (e : Entry) (off : UInt64) (pl : Z64Place) :
    (e.centralExtraAllG off pl).length = e.centralExtra.length + (e.centralZ64G off pl.disk).length := by
  have := congrArg List.length (splitRecords_append pl.pos e.centralExtra)
  simp only [List.length_append] at this
  simp only [Entry.centralExtraAllG, List.length_append]
  omega

end ZipVerif.Spec.Zip

namespace ZipVerif.Model
open ZipVerif ZipVerif.Spec.Zip

/-- **Foreign records in front are skipped**: with enough fuel for the whole field, a well-formed sequence of
records the reader does not interpret leaves the entry unchanged and the parser at the record that follows. -/
theorem parseExtra_front : ∀ (fuel : Nat) (front : Bytes), extraOkAux fuel front = true →
    ∀ (k : Nat) (f : FileData) (rest : Bytes), (front ++ rest).length < k →
      parseExtraField k f (front ++ rest) = parseExtraField k f rest := by
  intro fuel
  induction fuel with
  | zero =>
    intro front h k f rest _
    have hb : front = [] := by simpa [extraOkAux] using h
    subst hb
    rfl
  | succ n ih =>
    intro front h k f rest hk
    unfold extraOkAux at h
    by_cases he : front.isEmpty = true
    · have hb : front = [] := by simpa using he
      subst hb
      rfl
    · rw [if_neg he] at h
      cases h1 : rd16 front with
      | none => simp [h1] at h
      | some v1 =>
        obtain ⟨id, r1⟩ := v1
        simp only [h1] at h
        cases h2 : rd16 r1 with
        | none => simp [h2] at h
        | some v2 =>
          obtain ⟨len, r2⟩ := v2
          simp only [h2] at h
          simp only [Bool.and_eq_true, bne_iff_ne, ne_eq, decide_eq_true_eq] at h
          obtain ⟨⟨⟨hid1, hid2⟩, hlen⟩, hrest⟩ := h
          have e1 := rd16_length h1
          have e2 := rd16_length h2
          cases k with
          | zero => omega
          | succ k =>
            have hne : (front ++ rest).isEmpty = false := by
              cases front with
              | nil => simp at he
              | cons a t => rfl
            have hstep : parseExtraField (k + 1) f (front ++ rest) =
                parseExtraField k f (r2.drop len.toNat ++ rest) := by
              rw [parseExtraField]
              simp only [hne, Bool.false_eq_true, if_false, rd16_append h1, rd16_append h2]
              rw [if_neg (by simpa using hid1), if_neg (by simpa using hid2)]
              rw [List.drop_append_of_le_length hlen]
            rw [hstep]
            simp only [List.length_append] at hk
            rw [ih _ hrest k f rest (by
              simp only [List.length_append, List.length_drop]; omega)]
            have := parseExtraField_fuel_mono k f rest 1 (by omega)
            exact this.symm

/-- `parse_extra_field` on the ZIP64 extended information record with an optional disk-start field `dk` (no
bytes or four): every subset of the three 64-bit fields, the empty one included (a record that carries the
disk number only). -/
theorem parseExtra_z64G (f : FileData) (u c o : UInt64) (dk cx : Bytes) (k : Nat)
    (zu zc zo : Bool)
    (hu : (f.uncompressedSize == ZIP64_BYTES_THR) = zu) (hc : (f.compressedSize == ZIP64_BYTES_THR) = zc)
    (ho : (f.headerStart == ZIP64_BYTES_THR) = zo) (hd : dk.length = 0 ∨ dk.length = 4) :
    parseExtraField (k + 1) f
      (le16 1 ++ (le16 (UInt16.ofNat ((if zu then 8 else 0) + (if zc then 8 else 0) + (if zo then 8 else 0) +
          dk.length)) ++
        ((if zu then le64 u else []) ++ ((if zc then le64 c else []) ++ ((if zo then le64 o else []) ++
          (dk ++ cx))))))
    = parseExtraField k
        { f with largeFile := f.largeFile || zu || zc,
                 uncompressedSize := if zu then u else f.uncompressedSize,
                 compressedSize := if zc then c else f.compressedSize,
                 headerStart := if zo then o else f.headerStart } cx := by
  have n16 : ∀ v, le16 v ≠ [] := by intro v; simp [le16]
  rcases hd with hd | hd
  · have : dk = [] := List.eq_nil_of_length_eq_zero hd
    subst this
    cases zu <;> cases zc <;> cases zo <;>
      simp [parseExtraField, takeU64If, hu, hc, ho, n16]
  · match dk, hd with
    | [d0, d1, d2, d3], _ =>
      cases zu <;> cases zc <;> cases zo <;>
        simp [parseExtraField, takeU64If, hu, hc, ho, n16]

/-- the record the parser has built when it turns to the extra field of `centralRecordG` -/
def rawCentralG (e : Entry) (off64 : UInt64) (chs : Nat) (pl : Z64Place) : FileData :=
  { rawCentral e off64 chs with extraField := e.centralExtraAllG off64 pl }

/-- **The ZIP64 record at ANY position among foreign records, with or without the disk-start field**: the
parsed sizes and offset are the layout's. -/
theorem extra_on_centralG (e : Entry) (off64 : UInt64) (chs : Nat) (pl : Z64Place)
    (hx : ExtraOk e.centralExtra) (k : Nat) (hk : (e.centralExtraAllG off64 pl).length ≤ k) :
    parseExtraField (k + 1) (rawCentralG e off64 chs pl) (e.centralExtraAllG off64 pl) =
      ({ rawCentralG e off64 chs pl with
          largeFile := e.zU || e.zC, uncompressedSize := e.usize, compressedSize := e.csize,
          headerStart := off64 }, none) := by
  obtain ⟨hu1, hu2⟩ := slot_spec e.z64.1 e.usize
  obtain ⟨hc1, hc2⟩ := slot_spec e.z64.2.1 e.csize
  obtain ⟨ho1, ho2⟩ := slot_spec e.z64.2.2 off64
  change ((if e.zU then (0xFFFFFFFF : UInt32) else lo32 e.usize).toUInt64 == ZIP64_BYTES_THR) = e.zU at hu1
  change (if e.zU then e.usize else (if e.zU then (0xFFFFFFFF : UInt32) else lo32 e.usize).toUInt64) = e.usize at hu2
  change ((if e.zC then (0xFFFFFFFF : UInt32) else lo32 e.csize).toUInt64 == ZIP64_BYTES_THR) = e.zC at hc1
  change (if e.zC then e.csize else (if e.zC then (0xFFFFFFFF : UInt32) else lo32 e.csize).toUInt64) = e.csize at hc2
  change ((if e.zO off64 then (0xFFFFFFFF : UInt32) else lo32 off64).toUInt64 == ZIP64_BYTES_THR) = e.zO off64 at ho1
  change (if e.zO off64 then off64 else (if e.zO off64 then (0xFFFFFFFF : UInt32) else lo32 off64).toUInt64) = off64 at ho2
  obtain ⟨hfront, hback⟩ := splitRecords_ok pl.pos _ _ hx
  have hdl : (diskBytes pl.disk).length = 0 ∨ (diskBytes pl.disk).length = 4 := by
    cases pl.disk <;> simp [diskBytes]
  unfold Entry.centralExtraAllG at hk ⊢
  rw [parseExtra_front _ _ hfront _ _ _ (by omega)]
  by_cases hn : (if e.zU then 8 else 0) + (if e.zC then 8 else 0) + (if e.zO off64 then 8 else 0) +
      (diskBytes pl.disk).length = 0
  · have h3 : e.zU = false ∧ e.zC = false ∧ e.zO off64 = false := by
      revert hn; cases e.zU <;> cases e.zC <;> cases e.zO off64 <;> simp
    obtain ⟨h1, h2, h3⟩ := h3
    have hz : e.centralZ64G off64 pl.disk = [] := by
      unfold Entry.centralZ64G
      simp only [hn, if_true]
    rw [h1] at hu2; rw [h2] at hc2; rw [h3] at ho2
    simp only [Bool.false_eq_true, if_false] at hu2 hc2 ho2
    rw [hz, List.nil_append, parseExtra_ok_aux _ _ hback]
    simp only [rawCentralG, rawCentral, h1, h2, h3, hu2, hc2, ho2, Bool.false_eq_true, if_false, Bool.or_self]
  · have hz : e.centralZ64G off64 pl.disk =
        le16 1 ++ (le16 (UInt16.ofNat ((if e.zU then 8 else 0) + (if e.zC then 8 else 0) +
          (if e.zO off64 then 8 else 0) + (diskBytes pl.disk).length)) ++ ((if e.zU then le64 e.usize else []) ++
          ((if e.zC then le64 e.csize else []) ++ ((if e.zO off64 then le64 off64 else []) ++
            diskBytes pl.disk)))) := by
      unfold Entry.centralZ64G
      simp only [if_neg hn]
    rw [hz]
    simp only [List.append_assoc]
    rw [parseExtra_z64G _ _ _ _ _ _ _ _ _ _ hu1 hc1 ho1 hdl, parseExtra_ok_aux _ _ hback]
    simp only [rawCentralG, rawCentral, hu2, hc2, ho2, Bool.false_or]

theorem parses_centralInnerG (e : Entry) (off ao chs p : Nat) (pl : Z64Place) (hf : e.Fits)
    (hx : ExtraOk e.centralExtra) (hm : e.method ≠ 99) (ho : off + ao < 2 ^ 64)
    (hxl : (e.centralExtraAllG (UInt64.ofNat off) pl).length ≤ 0xFFFF) :
    Parses (centralHeaderInner ao chs) p
      (le16 e.madeBy ++ (le16 e.versionNeeded ++ (le16 e.flagsOut ++ (le16 e.method ++
      (le16 e.time ++ (le16 e.date ++ (le32 e.crc ++
      (le32 (if e.zC then 0xFFFFFFFF else lo32 e.csize) ++
      (le32 (if e.zU then 0xFFFFFFFF else lo32 e.usize) ++
      (le16 (UInt16.ofNat e.name.length) ++ (le16 (UInt16.ofNat (e.centralExtraAllG (UInt64.ofNat off) pl).length) ++
      (le16 (UInt16.ofNat e.comment.length) ++ (le16 (if pl.disk.isSome then 0xFFFF else 0) ++
      (le16 e.internalAttrs ++ (le32 e.externalAttrs ++
      (le32 (if e.zO (UInt64.ofNat off) then 0xFFFFFFFF else lo32 (UInt64.ofNat off)) ++
      (e.name ++ (e.centralExtraAllG (UInt64.ofNat off) pl ++ e.comment))))))))))))))))))
      (viewEntryG e off ao chs pl) := by
  obtain ⟨hn, hc, _, _, _, _⟩ := hf
  unfold centralHeaderInner
  refine Parses.bind (Parses.readU16 _) ?_
  refine Parses.bind (Parses.readU16 _) ?_
  refine Parses.bind (Parses.readU16 _) ?_
  refine Parses.bind (Parses.readU16 _) ?_
  refine Parses.bind (Parses.readU16 _) ?_
  refine Parses.bind (Parses.readU16 _) ?_
  refine Parses.bind (Parses.readU32 _) ?_
  refine Parses.bind (Parses.readU32 _) ?_
  refine Parses.bind (Parses.readU32 _) ?_
  refine Parses.bind (Parses.readU16 _) ?_
  refine Parses.bind (Parses.readU16 _) ?_
  refine Parses.bind (Parses.readU16 _) ?_
  refine Parses.bind (Parses.readU16 _) ?_
  refine Parses.bind (Parses.readU16 _) ?_
  refine Parses.bind (Parses.readU32 _) ?_
  refine Parses.bind (Parses.readU32 _) ?_
  refine Parses.bind (Parses.readExact (ofNat_toNat_of_le hn).symm) ?_
  refine Parses.bind (Parses.readExact (ofNat_toNat_of_le hxl).symm) ?_
  refine Parses.bind_last (Parses.readExact (ofNat_toNat_of_le hc).symm) ?_
  have hr := extra_on_centralG e (UInt64.ofNat off) chs pl hx
    (e.centralExtraAllG (UInt64.ofNat off) pl).length (Nat.le_refl _)
  simp only [rawCentralG, rawCentral] at hr
  simp only [hr]
  have ho' : (UInt64.ofNat off).toNat = off := by
    rw [UInt64.toNat_ofNat']; omega
  rw [fromU16_ne_aes hm, ho', if_neg (by simp), if_neg (by omega)]
  exact Parses.pure _

/-- **`central_header_to_zip_file` on a central record whose ZIP64 record sits at ANY position among the foreign
extra records and may carry the disk-start field** returns the view of that entry — sizes and offset from the
record, `large_file`, the whole extra field verbatim — consuming exactly the record. -/
theorem parses_centralHeaderG (e : Entry) (off ao p : Nat) (pl : Z64Place) (hf : e.Fits)
    (hx : ExtraOk e.centralExtra) (hm : e.method ≠ 99) (ho : off + ao < 2 ^ 64)
    (hxl : (e.centralExtraAllG (UInt64.ofNat off) pl).length ≤ 0xFFFF) :
    Parses (centralHeader ao) p (centralRecordG e (UInt64.ofNat off) pl) (viewEntryG e off ao p pl) := by
  unfold centralRecordG
  unfold centralHeader
  refine Parses.bind_nil Parses.streamPosition ?_
  refine Parses.bind (Parses.readU32 _) ?_
  rw [if_neg (by decide)]
  exact parses_centralInnerG e off ao p _ pl hf hx hm ho hxl

end ZipVerif.Model
