import ZipVerif.Lemmas.CentralParse
/-
The central-header parser on records whose extra field contains FURTHER ZIP64 (0x0001) records behind
the one the spec emits itself — what `new_append` + `finish` produce for an entry that needed ZIP64
(`Lemmas/AppendClosed.lean`: the old record is kept inside `extra_field`, a new one is put in front).

`parse_extra_field` treats a 0x0001 record statefully: it takes 8 bytes for each of uncompressed size,
compressed size, header offset whose CURRENT value equals 0xFFFFFFFF.  After the first record has been
applied the three fields hold the real values (and without a first record the 32-bit slots hold real
values < 0xFFFFFFFF), so a later 0x0001 record takes nothing, changes nothing (`large_file` included) and
is skipped by its length — unless a real value is exactly 0xFFFFFFFF.
-/

namespace ZipVerif.Spec.Zip
open ZipVerif

/-- `extraOkAux` with identifier 0x0001 allowed when `allowZ`. -/
def extraOkZAux (allowZ : Bool) : Nat → Bytes → Bool
  | 0, bs => bs.isEmpty
  | fuel + 1, bs =>
    if bs.isEmpty then true else
    match rd16 bs with
    | none => false
    | some (id, r1) =>
      match rd16 r1 with
      | none => false
      | some (len, r2) =>
        (id != 0x0001 || allowZ) && id != 0x9901 && decide (len.toNat ≤ r2.length) &&
          extraOkZAux allowZ fuel (r2.drop len.toNat)

/-- none of the three real values a ZIP64 record can carry is exactly the 32-bit placeholder -/
def noThr (e : Entry) (off : UInt64) : Bool :=
  e.usize != 0xFFFFFFFF && e.csize != 0xFFFFFFFF && off != 0xFFFFFFFF

/-- **The weaker condition on the foreign central extra data**: a well-formed record sequence without
identifier 0x9901, in which 0x0001 records are allowed provided none of the entry's real uncompressed
size, compressed size and local-header offset is exactly 0xFFFFFFFF. -/
def ExtraOkZ (e : Entry) (off : UInt64) : Prop :=
  extraOkZAux (noThr e off) e.centralExtra.length e.centralExtra = true

instance (e : Entry) (off : UInt64) : Decidable (ExtraOkZ e off) := by unfold ExtraOkZ; infer_instance

theorem extraOkZAux_false : ∀ (fuel : Nat) (bs : Bytes), extraOkZAux false fuel bs = extraOkAux fuel bs := by
  intro fuel
  induction fuel with
  | zero => intro bs; rfl
  | succ n ih =>
    intro bs
    unfold extraOkZAux extraOkAux
    split
    · rfl
    · cases rd16 bs with
      | none => rfl
      | some v1 =>
        obtain ⟨id, r1⟩ := v1
        dsimp only
        cases rd16 r1 with
        | none => rfl
        | some v2 =>
          obtain ⟨len, r2⟩ := v2
          dsimp only
          rw [ih, Bool.or_false]

theorem extraOkZAux_allow : ∀ (fuel : Nat) (bs : Bytes) (a : Bool), extraOkZAux a fuel bs = true →
    extraOkZAux true fuel bs = true := by
  intro fuel
  induction fuel with
  | zero => intro bs a h; exact h
  | succ n ih =>
    intro bs a h
    unfold extraOkZAux at h ⊢
    split
    · rfl
    · next he =>
      rw [if_neg he] at h
      cases h1 : rd16 bs with
      | none => simp [h1] at h
      | some v1 =>
        obtain ⟨id, r1⟩ := v1
        simp only [h1] at h ⊢
        cases h2 : rd16 r1 with
        | none => simp [h2] at h
        | some v2 =>
          obtain ⟨len, r2⟩ := v2
          simp only [h2] at h ⊢
          simp only [Bool.and_eq_true, Bool.or_true] at h ⊢
          exact ⟨⟨⟨trivial, h.1.1.2⟩, h.1.2⟩, ih _ a h.2⟩

/-- more fuel never hurts -/
theorem extraOkZAux_fuel (a : Bool) : ∀ (n m : Nat) (bs : Bytes), n ≤ m → extraOkZAux a n bs = true →
    extraOkZAux a m bs = true := by
  intro n
  induction n with
  | zero =>
    intro m bs _ h
    have hb : bs.isEmpty = true := h
    cases m with
    | zero => exact h
    | succ m => unfold extraOkZAux; rw [if_pos hb]
  | succ n ih =>
    intro m bs hm h
    cases m with
    | zero => omega
    | succ m =>
      unfold extraOkZAux at h ⊢
      split
      · rfl
      · next he =>
        rw [if_neg he] at h
        cases h1 : rd16 bs with
        | none => simp [h1] at h
        | some v1 =>
          obtain ⟨id, r1⟩ := v1
          simp only [h1] at h ⊢
          cases h2 : rd16 r1 with
          | none => simp [h2] at h
          | some v2 =>
            obtain ⟨len, r2⟩ := v2
            simp only [h2] at h ⊢
            simp only [Bool.and_eq_true] at h ⊢
            exact ⟨h.1, ih m _ (by omega) h.2⟩

/-- `ExtraOk` (C03's condition) implies `ExtraOkZ`, at any offset. -/
theorem extraOkZ_of_extraOk (e : Entry) (off : UInt64) (h : ExtraOk e.centralExtra) : ExtraOkZ e off := by
  unfold ExtraOkZ
  unfold ExtraOk at h
  rw [← extraOkZAux_false] at h
  cases hn : noThr e off
  · exact h
  · exact extraOkZAux_allow _ _ _ h

/-- one well-formed record in front -/
theorem extraOkZAux_record (a : Bool) (id len : UInt16) (payload rest : Bytes)
    (hl : payload.length = len.toNat) (hid : (id != 0x0001 || a) = true) (h99 : id ≠ 0x9901)
    (hr : extraOkZAux a rest.length rest = true) :
    extraOkZAux a (le16 id ++ (le16 len ++ (payload ++ rest))).length
      (le16 id ++ (le16 len ++ (payload ++ rest))) = true := by
  have hlen : (le16 id ++ (le16 len ++ (payload ++ rest))).length = (payload.length + rest.length + 3) + 1 := by
    simp; omega
  rw [hlen]
  unfold extraOkZAux
  have hne : (le16 id ++ (le16 len ++ (payload ++ rest))).isEmpty = false := by simp [le16]
  rw [hne]
  simp only [Bool.false_eq_true, if_false, rd16_le16]
  have hd : (payload ++ rest).drop len.toNat = rest := by rw [← hl]; simp
  rw [hd, hid]
  simp only [Bool.true_and, Bool.and_eq_true, bne_iff_ne, ne_eq, decide_eq_true_eq]
  refine ⟨⟨h99, by rw [← hl]; simp⟩, ?_⟩
  exact extraOkZAux_fuel a _ _ _ (by omega) hr

end ZipVerif.Spec.Zip

namespace ZipVerif.Model
open ZipVerif ZipVerif.Spec.Zip

/-! ### `parse_extra_field` skips later ZIP64 records -/

/-- On a record none of whose three ZIP64-able fields currently holds the placeholder, a sequence that is
`extraOkZAux` (0x0001 records allowed) is skipped without any change. -/
theorem parseExtraZ_ok_aux (a : Bool) : ∀ (fuel : Nat) (bs : Bytes), extraOkZAux a fuel bs = true →
    ∀ (k : Nat) (f : FileData),
      (a = true → (f.uncompressedSize == ZIP64_BYTES_THR) = false ∧
        (f.compressedSize == ZIP64_BYTES_THR) = false ∧ (f.headerStart == ZIP64_BYTES_THR) = false) →
      parseExtraField k f bs = (f, none) := by
  intro fuel
  induction fuel with
  | zero =>
    intro bs h k f _
    have hb : bs = [] := by simpa [extraOkZAux] using h
    subst hb
    cases k <;> simp [parseExtraField]
  | succ n ih =>
    intro bs h k f hf
    cases k with
    | zero => simp [parseExtraField]
    | succ k =>
      unfold parseExtraField
      unfold extraOkZAux at h
      by_cases he : bs.isEmpty = true
      · rw [if_pos he]
      · rw [if_neg he] at h ⊢
        cases h1 : rd16 bs with
        | none => simp [h1] at h
        | some v1 =>
          obtain ⟨id, r1⟩ := v1
          simp only [h1] at h ⊢
          cases h2 : rd16 r1 with
          | none => simp [h2] at h
          | some v2 =>
            obtain ⟨len, r2⟩ := v2
            simp only [h2] at h ⊢
            simp only [Bool.and_eq_true, bne_iff_ne, ne_eq, decide_eq_true_eq] at h
            obtain ⟨⟨⟨hid1, hid2⟩, _⟩, hrest⟩ := h
            by_cases hz : id = 0x0001
            · subst hz
              have ha : a = true := by simpa using hid1
              obtain ⟨hu, hc, ho⟩ := hf ha
              rw [if_pos (by decide)]
              simp only [takeU64If, hu, hc, ho, Bool.false_eq_true, if_false, Option.isSome_none]
              have hdrop : (if (len.toNat : Int) - (0 + 0 + 0) > 0 then
                  r2.drop ((len.toNat : Int) - (0 + 0 + 0)).toNat else r2) = r2.drop len.toNat := by
                have e0 : (len.toNat : Int) - (0 + 0 + 0) = (len.toNat : Int) := by omega
                rw [e0]
                by_cases hl : (len.toNat : Int) > 0
                · rw [if_pos hl]; simp
                · rw [if_neg hl]
                  have : len.toNat = 0 := by omega
                  rw [this]; rfl
              rw [hdrop]
              exact ih _ hrest k f hf
            · rw [if_neg (by simpa using hz), if_neg (by simpa using hid2)]
              exact ih _ hrest k f hf

/-! ### The central header parser on `centralRecord` under `ExtraOkZ` -/

theorem noThr_beq {e : Entry} {off64 : UInt64} (h : noThr e off64 = true) :
    (e.usize == ZIP64_BYTES_THR) = false ∧ (e.csize == ZIP64_BYTES_THR) = false ∧
    (off64 == ZIP64_BYTES_THR) = false := by
  unfold noThr at h
  simp only [Bool.and_eq_true, bne_iff_ne, ne_eq] at h
  exact ⟨beq_false_of_ne h.1.1, beq_false_of_ne h.1.2, beq_false_of_ne h.2⟩

/-- `extra_on_central` under the weaker hypothesis: the parsed record is the same. -/
theorem extra_on_centralZ (e : Entry) (off64 : UInt64) (chs : Nat) (hx : ExtraOkZ e off64) (k : Nat) :
    parseExtraField (k + 1) (rawCentral e off64 chs) (e.centralExtraAll off64) =
      ({ rawCentral e off64 chs with
          largeFile := e.zU || e.zC, uncompressedSize := e.usize, compressedSize := e.csize,
          headerStart := off64 }, none) := by
  obtain ⟨hu1, hu2⟩ := slot_spec e.z64.1 e.usize
  obtain ⟨hc1, hc2⟩ := slot_spec e.z64.2.1 e.csize
  obtain ⟨ho1, ho2⟩ := slot_spec e.z64.2.2 off64
  change ((if e.zU then (0xFFFFFFFF : UInt32) else lo32 e.usize).toUInt64 == ZIP64_BYTES_THR) = e.zU at hu1
  change (if e.zU then e.usize else (if e.zU then (0xFFFFFFFF : UInt32) else lo32 e.usize).toUInt64) = e.usize at hu2
  change ((if e.zC then (0xFFFFFFFF : UInt32) else lo32 e.csize).toUInt64 == ZIP64_BYTES_THR) = e.zC at hc1
  change (if e.zC then e.csize else (if e.zC then (0xFFFFFFFF : UInt32) else lo32 e.csize).toUInt64) = e.csize at hc2
  change ((if e.zO off64 then (0xFFFFFFFF : UInt32) else lo32 off64).toUInt64 == ZIP64_BYTES_THR) = e.zO off64 at ho1
  change (if e.zO off64 then off64 else (if e.zO off64 then (0xFFFFFFFF : UInt32) else lo32 off64).toUInt64) = off64 at ho2
  -- what the rest of the extra field is parsed on: a record holding the real values
  have hrest : ∀ (k : Nat) (g : FileData), g.uncompressedSize = e.usize → g.compressedSize = e.csize →
      g.headerStart = off64 → parseExtraField k g e.centralExtra = (g, none) := by
    intro k g h1 h2 h3
    refine parseExtraZ_ok_aux _ _ _ hx k g ?_
    intro ha
    rw [h1, h2, h3]
    exact noThr_beq ha
  by_cases hn : (e.zU || e.zC || e.zO off64) = true
  · have hz : e.centralExtraAll off64 =
        le16 1 ++ (le16 (UInt16.ofNat ((if e.zU then 8 else 0) + (if e.zC then 8 else 0) +
          (if e.zO off64 then 8 else 0))) ++ ((if e.zU then le64 e.usize else []) ++
          ((if e.zC then le64 e.csize else []) ++ ((if e.zO off64 then le64 off64 else []) ++ e.centralExtra)))) := by
      unfold Entry.centralExtraAll Entry.centralZ64
      have : ¬ ((if e.zU then 8 else 0) + (if e.zC then 8 else 0) + (if e.zO off64 then 8 else 0) = 0) := by
        revert hn; cases e.zU <;> cases e.zC <;> cases e.zO off64 <;> simp
      simp only [if_neg this, List.append_assoc]
    rw [hz, parseExtra_z64 _ _ _ _ _ _ _ _ _ hu1 hc1 ho1 hn]
    rw [hrest _ _ (by simp only [rawCentral]; exact hu2) (by simp only [rawCentral]; exact hc2)
      (by simp only [rawCentral]; exact ho2)]
    simp only [rawCentral, hu2, hc2, ho2, Bool.false_or]
  · have h3 : e.zU = false ∧ e.zC = false ∧ e.zO off64 = false := by
      revert hn; cases e.zU <;> cases e.zC <;> cases e.zO off64 <;> simp
    obtain ⟨h1, h2, h3⟩ := h3
    have hz : e.centralExtraAll off64 = e.centralExtra := by
      unfold Entry.centralExtraAll Entry.centralZ64
      simp [h1, h2, h3]
    rw [h1] at hu2; rw [h2] at hc2; rw [h3] at ho2
    simp only [Bool.false_eq_true, if_false] at hu2 hc2 ho2
    rw [hz, hrest _ _ (by simp only [rawCentral, h1, Bool.false_eq_true, if_false]; exact hu2)
      (by simp only [rawCentral, h2, Bool.false_eq_true, if_false]; exact hc2)
      (by simp only [rawCentral, h3, Bool.false_eq_true, if_false]; exact ho2)]
    simp only [rawCentral, h1, h2, h3, hu2, hc2, ho2, Bool.false_eq_true, if_false, Bool.or_self]

theorem parses_centralInnerZ (e : Entry) (off ao chs p : Nat) (hf : e.Fits)
    (hx : ExtraOkZ e (UInt64.ofNat off)) (hm : e.method ≠ 99) (ho : off + ao < 2 ^ 64) :
    Parses (centralHeaderInner ao chs) p
      (le16 e.madeBy ++ (le16 e.versionNeeded ++ (le16 e.flagsOut ++ (le16 e.method ++
      (le16 e.time ++ (le16 e.date ++ (le32 e.crc ++
      (le32 (if e.zC then 0xFFFFFFFF else lo32 e.csize) ++
      (le32 (if e.zU then 0xFFFFFFFF else lo32 e.usize) ++
      (le16 (UInt16.ofNat e.name.length) ++ (le16 (UInt16.ofNat (e.centralExtraAll (UInt64.ofNat off)).length) ++
      (le16 (UInt16.ofNat e.comment.length) ++ (le16 0 ++ (le16 e.internalAttrs ++ (le32 e.externalAttrs ++
      (le32 (if e.zO (UInt64.ofNat off) then 0xFFFFFFFF else lo32 (UInt64.ofNat off)) ++
      (e.name ++ (e.centralExtraAll (UInt64.ofNat off) ++ e.comment))))))))))))))))))
      (viewEntry e off ao chs) := by
  obtain ⟨hn, hc, _, hxl, _, _⟩ := hf
  have hxl' : (e.centralExtraAll (UInt64.ofNat off)).length ≤ 65535 := by
    have := centralZ64_length_le e (UInt64.ofNat off)
    simp only [Entry.centralExtraAll, List.length_append]; omega
  unfold centralHeaderInner
  refine Parses.bind (Parses.readU16 _) ?_
  refine Parses.bind (Parses.readU16 _) ?_
  refine Parses.bind (Parses.readU16 _) ?_
  refine Parses.bind (Parses.readU16 _) ?_
  refine Parses.bind (Parses.readU16 _) ?_
  refine Parses.bind (Parses.readU16 _) ?_
  refine Parses.bind (Parses.readU32 _) ?_
  refine Parses.bind (Parses.readU32 _) ?_
  refine Parses.bind (Parses.readU32 _) ?_
  refine Parses.bind (Parses.readU16 _) ?_
  refine Parses.bind (Parses.readU16 _) ?_
  refine Parses.bind (Parses.readU16 _) ?_
  refine Parses.bind (Parses.readU16 _) ?_
  refine Parses.bind (Parses.readU16 _) ?_
  refine Parses.bind (Parses.readU32 _) ?_
  refine Parses.bind (Parses.readU32 _) ?_
  refine Parses.bind (Parses.readExact (ofNat_toNat_of_le hn).symm) ?_
  refine Parses.bind (Parses.readExact (ofNat_toNat_of_le hxl').symm) ?_
  refine Parses.bind_last (Parses.readExact (ofNat_toNat_of_le hc).symm) ?_
  have hr := extra_on_centralZ e (UInt64.ofNat off) chs hx (e.centralExtraAll (UInt64.ofNat off)).length
  simp only [rawCentral] at hr
  simp only [hr]
  have ho' : (UInt64.ofNat off).toNat = off := by
    rw [UInt64.toNat_ofNat']; omega
  rw [fromU16_ne_aes hm, ho', if_neg (by simp), if_neg (by omega)]
  exact Parses.pure _

/-- **`central_header_to_zip_file` on the spec's serialisation of an entry whose central extra data may
contain further ZIP64 records** still returns the view of that entry (`large_file` included: a skipped
record does not set it), consuming exactly the record. -/
theorem parses_centralHeaderZ (e : Entry) (off ao p : Nat) (hf : e.Fits)
    (hx : ExtraOkZ e (UInt64.ofNat off)) (hm : e.method ≠ 99) (ho : off + ao < 2 ^ 64) :
    Parses (centralHeader ao) p (centralRecord e (UInt64.ofNat off)) (viewEntry e off ao p) := by
  rw [centralRecord_eq]
  unfold centralHeader
  refine Parses.bind_nil Parses.streamPosition ?_
  refine Parses.bind (Parses.readU32 _) ?_
  rw [if_neg (by decide)]
  exact parses_centralInnerZ e off ao p _ hf hx hm ho

end ZipVerif.Model

namespace ZipVerif.Spec.Zip
open ZipVerif

/-- `ReadableZ` along a list of entries whose first local record (with its gap) begins at `loc`. -/
def ReadableZFrom : List Entry → Nat → Prop
  | [], _ => True
  | e :: es, loc =>
    (e.method ≠ 99 ∧ ExtraOkZ e (UInt64.ofNat (loc + e.gapBefore.length))) ∧
      ReadableZFrom es (loc + e.localBytes.length)

instance : (es : List Entry) → (loc : Nat) → Decidable (ReadableZFrom es loc)
  | [], _ => isTrue trivial
  | e :: es, loc =>
    have := instDecidableReadableZFrom es (loc + e.localBytes.length)
    by unfold ReadableZFrom; infer_instance

/-- **What the seekable reader needs of a layout, weakened**: every entry is not WinZip-AES and its central
extra data are `ExtraOkZ` at the offset the layout gives it. -/
def Layout.ReadableZ (l : Layout) : Prop := ReadableZFrom l.entries 0

instance (l : Layout) : Decidable l.ReadableZ := by unfold Layout.ReadableZ; infer_instance

theorem readableZFrom_of_readable : ∀ (es : List Entry) (loc : Nat), (∀ e ∈ es, e.Readable) →
    ReadableZFrom es loc := by
  intro es
  induction es with
  | nil => intro _ _; trivial
  | cons e es ih =>
    intro loc h
    have he := h e List.mem_cons_self
    exact ⟨⟨he.2, extraOkZ_of_extraOk e _ he.1⟩, ih _ (fun x hx => h x (List.mem_cons_of_mem _ hx))⟩

/-- `ReadableZ` generalises `Readable`. -/
theorem readable_imp_readableZ (l : Layout) (h : l.Readable) : l.ReadableZ :=
  readableZFrom_of_readable l.entries 0 h

theorem readableZFrom_append : ∀ (es1 es2 : List Entry) (loc : Nat),
    ReadableZFrom (es1 ++ es2) loc ↔
      ReadableZFrom es1 loc ∧ ReadableZFrom es2 (loc + (localsBytes es1).length) := by
  intro es1
  induction es1 with
  | nil => intro es2 loc; simp [ReadableZFrom, localsBytes]
  | cons e es ih =>
    intro es2 loc
    show (_ ∧ ReadableZFrom (es ++ es2) _) ↔ (_ ∧ ReadableZFrom es _) ∧ _
    have e1 : (localsBytes (e :: es)).length = e.localBytes.length + (localsBytes es).length := by
      simp [localsBytes]
    rw [ih, e1, Nat.add_assoc]
    simp only [and_assoc]

end ZipVerif.Spec.Zip
