import ZipVerif.Model.Clones
/-
Helper lemmas for C20: the invariants of the clone system and the simulation of an interleaved run by
the solo runs of its handles.
-/

namespace ZipVerif.Model.Clones
open ZipVerif

/-- The entry whose cell the handle depends on: the one it is about to wrap into a `ZipFile` (its own
store has already happened) or the one its open `ZipFile` refers to. -/
def held (H : Handle) : Option Nat :=
  match H.pc with
  | .seeking i _ _ => some i
  | _ => H.file.map (·.idx)

/-- Per-handle invariant relative to the shared cells. -/
structure InvH (A : Arch) (cells : List UInt64) (H : Handle) : Prop where
  storing : ∀ i md v, H.pc = .storing i md v → A.f i = some v
  held : ∀ i, held H = some i → ∃ v, A.f i = some v ∧ cells[i]? = some v

/-- Invariant of the shared cells: one per entry, each still 0 or already the entry's `f i`. -/
structure CellsInv (A : Arch) (cells : List UInt64) : Prop where
  len : cells.length = A.entries.length
  val : ∀ i v, cells[i]? = some v → v = 0 ∨ A.f i = some v

theorem f_lt {A : Arch} {i : Nat} {v : UInt64} (h : A.f i = some v) : i < A.entries.length := by
  unfold Arch.f at h
  cases he : A.entries[i]? with
  | none => rw [he] at h; cases h
  | some e => exact (List.getElem?_eq_some_iff.mp he).1

theorem cellsInv_init (A : Arch) : CellsInv A (initCells A) := by
  refine ⟨by simp [initCells], ?_⟩
  intro i v h
  left
  simp only [initCells, List.getElem?_map, Option.map_eq_some_iff] at h
  obtain ⟨_, _, rfl⟩ := h
  rfl

theorem invH_init (A : Arch) (cells : List UInt64) (s : List Op) : InvH A cells (Handle.init s) := by
  refine ⟨?_, ?_⟩
  · intro i md v h; cases h
  · intro i h; cases h

/-! ### `beginOpen` -/

theorem beginOpen_cases (A : Arch) (h : Handle) (i : Nat) (md : Mode) (hpc : h.pc = .idle) :
    ((beginOpen A h i md).pc = .idle ∧ (beginOpen A h i md).file = none) ∨
    (∃ v, A.f i = some v ∧ (beginOpen A h i md).pc = .storing i md v ∧
      (beginOpen A h i md).file = none) := by
  unfold beginOpen Arch.f
  cases he : A.entries[i]? with
  | none => left; simp [Handle.emit, hpc]
  | some e =>
    by_cases hpr : needsPw md e = true
    · left; simp [Handle.emit, hpc, hpr]
    · cases hf : findContent A.bytes e.headerStart with
      | ok v => right; exact ⟨v, by simp [hf], by simp [hf, hpr], by simp [hf, hpr]⟩
      | err er => left; simp [Handle.emit, hpc, hf, hpr]
      | panic => left; simp [Handle.emit, hpc, hf, hpr]

theorem invH_of_idle_nofile {A : Arch} {cells : List UInt64} {H : Handle}
    (hpc : H.pc = .idle) (hf : H.file = none) : InvH A cells H := by
  refine ⟨?_, ?_⟩
  · intro i md v h; rw [hpc] at h; cases h
  · intro i h; simp [held, hpc, hf] at h

theorem invH_beginOpen (A : Arch) (cells : List UInt64) (h : Handle) (i : Nat) (md : Mode)
    (hpc : h.pc = .idle) : InvH A cells (beginOpen A h i md) := by
  rcases beginOpen_cases A h i md hpc with ⟨h1, h2⟩ | ⟨v, hv, h1, h2⟩
  · exact invH_of_idle_nofile h1 h2
  · refine ⟨?_, ?_⟩
    · intro j md' v' hj
      rw [h1] at hj
      cases hj
      exact hv
    · intro j hj
      simp [held, h1, h2] at hj

/-! ### Frame: a store of `f i` into cell `i` keeps every handle's invariant -/

theorem invH_set {A : Arch} {cells : List UInt64} {G : Handle} {i : Nat} {v : UInt64}
    (hG : InvH A cells G) (hv : A.f i = some v) : InvH A (cells.set i v) G := by
  refine ⟨hG.storing, ?_⟩
  intro j hj
  obtain ⟨w, hw, hc⟩ := hG.held j hj
  refine ⟨w, hw, ?_⟩
  by_cases hij : i = j
  · subst hij
    have : w = v := by rw [hv] at hw; cases hw; rfl
    subst this
    have hlt : i < cells.length := (List.getElem?_eq_some_iff.mp hc).1
    simp [hlt]
  · simp [hij, hc]

theorem cellsInv_set {A : Arch} {cells : List UInt64} {i : Nat} {v : UInt64}
    (hc : CellsInv A cells) (hv : A.f i = some v) : CellsInv A (cells.set i v) := by
  refine ⟨by simp [hc.len], ?_⟩
  intro j w hj
  by_cases hij : i = j
  · subst hij
    rw [List.getElem?_set] at hj
    simp only [if_true] at hj
    split at hj
    · cases hj; right; exact hv
    · cases hj
  · rw [List.getElem?_set] at hj
    simp only [hij, if_false] at hj
    exact hc.val j w hj

/-! ### One atomic step -/

/-- A step changes the cells only by the store of a handle in state `storing`. -/
theorem stepH_cells (A : Arch) (cells : List UInt64) (H : Handle) :
    (stepH A cells H).1 = cells ∨
    ∃ i md v, H.pc = .storing i md v ∧ (stepH A cells H).1 = cells.set i v := by
  unfold stepH
  split
  · rename_i i md v hpc
    right; exact ⟨i, md, v, hpc, rfl⟩
  · left; rfl
  · left
    split <;> rfl

theorem held_emit (H : Handle) (o : Obs) : held (H.emit o) = held H := rfl

theorem invH_emit {A : Arch} {cells : List UInt64} {H : Handle} (o : Obs) (h : InvH A cells H) :
    InvH A cells (H.emit o) := ⟨h.storing, h.held⟩

theorem invH_congr {A : Arch} {cells : List UInt64} {H H' : Handle}
    (hpc : H'.pc = H.pc) (hheld : held H' = held H) (h : InvH A cells H) : InvH A cells H' :=
  ⟨fun i md v e => h.storing i md v (hpc ▸ e), fun i e => h.held i (hheld ▸ e)⟩

theorem doRead_pc (A : Arch) (h : Handle) (n : Nat) : (doRead A h n).pc = h.pc := by
  unfold doRead
  split
  · rfl
  · split <;> rfl

theorem doRead_file_idx (A : Arch) (h : Handle) (n : Nat) :
    (doRead A h n).file.map (·.idx) = h.file.map (·.idx) := by
  unfold doRead
  split
  · rfl
  · rename_i fl hfl
    split <;> simp [Handle.emit, hfl]

theorem held_idle {H : Handle} (hpc : H.pc = .idle) : held H = H.file.map (·.idx) := by
  simp [held, hpc]

theorem invH_doOp {A : Arch} {cells : List UInt64} {h : Handle} (op : Op)
    (hpc : h.pc = .idle) (hh : InvH A cells h) : InvH A cells (doOp A cells h op) := by
  cases op with
  | openIdx i => exact invH_beginOpen A cells h i .noPw hpc
  | openRaw i => exact invH_beginOpen A cells h i .raw hpc
  | openDec i p => exact invH_beginOpen A cells h i (.pw p) hpc
  | openName nm => exact invH_beginOpen A cells h (A.nameIndex nm) .noPw hpc
  | openNameDec nm p => exact invH_beginOpen A cells h (A.nameIndex nm) (.pw p) hpc
  | read n =>
    show InvH A cells (doRead A h n)
    refine invH_congr (doRead_pc A h n) ?_ hh
    rw [held_idle hpc, held_idle (by show (doRead A h n).pc = _; rw [doRead_pc, hpc])]
    exact doRead_file_idx A h n
  | dataStart =>
    simp only [doOp]
    split
    · exact invH_emit _ hh
    · split <;> exact invH_emit _ hh
  | info =>
    simp only [doOp]
    split
    · exact invH_emit _ hh
    · split <;> exact invH_emit _ hh
  | close =>
    simp only [doOp]
    split
    · exact invH_emit _ hh
    · exact invH_emit _ (invH_of_idle_nofile hpc rfl)
  | len =>
    simp only [doOp]
    split <;> exact invH_emit _ hh

/-- The acting handle keeps its invariant (relative to the cells after its step). -/
theorem stepH_invH {A : Arch} {cells : List UInt64} {H : Handle}
    (hc : CellsInv A cells) (hH : InvH A cells H) :
    InvH A (stepH A cells H).1 (stepH A cells H).2 := by
  unfold stepH
  split
  · -- storing: the store
    rename_i i md v hpc
    have hv := hH.storing i md v hpc
    have hlt : i < cells.length := by rw [hc.len]; exact f_lt hv
    refine ⟨?_, ?_⟩
    · intro j r w hj; cases hj
    · intro j hj
      simp only [held] at hj
      cases hj
      exact ⟨v, hv, by simp [hlt]⟩
  · -- seeking: finish the open
    rename_i i md v hpc
    obtain ⟨w, hw, hcw⟩ := hH.held i (by simp [held, hpc])
    show InvH A cells (finishOpen A H i md v)
    have hopen : ∀ (G : Handle) (fl : OpenFile), G.pc = .idle → G.file = some fl → fl.idx = i →
        InvH A cells G := by
      intro G fl g1 g2 g3
      refine ⟨?_, ?_⟩
      · intro j r w hj; rw [g1] at hj; cases hj
      · intro j hj
        simp only [held, g1, g2, Option.map_some, Option.some.injEq] at hj
        subst hj
        rw [g3]
        exact ⟨w, hw, hcw⟩
    unfold finishOpen
    split
    · exact invH_emit _ (invH_of_idle_nofile rfl rfl)
    · split
      · exact invH_emit _ (hopen _ _ rfl rfl rfl)
      · split
        · exact invH_emit _ (hopen _ _ rfl rfl rfl)
        · exact invH_emit _ (invH_of_idle_nofile rfl rfl)
      · split
        · exact invH_emit _ (invH_of_idle_nofile rfl rfl)
        · split
          · exact invH_emit _ (hopen _ _ rfl rfl rfl)
          · split
            · exact invH_emit _ (invH_of_idle_nofile rfl rfl)
            · exact invH_emit _ (invH_of_idle_nofile rfl rfl)
            · exact invH_emit _ (hopen _ _ rfl rfl rfl)
  · rename_i hpc
    split
    · exact hH
    · exact invH_doOp _ hpc (invH_congr (H := H) rfl rfl hH)

/-- The handle-local result of a step does not depend on which cells it ran against, as long as both
satisfy the handle's invariant: the only load (`dataStart`) reads a cell that holds `f i` in both. -/
theorem stepH_congr {A : Arch} {c1 c2 : List UInt64} {H : Handle}
    (h1 : InvH A c1 H) (h2 : InvH A c2 H) : (stepH A c1 H).2 = (stepH A c2 H).2 := by
  unfold stepH
  split
  · rfl
  · rfl
  · rename_i hpc
    split
    · rfl
    · rename_i op rest hs
      cases op with
      | dataStart =>
        simp only [doOp]
        cases hf : H.file with
        | none => simp
        | some fl =>
          have hheld : held H = some fl.idx := by simp [held, hpc, hf]
          obtain ⟨v1, hv1, hc1⟩ := h1.held _ hheld
          obtain ⟨v2, hv2, hc2⟩ := h2.held _ hheld
          have : v1 = v2 := by rw [hv1] at hv2; cases hv2; rfl
          subst this
          simp [hc1, hc2]
      | _ => rfl

/-! ### The system -/

/-- Invariant of a whole system state. -/
structure Good (A : Arch) (s : Sys) : Prop where
  cells : CellsInv A s.cells
  handles : ∀ H ∈ s.hs, InvH A s.cells H

theorem good_init (A : Arch) (scripts : List (List Op)) : Good A (Sys.init A scripts) := by
  refine ⟨cellsInv_init A, ?_⟩
  intro H hH
  simp only [Sys.init, List.mem_map] at hH
  obtain ⟨s, _, rfl⟩ := hH
  exact invH_init A _ s

theorem good_step {A : Arch} {s : Sys} (hs : Good A s) (h : Nat) : Good A (Sys.step A s h) := by
  unfold Sys.step
  cases hH : s.hs[h]? with
  | none => exact hs
  | some H =>
    have hmem : H ∈ s.hs := List.mem_of_getElem? hH
    have hinv := hs.handles H hmem
    have hact := stepH_invH hs.cells hinv
    rcases stepH_cells A s.cells H with hc | ⟨i, md, v, hpc, hc⟩
    · refine ⟨by simp only [hc]; exact hs.cells, ?_⟩
      intro G hG
      simp only at hG ⊢
      rcases List.mem_or_eq_of_mem_set hG with hG | rfl
      · rw [hc]; exact hs.handles G hG
      · exact hact
    · have hv := hinv.storing i md v hpc
      refine ⟨by simp only [hc]; exact cellsInv_set hs.cells hv, ?_⟩
      intro G hG
      simp only at hG ⊢
      rcases List.mem_or_eq_of_mem_set hG with hG | rfl
      · rw [hc]; exact invH_set (hs.handles G hG) hv
      · exact hact

theorem rev_ind {α : Type} {P : List α → Prop} (h0 : P [])
    (h1 : ∀ l x, P l → P (l ++ [x])) : ∀ l, P l := by
  intro l
  rw [← List.reverse_reverse l]
  induction l.reverse with
  | nil => exact h0
  | cons x t ih => rw [List.reverse_cons]; exact h1 _ _ ih

theorem run_snoc (A : Arch) (s : Sys) (σ : List Nat) (x : Nat) :
    run A s (σ ++ [x]) = Sys.step A (run A s σ) x := by
  simp [run, List.foldl_append]

theorem good_run {A : Arch} {s : Sys} (hs : Good A s) (σ : List Nat) : Good A (run A s σ) := by
  induction σ using rev_ind with
  | h0 => exact hs
  | h1 l x ih => rw [run_snoc]; exact good_step ih x

theorem step_length (A : Arch) (s : Sys) (h : Nat) : (Sys.step A s h).hs.length = s.hs.length := by
  unfold Sys.step
  split <;> simp

theorem run_length (A : Arch) (s : Sys) (σ : List Nat) : (run A s σ).hs.length = s.hs.length := by
  induction σ using rev_ind with
  | h0 => rfl
  | h1 l x ih => rw [run_snoc, step_length, ih]

/-- Invariant of a solo run. -/
theorem solo_inv (A : Arch) (script : List Op) (n : Nat) :
    CellsInv A (soloRun A (initCells A) (Handle.init script) n).1 ∧
    InvH A (soloRun A (initCells A) (Handle.init script) n).1
      (soloRun A (initCells A) (Handle.init script) n).2 := by
  induction n with
  | zero => exact ⟨cellsInv_init A, invH_init A _ _⟩
  | succ n ih =>
    obtain ⟨hc, hh⟩ := ih
    refine ⟨?_, stepH_invH hc hh⟩
    show CellsInv A (stepH A _ _).1
    rcases stepH_cells A (soloRun A (initCells A) (Handle.init script) n).1
        (soloRun A (initCells A) (Handle.init script) n).2 with e | ⟨i, md, v, hpc, e⟩
    · rw [e]; exact hc
    · rw [e]; exact cellsInv_set hc (hh.storing i md v hpc)

/-- **Simulation.** After any schedule, the complete local state of handle `h` (position, open file,
remaining script, observations) is the state it reaches alone after as many atomic steps as the
schedule gave it. -/
theorem sim_local (A : Arch) (scripts : List (List Op)) (σ : List Nat) (h : Nat)
    (hh : h < scripts.length) :
    (run A (Sys.init A scripts) σ).hs[h]? =
      some (soloRun A (initCells A) (Handle.init scripts[h]) (σ.count h)).2 := by
  induction σ using rev_ind with
  | h0 => simp [run, Sys.init, soloRun, hh]
  | h1 l x ih =>
    rw [run_snoc]
    have hg := good_run (good_init A scripts) l
    by_cases hx : x = h
    · subst hx
      have hcnt : (l ++ [x]).count x = l.count x + 1 := by simp
      rw [hcnt]
      show _ = some (stepH A _ _).2
      unfold Sys.step
      rw [ih]
      simp only
      have hlen : x < (run A (Sys.init A scripts) l).hs.length := by
        rw [run_length]; simpa [Sys.init] using hh
      rw [List.getElem?_set_self hlen]
      congr 1
      have hmem := List.mem_of_getElem? ih
      exact stepH_congr (hg.handles _ hmem) (solo_inv A scripts[x] (l.count x)).2
    · have hcnt : (l ++ [x]).count h = l.count h := by
        simp [List.count_append, hx]
      rw [hcnt, ← ih]
      unfold Sys.step
      split
      · rfl
      · simp only
        rw [List.getElem?_set_ne hx]

/-! ### A script run alone runs to completion in exactly `atomicSteps` steps -/

theorem soloRun_add (A : Arch) (c : List UInt64) (H : Handle) (n m : Nat) :
    soloRun A c H (n + m) = soloRun A (soloRun A c H n).1 (soloRun A c H n).2 m := by
  induction m with
  | zero => rfl
  | succ m ih =>
    show stepH A (soloRun A c H (n + m)).1 (soloRun A c H (n + m)).2 = _
    rw [ih]
    rfl

theorem g_some_f {A : Arch} {i : Nat} {md : Mode} {v : UInt64} (h : A.g i md = some v) :
    A.f i = some v := by
  unfold Arch.g at h
  cases he : A.entries[i]? with
  | none => rw [he] at h; cases h
  | some e =>
    rw [he] at h
    simp only at h
    split at h
    · cases h
    · exact h

theorem beginOpen_some {A : Arch} {i : Nat} {v : UInt64} (h : Handle) (md : Mode)
    (hv : A.g i md = some v) :
    (beginOpen A h i md).pc = .storing i md v ∧ (beginOpen A h i md).script = h.script ∧
      (beginOpen A h i md).obs = h.obs := by
  unfold Arch.g Arch.f at hv
  unfold beginOpen
  cases he : A.entries[i]? with
  | none => rw [he] at hv; cases hv
  | some e =>
    rw [he] at hv
    simp only at hv ⊢
    by_cases hpr : needsPw md e = true
    · rw [if_pos hpr] at hv; cases hv
    · rw [if_neg hpr] at hv ⊢
      cases hf : findContent A.bytes e.headerStart with
      | ok w => rw [hf] at hv; cases hv; simp
      | err er => rw [hf] at hv; cases hv
      | panic => rw [hf] at hv; cases hv

theorem beginOpen_none {A : Arch} {i : Nat} (h : Handle) (md : Mode) (hv : A.g i md = none) :
    (beginOpen A h i md).pc = h.pc ∧ (beginOpen A h i md).script = h.script ∧
      (beginOpen A h i md).obs.length = h.obs.length + 1 := by
  unfold Arch.g Arch.f at hv
  unfold beginOpen
  cases he : A.entries[i]? with
  | none => simp [Handle.emit]
  | some e =>
    rw [he] at hv
    simp only at hv ⊢
    by_cases hpr : needsPw md e = true
    · rw [if_pos hpr]; simp [Handle.emit]
    · rw [if_neg hpr] at hv ⊢
      cases hf : findContent A.bytes e.headerStart with
      | ok w => rw [hf] at hv; cases hv
      | err er => simp [Handle.emit]
      | panic => simp [Handle.emit]

theorem finishOpen_done (A : Arch) (h : Handle) (i : Nat) (md : Mode) (v : UInt64) :
    (finishOpen A h i md v).pc = .idle ∧ (finishOpen A h i md v).script = h.script ∧
      (finishOpen A h i md v).obs.length = h.obs.length + 1 := by
  unfold finishOpen
  split
  · simp [Handle.emit]
  · split
    · simp [Handle.emit]
    · split <;> simp [Handle.emit]
    · split
      · simp [Handle.emit]
      · split
        · simp [Handle.emit]
        · split <;> simp [Handle.emit]

theorem doRead_done (A : Arch) (h : Handle) (n : Nat) :
    (doRead A h n).script = h.script ∧ (doRead A h n).obs.length = h.obs.length + 1 := by
  unfold doRead
  split
  · simp [Handle.emit]
  · split <;> simp [Handle.emit]

theorem doOp_target {A : Arch} {op : Op} {i : Nat} {md : Mode} (c : List UInt64) (h : Handle)
    (ht : op.target A = some (i, md)) : doOp A c h op = beginOpen A h i md := by
  cases op <;> simp only [Op.target, Option.some.injEq, Prod.mk.injEq, reduceCtorEq] at ht <;>
    (obtain ⟨rfl, rfl⟩ := ht; rfl)

theorem opSteps_target {A : Arch} {op : Op} {i : Nat} {md : Mode}
    (ht : op.target A = some (i, md)) : opSteps A op = if (A.g i md).isSome then 3 else 1 := by
  cases op <;> simp only [Op.target, Option.some.injEq, Prod.mk.injEq, reduceCtorEq] at ht <;>
    (obtain ⟨rfl, rfl⟩ := ht; rfl)

theorem opSteps_nontarget {A : Arch} {op : Op} (ht : op.target A = none) : opSteps A op = 1 := by
  cases op <;> simp only [Op.target, reduceCtorEq] at ht <;> rfl

/-- One whole call, run alone from an idle handle, takes exactly `opSteps` atomic steps, consumes the
call from the script and yields exactly one observation. -/
theorem call_steps (A : Arch) (c : List UInt64) (H : Handle) (op : Op) (rest : List Op)
    (hpc : H.pc = .idle) (hs : H.script = op :: rest) :
    (soloRun A c H (opSteps A op)).2.pc = .idle ∧
    (soloRun A c H (opSteps A op)).2.script = rest ∧
    (soloRun A c H (opSteps A op)).2.obs.length = H.obs.length + 1 := by
  have step1 : stepH A c H = (c, doOp A c { H with script := rest } op) := by
    unfold stepH; rw [hpc]; simp only; rw [hs]
  have open3 : ∀ i md, op.target A = some (i, md) →
      ∀ v, A.g i md = some v →
      (soloRun A c H 3).2.pc = .idle ∧ (soloRun A c H 3).2.script = rest ∧
      (soloRun A c H 3).2.obs.length = H.obs.length + 1 := by
    intro i md hop v hv
    have hd : doOp A c { H with script := rest } op = beginOpen A { H with script := rest } i md :=
      doOp_target c _ hop
    obtain ⟨b1, b2, b3⟩ := beginOpen_some { H with script := rest } md hv
    have e1 : soloRun A c H 1 = (c, beginOpen A { H with script := rest } i md) := by
      show stepH A c H = _; rw [step1, hd]
    have e2 : soloRun A c H 2 =
        (c.set i v, { beginOpen A { H with script := rest } i md with pc := .seeking i md v }) := by
      show stepH A (soloRun A c H 1).1 (soloRun A c H 1).2 = _
      rw [e1]; unfold stepH; simp only [b1]
    have e3 : (soloRun A c H 3).2 = finishOpen A
        { beginOpen A { H with script := rest } i md with pc := .seeking i md v } i md v := by
      show (stepH A (soloRun A c H 2).1 (soloRun A c H 2).2).2 = _
      rw [e2]; unfold stepH; simp only
    rw [e3]
    obtain ⟨f1, f2, f3⟩ := finishOpen_done A
      { beginOpen A { H with script := rest } i md with pc := .seeking i md v } i md v
    refine ⟨f1, ?_, ?_⟩
    · rw [f2]; exact b2
    · rw [f3]; simp only [b3]
  have open1 : ∀ i md, op.target A = some (i, md) →
      A.g i md = none →
      (soloRun A c H 1).2.pc = .idle ∧ (soloRun A c H 1).2.script = rest ∧
      (soloRun A c H 1).2.obs.length = H.obs.length + 1 := by
    intro i md hop hv
    have hd : doOp A c { H with script := rest } op = beginOpen A { H with script := rest } i md :=
      doOp_target c _ hop
    obtain ⟨b1, b2, b3⟩ := beginOpen_none { H with script := rest } md hv
    have e1 : soloRun A c H 1 = (c, beginOpen A { H with script := rest } i md) := by
      show stepH A c H = _; rw [step1, hd]
    rw [e1]
    exact ⟨by rw [b1]; exact hpc, b2, b3⟩
  have simple : ∀ G : Handle, doOp A c { H with script := rest } op = G →
      G.pc = H.pc → G.script = rest → G.obs.length = H.obs.length + 1 →
      (soloRun A c H 1).2.pc = .idle ∧ (soloRun A c H 1).2.script = rest ∧
      (soloRun A c H 1).2.obs.length = H.obs.length + 1 := by
    intro G hG g1 g2 g3
    have e1 : soloRun A c H 1 = (c, G) := by show stepH A c H = _; rw [step1, hG]
    rw [e1]; exact ⟨by rw [g1]; exact hpc, g2, g3⟩
  cases ht : op.target A with
  | some t =>
    obtain ⟨i, md⟩ := t
    rw [opSteps_target ht]
    cases hv : A.g i md with
    | none => simp only [Option.isSome_none]; exact open1 i md ht hv
    | some v => simp only [Option.isSome_some, if_true]; exact open3 i md ht v hv
  | none =>
    rw [opSteps_nontarget ht]
    cases op with
    | openIdx i => simp [Op.target] at ht
    | openRaw i => simp [Op.target] at ht
    | openDec i p => simp [Op.target] at ht
    | openName nm => simp [Op.target] at ht
    | openNameDec nm p => simp [Op.target] at ht
    | read n =>
      obtain ⟨d1, d2⟩ := doRead_done A { H with script := rest } n
      exact simple _ rfl (doRead_pc A _ n) d1 d2
    | dataStart =>
      refine simple _ rfl ?_ ?_ ?_ <;> simp only [doOp] <;> split <;> (try split) <;> simp [Handle.emit]
    | info =>
      refine simple _ rfl ?_ ?_ ?_ <;> simp only [doOp] <;> split <;> (try split) <;> simp [Handle.emit]
    | close =>
      refine simple _ rfl ?_ ?_ ?_ <;> simp only [doOp] <;> split <;> simp [Handle.emit]
    | len =>
      refine simple _ rfl ?_ ?_ ?_ <;> simp only [doOp] <;> split <;> simp [Handle.emit]

/-- A successful-so-far open run alone: three steps = header parse, store, `finishOpen`. -/
theorem solo_open3 (A : Arch) (c : List UInt64) (H : Handle) (op : Op) (rest : List Op)
    (hpc : H.pc = .idle) (hs : H.script = op :: rest) (i : Nat) (md : Mode)
    (ht : op.target A = some (i, md)) (v : UInt64) (hv : A.g i md = some v) :
    soloRun A c H 3 = (c.set i v, finishOpen A
        { beginOpen A { H with script := rest } i md with pc := .seeking i md v } i md v) := by
  have step1 : stepH A c H = (c, doOp A c { H with script := rest } op) := by
    unfold stepH; rw [hpc]; simp only; rw [hs]
  obtain ⟨b1, _, _⟩ := beginOpen_some { H with script := rest } md hv
  have e1 : soloRun A c H 1 = (c, beginOpen A { H with script := rest } i md) := by
    show stepH A c H = _; rw [step1, doOp_target c _ ht]
  have e2 : soloRun A c H 2 =
      (c.set i v, { beginOpen A { H with script := rest } i md with pc := .seeking i md v }) := by
    show stepH A (soloRun A c H 1).1 (soloRun A c H 1).2 = _
    rw [e1]; unfold stepH; simp only [b1]
  show stepH A (soloRun A c H 2).1 (soloRun A c H 2).2 = _
  rw [e2]; unfold stepH; simp only

theorem solo_finished (A : Arch) (script : List Op) :
    ∀ (c : List UInt64) (H : Handle), H.pc = .idle → H.script = script →
      (soloRun A c H (atomicSteps A script)).2.pc = .idle ∧
      (soloRun A c H (atomicSteps A script)).2.script = [] ∧
      (soloRun A c H (atomicSteps A script)).2.obs.length = H.obs.length + script.length := by
  induction script with
  | nil => intro c H hpc hs; exact ⟨hpc, hs, rfl⟩
  | cons op rest ih =>
    intro c H hpc hs
    have e : atomicSteps A (op :: rest) = opSteps A op + atomicSteps A rest := by
      simp [atomicSteps]
    rw [e, soloRun_add]
    obtain ⟨c1, c2, c3⟩ := call_steps A c H op rest hpc hs
    obtain ⟨i1, i2, i3⟩ := ih _ _ c1 c2
    refine ⟨i1, i2, ?_⟩
    rw [i3, c3, List.length_cons]; omega

/-! ### Call-level schedules are atomic schedules -/

theorem atomicSteps_append (A : Arch) (a b : List Op) :
    atomicSteps A (a ++ b) = atomicSteps A a + atomicSteps A b := by
  simp [atomicSteps]

theorem solo_prefix (A : Arch) (pre post : List Op) :
    ∀ (c : List UInt64) (H : Handle), H.pc = .idle → H.script = pre ++ post →
      (soloRun A c H (atomicSteps A pre)).2.pc = .idle ∧
      (soloRun A c H (atomicSteps A pre)).2.script = post := by
  induction pre with
  | nil => intro c H hpc hs; exact ⟨hpc, hs⟩
  | cons op rest ih =>
    intro c H hpc hs
    have e : atomicSteps A (op :: rest) = opSteps A op + atomicSteps A rest := by
      simp [atomicSteps]
    rw [e, soloRun_add]
    obtain ⟨c1, c2, _⟩ := call_steps A c H op (rest ++ post) hpc hs
    exact ih _ _ c1 c2

/-- After the first atomic step of a 3-step call the handle is not idle. -/
theorem first_step_not_idle (A : Arch) (c : List UInt64) (H : Handle) (op : Op) (rest : List Op)
    (hpc : H.pc = .idle) (hs : H.script = op :: rest) (h3 : opSteps A op ≠ 1) :
    (stepH A c H).2.pc ≠ .idle := by
  have step1 : stepH A c H = (c, doOp A c { H with script := rest } op) := by
    unfold stepH; rw [hpc]; simp only; rw [hs]
  rw [step1]
  cases ht : op.target A with
  | none => exact absurd (opSteps_nontarget ht) h3
  | some t =>
    obtain ⟨i, md⟩ := t
    rw [opSteps_target ht] at h3
    cases hv : A.g i md with
    | none => simp [hv] at h3
    | some v =>
      obtain ⟨b1, _, _⟩ := beginOpen_some { H with script := rest } md hv
      rw [doOp_target c _ ht]
      show (beginOpen A _ i md).pc ≠ _
      rw [b1]; intro h; cases h

theorem opSteps_cases (A : Arch) (op : Op) : opSteps A op = 1 ∨ opSteps A op = 3 := by
  cases op <;> simp [opSteps] <;> exact Classical.em _

theorem run_append (A : Arch) (s : Sys) (a b : List Nat) :
    run A s (a ++ b) = run A (run A s a) b := by
  simp [run, List.foldl_append]

theorem take_succ_of_lt {α : Type} (l : List α) (m : Nat) (h : m < l.length) :
    l.take (m + 1) = l.take m ++ [l[m]] := by
  rw [List.take_add_one, List.getElem?_eq_getElem h]; rfl

/-- A call-level schedule that gives no handle more calls than its script has is an atomic schedule
giving each handle exactly the atomic steps of the calls it made. -/
theorem calls_as_steps (A : Arch) (scripts : List (List Op)) (calls : List Nat) :
    (∀ x ∈ calls, x < scripts.length) →
    (∀ h (hh : h < scripts.length), calls.count h ≤ scripts[h].length) →
    ∃ σ, calls.foldl (Sys.call A) (Sys.init A scripts) = run A (Sys.init A scripts) σ ∧
      (∀ x ∈ σ, x < scripts.length) ∧
      ∀ h (hh : h < scripts.length),
        σ.count h = atomicSteps A (scripts[h].take (calls.count h)) := by
  induction calls using rev_ind with
  | h0 => intro _ _; exact ⟨[], rfl, by simp, by simp [atomicSteps]⟩
  | h1 l x ih =>
    intro hmem hcnt
    have hx : x < scripts.length := hmem x (by simp)
    obtain ⟨σ, hrun, hσmem, hσcnt⟩ := ih (fun y hy => hmem y (by simp [hy])) (fun h hh => by
      have := hcnt h hh
      rw [List.count_append] at this
      omega)
    have hm : l.count x < scripts[x].length := by
      have := hcnt x hx
      rw [List.count_append] at this
      simp at this
      omega
    -- the handle before the call
    have hloc := sim_local A scripts σ x hx
    rw [hσcnt x hx] at hloc
    obtain ⟨p1, p2⟩ := solo_prefix A (scripts[x].take (l.count x))
      (scripts[x][l.count x] :: scripts[x].drop (l.count x + 1)) (initCells A)
      (Handle.init scripts[x]) rfl (by simp [Handle.init])
    -- one step
    have hloc1 := sim_local A scripts (σ ++ [x]) x hx
    have hc1 : (σ ++ [x]).count x = atomicSteps A (scripts[x].take (l.count x)) + 1 := by
      simp [hσcnt x hx]
    rw [hc1] at hloc1
    have htake : atomicSteps A (scripts[x].take ((l ++ [x]).count x)) =
        atomicSteps A (scripts[x].take (l.count x)) + opSteps A scripts[x][l.count x] := by
      have : (l ++ [x]).count x = l.count x + 1 := by simp
      rw [this, take_succ_of_lt _ _ hm, atomicSteps_append]
      simp [atomicSteps]
    have hother : ∀ (τ : List Nat), (∀ y ∈ τ, y = x) → ∀ h (hh : h < scripts.length), h ≠ x →
        (σ ++ τ).count h = atomicSteps A (scripts[h].take ((l ++ [x]).count h)) := by
      intro τ hτ h hh hne
      have h0 : τ.count h = 0 := List.count_eq_zero.mpr (fun hmem => hne (hτ h hmem))
      have h1 : (l ++ [x]).count h = l.count h := by
        simp [List.count_append, Ne.symm hne]
      rw [List.count_append, h0, h1, hσcnt h hh]; rfl
    rw [List.foldl_append, hrun]
    show ∃ σ', Sys.call A (run A (Sys.init A scripts) σ) x = _ ∧ _
    unfold Sys.call
    simp only
    rw [← run_snoc, hloc1]
    simp only
    rcases opSteps_cases A scripts[x][l.count x] with h1 | h3
    · -- a one-step call
      obtain ⟨c1, _, _⟩ := call_steps A _ _ _ _ p1 p2
      rw [h1] at c1
      have : (soloRun A (initCells A) (Handle.init scripts[x])
          (atomicSteps A (scripts[x].take (l.count x)) + 1)).2.pc = .idle := by
        rw [soloRun_add]; exact c1
      rw [this]
      refine ⟨σ ++ [x], rfl, ?_, ?_⟩
      · intro y hy
        rcases List.mem_append.mp hy with hy | hy
        · exact hσmem y hy
        · simp at hy; rw [hy]; exact hx
      · intro h hh
        by_cases hne : h = x
        · subst hne; rw [hc1, htake, h1]
        · exact hother [x] (by simp) h hh hne
    · -- a three-step call
      have hne : (soloRun A (initCells A) (Handle.init scripts[x])
          (atomicSteps A (scripts[x].take (l.count x)) + 1)).2.pc ≠ .idle := by
        rw [soloRun_add]
        exact first_step_not_idle A _ _ _ _ p1 p2 (by omega)
      have hrun3 : Sys.step A (Sys.step A (run A (Sys.init A scripts) (σ ++ [x])) x) x =
          run A (Sys.init A scripts) (σ ++ [x, x, x]) := by
        rw [← run_snoc, ← run_snoc]; simp
      refine ⟨σ ++ [x, x, x], ?_, ?_, ?_⟩
      · split
        · rename_i heq; exact absurd heq hne
        · exact hrun3
      · intro y hy
        rcases List.mem_append.mp hy with hy | hy
        · exact hσmem y hy
        · simp at hy; rw [hy]; exact hx
      · intro h hh
        by_cases hne : h = x
        · subst hne
          rw [htake, h3, List.count_append, hσcnt h hh]
          simp
        · exact hother [x, x, x] (by simp) h hh hne

end ZipVerif.Model.Clones
