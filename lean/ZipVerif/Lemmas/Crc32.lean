import ZipVerif.Spec.Crc32
/-
CRC-32 is injective in each byte: the bit-serial step is a bijection of the register (the top bit of
the polynomial is set, so the bit shifted out can be read off the result), hence `update r ·` and
`update · b` are injective and any single-byte substitution changes the CRC.  Bitwise extensionality,
axiom-free (no `bv_decide`).
-/

namespace ZipVerif.Spec.Crc32

theorem and_one_eq_one_iff (c : UInt32) : (c &&& 1 = 1) ↔ c.toBitVec.getLsbD 0 = true := by
  rw [← UInt32.toBitVec_inj]
  simp only [UInt32.toBitVec_and]
  constructor
  · intro h
    have := congrArg (fun v => v.getLsbD 0) h
    simpa using this
  · intro h
    apply BitVec.eq_of_getLsbD_eq
    intro i hi
    simp only [BitVec.getLsbD_and]
    cases i with
    | zero => simp [h]
    | succ j => simp

theorem step_bit (c : UInt32) (i : Nat) :
    (step c).toBitVec.getLsbD i =
      ((c.toBitVec.getLsbD (i + 1)) ^^ (c.toBitVec.getLsbD 0 && poly.toBitVec.getLsbD i)) := by
  unfold step
  by_cases h : c &&& 1 = 1
  · rw [if_pos h]
    have h0 := (and_one_eq_one_iff c).mp h
    rw [h0]
    simp [BitVec.getLsbD_ushiftRight, Nat.add_comm]
  · rw [if_neg h]
    have h0 : c.toBitVec.getLsbD 0 = false := by
      cases hc : c.toBitVec.getLsbD 0
      · rfl
      · exact absurd ((and_one_eq_one_iff c).mpr hc) h
    rw [h0]
    simp [BitVec.getLsbD_ushiftRight, Nat.add_comm]

theorem step_injective {a b : UInt32} (h : step a = step b) : a = b := by
  have hb : ∀ i, (step a).toBitVec.getLsbD i = (step b).toBitVec.getLsbD i := by
    intro i; rw [h]
  have h31 := hb 31
  rw [step_bit, step_bit] at h31
  have hp : poly.toBitVec.getLsbD 31 = true := by decide
  have ha : a.toBitVec.getLsbD 32 = false := BitVec.getLsbD_of_ge _ _ (Nat.le_refl _)
  have hb32 : b.toBitVec.getLsbD 32 = false := BitVec.getLsbD_of_ge _ _ (Nat.le_refl _)
  rw [hp, ha, hb32] at h31
  simp only [Bool.and_true, Bool.false_xor] at h31
  apply UInt32.toBitVec_inj.mp
  apply BitVec.eq_of_getLsbD_eq
  intro i hi
  cases i with
  | zero => exact h31
  | succ j =>
    have hj := hb j
    rw [step_bit, step_bit, h31] at hj
    generalize a.toBitVec.getLsbD (j + 1) = x at hj ⊢
    generalize b.toBitVec.getLsbD (j + 1) = y at hj ⊢
    generalize (b.toBitVec.getLsbD 0 && poly.toBitVec.getLsbD j) = z at hj
    cases x <;> cases y <;> cases z <;> simp_all

theorem xor_left_cancel {a b c : UInt32} (h : a ^^^ b = a ^^^ c) : b = c := by
  have := congrArg (fun x => a ^^^ x) h
  simpa [← UInt32.xor_assoc] using this

theorem toUInt32_inj {a b : UInt8} (h : a.toUInt32 = b.toUInt32) : a = b := by
  have := congrArg UInt32.toUInt8 h
  simpa using this

/-- The byte update as eight bit-serial steps (bridge to whichever form `update` is defined in). -/
theorem update_eq_steps (r : UInt32) (b : UInt8) :
    update r b = step (step (step (step (step (step (step (step (r ^^^ b.toUInt32)))))))) :=
  updateByte_eq_bitwise r b

theorem update_injective_byte {r : UInt32} {a b : UInt8} (h : update r a = update r b) : a = b := by
  rw [update_eq_steps, update_eq_steps] at h
  exact toUInt32_inj (xor_left_cancel (step_injective (step_injective (step_injective (step_injective
    (step_injective (step_injective (step_injective (step_injective h)))))))))

theorem update_injective_reg {r r' : UInt32} {b : UInt8} (h : update r b = update r' b) : r = r' := by
  rw [update_eq_steps, update_eq_steps] at h
  have h2 := step_injective (step_injective (step_injective (step_injective
    (step_injective (step_injective (step_injective (step_injective h)))))))
  rw [UInt32.xor_comm r, UInt32.xor_comm r'] at h2
  exact xor_left_cancel h2

theorem updateBytes_injective_reg {r r' : UInt32} (bs : Bytes) (h : updateBytes r bs = updateBytes r' bs) :
    r = r' := by
  induction bs generalizing r r' with
  | nil => exact h
  | cons b bs ih => exact update_injective_reg (ih h)

theorem crc32_detects_single_byte (p q : Bytes) (a b : UInt8) (hab : a ≠ b) :
    crc32 (p ++ a :: q) ≠ crc32 (p ++ b :: q) := by
  intro h
  unfold crc32 at h
  have h1 : updateBytes 0xFFFFFFFF (p ++ a :: q) = updateBytes 0xFFFFFFFF (p ++ b :: q) := by
    have := congrArg (fun x => x ^^^ (0xFFFFFFFF : UInt32)) h
    simpa [UInt32.xor_assoc] using this
  rw [updateBytes_append, updateBytes_append, updateBytes_cons, updateBytes_cons] at h1
  exact hab (update_injective_byte (updateBytes_injective_reg q h1))

end ZipVerif.Spec.Crc32
