import ZipVerif.Model.CryptoExt
import ZipVerif.Lemmas.ReaderTotal
import ZipVerif.Lemmas.AesRun
import ZipVerif.Lemmas.AesList
/-
C05 finding F4: `ExtNoPanic` PROVED for the crate's own decryption layers (`Model.cryptoExt`), for every
password, every mode / declared size and every byte string - so the hypothesis of `reader_total` that stood for
src/zipcrypto.rs and src/aes.rs is discharged; what is left is the decompressors and the output LENGTHS of
PBKDF2 / AES / HMAC (`AesPrims.WF`: facts of the Rust types).
-/

namespace ZipVerif.Model
open ZipVerif

/-! ### ZipCrypto: the model has no panic site at all on the read side -/

theorem zipCryptoLayer_noPanic (pw : Bytes) (check : UInt8) (raw : Bytes) :
    ¬ (zipCryptoLayer pw check raw).isPanic = true := by
  unfold zipCryptoLayer
  cases rdN 12 raw with
  | none => intro h; cases h
  | some p =>
    obtain ⟨hdr, rest⟩ := p
    simp only []
    split <;> (intro h; cases h)

/-- An encrypted entry shorter than its 12-byte header is `UnexpectedEof`, whatever the password. -/
theorem zipCryptoLayer_short (pw : Bytes) (check : UInt8) (raw : Bytes) (h : raw.length < 12) :
    zipCryptoLayer pw check raw = .err (.io .unexpectedEof) := by
  unfold zipCryptoLayer
  have : rdN 12 raw = none := by
    unfold rdN
    rw [if_neg (by omega)]
  rw [this]

/-! ### AES -/

namespace Aes

/-- `validate` cannot panic: `read_exact` over a reader that keeps the `Read` contract, and the derived key has
the length `GenericArray::from_slice` asserts because PBKDF2 fills the buffer it is given. -/
theorem validate_no_panic {σ} (P : AesPrims) (hW : P.WF) (S : Src σ) (hC : S.Contract) (mode : AesMode)
    (dl : Option Nat) (s : σ) (pw : Bytes) (m : String) :
    (validate P S mode dl s pw).1 ≠ .panic m := by
  unfold validate
  cases dl with
  | none => intro h; cases h
  | some L =>
    simp only []
    cases h1 : readExact S s mode.saltLength with
    | mk r1 s1 =>
    cases r1 with
    | err e => intro h; cases h
    | panic m1 => exact absurd (by rw [h1]) (readExact_no_panic S hC s _ m1)
    | ok salt =>
      simp only []
      cases h2 : readExact S s1 PWD_VERIFY_LENGTH with
      | mk r2 s2 =>
      cases r2 with
      | err e => intro h; cases h
      | panic m2 => exact absurd (by rw [h2]) (readExact_no_panic S hC s1 _ m2)
      | ok pvv =>
        simp only []
        split
        · intro h; cases h
        · split
          · rename_i hk
            exfalso
            apply hk
            rw [List.length_take, hW.pbkdf2_len]
            omega
          · intro h; cases h

/-- A run of `read` calls from a state satisfying the reader invariant never panics. -/
theorem drain_no_panic (P : AesPrims) (hW : P.WF) {σ} (S : Src σ) (hC : S.Contract) {L : Nat} (hL : L < U64) :
    ∀ (bufs : List Nat) (v : Valid σ) (acc : Bytes), Inv P L v → ∀ m, (drain P S bufs v acc).1 ≠ .panic m := by
  intro bufs
  induction bufs with
  | nil => intro v acc _ m h; cases h
  | cons n ns ih =>
    intro v acc hI m
    unfold drain
    have sp := read_spec P hW S hL v hI n
    cases hr : Valid.read P S v n with
    | mk r v' =>
    rw [hr] at sp
    cases r with
    | ok o => exact ih v' _ sp.inv m
    | err e => intro h; cases h
    | panic m' => exact absurd (by rw [hr]) (read_no_panic P hW S hC hL v hI n m')

end Aes

theorem aesLayer_noPanic (P : Aes.AesPrims) (hW : P.WF) (pw : Bytes) (mode : AesMode) (csize : UInt64)
    (raw : Bytes) : ¬ (aesLayer P pw mode csize raw).isPanic = true := by
  unfold aesLayer
  simp only []
  cases h : (Aes.validate P Aes.listSrc (aesModeView mode)
      (Aes.dataLength (aesModeView mode) csize.toNat) ⟨raw, []⟩ pw).1 with
  | err e => intro hp; cases hp
  | panic s => exact absurd h (Aes.validate_no_panic P hW Aes.listSrc Aes.listSrc_contract _ _ _ _ s)
  | ok o =>
    cases o with
    | none => intro hp; cases hp
    | some v => intro hp; cases hp

theorem aesLayer_stream_noPanic (P : Aes.AesPrims) (hW : P.WF) (pw : Bytes) (mode : AesMode) (csize : UInt64)
    (raw : Bytes) (s : Out Bytes) (h : aesLayer P pw mode csize raw = .ok (some s)) :
    ¬ s.isPanic = true := by
  unfold aesLayer at h
  simp only [] at h
  rcases hv : Aes.validate P Aes.listSrc (aesModeView mode)
      (Aes.dataLength (aesModeView mode) csize.toNat) ⟨raw, []⟩ pw with ⟨r, s'⟩
  rw [hv] at h
  cases r with
  | err e => cases h
  | panic m => cases h
  | ok o =>
    cases o with
    | none => cases h
    | some v =>
      simp only [Out.ok.injEq, Option.some.injEq] at h
      subst h
      obtain ⟨L, salt, pvv, s1, hdl, _, _, _, hvEq⟩ := Aes.validate_ok P Aes.listSrc _ _ _ _ pw v hv
      have hL : L < Aes.U64 := by
        unfold Aes.dataLength at hdl
        simp only [] at hdl
        split at hdl
        · have := csize.toNat_lt
          have e : L = csize.toNat - (Aes.PWD_VERIFY_LENGTH + Aes.AUTH_CODE_LENGTH +
              (aesModeView mode).saltLength) := by
            simp only [Option.some.injEq] at hdl; exact hdl.symm
          unfold Aes.U64
          omega
        · cases hdl
      have hI : Aes.Inv P L v := by rw [hvEq]; exact Aes.initValid_inv P _ _ _ _
      unfold aesReadAll
      intro hp
      cases hd : (Aes.drain P Aes.listSrc [v.dataRemaining, v.dataRemaining] v []).1 with
      | ok b => rw [hd] at hp; cases hp
      | err e => rw [hd] at hp; cases hp
      | panic m => exact Aes.drain_no_panic P hW Aes.listSrc Aes.listSrc_contract hL _ v [] hI m hd

/-- **The crate's decryption layers never panic** (model of zipcrypto.rs / aes.rs / aes_ctr.rs), for every
password on every byte string; the only assumptions left are about code outside the crate: the decompressors do
not panic, and PBKDF2 / the AES block function / HMAC-SHA1 return outputs of their fixed lengths. -/
theorem cryptoExt_noPanic (P : Aes.AesPrims) (hW : P.WF) (decode : Method → Bytes → Out Bytes)
    (hdec : ∀ m bs, ¬ (decode m bs).isPanic = true) : ExtNoPanic (cryptoExt P decode) where
  decode := hdec
  zipCrypto := zipCryptoLayer_noPanic
  aes := aesLayer_noPanic P hW
  aesStream := aesLayer_stream_noPanic P hW

/-- An AES entry shorter than salt + verifier + authentication code (D4) is an error before a byte is read. -/
theorem aesLayer_short (P : Aes.AesPrims) (pw : Bytes) (mode : AesMode) (csize : UInt64) (raw : Bytes)
    (h : csize.toNat < 12 + (aesModeView mode).saltLength) :
    aesLayer P pw mode csize raw = .err (.io .invalidData) := by
  unfold aesLayer
  simp only []
  have : Aes.dataLength (aesModeView mode) csize.toNat = none := by
    unfold Aes.dataLength Aes.PWD_VERIFY_LENGTH Aes.AUTH_CODE_LENGTH
    simp only []
    rw [if_neg (by omega)]
  rw [this]
  rfl

end ZipVerif.Model
