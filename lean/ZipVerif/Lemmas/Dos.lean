import ZipVerif.Model.DateTime
import ZipVerif.Spec.Dos
/- Helper lemmas: the bit-level model of `DateTime` agrees with the arithmetic DOS layout. -/

namespace ZipVerif.Model.DateTime
open ZipVerif ZipVerif.Spec

def fields (x : DateTime) : Dos.Fields :=
  ⟨x.year.toNat, x.month.toNat, x.day.toNat, x.hour.toNat, x.minute.toNat, x.second.toNat⟩

theorem fields_inj {x y : DateTime} (h : fields x = fields y) : x = y := by
  cases x; cases y
  simp only [fields, Dos.Fields.mk.injEq] at h
  obtain ⟨h1, h2, h3, h4, h5, h6⟩ := h
  simp only [mk.injEq]
  exact ⟨UInt16.toNat_inj.mp h1, UInt8.toNat_inj.mp h2, UInt8.toNat_inj.mp h3,
    UInt8.toNat_inj.mp h4, UInt8.toNat_inj.mp h5, UInt8.toNat_inj.mp h6⟩

private theorem and_lo (t : UInt16) : (t &&& 31).toNat = t.toNat % 32 := by
  simp only [UInt16.toNat_and]; exact nat_and_mask t.toNat 5

private theorem fld (t : UInt16) (m : UInt16) (s k : Nat) (hs : s < 16)
    (hm : m.toNat = (2 ^ k - 1) <<< s) :
    ((t &&& m) >>> (UInt16.ofNat s)).toNat = t.toNat / 2 ^ s % 2 ^ k := by
  simp only [UInt16.toNat_shiftRight, UInt16.toNat_and, hm, UInt16.toNat_ofNat']
  have : s % 2 ^ 16 % 16 = s := by omega
  rw [this]; exact nat_field t.toNat s k

theorem fromMsdos_year_no_overflow (d : UInt16) :
    ((d &&& 0b1111111000000000) >>> 9).toNat + 1980 < 65536 := by
  have := fld d 0b1111111000000000 9 7 (by omega) (by decide)
  have h2 : ((d &&& 0b1111111000000000) >>> 9).toNat = d.toNat / 512 % 128 := this
  omega

theorem fromMsdos_fields (d t : UInt16) :
    fields (fromMsdos d t) = Dos.unpack d.toNat t.toNat := by
  have hd := d.toNat_lt
  have ht := t.toNat_lt
  have y : ((d &&& 0b1111111000000000) >>> 9).toNat = d.toNat / 512 % 128 :=
    fld d 0b1111111000000000 9 7 (by omega) (by decide)
  have mo : ((d &&& 0b0000000111100000) >>> 5).toNat = d.toNat / 32 % 16 :=
    fld d 0b0000000111100000 5 4 (by omega) (by decide)
  have da : (d &&& 0b0000000000011111).toNat = d.toNat % 32 := and_lo d
  have h : ((t &&& 0b1111100000000000) >>> 11).toNat = t.toNat / 2048 % 32 :=
    fld t 0b1111100000000000 11 5 (by omega) (by decide)
  have mi : ((t &&& 0b0000011111100000) >>> 5).toNat = t.toNat / 32 % 64 :=
    fld t 0b0000011111100000 5 6 (by omega) (by decide)
  have se : (t &&& 0b0000000000011111).toNat = t.toNat % 32 := and_lo t
  simp only [fields, fromMsdos, Dos.unpack, Dos.Fields.mk.injEq, UInt16.toNat_add,
    UInt16.toNat_toUInt8, UInt16.toNat_shiftLeft, y, mo, da, h, mi, se]
  refine ⟨?_, ?_, ?_, ?_, ?_, ?_⟩
  · show (d.toNat / 512 % 128 + 1980) % 65536 = _; omega
  · omega
  · omega
  · omega
  · omega
  · show (t.toNat % 32) <<< 1 % 65536 % 256 = _
    rw [Nat.shiftLeft_eq]; omega

theorem fromMsdos_toNat (d t : UInt16) :
    (fromMsdos d t).year.toNat = 1980 + d.toNat / 512 ∧
    (fromMsdos d t).month.toNat = d.toNat / 32 % 16 ∧
    (fromMsdos d t).day.toNat = d.toNat % 32 ∧
    (fromMsdos d t).hour.toNat = t.toNat / 2048 ∧
    (fromMsdos d t).minute.toNat = t.toNat / 32 % 64 ∧
    (fromMsdos d t).second.toNat = 2 * (t.toNat % 32) := by
  have h := fromMsdos_fields d t
  unfold fields Dos.unpack at h
  rw [Dos.Fields.mk.injEq] at h
  exact h

theorem timepart_toNat (x : DateTime) (hs : x.second.toNat < 64) (hm : x.minute.toNat < 64)
    (hh : x.hour.toNat < 32) :
    (timepart x).toNat = Dos.packTime (fields x) := by
  simp only [timepart, Dos.packTime, fields, UInt16.toNat_or, UInt16.toNat_shiftLeft,
    UInt16.toNat_shiftRight, UInt8.toNat_toUInt16]
  show x.second.toNat >>> 1 ||| x.minute.toNat <<< 5 % 65536 ||| x.hour.toNat <<< 11 % 65536 = _
  rw [Nat.shiftRight_eq_div_pow]
  have h1 : x.minute.toNat <<< 5 % 65536 = x.minute.toNat <<< 5 := by
    rw [Nat.shiftLeft_eq]; omega
  have h2 : x.hour.toNat <<< 11 % 65536 = x.hour.toNat <<< 11 := by
    rw [Nat.shiftLeft_eq]; omega
  rw [h1, h2, nat_or_shl _ _ 5 (by omega), nat_or_shl _ _ 11 (by omega)]
  omega

theorem datepart_toNat (x : DateTime) (hy : 1980 ≤ x.year.toNat) (hy2 : x.year.toNat ≤ 2107)
    (hm : x.month.toNat < 16) (hd : x.day.toNat < 32) :
    ∃ v, datepart x = some v ∧ v.toNat = Dos.packDate (fields x) := by
  have h1980 : (1980 : UInt16).toNat = 1980 := by decide
  have hlt : ¬ x.year < 1980 := by
    rw [UInt16.lt_iff_toNat_lt]; omega
  refine ⟨x.day.toUInt16 ||| (x.month.toUInt16 <<< 5) ||| ((x.year - 1980) <<< 9),
    by unfold datepart; rw [if_neg hlt], ?_⟩
  have hsub : (x.year - 1980).toNat = x.year.toNat - 1980 := by
    rw [UInt16.toNat_sub_of_le]
    · omega
    · rw [UInt16.le_iff_toNat_le]; omega
  show (x.day.toUInt16 ||| x.month.toUInt16 <<< 5 ||| (x.year - 1980) <<< 9).toNat =
    x.day.toNat + 32 * x.month.toNat + 512 * (x.year.toNat - 1980)
  rw [UInt16.toNat_or, UInt16.toNat_or, UInt16.toNat_shiftLeft, UInt16.toNat_shiftLeft, hsub,
    UInt8.toNat_toUInt16, UInt8.toNat_toUInt16]
  show x.day.toNat ||| x.month.toNat <<< 5 % 65536 ||| (x.year.toNat - 1980) <<< 9 % 65536 = _
  have h1 : x.month.toNat <<< 5 % 65536 = x.month.toNat <<< 5 := by
    rw [Nat.shiftLeft_eq]; omega
  have h2 : (x.year.toNat - 1980) <<< 9 % 65536 = (x.year.toNat - 1980) <<< 9 := by
    rw [Nat.shiftLeft_eq]; omega
  rw [h1, h2, nat_or_shl _ _ 5 (by omega), nat_or_shl _ _ 9 (by omega)]
  omega

end ZipVerif.Model.DateTime
