import ZipVerif.Lemmas.Layers
import ZipVerif.Lemmas.ReaderBounds
/-
Bridge between the two models of "read an entry" (review finding F9):

* `Model/Reader.lean`: `byIndexRead` / `streamEntry` = position the device at the data start, `takeAll`
  the compressed bytes in one go, apply the pure `Ext.decode`, then `crcCheck`;
* `Model/Layers.lean`: `entryPipeline` = `Crc32Reader(decoder(Take(reader)))` driven call by call with
  arbitrary buffer sizes over a reader with arbitrary short reads.

`entry_bridge`: for every entry that `byIndexRead` hands out, reading the pipeline to the end over ANY
reader holding the device's bytes from the data start, under ANY request schedule, gives the inner
result of `byIndexRead`.
-/

namespace ZipVerif.Model
open ZipVerif ZipVerif.Spec ZipVerif.Model.Layers

/-! ### The model's device as a `Src` -/

/-- `M.read` without the fault index: the never-short `Cursor` as a reader of the layer model. -/
def devSrc : Src Dev where
  rd d n := (.ok ((d.buf.drop d.pos).take n),
    { d with pos := d.pos + ((d.buf.drop d.pos).take n).length, calls := d.calls + 1 })

theorem devSrc_eq_read (n : Nat) (d : Dev) :
    M.read n none d = (.ok ((d.buf.drop d.pos).take n), (devSrc.rd d n).2) := rfl

/-- The device delivers what lies behind its position, then a clean end of file. -/
theorem devSrc_denotes (d : Dev) : Denotes devSrc d (d.buf.drop d.pos) .eof := by
  apply Denotes.of_invariant (fun s r => r = s.buf.drop s.pos)
  · rintro s rest n rfl
    refine stepOK_of_ok (bs := (s.buf.drop s.pos).take n) rfl ?_ ?_ ⟨(s.buf.drop s.pos).drop n, ?_, ?_⟩
    · rw [List.length_take]; omega
    · intro hn hb
      refine ⟨?_, rfl⟩
      cases h : s.buf.drop s.pos with
      | nil => rfl
      | cons a t =>
        rw [h] at hb
        obtain ⟨m, rfl⟩ : ∃ m, n = m + 1 := ⟨n - 1, by omega⟩
        simp at hb
    · exact (List.take_append_drop n _).symm
    · simp only [List.drop_drop, List.length_take, List.length_drop]
      by_cases h : n ≤ s.buf.length - s.pos
      · rw [Nat.min_eq_left h, Nat.add_comm]
      · rw [Nat.min_eq_right (by omega), List.drop_eq_nil_of_le (by omega),
          List.drop_eq_nil_of_le (by omega)]
  · rfl

/-! ### What `byIndexRead` does on an arbitrary device -/

theorem findContent_ok_inv {f : FileData} {fa : Option Nat} {d d' : Dev} {ds : Nat}
    (h : findContent f fa d = (.ok ds, d')) : d'.buf = d.buf ∧ d'.pos = ds := by
  have hb : d'.buf = d.buf := by
    have := (findContent_readOnly f).elim fa d
    rw [h] at this; exact this
  refine ⟨hb, ?_⟩
  unfold findContent at h
  obtain ⟨_, d1, _, h⟩ := M.bind_ok_inv h
  obtain ⟨sig, d2, _, h⟩ := M.bind_ok_inv h
  split at h
  · exact (M.throw_ok_inv h).elim
  obtain ⟨_, d3, _, h⟩ := M.bind_ok_inv h
  obtain ⟨nl, d4, _, h⟩ := M.bind_ok_inv h
  obtain ⟨xl, d5, _, h⟩ := M.bind_ok_inv h
  dsimp only at h
  split at h
  · cases h
  obtain ⟨_, d6, h6, h⟩ := M.bind_ok_inv h
  obtain ⟨_, _, hp6⟩ := M.seek_start_ok_inv h6
  obtain ⟨rfl, rfl⟩ := M.pure_ok_inv h
  exact hp6

theorem takeAll_ok_inv {limit : Nat} {fa : Option Nat} {d d' : Dev} {r : Bytes}
    (h : takeAll limit fa d = (.ok r, d')) : r = (d.buf.drop d.pos).take limit := by
  unfold takeAll at h
  split at h
  · obtain ⟨rfl, _⟩ := M.pure_ok_inv h
    rename_i h0 _; rw [h0]; rfl
  · obtain ⟨r1, d1, h1, h⟩ := M.bind_ok_inv h
    obtain ⟨hr, _, _⟩ := M.read_ok_inv h1
    split at h
    · obtain ⟨rfl, _⟩ := M.pure_ok_inv h; exact hr
    · split at h
      · obtain ⟨rfl, _⟩ := M.pure_ok_inv h; exact hr
      · obtain ⟨_, _, _, h⟩ := M.bind_ok_inv h
        obtain ⟨rfl, _⟩ := M.pure_ok_inv h; exact hr

/-- `by_index` on an unencrypted entry, on an ARBITRARY device (any bytes `ZipArchive::new` accepted or
not) and under any fault index: if it hands out an entry and the read-to-end result `res`, then the
entry is not AES, `find_content` succeeded and left the device at `ds`, and `res` is `Ext.decode`
applied to the first `compressed_size` bytes behind `ds`, then the CRC comparison with the CENTRAL
record's `crc32`. -/
theorem byIndexRead_plain_inv {ext : Ext} {a : Archive} {i : Nat} {data : FileData}
    {pw : Option Bytes} {fa : Option Nat} {d d' : Dev} {ds : Nat} {res : Out Bytes}
    (hfile : a.files[i]? = some data) (henc : data.encrypted = false)
    (h : byIndexRead ext a i pw fa d = (.ok (.ok (ds, res)), d')) :
    data.aesMode = none ∧ (∃ dec, decoderChoice data.method = some dec) ∧
    (∃ d1, findContent data fa d = (.ok ds, d1) ∧ d1.buf = d.buf ∧ d1.pos = ds) ∧
    res = (ext.decode data.method ((d.buf.drop ds).take data.compressedSize.toNat) >>=
      crcCheck false data.crc32) := by
  unfold byIndexRead at h
  rw [hfile] at h
  simp only [henc, Bool.and_false, Bool.false_eq_true, if_false] at h
  obtain ⟨ds1, d1, h1, h⟩ := M.bind_ok_inv h
  obtain ⟨hb1, hp1⟩ := findContent_ok_inv h1
  have key : ∀ m, data.method = m → (∃ dec, decoderChoice m = some dec) →
      (match (none : Option Bytes), data.aesMode with
        | some pw, some (mode, vv) => do
          let raw ← takeAll data.compressedSize.toNat
          match ext.aes pw mode data.compressedSize raw with
          | .err e => M.throw e
          | .panic s => M.panic s
          | .ok none => pure .invalidPassword
          | .ok (some stream) =>
            let res : Out Bytes := do
              let pt ← stream
              let dec ← ext.decode m pt
              crcCheck (vv == .ae2) data.crc32 dec
            pure (.ok (ds1, res))
        | some pw, none => do
          let check : UInt8 := if data.usingDataDescriptor then (data.time.timepart >>> 8).toUInt8
                               else (data.crc32 >>> 24).toUInt8
          let raw ← takeAll data.compressedSize.toNat
          match ext.zipCrypto pw check raw with
          | .err e => M.throw e
          | .panic s => M.panic s
          | .ok none => pure .invalidPassword
          | .ok (some pt) =>
            let res : Out Bytes := do
              let dec ← ext.decode m pt
              crcCheck false data.crc32 dec
            pure (.ok (ds1, res))
        | none, some _ => pure .invalidPassword
        | none, none => do
          let raw ← takeAll data.compressedSize.toNat
          let res : Out Bytes := do
            let dec ← ext.decode m raw
            crcCheck false data.crc32 dec
          pure (.ok (ds1, res)) : M (PwResult (Nat × Out Bytes))) fa d1 = (.ok (.ok (ds, res)), d') →
      data.aesMode = none ∧ (∃ dec, decoderChoice data.method = some dec) ∧
      (∃ d1, findContent data fa d = (.ok ds, d1) ∧ d1.buf = d.buf ∧ d1.pos = ds) ∧
      res = (ext.decode data.method ((d.buf.drop ds).take data.compressedSize.toNat) >>=
        crcCheck false data.crc32) := by
    intro m hm hdec h
    cases haes : data.aesMode with
    | some x =>
      rw [haes] at h
      obtain ⟨hh, _⟩ := M.pure_ok_inv h; cases hh
    | none =>
      rw [haes] at h
      obtain ⟨raw, d2, h2, h⟩ := M.bind_ok_inv h
      obtain ⟨hh, _⟩ := M.pure_ok_inv h
      have hraw := takeAll_ok_inv h2
      rw [hb1, hp1] at hraw
      injection hh with hh
      injection hh with hds hres
      subst hds
      exact ⟨rfl, hm ▸ hdec, ⟨d1, h1, hb1, hp1⟩, by rw [hres, hraw, hm]⟩
  generalize hm : data.method = m at h key
  cases m with
  | unsupported v => exact (M.throw_ok_inv h).elim
  | aes => exact (M.throw_ok_inv h).elim
  | stored => exact key _ rfl ⟨_, rfl⟩ h
  | deflated => exact key _ rfl ⟨_, rfl⟩ h
  | bzip2 => exact key _ rfl ⟨_, rfl⟩ h
  | zstd => exact key _ rfl ⟨_, rfl⟩ h

/-! ### The bridge -/

/-- What `read_to_end` reports for a finished read loop: the bytes on a clean end, the error otherwise
(bytes delivered before an error are not part of `Reader`'s `Out Bytes`). -/
def outOfLoop : Bytes × Term → Out Bytes
  | (b, .eof) => .ok b
  | (_, .err e) => .err (.io e)

/-- The decoder layer `c` is what the pure `Ext.decode m` summarises, on the compressed stream `C`
followed by the clean end the `Take` produces: `c` is chunk independent on `C` (for Stored a theorem,
for flate2 / bzip2 / zstd on an encoder's output the hypothesis `Codec.IntactOK`) and its result is
`Ext.decode m C`. -/
structure CodecFor (ext : Ext) (m : Method) (c : Codec) (C : Bytes) : Prop where
  chunk : c.ChunkIndependentOn C .eof
  agrees : ext.decode m C = outOfLoop (c.decode C .eof)

theorem takeTerm_eof (n : Nat) (B : Bytes) : takeTerm n B .eof = .eof := by
  simp [takeTerm]

theorem outOfLoop_crc (declared : UInt32) (B : Bytes) (T : Term) :
    (outOfLoop (B, T) >>= crcCheck false declared) = outOfLoop (B, crcTerm declared false B T) := by
  cases T with
  | eof =>
    show crcCheck false declared B = _
    by_cases h : Crc32.crc32 B = declared
    · simp [crcCheck, crcTerm, outOfLoop, h]
    · simp [crcCheck, crcTerm, outOfLoop, h]
  | err e => rfl

/-- Core of the bridge, independent of how the entry was found: `data`'s bytes start at `ds`. -/
theorem pipeline_eq_decode_crc {σ : Type} (ext : Ext) (m : Method) (c : Codec) (A : Bytes)
    (csize : Nat) (declared : UInt32) (hc : CodecFor ext m c (A.take csize))
    (inner : Src σ) (s : σ) (hin : Denotes inner s A .eof) (reqs : List Nat) {b : Bytes} {t : Term}
    {e : c.St (σ × Nat) × UInt32}
    (hr : readToEnd (entryPipeline c inner declared false) (c.init (s, csize), Crc32.init) reqs
      = some (b, t, e)) :
    (ext.decode m (A.take csize) >>= crcCheck false declared) = outOfLoop (b, t) := by
  have hd := crc_denotes_nz _ declared false
    (hc.chunk _ _ (by
      have := take_denotes inner csize hin
      rw [takeTerm_eof] at this
      exact this))
  obtain ⟨hb, ht, _⟩ := denotes_readToEnd hd hr
  rw [hc.agrees, hb, ht]
  exact outOfLoop_crc declared _ _

/-- **Bridge, seekable reader, unencrypted entries, every method.**  `by_index` (any password argument)
on entry `i` of archive value `a` over device `d` hands out the read-to-end result `res`.  Then for
EVERY reader `inner` holding the device's bytes from the data start `ds` (every short-read behaviour)
and EVERY schedule of caller buffers `reqs` (zeros included), the read loop over
`Crc32Reader(decoder(Take(compressed_size)))` built with the CENTRAL record's `crc32` and
`compressed_size`, if it finishes, returns `res`: the same bytes on success, an error iff an error,
the same `io::ErrorKind`. -/
theorem entry_bridge {σ : Type} {ext : Ext} {a : Archive} {i : Nat} {data : FileData}
    {pw : Option Bytes} {fa : Option Nat} {d d' : Dev} {ds : Nat} {res : Out Bytes}
    (hfile : a.files[i]? = some data) (henc : data.encrypted = false)
    (h : byIndexRead ext a i pw fa d = (.ok (.ok (ds, res)), d'))
    (c : Codec)
    (hc : CodecFor ext data.method c ((d.buf.drop ds).take data.compressedSize.toNat))
    (inner : Src σ) (s : σ) (hin : Denotes inner s (d.buf.drop ds) .eof) (reqs : List Nat)
    {b : Bytes} {t : Term} {e : c.St (σ × Nat) × UInt32}
    (hr : readToEnd (entryPipeline c inner data.crc32 false)
      (c.init (s, data.compressedSize.toNat), Crc32.init) reqs = some (b, t, e)) :
    res = outOfLoop (b, t) := by
  obtain ⟨_, _, _, hres⟩ := byIndexRead_plain_inv hfile henc h
  rw [hres]
  exact pipeline_eq_decode_crc ext data.method c _ _ _ hc inner s hin reqs hr

/-- The loop does finish (more than the decoded length many non-empty buffers suffice), so the bridge
is not about an empty set of runs. -/
theorem entry_bridge_terminates {σ : Type} (ext : Ext) (m : Method) (c : Codec) (A : Bytes)
    (csize : Nat) (declared : UInt32) (hc : CodecFor ext m c (A.take csize))
    (inner : Src σ) (s : σ) (hin : Denotes inner s A .eof) (reqs : List Nat)
    (hn : (c.decode (A.take csize) .eof).1.length < nonzero reqs) :
    (readToEnd (entryPipeline c inner declared false) (c.init (s, csize), Crc32.init) reqs).isSome
      = true := by
  have hd := crc_denotes_nz _ declared false
    (hc.chunk _ _ (by
      have := take_denotes inner csize hin
      rw [takeTerm_eof] at this
      exact this))
  exact denotes_readToEnd_terminates hd hn

/-- The model's own device, as `find_content` leaves it, is one of the readers the bridge speaks about. -/
theorem dev_after_findContent_denotes {data : FileData} {fa : Option Nat} {d d1 : Dev} {ds : Nat}
    (h : findContent data fa d = (.ok ds, d1)) : Denotes devSrc d1 (d.buf.drop ds) .eof := by
  obtain ⟨hb, hp⟩ := findContent_ok_inv h
  have := devSrc_denotes d1
  rw [hb, hp] at this
  exact this

/-- Stored: `CodecFor` is a theorem as soon as `Ext.decode .stored` is the identity (what
`make_reader` does: no decoder at all). -/
theorem codecFor_stored (ext : Ext) (hst : ∀ x, ext.decode .stored x = .ok x) (C : Bytes) :
    CodecFor ext .stored storedCodec C :=
  ⟨storedCodec_on C .eof, by rw [hst]; rfl⟩

/-- Any method, intact stream: `CodecFor` follows from `Codec.IntactOK` and the decoder table agreeing
with the encoder. -/
theorem codecFor_intact (ext : Ext) (m : Method) (c : Codec) (encode : Bytes → Bytes)
    (hc : c.IntactOK encode) (p : Bytes) (hdec : ext.decode m (encode p) = .ok p) :
    CodecFor ext m c (encode p) :=
  ⟨hc.chunk p, by rw [hdec, hc.roundtrip p]; rfl⟩

/-! ### Streaming reader -/

theorem streamEntry_inv {ext : Ext} {fa : Option Nat} {d d' : Dev} {f : FileData} {res : Out Bytes}
    (h : streamEntry ext fa d = (.ok (some (f, res)), d')) :
    ∃ d1, streamHeader fa d = (.ok (some f), d1) ∧ d1.buf = d.buf ∧
      res = (ext.decode f.method ((d1.buf.drop d1.pos).take f.compressedSize.toNat) >>=
        crcCheck false f.crc32) := by
  unfold streamEntry at h
  obtain ⟨hd, d1, h1, h⟩ := M.bind_ok_inv h
  have hb : d1.buf = d.buf := by
    have := streamHeader_readOnly.elim fa d
    rw [h1] at this; exact this
  cases hd with
  | none => obtain ⟨hh, _⟩ := M.pure_ok_inv h; cases hh
  | some f1 =>
    obtain ⟨raw, d2, h2, h⟩ := M.bind_ok_inv h
    obtain ⟨hh, _⟩ := M.pure_ok_inv h
    have hraw := takeAll_ok_inv h2
    injection hh with hh
    injection hh with hf hres
    subst hf
    exact ⟨d1, h1, hb, by rw [hres, hraw]⟩

/-- **Bridge, streaming reader** (`read_zipfile_from_stream`): the entry's parameters come from the
LOCAL record, the bytes are those behind the header on the stream. -/
theorem stream_entry_bridge {σ : Type} {ext : Ext} {fa : Option Nat} {d d' : Dev} {f : FileData}
    {res : Out Bytes} (h : streamEntry ext fa d = (.ok (some (f, res)), d')) :
    ∃ d1, streamHeader fa d = (.ok (some f), d1) ∧ d1.buf = d.buf ∧
      ∀ (c : Codec),
        CodecFor ext f.method c ((d.buf.drop d1.pos).take f.compressedSize.toNat) →
      ∀ (inner : Src σ) (s : σ), Denotes inner s (d.buf.drop d1.pos) .eof →
      ∀ (reqs : List Nat) (b : Bytes) (t : Term) (e : c.St (σ × Nat) × UInt32),
        readToEnd (entryPipeline c inner f.crc32 false)
          (c.init (s, f.compressedSize.toNat), Crc32.init) reqs = some (b, t, e) →
        res = outOfLoop (b, t) := by
  obtain ⟨d1, h1, hb, hres⟩ := streamEntry_inv h
  refine ⟨d1, h1, hb, ?_⟩
  intro c hc inner s hin reqs b t e hr
  rw [hres, hb]
  exact pipeline_eq_decode_crc ext f.method c _ _ _ hc inner s hin reqs hr

/-! ### A concrete archive for the non-vacuity examples of C04 / C09 -/

/-- A well-formed one-entry archive (`a` = "Z", Stored), 101 bytes (the one of C05). -/
def oneEntry : Bytes :=
  [0x50, 0x4b, 0x3, 0x4, 0x14, 0x0, 0x0, 0x0, 0x0, 0x0, 0x0, 0x0, 0x21, 0x0, 0x67, 0x57, 0xbc, 0x59,
   0x1, 0x0, 0x0, 0x0, 0x1, 0x0, 0x0, 0x0, 0x1, 0x0, 0x0, 0x0, 0x61, 0x5a,
   0x50, 0x4b, 0x1, 0x2, 0x14, 0x0, 0x14, 0x0, 0x0, 0x0, 0x0, 0x0, 0x0, 0x0, 0x21, 0x0, 0x67, 0x57,
   0xbc, 0x59, 0x1, 0x0, 0x0, 0x0, 0x1, 0x0, 0x0, 0x0, 0x1, 0x0, 0x0, 0x0, 0x0, 0x0, 0x0, 0x0, 0x0,
   0x0, 0x0, 0x0, 0x0, 0x0, 0x0, 0x0, 0x0, 0x0, 0x61,
   0x50, 0x4b, 0x5, 0x6, 0x0, 0x0, 0x0, 0x0, 0x1, 0x0, 0x1, 0x0, 0x2f, 0x0, 0x0, 0x0, 0x20, 0x0, 0x0,
   0x0, 0x0, 0x0]

/-- Open `bytes`, hand out entry `i` (reader model), then read it call by call through the layer
model - `Crc32Reader(Take(scripted reader over the archive bytes from the data start))`, the
parameters taken from the parsed central record - and report both results. -/
def openReadBoth (bytes : Bytes) (i : Nat) (script reqs : List Nat) :
    Option (Nat × Bytes × Option (Bytes × Term)) :=
  match openArchive.runPure (Dev.ofBytes bytes) with
  | (.ok a, d) =>
    match a.files[i]?, (byIndexRead storedExt a i none).runPure d with
    | some data, (.ok (.ok (ds, .ok content)), _) =>
      some (ds, content,
        (readToEnd (entryPipeline storedCodec scripted data.crc32 false)
          (((⟨bytes.drop ds, script, script, none⟩ : Scripted), data.compressedSize.toNat),
            Crc32.init) reqs).map fun r => (r.1, r.2.1))
    | _, _ => none
  | _ => none

end ZipVerif.Model
