import ZipVerif.Lemmas.EntryBridgeCrypto
import ZipVerif.Lemmas.AesDenotes
/-
Bridge between the two models of "read an entry", WinZip-AES entries (C09 / C04 / C16 at archive level;
`Lemmas/EntryBridge.lean` has the unencrypted entries, `Lemmas/EntryBridgeCrypto.lean` the ZipCrypto ones).

* `Model/Reader.lean` with the environment `Model.cryptoExt` (`Model/CryptoExt.lean`): `byIndexRead` positions
  the device, `takeAll`s the compressed bytes in one go and applies the ONE-SHOT `aesLayer`: `AesReader::validate`
  over a never-short byte list, then two `read` calls with room for the whole payload (`aesReadAll`), then
  `Ext.decode`, then `crcCheck` (skipped for AE-2);
* call by call: `Aes.validate` over the same bytes under ANY short-read schedule, then
  `Crc32Reader(decoder(AesReaderValid(..)))` (`entryPipelineAes`, built from `Aes.Valid.read` - the function the
  translated `AesReaderValid::read` is tied to) driven with ANY caller buffers.

`entry_bridge_aes`: the verdicts agree - wrong password / accepted; and for an accepted entry: code right (the
call-by-call reader DENOTES the decryption, every finished loop returns the one-shot result), code wrong
(`InvalidData`; no schedule reaches a successful end-of-file), bytes missing (`UnexpectedEof`; likewise).
-/

namespace ZipVerif.Model
open ZipVerif ZipVerif.Spec ZipVerif.Model.Layers

/-! ### vocabulary: the parts of the stored bytes `raw` of an AES entry -/

/-- key length of the entry's AES mode -/
def aesK (mode : AesMode) : Nat := (aesModeView mode).keyLength
/-- salt length of the entry's AES mode -/
def aesSl (mode : AesMode) : Nat := (aesModeView mode).saltLength
/-- PBKDF2 output for password `pw` and the salt at the head of `raw` -/
def aesDk (P : Aes.AesPrims) (pw : Bytes) (mode : AesMode) (raw : Bytes) : Bytes :=
  P.pbkdf2 pw (raw.take (aesSl mode)) (2 * aesK mode + 2)
/-- the decryption key -/
def aesKey (P : Aes.AesPrims) (pw : Bytes) (mode : AesMode) (raw : Bytes) : Bytes :=
  (aesDk P pw mode raw).take (aesK mode)
/-- the HMAC key -/
def aesHk (P : Aes.AesPrims) (pw : Bytes) (mode : AesMode) (raw : Bytes) : Bytes :=
  ((aesDk P pw mode raw).drop (aesK mode)).take (aesK mode)
/-- the two bytes behind the salt are the derived password verifier -/
def aesVerifierOk (P : Aes.AesPrims) (pw : Bytes) (mode : AesMode) (raw : Bytes) : Prop :=
  (raw.drop (aesSl mode)).take 2 = (aesDk P pw mode raw).drop (2 * aesK mode)
/-- what follows the verifier: payload, authentication code, possibly more -/
def aesBody (mode : AesMode) (raw : Bytes) : Bytes := raw.drop (aesSl mode + 2)
/-- the reader `validate` hands out over a byte list whose remaining short-read schedule is `sc` -/
def aesReader (P : Aes.AesPrims) (pw : Bytes) (mode : AesMode) (raw : Bytes) (L : Nat) (sc : List Nat) :
    Aes.Valid Aes.ListSrc :=
  Aes.initValid ⟨aesBody mode raw, sc⟩ L (aesKey P pw mode raw) (aesHk P pw mode raw)
/-- the stored authentication code is the HMAC of the `L` payload bytes -/
def aesCodeOk (P : Aes.AesPrims) (pw : Bytes) (mode : AesMode) (raw : Bytes) (L : Nat) : Prop :=
  (P.hmac (aesHk P pw mode raw) ((aesBody mode raw).take L)).take Aes.AUTH_CODE_LENGTH =
    ((aesBody mode raw).drop L).take Aes.AUTH_CODE_LENGTH

/-! ### what `byIndexRead` does on an AES entry -/

/-- `by_index_decrypt` on an entry with the encryption flag and an AES extra record, on an ARBITRARY device, any
fault index, any environment: if the call returns, `find_content` succeeded and left the device at `ds`, and the
result is what `Ext.aes` makes of the first `compressed_size` bytes behind `ds`. -/
theorem byIndexRead_aes_inv {ext : Ext} {a : Archive} {i : Nat} {data : FileData} {pw : Bytes}
    {mode : AesMode} {vv : AesVendorVersion}
    {fa : Option Nat} {d d' : Dev} {r : PwResult (Nat × Out Bytes)}
    (hfile : a.files[i]? = some data) (henc : data.encrypted = true) (haes : data.aesMode = some (mode, vv))
    (h : byIndexRead ext a i (some pw) fa d = (.ok r, d')) :
    ∃ ds d1, findContent data fa d = (.ok ds, d1) ∧ d1.buf = d.buf ∧ d1.pos = ds ∧
      ((∃ stream, ext.aes pw mode data.compressedSize ((d.buf.drop ds).take data.compressedSize.toNat)
            = .ok (some stream) ∧
          r = .ok (ds, stream >>= fun pt => ext.decode data.method pt >>= crcCheck (vv == .ae2) data.crc32)) ∨
        (ext.aes pw mode data.compressedSize ((d.buf.drop ds).take data.compressedSize.toNat) = .ok none ∧
          r = .invalidPassword)) := by
  unfold byIndexRead at h
  rw [hfile] at h
  simp only [henc, Option.isNone_some, Bool.false_and, Bool.false_eq_true, if_false, if_true] at h
  obtain ⟨ds1, d1, h1, h⟩ := M.bind_ok_inv h
  obtain ⟨hb1, hp1⟩ := findContent_ok_inv h1
  refine ⟨ds1, d1, h1, hb1, hp1, ?_⟩
  have key : ∀ m, data.method = m →
      ((do
          let raw ← takeAll data.compressedSize.toNat
          match ext.aes pw mode data.compressedSize raw with
          | .err e => M.throw e
          | .panic s => M.panic s
          | .ok none => pure .invalidPassword
          | .ok (some stream) =>
            let res : Out Bytes := do
              let pt ← stream
              let dec ← ext.decode m pt
              crcCheck (vv == .ae2) data.crc32 dec
            pure (.ok (ds1, res))) : M (PwResult (Nat × Out Bytes))) fa d1 = (.ok r, d') →
      ((∃ stream, ext.aes pw mode data.compressedSize ((d.buf.drop ds1).take data.compressedSize.toNat)
            = .ok (some stream) ∧
          r = .ok (ds1, stream >>= fun pt => ext.decode data.method pt >>= crcCheck (vv == .ae2) data.crc32)) ∨
        (ext.aes pw mode data.compressedSize ((d.buf.drop ds1).take data.compressedSize.toNat) = .ok none ∧
          r = .invalidPassword)) := by
    intro m hm h
    obtain ⟨raw, d2, h2, h⟩ := M.bind_ok_inv h
    have hraw := takeAll_ok_inv h2
    rw [hb1, hp1] at hraw
    subst hraw
    cases hz : ext.aes pw mode data.compressedSize ((d.buf.drop ds1).take data.compressedSize.toNat) with
    | err e => rw [hz] at h; exact (M.throw_ok_inv h).elim
    | panic s => rw [hz] at h; cases h
    | ok o =>
      rw [hz] at h
      cases o with
      | none =>
        obtain ⟨hh, _⟩ := M.pure_ok_inv h
        exact Or.inr ⟨rfl, hh⟩
      | some stream =>
        obtain ⟨hh, _⟩ := M.pure_ok_inv h
        exact Or.inl ⟨stream, rfl, by rw [hh, hm]⟩
  generalize hm : data.method = m at h key
  cases m with
  | unsupported v => exact (M.throw_ok_inv h).elim
  | aes => exact (M.throw_ok_inv h).elim
  | stored => rw [haes] at h; exact key _ rfl h
  | deflated => rw [haes] at h; exact key _ rfl h
  | bzip2 => rw [haes] at h; exact key _ rfl h
  | zstd => rw [haes] at h; exact key _ rfl h

/-! ### the one-shot `aesLayer` on any bytes -/

/-- Everything the one-shot `aesLayer` of `cryptoExt` can answer, on ANY byte list. -/
theorem aesLayer_cases (P : Aes.AesPrims) (hW : P.WF) (pw : Bytes) (mode : AesMode) (csize : UInt64)
    (raw : Bytes) :
    (Aes.dataLength (aesModeView mode) csize.toNat = none ∧
      aesLayer P pw mode csize raw = .err (.io .invalidData)) ∨
    (∃ L, Aes.dataLength (aesModeView mode) csize.toNat = some L ∧ L < Aes.U64 ∧
      ((raw.length < aesSl mode + 2 ∧ aesLayer P pw mode csize raw = .err (.io .unexpectedEof)) ∨
       (aesSl mode + 2 ≤ raw.length ∧ ¬ aesVerifierOk P pw mode raw ∧ aesLayer P pw mode csize raw = .ok none) ∨
       (aesSl mode + 2 ≤ raw.length ∧ aesVerifierOk P pw mode raw ∧
          aesLayer P pw mode csize raw =
            .ok (some (Aes.drain P Aes.listSrc [L, L] (aesReader P pw mode raw L []) []).1)))) := by
  cases hdl : Aes.dataLength (aesModeView mode) csize.toNat with
  | none =>
    refine Or.inl ⟨rfl, ?_⟩
    unfold aesLayer
    simp only [hdl]
    rfl
  | some L =>
    refine Or.inr ⟨L, rfl, ?_, ?_⟩
    · have : L ≤ csize.toNat := by
        unfold Aes.dataLength at hdl
        simp only at hdl
        split at hdl
        · cases hdl; omega
        · cases hdl
      have := csize.toNat_lt
      unfold Aes.U64; omega
    · obtain ⟨hshort, hlong⟩ := Aes.validate_list P hW (aesModeView mode) L raw [] pw
      by_cases hl : raw.length < aesSl mode + 2
      · refine Or.inl ⟨hl, ?_⟩
        unfold aesLayer
        simp only [hdl, hshort hl]
      · have hl' : aesSl mode + 2 ≤ raw.length := by omega
        obtain ⟨hbad, hgood⟩ := hlong hl'
        by_cases hv : aesVerifierOk P pw mode raw
        · refine Or.inr (Or.inr ⟨hl', hv, ?_⟩)
          obtain ⟨sc, hsc, e⟩ := hgood hv
          have hsc := hsc rfl
          subst hsc
          unfold aesLayer
          simp only [hdl, e]
          rfl
        · refine Or.inr (Or.inl ⟨hl', hv, ?_⟩)
          unfold aesLayer
          simp only [hdl, hbad hv]

/-! ### the bridge -/

theorem outOfLoop_crc_ae2 (ae2 : Bool) (declared : UInt32) (B : Bytes) (T : Term) :
    (outOfLoop (B, T) >>= crcCheck ae2 declared) = outOfLoop (B, crcTerm declared ae2 B T) := by
  cases T with
  | eof =>
    show crcCheck ae2 declared B = _
    cases ae2 with
    | false => exact outOfLoop_crc declared B .eof
    | true => simp [crcCheck, crcTerm, outOfLoop]
  | err e => rfl

/-- Core of the bridge over ANY reader of the compressed stream `C`, with or without the CRC comparison. -/
theorem layer_eq_decode_crc_ae2 {τ : Type} (ext : Ext) (m : Method) (c : Codec) (C : Bytes) (declared : UInt32)
    (ae2 : Bool) (hc : CodecFor ext m c C) (src : Src τ) (st : τ) (hsrc : Denotes src st C .eof)
    (reqs : List Nat) {b : Bytes} {t : Term} {e : c.St τ × UInt32}
    (hr : readToEnd (crcLayer (c.layer src) declared ae2) (c.init st, Crc32.init) reqs = some (b, t, e)) :
    (ext.decode m C >>= crcCheck ae2 declared) = outOfLoop (b, t) := by
  have hd := crc_denotes_nz _ declared ae2 (hc.chunk _ _ hsrc)
  obtain ⟨hb, ht, _⟩ := denotes_readToEnd hd hr
  rw [hc.agrees, hb, ht]
  exact outOfLoop_crc_ae2 ae2 declared _ _

theorem split_payload (B : Bytes) (L : Nat) (h : L + Aes.AUTH_CODE_LENGTH ≤ B.length) :
    B = B.take L ++ ((B.drop L).take Aes.AUTH_CODE_LENGTH ++ B.drop (L + Aes.AUTH_CODE_LENGTH)) ∧
      (B.take L).length = L ∧ ((B.drop L).take Aes.AUTH_CODE_LENGTH).length = Aes.AUTH_CODE_LENGTH := by
  refine ⟨?_, by rw [List.length_take]; omega, by rw [List.length_take, List.length_drop]; omega⟩
  rw [← List.drop_drop, List.take_append_drop, List.take_append_drop]

/-- The three things that can be behind the verifier of an accepted AES entry whose declared payload length is
`L`, and what follows for the one-shot result `res` and for the call-by-call reader `v0` (any schedule):

* payload and code are there, the code is the HMAC of the payload: `res` is decode + CRC check of the CTR
  decryption `pt`; `AesReaderValid` DENOTES `pt` then a clean end (every buffer schedule, zeros included); every
  finished read loop over `Crc32Reader(decoder(AesReaderValid))` returns `res` (for the decoder `c` that `ext`
  summarises on `pt`);
* payload and code are there, the code is wrong: `res` is the `InvalidData` error, and no run reaches a
  successful end-of-file;
* bytes are missing: `res` is `UnexpectedEof`, and no run reaches a successful end-of-file. -/
def AesVerdict (P : Aes.AesPrims) (ext : Ext) (method : Method) (crc : UInt32) (ae2 : Bool) (pw : Bytes)
    (mode : AesMode) (raw : Bytes) (L : Nat) (v0 : Aes.Valid Aes.ListSrc) (res : Out Bytes) : Prop :=
  (∃ pt cfin, L + Aes.AUTH_CODE_LENGTH ≤ (aesBody mode raw).length ∧ aesCodeOk P pw mode raw L ∧
      Aes.cryptBytes P (aesKey P pw mode raw) Aes.CtrState.new ((aesBody mode raw).take L) = .ok (pt, cfin) ∧
      res = (ext.decode method pt >>= crcCheck ae2 crc) ∧
      Denotes (aesSrc P Aes.listSrc) v0 pt .eof ∧
      ∀ (c : Codec), CodecFor ext method c pt →
        ∀ (reqs : List Nat) (b : Bytes) (t : Term) (e : c.St (Aes.Valid Aes.ListSrc) × UInt32),
          readToEnd (entryPipelineAes c P Aes.listSrc crc ae2) (c.init v0, Crc32.init) reqs = some (b, t, e) →
          res = outOfLoop (b, t)) ∨
  (L + Aes.AUTH_CODE_LENGTH ≤ (aesBody mode raw).length ∧ ¬ aesCodeOk P pw mode raw L ∧
      res = .err (.io .invalidData) ∧ Aes.NeverEof P v0) ∨
  ((aesBody mode raw).length < L + Aes.AUTH_CODE_LENGTH ∧ res = .err (.io .unexpectedEof) ∧ Aes.NeverEof P v0)

/-- **Bridge, seekable reader, WinZip-AES entries, every inner method.**  `by_index_decrypt` with password `pw`
on entry `i` (encryption flag, AES extra record `(mode, vv)`) of archive value `a` over device `d`, in the
environment `cryptoExt` (the crate's own AES layer, one shot over a never-short byte list), returns `r`.  Then the
declared payload length `L` exists (`AesReader::new`: `compressed_size - (salt + 2 + 10)`), salt and verifier are
there, and for EVERY short-read schedule `sched` of a reader holding the entry's stored bytes `raw`:

* `r = Err(InvalidPassword)`: the verifier is not the derived one, and `AesReader::validate` answers `Ok(None)`;
* `r = Ok(file)` with read-to-end result `res`: the verifier is the derived one, `validate` hands out the reader
  `aesReader .. sc` (keys derived from `pw` and the salt; `sc` = what is left of the schedule), and `AesVerdict`
  holds: code right / code wrong / bytes missing, each with what the one-shot result is and what every
  call-by-call run does. -/
theorem entry_bridge_aes {P : Aes.AesPrims} (hW : P.WF) {decode : Method → Bytes → Out Bytes}
    {a : Archive} {i : Nat} {data : FileData} {pw : Bytes} {mode : AesMode} {vv : AesVendorVersion}
    {fa : Option Nat} {d d' : Dev} {r : PwResult (Nat × Out Bytes)}
    (hfile : a.files[i]? = some data) (henc : data.encrypted = true) (haes : data.aesMode = some (mode, vv))
    (h : byIndexRead (cryptoExt P decode) a i (some pw) fa d = (.ok r, d')) :
    ∃ ds, (∃ d1, findContent data fa d = (.ok ds, d1) ∧ d1.buf = d.buf ∧ d1.pos = ds) ∧
    ∃ L, Aes.dataLength (aesModeView mode) data.compressedSize.toNat = some L ∧ L < Aes.U64 ∧
      aesSl mode + 2 ≤ ((d.buf.drop ds).take data.compressedSize.toNat).length ∧
    ∀ sched : List Nat,
      (r = .invalidPassword →
        ¬ aesVerifierOk P pw mode ((d.buf.drop ds).take data.compressedSize.toNat) ∧
        (Aes.validate P Aes.listSrc (aesModeView mode) (some L)
          ⟨(d.buf.drop ds).take data.compressedSize.toNat, sched⟩ pw).1 = .ok none) ∧
      (∀ res, r = .ok (ds, res) →
        aesVerifierOk P pw mode ((d.buf.drop ds).take data.compressedSize.toNat) ∧
        ∃ sc, Aes.validate P Aes.listSrc (aesModeView mode) (some L)
            ⟨(d.buf.drop ds).take data.compressedSize.toNat, sched⟩ pw =
            (.ok (some (aesReader P pw mode ((d.buf.drop ds).take data.compressedSize.toNat) L sc)),
              ⟨aesBody mode ((d.buf.drop ds).take data.compressedSize.toNat), sc⟩) ∧
          AesVerdict P (cryptoExt P decode) data.method data.crc32 (vv == .ae2) pw mode
            ((d.buf.drop ds).take data.compressedSize.toNat) L
            (aesReader P pw mode ((d.buf.drop ds).take data.compressedSize.toNat) L sc) res) := by
  obtain ⟨ds, d1, h1, hb1, hp1, hr⟩ := byIndexRead_aes_inv hfile henc haes h
  refine ⟨ds, ⟨d1, h1, hb1, hp1⟩, ?_⟩
  generalize hraw : (d.buf.drop ds).take data.compressedSize.toNat = raw at hr ⊢
  have hz : (cryptoExt P decode).aes = aesLayer P := rfl
  rw [hz] at hr
  rcases aesLayer_cases P hW pw mode data.compressedSize raw with ⟨_, hc⟩ | ⟨L, hdl, hLU, hcases⟩
  · rw [hc] at hr
    rcases hr with ⟨_, hh, _⟩ | ⟨hh, _⟩ <;> cases hh
  refine ⟨L, hdl, hLU, ?_⟩
  rcases hcases with ⟨_, hc⟩ | ⟨hl, hv, hc⟩ | ⟨hl, hv, hc⟩
  · rw [hc] at hr
    rcases hr with ⟨_, hh, _⟩ | ⟨hh, _⟩ <;> cases hh
  · -- wrong password
    refine ⟨hl, fun sched => ?_⟩
    rw [hc] at hr
    rcases hr with ⟨_, hh, _⟩ | ⟨_, hinv⟩
    · cases hh
    · obtain ⟨_, hlong⟩ := Aes.validate_list P hW (aesModeView mode) L raw sched pw
      exact ⟨fun _ => ⟨hv, (hlong hl).1 hv⟩, fun res hres => by rw [hinv] at hres; cases hres⟩
  · -- accepted
    refine ⟨hl, fun sched => ?_⟩
    rw [hc] at hr
    rcases hr with ⟨stream, hh, hres⟩ | ⟨hh, _⟩
    · refine ⟨fun hinv => (by rw [hinv] at hres; cases hres), fun res hres' => ⟨hv, ?_⟩⟩
      obtain ⟨_, hlong⟩ := Aes.validate_list P hW (aesModeView mode) L raw sched pw
      obtain ⟨sc, _, hval⟩ := (hlong hl).2 hv
      refine ⟨sc, hval, ?_⟩
      rw [hres'] at hres
      injection hres with hres
      injection hres with _ hres
      injection hh with hh
      injection hh with hh
      subst hh
      -- the three verdicts
      by_cases hlen : L + Aes.AUTH_CODE_LENGTH ≤ (aesBody mode raw).length
      · obtain ⟨hB, hctl, hcl⟩ := split_payload (aesBody mode raw) L hlen
        by_cases hcode : aesCodeOk P pw mode raw L
        · obtain ⟨pt, cfin, hpt, hdr⟩ := Aes.drainLL_ok P hW hLU (aesBody mode raw) (aesKey P pw mode raw)
            (aesHk P pw mode raw) hlen hcode
          have hden := aesSrc_denotes_intact P hW (ct := (aesBody mode raw).take L)
            (code := ((aesBody mode raw).drop L).take Aes.AUTH_CODE_LENGTH)
            (tail := (aesBody mode raw).drop (L + Aes.AUTH_CODE_LENGTH))
            (key := aesKey P pw mode raw) (hk := aesHk P pw mode raw) (by rw [hctl]; exact hLU) hcode sc hpt
          rw [hctl, ← hB] at hden
          have hres2 : res = ((cryptoExt P decode).decode data.method pt >>= crcCheck (vv == .ae2) data.crc32) := by
            rw [hres]
            show ((Aes.drain P Aes.listSrc [L, L] (aesReader P pw mode raw L []) []).1 >>= _) = _
            unfold aesReader
            rw [hdr]
            rfl
          refine Or.inl ⟨pt, cfin, hlen, hcode, hpt, hres2, hden, ?_⟩
          intro c hcf reqs b t e hrun
          rw [hres2]
          exact layer_eq_decode_crc_ae2 (cryptoExt P decode) data.method c pt data.crc32 (vv == .ae2) hcf _ _
            hden reqs hrun
        · have hdr := Aes.drainLL_bad P hW hLU (aesBody mode raw) (aesKey P pw mode raw) (aesHk P pw mode raw)
            hlen hcode
          have hnever := neverEof_of_bad_code P hW (ct := (aesBody mode raw).take L)
            (code := ((aesBody mode raw).drop L).take Aes.AUTH_CODE_LENGTH)
            (tail := (aesBody mode raw).drop (L + Aes.AUTH_CODE_LENGTH))
            (key := aesKey P pw mode raw) (hk := aesHk P pw mode raw) (by rw [hctl]; exact hLU) hcl hcode sc
          rw [hctl, ← hB] at hnever
          refine Or.inr (Or.inl ⟨hlen, hcode, ?_, hnever⟩)
          rw [hres]
          show ((Aes.drain P Aes.listSrc [L, L] (aesReader P pw mode raw L []) []).1 >>= _) = _
          unfold aesReader
          rw [hdr]
          rfl
      · have hlen' : (aesBody mode raw).length < L + Aes.AUTH_CODE_LENGTH := by omega
        have hdr := Aes.drainLL_short P hW hLU (aesBody mode raw) (aesKey P pw mode raw) (aesHk P pw mode raw)
          hlen'
        refine Or.inr (Or.inr ⟨hlen', ?_, neverEof_of_truncated P hW hLU _ sc _ _ hlen'⟩)
        rw [hres]
        show ((Aes.drain P Aes.listSrc [L, L] (aesReader P pw mode raw L []) []).1 >>= _) = _
        unfold aesReader
        rw [hdr]
        rfl
    · cases hh

/-- The first case of `AesVerdict`, selected by its hypotheses. -/
theorem AesVerdict.intact {P : Aes.AesPrims} {ext : Ext} {method : Method} {crc : UInt32} {ae2 : Bool} {pw : Bytes}
    {mode : AesMode} {raw : Bytes} {L : Nat} {v0 : Aes.Valid Aes.ListSrc} {res : Out Bytes}
    (hV : AesVerdict P ext method crc ae2 pw mode raw L v0 res)
    (hlen : L + Aes.AUTH_CODE_LENGTH ≤ (aesBody mode raw).length) (hcode : aesCodeOk P pw mode raw L) :
    ∃ pt cfin,
      Aes.cryptBytes P (aesKey P pw mode raw) Aes.CtrState.new ((aesBody mode raw).take L) = .ok (pt, cfin) ∧
      res = (ext.decode method pt >>= crcCheck ae2 crc) ∧ Denotes (aesSrc P Aes.listSrc) v0 pt .eof := by
  rcases hV with ⟨pt, cfin, _, _, hpt, hres, hden, _⟩ | ⟨_, hbad, _⟩ | ⟨hshort, _⟩
  · exact ⟨pt, cfin, hpt, hres, hden⟩
  · exact absurd hcode hbad
  · omega

/-- The other two cases: the one-shot result is an I/O error and no run ends successfully. -/
theorem AesVerdict.damaged {P : Aes.AesPrims} {ext : Ext} {method : Method} {crc : UInt32} {ae2 : Bool} {pw : Bytes}
    {mode : AesMode} {raw : Bytes} {L : Nat} {v0 : Aes.Valid Aes.ListSrc} {res : Out Bytes}
    (hV : AesVerdict P ext method crc ae2 pw mode raw L v0 res)
    (hbad : ¬ (L + Aes.AUTH_CODE_LENGTH ≤ (aesBody mode raw).length ∧ aesCodeOk P pw mode raw L)) :
    (∃ k, res = .err (.io k)) ∧ Aes.NeverEof P v0 := by
  rcases hV with ⟨_, _, hlen, hcode, _⟩ | ⟨_, _, hres, hn⟩ | ⟨_, hres, hn⟩
  · exact absurd ⟨hlen, hcode⟩ hbad
  · exact ⟨⟨_, hres⟩, hn⟩
  · exact ⟨⟨_, hres⟩, hn⟩

/-! ### A concrete AES archive for the non-vacuity examples of C04 / C09 / C16 -/

/-- Stand-ins for PBKDF2 / AES / HMAC-SHA1 with the right output lengths (NOT cryptography). -/
def exPrims : Aes.AesPrims where
  pbkdf2 pw salt n := (List.range n).map fun i => UInt8.ofNat (7 * i + pw.length) + 3 * salt.foldl (· + ·) 0
  block key inp := (List.range 16).map fun i => UInt8.ofNat (i * 11 + key.length) ^^^ inp.headD 0
  hmac key msg := (List.range 20).map fun i => UInt8.ofNat (i + key.length) ^^^ msg.foldl (· + ·) 0

theorem exPrims_wf : exPrims.WF :=
  ⟨fun _ _ _ => by simp [exPrims], fun _ _ => by simp [exPrims], fun _ _ => by simp [exPrims]⟩

/-- An independent encryptor over `exPrims`: salt ‖ verifier ‖ CTR(plain) ‖ HMAC[0..10], AES-128, password "pw". -/
def aesExPayload (plain : Bytes) : Bytes :=
  let salt : Bytes := [1, 2, 3, 4, 5, 6, 7, 8]
  let dk := exPrims.pbkdf2 [0x70, 0x77] salt 34
  match Aes.cryptInPlace exPrims (dk.take 16) Aes.CtrState.new plain with
  | .ok (ct, _) => salt ++ dk.drop 32 ++ (ct ++ (exPrims.hmac ((dk.drop 16).take 16) ct).take 10)
  | _ => []

/-- One entry `a` = `[1,2,3,4,5]`: method 99, extra record 0x9901 (AE-2, AES-128, inner method Stored), stored
bytes `payload`, declared compressed size `csize`. -/
def aesExArchiveOf (payload : Bytes) (csize : Nat) : Bytes :=
  let extra : Bytes := [0x01, 0x99, 7, 0, 2, 0, 0x41, 0x45, 1, 0, 0]
  let lfh : Bytes := [80, 75, 3, 4, 51, 0, 1, 0, 99, 0, 0, 0, 33, 0, 0, 0, 0, 0] ++ le32 (UInt32.ofNat csize) ++
    [5, 0, 0, 0, 1, 0, 11, 0, 97] ++ extra
  let cdh : Bytes := [80, 75, 1, 2, 51, 3, 51, 0, 1, 0, 99, 0, 0, 0, 33, 0, 0, 0, 0, 0] ++
    le32 (UInt32.ofNat csize) ++ [5, 0, 0, 0, 1, 0, 11, 0, 0, 0, 0, 0, 0, 0, 0, 0, 164, 129, 0, 0, 0, 0, 97] ++ extra
  lfh ++ payload ++ cdh ++
    ([80, 75, 5, 6, 0, 0, 0, 0, 1, 0, 1, 0] ++ le32 (UInt32.ofNat cdh.length) ++
      le32 (UInt32.ofNat (lfh.length + payload.length)) ++ [0, 0])

def aesExArchive : Bytes := aesExArchiveOf (aesExPayload [1, 2, 3, 4, 5]) (aesExPayload [1, 2, 3, 4, 5]).length

/-- `cryptoExt` for evaluation: Stored-only decoding, `exPrims`. -/
def evalAesExt : Ext := cryptoExt exPrims (fun _ raw => .ok raw)

/-- Open `bytes`, look at entry 0 (`none` unless it has the encryption flag and an AES-128 / AE-2 record), hand it
out with password `pw` (reader model, one-shot AES layer; `(0, none, none)` when no file is handed out); then
`validate` over a byte list with short-read schedule `sched` and read the handed-out `AesReaderValid` call by call
with the buffers `bufs`.  Reported: data start, one-shot result (`none` = error), and the call-by-call bytes
(`none` = `validate` refused or a `read` failed). -/
def aesOpenRead (bytes : Bytes) (pw : Bytes) (sched bufs : List Nat) : Option (Nat × Option Bytes × Option Bytes) :=
  match openArchive.runPure (Dev.ofBytes bytes) with
  | (.ok a, d) =>
    match a.files[0]? with
    | some data =>
      if data.encrypted = true ∧ data.aesMode = some (.aes128, .ae2) then
        match (byIndexRead evalAesExt a 0 (some pw)).runPure d with
        | (.ok (.ok (ds, res)), _) =>
          some (ds, (match res with | .ok c => some c | _ => none),
            match (Aes.validate exPrims Aes.listSrc .aes128 (Aes.dataLength .aes128 data.compressedSize.toNat)
                ⟨(bytes.drop ds).take data.compressedSize.toNat, sched⟩ pw).1 with
            | .ok (some v) =>
              (match (Aes.drain exPrims Aes.listSrc bufs v []).1 with | .ok c => some c | _ => none)
            | _ => none)
        | _ => some (0, none, none)
      else none
    | none => none
  | _ => none

end ZipVerif.Model
