import ZipVerif.Lemmas.EntryBridge
import ZipVerif.Model.CryptoExt
/-
Bridge between the two models of "read an entry", ENCRYPTED entries (C09; `Lemmas/EntryBridge.lean` has the
unencrypted ones).

* `Model/Reader.lean` with the environment `Model.cryptoExt` (`Model/CryptoExt.lean`): `byIndexRead` positions
  the device, `takeAll`s the compressed bytes in one go and applies the ONE-SHOT `zipCryptoLayer pw check raw`
  (12-byte header, check byte, decryption of the rest), then `Ext.decode`, then `crcCheck`;
* `Model/Layers.lean`: `ZipCryptoReader::validate` (`zcValidate`: `read_exact` of the header through the
  `Take`, over a reader with arbitrary short reads) and then
  `Crc32Reader(decoder(ZipCryptoReaderValid(Take(reader))))` driven call by call (`entryPipelineZc`), both
  instantiated with the crate's cipher `ZipCrypto.decryptByte` and the keys derived from the password.
-/

namespace ZipVerif.Model
open ZipVerif ZipVerif.Spec ZipVerif.Model.Layers

/-- `for byte in buf { decrypt_byte }` of the C15 model is the per-byte stateful transform of the layer model. -/
theorem decryptAll_eq_map (k : ZipCrypto.Keys) (cs : Bytes) :
    ZipCrypto.decryptAll k cs =
      (mapBytes ZipCrypto.decryptByte k cs, mapKey ZipCrypto.decryptByte k cs) := by
  induction cs generalizing k with
  | nil => rfl
  | cons c cs ih =>
    rw [ZipCrypto.decryptAll, ih]
    simp [mapBytes, mapKey]

/-- The validator byte `make_crypto_reader` hands to `ZipCryptoReader::validate`: the high byte of the DOS time
for entries with a data descriptor, of the CRC-32 otherwise. -/
def zcCheck (data : FileData) : UInt8 :=
  if data.usingDataDescriptor then (data.time.timepart >>> 8).toUInt8 else (data.crc32 >>> 24).toUInt8

/-- `by_index_decrypt` on a ZipCrypto entry (encrypted, no AES record), on an ARBITRARY device, any fault
index, any environment: if the call returns (`Ok(Ok(file))` or `Ok(Err(InvalidPassword))`), `find_content`
succeeded and left the device at `ds`, and the result is what `Ext.zipCrypto` makes of the first
`compressed_size` bytes behind `ds`. -/
theorem byIndexRead_zc_inv {ext : Ext} {a : Archive} {i : Nat} {data : FileData} {pw : Bytes}
    {fa : Option Nat} {d d' : Dev} {r : PwResult (Nat × Out Bytes)}
    (hfile : a.files[i]? = some data) (henc : data.encrypted = true) (haes : data.aesMode = none)
    (h : byIndexRead ext a i (some pw) fa d = (.ok r, d')) :
    ∃ ds d1, findContent data fa d = (.ok ds, d1) ∧ d1.buf = d.buf ∧ d1.pos = ds ∧
      ((∃ pt, ext.zipCrypto pw (zcCheck data) ((d.buf.drop ds).take data.compressedSize.toNat) = .ok (some pt) ∧
          r = .ok (ds, ext.decode data.method pt >>= crcCheck false data.crc32)) ∨
        (ext.zipCrypto pw (zcCheck data) ((d.buf.drop ds).take data.compressedSize.toNat) = .ok none ∧
          r = .invalidPassword)) := by
  unfold byIndexRead at h
  rw [hfile] at h
  simp only [henc, Option.isNone_some, Bool.false_and, Bool.false_eq_true, if_false, if_true] at h
  obtain ⟨ds1, d1, h1, h⟩ := M.bind_ok_inv h
  obtain ⟨hb1, hp1⟩ := findContent_ok_inv h1
  refine ⟨ds1, d1, h1, hb1, hp1, ?_⟩
  have key : ∀ m, data.method = m →
      ((do
          let check : UInt8 := if data.usingDataDescriptor then (data.time.timepart >>> 8).toUInt8
                               else (data.crc32 >>> 24).toUInt8
          let raw ← takeAll data.compressedSize.toNat
          match ext.zipCrypto pw check raw with
          | .err e => M.throw e
          | .panic s => M.panic s
          | .ok none => pure .invalidPassword
          | .ok (some pt) =>
            let res : Out Bytes := do
              let dec ← ext.decode m pt
              crcCheck false data.crc32 dec
            pure (.ok (ds1, res))) : M (PwResult (Nat × Out Bytes))) fa d1 = (.ok r, d') →
      ((∃ pt, ext.zipCrypto pw (zcCheck data) ((d.buf.drop ds1).take data.compressedSize.toNat) = .ok (some pt) ∧
          r = .ok (ds1, ext.decode data.method pt >>= crcCheck false data.crc32)) ∨
        (ext.zipCrypto pw (zcCheck data) ((d.buf.drop ds1).take data.compressedSize.toNat) = .ok none ∧
          r = .invalidPassword)) := by
    intro m hm h
    obtain ⟨raw, d2, h2, h⟩ := M.bind_ok_inv h
    have hraw := takeAll_ok_inv h2
    rw [hb1, hp1] at hraw
    subst hraw
    unfold zcCheck
    cases hz : ext.zipCrypto pw (if data.usingDataDescriptor then (data.time.timepart >>> 8).toUInt8
        else (data.crc32 >>> 24).toUInt8) ((d.buf.drop ds1).take data.compressedSize.toNat) with
    | err e => rw [hz] at h; exact (M.throw_ok_inv h).elim
    | panic s => rw [hz] at h; cases h
    | ok o =>
      rw [hz] at h
      cases o with
      | none =>
        obtain ⟨hh, _⟩ := M.pure_ok_inv h
        exact Or.inr ⟨rfl, hh⟩
      | some pt =>
        obtain ⟨hh, _⟩ := M.pure_ok_inv h
        exact Or.inl ⟨pt, rfl, by rw [hh, hm]⟩
  generalize hm : data.method = m at h key
  cases m with
  | unsupported v => exact (M.throw_ok_inv h).elim
  | aes => exact (M.throw_ok_inv h).elim
  | stored => rw [haes] at h; exact key _ rfl h
  | deflated => rw [haes] at h; exact key _ rfl h
  | bzip2 => rw [haes] at h; exact key _ rfl h
  | zstd => rw [haes] at h; exact key _ rfl h

/-- Core of the bridge over ANY reader of the compressed stream `C` (for a ZipCrypto entry: the validated
`ZipCryptoReaderValid(Take(..))`): `Crc32Reader(decoder(src))` read to the end under any schedule gives
`Ext.decode` of `C`, then the CRC comparison. -/
theorem layer_eq_decode_crc {τ : Type} (ext : Ext) (m : Method) (c : Codec) (C : Bytes) (declared : UInt32)
    (hc : CodecFor ext m c C) (src : Src τ) (st : τ) (hsrc : Denotes src st C .eof) (reqs : List Nat)
    {b : Bytes} {t : Term} {e : c.St τ × UInt32}
    (hr : readToEnd (crcLayer (c.layer src) declared false) (c.init st, Crc32.init) reqs = some (b, t, e)) :
    (ext.decode m C >>= crcCheck false declared) = outOfLoop (b, t) := by
  have hd := crc_denotes_nz _ declared false (hc.chunk _ _ hsrc)
  obtain ⟨hb, ht, _⟩ := denotes_readToEnd hd hr
  rw [hc.agrees, hb, ht]
  exact outOfLoop_crc declared _ _

/-- The one-shot `zipCryptoLayer` of `cryptoExt`, spelled with the layer model's transform. -/
theorem zipCryptoLayer_cases (pw : Bytes) (check : UInt8) (raw : Bytes) :
    (raw.length < 12 ∧ zipCryptoLayer pw check raw = .err (.io .unexpectedEof)) ∨
    (12 ≤ raw.length ∧
      (mapBytes ZipCrypto.decryptByte (ZipCrypto.derive pw) (raw.take 12))[11]? = some check ∧
      zipCryptoLayer pw check raw = .ok (some (mapBytes ZipCrypto.decryptByte
        (mapKey ZipCrypto.decryptByte (ZipCrypto.derive pw) (raw.take 12)) (raw.drop 12)))) ∨
    (12 ≤ raw.length ∧
      (mapBytes ZipCrypto.decryptByte (ZipCrypto.derive pw) (raw.take 12))[11]? ≠ some check ∧
      zipCryptoLayer pw check raw = .ok none) := by
  unfold zipCryptoLayer rdN
  by_cases hl : 12 ≤ raw.length
  · rw [if_pos hl]
    simp only [decryptAll_eq_map]
    by_cases hv : (mapBytes ZipCrypto.decryptByte (ZipCrypto.derive pw) (raw.take 12))[11]? = some check
    · exact Or.inr (Or.inl ⟨hl, hv, by rw [if_pos hv]⟩)
    · exact Or.inr (Or.inr ⟨hl, hv, by rw [if_neg hv]⟩)
  · rw [if_neg hl]
    exact Or.inl ⟨by omega, rfl⟩

/-- **Bridge, seekable reader, ZipCrypto entries, every method.**  `by_index_decrypt` with password `pw` on a
ZipCrypto entry `i` of archive value `a` over device `d`, in the environment `cryptoExt` (the crate's own
decryption layer, one shot over the whole entry), returns `r`.  Then for EVERY reader `inner` holding the
device's bytes from the data start `ds` (every short-read behaviour):

* `r = Ok(file)` with read-to-end result `res`: `ZipCryptoReader::validate` over `Take(inner, compressed_size)`
  (the `read_exact` of the 12-byte header, whatever the fragmentation) accepts the password, and for EVERY
  schedule of caller buffers the read loop over `Crc32Reader(decoder(ZipCryptoReaderValid(Take(..))))`, if it
  finishes, returns `res`;
* `r = Err(InvalidPassword)`: `validate` rejects the password, whatever the fragmentation. -/
theorem entry_bridge_zipcrypto {P : Aes.AesPrims} {decode : Method → Bytes → Out Bytes}
    {a : Archive} {i : Nat} {data : FileData} {pw : Bytes} {fa : Option Nat} {d d' : Dev}
    {r : PwResult (Nat × Out Bytes)}
    (hfile : a.files[i]? = some data) (henc : data.encrypted = true) (haes : data.aesMode = none)
    (h : byIndexRead (cryptoExt P decode) a i (some pw) fa d = (.ok r, d')) :
    ∃ ds, (∃ d1, findContent data fa d = (.ok ds, d1) ∧ d1.buf = d.buf ∧ d1.pos = ds) ∧
    ∀ (σ : Type) (inner : Src σ) (s : σ), Denotes inner s (d.buf.drop ds) .eof →
      (∀ res, r = .ok (ds, res) →
        ∃ st, zcValidate ZipCrypto.decryptByte (take inner) (s, data.compressedSize.toNat)
            (ZipCrypto.derive pw) (zcCheck data) = .valid st ∧
          ∃ pt, zipCryptoLayer pw (zcCheck data) ((d.buf.drop ds).take data.compressedSize.toNat) = .ok (some pt) ∧
          Denotes (Layers.zipCryptoLayer ZipCrypto.decryptByte (take inner)) st pt .eof ∧
          ∀ (c : Codec), CodecFor (cryptoExt P decode) data.method c pt →
          ∀ (reqs : List Nat) (b : Bytes) (t : Term) (e : c.St ((σ × Nat) × ZipCrypto.Keys) × UInt32),
            readToEnd (entryPipelineZc c ZipCrypto.decryptByte inner data.crc32) (c.init st, Crc32.init) reqs
              = some (b, t, e) →
            res = outOfLoop (b, t)) ∧
      (r = .invalidPassword →
        zcValidate ZipCrypto.decryptByte (take inner) (s, data.compressedSize.toNat)
          (ZipCrypto.derive pw) (zcCheck data) = .wrongPassword) := by
  obtain ⟨ds, d1, h1, hb1, hp1, hr⟩ := byIndexRead_zc_inv hfile henc haes h
  refine ⟨ds, ⟨d1, h1, hb1, hp1⟩, ?_⟩
  intro σ inner s hin
  have htake := take_denotes inner data.compressedSize.toNat hin
  rw [takeTerm_eof] at htake
  obtain ⟨hv1, hv2, _⟩ := zcValidate_denotes ZipCrypto.decryptByte (take inner) (ZipCrypto.derive pw)
    (zcCheck data) htake
  have hz : (cryptoExt P decode).zipCrypto = zipCryptoLayer := rfl
  rw [hz] at hr
  rcases zipCryptoLayer_cases pw (zcCheck data) ((d.buf.drop ds).take data.compressedSize.toNat) with
    ⟨_, hc⟩ | ⟨hl, hv, hc⟩ | ⟨hl, hv, hc⟩
  · rw [hc] at hr
    rcases hr with ⟨_, hh, _⟩ | ⟨hh, _⟩ <;> cases hh
  · rw [hc] at hr
    rcases hr with ⟨pt, hh, hres⟩ | ⟨hh, _⟩
    · obtain ⟨st, hval, hden⟩ := hv1 hl hv
      refine ⟨?_, fun hinv => by rw [hinv] at hres; cases hres⟩
      intro res hres'
      rw [hres'] at hres
      injection hres with hres
      injection hres with _ hres
      refine ⟨_, hval, _, hc, hden, ?_⟩
      intro c hcf reqs b t e hrun
      rw [hres]
      injection hh with hh
      injection hh with hh
      subst hh
      exact layer_eq_decode_crc (cryptoExt P decode) data.method c _ data.crc32 hcf _ _ hden reqs hrun
    · cases hh
  · rw [hc] at hr
    rcases hr with ⟨pt, hh, _⟩ | ⟨_, hinv⟩
    · cases hh
    · exact ⟨fun res hres => (by rw [hinv] at hres; cases hres), fun _ => hv2 hl hv⟩

/-! ### A concrete ZipCrypto archive for the non-vacuity example of C09 -/

/-- One Stored entry `a` = `[1,2,3,4,5]`, ZipCrypto-encrypted under the password "pw" - what the WRITER model
produces for `start_file("a", encrypt_with "pw"); write([1,2,3,4,5]); finish()` with the C15 cipher
(`Props/C09Writer`: `writer_produces_zcEntry`), 117 bytes. -/
def zcEntry : Bytes :=
  [80, 75, 3, 4, 20, 0, 1, 0, 0, 0, 0, 0, 33, 0, 244, 153, 11, 71, 17, 0, 0, 0, 5, 0, 0, 0, 1, 0, 0, 0, 97,
   227, 193, 173, 208, 144, 193, 200, 23, 194, 140, 243, 118, 132, 34, 6, 245, 41,
   80, 75, 1, 2, 46, 3, 20, 0, 1, 0, 0, 0, 0, 0, 33, 0, 244, 153, 11, 71, 17, 0, 0, 0, 5, 0, 0, 0, 1, 0, 0, 0,
   0, 0, 0, 0, 0, 0, 0, 0, 164, 129, 0, 0, 0, 0, 97,
   80, 75, 5, 6, 0, 0, 0, 0, 1, 0, 1, 0, 47, 0, 0, 0, 48, 0, 0, 0, 0, 0]

/-- `cryptoExt` for evaluation: Stored-only decoding, all-zero AES primitives (not used by ZipCrypto entries). -/
def evalCryptoExt : Ext :=
  cryptoExt ⟨fun _ _ n => List.replicate n 0, fun _ _ => List.replicate 16 0, fun _ _ => List.replicate 20 0⟩
    (fun _ raw => .ok raw)

/-- Open `bytes`, hand out ZipCrypto entry `i` with password `pw` (reader model, one-shot decryption), then
read it through the layer model: `validate` over `Take(scripted reader over the archive bytes from the data
start)`, then `Crc32Reader(ZipCryptoReaderValid(Take(..)))` call by call; report both results. -/
def zcReadBoth (bytes : Bytes) (i : Nat) (pw : Bytes) (script reqs : List Nat) :
    Option (Nat × Bytes × Option (Bytes × Term)) :=
  match openArchive.runPure (Dev.ofBytes bytes) with
  | (.ok a, d) =>
    match a.files[i]?, (byIndexRead evalCryptoExt a i (some pw)).runPure d with
    | some data, (.ok (.ok (ds, .ok content)), _) =>
      match zcValidate ZipCrypto.decryptByte (take scripted)
          ((⟨bytes.drop ds, script, script, none⟩ : Scripted), data.compressedSize.toNat)
          (ZipCrypto.derive pw) (zcCheck data) with
      | .valid st =>
        some (ds, content,
          (readToEnd (entryPipelineZc storedCodec ZipCrypto.decryptByte scripted data.crc32)
            (st, Crc32.init) reqs).map fun r => (r.1, r.2.1))
      | _ => none
    | _, _ => none
  | _ => none

end ZipVerif.Model
