import ZipVerif.Model.Align
import ZipVerif.Model.Writer
import ZipVerif.Model.Aes
import ZipVerif.Model.Records
/-
Bridges between pairs of hand-written models of the SAME Rust function.

* `validate_extra_data` (write.rs): `Model.Align.validateExtraData` (C17's theorems; fuel = length, out of
  fuel ⇒ `panic`) and `Model.validateExtraData` (Model/Writer.lean; fuel = length + 1, out of fuel ⇒ `ok`),
  the one `Tie.Records.tie_validate_extra_data` ties to the translated source.  They agree on every input
  (`validate_bridge`), so the tie reaches the C17 theorems.
* `parse_extra_field` (read.rs): `Model.Aes.parseExtraLoop` (C16's theorems: a cursor with a pending skip over
  the six fields the function touches) and `Model.parseExtraField` (Model/Records.lean, the whole record), the one
  `Tie.Parsers.tie_parse_extra_field` ties to the translated source.  `parseExtra_bridge`: run on the view of a
  record, the former returns the outcome and the view of the record the latter returns.
-/

namespace ZipVerif.Lemmas.ExtraBridge
open ZipVerif ZipVerif.Model

/-- An `Except` outcome as an `Out` outcome. -/
def ofExcept {α} : Except ZErr α → Out α
  | .ok a => .ok a
  | .error e => .err e

theorem reservedKind_eq (k : UInt16) :
    Align.reservedKind k = (decide (k ≤ 31) || validateExtraDataLoop.reservedExtraIds.contains k) := by
  unfold Align.reservedKind
  congr 1
  have e : Align.extraFieldMapping = validateExtraDataLoop.reservedExtraIds := rfl
  rw [e]
  induction validateExtraDataLoop.reservedExtraIds with
  | nil => rfl
  | cons x xs ih =>
    simp only [List.any_cons, List.contains_cons, ih]
    congr 1
    exact Bool.eq_iff_iff.mpr ⟨fun h => by rw [beq_iff_eq] at h ⊢; exact h.symm,
      fun h => by rw [beq_iff_eq] at h ⊢; exact h.symm⟩

theorem dropExact_eq (n : Nat) (l : Bytes) :
    Align.dropExact n l = if n > l.length then none else some (l.drop n) := by
  induction n generalizing l with
  | zero => cases l <;> simp [Align.dropExact]
  | succ n ih =>
    cases l with
    | nil => simp [Align.dropExact]
    | cons x t =>
      simp only [Align.dropExact, ih, List.length_cons, List.drop_succ_cons]
      by_cases h : n > t.length
      · rw [if_pos h, if_pos (by omega)]
      · rw [if_neg h, if_neg (by omega)]

/-- The two loops agree whenever the fuel of each is adequate (`data.length` resp. one more). -/
theorem validateLoop_bridge (fuel : Nat) (data : Bytes) (h : data.length ≤ fuel) :
    Align.validateLoop fuel data = ofExcept (validateExtraDataLoop (fuel + 1) data) := by
  induction fuel generalizing data with
  | zero =>
    have : data = [] := List.eq_nil_of_length_eq_zero (by omega)
    subst this
    rfl
  | succ fuel ih =>
    match data, h with
    | [], _ => rfl
    | [_], _ => rfl
    | [_, _], _ => rfl
    | [_, _, _], _ => rfl
    | a :: b :: c :: d :: rest, h =>
      rw [Align.validateLoop, validateExtraDataLoop]
      have hne : (a :: b :: c :: d :: rest).isEmpty = false := rfl
      have hl4 : ¬ ((a :: b :: c :: d :: rest).length < 4) := by simp only [List.length_cons]; omega
      simp only [hne, Bool.false_eq_true, if_false, if_neg hl4, rd16]
      by_cases hk : (mk16 a b == 0x0001) = true
      · simp only [hk, if_true]; rfl
      · simp only [hk, Bool.false_eq_true, if_false]
        rw [reservedKind_eq]
        by_cases hr : (decide (mk16 a b ≤ 31) || validateExtraDataLoop.reservedExtraIds.contains (mk16 a b)) = true
        · simp only [hr, if_true]; rfl
        · simp only [hr, Bool.false_eq_true, if_false]
          rw [dropExact_eq]
          by_cases hs : (mk16 c d).toNat > rest.length
          · simp only [hs, if_true]; rfl
          · simp only [hs, if_false]
            apply ih
            simp only [List.length_cons] at h
            simp only [List.length_drop]
            omega

/-- **The two models of `validate_extra_data` are the same function.** -/
theorem validate_bridge (f : FileData) :
    Align.validateExtraData f.largeFile f.extraField = ofExcept (validateExtraData f) := by
  unfold Align.validateExtraData validateExtraData Align.zip64Reserve
  by_cases h : f.extraField.length + (if f.largeFile = true then 20 else 0) > 65535
  · rw [if_pos h, if_pos h]; rfl
  · rw [if_neg h, if_neg h]
    exact validateLoop_bridge _ _ (Nat.le_refl _)

theorem validate_bridge_ok (f : FileData) :
    Align.validateExtraData f.largeFile f.extraField = .ok () ↔ validateExtraData f = .ok () := by
  rw [validate_bridge]
  cases validateExtraData f with
  | ok u => cases u; exact ⟨fun _ => rfl, fun _ => rfl⟩
  | error e =>
    constructor
    · intro h; cases h
    · intro h; cases h

/-! ### `parse_extra_field`: the C16 model against the reader model -/

set_option linter.unusedSimpArgs false

def methodView : Model.Method → Aes.Method
  | .stored => .stored | .deflated => .deflated | .bzip2 => .bzip2 | .aes => .aes | .zstd => .zstd
  | .unsupported v => .unsupported v

def modeView : Model.AesMode → Aes.AesMode
  | .aes128 => .aes128 | .aes192 => .aes192 | .aes256 => .aes256

def verView : Model.AesVendorVersion → Aes.VendorVersion
  | .ae1 => .ae1 | .ae2 => .ae2

/-- The part of the reader model's `FileData` that the C16 model's `ExtraSt` keeps. -/
def extraView (f : FileData) : Aes.ExtraSt :=
  { uncompressedSize := f.uncompressedSize, compressedSize := f.compressedSize, headerStart := f.headerStart,
    largeFile := f.largeFile, aesMode := f.aesMode.map (fun mv => (modeView mv.1, verView mv.2)),
    method := methodView f.method }

theorem methodView_fromU16 (v : UInt16) : methodView (Model.Method.fromU16 v) = Aes.Method.fromU16 v := by
  unfold Model.Method.fromU16 Aes.Method.fromU16
  by_cases h0 : v = 0
  · subst h0; rfl
  by_cases h8 : v = 8
  · subst h8; rfl
  by_cases h12 : v = 12
  · subst h12; rfl
  by_cases h93 : v = 93
  · subst h93; rfl
  by_cases h99 : v = 99
  · subst h99; rfl
  simp [h0, h8, h12, h93, h99, methodView]

theorem loop_skip : ∀ (s : Nat) (l : Bytes) (st : Aes.ExtraSt),
    Aes.parseExtraLoop s l st = Aes.parseExtraLoop 0 (l.drop s) st := by
  intro s
  induction s with
  | zero => intro l st; rfl
  | succ s ih =>
    intro l st
    cases l with
    | nil => simp [Aes.parseExtraLoop]
    | cons x t => simpa [Aes.parseExtraLoop] using ih t st

theorem rd64_some {l r : Bytes} {v : UInt64} (h : rd64 l = some (v, r)) : r = l.drop 8 := by
  unfold rd64 at h
  split at h
  · injection h with h; injection h with _ h; subst h; rfl
  · cases h


/-- The 0x0001 arm of `Model.parseExtraField` with the recursive call replaced by its arguments
(a syntactic copy: `records_zip64`). -/
def zip64Chain (len : UInt16) (r2 : Bytes) (f : FileData) : (FileData × ZErr) ⊕ (FileData × Bytes) :=
  match takeU64If (f.uncompressedSize == Model.ZIP64_BYTES_THR) r2 with
  | none => .inl ({ f with largeFile := true }, .io .unexpectedEof)
  | some (u, r3) =>
    let f1 := match u with
      | some v => { f with largeFile := true, uncompressedSize := v }
      | none => f
    match takeU64If (f1.compressedSize == Model.ZIP64_BYTES_THR) r3 with
    | none => .inl ({ f1 with largeFile := true }, .io .unexpectedEof)
    | some (c, r4) =>
      let f2 := match c with
        | some v => { f1 with largeFile := true, compressedSize := v }
        | none => f1
      match takeU64If (f2.headerStart == Model.ZIP64_BYTES_THR) r4 with
      | none => .inl (f2, .io .unexpectedEof)
      | some (h, r5) =>
        let f3 := match h with
          | some v => { f2 with headerStart := v }
          | none => f2
        let used := (if u.isSome then 8 else 0) + (if c.isSome then 8 else 0) +
          (if h.isSome then 8 else 0)
        let lenLeft : Int := (len.toNat : Int) - used
        .inr (f3, if lenLeft > 0 then r5.drop lenLeft.toNat else r5)

theorem records_zip64 (fuel : Nat) (f : FileData) (a b c d : UInt8) (rest : Bytes) (hk : mk16 a b = 0x0001) :
    parseExtraField (fuel + 1) f (a :: b :: c :: d :: rest) =
      match zip64Chain (mk16 c d) rest f with
      | .inl (g, e) => (g, some e)
      | .inr (g, r) => parseExtraField fuel g r := by
  rw [parseExtraField]
  simp only [List.isEmpty_cons, Bool.false_eq_true, if_false, rd16, hk, beq_self_eq_true, if_true]
  unfold zip64Chain
  cases takeU64If (f.uncompressedSize == Model.ZIP64_BYTES_THR) rest with
  | none => rfl
  | some x1 =>
    obtain ⟨u, r3⟩ := x1
    dsimp only
    cases takeU64If ((match u with
      | some v => { f with largeFile := true, uncompressedSize := v }
      | none => f).compressedSize == Model.ZIP64_BYTES_THR) r3 with
    | none => rfl
    | some x2 =>
      obtain ⟨c', r4⟩ := x2
      dsimp only
      cases takeU64If ((match c' with
        | some v => { (match u with
            | some v => { f with largeFile := true, uncompressedSize := v }
            | none => f) with largeFile := true, compressedSize := v }
        | none => (match u with
            | some v => { f with largeFile := true, uncompressedSize := v }
            | none => f)).headerStart == Model.ZIP64_BYTES_THR) r4 with
      | none => rfl
      | some x3 =>
        obtain ⟨h, r5⟩ := x3
        rfl


theorem thr_eq : Aes.ZIP64_BYTES_THR = Model.ZIP64_BYTES_THR := rfl

theorem drop8_drop {l r : Bytes} {v : UInt64} (h : rd64 l = some (v, r)) (n : Nat) :
    l.drop (8 + n) = r.drop n := by
  rw [rd64_some h, List.drop_drop]

theorem drop_tail (rest rk : Bytes) (used len : Nat) (hrk : rk = rest.drop used) :
    rest.drop (used + (len - used)) =
      if ((len : Int) - (used : Int)) > 0 then rk.drop ((len : Int) - (used : Int)).toNat else rk := by
  subst hrk
  by_cases h : len > used
  · have h1 : ((len : Int) - (used : Int)) > 0 := by omega
    have h2 : ((len : Int) - (used : Int)).toNat = len - used := by omega
    rw [if_pos h1, h2, List.drop_drop]
  · have h1 : ¬ ((len : Int) - (used : Int)) > 0 := by omega
    have h2 : len - used = 0 := by omega
    rw [if_neg h1, h2, Nat.add_zero]

/-- The 0x0001 arm of the C16 model against the same arm of the reader model. -/
theorem aes_zip64 (len : UInt16) (rest : Bytes) (f : FileData) :
    match zip64Chain len rest f with
    | .inl (g, e) => Aes.zip64Rec len rest (extraView f) = (.err e, extraView g)
    | .inr (g, r') => ∃ skip, Aes.zip64Rec len rest (extraView f) = (.ok skip, extraView g) ∧
        rest.drop skip = r' := by
  unfold zip64Chain Aes.zip64Rec takeU64If
  simp only [thr_eq, extraView]
  by_cases hu : f.uncompressedSize = Model.ZIP64_BYTES_THR
  · simp only [hu, beq_self_eq_true, if_true]
    cases h1 : rd64 rest with
    | none => first | (simp; done) | (simp; exact hu.symm)
    | some x1 =>
      obtain ⟨v1, r1⟩ := x1
      simp only []
      by_cases hc : f.compressedSize = Model.ZIP64_BYTES_THR
      · simp only [hc, beq_self_eq_true, if_true]
        cases h2 : rd64 r1 with
        | none => first | (simp; done) | (simp; exact hc.symm)
        | some x2 =>
          obtain ⟨v2, r2⟩ := x2
          simp only []
          by_cases hh : f.headerStart = Model.ZIP64_BYTES_THR
          · simp only [hh, beq_self_eq_true, if_true]
            cases h3 : rd64 r2 with
            | none => first | (simp; done) | (simp; exact hh.symm)
            | some x3 =>
              obtain ⟨v3, r3⟩ := x3
              simp only []
              refine ⟨_, rfl, ?_⟩
              have hr : r3 = rest.drop 24 := by rw [rd64_some h3, rd64_some h2, rd64_some h1, List.drop_drop, List.drop_drop]
              have ht := drop_tail rest r3 24 len.toNat hr
              simpa using ht
          · have hh' : (f.headerStart == Model.ZIP64_BYTES_THR) = false := beq_false_of_ne hh
            simp only [hh, hh', Bool.false_eq_true, if_false]
            refine ⟨_, rfl, ?_⟩
            have hr : r2 = rest.drop 16 := by rw [rd64_some h2, rd64_some h1, List.drop_drop]
            have ht := drop_tail rest r2 16 len.toNat hr
            simpa using ht
      · have hc' : (f.compressedSize == Model.ZIP64_BYTES_THR) = false := beq_false_of_ne hc
        simp only [hc, hc', Bool.false_eq_true, if_false]
        by_cases hh : f.headerStart = Model.ZIP64_BYTES_THR
        · simp only [hh, beq_self_eq_true, if_true]
          cases h3 : rd64 r1 with
          | none => first | (simp; done) | (simp; exact hh.symm)
          | some x3 =>
            obtain ⟨v3, r3⟩ := x3
            simp only []
            refine ⟨_, rfl, ?_⟩
            have hr : r3 = rest.drop 16 := by rw [rd64_some h3, rd64_some h1, List.drop_drop]
            have ht := drop_tail rest r3 16 len.toNat hr
            simpa using ht
        · have hh' : (f.headerStart == Model.ZIP64_BYTES_THR) = false := beq_false_of_ne hh
          simp only [hh, hh', Bool.false_eq_true, if_false]
          refine ⟨_, rfl, ?_⟩
          have hr : r1 = rest.drop 8 := by rw [rd64_some h1]
          have ht := drop_tail rest r1 8 len.toNat hr
          simpa using ht
  · have hu' : (f.uncompressedSize == Model.ZIP64_BYTES_THR) = false := beq_false_of_ne hu
    simp only [hu, hu', Bool.false_eq_true, if_false]
    by_cases hc : f.compressedSize = Model.ZIP64_BYTES_THR
    · simp only [hc, beq_self_eq_true, if_true]
      cases h2 : rd64 rest with
      | none => first | (simp; done) | (simp; exact hc.symm)
      | some x2 =>
        obtain ⟨v2, r2⟩ := x2
        simp only []
        by_cases hh : f.headerStart = Model.ZIP64_BYTES_THR
        · simp only [hh, beq_self_eq_true, if_true]
          cases h3 : rd64 r2 with
          | none => first | (simp; done) | (simp; exact hh.symm)
          | some x3 =>
            obtain ⟨v3, r3⟩ := x3
            simp only []
            refine ⟨_, rfl, ?_⟩
            have hr : r3 = rest.drop 16 := by rw [rd64_some h3, rd64_some h2, List.drop_drop]
            have ht := drop_tail rest r3 16 len.toNat hr
            simpa using ht
        · have hh' : (f.headerStart == Model.ZIP64_BYTES_THR) = false := beq_false_of_ne hh
          simp only [hh, hh', Bool.false_eq_true, if_false]
          refine ⟨_, rfl, ?_⟩
          have hr : r2 = rest.drop 8 := by rw [rd64_some h2]
          have ht := drop_tail rest r2 8 len.toNat hr
          simpa using ht
    · have hc' : (f.compressedSize == Model.ZIP64_BYTES_THR) = false := beq_false_of_ne hc
      simp only [hc, hc', Bool.false_eq_true, if_false]
      by_cases hh : f.headerStart = Model.ZIP64_BYTES_THR
      · simp only [hh, beq_self_eq_true, if_true]
        cases h3 : rd64 rest with
        | none => first | (simp; done) | (simp; exact hh.symm)
        | some x3 =>
          obtain ⟨v3, r3⟩ := x3
          simp only []
          refine ⟨_, rfl, ?_⟩
          have hr : r3 = rest.drop 8 := by rw [rd64_some h3]
          have ht := drop_tail rest r3 8 len.toNat hr
          simpa using ht
      · have hh' : (f.headerStart == Model.ZIP64_BYTES_THR) = false := beq_false_of_ne hh
        simp only [hh, hh', Bool.false_eq_true, if_false]
        refine ⟨_, rfl, ?_⟩
        have hr : rest = rest.drop 0 := rfl
        have ht := drop_tail rest rest 0 len.toNat hr
        simpa using ht


def outOf : Option ZErr → Out Unit
  | none => .ok ()
  | some e => .err e

theorem zip64Chain_len {len : UInt16} {rest : Bytes} {f g : FileData} {r' : Bytes}
    (h : zip64Chain len rest f = .inr (g, r')) : r'.length ≤ rest.length := by
  have := aes_zip64 len rest f
  rw [h] at this
  obtain ⟨skip, _, hd⟩ := this
  rw [← hd, List.length_drop]
  omega

theorem aes_ok_step {fuel : Nat}
    (ih : ∀ (f : FileData) (extra : Bytes), extra.length < fuel →
      Aes.parseExtraLoop 0 extra (extraView f) =
        (outOf (parseExtraField fuel f extra).2, extraView (parseExtraField fuel f extra).1))
    (f : FileData) (am : Model.AesMode) (vv : Model.AesVendorVersion) (cm : UInt16)
    (v0 v1 i0 i1 m c0 c1 : UInt8) (t : Bytes) (hl : t.length < fuel) :
    Aes.parseExtraLoop 7 (v0 :: v1 :: i0 :: i1 :: m :: c0 :: c1 :: t)
        { uncompressedSize := (extraView f).uncompressedSize, compressedSize := (extraView f).compressedSize,
          headerStart := (extraView f).headerStart, largeFile := (extraView f).largeFile,
          aesMode := some (modeView am, verView vv), method := Aes.Method.fromU16 cm } =
      (outOf (parseExtraField fuel { f with method := Model.Method.fromU16 cm, aesMode := some (am, vv) } t).2,
       extraView (parseExtraField fuel { f with method := Model.Method.fromU16 cm, aesMode := some (am, vv) } t).1) := by
  rw [loop_skip]
  have hd : List.drop 7 (v0 :: v1 :: i0 :: i1 :: m :: c0 :: c1 :: t) = t := rfl
  rw [hd, ← methodView_fromU16]
  exact ih { f with method := Model.Method.fromU16 cm, aesMode := some (am, vv) } t hl

/-- **The two models of `parse_extra_field` agree**: the C16 model (`Model.Aes.parseExtraLoop`, a cursor
with a pending skip) run on the view of a record returns the outcome and the view of the record that the
reader model (`Model.parseExtraField`, the one tied to the source by `Tie.Parsers.tie_parse_extra_field`)
returns, for every record, every extra field and every adequate fuel. -/
theorem parseExtra_bridge : ∀ (fuel : Nat) (f : FileData) (extra : Bytes), extra.length < fuel →
    Aes.parseExtraLoop 0 extra (extraView f) =
      (outOf (parseExtraField fuel f extra).2, extraView (parseExtraField fuel f extra).1) := by
  intro fuel
  induction fuel with
  | zero => intro f extra h; omega
  | succ fuel ih =>
    intro f extra hlen
    match extra, hlen with
    | [], _ => simp [Aes.parseExtraLoop, parseExtraField, outOf]
    | [_], _ => simp [Aes.parseExtraLoop, parseExtraField, rd16, outOf]
    | [_, _], _ => simp [Aes.parseExtraLoop, parseExtraField, rd16, outOf]
    | [_, _, _], _ => simp [Aes.parseExtraLoop, parseExtraField, rd16, outOf]
    | a :: b :: c :: d :: rest, hlen =>
      have hrest : rest.length < fuel := by simp only [List.length_cons] at hlen; omega
      rw [Aes.parseExtraLoop]
      by_cases hk1 : mk16 a b = 0x0001
      · rw [records_zip64 fuel f a b c d rest hk1]
        simp only [hk1, if_true]
        have hz := aes_zip64 (mk16 c d) rest f
        cases hzc : zip64Chain (mk16 c d) rest f with
        | inl ge =>
          obtain ⟨g, e⟩ := ge
          rw [hzc] at hz
          simp only [] at hz ⊢
          rw [hz]
          rfl
        | inr gr =>
          obtain ⟨g, r'⟩ := gr
          have hl := zip64Chain_len hzc
          rw [hzc] at hz
          simp only [] at hz ⊢
          obtain ⟨skip, hs, hd⟩ := hz
          rw [hs]
          simp only []
          rw [loop_skip, hd]
          exact ih g r' (by omega)
      · have hk1' : (mk16 a b == 0x0001) = false := beq_false_of_ne hk1
        rw [parseExtraField]
        simp only [List.isEmpty_cons, Bool.false_eq_true, if_false, rd16, hk1, hk1']
        by_cases hk2 : mk16 a b = 0x9901
        · simp only [hk2, beq_self_eq_true, if_true]
          by_cases h7 : mk16 c d = 7
          · have h7' : (mk16 c d != 7) = false := by rw [h7]; rfl
            simp only [h7', Bool.false_eq_true, if_false]
            rcases rest with _ | ⟨v0, _ | ⟨v1, _ | ⟨i0, _ | ⟨i1, _ | ⟨m, _ | ⟨c0, _ | ⟨c1, t⟩⟩⟩⟩⟩⟩⟩
            · simp [Aes.aesRec, h7, outOf]
            · simp [Aes.aesRec, h7, outOf]
            · simp [Aes.aesRec, h7, outOf]
            · simp [Aes.aesRec, h7, outOf]
            · simp [Aes.aesRec, h7, outOf]
            · simp [Aes.aesRec, h7, outOf]
            · simp [Aes.aesRec, h7, outOf]
            · simp only [Aes.aesRec, h7, ne_eq, not_true_eq_false, if_false]
              by_cases hid : mk16 i0 i1 = 0x4541
              · have hid' : (mk16 i0 i1 != 0x4541) = false := by rw [hid]; rfl
                simp only [hid, hid', not_true_eq_false, Bool.false_eq_true, if_false]
                by_cases hv1 : mk16 v0 v1 = 1
                · simp only [hv1, beq_self_eq_true, if_true]
                  have ht : t.length < fuel := by simp only [List.length_cons] at hrest; omega
                  by_cases hm1 : m = 1
                  · simp only [hm1, beq_self_eq_true, if_true, not_true_eq_false, false_and]
                    exact aes_ok_step ih f .aes128 .ae1 _ _ _ _ _ _ _ _ t ht
                  · have hm1' : (m == 1) = false := beq_false_of_ne hm1
                    by_cases hm2 : m = 2
                    · simp only [hm1, hm1', hm2, beq_self_eq_true, if_true, Bool.false_eq_true, if_false, not_true_eq_false, false_and]
                      exact aes_ok_step ih f .aes192 .ae1 _ _ _ _ _ _ _ _ t ht
                    · have hm2' : (m == 2) = false := beq_false_of_ne hm2
                      by_cases hm3 : m = 3
                      · simp only [hm1, hm1', hm2, hm2', hm3, beq_self_eq_true, if_true, Bool.false_eq_true, if_false, not_true_eq_false, false_and]
                        exact aes_ok_step ih f .aes256 .ae1 _ _ _ _ _ _ _ _ t ht
                      · have hm3' : (m == 3) = false := beq_false_of_ne hm3
                        simp [hm1, hm1', hm2, hm2', hm3, hm3', outOf]
                · have hv1' : (mk16 v0 v1 == 1) = false := beq_false_of_ne hv1
                  by_cases hv2 : mk16 v0 v1 = 2
                  · simp only [hv1', hv2, beq_self_eq_true, if_true, Bool.false_eq_true, if_false]
                    have ht : t.length < fuel := by simp only [List.length_cons] at hrest; omega
                    by_cases hm1 : m = 1
                    · simp only [hm1, beq_self_eq_true, if_true, not_true_eq_false, and_false]
                      exact aes_ok_step ih f .aes128 .ae2 _ _ _ _ _ _ _ _ t ht
                    · have hm1' : (m == 1) = false := beq_false_of_ne hm1
                      by_cases hm2 : m = 2
                      · simp only [hm1, hm1', hm2, beq_self_eq_true, if_true, Bool.false_eq_true, if_false, not_true_eq_false, and_false]
                        exact aes_ok_step ih f .aes192 .ae2 _ _ _ _ _ _ _ _ t ht
                      · have hm2' : (m == 2) = false := beq_false_of_ne hm2
                        by_cases hm3 : m = 3
                        · simp only [hm1, hm1', hm2, hm2', hm3, beq_self_eq_true, if_true, Bool.false_eq_true, if_false, not_true_eq_false, and_false]
                          exact aes_ok_step ih f .aes256 .ae2 _ _ _ _ _ _ _ _ t ht
                        · have hm3' : (m == 3) = false := beq_false_of_ne hm3
                          simp [hm1, hm1', hm2, hm2', hm3, hm3', outOf]
                  · have hv2' : (mk16 v0 v1 == 2) = false := beq_false_of_ne hv2
                    simp [hv1, hv1', hv2, hv2', outOf]
              · have hid' : (mk16 i0 i1 != 0x4541) = true := bne_iff_ne.mpr hid
                simp [hid, hid', outOf]
          · have h7' : (mk16 c d != 7) = true := bne_iff_ne.mpr h7
            simp [Aes.aesRec, h7, h7', outOf]
        · have hk2' : (mk16 a b == 0x9901) = false := beq_false_of_ne hk2
          simp only [hk2, hk2', Bool.false_eq_true, if_false]
          rw [loop_skip]
          exact ih f _ (by rw [List.length_drop]; omega)


theorem methodView_aes_iff (m : Model.Method) : methodView m = Aes.Method.aes ↔ m = Model.Method.aes := by
  cases m <;> simp [methodView]

/-- The tail of `central_header_to_zip_file` in the reader model (`Model.centralHeaderInner`): I/O errors of
the extra-field parser are swallowed, other errors returned, method 99 needs the AES record — as an outcome
over the view. -/
def readerTail (f : FileData) (extra : Bytes) : Out Aes.ExtraSt :=
  let fin (g : FileData) : Out Aes.ExtraSt :=
    if g.method == Model.Method.aes && g.aesMode.isNone then .err .invalidArchive else .ok (extraView g)
  match parseExtraField (extra.length + 1) f extra with
  | (g, none) => fin g
  | (g, some (.io _)) => fin g
  | (_, some e) => .err e

/-- **`Model.Aes.parseEntryExtra` is the reader model's tail of `central_header_to_zip_file`.** -/
theorem parseEntryExtra_bridge (f : FileData) (extra : Bytes) :
    Aes.parseEntryExtra (extraView f) extra = readerTail f extra := by
  unfold Aes.parseEntryExtra readerTail
  rw [parseExtra_bridge (extra.length + 1) f extra (Nat.lt_succ_self _)]
  have hfin : ∀ g : FileData,
      (if (extraView g).method = Aes.Method.aes ∧ (extraView g).aesMode.isNone = true then
          (Out.err ZErr.invalidArchive : Out Aes.ExtraSt) else .ok (extraView g)) =
      (if (g.method == Model.Method.aes && g.aesMode.isNone) = true then .err .invalidArchive
        else .ok (extraView g)) := by
    intro g
    have h1 : (extraView g).method = Aes.Method.aes ↔ g.method = Model.Method.aes := methodView_aes_iff g.method
    have h2 : (extraView g).aesMode.isNone = g.aesMode.isNone := by
      simp only [extraView]; cases g.aesMode <;> rfl
    by_cases hm : g.method = Model.Method.aes
    · have hm' : (g.method == Model.Method.aes) = true := by rw [hm]; rfl
      rw [h2]
      simp only [h1.mpr hm, hm', true_and, Bool.true_and]
    · have hm' : (g.method == Model.Method.aes) = false := beq_false_of_ne hm
      have : ¬ (extraView g).method = Aes.Method.aes := fun h => hm (h1.mp h)
      simp only [this, hm', false_and, Bool.false_and, Bool.false_eq_true, if_false]
  generalize parseExtraField (extra.length + 1) f extra = r
  obtain ⟨g, oe⟩ := r
  cases oe with
  | none => exact hfin g
  | some e =>
    cases e with
    | io k => exact hfin g
    | _ => rfl

end ZipVerif.Lemmas.ExtraBridge
