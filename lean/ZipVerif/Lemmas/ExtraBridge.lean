import ZipVerif.Model.Align
import ZipVerif.Model.Writer
/-
Bridges between pairs of hand-written models of the SAME Rust function.

* `validate_extra_data` (write.rs): `Model.Align.validateExtraData` (C17's theorems; fuel = length, out of
  fuel ⇒ `panic`) and `Model.validateExtraData` (Model/Writer.lean; fuel = length + 1, out of fuel ⇒ `ok`),
  the one `Tie.Records.tie_validate_extra_data` ties to the translated source.  They agree on every input
  (`validate_bridge`), so the tie reaches the C17 theorems.
-/

namespace ZipVerif.Lemmas.ExtraBridge
open ZipVerif ZipVerif.Model

/-- An `Except` outcome as an `Out` outcome. -/
def ofExcept {α} : Except ZErr α → Out α
  | .ok a => .ok a
  | .error e => .err e

theorem reservedKind_eq (k : UInt16) :
    Align.reservedKind k = (decide (k ≤ 31) || validateExtraDataLoop.reservedExtraIds.contains k) := by
  unfold Align.reservedKind
  congr 1
  have e : Align.extraFieldMapping = validateExtraDataLoop.reservedExtraIds := rfl
  rw [e]
  induction validateExtraDataLoop.reservedExtraIds with
  | nil => rfl
  | cons x xs ih =>
    simp only [List.any_cons, List.contains_cons, ih]
    congr 1
    exact Bool.eq_iff_iff.mpr ⟨fun h => by rw [beq_iff_eq] at h ⊢; exact h.symm,
      fun h => by rw [beq_iff_eq] at h ⊢; exact h.symm⟩

theorem dropExact_eq (n : Nat) (l : Bytes) :
    Align.dropExact n l = if n > l.length then none else some (l.drop n) := by
  induction n generalizing l with
  | zero => cases l <;> simp [Align.dropExact]
  | succ n ih =>
    cases l with
    | nil => simp [Align.dropExact]
    | cons x t =>
      simp only [Align.dropExact, ih, List.length_cons, List.drop_succ_cons]
      by_cases h : n > t.length
      · rw [if_pos h, if_pos (by omega)]
      · rw [if_neg h, if_neg (by omega)]

/-- The two loops agree whenever the fuel of each is adequate (`data.length` resp. one more). -/
theorem validateLoop_bridge (fuel : Nat) (data : Bytes) (h : data.length ≤ fuel) :
    Align.validateLoop fuel data = ofExcept (validateExtraDataLoop (fuel + 1) data) := by
  induction fuel generalizing data with
  | zero =>
    have : data = [] := List.eq_nil_of_length_eq_zero (by omega)
    subst this
    rfl
  | succ fuel ih =>
    match data, h with
    | [], _ => rfl
    | [_], _ => rfl
    | [_, _], _ => rfl
    | [_, _, _], _ => rfl
    | a :: b :: c :: d :: rest, h =>
      rw [Align.validateLoop, validateExtraDataLoop]
      have hne : (a :: b :: c :: d :: rest).isEmpty = false := rfl
      have hl4 : ¬ ((a :: b :: c :: d :: rest).length < 4) := by simp only [List.length_cons]; omega
      simp only [hne, Bool.false_eq_true, if_false, if_neg hl4, rd16]
      by_cases hk : (mk16 a b == 0x0001) = true
      · simp only [hk, if_true]; rfl
      · simp only [hk, Bool.false_eq_true, if_false]
        rw [reservedKind_eq]
        by_cases hr : (decide (mk16 a b ≤ 31) || validateExtraDataLoop.reservedExtraIds.contains (mk16 a b)) = true
        · simp only [hr, if_true]; rfl
        · simp only [hr, Bool.false_eq_true, if_false]
          rw [dropExact_eq]
          by_cases hs : (mk16 c d).toNat > rest.length
          · simp only [hs, if_true]; rfl
          · simp only [hs, if_false]
            apply ih
            simp only [List.length_cons] at h
            simp only [List.length_drop]
            omega

/-- **The two models of `validate_extra_data` are the same function.** -/
theorem validate_bridge (f : FileData) :
    Align.validateExtraData f.largeFile f.extraField = ofExcept (validateExtraData f) := by
  unfold Align.validateExtraData validateExtraData Align.zip64Reserve
  by_cases h : f.extraField.length + (if f.largeFile = true then 20 else 0) > 65535
  · rw [if_pos h, if_pos h]; rfl
  · rw [if_neg h, if_neg h]
    exact validateLoop_bridge _ _ (Nat.le_refl _)

theorem validate_bridge_ok (f : FileData) :
    Align.validateExtraData f.largeFile f.extraField = .ok () ↔ validateExtraData f = .ok () := by
  rw [validate_bridge]
  cases validateExtraData f with
  | ok u => cases u; exact ⟨fun _ => rfl, fun _ => rfl⟩
  | error e =>
    constructor
    · intro h; cases h
    · intro h; cases h

end ZipVerif.Lemmas.ExtraBridge
