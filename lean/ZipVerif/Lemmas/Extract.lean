import ZipVerif.Model.Extract
import ZipVerif.Lemmas.FS
/-
Confinement of the two extractor models: whatever the entries are and wherever a run stops, the final
state arises from the initial one by `Steps root` (bindings inside `root`, or creation of missing
ancestors of `root`); and an unsafe name makes the run fail.
-/

namespace ZipVerif.Model.Extract
open ZipVerif ZipVerif.Spec.Paths ZipVerif.Spec.FS ZipVerif.Spec.Tree ZipVerif.Model.Paths

theorem walk_filter_curDir (cs : List Comp) (d : Nat) :
    walk (cs.filter (· != Comp.curDir)) d = walk cs d := by
  induction cs generalizing d with
  | nil => rfl
  | cons x cs ih =>
    cases x with
    | curDir => simpa [walk] using ih d
    | rootDir => simp [walk]
    | parentDir =>
      have : (Comp.parentDir != Comp.curDir) = true := by decide
      simp only [List.filter_cons, this, if_true, walk, ih]
    | normal s =>
      have : (Comp.normal s != Comp.curDir) = true := by simp
      simp only [List.filter_cons, this, if_true, walk, ih]

/-- A name accepted by `enclosed_name`: the depth walk accepts its components inside `root/<name>`. -/
theorem safe_of_enclosed {n p : Name} (h : enclosedName n = some p) :
    (walk (relComps n).reverse.reverse 0).isSome := by
  rw [List.reverse_reverse]
  unfold relComps
  rw [walk_filter_curDir]
  unfold enclosedName at h
  split at h
  · cases h
  · split at h
    · next hw => rw [hw]; rfl
    · cases h

theorem liftFs_fst (r : FS × Option FsErr) : (liftFs r).1 = r.1 := by
  obtain ⟨fs, e⟩ := r
  cases e <;> rfl

theorem placeEntry_steps (c : Cfg) (chk : Bool) (root : Path) (e : EntryView) (fs : FS)
    (hs : (walk (relComps e.name).reverse.reverse 0).isSome) :
    Steps root fs (placeEntry c chk root e fs).1 := by
  have hall : LexAll root (joinedR root e.name) := lexAll_joined root _ hs
  have hin : root <+: resolve (dotted (joinedR root e.name) (tailDot e.name)).reverse := by
    rw [resolve_dotted]; exact inside_joined root _ hs
  unfold placeEntry
  simp only
  split
  · rw [liftFs_fst]; exact createDirAll_steps _ _ _ hall
  · have h1 : Steps root fs (ensureParent c chk (joinedR root e.name) fs).1 := by
      unfold ensureParent
      split
      · exact Steps.refl fs
      · next x up hj =>
        split
        · exact Steps.refl fs
        · rw [hj] at hall; exact createDirAll_steps _ _ _ hall.2
    split
    · next fs1 er he => rw [he] at h1; exact h1
    · next fs1 he =>
      rw [he] at h1
      split
      · exact h1
      · next fs2 tgt hcf =>
        obtain ⟨h2, h3⟩ := createFile_steps hin hcf
        split <;> exact (h1.trans h2).trans (writeAt_steps _ _ h3)

theorem applyMode_steps (c : Cfg) (root : Path) (n : Name) (mode : Option Nat) (fs : FS)
    (hs : (walk (relComps n).reverse.reverse 0).isSome) :
    Steps root fs (applyMode c root n mode fs).1 := by
  have hin : root <+: resolve (dotted (joinedR root n) (tailDot n)).reverse := by
    rw [resolve_dotted]; exact inside_joined root _ hs
  unfold applyMode
  split
  · exact Steps.refl fs
  · split
    · next fs' h => exact setPermissions_steps hin h
    · exact Steps.refl fs

theorem seekEntry_steps (c : Cfg) (root : Path) (e : EntryView) (fs : FS) :
    Steps root fs (seekEntry c root e fs).1 := by
  unfold seekEntry
  split
  · exact Steps.refl fs
  · split
    · exact Steps.refl fs
    · next p hp =>
      have hs := safe_of_enclosed hp
      have h1 := placeEntry_steps c true root e fs hs
      split
      · next fs1 er he => rw [he] at h1; exact h1
      · next fs1 he => rw [he] at h1; exact h1.trans (applyMode_steps c root e.name e.mode fs1 hs)

theorem extractSeek_steps (c : Cfg) (root : Path) (es : List EntryView) (fs : FS) :
    Steps root fs (extractSeek c root es fs).1 := by
  induction es generalizing fs with
  | nil => exact Steps.refl fs
  | cons e es ih =>
    simp only [extractSeek]
    have h1 := seekEntry_steps c root e fs
    split
    · next fs1 er he => rw [he] at h1; exact h1
    · next fs1 he => rw [he] at h1; exact h1.trans (ih fs1)

theorem streamFile_steps (c : Cfg) (root : Path) (e : EntryView) (fs : FS) :
    Steps root fs (streamFile c root e fs).1 := by
  unfold streamFile
  split
  · exact Steps.refl fs
  · split
    · exact Steps.refl fs
    · next p hp => exact placeEntry_steps c false root e fs (safe_of_enclosed hp)

theorem streamFiles_steps (c : Cfg) (root : Path) (es : List EntryView) (fs : FS) :
    Steps root fs (streamFiles c root es fs).1 := by
  induction es generalizing fs with
  | nil => exact Steps.refl fs
  | cons e es ih =>
    simp only [streamFiles]
    have h1 := streamFile_steps c root e fs
    split
    · next fs1 er he => rw [he] at h1; exact h1
    · next fs1 he => rw [he] at h1; exact h1.trans (ih fs1)

theorem streamMeta_steps (c : Cfg) (root : Path) (m : Name × Option Nat) (fs : FS) :
    Steps root fs (streamMeta c root m fs).1 := by
  unfold streamMeta
  split
  · exact Steps.refl fs
  · next p hp => exact applyMode_steps c root m.1 m.2 fs (safe_of_enclosed hp)

theorem streamMetas_steps (c : Cfg) (root : Path) (ms : List (Name × Option Nat)) (fs : FS) :
    Steps root fs (streamMetas c root ms fs).1 := by
  induction ms generalizing fs with
  | nil => exact Steps.refl fs
  | cons m ms ih =>
    simp only [streamMetas]
    have h1 := streamMeta_steps c root m fs
    split
    · next fs1 er he => rw [he] at h1; exact h1
    · next fs1 he => rw [he] at h1; exact h1.trans (ih fs1)

theorem extractStream_steps (c : Cfg) (root : Path) (files : List EntryView)
    (metas : List (Name × Option Nat)) (fs : FS) :
    Steps root fs (extractStream c root files metas fs).1 := by
  unfold extractStream
  have h1 := streamFiles_steps c root files fs
  split
  · next fs1 er he => rw [he] at h1; exact h1
  · next fs1 he =>
    rw [he] at h1
    split
    · exact h1
    · exact h1.trans (streamMetas_steps c root metas fs1)

/-! ### unsafe names -/

theorem extractSeek_unsafe (c : Cfg) (root : Path) (es : List EntryView) (fs : FS)
    (h : ∃ e ∈ es, enclosedName e.name = none) : (extractSeek c root es fs).2.isSome = true := by
  induction es generalizing fs with
  | nil => obtain ⟨e, he, _⟩ := h; cases he
  | cons e es ih =>
    simp only [extractSeek]
    split
    · rfl
    · next fs1 he =>
      apply ih
      obtain ⟨e', hm, hn⟩ := h
      rcases List.mem_cons.mp hm with rfl | hm
      · exfalso
        unfold seekEntry at he
        split at he
        · cases he
        · rw [hn] at he; cases he
      · exact ⟨e', hm, hn⟩

/-- The first unsafe entry that is reached: the run stops there with `InvalidArchive("Invalid file
path")`, having done nothing for that entry or any later one. -/
theorem extractSeek_unsafe_at (c : Cfg) (root : Path) (pre post : List EntryView) (e : EntryView)
    (fs fs1 : FS) (hpre : extractSeek c root pre fs = (fs1, none)) (ho : e.openErr = none)
    (hn : enclosedName e.name = none) :
    extractSeek c root (pre ++ e :: post) fs = (fs1, some .invalidPath) := by
  induction pre generalizing fs with
  | nil =>
    simp only [extractSeek, Prod.mk.injEq] at hpre
    obtain ⟨rfl, _⟩ := hpre
    simp [extractSeek, seekEntry, ho, hn]
  | cons a pre ih =>
    simp only [extractSeek, List.cons_append] at hpre ⊢
    split at hpre
    · cases hpre
    · next fs2 he => exact ih fs2 hpre

theorem streamFiles_unsafe (c : Cfg) (root : Path) (es : List EntryView) (fs : FS)
    (h : ∃ e ∈ es, enclosedName e.name = none) : (streamFiles c root es fs).2.isSome = true := by
  induction es generalizing fs with
  | nil => obtain ⟨e, he, _⟩ := h; cases he
  | cons e es ih =>
    simp only [streamFiles]
    split
    · rfl
    · next fs1 he =>
      apply ih
      obtain ⟨e', hm, hn⟩ := h
      rcases List.mem_cons.mp hm with rfl | hm
      · exfalso
        unfold streamFile at he
        split at he
        · cases he
        · rw [hn] at he; cases he
      · exact ⟨e', hm, hn⟩

theorem streamMetas_unsafe (c : Cfg) (root : Path) (ms : List (Name × Option Nat)) (fs : FS)
    (h : ∃ m ∈ ms, enclosedName m.1 = none) : (streamMetas c root ms fs).2.isSome = true := by
  induction ms generalizing fs with
  | nil => obtain ⟨e, he, _⟩ := h; cases he
  | cons m ms ih =>
    simp only [streamMetas]
    split
    · rfl
    · next fs1 he =>
      apply ih
      obtain ⟨m', hm, hn⟩ := h
      rcases List.mem_cons.mp hm with rfl | hm
      · exfalso
        unfold streamMeta at he
        rw [hn] at he; cases he
      · exact ⟨m', hm, hn⟩

theorem extractStream_unsafe (c : Cfg) (root : Path) (files : List EntryView)
    (metas : List (Name × Option Nat)) (fs : FS)
    (h : (∃ e ∈ files, enclosedName e.name = none) ∨ (∃ m ∈ metas, enclosedName m.1 = none)) :
    (extractStream c root files metas fs).2.isSome = true := by
  unfold extractStream
  split
  · rfl
  · next fs1 he =>
    rcases h with h | h
    · have := streamFiles_unsafe c root files fs h
      rw [he] at this; cases this
    · split
      · rfl
      · exact streamMetas_unsafe c root metas fs1 h

end ZipVerif.Model.Extract
