import ZipVerif.Model.Extract
import ZipVerif.Lemmas.FS
import ZipVerif.Lemmas.ModeOrder
/-
Confinement of the two extractor models: whatever the entries are and wherever a run stops, the final
state arises from the initial one by `Steps root` (bindings inside `root`, or creation of missing
ancestors of `root`); and an unsafe name makes the run fail.
-/

namespace ZipVerif.Model.Extract
open ZipVerif ZipVerif.Spec.Paths ZipVerif.Spec.FS ZipVerif.Spec.Tree ZipVerif.Model.Paths

theorem walk_filter_curDir (cs : List Comp) (d : Nat) :
    walk (cs.filter (· != Comp.curDir)) d = walk cs d := by
  induction cs generalizing d with
  | nil => rfl
  | cons x cs ih =>
    cases x with
    | curDir => simpa [walk] using ih d
    | rootDir => simp [walk]
    | parentDir =>
      have : (Comp.parentDir != Comp.curDir) = true := by decide
      simp only [List.filter_cons, this, if_true, walk, ih]
    | normal s =>
      have : (Comp.normal s != Comp.curDir) = true := by simp
      simp only [List.filter_cons, this, if_true, walk, ih]

/-- A name accepted by `enclosed_name`: the depth walk accepts its components inside `root/<name>`. -/
theorem safe_of_enclosed {n p : Name} (h : enclosedName n = some p) :
    (walk (relComps n).reverse.reverse 0).isSome := by
  rw [List.reverse_reverse]
  unfold relComps
  rw [walk_filter_curDir]
  unfold enclosedName at h
  split at h
  · cases h
  · split at h
    · next hw => rw [hw]; rfl
    · cases h

theorem liftFs_fst (r : FS × Option FsErr) : (liftFs r).1 = r.1 := by
  obtain ⟨fs, e⟩ := r
  cases e <;> rfl

theorem placeEntry_steps (c : Cfg) (chk : Bool) (root : Path) (e : EntryView) (fs : FS)
    (hs : (walk (relComps e.name).reverse.reverse 0).isSome) :
    Steps root fs (placeEntry c chk root e fs).1 := by
  have hall : LexAll root (joinedR root e.name) := lexAll_joined root _ hs
  have hin : root <+: resolve (dotted (joinedR root e.name) (tailDot e.name)).reverse := by
    rw [resolve_dotted]; exact inside_joined root _ hs
  unfold placeEntry
  simp only
  split
  · rw [liftFs_fst]; exact createDirAll_steps _ _ _ hall
  · have h1 : Steps root fs (ensureParent c chk (joinedR root e.name) fs).1 := by
      unfold ensureParent
      split
      · exact Steps.refl fs
      · next x up hj =>
        split
        · exact Steps.refl fs
        · rw [hj] at hall; exact createDirAll_steps _ _ _ hall.2
    split
    · next fs1 er he => rw [he] at h1; exact h1
    · next fs1 he =>
      rw [he] at h1
      split
      · exact h1
      · next fs2 tgt hcf =>
        obtain ⟨h2, h3⟩ := createFile_steps hin hcf
        split <;> exact (h1.trans h2).trans (writeAt_steps _ _ h3)

theorem applyMode_steps (c : Cfg) (root : Path) (n : Name) (mode : Option Nat) (fs : FS)
    (hs : (walk (relComps n).reverse.reverse 0).isSome) :
    Steps root fs (applyMode c root n mode fs).1 := by
  have hin : root <+: resolve (dotted (joinedR root n) (tailDot n)).reverse := by
    rw [resolve_dotted]; exact inside_joined root _ hs
  unfold applyMode
  split
  · exact Steps.refl fs
  · split
    · next fs' h => exact setPermissions_steps hin h
    · exact Steps.refl fs

theorem placeFile_steps (c : Cfg) (chk : Bool) (root : Path) (e : EntryView) (fs : FS) :
    Steps root fs (placeFile c chk root e fs).1 := by
  unfold placeFile
  split
  · exact Steps.refl fs
  · split
    · exact Steps.refl fs
    · next p hp => exact placeEntry_steps c chk root e fs (safe_of_enclosed hp)

theorem placeFiles_steps (c : Cfg) (chk : Bool) (root : Path) (es : List EntryView) (fs : FS) :
    Steps root fs (placeFiles c chk root es fs).1 := by
  induction es generalizing fs with
  | nil => exact Steps.refl fs
  | cons e es ih =>
    simp only [placeFiles]
    have h1 := placeFile_steps c chk root e fs
    split
    · next fs1 er he => rw [he] at h1; exact h1
    · next fs1 he => rw [he] at h1; exact h1.trans (ih fs1)

/-- A run of the placing loop that succeeds has seen only names accepted by `enclosed_name`. -/
theorem placeFiles_ok_enclosed {c : Cfg} {chk : Bool} {root : Path} {es : List EntryView} {fs fs1 : FS}
    (h : placeFiles c chk root es fs = (fs1, none)) : ∀ e ∈ es, (enclosedName e.name).isSome = true := by
  induction es generalizing fs with
  | nil => intro e he; cases he
  | cons e0 es ih =>
    simp only [placeFiles] at h
    split at h
    · cases h
    · next fs2 he =>
      intro e hm
      rcases List.mem_cons.mp hm with rfl | hm
      · unfold placeFile at he
        split at he
        · cases he
        · split at he
          · cases he
          · next p hp => rw [hp]; rfl
      · exact ih h e hm

/-- The entries the placing loop places completely (mode recorded) carry names accepted by
`enclosed_name`, whether or not the loop then fails. -/
theorem placed_enclosed (c : Cfg) (chk : Bool) (root : Path) (es : List EntryView) (fs : FS) :
    ∀ e ∈ es.take (placedCount c chk root es fs), (enclosedName e.name).isSome = true := by
  induction es generalizing fs with
  | nil => intro e he; simp at he
  | cons e0 es ih =>
    intro e hm
    simp only [placedCount] at hm
    split at hm
    · simp at hm
    · next fs2 he =>
      rw [List.take_succ_cons] at hm
      rcases List.mem_cons.mp hm with rfl | hm
      · unfold placeFile at he
        split at he
        · cases he
        · split at he
          · cases he
          · next p hp => rw [hp]; rfl
      · exact ih fs2 e hm

/-- A run of the placing loop that succeeds has placed every entry. -/
theorem placedCount_ok {c : Cfg} {chk : Bool} {root : Path} {es : List EntryView} {fs fs1 : FS}
    (h : placeFiles c chk root es fs = (fs1, none)) : placedCount c chk root es fs = es.length := by
  induction es generalizing fs with
  | nil => rfl
  | cons e0 es ih =>
    simp only [placeFiles] at h
    simp only [placedCount, List.length_cons]
    split at h
    · cases h
    · next fs2 he => rw [ih h]

/-- After a run of the placing loop that succeeds over `pre` and then fails at `e`: `pre` is what was
placed. -/
theorem placedCount_at (c : Cfg) (chk : Bool) (root : Path) (pre post : List EntryView) (e : EntryView)
    (fs fs1 : FS) (hpre : placeFiles c chk root pre fs = (fs1, none))
    (he : (placeFile c chk root e fs1).2.isSome = true) :
    placedCount c chk root (pre ++ e :: post) fs = pre.length := by
  induction pre generalizing fs with
  | nil =>
    simp only [placeFiles, Prod.mk.injEq] at hpre
    obtain ⟨rfl, _⟩ := hpre
    simp only [List.nil_append, placedCount, List.length_nil]
    split
    · rfl
    · next fs2 h2 => rw [h2] at he; cases he
  | cons a pre ih =>
    simp only [placeFiles] at hpre
    simp only [List.cons_append, placedCount, List.length_cons]
    split at hpre
    · cases hpre
    · next fs2 h2 =>
      rw [ih fs2 hpre]

theorem applyModes_steps (c : Cfg) (root : Path) (ms : List (Name × Option Nat)) (fs : FS)
    (hs : ∀ m ∈ ms, (enclosedName m.1).isSome = true) : Steps root fs (applyModes c root ms fs).1 := by
  induction ms generalizing fs with
  | nil => exact Steps.refl fs
  | cons m ms ih =>
    simp only [applyModes]
    obtain ⟨p, hp⟩ := Option.isSome_iff_exists.mp (hs m (by simp))
    have h1 := applyMode_steps c root m.1 m.2 fs (safe_of_enclosed hp)
    split
    · next fs1 er he => rw [he] at h1; exact h1
    · next fs1 he =>
      rw [he] at h1
      exact h1.trans (ih fs1 (fun m' hm' => hs m' (List.mem_cons_of_mem _ hm')))

theorem extractSeek_steps (c : Cfg) (root : Path) (es : List EntryView) (fs : FS) :
    Steps root fs (extractSeek c root es fs).1 := by
  unfold extractSeek
  have h1 := placeFiles_steps c true root es fs
  split
  · next fs1 er he =>
    rw [he] at h1
    refine h1.trans (applyModes_steps c root _ fs1 ?_)
    intro m hm
    obtain ⟨e, he', rfl⟩ := List.mem_map.mp (mem_modeOrder hm).1
    exact placed_enclosed c true root es fs e he'
  · next fs1 he =>
    rw [he] at h1
    refine h1.trans (applyModes_steps c root _ fs1 ?_)
    intro m hm
    obtain ⟨e, he', rfl⟩ := List.mem_map.mp (mem_modeOrder hm).1
    exact placeFiles_ok_enclosed he e he'

theorem checkMetas_ok {ms : List (Name × Option Nat)} (h : checkMetas ms = none) :
    ∀ m ∈ ms, (enclosedName m.1).isSome = true := by
  induction ms with
  | nil => intro m hm; cases hm
  | cons m0 ms ih =>
    simp only [checkMetas] at h
    split at h
    · cases h
    · next p hp =>
      intro m hm
      rcases List.mem_cons.mp hm with rfl | hm
      · rw [hp]; rfl
      · exact ih h m hm

/-- The central records accepted before the first rejected one carry names accepted by
`enclosed_name`. -/
theorem checked_enclosed : ∀ (ms : List (Name × Option Nat)),
    ∀ m ∈ ms.take (checkedCount ms), (enclosedName m.1).isSome = true := by
  intro ms
  induction ms with
  | nil => intro m hm; simp at hm
  | cons m0 ms ih =>
    intro m hm
    simp only [checkedCount] at hm
    split at hm
    · simp at hm
    · next p hp =>
      rw [List.take_succ_cons] at hm
      rcases List.mem_cons.mp hm with rfl | hm
      · rw [hp]; rfl
      · exact ih m hm

theorem extractStream_steps (c : Cfg) (root : Path) (files : List EntryView)
    (metas : List (Name × Option Nat)) (fs : FS) :
    Steps root fs (extractStream c root files metas fs).1 := by
  unfold extractStream
  have h1 := placeFiles_steps c false root files fs
  split
  · next fs1 er he => rw [he] at h1; exact h1
  · next fs1 he =>
    rw [he] at h1
    split
    · exact h1
    · split
      · exact h1.trans (applyModes_steps c root _ fs1
          (fun m hm => checked_enclosed metas m (mem_modeOrder hm).1))
      · next hck =>
        exact h1.trans (applyModes_steps c root _ fs1
          (fun m hm => checkMetas_ok hck m (mem_modeOrder hm).1))

/-! ### unsafe names -/

theorem placeFiles_unsafe (c : Cfg) (chk : Bool) (root : Path) (es : List EntryView) (fs : FS)
    (h : ∃ e ∈ es, enclosedName e.name = none) : (placeFiles c chk root es fs).2.isSome = true := by
  cases hr : placeFiles c chk root es fs with
  | mk fs1 er =>
    cases er with
    | some _ => rfl
    | none =>
      obtain ⟨e, he, hn⟩ := h
      have := placeFiles_ok_enclosed hr e he
      rw [hn] at this; cases this

theorem extractSeek_unsafe (c : Cfg) (root : Path) (es : List EntryView) (fs : FS)
    (h : ∃ e ∈ es, enclosedName e.name = none) : (extractSeek c root es fs).2.isSome = true := by
  unfold extractSeek
  have := placeFiles_unsafe c true root es fs h
  split
  · rfl
  · next fs1 he => rw [he] at this; cases this

theorem placeFiles_unsafe_at (c : Cfg) (chk : Bool) (root : Path) (pre post : List EntryView) (e : EntryView)
    (fs fs1 : FS) (hpre : placeFiles c chk root pre fs = (fs1, none)) (ho : e.openErr = none)
    (hn : enclosedName e.name = none) :
    placeFiles c chk root (pre ++ e :: post) fs = (fs1, some .invalidPath) := by
  induction pre generalizing fs with
  | nil =>
    simp only [placeFiles, Prod.mk.injEq] at hpre
    obtain ⟨rfl, _⟩ := hpre
    simp [placeFiles, placeFile, ho, hn]
  | cons a pre ih =>
    simp only [placeFiles, List.cons_append] at hpre ⊢
    split at hpre
    · cases hpre
    · next fs2 he => exact ih fs2 hpre

/-- The first unsafe entry that is reached: the run stops there with `InvalidArchive("Invalid file
path")`, having done nothing for that entry or any later one; the modes recorded for the entries
BEFORE it are applied (deepest first, up to the first `set_permissions` that fails), nothing else. -/
theorem extractSeek_unsafe_at (c : Cfg) (root : Path) (pre post : List EntryView) (e : EntryView)
    (fs fs1 : FS) (hpre : placeFiles c true root pre fs = (fs1, none)) (ho : e.openErr = none)
    (hn : enclosedName e.name = none) :
    extractSeek c root (pre ++ e :: post) fs =
      ((applyModes c root (modeOrder (pre.map fun e => (e.name, e.mode))) fs1).1, some .invalidPath) := by
  unfold extractSeek
  rw [placeFiles_unsafe_at c true root pre post e fs fs1 hpre ho hn,
    placedCount_at c true root pre post e fs fs1 hpre (by simp [placeFile, ho, hn])]
  simp

theorem checkMetas_unsafe {ms : List (Name × Option Nat)} (h : ∃ m ∈ ms, enclosedName m.1 = none) :
    (checkMetas ms).isSome = true := by
  cases hc : checkMetas ms with
  | some _ => rfl
  | none =>
    obtain ⟨m, hm, hn⟩ := h
    have := checkMetas_ok hc m hm
    rw [hn] at this; cases this

theorem extractStream_unsafe (c : Cfg) (root : Path) (files : List EntryView)
    (metas : List (Name × Option Nat)) (fs : FS)
    (h : (∃ e ∈ files, enclosedName e.name = none) ∨ (∃ m ∈ metas, enclosedName m.1 = none)) :
    (extractStream c root files metas fs).2.isSome = true := by
  unfold extractStream
  split
  · rfl
  · next fs1 he =>
    rcases h with h | h
    · have := placeFiles_unsafe c false root files fs h
      rw [he] at this; cases this
    · split
      · rfl
      · have := checkMetas_unsafe h
        split
        · rfl
        · next hck => rw [hck] at this; cases this

end ZipVerif.Model.Extract
