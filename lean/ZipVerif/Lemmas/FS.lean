import ZipVerif.Spec.FS
import ZipVerif.Lemmas.Paths
/-
Lemmas about the abstract filesystem (Spec/FS.lean):
  * `lookup`/`set`;
  * kernel path resolution is *lexical* on resolved paths (`walkR_lex`, `locateR_lex`): whatever the
    directory structure, a successful walk ends at the lexical normalisation of its components;
  * the confinement relation `Steps root` and the fact that every primitive operation, called on a
    path whose lexical normalisation stays inside `root` (or is an ancestor of it), makes only
    `Steps root`.
-/

namespace ZipVerif.Spec.FS
open ZipVerif ZipVerif.Spec.Paths ZipVerif.Model.Paths

/-! ### lookup / set -/

theorem lookup_set (fs : FS) (p : Path) (n : Node) (q : Path) :
    (fs.set p n).lookup q = if q = p then some n else fs.lookup q := by
  unfold FS.lookup FS.set
  rw [List.lookup_cons]
  by_cases h : q = p
  · subst h; simp
  · have : (q == p) = false := by simpa using h
    simp [this, h]

theorem lookup_set_self (fs : FS) (p : Path) (n : Node) : (fs.set p n).lookup p = some n := by
  rw [lookup_set]; simp

theorem lookup_set_ne (fs : FS) {p q : Path} (n : Node) (h : q ≠ p) :
    (fs.set p n).lookup q = fs.lookup q := by
  rw [lookup_set]; simp [h]

/-! ### resolution is lexical -/

theorem step_lex {c : Cfg} {fs : FS} {cur p : Path} {x : Comp} (h : step c fs cur x = .ok p) :
    p = resolveStep cur x := by
  cases x with
  | rootDir => simp only [step, Except.ok.injEq] at h; simp [resolveStep, ← h]
  | curDir =>
    simp only [step] at h
    split at h
    · simp only [Except.ok.injEq] at h; simp [resolveStep, ← h]
    · cases h
  | parentDir =>
    simp only [step] at h
    split at h
    · simp only [Except.ok.injEq] at h; simp [resolveStep, ← h]
    · cases h
  | normal s =>
    simp only [step] at h
    split at h
    · split at h
      · cases h
      · cases h
      · simp only [Except.ok.injEq] at h; simp [resolveStep, ← h]
    · cases h

theorem resolve_reverse_cons (x : Comp) (up : List Comp) :
    resolve (x :: up).reverse = resolveStep (resolve up.reverse) x := by
  simp [resolve, resolveFrom, List.foldl_append]

theorem walkR_lex {c : Cfg} {fs : FS} {rp : List Comp} {p : Path} (h : walkR c fs rp = .ok p) :
    p = resolve rp.reverse := by
  induction rp generalizing p with
  | nil => simp only [walkR, Except.ok.injEq] at h; simp [resolve, resolveFrom, ← h]
  | cons x up ih =>
    simp only [walkR] at h
    split at h
    · cases h
    · next cur hc =>
      rw [resolve_reverse_cons, ← ih hc]
      exact step_lex h

theorem locateR_lex {c : Cfg} {fs : FS} {rp : List Comp} {t : Target} (h : locateR c fs rp = .ok t) :
    t.path = resolve rp.reverse := by
  unfold locateR at h
  split at h
  · simp only [Except.ok.injEq] at h; subst h; simp [Target.path, resolve, resolveFrom]
  · next s up =>
    split at h
    · cases h
    · next d hd =>
      split at h
      · simp only [Except.ok.injEq] at h; subst h
        rw [resolve_reverse_cons, ← walkR_lex hd]; simp [Target.path, resolveStep]
      · cases h
  · next x up _ =>
    split at h
    · cases h
    · next d hd =>
      simp only [Except.ok.injEq] at h; subst h
      simpa [Target.path] using walkR_lex hd

/-! ### where a path may lead -/

/-- The lexical normalisation of the (reversed) path is inside `root` or an ancestor of it. -/
def Lex (root : Path) (rp : List Comp) : Prop :=
  root <+: resolve rp.reverse ∨ resolve rp.reverse <+: root

/-- … and so is that of every ancestor path (`Path::parent` = tail of the reversed list). -/
def LexAll (root : Path) : List Comp → Prop
  | [] => True
  | x :: up => Lex root (x :: up) ∧ LexAll root up

theorem resolve_dotted (rp : List Comp) (dot : Bool) :
    resolve (dotted rp dot).reverse = resolve rp.reverse := by
  cases dot
  · simp [dotted]
  · simp only [dotted, if_true]; rw [resolve_reverse_cons]; simp [resolveStep]

theorem Lex_dotted {root : Path} {rp : List Comp} (dot : Bool) (h : Lex root rp) :
    Lex root (dotted rp dot) := by
  unfold Lex at *; rw [resolve_dotted]; exact h

theorem resolve_rootRev (root : Path) : resolve (root.reverse.map Comp.normal).reverse = root := by
  rw [← List.map_reverse, List.reverse_reverse]
  have := resolveFrom_normals [] root
  simpa [resolve] using this

theorem lexAll_rootRev_aux (root : Path) (l : List Name) (h : l.reverse <+: root) :
    LexAll root (l.map Comp.normal) := by
  induction l with
  | nil => trivial
  | cons a l ih =>
    refine ⟨Or.inr ?_, ih ?_⟩
    · have := resolve_rootRev (a :: l).reverse
      rw [List.reverse_reverse] at this
      rw [show Comp.normal a :: List.map Comp.normal l = List.map Comp.normal (a :: l) from rfl, this]
      exact h
    · rw [List.reverse_cons] at h
      exact List.IsPrefix.trans (List.prefix_append _ _) h

theorem lexAll_rootRev (root : Path) : LexAll root (root.reverse.map Comp.normal) :=
  lexAll_rootRev_aux root root.reverse (by simp)

/-- `walk` accepts every initial part of an accepted walk (reversed-list form). -/
theorem walk_reverse_tail {x : Comp} {up : List Comp} {d : Nat} (h : (walk (x :: up).reverse d).isSome) :
    (walk up.reverse d).isSome := by
  have := walk_take_isSome _ d up.reverse.length h
  rw [List.reverse_cons, List.take_left'] at this
  · exact this
  · rfl

theorem resolve_joined (root : Path) (rr : List Comp) :
    resolve (rr ++ root.reverse.map Comp.normal).reverse = resolveFrom root rr.reverse := by
  rw [List.reverse_append, ← List.map_reverse, List.reverse_reverse]
  simp only [resolve]
  rw [resolveFrom_append, resolveFrom_normals]
  simp

/-- Lexical normalisation commutes with the base as long as the checked walk succeeds. -/
theorem resolveFrom_base (base : List Name) (cs : List Comp) (r : List Name) (d' : Nat)
    (h : walk cs r.length = some d') :
    resolveFrom (base ++ r) cs = base ++ resolveFrom r cs := by
  induction cs generalizing r with
  | nil => simp [resolveFrom]
  | cons x cs ih =>
    cases x with
    | rootDir => simp [walk] at h
    | curDir =>
      simp only [walk] at h
      simpa [resolveFrom, resolveStep] using ih r h
    | normal s =>
      simp only [walk] at h
      have := ih (r ++ [s]) (by simpa using h)
      simp only [resolveFrom, List.foldl_cons, resolveStep] at this ⊢
      rw [List.append_assoc]; exact this
    | parentDir =>
      simp only [walk] at h
      split at h
      · cases h
      · next hd =>
        have hr : r ≠ [] := fun e => hd (by simp [e])
        have := ih r.dropLast (by simpa using h)
        simp only [resolveFrom, List.foldl_cons, resolveStep] at this ⊢
        rw [List.dropLast_append_of_ne_nil hr]; exact this

theorem resolve_joined_safe (root : Path) (rr : List Comp) (h : (walk rr.reverse 0).isSome) :
    resolve (rr ++ root.reverse.map Comp.normal).reverse = root ++ resolve rr.reverse := by
  rw [resolve_joined]
  obtain ⟨d', hd'⟩ := Option.isSome_iff_exists.mp h
  have := resolveFrom_base root rr.reverse [] d' (by simpa using hd')
  simpa [resolve] using this

/-- A name accepted by the depth walk, joined onto `root`: the path and all its ancestors normalise
to something inside `root` or to an ancestor of `root`. -/
theorem lexAll_joined (root : Path) (rr : List Comp) (h : (walk rr.reverse 0).isSome) :
    LexAll root (rr ++ root.reverse.map Comp.normal) := by
  induction rr with
  | nil => simpa using lexAll_rootRev root
  | cons x up ih =>
    refine ⟨Or.inl ?_, ih (walk_reverse_tail h)⟩
    have := resolve_joined_safe root (x :: up) h
    rw [List.cons_append] at this
    show root <+: resolve (x :: (up ++ List.map Comp.normal (List.reverse root))).reverse
    rw [this]; exact List.prefix_append _ _

theorem inside_joined (root : Path) (rr : List Comp) (h : (walk rr.reverse 0).isSome) :
    root <+: resolve (rr ++ root.reverse.map Comp.normal).reverse := by
  rw [resolve_joined_safe root rr h]; exact List.prefix_append _ _

/-! ### confinement -/

/-- A single binding that confinement allows: anything inside `root`; outside only the creation of a
missing directory that is an ancestor of `root` (what `create_dir_all` does when the target directory
itself does not exist yet). -/
inductive Touch (root : Path) (fs : FS) : Path → Node → Prop
  | inside {p : Path} {n : Node} : root <+: p → Touch root fs p n
  | ancestor {p : Path} {m : Nat} : p <+: root → fs.lookup p = none → Touch root fs p (.dir m)

/-- `fs'` arises from `fs` by a sequence of allowed bindings. -/
inductive Steps (root : Path) : FS → FS → Prop
  | refl (fs : FS) : Steps root fs fs
  | set {fs fs1 : FS} {p : Path} {n : Node} : Steps root fs fs1 → Touch root fs1 p n → Steps root fs (fs1.set p n)

theorem Steps.trans {root : Path} {a b d : FS} (h1 : Steps root a b) (h2 : Steps root b d) : Steps root a d := by
  induction h2 with
  | refl => exact h1
  | set _ ht ih => exact Steps.set ih ht

theorem Steps.one {root : Path} {fs : FS} {p : Path} {n : Node} (h : Touch root fs p n) :
    Steps root fs (fs.set p n) := Steps.set (Steps.refl fs) h

/-- The new part of the write log: the sequence of operation targets, all allowed. -/
theorem Steps.log {root : Path} {fs fs' : FS} (h : Steps root fs fs') :
    ∃ new : List (Path × Node), fs'.nodes = new ++ fs.nodes ∧
      ∀ e ∈ new, root <+: e.1 ∨ (e.1 <+: root ∧ ∃ m, e.2 = .dir m) := by
  induction h with
  | refl => exact ⟨[], rfl, by simp⟩
  | @set fs1 p n _ ht ih =>
    obtain ⟨new, h1, h2⟩ := ih
    refine ⟨(p, n) :: new, by simp [FS.set, h1], ?_⟩
    intro e he
    rcases List.mem_cons.mp he with rfl | he
    · cases ht with
      | inside hp => exact Or.inl hp
      | ancestor hp _ => exact Or.inr ⟨hp, _, rfl⟩
    · exact h2 e he

/-- What `Steps` means for an observer: outside `root` nothing changes, except that missing ancestors
of `root` may have been created as directories. -/
theorem Steps.frame {root : Path} {fs fs' : FS} (h : Steps root fs fs') (p : Path) (hp : ¬ root <+: p) :
    fs'.lookup p = fs.lookup p ∨
      (p <+: root ∧ fs.lookup p = none ∧ ∃ m, fs'.lookup p = some (.dir m)) := by
  induction h with
  | refl => exact Or.inl rfl
  | @set fs1 q n _ ht ih =>
    by_cases hq : p = q
    · subst hq
      cases ht with
      | inside hin => exact absurd hin hp
      | @ancestor m hpre hnone =>
        rcases ih with ih | ⟨_, _, m', hm'⟩
        · exact Or.inr ⟨hpre, by rw [← ih]; exact hnone, m, lookup_set_self _ _ _⟩
        · rw [hnone] at hm'; cases hm'
    · rw [lookup_set_ne _ _ hq]; exact ih

theorem mkdir_steps {c : Cfg} {fs fs' : FS} {rp : List Comp} {root : Path} (hl : Lex root rp)
    (h : mkdir c fs rp = .ok fs') : Steps root fs fs' := by
  unfold mkdir at h
  split at h
  · cases h
  · cases h
  · next d s hloc =>
    have hpath := locateR_lex hloc
    simp only [Target.path] at hpath
    split at h
    · cases h
    · next hnone =>
      split at h
      · simp only [Except.ok.injEq] at h; subst h
        apply Steps.one
        rw [hpath] at hnone ⊢
        rcases hl with hl | hl
        · exact Touch.inside hl
        · exact Touch.ancestor hl hnone
      · cases h

theorem createDirAll_steps {c : Cfg} {root : Path} (rp : List Comp) (dot : Bool) (fs : FS)
    (hl : LexAll root rp) : Steps root fs (createDirAll c rp dot fs).1 := by
  induction rp generalizing dot fs with
  | nil => simp only [createDirAll]; exact Steps.refl fs
  | cons x up ih =>
    have hlx : Lex root (dotted (x :: up) dot) := Lex_dotted dot hl.1
    simp only [createDirAll]
    split
    · next fs' hm => exact mkdir_steps hlx hm
    · next hm =>
      have h1 := ih false fs hl.2
      split
      · next fs1 e he => rw [he] at h1; exact h1
      · next fs1 he =>
        rw [he] at h1
        split
        · next fs2 hm2 => exact h1.trans (mkdir_steps hlx hm2)
        · split <;> exact h1
    · split <;> exact Steps.refl fs

theorem createFile_steps {c : Cfg} {fs fs' : FS} {rp : List Comp} {slash : Bool} {root p : Path}
    (hl : root <+: resolve rp.reverse) (h : createFile c fs rp slash = .ok (fs', p)) :
    Steps root fs fs' ∧ root <+: p := by
  unfold createFile at h
  split at h
  · cases h
  · cases h
  · next d s hloc =>
    have hpath := locateR_lex hloc
    simp only [Target.path] at hpath
    rw [← hpath] at hl
    split at h
    · cases h
    · split at h
      · cases h
      · split at h
        · simp only [Except.ok.injEq, Prod.mk.injEq] at h
          obtain ⟨h1, h2⟩ := h; subst h1; subst h2
          exact ⟨Steps.one (Touch.inside hl), hl⟩
        · cases h
    · split at h
      · cases h
      · split at h
        · simp only [Except.ok.injEq, Prod.mk.injEq] at h
          obtain ⟨h1, h2⟩ := h; subst h1; subst h2
          exact ⟨Steps.one (Touch.inside hl), hl⟩
        · cases h

theorem writeAt_steps {root p : Path} (fs : FS) (data : Bytes) (hp : root <+: p) :
    Steps root fs (writeAt fs p data) := by
  unfold writeAt
  split
  · exact Steps.one (Touch.inside hp)
  · exact Steps.refl fs

theorem setPermissions_steps {c : Cfg} {fs fs' : FS} {rp : List Comp} {slash : Bool} {mode : Nat}
    {root : Path} (hl : root <+: resolve rp.reverse) (h : setPermissions c fs rp slash mode = .ok fs') :
    Steps root fs fs' := by
  unfold setPermissions at h
  split at h
  · cases h
  · next p hloc =>
    have hpath := locateR_lex hloc
    simp only [Target.path] at hpath
    rw [← hpath] at hl
    split at h
    · simp only [Except.ok.injEq] at h; subst h; exact Steps.one (Touch.inside hl)
    · cases h
  · next d s hloc =>
    have hpath := locateR_lex hloc
    simp only [Target.path] at hpath
    rw [← hpath] at hl
    split at h
    · cases h
    · simp only [Except.ok.injEq] at h; subst h; exact Steps.one (Touch.inside hl)
    · split at h
      · cases h
      · simp only [Except.ok.injEq] at h; subst h; exact Steps.one (Touch.inside hl)

end ZipVerif.Spec.FS
