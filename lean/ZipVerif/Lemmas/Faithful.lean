import ZipVerif.Lemmas.Extract
/-
Faithfulness of the extractor models: under `Consistent`, on a `Fresh` target, every error branch of
the operational model (kernel path walks, `create_dir_all`'s retry loop, `exists`, `File::create`,
`set_permissions`) is dead and the run produces exactly the expected tree `treeOf` / `treeOfStream`.
Part 1: computation lemmas for the primitives, the invariant `Inv`, monotonicity of path walks.
-/

namespace ZipVerif.Spec.FS
open ZipVerif ZipVerif.Spec.Paths ZipVerif.Model.Paths

/-! ### permission bits -/

theorem hasBits_sub (m : Nat) (h : hasBits m 0o300 = true) : hasBits m 0o100 = true := by
  simp only [hasBits, beq_iff_eq] at *
  have e : (192 : Nat) &&& 64 = 64 := by decide
  have : m &&& 64 = (m &&& 192) &&& 64 := by rw [Nat.and_assoc, e]
  rw [this, h, e]

theorem hasBits_or (a b k : Nat) (h : hasBits a k = true) : hasBits (a ||| b) k = true := by
  simp only [hasBits, beq_iff_eq] at *
  rw [Nat.and_or_distrib_right, h]
  apply Nat.eq_of_testBit_eq
  intro i
  simp only [Nat.testBit_or, Nat.testBit_and]
  cases k.testBit i <;> simp

theorem hasBits_and (m k b : Nat) (h1 : hasBits m b = true) (h2 : hasBits k b = true) :
    hasBits (m &&& k) b = true := by
  simp only [hasBits, beq_iff_eq] at *
  rw [Nat.and_assoc, h2, h1]

/-- The owner may search and modify a directory / write a file. -/
def nodeOK : Node → Prop
  | .dir m => hasBits m 0o300 = true
  | .file _ m => hasBits m 0o200 = true

theorem nodeOK_dropPrivs {c : Cfg} {m : Nat} (hp : c.priv = false) (h : hasBits m 0o200 = true) (b : Bytes) :
    nodeOK (.file b (dropPrivs c m)) := by
  simp only [nodeOK, dropPrivs, hp, Bool.false_eq_true, if_false]
  split
  · exact hasBits_and _ _ _ h (by decide)
  · exact hasBits_and _ _ _ h (by decide)

/-! ### computation lemmas -/

theorem walkR_cons (c : Cfg) (fs : FS) (x : Comp) (up : List Comp) :
    walkR c fs (x :: up) = match walkR c fs up with
      | .error e => .error e
      | .ok cur => step c fs cur x := rfl

theorem walkR_cons_ok {c : Cfg} {fs : FS} {x : Comp} {up : List Comp} {cur : Path}
    (h : walkR c fs up = .ok cur) : walkR c fs (x :: up) = step c fs cur x := by
  rw [walkR_cons, h]

theorem walkR_cons_err {c : Cfg} {fs : FS} {x : Comp} {up : List Comp} {e : FsErr}
    (h : walkR c fs up = .error e) : walkR c fs (x :: up) = .error e := by
  rw [walkR_cons, h]

theorem walkR_cons_inv {c : Cfg} {fs : FS} {x : Comp} {up : List Comp} {p : Path}
    (h : walkR c fs (x :: up) = .ok p) : ∃ cur, walkR c fs up = .ok cur ∧ step c fs cur x = .ok p := by
  rw [walkR_cons] at h
  split at h
  · cases h
  · next cur hc => exact ⟨cur, hc, h⟩

theorem step_normal_inv {c : Cfg} {fs : FS} {cur p : Path} {s : Name}
    (h : step c fs cur (.normal s) = .ok p) :
    canSearch c fs cur = true ∧ p = cur ++ [s] ∧ ∃ m, fs.lookup (cur ++ [s]) = some (.dir m) := by
  simp only [step] at h
  split at h
  · next hs =>
    split at h
    · cases h
    · cases h
    · next m hm => simp only [Except.ok.injEq] at h; exact ⟨hs, h.symm, m, hm⟩
  · cases h

theorem step_normal_dir {c : Cfg} {fs : FS} {cur : Path} {s : Name} {m : Nat}
    (hs : canSearch c fs cur = true) (hm : fs.lookup (cur ++ [s]) = some (.dir m)) :
    step c fs cur (.normal s) = .ok (cur ++ [s]) := by
  simp [step, hs, hm]

theorem step_parent {c : Cfg} {fs : FS} {cur : Path} (hs : canSearch c fs cur = true) :
    step c fs cur .parentDir = .ok cur.dropLast := by
  simp [step, hs]

theorem step_parent_inv {c : Cfg} {fs : FS} {cur p : Path} (h : step c fs cur .parentDir = .ok p) :
    canSearch c fs cur = true ∧ p = cur.dropLast := by
  simp only [step] at h
  split at h
  · next hs => simp only [Except.ok.injEq] at h; exact ⟨hs, h.symm⟩
  · cases h

theorem locateR_normal {c : Cfg} {fs : FS} {s : Name} {up : List Comp} {d : Path}
    (h1 : walkR c fs up = .ok d) (h2 : canSearch c fs d = true) :
    locateR c fs (.normal s :: up) = .ok (.entry d s) := by
  simp [locateR, h1, h2]

theorem locateR_normal_err {c : Cfg} {fs : FS} {s : Name} {up : List Comp} {e : FsErr}
    (h1 : walkR c fs up = .error e) : locateR c fs (.normal s :: up) = .error e := by
  simp [locateR, h1]

theorem locateR_other {c : Cfg} {fs : FS} {x : Comp} {up : List Comp} (hx : ∀ s, x ≠ .normal s) :
    locateR c fs (x :: up) = match walkR c fs (x :: up) with
      | .error e => .error e
      | .ok d => .ok (.self d) := by
  cases x with
  | normal s => exact absurd rfl (hx s)
  | rootDir => rfl
  | curDir => rfl
  | parentDir => rfl

/-- A successful walk of the whole path locates it. -/
theorem locateR_of_walkR {c : Cfg} {fs : FS} {rp : List Comp} {p : Path} (h : walkR c fs rp = .ok p) :
    ∃ t, locateR c fs rp = .ok t ∧ t.path = p := by
  cases rp with
  | nil => simp only [walkR, Except.ok.injEq] at h; exact ⟨.self [], rfl, by simp [Target.path, h]⟩
  | cons x up =>
    by_cases hx : ∃ s, x = .normal s
    · obtain ⟨s, rfl⟩ := hx
      obtain ⟨cur, hc, hst⟩ := walkR_cons_inv h
      obtain ⟨hs, hp, _⟩ := step_normal_inv hst
      exact ⟨.entry cur s, locateR_normal hc hs, by simp [Target.path, hp]⟩
    · have hx' : ∀ s, x ≠ .normal s := fun s e => hx ⟨s, e⟩
      refine ⟨.self p, ?_, rfl⟩
      rw [locateR_other hx', h]

theorem step_cur {c : Cfg} {fs : FS} {cur : Path} (hs : canSearch c fs cur = true) :
    step c fs cur .curDir = .ok cur := by
  simp [step, hs]

theorem step_cur_inv {c : Cfg} {fs : FS} {cur p : Path} (h : step c fs cur .curDir = .ok p) :
    canSearch c fs cur = true ∧ p = cur := by
  simp only [step] at h
  split at h
  · next hs => simp only [Except.ok.injEq] at h; exact ⟨hs, h.symm⟩
  · cases h

theorem walkR_dotted {c : Cfg} {fs : FS} {rp : List Comp} {p : Path} (dot : Bool)
    (h : walkR c fs rp = .ok p) (hs : dot = true → canSearch c fs p = true) :
    walkR c fs (dotted rp dot) = .ok p := by
  cases dot
  · simpa [dotted] using h
  · simp only [dotted, if_true]; rw [walkR_cons_ok h]; exact step_cur (hs rfl)

/-- `mkdir`, `is_dir` on a path that resolves completely: it exists. -/
theorem mkdir_exists {c : Cfg} {fs : FS} {rp : List Comp} {p : Path} {m : Nat}
    (h : walkR c fs rp = .ok p) (hm : fs.lookup p = some (.dir m)) :
    mkdir c fs rp = .error .alreadyExists ∧ isDir c fs rp = true := by
  obtain ⟨t, ht, hp⟩ := locateR_of_walkR h
  cases t with
  | self q =>
    simp only [Target.path] at hp; subst hp
    simp [mkdir, isDir, stat, ht, hm]
  | entry d s =>
    simp only [Target.path] at hp
    simp [mkdir, isDir, stat, ht, hp, hm]

theorem setPermissions_dir {c : Cfg} {fs : FS} {rp : List Comp} {p : Path} {m0 : Nat}
    (h : walkR c fs rp = .ok p) (hm : fs.lookup p = some (.dir m0)) (slash : Bool) (mode : Nat) :
    setPermissions c fs rp slash mode = .ok (fs.set p (.dir (mode &&& 0o7777))) := by
  obtain ⟨t, ht, hp⟩ := locateR_of_walkR h
  cases t with
  | self q =>
    simp only [Target.path] at hp; subst hp
    simp [setPermissions, ht, hm]
  | entry d s =>
    simp only [Target.path] at hp
    simp [setPermissions, ht, hp, hm]

/-! ### monotonicity of walks -/

/-- Every directory of `fs` is still a directory in `fs'` (and still searchable). -/
def Keeps (c : Cfg) (fs fs' : FS) : Prop :=
  ∀ q m, fs.lookup q = some (.dir m) →
    ∃ m', fs'.lookup q = some (.dir m') ∧ (c.priv = true ∨ (hasBits m 0o100 = true → hasBits m' 0o100 = true))

theorem Keeps.refl (c : Cfg) (fs : FS) : Keeps c fs fs := fun _ m h => ⟨m, h, Or.inr id⟩

theorem Keeps.trans {c : Cfg} {a b d : FS} (h1 : Keeps c a b) (h2 : Keeps c b d) : Keeps c a d := by
  intro q m hq
  obtain ⟨m1, hq1, hb1⟩ := h1 q m hq
  obtain ⟨m2, hq2, hb2⟩ := h2 q m1 hq1
  refine ⟨m2, hq2, ?_⟩
  rcases hb1 with hb1 | hb1
  · exact Or.inl hb1
  · rcases hb2 with hb2 | hb2
    · exact Or.inl hb2
    · exact Or.inr fun h => hb2 (hb1 h)

theorem canSearch_keeps {c : Cfg} {fs fs' : FS} (hk : Keeps c fs fs') {d : Path}
    (h : canSearch c fs d = true) : canSearch c fs' d = true := by
  unfold canSearch at *
  cases hp : c.priv
  · simp only [hp, Bool.false_or] at h ⊢
    split at h
    · next m hm =>
      obtain ⟨m', hm', hb⟩ := hk d m hm
      rw [hm']
      rcases hb with hb | hb
      · rw [hp] at hb; cases hb
      · exact hb h
    · cases h
  · simp

theorem step_keeps {c : Cfg} {fs fs' : FS} (hk : Keeps c fs fs') {cur p : Path} {x : Comp}
    (h : step c fs cur x = .ok p) : step c fs' cur x = .ok p := by
  cases x with
  | rootDir => exact h
  | curDir =>
    obtain ⟨hs, hp⟩ := step_cur_inv h
    rw [hp]; exact step_cur (canSearch_keeps hk hs)
  | parentDir =>
    obtain ⟨hs, hp⟩ := step_parent_inv h
    rw [hp]; exact step_parent (canSearch_keeps hk hs)
  | normal s =>
    obtain ⟨hs, hp, m, hm⟩ := step_normal_inv h
    obtain ⟨m', hm', _⟩ := hk _ m hm
    rw [hp]; exact step_normal_dir (canSearch_keeps hk hs) hm'

theorem walkR_keeps {c : Cfg} {fs fs' : FS} (hk : Keeps c fs fs') {rp : List Comp} {p : Path}
    (h : walkR c fs rp = .ok p) : walkR c fs' rp = .ok p := by
  induction rp generalizing p with
  | nil => exact h
  | cons x up ih =>
    obtain ⟨cur, hc, hst⟩ := walkR_cons_inv h
    rw [walkR_cons_ok (ih hc)]
    exact step_keeps hk hst

/-- Binding a path that was not a directory keeps all directories. -/
theorem keeps_set_nondir {c : Cfg} {fs : FS} {p : Path} (n : Node)
    (h : ∀ m, fs.lookup p ≠ some (.dir m)) : Keeps c fs (fs.set p n) := by
  intro q m hq
  have : q ≠ p := fun e => h m (e ▸ hq)
  exact ⟨m, by rw [lookup_set_ne _ _ this]; exact hq, Or.inr id⟩

/-- Re-binding a directory as a directory with a searchable mode keeps all directories. -/
theorem keeps_set_dir {c : Cfg} {fs : FS} {p : Path} (m' : Nat)
    (hb : c.priv = true ∨ hasBits m' 0o100 = true) : Keeps c fs (fs.set p (.dir m')) := by
  intro q m hq
  by_cases e : q = p
  · subst e
    refine ⟨m', lookup_set_self _ _ _, ?_⟩
    rcases hb with hb | hb
    · exact Or.inl hb
    · exact Or.inr fun _ => hb
  · exact ⟨m, by rw [lookup_set_ne _ _ e]; exact hq, Or.inr id⟩

/-! ### the invariant -/

/-- The target directory is reachable, everything bound below it hangs off a bound directory, and —
unless the caller is the superuser — the owner bits never lock the caller out. -/
structure Inv (c : Cfg) (root : Path) (fs : FS) : Prop where
  chain : walkR c fs (root.reverse.map Comp.normal) = .ok root
  rootDir : ∃ m, fs.lookup root = some (.dir m)
  wf : ∀ r, r ≠ [] → fs.lookup (root ++ r) ≠ none → ∃ m, fs.lookup (root ++ r.dropLast) = some (.dir m)
  perm : c.priv = true ∨ ∀ r n, fs.lookup (root ++ r) = some n → nodeOK n

theorem Inv.search {c : Cfg} {root : Path} {fs : FS} (hi : Inv c root fs) {r : Path} {m : Nat}
    (h : fs.lookup (root ++ r) = some (.dir m)) :
    canSearch c fs (root ++ r) = true ∧ canModifyDir c fs (root ++ r) = true := by
  unfold canSearch canModifyDir
  rcases hi.perm with hp | hp
  · simp [hp]
  · have := hp r _ h
    simp only [nodeOK] at this
    simp [h, this, hasBits_sub _ this]

theorem Inv.write {c : Cfg} {root : Path} {fs : FS} (hi : Inv c root fs) {r : Path} {b : Bytes} {m : Nat}
    (h : fs.lookup (root ++ r) = some (.file b m)) : canWriteFile c m = true := by
  unfold canWriteFile
  rcases hi.perm with hp | hp
  · simp [hp]
  · have := hp r _ h
    simp only [nodeOK] at this
    simp [this]

theorem append_ne_self {α} (a b : List α) (h : b ≠ []) : a ++ b ≠ a := by
  intro e
  have := congrArg List.length e
  simp only [List.length_append] at this
  have : b.length = 0 := by omega
  exact h (List.length_eq_zero_iff.mp this)

/-- A new node below the target, in an existing directory, at an unbound path. -/
theorem Inv.set_new {c : Cfg} {root : Path} {fs : FS} (hi : Inv c root fs) {r : Path} {n : Node}
    (hr : r ≠ []) (hnone : fs.lookup (root ++ r) = none)
    (hpar : ∃ m, fs.lookup (root ++ r.dropLast) = some (.dir m))
    (hok : c.priv = true ∨ nodeOK n) : Inv c root (fs.set (root ++ r) n) := by
  have hk : Keeps c fs (fs.set (root ++ r) n) := keeps_set_nondir n (by rw [hnone]; simp)
  refine ⟨walkR_keeps hk hi.chain, ?_, ?_, ?_⟩
  · obtain ⟨m, hm⟩ := hi.rootDir
    exact ⟨m, by rw [lookup_set_ne _ _ (append_ne_self root r hr).symm]; exact hm⟩
  · intro r2 hr2 hne
    by_cases e : r2 = r
    · subst e
      obtain ⟨m, hm⟩ := hpar
      obtain ⟨m', hm', _⟩ := hk _ m hm
      exact ⟨m', hm'⟩
    · have e' : root ++ r2 ≠ root ++ r := fun h => e (List.append_cancel_left h)
      rw [lookup_set_ne _ _ e'] at hne
      obtain ⟨m, hm⟩ := hi.wf r2 hr2 hne
      obtain ⟨m', hm', _⟩ := hk _ m hm
      exact ⟨m', hm'⟩
  · rcases hi.perm with hp | hp
    · exact Or.inl hp
    · rcases hok with hok | hok
      · exact Or.inl hok
      · refine Or.inr fun r2 n2 h2 => ?_
        by_cases e : r2 = r
        · subst e; rw [lookup_set_self] at h2; cases h2; exact hok
        · have e' : root ++ r2 ≠ root ++ r := fun h => e (List.append_cancel_left h)
          rw [lookup_set_ne _ _ e'] at h2
          exact hp r2 n2 h2

/-- Re-binding a file as a file. -/
theorem Inv.set_file {c : Cfg} {root : Path} {fs : FS} (hi : Inv c root fs) {r : Path} {b b' : Bytes}
    {m m' : Nat} (hold : fs.lookup (root ++ r) = some (.file b m))
    (hok : c.priv = true ∨ nodeOK (.file b' m')) : Inv c root (fs.set (root ++ r) (.file b' m')) := by
  have hk : Keeps c fs (fs.set (root ++ r) (.file b' m')) := keeps_set_nondir _ (by rw [hold]; simp)
  have hr : r ≠ [] := by
    intro e; subst e
    obtain ⟨m0, hm0⟩ := hi.rootDir
    rw [List.append_nil, hm0] at hold; cases hold
  refine ⟨walkR_keeps hk hi.chain, ?_, ?_, ?_⟩
  · obtain ⟨m0, hm0⟩ := hi.rootDir
    exact ⟨m0, by rw [lookup_set_ne _ _ (append_ne_self root r hr).symm]; exact hm0⟩
  · intro r2 hr2 hne
    have hne' : fs.lookup (root ++ r2) ≠ none := by
      by_cases e : r2 = r
      · subst e; rw [hold]; simp
      · have e' : root ++ r2 ≠ root ++ r := fun h => e (List.append_cancel_left h)
        rwa [lookup_set_ne _ _ e'] at hne
    obtain ⟨m0, hm0⟩ := hi.wf r2 hr2 hne'
    obtain ⟨m1, hm1, _⟩ := hk _ m0 hm0
    exact ⟨m1, hm1⟩
  · rcases hi.perm with hp | hp
    · exact Or.inl hp
    · rcases hok with hok | hok
      · exact Or.inl hok
      · refine Or.inr fun r2 n2 h2 => ?_
        by_cases e : r2 = r
        · subst e; rw [lookup_set_self] at h2; cases h2; exact hok
        · have e' : root ++ r2 ≠ root ++ r := fun h => e (List.append_cancel_left h)
          rw [lookup_set_ne _ _ e'] at h2
          exact hp r2 n2 h2

/-- Re-binding a directory as a directory. -/
theorem Inv.set_dir {c : Cfg} {root : Path} {fs : FS} (hi : Inv c root fs) {r : Path} {m m' : Nat}
    (hold : fs.lookup (root ++ r) = some (.dir m))
    (hok : c.priv = true ∨ nodeOK (.dir m')) : Inv c root (fs.set (root ++ r) (.dir m')) := by
  have hk : Keeps c fs (fs.set (root ++ r) (.dir m')) := by
    apply keeps_set_dir
    rcases hok with hok | hok
    · exact Or.inl hok
    · exact Or.inr (hasBits_sub _ hok)
  refine ⟨walkR_keeps hk hi.chain, ?_, ?_, ?_⟩
  · obtain ⟨m0, hm0⟩ := hi.rootDir
    obtain ⟨m1, hm1, _⟩ := hk _ m0 hm0
    exact ⟨m1, hm1⟩
  · intro r2 hr2 hne
    have hne' : fs.lookup (root ++ r2) ≠ none := by
      by_cases e : r2 = r
      · subst e; rw [hold]; simp
      · have e' : root ++ r2 ≠ root ++ r := fun h => e (List.append_cancel_left h)
        rwa [lookup_set_ne _ _ e'] at hne
    obtain ⟨m0, hm0⟩ := hi.wf r2 hr2 hne'
    obtain ⟨m1, hm1, _⟩ := hk _ m0 hm0
    exact ⟨m1, hm1⟩
  · rcases hi.perm with hp | hp
    · exact Or.inl hp
    · rcases hok with hok | hok
      · exact Or.inl hok
      · refine Or.inr fun r2 n2 h2 => ?_
        by_cases e : r2 = r
        · subst e; rw [lookup_set_self] at h2; cases h2; exact hok
        · have e' : root ++ r2 ≠ root ++ r := fun h => e (List.append_cancel_left h)
          rw [lookup_set_ne _ _ e'] at h2
          exact hp r2 n2 h2

end ZipVerif.Spec.FS
