import ZipVerif.Lemmas.FaithfulWalk
/-
Faithfulness, part 3: one entry.  Placing an entry of a consistent archive never fails, equals
`putEntry` and preserves the invariants.  (Applying the modes: Lemmas/FaithfulModes.lean.)
-/

namespace ZipVerif.Model.Extract
open ZipVerif ZipVerif.Spec.Paths ZipVerif.Spec.FS ZipVerif.Spec.Tree ZipVerif.Model.Paths

/-! ### which kind of node the archive wants where -/

def DirAt (es : List EntryView) (r : Path) : Prop := r = [] ∨ ∃ e ∈ es, r ∈ dirPaths e
def FileAt (es : List EntryView) (r : Path) : Prop := ∃ e ∈ es, filePath e = some r

/-- Everything bound below the target has the kind the archive wants there. -/
def Kinds (root : Path) (es : List EntryView) (fs : FS) : Prop :=
  ∀ r n, fs.lookup (root ++ r) = some n →
    match n with
    | .dir _ => DirAt es r
    | .file _ _ => FileAt es r

theorem mem_positionsR {t rr : List Comp} (h : t <:+ rr) : resolve t.reverse ∈ positionsR rr := by
  induction rr with
  | nil =>
    have : t = [] := List.suffix_nil.mp h
    subst this; simp [positionsR, resolve, resolveFrom]
  | cons x up ih =>
    rcases List.suffix_cons_iff.mp h with rfl | h
    · simp [positionsR]
    · simp only [positionsR, List.mem_cons]; exact Or.inr (ih h)

theorem safe_suffix {t rr : List Comp} (h : t <:+ rr) (hs : (walk rr.reverse 0).isSome) :
    (walk t.reverse 0).isSome := by
  induction rr with
  | nil =>
    have : t = [] := List.suffix_nil.mp h
    subst this; exact hs
  | cons x up ih =>
    rcases List.suffix_cons_iff.mp h with rfl | h
    · exact hs
    · exact ih h (safe_tail hs)

theorem Kinds.clear {root : Path} {es : List EntryView} {fs : FS} (hk : Kinds root es fs)
    (hDF : ∀ r, DirAt es r → FileAt es r → False) {rr : List Comp}
    (hs : (walk rr.reverse 0).isSome) (hd : ∀ t, t <:+ rr → DirAt es (resolve t.reverse)) :
    Clear fs root rr := by
  intro t ht b m hl
  rw [resolveFrom_root_safe root (safe_suffix ht hs)] at hl
  exact hDF _ (hd t ht) (hk _ _ hl)

theorem Kinds.set {root : Path} {es : List EntryView} {fs : FS} (hk : Kinds root es fs) {r : Path} {n : Node}
    (hn : match n with
      | .dir _ => DirAt es r
      | .file _ _ => FileAt es r) : Kinds root es (fs.set (root ++ r) n) := by
  intro r2 n2 h2
  by_cases e : r2 = r
  · subst e; rw [lookup_set_self] at h2; cases h2; exact hn
  · have e' : root ++ r2 ≠ root ++ r := fun h => e (List.append_cancel_left h)
    rw [lookup_set_ne _ _ e'] at h2
    exact hk r2 n2 h2

theorem Kinds.ens {root : Path} {es : List EntryView} {fs fs' : FS} (hk : Kinds root es fs)
    {rr : List Comp} (hf : EnsFrame fs fs' root rr) (hs : (walk rr.reverse 0).isSome)
    (hd : ∀ t, t <:+ rr → DirAt es (resolve t.reverse)) : Kinds root es fs' := by
  intro r n h
  rcases hf (root ++ r) with e | ⟨_, ⟨t, ht, hq⟩, m, hm⟩
  · rw [e] at h; exact hk r n h
  · rw [hm] at h; cases h
    rw [resolveFrom_root_safe root (safe_suffix ht hs)] at hq
    have := List.append_cancel_left hq
    subst this
    exact hd t ht

/-! ### growth: directories stay (searchable) directories, files stay files -/

def Grows (c : Cfg) (fs fs' : FS) : Prop :=
  Keeps c fs fs' ∧ ∀ q b m, fs.lookup q = some (.file b m) → ∃ b' m', fs'.lookup q = some (.file b' m')

theorem Grows.refl (c : Cfg) (fs : FS) : Grows c fs fs := ⟨Keeps.refl c fs, fun _ b m h => ⟨b, m, h⟩⟩

theorem Grows.trans {c : Cfg} {a b d : FS} (h1 : Grows c a b) (h2 : Grows c b d) : Grows c a d :=
  ⟨h1.1.trans h2.1, fun q b0 m0 h => by
    obtain ⟨b1, m1, h'⟩ := h1.2 q b0 m0 h
    exact h2.2 q b1 m1 h'⟩

theorem grows_of_ens {c : Cfg} {fs fs' : FS} {root : Path} {rr : List Comp} (hk : Keeps c fs fs')
    (hf : EnsFrame fs fs' root rr) : Grows c fs fs' := by
  refine ⟨hk, fun q b m h => ?_⟩
  rcases hf q with e | ⟨hn, _, _⟩
  · exact ⟨b, m, by rw [e]; exact h⟩
  · rw [hn] at h; cases h

theorem grows_set_file {c : Cfg} {fs : FS} {p : Path} (b : Bytes) (m : Nat)
    (h : ∀ m0, fs.lookup p ≠ some (.dir m0)) : Grows c fs (fs.set p (.file b m)) := by
  refine ⟨keeps_set_nondir _ h, fun q b0 m0 hq => ?_⟩
  by_cases e : q = p
  · subst e; exact ⟨b, m, lookup_set_self _ _ _⟩
  · exact ⟨b0, m0, by rw [lookup_set_ne _ _ e]; exact hq⟩

theorem grows_set_dir {c : Cfg} {fs : FS} {p : Path} {m0 : Nat} (m : Nat)
    (hold : fs.lookup p = some (.dir m0)) (hb : c.priv = true ∨ hasBits m 0o100 = true) :
    Grows c fs (fs.set p (.dir m)) := by
  refine ⟨keeps_set_dir m hb, fun q b1 m1 hq => ?_⟩
  have e : q ≠ p := fun e => by subst e; rw [hold] at hq; cases hq
  exact ⟨b1, m1, by rw [lookup_set_ne _ _ e]; exact hq⟩

/-! ### an entry that has been placed -/

/-- The path of the entry resolves in `fs`: to a directory for a directory name, to a regular file
in an existing directory otherwise. -/
def Placed (c : Cfg) (root : Path) (fs : FS) (n : Name) : Prop :=
  if isDirName n then ∃ p, walkR c fs ((relComps n).reverse ++ rootRev root) = .ok p
  else ∃ s up d b m, (relComps n).reverse = .normal s :: up ∧ walkR c fs (up ++ rootRev root) = .ok d ∧
    fs.lookup (d ++ [s]) = some (.file b m)

theorem Placed.grows {c : Cfg} {root : Path} {fs fs' : FS} {n : Name} (h : Placed c root fs n)
    (hg : Grows c fs fs') : Placed c root fs' n := by
  unfold Placed at *
  split
  · next hd =>
    rw [if_pos hd] at h
    obtain ⟨p, hp⟩ := h
    exact ⟨p, walkR_keeps hg.1 hp⟩
  · next hd =>
    rw [if_neg hd] at h
    obtain ⟨s, up, d, b, m, h1, h2, h3⟩ := h
    obtain ⟨b', m', h3'⟩ := hg.2 _ b m h3
    exact ⟨s, up, d, b', m', h1, walkR_keeps hg.1 h2, h3'⟩

/-! ### what `Consistent` says about one entry -/

structure EntryOK (c : Cfg) (es : List EntryView) (e : EntryView) : Prop where
  mem : e ∈ es
  enclosed : (enclosedName e.name).isSome = true
  openOk : e.openErr = none
  readOk : e.readErr = none
  file : isDirName e.name = false → tailDot e.name = false ∧ lastNormal (relComps e.name) = true
  dots : isDirName e.name = true → tailDot e.name = true → lastParentOrEmpty (relComps e.name) = true

theorem EntryOK.safe {c : Cfg} {es : List EntryView} {e : EntryView} (h : EntryOK c es e) :
    (walk (relComps e.name).reverse.reverse 0).isSome := by
  obtain ⟨p, hp⟩ := Option.isSome_iff_exists.mp h.enclosed
  exact safe_of_enclosed hp

theorem lastNormal_reverse {cs : List Comp} (h : lastNormal cs = true) :
    ∃ s up, cs.reverse = .normal s :: up := by
  unfold lastNormal at h
  rw [List.getLast?_eq_head?_reverse] at h
  cases hr : cs.reverse with
  | nil => rw [hr] at h; simp at h
  | cons x up =>
    rw [hr] at h
    cases x with
    | normal s => exact ⟨s, up, rfl⟩
    | _ => simp at h

theorem lastParentOrEmpty_reverse {cs : List Comp} (h : lastParentOrEmpty cs = true) :
    cs.reverse = [] ∨ ∃ up, cs.reverse = .parentDir :: up := by
  unfold lastParentOrEmpty at h
  rw [List.getLast?_eq_head?_reverse] at h
  cases hr : cs.reverse with
  | nil => exact Or.inl rfl
  | cons x up =>
    rw [hr] at h
    cases x with
    | parentDir => exact Or.inr ⟨up, rfl⟩
    | _ => simp at h

theorem endsSlash_false {n : Name} (h1 : isDirName n = false) (h2 : n ≠ []) : endsSlash n = false := by
  unfold isDirName at h1
  unfold endsSlash
  cases hl : n.getLast? with
  | none => exact absurd (List.getLast?_eq_none_iff.mp hl) h2
  | some ch =>
    rw [hl] at h1
    simp only [beq_eq_false_iff_ne, ne_eq, Option.some.injEq] at h1
    simpa using h1

theorem relComps_nil : relComps [] = [] := by simp [relComps, components]

/-! ### placing a directory entry -/

theorem joinedR_eq (root : Path) (n : Name) : joinedR root n = (relComps n).reverse ++ rootRev root := rfl

theorem dirAt_of_dirEntry {es : List EntryView} {e : EntryView} (hm : e ∈ es) (hd : isDirName e.name = true)
    (t : List Comp) (ht : t <:+ (relComps e.name).reverse) : DirAt es (resolve t.reverse) := by
  refine Or.inr ⟨e, hm, ?_⟩
  unfold dirPaths dirPartR
  rw [if_pos hd]
  exact mem_positionsR ht

theorem dirAt_of_fileEntry {es : List EntryView} {e : EntryView} (hm : e ∈ es) (hd : isDirName e.name = false)
    {s : Name} {up : List Comp} (hr : (relComps e.name).reverse = .normal s :: up)
    (t : List Comp) (ht : t <:+ up) : DirAt es (resolve t.reverse) := by
  refine Or.inr ⟨e, hm, ?_⟩
  unfold dirPaths dirPartR
  rw [if_neg (by simp [hd]), hr]
  exact mem_positionsR ht

theorem placeEntry_dir {c : Cfg} {root : Path} {es : List EntryView} {fs : FS} {e : EntryView}
    (hi : Inv c root fs) (hk : Kinds root es fs) (hpc : PermCfg c)
    (hDF : ∀ r, DirAt es r → FileAt es r → False) (he : EntryOK c es e)
    (hd : isDirName e.name = true) (chk : Bool) :
    placeEntry c chk root e fs = (putEntry c root e fs, none) ∧ Inv c root (putEntry c root e fs) ∧
      Kinds root es (putEntry c root e fs) ∧ Grows c fs (putEntry c root e fs) ∧
      Placed c root (putEntry c root e fs) e.name := by
  have hs := he.safe
  have hdirs := dirAt_of_dirEntry he.mem hd
  have hclear : Clear fs root (relComps e.name).reverse := hk.clear hDF hs hdirs
  obtain ⟨hw, hi', hk', hf'⟩ := ensureR_post hi hpc hs hclear
  have hput : putEntry c root e fs = (ensureR c root (relComps e.name).reverse fs).1 := by
    simp [putEntry, hd]
  have hcda : createDirAll c (joinedR root e.name) (tailDot e.name) fs =
      ((ensureR c root (relComps e.name).reverse fs).1, none) := by
    rw [joinedR_eq]
    cases hdot : tailDot e.name with
    | false => exact cda_eq hi hpc hs hclear
    | true => exact cda_eq_dot hi hpc hs hclear (lastParentOrEmpty_reverse (he.dots hd hdot))
  rw [hput]
  refine ⟨?_, hi', hk.ens hf' hs hdirs, grows_of_ens hk' hf', ?_⟩
  · simp [placeEntry, hd, hcda, liftFs]
  · unfold Placed; rw [if_pos hd]; exact ⟨_, hw⟩

/-! ### placing a file entry -/

theorem pathExists_walk {c : Cfg} {root : Path} {fs : FS} (hi : Inv c root fs) {up : List Comp}
    (hs : (walk up.reverse 0).isSome) (hclear : Clear fs root up)
    (h : pathExists c fs (up ++ rootRev root) = true) : ∃ cur, walkR c fs (up ++ rootRev root) = .ok cur := by
  cases hw : walkR c fs (up ++ rootRev root) with
  | ok cur => exact ⟨cur, rfl⟩
  | error e =>
    exfalso
    cases up with
    | nil =>
      simp only [List.nil_append] at hw
      have := hi.chain
      unfold rootRev at hw
      rw [this] at hw; cases hw
    | cons x up1 =>
      rw [List.cons_append] at hw h
      have hs1 := safe_tail hs
      by_cases hx : ∃ s, x = .normal s
      · obtain ⟨s, rfl⟩ := hx
        cases hw1 : walkR c fs (up1 ++ rootRev root) with
        | error e1 => simp [pathExists, stat, locateR_normal_err hw1] at h
        | ok d =>
          have hsearch := (walk_end_search hi hs1 hw1).1
          rw [walkR_cons_ok hw1] at hw
          have hloc := locateR_normal (s := s) hw1 hsearch
          cases hl : fs.lookup (d ++ [s]) with
          | none => simp [pathExists, stat, hloc, hl] at h
          | some n =>
            cases n with
            | dir m => rw [step_normal_dir hsearch hl] at hw; cases hw
            | file b m =>
              have := hclear _ (List.suffix_refl _) b m
              rw [resolveFrom_reverse_cons, ← resolve_joined', ← walkR_lex hw1] at this
              exact this hl
      · have hx' : ∀ s, x ≠ .normal s := fun s e => hx ⟨s, e⟩
        simp [pathExists, stat, locateR_other hx', hw] at h

theorem createFile_eq {c : Cfg} {fs : FS} {s : Name} {rest : List Comp} {d : Path}
    (hw : walkR c fs rest = .ok d) (hsearch : canSearch c fs d = true) (hmod : canModifyDir c fs d = true)
    (hnd : ∀ m, fs.lookup (d ++ [s]) ≠ some (.dir m))
    (hwr : ∀ b m, fs.lookup (d ++ [s]) = some (.file b m) → canWriteFile c m = true) :
    createFile c fs (.normal s :: rest) false =
      .ok (fs.set (d ++ [s]) (.file [] (openedFileMode c (fs.lookup (d ++ [s])))), d ++ [s]) := by
  have hloc := locateR_normal (s := s) hw hsearch
  cases hl : fs.lookup (d ++ [s]) with
  | none => simp [createFile, hloc, hl, hmod, openedFileMode]
  | some n =>
    cases n with
    | dir m => exact absurd hl (hnd m)
    | file b m => simp [createFile, hloc, hl, hwr b m hl, openedFileMode]

theorem placeEntry_file {c : Cfg} {root : Path} {es : List EntryView} {fs : FS} {e : EntryView}
    (hi : Inv c root fs) (hk : Kinds root es fs) (hpc : PermCfg c)
    (hDF : ∀ r, DirAt es r → FileAt es r → False) (he : EntryOK c es e)
    (hd : isDirName e.name = false) (chk : Bool) :
    placeEntry c chk root e fs = (putEntry c root e fs, none) ∧ Inv c root (putEntry c root e fs) ∧
      Kinds root es (putEntry c root e fs) ∧ Grows c fs (putEntry c root e fs) ∧
      Placed c root (putEntry c root e fs) e.name := by
  have hs := he.safe
  obtain ⟨hdot, hln⟩ := he.file hd
  obtain ⟨s, up, hr⟩ := lastNormal_reverse hln
  rw [hr] at hs
  have hs0 := safe_tail hs
  have hdirs := dirAt_of_fileEntry he.mem hd hr
  have hclear : Clear fs root up := hk.clear hDF hs0 hdirs
  obtain ⟨hw0, hi0, hk0, hf0⟩ := ensureR_post hi hpc hs0 hclear
  have hkinds0 : Kinds root es (ensureR c root up fs).1 := hk.ens hf0 hs0 hdirs
  obtain ⟨hcur0, m0, hm0⟩ := walk_end hi0 hs0 hw0
  obtain ⟨hsearch0, hmod0⟩ := walk_end_search hi0 hs0 hw0
  have hname : e.name ≠ [] := by
    intro e0
    rw [e0, relComps_nil] at hr; simp at hr
  have hslash := endsSlash_false hd hname
  -- the file's relative path
  have hrf : resolve (relComps e.name) = resolve up.reverse ++ [s] := by
    have : relComps e.name = (Comp.normal s :: up).reverse := by rw [← hr, List.reverse_reverse]
    rw [this, resolve_reverse_cons]; rfl
  have hfileAt : FileAt es (resolve up.reverse ++ [s]) :=
    ⟨e, he.mem, by simp [filePath, hd, hrf]⟩
  generalize hr0 : ensureR c root up fs = r0 at hw0 hi0 hk0 hf0 hkinds0 hcur0 hm0 hsearch0 hmod0
  have hp : r0.2 ++ [s] = root ++ (resolve up.reverse ++ [s]) := by rw [hcur0, List.append_assoc]
  have hnd : ∀ m, r0.1.lookup (r0.2 ++ [s]) ≠ some (.dir m) := by
    intro m hl
    rw [hp] at hl
    exact hDF _ (hkinds0 _ _ hl) hfileAt
  have hwr : ∀ b m, r0.1.lookup (r0.2 ++ [s]) = some (.file b m) → canWriteFile c m = true := by
    intro b m hl
    rw [hp] at hl
    exact hi0.write hl
  -- the parent directories
  have hpar : ensureParent c chk (joinedR root e.name) fs = (r0.1, none) := by
    rw [joinedR_eq, hr, List.cons_append]
    simp only [ensureParent]
    split
    · next hc =>
      have hex : pathExists c fs (up ++ rootRev root) = true := by
        simp only [Bool.and_eq_true] at hc; exact hc.2
      obtain ⟨cur, hcur⟩ := pathExists_walk hi hs0 hclear hex
      have := ensureR_noop hcur
      rw [hr0] at this
      rw [this]
    · rw [cda_eq hi hpc hs0 hclear, hr0]
  -- the file
  have hcf := createFile_eq (s := s) hw0 hsearch0 hmod0 hnd hwr
  generalize hm' : openedFileMode c (r0.1.lookup (r0.2 ++ [s])) = m' at hcf
  have hput : putEntry c root e fs =
      (r0.1.set (r0.2 ++ [s]) (.file [] m')).set (r0.2 ++ [s]) (.file e.data m') := by
    simp only [putEntry, hd, Bool.false_eq_true, if_false, hr, hr0]
    rw [hm']
  have hok' : c.priv = true ∨ hasBits m' 0o200 = true := by
    cases hpv : c.priv with
    | true => exact Or.inl rfl
    | false =>
      right
      rw [← hm']
      unfold openedFileMode
      split
      · next b m hl =>
        rcases hi0.perm with hp' | hp'
        · rw [hpv] at hp'; cases hp'
        · rw [hp] at hl
          exact nodeOK_dropPrivs hpv (hp' _ _ hl) []
      · rcases hpc with hpc | hpc
        · rw [hpv] at hpc; cases hpc
        · exact hpc.2
  have hi2 : Inv c root (r0.1.set (r0.2 ++ [s]) (.file [] m')) := by
    rw [hp]
    cases hl : r0.1.lookup (root ++ (resolve up.reverse ++ [s])) with
    | none =>
      apply hi0.set_new (by simp) hl
      · rw [List.dropLast_concat, ← hcur0]; exact ⟨m0, hm0⟩
      · exact hok'
    | some n =>
      cases n with
      | dir m => rw [← hp] at hl; exact absurd hl (hnd m)
      | file b m => exact hi0.set_file hl hok'
  have hi3 : Inv c root ((r0.1.set (r0.2 ++ [s]) (.file [] m')).set (r0.2 ++ [s]) (.file e.data m')) := by
    rw [hp] at hi2 ⊢
    exact hi2.set_file (lookup_set_self _ _ _) hok'
  have hg2 : Grows c r0.1 (r0.1.set (r0.2 ++ [s]) (.file [] m')) := grows_set_file _ _ hnd
  have hg3 : Grows c (r0.1.set (r0.2 ++ [s]) (.file [] m'))
      ((r0.1.set (r0.2 ++ [s]) (.file [] m')).set (r0.2 ++ [s]) (.file e.data m')) :=
    grows_set_file _ _ (by rw [lookup_set_self]; simp)
  have hg : Grows c fs ((r0.1.set (r0.2 ++ [s]) (.file [] m')).set (r0.2 ++ [s]) (.file e.data m')) :=
    ((grows_of_ens hk0 hf0).trans hg2).trans hg3
  rw [hput]
  refine ⟨?_, hi3, ?_, hg, ?_⟩
  · simp only [placeEntry, hd, Bool.false_eq_true, if_false, hpar]
    rw [joinedR_eq, hr, List.cons_append, hdot, hslash]
    simp only [dotted, Bool.false_eq_true, if_false]
    rw [hcf]
    simp only [he.readOk, writeAt, lookup_set_self]
  · rw [hp]
    exact (hkinds0.set (n := .file [] m') hfileAt).set (n := .file e.data m') hfileAt
  · unfold Placed
    rw [if_neg (by simp [hd])]
    exact ⟨s, up, r0.2, e.data, m', hr, walkR_keeps (hg2.trans hg3).1 hw0, lookup_set_self _ _ _⟩

theorem placeEntry_eq {c : Cfg} {root : Path} {es : List EntryView} {fs : FS} {e : EntryView}
    (hi : Inv c root fs) (hk : Kinds root es fs) (hpc : PermCfg c)
    (hDF : ∀ r, DirAt es r → FileAt es r → False) (he : EntryOK c es e) (chk : Bool) :
    placeEntry c chk root e fs = (putEntry c root e fs, none) ∧ Inv c root (putEntry c root e fs) ∧
      Kinds root es (putEntry c root e fs) ∧ Grows c fs (putEntry c root e fs) ∧
      Placed c root (putEntry c root e fs) e.name := by
  cases hd : isDirName e.name with
  | true => exact placeEntry_dir hi hk hpc hDF he hd chk
  | false => exact placeEntry_file hi hk hpc hDF he hd chk

end ZipVerif.Model.Extract
