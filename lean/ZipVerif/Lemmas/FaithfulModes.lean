import ZipVerif.Lemmas.FaithfulEntry
/-
Faithfulness, part 3b: applying the recorded modes after every entry has been placed.

While modes are applied the invariant `Inv` (every node below the target keeps owner write/search) no
longer holds — that is the point: ANY permission bits may be recorded.  What is maintained instead is
`Reach`: for every mode still to be applied, the path `chmod` is handed still resolves (`locateR`) to
the entry's node.  A `chmod` of another node can only break that by removing search permission from a
directory the path is walked through (`searched`); the order of application (deepest first,
`sortModes`) together with `Unlocked` excludes it.
-/

namespace ZipVerif.Model.Extract
open ZipVerif ZipVerif.Spec.Paths ZipVerif.Spec.FS ZipVerif.Spec.Tree ZipVerif.Model.Paths

/-- The (reversed) component list `set_permissions(directory.join(name))` hands to the kernel. -/
def chmodPath (root : Path) (n : Name) : List Comp := dotted (joinedR root n) (tailDot n)

def isDirNode : Node → Bool
  | .dir _ => true
  | .file _ _ => false

/-- `chmod` of the entry's path will find the entry's node. -/
def Reach (c : Cfg) (root : Path) (fs : FS) (n : Name) : Prop :=
  ∃ t nd, locateR c fs (chmodPath root n) = .ok t ∧ t.path = resolveFrom root (relComps n) ∧
    fs.lookup t.path = some nd ∧ ((endsSlash n = true ∨ ∃ p, t = .self p) → isDirNode nd = true)

theorem applyMode_of_reach {c : Cfg} {root : Path} {fs : FS} {n : Name} (m : Nat)
    (h : Reach c root fs n) : applyMode c root n (some m) fs = (setMode root n (some m) fs, none) := by
  obtain ⟨t, nd, hl, hp, hlk, hdir⟩ := h
  unfold chmodPath at hl
  simp only [applyMode, setMode, setPermissions, hl, chmodAt, ← hp]
  cases t with
  | self p =>
    simp only [Target.path] at hlk ⊢
    have hd := hdir (Or.inr ⟨p, rfl⟩)
    cases nd with
    | dir m0 => simp [hlk]
    | file b m0 => simp [isDirNode] at hd
  | entry d s =>
    simp only [Target.path] at hlk ⊢
    cases nd with
    | dir m0 => simp [hlk]
    | file b m0 =>
      cases hsl : endsSlash n with
      | true => have := hdir (Or.inl hsl); simp [isDirNode] at this
      | false => simp [hlk]

/-- After the placing phase (the invariant `Inv` still holds) every placed entry is reachable. -/
theorem reach_of_placed {c : Cfg} {root : Path} {fs : FS} {n : Name} (hi : Inv c root fs)
    (hpl : Placed c root fs n) (hs : (walk (relComps n).reverse.reverse 0).isSome)
    (hfile : isDirName n = false → tailDot n = false ∧ n ≠ []) : Reach c root fs n := by
  unfold Placed at hpl
  cases hd : isDirName n with
  | true =>
    rw [if_pos hd] at hpl
    obtain ⟨p, hp⟩ := hpl
    obtain ⟨hpe, m0, hm0⟩ := walk_end hi hs hp
    have hpr : resolveFrom root (relComps n) = p := by
      rw [hpe, ← resolveFrom_root_safe root hs, List.reverse_reverse]
    have hsr : canSearch c fs p = true := by
      rw [hpe] at hm0 ⊢; exact (hi.search hm0).1
    have hw := walkR_dotted (tailDot n) hp (fun _ => hsr)
    obtain ⟨t, ht, htp⟩ := locateR_of_walkR hw
    refine ⟨t, .dir m0, ?_, by rw [htp, hpr], by rw [htp]; exact hm0, fun _ => rfl⟩
    unfold chmodPath; rw [joinedR_eq]; exact ht
  | false =>
    rw [if_neg (by simp [hd])] at hpl
    obtain ⟨s, up, d, b, m0, hr, hw, hl⟩ := hpl
    obtain ⟨hdot, hne⟩ := hfile hd
    rw [hr] at hs
    have hs0 := safe_tail hs
    have hsearch := (walk_end_search hi hs0 hw).1
    obtain ⟨hde, _⟩ := walk_end hi hs0 hw
    have hpr : resolveFrom root (relComps n) = d ++ [s] := by
      have : relComps n = (Comp.normal s :: up).reverse := by rw [← hr, List.reverse_reverse]
      rw [this, resolveFrom_reverse_cons, resolveFrom_root_safe root hs0, ← hde]; rfl
    refine ⟨.entry d s, .file b m0, ?_, by simp [Target.path, hpr], by simpa [Target.path] using hl, ?_⟩
    · unfold chmodPath
      rw [joinedR_eq, hr, hdot, List.cons_append]
      simp only [dotted, Bool.false_eq_true, if_false]
      exact locateR_normal hw hsearch
    · rintro (h | ⟨p, hp⟩)
      · rw [endsSlash_false hd hne] at h; cases h
      · cases hp

/-! ### re-binding one node with a node of the same kind -/

theorem canSearch_set_ne {c : Cfg} {fs : FS} {T q : Path} (nd : Node) (h : q ≠ T) :
    canSearch c (fs.set T nd) q = canSearch c fs q := by
  unfold canSearch; rw [lookup_set_ne _ _ h]

theorem step_set {c : Cfg} {fs : FS} {T cur p : Path} {nd : Node} {x : Comp}
    (h : step c fs cur x = .ok p)
    (hk : ∀ m, fs.lookup T = some (.dir m) → ∃ m', nd = .dir m')
    (hs : cur = T → canSearch c (fs.set T nd) T = true) : step c (fs.set T nd) cur x = .ok p := by
  have hsearch : canSearch c fs cur = true → canSearch c (fs.set T nd) cur = true := by
    intro h0
    by_cases e : cur = T
    · rw [e]; exact hs e
    · rw [canSearch_set_ne nd e]; exact h0
  cases x with
  | rootDir => exact h
  | curDir =>
    obtain ⟨h1, hp⟩ := step_cur_inv h
    rw [hp]; exact step_cur (hsearch h1)
  | parentDir =>
    obtain ⟨h1, hp⟩ := step_parent_inv h
    rw [hp]; exact step_parent (hsearch h1)
  | normal s =>
    obtain ⟨h1, hp, m, hm⟩ := step_normal_inv h
    rw [hp]
    by_cases e : cur ++ [s] = T
    · obtain ⟨m', rfl⟩ := hk m (e ▸ hm)
      exact step_normal_dir (hsearch h1) (by rw [e]; exact lookup_set_self _ _ _)
    · exact step_normal_dir (hsearch h1) (by rw [lookup_set_ne _ _ e]; exact hm)

theorem suffix_cons_ne {α} {u up : List α} {x : α} (h : u <:+ up) : u ≠ x :: up := by
  intro e
  have := h.length_le
  rw [e] at this; simp only [List.length_cons] at this; omega

theorem walkR_set {c : Cfg} {fs : FS} {T : Path} {nd : Node} {rp : List Comp} {p : Path}
    (h : walkR c fs rp = .ok p)
    (hk : ∀ m, fs.lookup T = some (.dir m) → ∃ m', nd = .dir m')
    (hs : ∀ u, u <:+ rp → u ≠ rp → resolve u.reverse = T → canSearch c (fs.set T nd) T = true) :
    walkR c (fs.set T nd) rp = .ok p := by
  induction rp generalizing p with
  | nil => exact h
  | cons x up ih =>
    obtain ⟨cur, hc, hst⟩ := walkR_cons_inv h
    have h0 := ih hc (fun u hu hne hr =>
      hs u (List.suffix_cons_iff.mpr (Or.inr hu)) (suffix_cons_ne hu) hr)
    rw [walkR_cons_ok h0]
    apply step_set hst hk
    intro e
    exact hs up (List.suffix_cons _ _) (suffix_cons_ne (List.suffix_refl _)) (by rw [← walkR_lex hc]; exact e)

theorem locateR_set {c : Cfg} {fs : FS} {T : Path} {nd : Node} {rp : List Comp} {t : Target}
    (h : locateR c fs rp = .ok t)
    (hk : ∀ m, fs.lookup T = some (.dir m) → ∃ m', nd = .dir m')
    (hs : ∀ u, u <:+ rp → u ≠ rp → resolve u.reverse = T → canSearch c (fs.set T nd) T = true) :
    locateR c (fs.set T nd) rp = .ok t := by
  cases rp with
  | nil => exact h
  | cons x up =>
    by_cases hx : ∃ s, x = .normal s
    · obtain ⟨s, rfl⟩ := hx
      cases hw : walkR c fs up with
      | error e => rw [locateR_normal_err hw] at h; cases h
      | ok d =>
        simp only [locateR, hw] at h
        split at h
        · next hsd =>
          have hw' := walkR_set hw hk (fun u hu hne hr =>
            hs u (List.suffix_cons_iff.mpr (Or.inr hu)) (suffix_cons_ne hu) hr)
          have hsd' : canSearch c (fs.set T nd) d = true := by
            by_cases e : d = T
            · rw [e]
              exact hs up (List.suffix_cons _ _) (suffix_cons_ne (List.suffix_refl _))
                (by rw [← walkR_lex hw]; exact e)
            · rw [canSearch_set_ne nd e]; exact hsd
          rw [locateR_normal hw' hsd']; exact h
        · cases h
    · have hx' : ∀ s, x ≠ .normal s := fun s e => hx ⟨s, e⟩
      rw [locateR_other hx'] at h ⊢
      cases hw : walkR c fs (x :: up) with
      | error e => rw [hw] at h; cases h
      | ok d =>
        rw [hw] at h
        rw [walkR_set hw hk hs]; exact h

/-- Re-binding `T` with a node of the same kind (and the same bytes) keeps an entry reachable unless
it takes search permission away from a directory the entry's path is walked through. -/
theorem Reach.set {c : Cfg} {root : Path} {fs : FS} {n : Name} {T : Path} {nd : Node}
    (h : Reach c root fs n)
    (hk : ∀ m, fs.lookup T = some (.dir m) → ∃ m', nd = .dir m')
    (hkf : ∀ b m, fs.lookup T = some (.file b m) → ∃ m', nd = .file b m')
    (hs : ∀ u, u <:+ chmodPath root n → u ≠ chmodPath root n → resolve u.reverse = T →
      canSearch c (fs.set T nd) T = true) : Reach c root (fs.set T nd) n := by
  obtain ⟨t, nd1, hl, hp, hlk, hdir⟩ := h
  have hl' := locateR_set hl hk hs
  by_cases e : t.path = T
  · refine ⟨t, nd, hl', hp, by rw [e]; exact lookup_set_self _ _ _, ?_⟩
    intro hreq
    have hd1 := hdir hreq
    cases nd1 with
    | dir m =>
      obtain ⟨m', rfl⟩ := hk m (e ▸ hlk)
      rfl
    | file b m => simp [isDirNode] at hd1
  · exact ⟨t, nd1, hl', hp, by rw [lookup_set_ne _ _ e]; exact hlk, hdir⟩

/-! ### which directories a path is walked through -/

theorem resolveFrom_length_le (st : Path) (cs : List Comp) :
    (resolveFrom st cs).length ≤ st.length + cs.length := by
  induction cs generalizing st with
  | nil => simp [resolveFrom]
  | cons x cs ih =>
    have := ih (resolveStep st x)
    simp only [resolveFrom, List.foldl_cons, List.length_cons] at this ⊢
    have hx : (resolveStep st x).length ≤ st.length + 1 := by
      cases x <;> simp [resolveStep] <;> omega
    omega

theorem suffix_joined {u rr base : List Comp} (h : u <:+ rr ++ base) :
    (∃ t, t <:+ rr ∧ u = t ++ base) ∨ (u <:+ base ∧ u ≠ base) := by
  induction rr with
  | nil =>
    by_cases e : u = base
    · exact Or.inl ⟨[], List.suffix_refl _, by simp [e]⟩
    · exact Or.inr ⟨by simpa using h, e⟩
  | cons x rr ih =>
    rw [List.cons_append] at h
    rcases List.suffix_cons_iff.mp h with rfl | h
    · exact Or.inl ⟨x :: rr, List.suffix_refl _, rfl⟩
    · rcases ih h with ⟨t, ht, hu⟩ | h2
      · exact Or.inl ⟨t, List.suffix_cons_iff.mpr (Or.inr ht), hu⟩
      · exact Or.inr h2

/-- A proper initial part of the path handed to `chmod` that resolves to `root ++ r`: then `r` is one
of the directories the entry's path is walked through. -/
theorem searched_of_suffix {root : Path} {rr : List Comp} {dot : Bool} {u : List Comp} {r : Path}
    (hs : (walk rr.reverse 0).isSome)
    (hu : u <:+ dotted (rr ++ rootRev root) dot) (hne : u ≠ dotted (rr ++ rootRev root) dot)
    (hr : resolve u.reverse = root ++ r) :
    r ∈ searchedR rr ++ (if dot then [resolve rr.reverse] else []) := by
  have hu' : u <:+ rr ++ rootRev root ∧ (dot = false → u ≠ rr ++ rootRev root) := by
    cases dot with
    | false => simp only [dotted, Bool.false_eq_true, if_false] at hu hne; exact ⟨hu, fun _ => hne⟩
    | true =>
      simp only [dotted, if_true] at hu hne
      rcases List.suffix_cons_iff.mp hu with e | h
      · exact absurd e hne
      · exact ⟨h, fun e => by cases e⟩
  obtain ⟨hu1, hu2⟩ := hu'
  rcases suffix_joined hu1 with ⟨t, ht, rfl⟩ | ⟨h1, h2⟩
  · rw [resolve_joined_safe' root t (safe_suffix ht hs)] at hr
    have hr' := List.append_cancel_left hr
    subst hr'
    by_cases e : t = rr
    · subst e
      cases dot with
      | false => exact absurd rfl (hu2 rfl)
      | true => simp
    · apply List.mem_append_left
      cases rr with
      | nil => exact absurd (List.suffix_nil.mp ht) e
      | cons x up =>
        rcases List.suffix_cons_iff.mp ht with e' | ht'
        · exact absurd e' e
        · exact mem_positionsR ht'
  · exfalso
    have hlen : u.length < (rootRev root).length := by
      have := h1.length_le
      have hne' : u.length ≠ (rootRev root).length := fun e => h2 (h1.eq_of_length e)
      omega
    have h3 := resolveFrom_length_le [] u.reverse
    have h4 := congrArg List.length hr
    simp only [resolve] at h4
    simp only [rootRev, List.length_map, List.length_reverse] at hlen
    simp only [List.length_nil, List.length_reverse, List.length_append] at h3 h4
    omega

theorem pathDepth_eq {n p : Name} (h : enclosedName n = some p) :
    pathDepth n = (resolve (relComps n)).length := by
  unfold enclosedName at h
  split at h
  · cases h
  · split at h
    · next d' hw =>
      unfold pathDepth
      rw [depthStep_walk hw]
      have hw' : walk (relComps n) ([] : Path).length = some d' := by
        unfold relComps; rw [walk_filter_curDir]; exact hw
      obtain ⟨r', hl, hr⟩ := resolveFrom_of_walk [] (relComps n) [] d' hw'
      have : resolve (relComps n) = r' := by simpa [resolve] using hr
      rw [this, hl]
    · cases h

/-- The directories a path is walked through are directories the entry needs. -/
theorem searched_sub_dirPaths {c : Cfg} {es : List EntryView} {e : EntryView} (he : EntryOK c es e)
    {r : Path} (h : r ∈ searched e) : r ∈ dirPaths e := by
  unfold searched at h
  unfold dirPaths dirPartR
  cases hd : isDirName e.name with
  | true =>
    rw [if_pos rfl]
    rcases List.mem_append.mp h with h | h
    · cases hrr : (relComps e.name).reverse with
      | nil => rw [hrr] at h; simp [searchedR] at h
      | cons x up =>
        rw [hrr] at h
        simp only [searchedR] at h
        simp only [positionsR, List.mem_cons]
        exact Or.inr h
    · split at h
      · simp only [List.mem_singleton] at h
        subst h
        have := mem_positionsR (List.suffix_refl (relComps e.name).reverse)
        rwa [List.reverse_reverse] at this
      · cases h
  | false =>
    rw [if_neg (by simp)]
    obtain ⟨hdot, hln⟩ := he.file hd
    obtain ⟨s, up, hr⟩ := lastNormal_reverse hln
    rw [hdot, hr] at h
    simpa [searchedR, hr] using h

/-! ### the whole mode phase -/

theorem chmodAt_eq_set {fs : FS} {T : Path} {nd : Node} (m : Nat) (h : fs.lookup T = some nd) :
    ∃ nd', chmodAt fs T m = fs.set T nd' ∧
      (∀ m0, nd = .dir m0 → nd' = .dir (m &&& 0o7777)) ∧
      (∀ b m0, nd = .file b m0 → nd' = .file b (m &&& 0o7777)) := by
  cases nd with
  | dir m0 =>
    refine ⟨.dir (m &&& 0o7777), by simp [chmodAt, h], fun _ _ => rfl, ?_⟩
    intro b' m1 e; cases e
  | file b m0 =>
    refine ⟨.file b (m &&& 0o7777), by simp [chmodAt, h], ?_, ?_⟩
    · intro m1 e; cases e
    · intro b' m1 e; cases e; rfl

theorem applyModes_eq {c : Cfg} {root : Path} {es : List EntryView}
    (hDF : ∀ r, DirAt es r → FileAt es r → False) (hun : c.priv = true ∨ Unlocked es)
    (L : List (Name × Option Nat))
    (hsorted : L.Pairwise fun a b => pathDepth b.1 ≤ pathDepth a.1)
    (hL : ∀ m ∈ L, m.2.isSome = true ∧ ∃ e ∈ es, m = (e.name, e.mode) ∧ EntryOK c es e)
    (fs : FS) (hk : Kinds root es fs) (hreach : ∀ m ∈ L, Reach c root fs m.1) :
    applyModes c root L fs = (setModes root L fs, none) := by
  induction L generalizing fs with
  | nil => rfl
  | cons m0 L ih =>
    obtain ⟨hsome, e, he, hm0, heok⟩ := hL m0 (by simp)
    obtain ⟨md, hmd⟩ := Option.isSome_iff_exists.mp hsome
    have hr0 := hreach m0 (by simp)
    have happ := applyMode_of_reach md hr0
    simp only [applyModes, setModes]
    rw [hmd, happ]
    simp only
    rw [← hmd]
    rw [List.pairwise_cons] at hsorted
    apply ih hsorted.2 (fun m hm => hL m (List.mem_cons_of_mem _ hm))
    · -- kinds are kept
      intro r n hl
      rw [hmd] at hl
      simp only [setMode, chmodAt] at hl
      split at hl
      · next m1 h1 =>
        by_cases e1 : root ++ r = resolveFrom root (relComps m0.1)
        · rw [e1, lookup_set_self] at hl; cases hl; exact hk r _ (e1 ▸ h1)
        · rw [lookup_set_ne _ _ e1] at hl; exact hk r n hl
      · next b m1 h1 =>
        by_cases e1 : root ++ r = resolveFrom root (relComps m0.1)
        · rw [e1, lookup_set_self] at hl; cases hl; exact hk r _ (e1 ▸ h1)
        · rw [lookup_set_ne _ _ e1] at hl; exact hk r n hl
      · exact hk r n hl
    · -- the remaining modes stay reachable
      intro m hm
      obtain ⟨t, nd, hl, hp, hlk, hdir⟩ := hr0
      have hsafe0 := heok.safe
      have hname0 : m0.1 = e.name := by rw [hm0]
      have hT : resolveFrom root (relComps m0.1) = root ++ target e := by
        rw [hname0]
        have := resolveFrom_root_safe root hsafe0
        rwa [List.reverse_reverse] at this
      rw [hp] at hlk
      obtain ⟨nd', hset, hdirk, hfilek⟩ := chmodAt_eq_set md hlk
      rw [hmd]
      simp only [setMode]
      rw [hset]
      have hrm := hreach m (List.mem_cons_of_mem _ hm)
      apply hrm.set
      · intro m1 h1
        rw [hlk] at h1; cases h1
        exact ⟨_, hdirk _ rfl⟩
      · intro b m1 h1
        rw [hlk] at h1; cases h1
        exact ⟨_, hfilek _ _ rfl⟩
      · intro u hu hne hru
        cases hpv : c.priv with
        | true => unfold canSearch; simp [hpv]
        | false =>
          have hun' : Unlocked es := by
            rcases hun with h | h
            · rw [hpv] at h; cases h
            · exact h
          -- the head's node is a directory that the later path is walked through
          obtain ⟨hsome', e', he', hm', heok'⟩ := hL m (List.mem_cons_of_mem _ hm)
          have hname : m.1 = e'.name := by rw [hm']
          have hmem : target e ∈ searched e' := by
            have := searched_of_suffix (root := root) (rr := (relComps e'.name).reverse)
              (dot := tailDot e'.name) (u := u) (r := target e) heok'.safe
              (by rw [← joinedR_eq, ← hname]; exact hu) (by rw [← joinedR_eq, ← hname]; exact hne)
              (by rw [hru, hT])
            unfold searched target
            rwa [List.reverse_reverse] at this
          have hdepth : (target e').length ≤ (target e).length := by
            have h1 := hsorted.1 m hm
            obtain ⟨p0, hp0⟩ := Option.isSome_iff_exists.mp heok.enclosed
            obtain ⟨p1, hp1⟩ := Option.isSome_iff_exists.mp heok'.enclosed
            rw [hname, hname0, pathDepth_eq hp0, pathDepth_eq hp1] at h1
            exact h1
          have hda : DirAt es (target e) := Or.inr ⟨e', he', searched_sub_dirPaths heok' hmem⟩
          cases nd with
          | file b m1 =>
            -- a regular file is never walked through
            exact (hDF _ hda (hk (target e) _ (hT ▸ hlk))).elim
          | dir m1 =>
            have hnd' := hdirk m1 rfl
            subst hnd'
            unfold canSearch
            rw [lookup_set_self]
            cases hb : hasBits (md &&& 0o7777) 0o100 with
            | true => simp [hb]
            | false =>
              exfalso
              have hdn : isDirName e.name = true := by
                cases hdn : isDirName e.name with
                | true => rfl
                | false =>
                  exfalso
                  have hfa : FileAt es (target e) := ⟨e, he, by simp [filePath, hdn, target]⟩
                  exact hDF _ hda hfa
              have hmode : md ∈ e.mode.toList := by
                have : e.mode = some md := by rw [← hmd, hm0]
                simp [this]
              have hsome2 : e'.mode.isSome = true := by rw [hm'] at hsome'; exact hsome'
              have := hun' e he e' he' md hmode hdn hb hsome2 hmem
              omega

end ZipVerif.Model.Extract
