import ZipVerif.Lemmas.FaithfulEntry
/-
Faithfulness, part 4: whole runs of both extractors on a consistent archive and a fresh target.
-/

namespace ZipVerif.Model.Extract
open ZipVerif ZipVerif.Spec.Paths ZipVerif.Spec.FS ZipVerif.Spec.Tree ZipVerif.Model.Paths

/-! ### unpacking `Consistent` and `Fresh` -/

theorem Consistent.entryOK {c : Cfg} {rootMode : Nat} {es : List EntryView} (h : Consistent c rootMode es)
    {e : EntryView} (he : e ∈ es) : EntryOK c es e := by
  obtain ⟨h1, h2, h3, _, h5⟩ := h
  refine ⟨he, (h1 e he).1, (h1 e he).2.1, (h1 e he).2.2, h2 e he, h3 e he, ?_⟩
  rcases h5 with h5 | h5
  · exact Or.inl h5
  · exact Or.inr (h5.2.2.2 e he)

theorem Consistent.permCfg {c : Cfg} {rootMode : Nat} {es : List EntryView} (h : Consistent c rootMode es) :
    PermCfg c := by
  rcases h.2.2.2.2 with h5 | h5
  · exact Or.inl h5
  · exact Or.inr ⟨h5.1, h5.2.1⟩

theorem resolve_lastNormal_ne_nil {cs : List Comp} (h : lastNormal cs = true) : resolve cs ≠ [] := by
  obtain ⟨s, up, hr⟩ := lastNormal_reverse h
  have : cs = (Comp.normal s :: up).reverse := by rw [← hr, List.reverse_reverse]
  rw [this, resolve_reverse_cons]
  simp [resolveStep]

theorem Consistent.disjoint {c : Cfg} {rootMode : Nat} {es : List EntryView} (h : Consistent c rootMode es) :
    ∀ r, DirAt es r → FileAt es r → False := by
  intro r hd hf
  obtain ⟨e1, he1, hp1⟩ := hf
  have hfile : isDirName e1.name = false := by
    cases hdn : isDirName e1.name with
    | false => rfl
    | true => simp [filePath, hdn] at hp1
  rcases hd with rfl | ⟨e2, he2, hp2⟩
  · simp only [filePath, hfile, Bool.false_eq_true, if_false, Option.some.injEq] at hp1
    exact resolve_lastNormal_ne_nil (h.2.1 e1 he1 hfile).2 hp1
  · exact h.2.2.2.1 e1 he1 e2 he2 r (by simp [hp1]) hp2

theorem Fresh.inv {c : Cfg} {fs : FS} {root : Path} {rootMode : Nat} {es : List EntryView}
    (hf : Fresh c fs root rootMode) (hc : Consistent c rootMode es) : Inv c root fs := by
  obtain ⟨h1, h2, h3⟩ := hf
  refine ⟨h1, ⟨rootMode, h2⟩, ?_, ?_⟩
  · intro r hr hne; exact absurd (h3 r hr) hne
  · rcases hc.2.2.2.2 with h5 | h5
    · exact Or.inl h5
    · refine Or.inr fun r n hl => ?_
      by_cases hr : r = []
      · subst hr
        rw [List.append_nil, h2] at hl; cases hl
        exact h5.2.2.1
      · rw [h3 r hr] at hl; cases hl

theorem Fresh.kinds {c : Cfg} {fs : FS} {root : Path} {rootMode : Nat} (es : List EntryView)
    (hf : Fresh c fs root rootMode) : Kinds root es fs := by
  obtain ⟨_, h2, h3⟩ := hf
  intro r n hl
  by_cases hr : r = []
  · subst hr
    rw [List.append_nil, h2] at hl; cases hl
    exact Or.inl rfl
  · rw [h3 r hr] at hl; cases hl

/-! ### the seekable extractor -/

theorem seekEntry_eq {c : Cfg} {root : Path} {es : List EntryView} {fs : FS} {e : EntryView}
    (hi : Inv c root fs) (hk : Kinds root es fs) (hpc : PermCfg c)
    (hDF : ∀ r, DirAt es r → FileAt es r → False) (he : EntryOK c es e) :
    seekEntry c root e fs = (setMode root e.name e.mode (putEntry c root e fs), none) ∧
      Inv c root (setMode root e.name e.mode (putEntry c root e fs)) ∧
      Kinds root es (setMode root e.name e.mode (putEntry c root e fs)) := by
  obtain ⟨hpl, hi1, hk1, _, hplaced⟩ := placeEntry_eq hi hk hpc hDF he true
  have hfile : isDirName e.name = false → tailDot e.name = false ∧ e.name ≠ [] := by
    intro hd
    obtain ⟨h1, h2⟩ := he.file hd
    refine ⟨h1, ?_⟩
    intro e0
    rw [e0, relComps_nil] at h2; simp [lastNormal] at h2
  obtain ⟨ham, hi2, hk2, _⟩ := applyMode_eq (mode := e.mode) hi1 hk1 hplaced he.safe hfile he.perms
  obtain ⟨p, hp⟩ := Option.isSome_iff_exists.mp he.enclosed
  refine ⟨?_, hi2, hk2⟩
  simp only [seekEntry, he.openOk, hp, hpl, ham]

theorem extractSeek_eq {c : Cfg} {root : Path} {es : List EntryView} (hpc : PermCfg c)
    (hDF : ∀ r, DirAt es r → FileAt es r → False) (rest : List EntryView)
    (hrest : ∀ e ∈ rest, EntryOK c es e) (fs : FS) (hi : Inv c root fs) (hk : Kinds root es fs) :
    extractSeek c root rest fs = (treeOf c root rest fs, none) := by
  induction rest generalizing fs with
  | nil => rfl
  | cons e rest ih =>
    obtain ⟨h1, hi1, hk1⟩ := seekEntry_eq hi hk hpc hDF (hrest e (by simp))
    simp only [extractSeek, treeOf, h1]
    exact ih (fun e' he' => hrest e' (List.mem_cons_of_mem _ he')) _ hi1 hk1

/-! ### the streaming extractor -/

theorem streamFiles_eq {c : Cfg} {root : Path} {es : List EntryView} (hpc : PermCfg c)
    (hDF : ∀ r, DirAt es r → FileAt es r → False) (rest : List EntryView)
    (hrest : ∀ e ∈ rest, EntryOK c es e) (fs : FS) (hi : Inv c root fs) (hk : Kinds root es fs) :
    streamFiles c root rest fs = (putAll c root rest fs, none) ∧ Inv c root (putAll c root rest fs) ∧
      Kinds root es (putAll c root rest fs) ∧ Grows c fs (putAll c root rest fs) ∧
      ∀ e ∈ rest, Placed c root (putAll c root rest fs) e.name := by
  induction rest generalizing fs with
  | nil => exact ⟨rfl, hi, hk, Grows.refl c fs, by simp⟩
  | cons e rest ih =>
    have he := hrest e (by simp)
    obtain ⟨hpl, hi1, hk1, hg1, hplaced⟩ := placeEntry_eq hi hk hpc hDF he false
    obtain ⟨h2, hi2, hk2, hg2, hp2⟩ :=
      ih (fun e' he' => hrest e' (List.mem_cons_of_mem _ he')) _ hi1 hk1
    obtain ⟨p, hp⟩ := Option.isSome_iff_exists.mp he.enclosed
    refine ⟨?_, hi2, hk2, hg1.trans hg2, ?_⟩
    · simp only [streamFiles, streamFile, he.openOk, hp, hpl, putAll, h2]
    · intro e' he'
      rcases List.mem_cons.mp he' with rfl | he'
      · exact hplaced.grows hg2
      · exact hp2 e' he'

theorem streamMetas_eq {c : Cfg} {root : Path} {es : List EntryView} (rest : List EntryView)
    (hrest : ∀ e ∈ rest, EntryOK c es e) (fs : FS) (hi : Inv c root fs) (hk : Kinds root es fs)
    (hpl : ∀ e ∈ rest, Placed c root fs e.name) :
    streamMetas c root (rest.map fun e => (e.name, e.mode)) fs =
      (setModes root (rest.map fun e => (e.name, e.mode)) fs, none) := by
  induction rest generalizing fs with
  | nil => rfl
  | cons e rest ih =>
    have he := hrest e (by simp)
    have hfile : isDirName e.name = false → tailDot e.name = false ∧ e.name ≠ [] := by
      intro hd
      obtain ⟨h1, h2⟩ := he.file hd
      refine ⟨h1, ?_⟩
      intro e0
      rw [e0, relComps_nil] at h2; simp [lastNormal] at h2
    obtain ⟨ham, hi2, hk2, hg2⟩ :=
      applyMode_eq (mode := e.mode) hi hk (hpl e (by simp)) he.safe hfile he.perms
    obtain ⟨p, hp⟩ := Option.isSome_iff_exists.mp he.enclosed
    simp only [List.map_cons, streamMetas, streamMeta, hp, ham, setModes]
    exact ih (fun e' he' => hrest e' (List.mem_cons_of_mem _ he')) _ hi2 hk2
      (fun e' he' => (hpl e' (List.mem_cons_of_mem _ he')).grows hg2)

theorem extractStream_eq {c : Cfg} {root : Path} {es : List EntryView} (hpc : PermCfg c)
    (hDF : ∀ r, DirAt es r → FileAt es r → False) (hall : ∀ e ∈ es, EntryOK c es e) (hne : es ≠ [])
    (fs : FS) (hi : Inv c root fs) (hk : Kinds root es fs) :
    extractStream c root es (es.map fun e => (e.name, e.mode)) fs = (treeOfStream c root es fs, none) := by
  obtain ⟨h1, hi1, hk1, _, hp1⟩ := streamFiles_eq hpc hDF es hall fs hi hk
  have h2 := streamMetas_eq es hall _ hi1 hk1 hp1
  unfold extractStream treeOfStream
  rw [h1]
  simp only
  cases es with
  | nil => exact absurd rfl hne
  | cons e es' =>
    simp only [List.map_cons]
    simp only [List.map_cons] at h2
    exact h2

end ZipVerif.Model.Extract
