import ZipVerif.Lemmas.FaithfulModes
/-
Faithfulness, part 4: whole runs of both extractors on a consistent archive and a fresh target.
-/

namespace ZipVerif.Model.Extract
open ZipVerif ZipVerif.Spec.Paths ZipVerif.Spec.FS ZipVerif.Spec.Tree ZipVerif.Model.Paths

/-! ### unpacking `Consistent` and `Fresh` -/

theorem Consistent.entryOK {c : Cfg} {rootMode : Nat} {es : List EntryView} (h : Consistent c rootMode es)
    {e : EntryView} (he : e ∈ es) : EntryOK c es e := by
  obtain ⟨h1, h2, h3, _, h5⟩ := h
  exact ⟨he, (h1 e he).1, (h1 e he).2.1, (h1 e he).2.2, h2 e he, h3 e he⟩

theorem Consistent.unlocked {c : Cfg} {rootMode : Nat} {es : List EntryView} (h : Consistent c rootMode es) :
    c.priv = true ∨ Unlocked es := by
  rcases h.2.2.2.2 with h5 | h5
  · exact Or.inl h5
  · exact Or.inr h5.2.2.2

theorem Consistent.permCfg {c : Cfg} {rootMode : Nat} {es : List EntryView} (h : Consistent c rootMode es) :
    PermCfg c := by
  rcases h.2.2.2.2 with h5 | h5
  · exact Or.inl h5
  · exact Or.inr ⟨h5.1, h5.2.1⟩

theorem resolve_lastNormal_ne_nil {cs : List Comp} (h : lastNormal cs = true) : resolve cs ≠ [] := by
  obtain ⟨s, up, hr⟩ := lastNormal_reverse h
  have : cs = (Comp.normal s :: up).reverse := by rw [← hr, List.reverse_reverse]
  rw [this, resolve_reverse_cons]
  simp [resolveStep]

theorem Consistent.disjoint {c : Cfg} {rootMode : Nat} {es : List EntryView} (h : Consistent c rootMode es) :
    ∀ r, DirAt es r → FileAt es r → False := by
  intro r hd hf
  obtain ⟨e1, he1, hp1⟩ := hf
  have hfile : isDirName e1.name = false := by
    cases hdn : isDirName e1.name with
    | false => rfl
    | true => simp [filePath, hdn] at hp1
  rcases hd with rfl | ⟨e2, he2, hp2⟩
  · simp only [filePath, hfile, Bool.false_eq_true, if_false, Option.some.injEq] at hp1
    exact resolve_lastNormal_ne_nil (h.2.1 e1 he1 hfile).2 hp1
  · exact h.2.2.2.1 e1 he1 e2 he2 r (by simp [hp1]) hp2

theorem Fresh.inv {c : Cfg} {fs : FS} {root : Path} {rootMode : Nat} {es : List EntryView}
    (hf : Fresh c fs root rootMode) (hc : Consistent c rootMode es) : Inv c root fs := by
  obtain ⟨h1, h2, h3⟩ := hf
  refine ⟨h1, ⟨rootMode, h2⟩, ?_, ?_⟩
  · intro r hr hne; exact absurd (h3 r hr) hne
  · rcases hc.2.2.2.2 with h5 | h5
    · exact Or.inl h5
    · refine Or.inr fun r n hl => ?_
      by_cases hr : r = []
      · subst hr
        rw [List.append_nil, h2] at hl; cases hl
        exact h5.2.2.1
      · rw [h3 r hr] at hl; cases hl

theorem Fresh.kinds {c : Cfg} {fs : FS} {root : Path} {rootMode : Nat} (es : List EntryView)
    (hf : Fresh c fs root rootMode) : Kinds root es fs := by
  obtain ⟨_, h2, h3⟩ := hf
  intro r n hl
  by_cases hr : r = []
  · subst hr
    rw [List.append_nil, h2] at hl; cases hl
    exact Or.inl rfl
  · rw [h3 r hr] at hl; cases hl

/-! ### placing every entry -/

theorem placeFiles_eq {c : Cfg} {root : Path} {es : List EntryView} (hpc : PermCfg c)
    (hDF : ∀ r, DirAt es r → FileAt es r → False) (chk : Bool) (rest : List EntryView)
    (hrest : ∀ e ∈ rest, EntryOK c es e) (fs : FS) (hi : Inv c root fs) (hk : Kinds root es fs) :
    placeFiles c chk root rest fs = (putAll c root rest fs, none) ∧ Inv c root (putAll c root rest fs) ∧
      Kinds root es (putAll c root rest fs) ∧ Grows c fs (putAll c root rest fs) ∧
      ∀ e ∈ rest, Placed c root (putAll c root rest fs) e.name := by
  induction rest generalizing fs with
  | nil => exact ⟨rfl, hi, hk, Grows.refl c fs, by simp⟩
  | cons e rest ih =>
    have he := hrest e (by simp)
    obtain ⟨hpl, hi1, hk1, hg1, hplaced⟩ := placeEntry_eq hi hk hpc hDF he chk
    obtain ⟨h2, hi2, hk2, hg2, hp2⟩ :=
      ih (fun e' he' => hrest e' (List.mem_cons_of_mem _ he')) _ hi1 hk1
    obtain ⟨p, hp⟩ := Option.isSome_iff_exists.mp he.enclosed
    refine ⟨?_, hi2, hk2, hg1.trans hg2, ?_⟩
    · simp only [placeFiles, placeFile, he.openOk, hp, hpl, putAll, h2]
    · intro e' he'
      rcases List.mem_cons.mp he' with rfl | he'
      · exact hplaced.grows hg2
      · exact hp2 e' he'

/-! ### applying the recorded modes, deepest first -/

theorem EntryOK.fileName {c : Cfg} {es : List EntryView} {e : EntryView} (he : EntryOK c es e) :
    isDirName e.name = false → tailDot e.name = false ∧ e.name ≠ [] := by
  intro hd
  obtain ⟨h1, h2⟩ := he.file hd
  refine ⟨h1, ?_⟩
  intro e0
  rw [e0, relComps_nil] at h2; simp [lastNormal] at h2

theorem modeOrder_sorted (ms : List (Name × Option Nat)) :
    (modeOrder ms).Pairwise fun a b => pathDepth b.1 ≤ pathDepth a.1 := by
  unfold modeOrder
  rw [List.pairwise_map]
  have hs := sorted_sortModes (pendingOf ms)
  refine hs.imp_of_mem ?_
  intro a b ha hb hab
  rw [← (mem_pendingOf.mp (mem_sortModes.mp ha)).2, ← (mem_pendingOf.mp (mem_sortModes.mp hb)).2]
  exact hab

theorem modes_eq {c : Cfg} {root : Path} {es : List EntryView}
    (hDF : ∀ r, DirAt es r → FileAt es r → False) (hun : c.priv = true ∨ Unlocked es)
    (hall : ∀ e ∈ es, EntryOK c es e) (fs : FS) (hi : Inv c root fs) (hk : Kinds root es fs)
    (hpl : ∀ e ∈ es, Placed c root fs e.name) :
    applyModes c root (modeOrder (es.map fun e => (e.name, e.mode))) fs =
      (setModes root (modeOrder (es.map fun e => (e.name, e.mode))) fs, none) := by
  apply applyModes_eq hDF hun _ (modeOrder_sorted _) _ fs hk
  · intro m hm
    obtain ⟨e, he, rfl⟩ := List.mem_map.mp (mem_modeOrder hm).1
    exact reach_of_placed hi (hpl e he) (hall e he).safe (hall e he).fileName
  · intro m hm
    obtain ⟨hmem, hsome⟩ := mem_modeOrder hm
    obtain ⟨e, he, rfl⟩ := List.mem_map.mp hmem
    exact ⟨hsome, e, he, rfl, hall e he⟩

/-! ### the two extractors -/

theorem extractSeek_eq {c : Cfg} {root : Path} {es : List EntryView} (hpc : PermCfg c)
    (hDF : ∀ r, DirAt es r → FileAt es r → False) (hun : c.priv = true ∨ Unlocked es)
    (hall : ∀ e ∈ es, EntryOK c es e) (fs : FS) (hi : Inv c root fs) (hk : Kinds root es fs) :
    extractSeek c root es fs = (treeOf c root es fs, none) := by
  obtain ⟨h1, hi1, hk1, _, hp1⟩ := placeFiles_eq hpc hDF true es hall fs hi hk
  unfold extractSeek treeOf
  rw [h1]
  exact modes_eq hDF hun hall _ hi1 hk1 hp1

theorem checkMetas_none {c : Cfg} {es : List EntryView} (rest : List EntryView)
    (hrest : ∀ e ∈ rest, EntryOK c es e) : checkMetas (rest.map fun e => (e.name, e.mode)) = none := by
  induction rest with
  | nil => rfl
  | cons e rest ih =>
    obtain ⟨p, hp⟩ := Option.isSome_iff_exists.mp (hrest e (by simp)).enclosed
    simp only [List.map_cons, checkMetas, hp]
    exact ih (fun e' he' => hrest e' (List.mem_cons_of_mem _ he'))

theorem extractStream_eq {c : Cfg} {root : Path} {es : List EntryView} (hpc : PermCfg c)
    (hDF : ∀ r, DirAt es r → FileAt es r → False) (hun : c.priv = true ∨ Unlocked es)
    (hall : ∀ e ∈ es, EntryOK c es e) (hne : es ≠ [])
    (fs : FS) (hi : Inv c root fs) (hk : Kinds root es fs) :
    extractStream c root es (es.map fun e => (e.name, e.mode)) fs = (treeOf c root es fs, none) := by
  obtain ⟨h1, hi1, hk1, _, hp1⟩ := placeFiles_eq hpc hDF false es hall fs hi hk
  have h2 := modes_eq hDF hun hall _ hi1 hk1 hp1
  have h3 := checkMetas_none es hall
  unfold extractStream treeOf
  rw [h1]
  simp only
  cases es with
  | nil => exact absurd rfl hne
  | cons e es' =>
    simp only [List.map_cons] at h2 h3 ⊢
    rw [h3]
    exact h2

end ZipVerif.Model.Extract
