import ZipVerif.Lemmas.Faithful
/-
Faithfulness, part 2: walks that end inside the target, the expected-tree walk `ensureR`, and
`create_dir_all` = `ensureR` when no regular file is in the way.
-/

namespace ZipVerif.Spec.Tree
open ZipVerif ZipVerif.Spec.Paths ZipVerif.Spec.FS ZipVerif.Model.Paths

def rootRev (root : Path) : List Comp := root.reverse.map Comp.normal

theorem resolve_joined' (root : Path) (rr : List Comp) :
    resolve (rr ++ rootRev root).reverse = resolveFrom root rr.reverse := resolve_joined root rr

theorem resolve_joined_safe' (root : Path) (rr : List Comp) (h : (walk rr.reverse 0).isSome) :
    resolve (rr ++ rootRev root).reverse = root ++ resolve rr.reverse := resolve_joined_safe root rr h

/-! ### the depth walk, once more -/

theorem walk_append (a b : List Comp) (d : Nat) : walk (a ++ b) d = (walk a d).bind (walk b) := by
  induction a generalizing d with
  | nil => simp [walk]
  | cons x a ih =>
    cases x with
    | rootDir => simp [walk]
    | curDir => simpa [walk] using ih d
    | normal s => simpa [walk] using ih (d + 1)
    | parentDir =>
      simp only [List.cons_append, walk]
      split
      · simp
      · exact ih (d - 1)

/-- Acceptance of `up` followed by one more component. -/
theorem safe_cons_inv {x : Comp} {up : List Comp} (h : (walk (x :: up).reverse 0).isSome) :
    ∃ d, walk up.reverse 0 = some d ∧ (walk [x] d).isSome := by
  rw [List.reverse_cons, walk_append] at h
  cases hw : walk up.reverse 0 with
  | none => rw [hw] at h; cases h
  | some d => rw [hw] at h; exact ⟨d, rfl, h⟩

theorem safe_tail {x : Comp} {up : List Comp} (h : (walk (x :: up).reverse 0).isSome) :
    (walk up.reverse 0).isSome := by
  obtain ⟨d, hd, _⟩ := safe_cons_inv h
  rw [hd]; rfl

theorem safe_not_rootDir {up : List Comp} (h : (walk (Comp.rootDir :: up).reverse 0).isSome) : False := by
  obtain ⟨d, _, h2⟩ := safe_cons_inv h
  simp [walk] at h2

theorem safe_parent_nonempty {up : List Comp} (h : (walk (Comp.parentDir :: up).reverse 0).isSome) :
    resolve up.reverse ≠ [] := by
  obtain ⟨d, hd, h2⟩ := safe_cons_inv h
  have hd0 : d ≠ 0 := by
    intro e; subst e; simp [walk] at h2
  obtain ⟨r', hl, hr⟩ := resolveFrom_of_walk [] up.reverse [] d (by simpa using hd)
  have : resolve up.reverse = r' := by simpa [resolve] using hr
  rw [this]
  intro e; subst e; exact hd0 hl.symm

theorem resolveFrom_reverse_cons (st : Path) (x : Comp) (up : List Comp) :
    resolveFrom st (x :: up).reverse = resolveStep (resolveFrom st up.reverse) x := by
  simp [resolveFrom, List.foldl_append]

theorem resolveFrom_root_safe (root : Path) {rr : List Comp} (h : (walk rr.reverse 0).isSome) :
    resolveFrom root rr.reverse = root ++ resolve rr.reverse := by
  rw [← resolve_joined, resolve_joined_safe root rr h]

/-! ### where a successful walk ends -/

theorem walk_end {c : Cfg} {root : Path} {fs : FS} (hi : Inv c root fs) {rr : List Comp} {cur : Path}
    (hs : (walk rr.reverse 0).isSome) (h : walkR c fs (rr ++ rootRev root) = .ok cur) :
    cur = root ++ resolve rr.reverse ∧ ∃ m, fs.lookup cur = some (.dir m) := by
  have hcur : cur = root ++ resolve rr.reverse := by
    rw [walkR_lex h, resolve_joined_safe' root rr hs]
  refine ⟨hcur, ?_⟩
  induction rr generalizing cur with
  | nil =>
    simp only [List.nil_append, rootRev] at h
    rw [hi.chain] at h; cases h
    exact hi.rootDir
  | cons x up ih =>
    rw [List.cons_append] at h
    obtain ⟨cur0, hc0, hst⟩ := walkR_cons_inv h
    have hs0 := safe_tail hs
    have hcur0 : cur0 = root ++ resolve up.reverse := by
      rw [walkR_lex hc0, resolve_joined_safe' root up hs0]
    cases x with
    | normal s =>
      obtain ⟨_, hp, m, hm⟩ := step_normal_inv hst
      exact ⟨m, hp ▸ hm⟩
    | parentDir =>
      obtain ⟨_, hp⟩ := step_parent_inv hst
      obtain ⟨m0, hm0⟩ := ih hs0 hc0 hcur0
      have hne := safe_parent_nonempty hs
      rw [hcur0] at hm0
      obtain ⟨m, hm⟩ := hi.wf _ hne (by rw [hm0]; simp)
      refine ⟨m, ?_⟩
      rw [hp, hcur0, List.dropLast_append_of_ne_nil hne]; exact hm
    | curDir =>
      obtain ⟨_, hp⟩ := step_cur_inv hst
      subst hp; exact ih hs0 hc0 hcur0
    | rootDir => exact (safe_not_rootDir hs).elim

theorem walk_end_search {c : Cfg} {root : Path} {fs : FS} (hi : Inv c root fs) {rr : List Comp}
    {cur : Path} (hs : (walk rr.reverse 0).isSome) (h : walkR c fs (rr ++ rootRev root) = .ok cur) :
    canSearch c fs cur = true ∧ canModifyDir c fs cur = true := by
  obtain ⟨hc, m, hm⟩ := walk_end hi hs h
  rw [hc] at hm ⊢
  exact hi.search hm

/-! ### the expected-tree walk -/

theorem ensureR_snd (c : Cfg) (root : Path) (rr : List Comp) (fs : FS) :
    (ensureR c root rr fs).2 = resolveFrom root rr.reverse := by
  induction rr with
  | nil => simp [ensureR, resolveFrom]
  | cons x up ih => simp only [ensureR]; rw [resolveFrom_reverse_cons, ih]

/-- When everything on the way exists, the expected-tree walk changes nothing. -/
theorem ensureR_noop {c : Cfg} {root : Path} {fs : FS} {rr : List Comp} {cur : Path}
    (h : walkR c fs (rr ++ rootRev root) = .ok cur) : ensureR c root rr fs = (fs, cur) := by
  have hcur : cur = (ensureR c root rr fs).2 := by
    rw [ensureR_snd, walkR_lex h, resolve_joined']
  induction rr generalizing cur with
  | nil => simp only [ensureR] at hcur ⊢; rw [hcur]
  | cons x up ih =>
    rw [List.cons_append] at h
    obtain ⟨cur0, hc0, hst⟩ := walkR_cons_inv h
    have h0 := ih hc0 (by rw [ensureR_snd, walkR_lex hc0, resolve_joined'])
    simp only [ensureR] at hcur ⊢
    rw [h0] at hcur ⊢
    cases x with
    | normal s =>
      obtain ⟨_, _, m, hm⟩ := step_normal_inv hst
      simp only [resolveStep] at hcur ⊢
      simp only [ensureDir, hm]
      rw [hcur]
    | parentDir => simp only at hcur ⊢; rw [hcur]
    | curDir => simp only at hcur ⊢; rw [hcur]
    | rootDir => simp only at hcur ⊢; rw [hcur]

/-- No regular file at any position of the walk. -/
def Clear (fs : FS) (root : Path) (rr : List Comp) : Prop :=
  ∀ t, t <:+ rr → ∀ b m, fs.lookup (resolveFrom root t.reverse) ≠ some (.file b m)

theorem Clear.tail {fs : FS} {root : Path} {x : Comp} {up : List Comp} (h : Clear fs root (x :: up)) :
    Clear fs root up := fun t ht => h t (List.suffix_cons_iff.mpr (Or.inr ht))

/-- What the expected-tree walk changes: it binds missing positions of the walk to directories. -/
def EnsFrame (fs fs' : FS) (root : Path) (rr : List Comp) : Prop :=
  ∀ q, fs'.lookup q = fs.lookup q ∨
    (fs.lookup q = none ∧ (∃ t, t <:+ rr ∧ q = resolveFrom root t.reverse) ∧ ∃ m, fs'.lookup q = some (.dir m))

theorem EnsFrame.weaken {fs fs' : FS} {root : Path} {x : Comp} {up : List Comp}
    (h : EnsFrame fs fs' root up) : EnsFrame fs fs' root (x :: up) := by
  intro q
  rcases h q with h | ⟨h1, ⟨t, ht, hq⟩, h3⟩
  · exact Or.inl h
  · exact Or.inr ⟨h1, ⟨t, List.suffix_cons_iff.mpr (Or.inr ht), hq⟩, h3⟩

theorem Clear.frame {fs fs' : FS} {root : Path} {rr rr' : List Comp} (h : Clear fs root rr)
    (hf : EnsFrame fs fs' root rr') : Clear fs' root rr := by
  intro t ht b m hl
  rcases hf (resolveFrom root t.reverse) with e | ⟨_, _, m', hm'⟩
  · rw [e] at hl; exact h t ht b m hl
  · rw [hm'] at hl; cases hl

/-- Default modes never lock the caller out. -/
def PermCfg (c : Cfg) : Prop :=
  c.priv = true ∨ (hasBits c.dirMode 0o300 = true ∧ hasBits c.fileMode 0o200 = true)

theorem ensureR_post {c : Cfg} {root : Path} {fs : FS} (hi : Inv c root fs) (hpc : PermCfg c)
    {rr : List Comp} (hs : (walk rr.reverse 0).isSome) (hclear : Clear fs root rr) :
    walkR c (ensureR c root rr fs).1 (rr ++ rootRev root) = .ok (ensureR c root rr fs).2 ∧
      Inv c root (ensureR c root rr fs).1 ∧ Keeps c fs (ensureR c root rr fs).1 ∧
      EnsFrame fs (ensureR c root rr fs).1 root rr := by
  induction rr with
  | nil =>
    simp only [ensureR, List.nil_append]
    exact ⟨hi.chain, hi, Keeps.refl c fs, fun q => Or.inl rfl⟩
  | cons x up ih =>
    have hs0 := safe_tail hs
    obtain ⟨hw0, hi0, hk0, hf0⟩ := ih hs0 hclear.tail
    obtain ⟨hcur0, m0, hm0⟩ := walk_end hi0 hs0 hw0
    have hsearch0 := (walk_end_search hi0 hs0 hw0).1
    rw [List.cons_append]
    simp only [ensureR]
    generalize hr0 : ensureR c root up fs = r0 at hw0 hi0 hk0 hf0 hcur0 hm0 hsearch0
    cases x with
    | normal s =>
      simp only [resolveStep]
      have hpos : r0.2 ++ [s] = resolveFrom root (Comp.normal s :: up).reverse := by
        rw [resolveFrom_reverse_cons, ← ensureR_snd c root up fs, hr0]; rfl
      have hp : r0.2 ++ [s] = root ++ (resolve up.reverse ++ [s]) := by
        rw [hcur0, List.append_assoc]
      cases hl : r0.1.lookup (r0.2 ++ [s]) with
      | none =>
        have hens : ensureDir c r0.1 (r0.2 ++ [s]) =
            r0.1.set (r0.2 ++ [s]) (.dir (newDirMode c r0.1 r0.2)) := by
          simp [ensureDir, hl]
        rw [hens]
        have hinv : Inv c root (r0.1.set (r0.2 ++ [s]) (.dir (newDirMode c r0.1 r0.2))) := by
          rw [hp]
          apply hi0.set_new (by simp)
          · rw [← hp]; exact hl
          · rw [List.dropLast_concat, ← hcur0]; exact ⟨m0, hm0⟩
          · rcases hpc with hpc | hpc
            · exact Or.inl hpc
            · exact Or.inr (hasBits_or _ _ _ hpc.1)
        have hk1 : Keeps c r0.1 (r0.1.set (r0.2 ++ [s]) (.dir (newDirMode c r0.1 r0.2))) :=
          keeps_set_nondir _ (by rw [hl]; simp)
        refine ⟨?_, hinv, hk0.trans hk1, ?_⟩
        · rw [walkR_cons_ok (walkR_keeps hk1 hw0)]
          apply step_normal_dir (canSearch_keeps hk1 hsearch0) (lookup_set_self _ _ _)
        · intro q
          by_cases e : q = r0.2 ++ [s]
          · subst e
            refine Or.inr ⟨?_, ⟨_, List.suffix_refl _, hpos⟩, _, lookup_set_self _ _ _⟩
            rcases hf0 (r0.2 ++ [s]) with h | ⟨_, _, m', hm'⟩
            · rw [← h]; exact hl
            · rw [hl] at hm'; cases hm'
          · rw [lookup_set_ne _ _ e]; exact hf0.weaken q
      | some n =>
        have hens : ensureDir c r0.1 (r0.2 ++ [s]) = r0.1 := by simp [ensureDir, hl]
        rw [hens]
        have hdir : ∃ m, n = .dir m := by
          cases n with
          | dir m => exact ⟨m, rfl⟩
          | file b m =>
            exfalso
            have := (hclear.frame hf0) _ (List.suffix_refl _) b m
            rw [← hpos] at this; exact this hl
        obtain ⟨m, rfl⟩ := hdir
        refine ⟨?_, hi0, hk0, hf0.weaken⟩
        rw [walkR_cons_ok hw0]
        exact step_normal_dir hsearch0 hl
    | parentDir =>
      simp only [resolveStep]
      refine ⟨?_, hi0, hk0, hf0.weaken⟩
      rw [walkR_cons_ok hw0]; exact step_parent hsearch0
    | curDir =>
      simp only [resolveStep]
      refine ⟨?_, hi0, hk0, hf0.weaken⟩
      rw [walkR_cons_ok hw0]; exact step_cur hsearch0
    | rootDir => exact (safe_not_rootDir hs).elim

/-- A walk that fails although no regular file is in the way fails with ENOENT. -/
theorem walk_err_notFound {c : Cfg} {root : Path} {fs : FS} (hi : Inv c root fs) {rr : List Comp}
    (hs : (walk rr.reverse 0).isSome) (hclear : Clear fs root rr) {e : FsErr}
    (h : walkR c fs (rr ++ rootRev root) = .error e) : e = .notFound := by
  induction rr with
  | nil =>
    simp only [List.nil_append, rootRev] at h
    rw [hi.chain] at h; cases h
  | cons x up ih =>
    have hs0 := safe_tail hs
    rw [List.cons_append, walkR_cons] at h
    split at h
    · next e' he' =>
      simp only [Except.error.injEq] at h; subst h
      exact ih hs0 hclear.tail he'
    · next cur0 hc0 =>
      have hsearch := (walk_end_search hi hs0 hc0).1
      cases x with
      | normal s =>
        simp only [step, hsearch, if_true] at h
        split at h
        · simp only [Except.error.injEq] at h; exact h.symm
        · next b m hl =>
          exfalso
          have := hclear _ (List.suffix_refl _) b m
          rw [resolveFrom_reverse_cons, ← resolve_joined', ← walkR_lex hc0] at this
          exact this hl
        · cases h
      | parentDir => simp [step, hsearch] at h
      | curDir => simp [step, hsearch] at h
      | rootDir => simp [step] at h

/-! ### `create_dir_all` -/

theorem cda_root {c : Cfg} {root : Path} {fs : FS} (hi : Inv c root fs) (dot : Bool) :
    createDirAll c (rootRev root) dot fs = (fs, none) := by
  cases hr : rootRev root with
  | nil => simp [createDirAll]
  | cons x up =>
    obtain ⟨m, hm⟩ := hi.rootDir
    have hw : walkR c fs (dotted (x :: up) dot) = .ok root := by
      rw [← hr]
      exact walkR_dotted dot hi.chain (fun _ => by
        have := (hi.search (r := []) (by rw [List.append_nil]; exact hm)).1
        rwa [List.append_nil] at this)
    obtain ⟨h1, h2⟩ := mkdir_exists hw hm
    simp [createDirAll, h1, h2]

/-- The last `mkdir` of `create_dir_all`, once the parent path resolves. -/
theorem mkdir_last {c : Cfg} {root : Path} {fs : FS} (hi : Inv c root fs) {x : Comp} {up : List Comp}
    {cur0 : Path} (hs : (walk (x :: up).reverse 0).isSome)
    (hw : walkR c fs (up ++ rootRev root) = .ok cur0)
    (hnf : ∀ b m, fs.lookup (resolveFrom root (x :: up).reverse) ≠ some (.file b m)) :
    (mkdir c fs (x :: (up ++ rootRev root)) = .ok (ensureR c root (x :: up) fs).1) ∨
    (mkdir c fs (x :: (up ++ rootRev root)) = .error .alreadyExists ∧
      isDir c fs (x :: (up ++ rootRev root)) = true ∧ (ensureR c root (x :: up) fs).1 = fs) := by
  have hs0 := safe_tail hs
  obtain ⟨hsearch, hmodify⟩ := walk_end_search hi hs0 hw
  have hnoop := ensureR_noop hw
  have hpos : resolveFrom root up.reverse = cur0 := by
    rw [← ensureR_snd c root up fs, hnoop]
  cases x with
  | normal s =>
    rw [resolveFrom_reverse_cons, hpos] at hnf
    simp only [resolveStep] at hnf
    have hloc := locateR_normal (s := s) hw hsearch
    cases hl : fs.lookup (cur0 ++ [s]) with
    | none =>
      left
      simp [mkdir, hloc, hl, hmodify, ensureR, hnoop, resolveStep, ensureDir]
    | some n =>
      right
      cases n with
      | file b m => exact absurd hl (hnf b m)
      | dir m =>
        have hw1 : walkR c fs (Comp.normal s :: (up ++ rootRev root)) = .ok (cur0 ++ [s]) := by
          rw [walkR_cons_ok hw]; exact step_normal_dir hsearch hl
        obtain ⟨h1, h2⟩ := mkdir_exists hw1 hl
        refine ⟨h1, h2, ?_⟩
        simp [ensureR, hnoop, resolveStep, ensureDir, hl]
  | parentDir =>
    right
    have hw1 : walkR c fs (Comp.parentDir :: (up ++ rootRev root)) = .ok cur0.dropLast := by
      rw [walkR_cons_ok hw]; exact step_parent hsearch
    obtain ⟨_, m, hm⟩ := walk_end hi hs (by rw [List.cons_append]; exact hw1)
    obtain ⟨h1, h2⟩ := mkdir_exists hw1 hm
    exact ⟨h1, h2, by simp [ensureR, hnoop]⟩
  | curDir =>
    right
    have hw1 : walkR c fs (Comp.curDir :: (up ++ rootRev root)) = .ok cur0 := by
      rw [walkR_cons_ok hw]; exact step_cur hsearch
    obtain ⟨_, m, hm⟩ := walk_end hi hs (by rw [List.cons_append]; exact hw1)
    obtain ⟨h1, h2⟩ := mkdir_exists hw1 hm
    exact ⟨h1, h2, by simp [ensureR, hnoop]⟩
  | rootDir => exact (safe_not_rootDir hs).elim

theorem mkdir_walk_err {c : Cfg} {fs : FS} {x : Comp} {up : List Comp} {e : FsErr}
    (h : walkR c fs up = .error e) : mkdir c fs (x :: up) = .error e := by
  by_cases hx : ∃ s, x = .normal s
  · obtain ⟨s, rfl⟩ := hx
    simp [mkdir, locateR_normal_err h]
  · have hx' : ∀ s, x ≠ .normal s := fun s e => hx ⟨s, e⟩
    simp [mkdir, locateR_other hx', walkR_cons_err h]

/-- `create_dir_all(root/<walk>)` leaves exactly the expected-tree walk. -/
theorem cda_eq {c : Cfg} {root : Path} {fs : FS} (hi : Inv c root fs) (hpc : PermCfg c)
    {rr : List Comp} (hs : (walk rr.reverse 0).isSome) (hclear : Clear fs root rr) :
    createDirAll c (rr ++ rootRev root) false fs = ((ensureR c root rr fs).1, none) := by
  induction rr with
  | nil => simpa [ensureR] using cda_root hi false
  | cons x up ih =>
    have hs0 := safe_tail hs
    rw [List.cons_append]
    simp only [createDirAll, dotted, Bool.false_eq_true, if_false]
    cases hw : walkR c fs (up ++ rootRev root) with
    | ok cur0 =>
      rcases mkdir_last hi hs hw (hclear _ (List.suffix_refl _)) with h | ⟨h1, h2, h3⟩
      · rw [h]
      · rw [h1]; simp [h2, h3]
    | error e =>
      have he := walk_err_notFound hi hs0 hclear.tail hw
      subst he
      rw [mkdir_walk_err hw]
      simp only
      rw [ih hs0 hclear.tail]
      simp only
      obtain ⟨hw0, hi0, _, hf0⟩ := ensureR_post hi hpc hs0 hclear.tail
      have hnf : ∀ b m, (ensureR c root up fs).1.lookup (resolveFrom root (x :: up).reverse) ≠
          some (.file b m) := (hclear.frame hf0) _ (List.suffix_refl _)
      have hidem : (ensureR c root (x :: up) (ensureR c root up fs).1).1 = (ensureR c root (x :: up) fs).1 := by
        simp only [ensureR]
        rw [ensureR_noop hw0]
      rcases mkdir_last hi0 hs hw0 hnf with h | ⟨h1, h2, h3⟩
      · rw [h, hidem]
      · rw [h1]; simp only [h2, if_true]; rw [← hidem, h3]

/-- … also when the name ends in "/./" after a ".." (or after nothing). -/
theorem cda_eq_dot {c : Cfg} {root : Path} {fs : FS} (hi : Inv c root fs) (hpc : PermCfg c)
    {rr : List Comp} (hs : (walk rr.reverse 0).isSome) (hclear : Clear fs root rr)
    (hlast : rr = [] ∨ ∃ up, rr = Comp.parentDir :: up) :
    createDirAll c (rr ++ rootRev root) true fs = ((ensureR c root rr fs).1, none) := by
  rcases hlast with rfl | ⟨up, rfl⟩
  · simpa [ensureR] using cda_root hi true
  · have hs0 := safe_tail hs
    rw [List.cons_append]
    simp only [createDirAll, dotted, if_true]
    have key : ∀ fs', Inv c root fs' → ∀ cur0, walkR c fs' (up ++ rootRev root) = .ok cur0 →
        mkdir c fs' (Comp.curDir :: Comp.parentDir :: (up ++ rootRev root)) = .error .alreadyExists ∧
        isDir c fs' (Comp.curDir :: Comp.parentDir :: (up ++ rootRev root)) = true := by
      intro fs' hi' cur0 hw'
      have hsearch := (walk_end_search hi' hs0 hw').1
      have hw1 : walkR c fs' (Comp.parentDir :: (up ++ rootRev root)) = .ok cur0.dropLast := by
        rw [walkR_cons_ok hw']; exact step_parent hsearch
      obtain ⟨hpe, m, hm⟩ := walk_end hi' hs (by rw [List.cons_append]; exact hw1)
      have hsr : canSearch c fs' cur0.dropLast = true := by
        rw [hpe] at hm ⊢; exact (hi'.search hm).1
      have hw2 : walkR c fs' (Comp.curDir :: Comp.parentDir :: (up ++ rootRev root)) = .ok cur0.dropLast := by
        rw [walkR_cons_ok hw1]; exact step_cur hsr
      exact mkdir_exists hw2 hm
    cases hw : walkR c fs (up ++ rootRev root) with
    | ok cur0 =>
      obtain ⟨h1, h2⟩ := key fs hi cur0 hw
      rw [h1]; simp [h2, ensureR, ensureR_noop hw]
    | error e =>
      have he := walk_err_notFound hi hs0 hclear.tail hw
      subst he
      have hm : mkdir c fs (Comp.curDir :: Comp.parentDir :: (up ++ rootRev root)) = .error .notFound := by
        apply mkdir_walk_err; exact walkR_cons_err hw
      rw [hm]
      simp only
      rw [cda_eq hi hpc hs0 hclear.tail]
      simp only
      obtain ⟨hw0, hi0, _, _⟩ := ensureR_post hi hpc hs0 hclear.tail
      obtain ⟨h1, h2⟩ := key _ hi0 _ hw0
      rw [h1]; simp [h2, ensureR]

end ZipVerif.Spec.Tree
