import ZipVerif.Lemmas.ReaderTotal
import ZipVerif.Lemmas.WriterSat
import ZipVerif.Lemmas.Dos
/-
`ZipWriter::new_append` establishes the writer invariant `Inv` (so that C12's panic-freedom — for every
fault index — also covers writers opened on an existing archive): the only non-trivial clause is that
every entry parsed from the central directory carries a timestamp `datepart` accepts, which holds
because `DateTime::from_msdos` can only produce years 1980…2107.
-/

namespace ZipVerif.Model
open ZipVerif

theorem timeOk_fromMsdos (d t : UInt16) : TimeOk (DateTime.fromMsdos d t) := by
  unfold TimeOk
  have h := (DateTime.fromMsdos_toNat d t).1
  have e : (1980 : UInt16).toNat = 1980 := by decide
  rw [UInt16.lt_iff_toNat_lt, e, h]
  omega

theorem parseExtraField_time : ∀ (fuel : Nat) (f : FileData) (rest : Bytes),
    (parseExtraField fuel f rest).1.time = f.time := by
  intro fuel
  induction fuel with
  | zero => intro f rest; rfl
  | succ n ih =>
    intro f rest
    unfold parseExtraField
    repeat' (first | rfl | rw [ih] | dsimp only | split)

theorem centralHeaderInner_timeOk (off start : Nat) :
    PostV (fun f => TimeOk f.time) (centralHeaderInner off start) := by
  unfold centralHeaderInner
  postv
  all_goals
    show TimeOk (parseExtraField _ _ _).1.time
    rw [parseExtraField_time]
    exact timeOk_fromMsdos _ _

theorem centralHeader_timeOk (off : Nat) : PostV (fun f => TimeOk f.time) (centralHeader off) := by
  unfold centralHeader
  postv [centralHeaderInner_timeOk _ _]

theorem newAppend_loop_timeOk (off n : Nat) :
    PostV (fun l => ∀ f ∈ l, TimeOk f.time) (newAppend.loop off n) := by
  induction n with
  | zero =>
    unfold newAppend.loop
    postv
    intro f hf; cases hf
  | succ n ih =>
    unfold newAppend.loop
    refine PostV.bind (centralHeader_timeOk off) fun f hf => ?_
    split
    · postv
    refine PostV.bind ih fun rest hrest => ?_
    postv
    intro g hg
    cases hg with
    | head => exact hf
    | tail _ hg => exact hrest g hg

theorem inv_appended (files : List FileData) (comment : Bytes) (h : ∀ f ∈ files, TimeOk f.time) :
    Inv { WState.init with files, comment, writingRaw := true } :=
  ⟨by simp [WState.init], by simp [WState.init], by simp [WState.init], by simp [WState.init],
   by simp [WState.init, InnerOk, EncOk], h⟩

/-- **`new_append` establishes the writer invariant**, for every input and every fault index. -/
theorem newAppend_inv : PostV Inv newAppend := by
  unfold newAppend
  apply PostV.bind_any; intro p
  obtain ⟨footer, cde⟩ := p
  dsimp only
  apply PostV.ite (PostV.throw _)
  apply PostV.bind_any; intro c
  obtain ⟨ao, ds, n⟩ := c
  dsimp only
  apply PostV.ite (PostV.throw _)
  apply PostV.bind_any; intro r
  cases r with
  | error e => exact PostV.throw _
  | ok q =>
    dsimp only
    refine PostV.bind (newAppend_loop_timeOk ao n) fun files hfiles => ?_
    apply PostV.bind_any; intro _
    exact PostV.pure (inv_appended files footer.comment hfiles)

end ZipVerif.Model
