import ZipVerif.Lemmas.WriterSat
/-
Fault transparency for the I/O monad `M` (C11): the generic part.

`M α = Option Nat → Dev → Out α × Dev`; the `Option Nat` is the index of the I/O call that fails.
A model function could in principle look at that index in any way it likes, so "a fault that is not
reached changes nothing" is not a free theorem: it is proved here compositionally, by a predicate
that is closed under every combinator the model is written with.

* `Fired k d d'` — the call with index `k` was issued between device states `d` and `d'`.
* `Uniform x` — (mono) the call counter never decreases; (dich) for every fault index `k`: either the
  faulted run of `x` is *equal* to the fault-free run (value and device) and `k` lies outside the
  window of calls the run makes, or `k` lies inside the window of BOTH runs (the fault fired).
  Closed under `pure`, `bind`, `throw`, `panic`, `attempt`, the primitives, `if`/`match`.
* `Clean x` — when the fault fires inside `x`, `x` returns exactly the injected error (functions that
  contain no `attempt`).  `Tight x = Uniform x ∧ Clean x`.
* `ErrOnFire x` — when the fault fires inside `x`, `x` returns *some* error.
* for writer steps (`M (Except ZErr β × WState)`): `EP x` — if `x` returns `Ok` then the fault did
  not fire inside it; `StepOK x = Uniform x ∧ EP x`; `StepErr x`: `Uniform` and never returns `Ok`.

The tactic `fault` applies the closure lemmas repeatedly; it is extended by `macro_rules` after
every function lemma.
-/

namespace ZipVerif.Model
open ZipVerif

/-- advance the call counter by `c` -/
def Dev.shift (d : Dev) (c : Nat) : Dev := { d with calls := d.calls + c }

/-- The I/O call with index `k` was issued between the device states `d` and `d'`. -/
def Fired (k : Nat) (d d' : Dev) : Prop := d.calls ≤ k ∧ k < d'.calls

instance (k : Nat) (d d' : Dev) : Decidable (Fired k d d') := by unfold Fired; infer_instance

theorem Fired.self {k : Nat} {d : Dev} : ¬ Fired k d d := by unfold Fired; omega

theorem Fired.split {k : Nat} {d d' d'' : Dev} (h : Fired k d d'') : Fired k d d' ∨ Fired k d' d'' := by
  unfold Fired at *; omega

structure Uniform {α} (x : M α) : Prop where
  mono : ∀ fa d, d.calls ≤ (x fa d).2.calls
  /-- the kind of error the device fails with is a property of the device: no computation changes it -/
  kind : ∀ fa d, (x fa d).2.fkind = d.fkind
  dich : ∀ k d, (x (some k) d = x none d ∧ (k < d.calls ∨ (x none d).2.calls ≤ k)) ∨
                (Fired k d (x (some k) d).2 ∧ Fired k d (x none d).2)

/-- The consequence used most: a fault that is not reached **in the faulted run** changes nothing. -/
theorem Uniform.same_of_not_fired {α} {x : M α} (h : Uniform x) {k : Nat} {d : Dev}
    (hn : ¬ Fired k d (x (some k) d).2) : x (some k) d = x none d := by
  rcases h.dich k d with ⟨e, _⟩ | ⟨f, _⟩
  · exact e
  · exact absurd f hn

/-- … and a fault outside the window of calls of **the fault-free run** changes nothing. -/
theorem Uniform.same_of_outside {α} {x : M α} (h : Uniform x) {k : Nat} {d : Dev}
    (hn : k < d.calls ∨ (x none d).2.calls ≤ k) : x (some k) d = x none d := by
  rcases h.dich k d with ⟨e, _⟩ | ⟨_, f⟩
  · exact e
  · unfold Fired at f; omega

theorem Uniform.fired_none {α} {x : M α} (h : Uniform x) {k : Nat} {d : Dev}
    (hf : Fired k d (x (some k) d).2) : Fired k d (x none d).2 := by
  rcases h.dich k d with ⟨e, w⟩ | ⟨_, f⟩
  · rw [e] at hf; unfold Fired at hf; omega
  · exact f

/-! ### `Uniform`: closure -/

theorem Uniform.const {α} (o : Out α) : Uniform (fun _ d => (o, d) : M α) :=
  ⟨fun _ _ => Nat.le_refl _, fun _ _ => rfl, fun k d => by
      by_cases hk : k < d.calls
      · exact Or.inl ⟨rfl, Or.inl hk⟩
      · exact Or.inl ⟨rfl, Or.inr (by show d.calls ≤ k; omega)⟩⟩

theorem Uniform.pure {α} (a : α) : Uniform (Pure.pure a : M α) := Uniform.const _
theorem Uniform.throw {α} (e : ZErr) : Uniform (M.throw e : M α) := Uniform.const _
theorem Uniform.panic {α} (s : String) : Uniform (M.panic s : M α) := Uniform.const _
theorem Uniform.liftOut {α} (o : Out α) : Uniform (M.liftOut o : M α) := Uniform.const _

theorem Uniform.bind {α β} {x : M α} {f : α → M β} (hx : Uniform x) (hf : ∀ a, Uniform (f a)) :
    Uniform (x >>= f) := by
  have hge : ∀ fa d, (x fa d).2.calls ≤ ((x >>= f) fa d).2.calls := by
    intro fa d
    rw [M.bind_apply]
    cases h : x fa d with
    | mk o d' =>
      cases o with
      | ok a => exact (hf a).mono fa d'
      | err e => exact Nat.le_refl _
      | panic s => exact Nat.le_refl _
  have hkd : ∀ fa d, ((x >>= f) fa d).2.fkind = d.fkind := by
    intro fa d
    rw [M.bind_apply]
    have hk := hx.kind fa d
    cases h : x fa d with
    | mk o d' =>
      rw [h] at hk
      cases o with
      | ok a => exact ((hf a).kind fa d').trans hk
      | err e => exact hk
      | panic s => exact hk
  refine ⟨fun fa d => Nat.le_trans (hx.mono fa d) (hge fa d), hkd, ?_⟩
  · intro k d
    rcases hx.dich k d with ⟨heq, hw⟩ | ⟨h1, h2⟩
    · have hm := hx.mono none d
      rw [M.bind_apply, M.bind_apply, heq]
      cases h0 : x none d with
      | mk o d' =>
        rw [h0] at hw hm
        cases o with
        | ok a =>
          dsimp only at hw hm ⊢
          have hm2 := (hf a).mono none d'
          rcases (hf a).dich k d' with ⟨heq2, hw2⟩ | ⟨g1, g2⟩
          · exact Or.inl ⟨heq2, by omega⟩
          · refine Or.inr ⟨?_, ?_⟩
            · unfold Fired at *; omega
            · unfold Fired at *; omega
        | err e => exact Or.inl ⟨rfl, hw⟩
        | panic s => exact Or.inl ⟨rfl, hw⟩
    · have g1 := hge (some k) d
      have g2 := hge none d
      refine Or.inr ⟨?_, ?_⟩
      · unfold Fired at *; omega
      · unfold Fired at *; omega

theorem Uniform.attempt {α} {x : M α} (hx : Uniform x) : Uniform (M.attempt x) := by
  have hd : ∀ fa d, (M.attempt x fa d).2 = (x fa d).2 := by
    intro fa d
    rw [M.attempt_apply]
    cases h : x fa d with
    | mk o d' => cases o <;> rfl
  refine ⟨fun fa d => by rw [hd]; exact hx.mono fa d, fun fa d => by rw [hd]; exact hx.kind fa d, ?_⟩
  · intro k d
    rw [hd, hd]
    rcases hx.dich k d with ⟨heq, hw⟩ | h
    · exact Or.inl ⟨by rw [M.attempt_apply, M.attempt_apply, heq], hw⟩
    · exact Or.inr h

/-- One primitive: `f` must leave the call counter and the device's error kind alone. -/
theorem Uniform.prim {α} {f : Dev → Out α × Dev} (hc : ∀ d, (f d).2.calls = d.calls)
    (hk : ∀ d, (f d).2.fkind = d.fkind) :
    Uniform (M.prim f) := by
  refine ⟨?_, ?_, ?_⟩
  · intro fa d
    unfold M.prim
    dsimp only
    split
    · exact Nat.le_succ _
    · rw [hc]; exact Nat.le_succ _
  · intro fa d
    unfold M.prim
    dsimp only
    split
    · rfl
    · rw [hk]
  · intro k d
    unfold M.prim
    dsimp only
    by_cases hk : k = d.calls
    · subst hk
      refine Or.inr ⟨?_, ?_⟩
      · rw [if_pos rfl]; unfold Fired; dsimp only; omega
      · rw [if_neg (by simp)]; unfold Fired; rw [hc]; dsimp only; omega
    · have : ¬ (some k = some d.calls) := by simpa using hk
      rw [if_neg this, if_neg (by simp)]
      refine Or.inl ⟨rfl, ?_⟩
      rw [hc]; dsimp only; omega

/-! ### `Clean` / `Tight` -/

/-- When the fault fires inside `x`, `x` returns the injected error itself: an I/O error of the kind the
device fails with (`Dev.fkind`, which no primitive changes) — whatever that kind is. -/
def Clean {α} (x : M α) : Prop :=
  ∀ k d, Fired k d (x (some k) d).2 → (x (some k) d).1 = .err (.io (x (some k) d).2.fkind)

structure Tight {α} (x : M α) : Prop where
  uni : Uniform x
  clean : Clean x

/-- … which, the kind being a device property (`Uniform.kind`), is the kind of the device the call started on. -/
theorem Tight.reports {α} {x : M α} (h : Tight x) {k : Nat} {d : Dev}
    (hf : Fired k d (x (some k) d).2) : (x (some k) d).1 = .err (.io d.fkind) := by
  rw [h.clean k d hf, h.uni.kind]

theorem Clean.const {α} (o : Out α) : Clean (fun _ d => (o, d) : M α) :=
  fun _ _ h => absurd h Fired.self

theorem Tight.pure {α} (a : α) : Tight (Pure.pure a : M α) := ⟨Uniform.pure a, Clean.const _⟩
theorem Tight.throw {α} (e : ZErr) : Tight (M.throw e : M α) := ⟨Uniform.throw e, Clean.const _⟩
theorem Tight.panic {α} (s : String) : Tight (M.panic s : M α) := ⟨Uniform.panic s, Clean.const _⟩

theorem Clean.bind {α β} {x : M α} {f : α → M β} (hx : Uniform x) (cx : Clean x)
    (cf : ∀ a, Clean (f a)) : Clean (x >>= f) := by
  intro k d hf
  have c1 := cx k d
  have hm := hx.mono (some k) d
  rw [M.bind_apply] at hf ⊢
  cases h : x (some k) d with
  | mk o d' =>
    rw [h] at hf c1 hm
    cases o with
    | ok a =>
      dsimp only at hf c1 hm ⊢
      by_cases hfx : Fired k d d'
      · exact absurd (c1 hfx) (by intro h; cases h)
      · exact cf a k d' (by unfold Fired at *; omega)
    | err e => dsimp only at hf c1 ⊢; have := c1 hf; cases this; rfl
    | panic s => dsimp only at hf c1 ⊢; cases c1 hf

theorem Tight.bind {α β} {x : M α} {f : α → M β} (hx : Tight x) (hf : ∀ a, Tight (f a)) :
    Tight (x >>= f) :=
  ⟨Uniform.bind hx.uni fun a => (hf a).uni, Clean.bind hx.uni hx.clean fun a => (hf a).clean⟩

theorem Tight.prim {α} {f : Dev → Out α × Dev} (hc : ∀ d, (f d).2.calls = d.calls)
    (hk : ∀ d, (f d).2.fkind = d.fkind) :
    Tight (M.prim f) := by
  refine ⟨Uniform.prim hc hk, ?_⟩
  intro k d hf
  unfold M.prim at hf ⊢
  dsimp only at hf ⊢
  by_cases hk : k = d.calls
  · subst hk; rw [if_pos rfl]
  · have : ¬ (some k = some d.calls) := by simpa using hk
    rw [if_neg this] at hf
    unfold Fired at hf
    rw [hc] at hf
    dsimp only at hf
    omega

theorem Tight.read (n : Nat) : Tight (M.read n) := Tight.prim (fun _ => rfl) (fun _ => rfl)
theorem Tight.write (bs : Bytes) : Tight (M.write bs) := Tight.prim (fun _ => rfl) (fun _ => rfl)
theorem Tight.flush : Tight M.flush := Tight.prim (fun _ => rfl) (fun _ => rfl)
theorem Tight.seek (s : SeekFrom) : Tight (M.seek s) := by
  apply Tight.prim
  · intro d; cases s <;> dsimp only <;> split <;> rfl
  · intro d; cases s <;> dsimp only <;> split <;> rfl
/-- `getDev` makes no I/O call. -/
theorem Tight.getDev : Tight M.getDev :=
  ⟨⟨fun _ _ => Nat.le_refl _, fun _ _ => rfl, fun k d => by
      by_cases hk : k < d.calls
      · exact Or.inl ⟨rfl, Or.inl hk⟩
      · exact Or.inl ⟨rfl, Or.inr (by show d.calls ≤ k; omega)⟩⟩,
   fun _ _ h => absurd h Fired.self⟩
theorem Tight.streamPosition : Tight M.streamPosition := Tight.seek _

/-! ### `ErrOnFire` -/

/-- When the fault fires inside `x`, `x` returns an error. -/
def ErrOnFire {α} (x : M α) : Prop :=
  ∀ k d, Fired k d (x (some k) d).2 → ∃ e, (x (some k) d).1 = .err e

theorem Tight.errOnFire {α} {x : M α} (h : Tight x) : ErrOnFire x :=
  fun k d hf => ⟨_, h.clean k d hf⟩

theorem ErrOnFire.const {α} (o : Out α) : ErrOnFire (fun _ d => (o, d) : M α) :=
  fun _ _ h => absurd h Fired.self

theorem ErrOnFire.bind {α β} {x : M α} {f : α → M β} (hx : Uniform x) (cx : ErrOnFire x)
    (cf : ∀ a, ErrOnFire (f a)) : ErrOnFire (x >>= f) := by
  intro k d hf
  have c1 := cx k d
  have hm := hx.mono (some k) d
  rw [M.bind_apply] at hf ⊢
  cases h : x (some k) d with
  | mk o d' =>
    rw [h] at hf c1 hm
    cases o with
    | ok a =>
      dsimp only at hf c1 hm ⊢
      by_cases hfx : Fired k d d'
      · obtain ⟨e, he⟩ := c1 hfx; cases he
      · exact cf a k d' (by unfold Fired at *; omega)
    | err e => exact ⟨e, rfl⟩
    | panic s => obtain ⟨e, he⟩ := c1 hf; cases he

/-- `attempt m >>= h` where `h` sends the injected error on as an error — WHATEVER its kind: the fault is not
swallowed. -/
theorem ErrOnFire.attempt_bind {α β} {m : M α} {h : Except ZErr α → M β} (hm : Tight m)
    (hinj : ∀ κ, ∃ e', h (.error (.io κ)) = M.throw e') (hh : ∀ r, ErrOnFire (h r)) :
    ErrOnFire (M.attempt m >>= h) := by
  intro k d hf
  have c1 := hm.clean k d
  have hmo := hm.uni.mono (some k) d
  rw [M.bind_apply, M.attempt_apply] at hf ⊢
  cases hx : m (some k) d with
  | mk o d' =>
    rw [hx] at hf c1 hmo
    by_cases hfx : Fired k d d'
    · have := c1 hfx
      dsimp only at this
      subst this
      obtain ⟨e', he'⟩ := hinj d'.fkind
      dsimp only
      rw [he']
      exact ⟨e', rfl⟩
    · cases o with
      | ok a => exact hh _ k d' (by dsimp only at hf hmo; unfold Fired at *; omega)
      | err e => exact hh _ k d' (by dsimp only at hf hmo; unfold Fired at *; omega)
      | panic s => exact absurd hf hfx

theorem ErrOnFire.pure {α} (a : α) : ErrOnFire (Pure.pure a : M α) := ErrOnFire.const _
theorem ErrOnFire.throw {α} (e : ZErr) : ErrOnFire (M.throw e : M α) := ErrOnFire.const _
theorem ErrOnFire.panic {α} (s : String) : ErrOnFire (M.panic s : M α) := ErrOnFire.const _

/-- `attempt m >>= h` where `h` rethrows every I/O error unchanged, whatever its kind (it may swallow errors that
are not I/O errors, e.g. `if let Err(InvalidArchive) = … { None }`): still `Clean` — an injected fault is never
swallowed.  (A handler that tells I/O error kinds apart — `Err(e) if e.kind() == InvalidInput => None` — does
NOT satisfy `hinj`: the device may fail with exactly that kind.) -/
theorem Clean.attempt_bind {α β} {m : M α} {h : Except ZErr α → M β} (hm : Tight m)
    (hinj : ∀ κ, h (.error (.io κ)) = M.throw (.io κ)) (hh : ∀ r, Clean (h r)) :
    Clean (M.attempt m >>= h) := by
  intro k d hf
  have c1 := hm.clean k d
  have hmo := hm.uni.mono (some k) d
  rw [M.bind_apply, M.attempt_apply] at hf ⊢
  cases hx : m (some k) d with
  | mk o d' =>
    rw [hx] at hf c1 hmo
    by_cases hfx : Fired k d d'
    · have := c1 hfx
      dsimp only at this
      subst this
      dsimp only
      rw [hinj]
      rfl
    · cases o with
      | ok a => exact hh _ k d' (by dsimp only at hf hmo; unfold Fired at *; omega)
      | err e => exact hh _ k d' (by dsimp only at hf hmo; unfold Fired at *; omega)
      | panic s => exact absurd hf hfx

theorem Tight.attempt_bind {α β} {m : M α} {h : Except ZErr α → M β} (hm : Tight m)
    (hinj : ∀ κ, h (.error (.io κ)) = M.throw (.io κ)) (hh : ∀ r, Tight (h r)) :
    Tight (M.attempt m >>= h) :=
  ⟨Uniform.bind (Uniform.attempt hm.uni) fun r => (hh r).uni,
   Clean.attempt_bind hm hinj fun r => (hh r).clean⟩

/-! ### Writer steps -/

section Steps
variable {β : Type}

/-- If the step returns `Ok`, the fault did not fire inside it. -/
def EP (x : M (Except ZErr β × WState)) : Prop :=
  ∀ k d v s' d', x (some k) d = (.ok (.ok v, s'), d') → ¬ Fired k d d'

def NeverOk (x : M (Except ZErr β × WState)) : Prop :=
  ∀ fa d v s' d', x fa d ≠ (.ok (.ok v, s'), d')

structure StepOK (x : M (Except ZErr β × WState)) : Prop where
  uni : Uniform x
  ep : EP x

structure StepErr (x : M (Except ZErr β × WState)) : Prop where
  uni : Uniform x
  never : NeverOk x

theorem StepErr.toOK {x : M (Except ZErr β × WState)} (h : StepErr x) : StepOK x :=
  ⟨h.uni, fun _ _ _ _ _ e => absurd e (h.never _ _ _ _ _)⟩

theorem StepOK.pure (r : Except ZErr β × WState) : StepOK (Pure.pure r : M _) :=
  ⟨Uniform.pure r, fun _ _ _ _ _ e => by cases e; exact Fired.self⟩

theorem StepOK.panic (site : String) : StepOK (M.panic site : M (Except ZErr β × WState)) :=
  ⟨Uniform.panic site, fun _ _ _ _ _ e => by cases e⟩

theorem StepErr.pure_error (e : ZErr) (s : WState) :
    StepErr (Pure.pure (.error e, s) : M (Except ZErr β × WState)) :=
  ⟨Uniform.pure _, fun _ _ _ _ _ h => by cases h⟩

theorem StepErr.panic (site : String) : StepErr (M.panic site : M (Except ZErr β × WState)) :=
  ⟨Uniform.panic site, fun _ _ _ _ _ e => by cases e⟩

theorem StepOK.bind {α} {x : M (Except ZErr α × WState)}
    {f : Except ZErr α × WState → M (Except ZErr β × WState)} (hx : StepOK x)
    (hok : ∀ v s, StepOK (f (.ok v, s))) (herr : ∀ e s, StepErr (f (.error e, s))) :
    StepOK (x >>= f) := by
  refine ⟨Uniform.bind hx.uni ?_, ?_⟩
  · rintro ⟨r, s⟩
    cases r with
    | ok v => exact (hok v s).uni
    | error e => exact (herr e s).uni
  · intro k d v s' d'' he
    rw [M.bind_apply] at he
    cases h : x (some k) d with
    | mk o d' =>
      rw [h] at he
      cases o with
      | ok rs =>
        obtain ⟨r, s⟩ := rs
        cases r with
        | ok v1 =>
          have n1 := hx.ep k d v1 s d' h
          have n2 := (hok v1 s).ep k d' v s' d'' he
          intro hf
          rcases hf.split (d' := d') with h | h
          · exact n1 h
          · exact n2 h
        | error e => exact absurd he ((herr e s).never _ _ _ _ _)
      | err e => cases he
      | panic p => cases he

/-- A step after which the result is discarded (`Drop`), or any continuation: only `Uniform`. -/
theorem Uniform.stepBind {α} {x : M (Except ZErr α × WState)}
    {f : Except ZErr α × WState → M (Except ZErr β × WState)} (hx : StepOK x)
    (hf : ∀ r, Uniform (f r)) : Uniform (x >>= f) := Uniform.bind hx.uni hf

theorem StepErr.bind {α} {x : M (Except ZErr α × WState)}
    {f : Except ZErr α × WState → M (Except ZErr β × WState)} (hx : Uniform x)
    (hf : ∀ r, StepErr (f r)) : StepErr (x >>= f) := by
  refine ⟨Uniform.bind hx fun r => (hf r).uni, ?_⟩
  intro fa d v s' d'' he
  rw [M.bind_apply] at he
  cases h : x fa d with
  | mk o d' =>
    rw [h] at he
    cases o with
    | ok rs => exact (hf rs).never _ _ _ _ _ he
    | err e => cases he
    | panic p => cases he

/-- `io s m k`: the device action's failure is the call's `Err`. -/
theorem StepOK.io {α} {s : WState} {m : M α} {k : α → M (Except ZErr β × WState)}
    (hm : Tight m) (hk : ∀ a, StepOK (k a)) : StepOK (Model.io s m k) := by
  unfold Model.io
  refine ⟨Uniform.bind (Uniform.attempt hm.uni) ?_, ?_⟩
  · intro r
    cases r with
    | ok a => exact (hk a).uni
    | error e => exact Uniform.pure _
  · intro kk d v s' d'' he
    rw [M.bind_apply, M.attempt_apply] at he
    have c1 := hm.clean kk d
    cases h : m (some kk) d with
    | mk o d' =>
      rw [h] at he c1
      cases o with
      | ok a =>
        dsimp only at he c1
        have n2 := (hk a).ep kk d' v s' d'' he
        intro hf
        rcases hf.split (d' := d') with h | h
        · have := c1 h; cases this
        · exact n2 h
      | err e => cases he
      | panic p => cases he

theorem StepErr.io {α} {s : WState} {m : M α} {k : α → M (Except ZErr β × WState)}
    (hm : Tight m) (hk : ∀ a, StepErr (k a)) : StepErr (Model.io s m k) := by
  refine ⟨(StepOK.io (s := s) hm fun a => (hk a).toOK).uni, ?_⟩
  unfold Model.io
  intro fa d v s' d'' he
  rw [M.bind_apply, M.attempt_apply] at he
  cases h : m fa d with
  | mk o d' =>
    rw [h] at he
    cases o with
    | ok a => exact (hk a).never _ _ _ _ _ he
    | err e => cases he
    | panic p => cases he

end Steps

/-! ### The tactic -/

/-- one step of `fault`; extended with `macro_rules` (later rules are tried first) -/
syntax "fault_step" : tactic

macro_rules | `(tactic| fault_step) => `(tactic| split)
macro_rules | `(tactic| fault_step) => `(tactic| dsimp only)
macro_rules | `(tactic| fault_step) => `(tactic| exact StepErr.pure_error _ _)
macro_rules | `(tactic| fault_step) => `(tactic| with_reducible intro _)
macro_rules | `(tactic| fault_step) => `(tactic| with_reducible apply Uniform.bind)
macro_rules | `(tactic| fault_step) => `(tactic| with_reducible apply Tight.bind)
macro_rules | `(tactic| fault_step) => `(tactic| with_reducible apply ErrOnFire.bind)
macro_rules | `(tactic| fault_step) => `(tactic| focus (refine Tight.errOnFire ?_; fault_step; done))
macro_rules | `(tactic| fault_step) => `(tactic| ((with_reducible apply ErrOnFire.attempt_bind); (case hinj => (intro κ; cases κ <;> exact ⟨_, rfl⟩))))
macro_rules | `(tactic| fault_step) => `(tactic| ((with_reducible apply Tight.attempt_bind); (case hinj => (intro κ; cases κ <;> rfl))))
macro_rules | `(tactic| fault_step) => `(tactic| focus (refine Tight.uni ?_; fault_step; done))
macro_rules | `(tactic| fault_step) => `(tactic| with_reducible apply StepOK.bind)
macro_rules | `(tactic| fault_step) => `(tactic| with_reducible apply Uniform.attempt)
macro_rules | `(tactic| fault_step) => `(tactic| with_reducible apply StepOK.io)
macro_rules | `(tactic| fault_step) => `(tactic| with_reducible apply StepErr.io)
macro_rules | `(tactic| fault_step) => `(tactic| with_reducible exact StepErr.panic _)
macro_rules | `(tactic| fault_step) => `(tactic| with_reducible exact StepErr.pure_error _ _)
macro_rules | `(tactic| fault_step) => `(tactic| with_reducible exact StepOK.panic _)
macro_rules | `(tactic| fault_step) => `(tactic| with_reducible exact StepOK.pure _)
macro_rules | `(tactic| fault_step) => `(tactic| with_reducible exact ErrOnFire.panic _)
macro_rules | `(tactic| fault_step) => `(tactic| with_reducible exact ErrOnFire.throw _)
macro_rules | `(tactic| fault_step) => `(tactic| with_reducible exact ErrOnFire.pure _)
macro_rules | `(tactic| fault_step) => `(tactic| with_reducible exact Uniform.panic _)
macro_rules | `(tactic| fault_step) => `(tactic| with_reducible exact Uniform.throw _)
macro_rules | `(tactic| fault_step) => `(tactic| with_reducible exact Uniform.pure _)
macro_rules | `(tactic| fault_step) => `(tactic| with_reducible exact Tight.panic _)
macro_rules | `(tactic| fault_step) => `(tactic| with_reducible exact Tight.throw _)
macro_rules | `(tactic| fault_step) => `(tactic| with_reducible exact Tight.pure _)
macro_rules | `(tactic| fault_step) => `(tactic| with_reducible exact Tight.uni (by assumption))
macro_rules | `(tactic| fault_step) => `(tactic| assumption)

/-- apply the closure lemmas of `Uniform` / `Tight` / `StepOK` / `StepErr` until nothing is left -/
macro "fault" : tactic => `(tactic| repeat fault_step)

/-! ### Derived device actions -/

macro_rules | `(tactic| fault_step) => `(tactic| with_reducible exact Tight.read _)
macro_rules | `(tactic| fault_step) => `(tactic| with_reducible exact Tight.write _)
macro_rules | `(tactic| fault_step) => `(tactic| with_reducible exact Tight.flush)
macro_rules | `(tactic| fault_step) => `(tactic| with_reducible exact Tight.seek _)
macro_rules | `(tactic| fault_step) => `(tactic| with_reducible exact Tight.streamPosition)
macro_rules | `(tactic| fault_step) => `(tactic| with_reducible exact Tight.getDev)
macro_rules | `(tactic| fault_step) => `(tactic| with_reducible exact Tight.uni (Tight.seek _))

theorem Tight.writeAll (bs : Bytes) : Tight (M.writeAll bs) := by unfold M.writeAll; fault
macro_rules | `(tactic| fault_step) => `(tactic| with_reducible exact Tight.writeAll _)

theorem Tight.readExact (n : Nat) : Tight (M.readExact n) := by unfold M.readExact; fault
macro_rules | `(tactic| fault_step) => `(tactic| with_reducible exact Tight.readExact _)

theorem Tight.readU8 : Tight M.readU8 := by unfold M.readU8; fault
theorem Tight.readU16 : Tight M.readU16 := by unfold M.readU16; fault
theorem Tight.readU32 : Tight M.readU32 := by unfold M.readU32; fault
theorem Tight.readU64 : Tight M.readU64 := by unfold M.readU64; fault
macro_rules | `(tactic| fault_step) => `(tactic| with_reducible exact Tight.readU8)
macro_rules | `(tactic| fault_step) => `(tactic| with_reducible exact Tight.readU16)
macro_rules | `(tactic| fault_step) => `(tactic| with_reducible exact Tight.readU32)
macro_rules | `(tactic| fault_step) => `(tactic| with_reducible exact Tight.readU64)

theorem Tight.writeChunks (cs : List Bytes) : Tight (M.writeChunks cs) := by
  induction cs with
  | nil => unfold M.writeChunks; fault
  | cons c cs ih => unfold M.writeChunks; fault
macro_rules | `(tactic| fault_step) => `(tactic| with_reducible exact Tight.writeChunks _)

end ZipVerif.Model
