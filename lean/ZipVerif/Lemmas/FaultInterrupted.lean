import ZipVerif.Lemmas.FaultVisit
import ZipVerif.Lemmas.ShortRead
import ZipVerif.Model.Interrupted
import ZipVerif.Lemmas.ReaderTotal
/-
C11, `ErrorKind::Interrupted` on the SEEKABLE reader: the general theorem.

`Model/Interrupted.lean` instantiates the generic parsers at `MI` (`read_exact` / `read_to_end` are std's retry loops:
`M.retried`; `seek` is a bare call).  Here: a relation `RI x y` between a computation `x` over `M` (every kind is a hard
failure) and its counterpart `y` over `MI`, closed under every combinator the parsers are written with, and proved
for every generic parser by the same induction `G.openArchive_M` needed.  `RI x y` says, for every fault index and
device: EITHER `y` answers exactly as `x` does (always when the device does not fail with `Interrupted`, when there is
no fault, when the fault is not reached, and when it hits a bare call - then `x`'s answer is the reported error), OR
the device fails with `Interrupted`, the fault index lies among the calls of the failure-free run of `x`, and `y`
returns the outcome, value and device of that failure-free run with one more call counted (the fault hit a call
inside a retry loop).

Two side conditions on the `M` side make the relation compositional: `Uniform x` (`Lemmas/FaultCore`) and
`Shiftable x` - the failure-free run does not look at the call counter.
-/

namespace ZipVerif.Model
open ZipVerif

/-! ### `Shiftable`: the failure-free run does not depend on the call counter -/

structure Shiftable {α} (x : M α) : Prop where
  eq : ∀ d c, x none (d.shift c) = ((x none d).1, (x none d).2.shift c)

namespace Shiftable
variable {α β : Type}

theorem const (o : Out α) : Shiftable (fun _ d => (o, d) : M α) := ⟨fun _ _ => rfl⟩
theorem pure (a : α) : Shiftable (Pure.pure a : M α) := const _
theorem throw (e : ZErr) : Shiftable (M.throw e : M α) := const _
theorem panic (s : String) : Shiftable (M.panic s : M α) := const _

theorem bind {x : M α} {f : α → M β} (hx : Shiftable x) (hf : ∀ a, Shiftable (f a)) :
    Shiftable (x >>= f) := by
  refine ⟨fun d c => ?_⟩
  rw [M.bind_apply, M.bind_apply, hx.eq d c]
  cases h : x none d with
  | mk o d1 =>
    cases o with
    | ok a => exact (hf a).eq d1 c
    | err e => rfl
    | panic s => rfl

theorem attempt {x : M α} (hx : Shiftable x) : Shiftable (M.attempt x) := by
  refine ⟨fun d c => ?_⟩
  rw [M.attempt_apply, M.attempt_apply, hx.eq d c]
  cases h : x none d with
  | mk o d1 => cases o <;> rfl

theorem prim {f : Dev → Out α × Dev} (hf : ∀ d c, f (d.shift c) = ((f d).1, (f d).2.shift c)) :
    Shiftable (M.prim f) := by
  refine ⟨fun d c => ?_⟩
  have e : ∀ d' : Dev, M.prim f none d' = f { d' with calls := d'.calls + 1 } := by
    intro d'
    unfold M.prim
    dsimp only
    rw [if_neg (by simp)]
  rw [e, e]
  have : ({ d.shift c with calls := (d.shift c).calls + 1 } : Dev) =
      ({ d with calls := d.calls + 1 } : Dev).shift c := by
    unfold Dev.shift
    dsimp only
    rw [Nat.add_right_comm]
  rw [this, hf]

theorem read (n : Nat) : Shiftable (M.read n) := prim fun _ _ => rfl
theorem write (bs : Bytes) : Shiftable (M.write bs) := prim fun _ _ => rfl
theorem flush : Shiftable M.flush := prim fun _ _ => rfl
theorem seek (s : SeekFrom) : Shiftable (M.seek s) := by
  apply prim
  intro d c
  cases s <;> dsimp only [Dev.shift] <;> split <;> rfl

end Shiftable

syntax "shift_step" : tactic
macro_rules
  | `(tactic| shift_step) => `(tactic| first
    | exact Shiftable.pure _ | exact Shiftable.throw _ | exact Shiftable.panic _ | exact Shiftable.seek _
    | exact Shiftable.read _ | exact Shiftable.write _ | exact Shiftable.flush | assumption
    | refine Shiftable.bind ?_ ?_
    | refine Shiftable.attempt ?_
    | intro _
    | dsimp only
    | split)

theorem Shiftable.readExact (n : Nat) : Shiftable (M.readExact n) := by
  unfold M.readExact
  repeat' shift_step

theorem Shiftable.writeAll (bs : Bytes) : Shiftable (M.writeAll bs) := by
  unfold M.writeAll
  repeat' shift_step

theorem Shiftable.takeAll (n : Nat) : Shiftable (takeAll n) := by
  unfold Model.takeAll
  repeat' shift_step

/-! ### The relation -/

/-- `x` over `M` (every failure is a hard one) and `y`, the same computation with std's `Interrupted` convention. -/
structure RI {α} (x : M α) (y : MI α) : Prop where
  uni : Uniform x
  shift : Shiftable x
  rel : ∀ fa d, y fa d = x fa d ∨
    ∃ k, fa = some k ∧ d.fkind = .interrupted ∧ Fired k d (x none d).2 ∧
      y fa d = ((x none d).1, (x none d).2.shift 1)

namespace RI
variable {α β : Type}

/-- a computation without retry loops: the same on both sides -/
theorem same {x : M α} (hu : Uniform x) (hs : Shiftable x) : RI x x := ⟨hu, hs, fun _ _ => Or.inl rfl⟩

/-- a computation all of whose calls sit in retry loops -/
theorem retried {x : M α} (hu : Uniform x) (hs : Shiftable x) : RI x (M.retried x) := by
  refine ⟨hu, hs, ?_⟩
  intro fa d
  cases fa with
  | none => exact Or.inl rfl
  | some k =>
    by_cases hc : d.fkind = .interrupted ∧ d.calls ≤ k ∧ k < (x none d).2.calls
    · exact Or.inr ⟨k, rfl, hc.1, ⟨hc.2.1, hc.2.2⟩, M.retried_interrupted x k d hc.1 ⟨hc.2.1, hc.2.2⟩⟩
    · left
      unfold M.retried
      dsimp only
      rw [if_neg hc]

theorem pure (a : α) : RI (Pure.pure a : M α) (Pure.pure a : MI α) := same (Uniform.pure a) (Shiftable.pure a)
theorem throw (e : ZErr) : RI (ParserIO.ioThrow e : M α) (ParserIO.ioThrow e : MI α) :=
  same (Uniform.throw e) (Shiftable.throw e)
theorem panic (s : String) : RI (ParserIO.ioPanic s : M α) (ParserIO.ioPanic s : MI α) :=
  same (Uniform.panic s) (Shiftable.panic s)
theorem seek (s : SeekFrom) : RI (ParserIO.ioSeek s : M Nat) (ParserIO.ioSeek s : MI Nat) :=
  same (Tight.seek s).uni (Shiftable.seek s)
theorem readExact (n : Nat) : RI (ParserIO.ioReadExact n : M Bytes) (ParserIO.ioReadExact n : MI Bytes) :=
  retried (Tight.readExact n).uni (Shiftable.readExact n)
theorem takeAll (n : Nat) : RI (ParserIO.ioTakeAll n : M Bytes) (ParserIO.ioTakeAll n : MI Bytes) :=
  retried (takeAll_tight n).uni (Shiftable.takeAll n)

theorem bind {x : M α} {y : MI α} {f : α → M β} {g : α → MI β} (h1 : RI x y)
    (h2 : ∀ a, RI (f a) (g a)) : RI (x >>= f) (y >>= g) := by
  refine ⟨Uniform.bind h1.uni fun a => (h2 a).uni, Shiftable.bind h1.shift fun a => (h2 a).shift, ?_⟩
  intro fa d
  have hy : (y >>= g) fa d = (match y fa d with
      | (.ok a, d') => g a fa d'
      | (.err e, d') => (.err e, d')
      | (.panic s, d') => (.panic s, d')) := rfl
  rcases h1.rel fa d with e | ⟨k, rfl, hi, hf, e⟩
  · rw [hy, e, M.bind_apply]
    cases h : x fa d with
    | mk o d1 =>
      cases o with
      | err e => exact Or.inl rfl
      | panic s => exact Or.inl rfl
      | ok a =>
        dsimp only
        rcases (h2 a).rel fa d1 with e2 | ⟨k, rfl, hi2, hf2, e2⟩
        · exact Or.inl e2
        · right
          have hk1 := h1.uni.kind (some k) d
          have hm1 := h1.uni.mono (some k) d
          rw [h] at hk1 hm1
          dsimp only at hk1 hm1
          have hnf : ¬ Fired k d (x (some k) d).2 := by
            rw [h]; unfold Fired at *; dsimp only; omega
          have h0 : x none d = (.ok a, d1) := by rw [← h1.uni.same_of_not_fired hnf, h]
          have hb : (x >>= f) none d = f a none d1 := by rw [M.bind_apply, h0]
          refine ⟨k, rfl, by rw [← hk1]; exact hi2, ?_, ?_⟩
          · rw [hb]; unfold Fired at *; omega
          · rw [hb]; exact e2
  · rw [hy, e]
    right
    cases h : x none d with
    | mk o d1 =>
      rw [h] at hf
      dsimp only at hf
      have hb := M.bind_apply x f none d
      rw [h] at hb
      cases o with
      | err e => exact ⟨k, rfl, hi, by rw [hb]; exact hf, by rw [hb]⟩
      | panic s => exact ⟨k, rfl, hi, by rw [hb]; exact hf, by rw [hb]⟩
      | ok a =>
        dsimp only at hb ⊢
        have hm2 := (h2 a).uni.mono none d1
        refine ⟨k, rfl, hi, by rw [hb]; unfold Fired at *; omega, ?_⟩
        rw [hb]
        have hlt : k < (d1.shift 1).calls := by unfold Fired at hf; unfold Dev.shift; dsimp only; omega
        rcases (h2 a).rel (some k) (d1.shift 1) with e2 | ⟨k', hk', _, hf2, _⟩
        · rw [e2, (h2 a).uni.same_of_outside (Or.inl hlt), (h2 a).shift.eq d1 1]
        · cases hk'
          unfold Fired at hf2
          omega

theorem attempt {x : M α} {y : MI α} (h : RI x y) :
    RI (ParserIO.ioAttempt x : M (Except ZErr α)) (ParserIO.ioAttempt y : MI (Except ZErr α)) := by
  refine ⟨Uniform.attempt h.uni, Shiftable.attempt h.shift, ?_⟩
  intro fa d
  have hy : (ParserIO.ioAttempt y : MI (Except ZErr α)) fa d = (match y fa d with
      | (.ok a, d') => (.ok (.ok a), d')
      | (.err e, d') => (.ok (.error e), d')
      | (.panic s, d') => (.panic s, d')) := rfl
  have hx : ∀ fa, (ParserIO.ioAttempt x : M (Except ZErr α)) fa d = (match x fa d with
      | (.ok a, d') => (.ok (.ok a), d')
      | (.err e, d') => (.ok (.error e), d')
      | (.panic s, d') => (.panic s, d')) := fun _ => rfl
  rcases h.rel fa d with e | ⟨k, rfl, hi, hf, e⟩
  · left
    rw [hy, hx, e]
  · right
    have hd : ((ParserIO.ioAttempt x : M (Except ZErr α)) none d).2 = (x none d).2 := by
      rw [hx]; cases x none d with
      | mk o d1 => cases o <;> rfl
    refine ⟨k, rfl, hi, by rw [hd]; exact hf, ?_⟩
    rw [hy, e, hx]
    cases x none d with
    | mk o d1 => cases o <;> rfl

theorem ite {c : Prop} [Decidable c] {x x' : M α} {y y' : MI α} (h1 : RI x y) (h2 : RI x' y') :
    RI (if c then x else x') (if c then y else y') := by
  split
  · exact h1
  · exact h2

end RI

/-! ### Consequences of `RI` -/

/-- on a device whose failures are hard ones the two sides are equal -/
theorem RI.hard {α} {x : M α} {y : MI α} (h : RI x y) (fa : Option Nat) (d : Dev) (hk : d.fkind ≠ .interrupted) :
    y fa d = x fa d := by
  rcases h.rel fa d with e | ⟨_, _, hi, _⟩
  · exact e
  · exact absurd hi hk

/-- … and without a fault -/
theorem RI.no_fault {α} {x : M α} {y : MI α} (h : RI x y) (d : Dev) : y none d = x none d := by
  rcases h.rel none d with e | ⟨_, hk, _⟩
  · exact e
  · cases hk

/-- **The trichotomy under an `Interrupted` fault**: not reached - the failure-free run; absorbed by a retry loop -
the failure-free outcome and device, one more call; or it fired in the hard-failure run too (a bare call). -/
theorem RI.interrupted {α} {x : M α} {y : MI α} (h : RI x y) (k : Nat) (d : Dev) :
    (¬ Fired k d (x none d).2 ∧ y (some k) d = x none d) ∨
    (Fired k d (x none d).2 ∧ d.fkind = .interrupted ∧ y (some k) d = ((x none d).1, (x none d).2.shift 1)) ∨
    (Fired k d (x none d).2 ∧ Fired k d (x (some k) d).2 ∧ y (some k) d = x (some k) d) := by
  rcases h.rel (some k) d with e | ⟨k', hk', hi, hf, e⟩
  · rcases h.uni.dich k d with ⟨e2, hw⟩ | ⟨f1, f2⟩
    · left
      exact ⟨by unfold Fired; omega, by rw [e, e2]⟩
    · right; right
      exact ⟨f2, f1, e⟩
  · cases hk'
    right; left
    exact ⟨hf, hi, e⟩

/-- **Any kind, `Interrupted` included**: when `x` reports every fired fault as an error, an `Ok` of `y` under a fault
carries the failure-free value, and the device is the failure-free one - with one more call counted when a retry loop
absorbed an `Interrupted`. -/
theorem RI.ok_is_faultfree {α} {x : M α} {y : MI α} (h : RI x y) (he : ErrOnFire x) {k : Nat} {d d' : Dev} {a : α}
    (hr : y (some k) d = (.ok a, d')) :
    ∃ d0, x none d = (.ok a, d0) ∧ (d' = d0 ∨ (d.fkind = .interrupted ∧ Fired k d d0 ∧ d' = d0.shift 1)) := by
  rcases h.rel (some k) d with e | ⟨k', hk', hi, hf, e⟩
  · rw [e] at hr
    exact ⟨d', ErrOnFire.ok_faultfree h.uni he hr, Or.inl rfl⟩
  · cases hk'
    rw [e] at hr
    cases h0 : x none d with
    | mk o d0 =>
      rw [h0] at hr hf
      cases hr
      exact ⟨d0, rfl, Or.inr ⟨hi, hf, rfl⟩⟩

/-- a panic of `y` is a panic of `x` on the same device -/
theorem RI.noPanicOn {α} {x : M α} {y : MI α} (h : RI x y) {P : Dev → Prop} (hx : NoPanicOn P x) : NoPanicOn P y := by
  intro fa d hP
  rcases h.rel fa d with e | ⟨k, _, _, _, e⟩
  · rw [e]; exact hx fa d hP
  · rw [e]; exact hx none d hP

theorem RI.noPanic {α} {x : M α} {y : MI α} (h : RI x y) (hx : NoPanic x) : NoPanic (y : M α) := by
  exact NoPanic.intro fun fa d => h.noPanicOn (P := fun _ => True) (NoPanic.on hx) fa d trivial

/-! ### Every metadata parser of the seekable reader -/

syntax "ri_step" : tactic
macro_rules
  | `(tactic| ri_step) => `(tactic| first
    | exact RI.pure _ | exact RI.throw _ | exact RI.panic _ | exact RI.seek _
    | exact RI.readExact _ | exact RI.takeAll _ | assumption
    | refine RI.bind ?_ ?_
    | refine RI.attempt ?_
    | refine RI.ite ?_ ?_
    | intro _
    | dsimp only
    | split)

namespace G

theorem ri_readU16 : RI (readU16 : M UInt16) (readU16 : MI UInt16) := by
  unfold readU16
  repeat' ri_step

theorem ri_readU32 : RI (readU32 : M UInt32) (readU32 : MI UInt32) := by
  unfold readU32
  repeat' ri_step

theorem ri_readU64 : RI (readU64 : M UInt64) (readU64 : MI UInt64) := by
  unfold readU64
  repeat' ri_step

syntax "ri_step2" : tactic
macro_rules
  | `(tactic| ri_step2) => `(tactic| first
    | exact ri_readU16 | exact ri_readU32 | exact ri_readU64 | ri_step)

theorem ri_streamPosition : RI (streamPosition : M Nat) (streamPosition : MI Nat) := RI.seek _

theorem ri_parseEocd : RI (parseEocd : M Eocd) (parseEocd : MI Eocd) := by
  unfold parseEocd
  repeat' ri_step2

theorem ri_parseLocator : RI (parseLocator : M Locator) (parseLocator : MI Locator) := by
  unfold parseLocator
  repeat' ri_step2

theorem ri_findEocdLoop (bound : Nat) : ∀ (fuel pos : Nat),
    RI (findEocdLoop bound fuel pos : M (Eocd × Nat)) (findEocdLoop bound fuel pos : MI (Eocd × Nat))
  | 0, _ => by unfold findEocdLoop; exact RI.throw _
  | fuel + 1, pos => by
    have ih := ri_findEocdLoop bound fuel
    unfold findEocdLoop
    repeat' (first | exact ih _ | exact ri_parseEocd | ri_step2)

theorem ri_findAndParseEocd :
    RI (findAndParseEocd : M (Eocd × Nat)) (findAndParseEocd : MI (Eocd × Nat)) := by
  unfold findAndParseEocd
  repeat' (first | exact ri_findEocdLoop _ _ _ | ri_step2)

theorem ri_findEocd64Loop (nominal upper : Nat) : ∀ (fuel pos : Nat),
    RI (findEocd64Loop nominal upper fuel pos : M (Eocd64 × Nat))
      (findEocd64Loop nominal upper fuel pos : MI (Eocd64 × Nat))
  | 0, _ => by unfold findEocd64Loop; exact RI.throw _
  | fuel + 1, pos => by
    have ih := ri_findEocd64Loop nominal upper fuel
    unfold findEocd64Loop
    repeat' (first | exact ih _ | ri_step2)

theorem ri_findEocd64 (nominal upper : Nat) :
    RI (findEocd64 nominal upper : M (Eocd64 × Nat)) (findEocd64 nominal upper : MI (Eocd64 × Nat)) :=
  ri_findEocd64Loop _ _ _ _

theorem ri_getDirectoryCounts (footer : Eocd) (cdeStart : Nat) :
    RI (getDirectoryCounts footer cdeStart : M (Nat × Nat × Nat))
      (getDirectoryCounts footer cdeStart : MI (Nat × Nat × Nat)) := by
  unfold getDirectoryCounts
  repeat' (first | exact ri_findEocd64 _ _ | exact ri_parseLocator | ri_step2)

theorem ri_centralHeaderInner (off start : Nat) :
    RI (centralHeaderInner off start : M FileData) (centralHeaderInner off start : MI FileData) := by
  unfold centralHeaderInner
  repeat' ri_step2

theorem ri_centralHeader (off : Nat) :
    RI (centralHeader off : M FileData) (centralHeader off : MI FileData) := by
  unfold centralHeader
  repeat' (first | exact ri_centralHeaderInner _ _ | exact ri_streamPosition | ri_step2)

theorem ri_readCentralLoop (off : Nat) : ∀ n : Nat,
    RI (readCentralLoop off n : M (List FileData)) (readCentralLoop off n : MI (List FileData))
  | 0 => by unfold readCentralLoop; exact RI.pure _
  | n + 1 => by
    have ih := ri_readCentralLoop off n
    unfold readCentralLoop
    repeat' (first | exact ih | exact ri_centralHeader _ | ri_step2)

theorem ri_openArchive : RI (openArchive : M Archive) (openArchive : MI Archive) := by
  unfold openArchive
  repeat' (first | exact ri_findAndParseEocd | exact ri_getDirectoryCounts _ _ | exact ri_readCentralLoop _ _ | ri_step2)

theorem ri_findContent (f : FileData) :
    RI (findContent f : M Nat) (findContent f : MI Nat) := by
  unfold findContent
  repeat' ri_step2

end G

/-- **`ZipArchive::new`: the hard-failure model and the model with std's `Interrupted` convention are related.** -/
theorem openArchiveI_ri : RI openArchive openArchiveI := by
  have h := G.ri_openArchive
  rw [G.openArchive_M] at h
  exact h

/-- **`find_content`**, likewise. -/
theorem findContentI_ri (f : FileData) : RI (findContent f) (findContentI f) := by
  have h := G.ri_findContent f
  rw [G.findContent_M] at h
  exact h

/-- **`by_index` + reading the entry to its end**, whichever way the consumer reads (`ta`: std's retrying loops or a
bare `read` loop). -/
theorem byIndexReadWith_ri (ta : Nat → MI Bytes) (hta : ∀ n, RI (takeAll n) (ta n)) (ext : Ext) (a : Archive) (i : Nat)
    (pw : Option Bytes) : RI (byIndexRead ext a i pw) (byIndexReadWith findContentI ta ext a i pw) := by
  unfold byIndexRead byIndexReadWith
  cases a.files[i]? with
  | none => exact RI.throw _
  | some data =>
    dsimp only
    refine RI.ite (RI.throw _) (RI.bind (findContentI_ri _) fun ds => ?_)
    generalize (if data.encrypted = true then pw else none) = p
    generalize data.aesMode = am
    generalize data.method = mm
    have key : ∀ m : Method, RI
        (match p, am with
          | some pw, some (mode, vv) => do
            let raw ← takeAll data.compressedSize.toNat
            match ext.aes pw mode data.compressedSize raw with
            | .err e => M.throw e
            | .panic s => M.panic s
            | .ok none => Pure.pure .invalidPassword
            | .ok (some stream) =>
              let res : Out Bytes := do
                let pt ← stream
                let dec ← ext.decode m pt
                crcCheck (vv == .ae2) data.crc32 dec
              Pure.pure (.ok (ds, res))
          | some pw, none => do
            let check : UInt8 := if data.usingDataDescriptor then (data.time.timepart >>> 8).toUInt8
                                 else (data.crc32 >>> 24).toUInt8
            let raw ← takeAll data.compressedSize.toNat
            match ext.zipCrypto pw check raw with
            | .err e => M.throw e
            | .panic s => M.panic s
            | .ok none => Pure.pure .invalidPassword
            | .ok (some pt) =>
              let res : Out Bytes := do
                let dec ← ext.decode m pt
                crcCheck false data.crc32 dec
              Pure.pure (.ok (ds, res))
          | none, some _ => Pure.pure .invalidPassword
          | none, none => do
            let raw ← takeAll data.compressedSize.toNat
            let res : Out Bytes := do
              let dec ← ext.decode m raw
              crcCheck false data.crc32 dec
            Pure.pure (.ok (ds, res)) : M (PwResult (Nat × Out Bytes)))
        (match p, am with
          | some pw, some (mode, vv) => do
            let raw ← ta data.compressedSize.toNat
            match ext.aes pw mode data.compressedSize raw with
            | .err e => M.throw e
            | .panic s => M.panic s
            | .ok none => Pure.pure .invalidPassword
            | .ok (some stream) =>
              let res : Out Bytes := do
                let pt ← stream
                let dec ← ext.decode m pt
                crcCheck (vv == .ae2) data.crc32 dec
              Pure.pure (.ok (ds, res))
          | some pw, none => do
            let check : UInt8 := if data.usingDataDescriptor then (data.time.timepart >>> 8).toUInt8
                                 else (data.crc32 >>> 24).toUInt8
            let raw ← ta data.compressedSize.toNat
            match ext.zipCrypto pw check raw with
            | .err e => M.throw e
            | .panic s => M.panic s
            | .ok none => Pure.pure .invalidPassword
            | .ok (some pt) =>
              let res : Out Bytes := do
                let dec ← ext.decode m pt
                crcCheck false data.crc32 dec
              Pure.pure (.ok (ds, res))
          | none, some _ => Pure.pure .invalidPassword
          | none, none => do
            let raw ← ta data.compressedSize.toNat
            let res : Out Bytes := do
              let dec ← ext.decode m raw
              crcCheck false data.crc32 dec
            Pure.pure (.ok (ds, res)) : MI (PwResult (Nat × Out Bytes))) := by
      intro m
      split
      · rename_i pw' mode vv
        refine RI.bind (hta _) fun raw => ?_
        generalize ext.aes pw' mode data.compressedSize raw = r
        repeat' ri_step
      · rename_i pw'
        refine RI.bind (hta _) fun raw => ?_
        dsimp only
        generalize ext.zipCrypto pw' _ raw = r
        repeat' ri_step
      · exact RI.pure _
      · exact RI.bind (hta _) fun raw => RI.pure _
    cases mm <;> first | exact RI.throw _ | exact key _

theorem byIndexReadI_ri (ext : Ext) (a : Archive) (i : Nat) (pw : Option Bytes) :
    RI (byIndexRead ext a i pw) (byIndexReadI ext a i pw) :=
  byIndexReadWith_ri _ (fun n => RI.retried (takeAll_tight n).uni (Shiftable.takeAll n)) ext a i pw

theorem byIndexReadB_ri (ext : Ext) (a : Archive) (i : Nat) (pw : Option Bytes) :
    RI (byIndexRead ext a i pw) (byIndexReadB ext a i pw) :=
  byIndexReadWith_ri _ (fun n => RI.same (takeAll_tight n).uni (Shiftable.takeAll n)) ext a i pw

/-! ### The read scenario: `ZipArchive::new`, then every entry by index with a bare-read consumer (the driver's `fault.read`) -/

/-- `readEntries` (`Lemmas/FaultReader`) over `byIndexReadB`. -/
def readEntriesB (ext : Ext) (a : Archive) (pw : Option Bytes) (fa : Option Nat) :
    List Nat → Dev → List (Out (PwResult (Nat × Out Bytes))) × Dev
  | [], d => ([], d)
  | i :: is, d =>
    ((byIndexReadB ext a i pw fa d).1 :: (readEntriesB ext a pw fa is (byIndexReadB ext a i pw fa d).2).1,
     (readEntriesB ext a pw fa is (byIndexReadB ext a i pw fa d).2).2)

/-- `openAndReadAll` with std's `Interrupted` convention and the bare-read consumer. -/
def openAndReadAllB (ext : Ext) (pw : Option Bytes) (fa : Option Nat) (d : Dev) :
    Out Archive × List (Out (PwResult (Nat × Out Bytes))) × Dev :=
  match openArchiveI fa d with
  | (.ok a, d') => (.ok a, readEntriesB ext a pw fa (List.range a.files.length) d')
  | (o, d') => (o, [], d')

theorem readEntriesB_past (ext : Ext) (a : Archive) (pw : Option Bytes) (k : Nat) : ∀ (is : List Nat) (d : Dev),
    k < d.calls → readEntriesB ext a pw (some k) is d = readEntries ext a pw none is d
  | [], _, _ => rfl
  | i :: is, d, hk => by
    have e : byIndexReadB ext a i pw (some k) d = byIndexRead ext a i pw none d := by
      rcases (byIndexReadB_ri ext a i pw).rel (some k) d with e | ⟨k', hk', _, hf, _⟩
      · rw [e, (byIndexRead_tight ext a i pw).uni.same_of_outside (Or.inl hk)]
      · cases hk'; unfold Fired at hf; omega
    have hm := (byIndexRead_tight ext a i pw).uni.mono none d
    rw [readEntriesB, readEntries, e, readEntriesB_past ext a pw k is _ (by omega)]

theorem readEntries_shift (ext : Ext) (a : Archive) (pw : Option Bytes) (c : Nat) : ∀ (is : List Nat) (d : Dev),
    readEntries ext a pw none is (d.shift c) =
      ((readEntries ext a pw none is d).1, (readEntries ext a pw none is d).2.shift c)
  | [], _ => rfl
  | i :: is, d => by
    have e := (byIndexReadB_ri ext a i pw).shift.eq d c
    rw [readEntries, readEntries, e]
    dsimp only
    rw [readEntries_shift ext a pw c is]

/-- every entry read returned a value under one fault of ANY kind ⇒ the failure-free results; the device is the
failure-free one, with one more call counted when a retry loop absorbed an `Interrupted` -/
theorem readEntriesB_all_ok (ext : Ext) (a : Archive) (pw : Option Bytes) (k : Nat) : ∀ (is : List Nat) (d : Dev),
    (∀ o ∈ (readEntriesB ext a pw (some k) is d).1, o.isOk = true) →
    (readEntriesB ext a pw (some k) is d).1 = (readEntries ext a pw none is d).1 ∧
    ((readEntriesB ext a pw (some k) is d).2 = (readEntries ext a pw none is d).2 ∨
      (d.fkind = .interrupted ∧ (readEntriesB ext a pw (some k) is d).2 = (readEntries ext a pw none is d).2.shift 1))
  | [], _, _ => ⟨rfl, Or.inl rfl⟩
  | i :: is, d, hok => by
    rw [readEntriesB] at hok ⊢
    rw [readEntries]
    rcases h : byIndexReadB ext a i pw (some k) d with ⟨(r | e | p), d'⟩ <;> rw [h] at hok <;> dsimp only at hok ⊢
    · obtain ⟨d0, h0, hd⟩ := (byIndexReadB_ri ext a i pw).ok_is_faultfree (byIndexRead_tight ext a i pw).errOnFire h
      have hkd := (byIndexRead_tight ext a i pw).uni.kind none d
      rw [h0] at hkd ⊢
      dsimp only at hkd ⊢
      rcases hd with rfl | ⟨hi, hf, rfl⟩
      · obtain ⟨i1, i2⟩ := readEntriesB_all_ok ext a pw k is d' (fun o ho => hok o (List.mem_cons_of_mem _ ho))
        refine ⟨by rw [i1], ?_⟩
        rcases i2 with i2 | ⟨hi, i2⟩
        · exact Or.inl i2
        · exact Or.inr ⟨by rw [← hkd]; exact hi, i2⟩
      · have hp := readEntriesB_past ext a pw k is (d0.shift 1)
          (by unfold Fired at hf; unfold Dev.shift; dsimp only; omega)
        rw [hp, readEntries_shift]
        exact ⟨rfl, Or.inr ⟨hi, rfl⟩⟩
    · exact absurd (hok _ (List.mem_cons_self ..)) (by simp [Out.isOk])
    · exact absurd (hok _ (List.mem_cons_self ..)) (by simp [Out.isOk])

/-- **The read scenario under one fault of ANY kind**: `new` returned an archive and every entry read returned a value ⇒
the archive value and every entry's result are those of the failure-free scenario, and so is the device - with one more
call counted when a retry loop absorbed an `Interrupted`. -/
theorem openAndReadAllB_all_ok (ext : Ext) (pw : Option Bytes) (k : Nat) (d : Dev)
    (h1 : (openAndReadAllB ext pw (some k) d).1.isOk = true)
    (h2 : ∀ o ∈ (openAndReadAllB ext pw (some k) d).2.1, o.isOk = true) :
    (openAndReadAllB ext pw (some k) d).1 = (openAndReadAll ext pw none d).1 ∧
    (openAndReadAllB ext pw (some k) d).2.1 = (openAndReadAll ext pw none d).2.1 ∧
    ((openAndReadAllB ext pw (some k) d).2.2 = (openAndReadAll ext pw none d).2.2 ∨
      (d.fkind = .interrupted ∧ (openAndReadAllB ext pw (some k) d).2.2 = (openAndReadAll ext pw none d).2.2.shift 1)) := by
  unfold openAndReadAllB at h1 h2 ⊢
  unfold openAndReadAll
  rcases h : openArchiveI (some k) d with ⟨(a | e | p), d'⟩ <;> rw [h] at h1 h2 <;> dsimp only at h1 h2 ⊢
  · obtain ⟨d0, h0, hd⟩ := openArchiveI_ri.ok_is_faultfree openArchive_errOnFire h
    have hkd := openArchive_uniform.kind none d
    rw [h0] at hkd ⊢
    dsimp only at hkd ⊢
    rcases hd with rfl | ⟨hi, hf, rfl⟩
    · obtain ⟨i1, i2⟩ := readEntriesB_all_ok ext a pw k (List.range a.files.length) d' h2
      refine ⟨rfl, i1, ?_⟩
      rcases i2 with i2 | ⟨hi, i2⟩
      · exact Or.inl i2
      · exact Or.inr ⟨by rw [← hkd]; exact hi, i2⟩
    · have hp := readEntriesB_past ext a pw k (List.range a.files.length) (d0.shift 1)
        (by unfold Fired at hf; unfold Dev.shift; dsimp only; omega)
      rw [hp, readEntries_shift]
      exact ⟨rfl, rfl, Or.inr ⟨hi, rfl⟩⟩
  · cases h1
  · cases h1

theorem readEntriesB_hard (ext : Ext) (a : Archive) (pw : Option Bytes) (fa : Option Nat) : ∀ (is : List Nat) (d : Dev),
    (d.fkind ≠ .interrupted ∨ fa = none) → readEntriesB ext a pw fa is d = readEntries ext a pw fa is d
  | [], _, _ => rfl
  | i :: is, d, hk => by
    have e : byIndexReadB ext a i pw fa d = byIndexRead ext a i pw fa d := by
      rcases hk with hk | rfl
      · exact (byIndexReadB_ri ext a i pw).hard fa d hk
      · exact (byIndexReadB_ri ext a i pw).no_fault d
    have hkd := (byIndexRead_tight ext a i pw).uni.kind fa d
    rw [readEntriesB, readEntries, e, readEntriesB_hard ext a pw fa is _ (by rw [hkd]; exact hk)]

/-- on a device whose failures are hard ones, and without a fault, the scenario IS `openAndReadAll` -/
theorem openAndReadAllB_hard (ext : Ext) (pw : Option Bytes) (fa : Option Nat) (d : Dev)
    (hk : d.fkind ≠ .interrupted ∨ fa = none) : openAndReadAllB ext pw fa d = openAndReadAll ext pw fa d := by
  have e : openArchiveI fa d = openArchive fa d := by
    rcases hk with hk | rfl
    · exact openArchiveI_ri.hard fa d hk
    · exact openArchiveI_ri.no_fault d
  have hkd := openArchive_uniform.kind fa d
  unfold openAndReadAllB openAndReadAll
  rw [e]
  rcases h : openArchive fa d with ⟨(a | e | p), d'⟩ <;> rw [h] at hkd <;> dsimp only at hkd ⊢
  rw [readEntriesB_hard ext a pw fa _ d' (by rw [hkd]; exact hk)]

theorem M.bind_err {α β} {x : M α} {f : α → M β} {fa : Option Nat} {d d' : Dev} {e : ZErr}
    (h : x fa d = (.err e, d')) : (x >>= f) fa d = (.err e, d') := by
  rw [M.bind_apply, h]

theorem seek_fault (s : SeekFrom) (d : Dev) : M.seek s (some d.calls) d = (.err (.io d.fkind), d.shift 1) := by
  unfold M.seek M.prim
  dsimp only
  rw [if_pos rfl]
  rfl

/-- **The first I/O call of `ZipArchive::new` is a bare `seek(End(0))`**: its failure - of whatever kind, `Interrupted`
included - is reported, with std's convention as without. -/
theorem openArchiveI_first_seek (d : Dev) :
    openArchiveI (some d.calls) d = (.err (.io d.fkind), d.shift 1) :=
  M.bind_err (M.bind_err (seek_fault _ d))

/-- … and so is the first I/O call of `find_content` (`seek(Start(header_start))`). -/
theorem findContentI_first_seek (f : FileData) (d : Dev) :
    findContentI f (some d.calls) d = (.err (.io d.fkind), d.shift 1) :=
  M.bind_err (seek_fault _ d)

end ZipVerif.Model
