import ZipVerif.Lemmas.FaultInterrupted
import ZipVerif.Lemmas.ShortWrite
import ZipVerif.Lemmas.FaultWriter
import ZipVerif.Lemmas.FaultRun
import ZipVerif.Model.InterruptedW
/-
C11, `ErrorKind::Interrupted` on the WRITER: the generic writer `GW` at `MI` (`Model/InterruptedW.lean`) against the writer
model (= `GW` at `M`, `GW.step_M`), by the relation `RI` of `Lemmas/FaultInterrupted` - one lemma per writer function, as
the short-write simulation of `Lemmas/ShortWrite` needed.
-/

namespace ZipVerif.Model
open ZipVerif ZipVerif.Props.C12

namespace RI
variable {α β : Type}

theorem wpanic (s : String) : RI (WriterIO.wPanic s : M α) (WriterIO.wPanic s : MI α) :=
  same (Uniform.panic s) (Shiftable.panic s)
theorem wattempt {x : M α} {y : MI α} (h : RI x y) :
    RI (WriterIO.wAttempt x : M (Except ZErr α)) (WriterIO.wAttempt y : MI (Except ZErr α)) := RI.attempt h
theorem wseek (s : SeekFrom) : RI (WriterIO.wSeek s : M Nat) (WriterIO.wSeek s : MI Nat) := RI.seek s
theorem wflush : RI (WriterIO.wFlush : M Unit) (WriterIO.wFlush : MI Unit) :=
  same Tight.flush.uni Shiftable.flush
theorem wwriteAll (bs : Bytes) : RI (WriterIO.wWriteAll bs : M Unit) (WriterIO.wWriteAll bs : MI Unit) :=
  retried (Tight.writeAll bs).uni (Shiftable.writeAll bs)
theorem wwrite (bs : Bytes) : RI (WriterIO.wWrite bs : M Nat) (WriterIO.wWrite bs : MI Nat) :=
  retried (Tight.write bs).uni (Shiftable.write bs)

end RI

syntax "wri_step" : tactic
macro_rules
  | `(tactic| wri_step) => `(tactic| first
    | exact RI.pure _ | exact RI.wpanic _ | exact RI.wseek _ | exact RI.wflush
    | exact RI.wwriteAll _ | exact RI.wwrite _ | assumption
    | refine RI.bind ?_ ?_
    | refine RI.wattempt ?_
    | refine RI.ite ?_ ?_
    | intro _
    | dsimp only
    | split)

namespace GW

theorem ri_streamPosition : RI (streamPosition : M Nat) (streamPosition : MI Nat) := RI.wseek _

theorem ri_writeChunks : ∀ cs : List Bytes, RI (writeChunks cs : M Unit) (writeChunks cs : MI Unit)
  | [] => by unfold writeChunks; exact RI.pure _
  | c :: cs => by
    have ih := ri_writeChunks cs
    unfold writeChunks
    repeat' wri_step

theorem ri_io {α β} (s : WState) {x : M α} {y : MI α} {k : α → M (Except ZErr β × WState)}
    {k' : α → MI (Except ZErr β × WState)} (h : RI x y) (hk : ∀ a, RI (k a) (k' a)) :
    RI (GW.io s x k) (GW.io s y k') := by
  unfold GW.io
  repeat' (first | exact hk _ | wri_step)

theorem ri_switchTo (ext : WExt) (c : Method) (l : Option Int) (s : WState) :
    RI (GW.switchTo ext c l s : M _) (GW.switchTo ext c l s : MI _) := by
  unfold GW.switchTo GW.emitFinish
  repeat' wri_step


theorem ri_endExtraData (ext : WExt) (s : WState) :
    RI (GW.endExtraData ext s : M _) (GW.endExtraData ext s : MI _) := by
  unfold GW.endExtraData GW.io
  repeat' (first | exact ri_switchTo _ _ _ _ | wri_step)

theorem ri_updateLocalHeader {β} (s : WState) (f : FileData) {k : Unit → M (Except ZErr β × WState)}
    {k' : Unit → MI (Except ZErr β × WState)} (hk : ∀ a, RI (k a) (k' a)) :
    RI (GW.updateLocalHeader s f k) (GW.updateLocalHeader s f k') := by
  unfold GW.updateLocalHeader GW.io
  repeat' (first | exact hk _ | wri_step)

theorem ri_afterEnc (s : WState) : RI (GW.afterEnc s : M _) (GW.afterEnc s : MI _) := by
  unfold GW.afterEnc
  repeat' (first | exact ri_streamPosition | refine ri_updateLocalHeader _ _ ?_ | refine ri_io _ ?_ ?_ | wri_step)

theorem ri_finishFile (ext : WExt) (s : WState) :
    RI (GW.finishFile ext s : M _) (GW.finishFile ext s : MI _) := by
  unfold GW.finishFile
  repeat' (first | exact ri_switchTo _ _ _ _ | exact ri_endExtraData _ _ | exact ri_afterEnc _ | refine ri_io _ ?_ ?_ | wri_step)

theorem ri_startEntry (ext : WExt) (name : Bytes) (o : FileOptions) (raw) (s : WState) :
    RI (GW.startEntry ext name o raw s : M _) (GW.startEntry ext name o raw s : MI _) := by
  unfold GW.startEntry
  repeat' (first | exact ri_finishFile _ _ | exact ri_streamPosition | exact ri_writeChunks _ | refine ri_io _ ?_ ?_ | wri_step)

theorem ri_startFile (ext : WExt) (name : Bytes) (o : FileOptions) (s : WState) :
    RI (GW.startFile ext name o s : M _) (GW.startFile ext name o s : MI _) := by
  unfold GW.startFile
  repeat' (first | exact ri_startEntry _ _ _ _ _ | exact ri_switchTo _ _ _ _ | wri_step)

theorem ri_startFileWithExtraData (ext : WExt) (name : Bytes) (o : FileOptions) (s : WState) :
    RI (GW.startFileWithExtraData ext name o s : M _) (GW.startFileWithExtraData ext name o s : MI _) := by
  unfold GW.startFileWithExtraData
  repeat' (first | exact ri_startEntry _ _ _ _ _ | wri_step)

theorem ri_endLocalStartCentral (ext : WExt) (s : WState) :
    RI (GW.endLocalStartCentral ext s : M _) (GW.endLocalStartCentral ext s : MI _) := by
  unfold GW.endLocalStartCentral
  repeat' (first | exact ri_endExtraData _ _ | wri_step)

theorem ri_addDirectory (ext : WExt) (name : Bytes) (o : FileOptions) (s : WState) :
    RI (GW.addDirectory ext name o s : M _) (GW.addDirectory ext name o s : MI _) := by
  unfold GW.addDirectory
  repeat' (first | exact ri_startEntry _ _ _ _ _ | wri_step)

theorem ri_writeAllCentral (s : WState) : ∀ fs : List FileData,
    RI (GW.writeAllCentral s fs : M _) (GW.writeAllCentral s fs : MI _)
  | [] => by unfold GW.writeAllCentral; exact RI.pure _
  | f :: rest => by
    have ih := ri_writeAllCentral s rest
    unfold GW.writeAllCentral
    repeat' (first | exact ih | exact ri_writeChunks _ | refine ri_io _ ?_ ?_ | wri_step)

theorem ri_finalize (ext : WExt) (s : WState) :
    RI (GW.finalize ext s : M _) (GW.finalize ext s : MI _) := by
  unfold GW.finalize
  repeat' (first | exact ri_finishFile _ _ | exact ri_streamPosition | exact ri_writeChunks _ | exact ri_writeAllCentral _ _ | refine ri_io _ ?_ ?_ | wri_step)

theorem ri_finish (ext : WExt) (s : WState) :
    RI (GW.finish ext s : M _) (GW.finish ext s : MI _) := by
  unfold GW.finish
  repeat' (first | exact ri_finalize _ _ | wri_step)

theorem ri_dropInner (ext : WExt) (s : WState) :
    RI (GW.dropInner ext s : M _) (GW.dropInner ext s : MI _) := by
  unfold GW.dropInner
  repeat' wri_step

theorem ri_dropWriter (ext : WExt) (s : WState) :
    RI (GW.dropWriter ext s : M _) (GW.dropWriter ext s : MI _) := by
  unfold GW.dropWriter
  repeat' (first | exact ri_finalize _ _ | exact ri_dropInner _ _ | wri_step)


/-! ### The data path -/

theorem ri_account (taken : Bytes) (s : WState) : RI (GW.account taken s : M _) (GW.account taken s : MI _) := by
  unfold GW.account
  repeat' wri_step

theorem ri_write (acc : Bytes → Nat) (buf : Bytes) (s : WState) :
    RI (GW.write acc buf s : M _) (GW.write acc buf s : MI _) := by
  unfold GW.write
  repeat' (first | exact ri_account _ _ | wri_step)

theorem ri_writeAllLoop (acc : Bytes → Nat) : ∀ (fuel : Nat) (buf : Bytes) (s : WState),
    RI (GW.writeAllLoop acc fuel buf s : M _) (GW.writeAllLoop acc fuel buf s : MI _)
  | 0, _, _ => by unfold GW.writeAllLoop; exact RI.wpanic _
  | fuel + 1, buf, s => by
    have ih := ri_writeAllLoop acc fuel
    unfold GW.writeAllLoop
    repeat' (first | exact ih _ _ | exact ri_write _ _ _ | wri_step)

theorem ri_writeData (acc : Bytes → Nat) (buf : Bytes) (s : WState) :
    RI (GW.writeData acc buf s : M _) (GW.writeData acc buf s : MI _) := ri_writeAllLoop _ _ _ _

theorem ri_startFileAligned (acc : Bytes → Nat) (ext : WExt) (name : Bytes) (o : FileOptions) (a : UInt16) (s : WState) :
    RI (GW.startFileAligned acc ext name o a s : M _) (GW.startFileAligned acc ext name o a s : MI _) := by
  unfold GW.startFileAligned
  repeat' (first | exact ri_startFileWithExtraData _ _ _ _ | exact ri_writeData _ _ _ | exact ri_endLocalStartCentral _ _ | exact ri_endExtraData _ _ | wri_step)

theorem ri_addSymlink (acc : Bytes → Nat) (ext : WExt) (name target : Bytes) (o : FileOptions) (s : WState) :
    RI (GW.addSymlink acc ext name target o s : M _) (GW.addSymlink acc ext name target o s : MI _) := by
  unfold GW.addSymlink
  repeat' (first | exact ri_startEntry _ _ _ _ _ | exact ri_writeData _ _ _ | wri_step)

theorem ri_rawCopy (acc : Bytes → Nat) (ext : WExt) (src : FileData) (raw name : Bytes) (s : WState) :
    RI (GW.rawCopy acc ext src raw name s : M _) (GW.rawCopy acc ext src raw name s : MI _) := by
  unfold GW.rawCopy
  repeat' (first | exact ri_startEntry _ _ _ _ _ | exact ri_writeData _ _ _ | wri_step)

theorem ri_mapStepG {α β} (f : α → β) {x : StepG M α} {y : StepG MI α} (s : WState) (h : RI (x s) (y s)) :
    RI (mapStepG f x s) (mapStepG f y s) := by
  unfold mapStepG
  repeat' wri_step

theorem ri_step (acc : Bytes → Nat) (ext : WExt) (c : Call) (s : WState) :
    RI (GW.step acc ext c s : M _) (GW.step acc ext c s : MI _) := by
  cases c with
  | startFile n o => exact ri_mapStepG _ _ (ri_startFile _ _ _ _)
  | startFileWithExtraData n o => exact ri_mapStepG _ _ (ri_startFileWithExtraData _ _ _ _)
  | startFileAligned n o a => exact ri_mapStepG _ _ (ri_startFileAligned _ _ _ _ _ _)
  | write b => exact ri_mapStepG _ _ (ri_writeData _ _ _)
  | endLocalStartCentral => exact ri_mapStepG _ _ (ri_endLocalStartCentral _ _)
  | endExtraData => exact ri_mapStepG _ _ (ri_endExtraData _ _)
  | addDirectory n o => exact ri_mapStepG _ _ (ri_addDirectory _ _ _ _)
  | addSymlink n t o => exact ri_mapStepG _ _ (ri_addSymlink _ _ _ _ _ _)
  | setComment c => exact RI.pure _
  | rawCopy src raw n => exact ri_mapStepG _ _ (ri_rawCopy _ _ _ _ _ _)
  | finish => exact ri_mapStepG _ _ (ri_finish _ _)
  | drop => exact ri_mapStepG _ _ (ri_dropWriter _ _)

end GW

private theorem pure_apply' {α} (a : α) (fa : Option Nat) (d : Dev) : (pure a : M α) fa d = (.ok a, d) := rfl
private theorem wpanic_apply {α} (st : String) (fa : Option Nat) (d : Dev) : (WriterIO.wPanic st : M α) fa d = (.panic st, d) := rfl
private theorem ite_apply' {α} (c : Prop) [Decidable c] (x y : M α) (fa : Option Nat) (d : Dev) :
    (if c then x else y) fa d = if c then x fa d else y fa d := by split <;> rfl
private theorem wbind_apply {α β} (x : M α) (f : α → M β) (fa : Option Nat) (d : Dev) :
    (x >>= f) fa d = match x fa d with
      | (.ok a, d') => f a fa d'
      | (.err e, d') => (.err e, d')
      | (.panic s, d') => (.panic s, d') := rfl

/-- **`impl Write for ZipWriter :: write` returns a failure of its sink call having changed NOTHING**: whenever it answers
`Err(e)` with `e` anything but the 4 GiB refusal (`ErrorKind::Other`, which closes the writer), the writer state it hands
back is the one it was called with - under every fault index, on every device.  So a caller's retry loop (`write_all`,
`io::copy`) that sees `Interrupted` and calls it again re-issues exactly the one sink call: the reason why `wWrite` is a
retried call in the `MI` instance of `WriterIO` (`Model/InterruptedW.lean`). -/
theorem GW.write_error_leaves_state (acc : Bytes → Nat) (buf : Bytes) (s s' : WState) (fa : Option Nat) (d d' : Dev)
    (e : ZErr) (h : (GW.write acc buf s : M _) fa d = (.ok (.error e, s'), d')) (he : e ≠ .io .other) : s' = s := by
  rcases s with ⟨inner, files, ss, sb, sh, wf, wx, co, wr, cm⟩
  unfold GW.write GW.account at h
  cases wf <;> cases wx <;> rcases inner with _ | (_ | enc) | _ <;> cases hfl : files.getLast? <;>
    simp only [Bool.not_false, Bool.not_true, Bool.false_eq_true, ↓reduceIte, hfl, pure_apply', wpanic_apply, ite_apply',
      Prod.mk.injEq, Out.ok.injEq, Except.error.injEq, reduceCtorEq, false_and] at h
  all_goals try (obtain ⟨⟨h1, h2⟩, _⟩ := h; first | exact h2.symm | exact absurd h1.symm he)
  all_goals try (split at h <;> simp only [Prod.mk.injEq, Out.ok.injEq, Except.error.injEq, reduceCtorEq, false_and] at h)
  all_goals try (obtain ⟨⟨h1, h2⟩, _⟩ := h; first | exact h2.symm | exact absurd h1.symm he)
  all_goals
    erw [wbind_apply] at h
    have ha : (WriterIO.wAttempt (WriterIO.wWrite buf) : M _) fa d = M.attempt (M.write buf) fa d := rfl
    rw [ha, M.attempt_apply] at h
    rcases hw : M.write buf fa d with ⟨(n | e0 | p), d1⟩ <;> rw [hw] at h <;>
      simp only [pure_apply', wpanic_apply, ite_apply', Prod.mk.injEq, Out.ok.injEq, Except.error.injEq, reduceCtorEq,
        false_and] at h
  all_goals try (obtain ⟨⟨h1, h2⟩, _⟩ := h; first | exact h2.symm | exact absurd h1.symm he)
  all_goals try (split at h <;> simp only [Prod.mk.injEq, Out.ok.injEq, Except.error.injEq, reduceCtorEq, false_and] at h)
  all_goals try (obtain ⟨⟨h1, h2⟩, _⟩ := h; first | exact h2.symm | exact absurd h1.symm he)

/-- One call of the writer alphabet with std's `Interrupted` convention: the generic writer at `MI`. -/
def stepI (ext : WExt) (c : Call) (s : WState) : M (Except ZErr (Option Nat) × WState) :=
  (GW.step (fun x => x.length) ext c s : MI _)

/-- **Every writer call: the writer model and the writer with std's `Interrupted` convention are related.** -/
theorem stepI_ri (ext : WExt) (c : Call) (s : WState) : RI (Props.C12.step ext c s) (stepI ext c s) := by
  have h := GW.ri_step (fun x => x.length) ext c s
  rw [GW.step_M] at h
  exact h

/-- a writer step that returns `Ok` under a fault of ANY kind: the failure-free step, with one more call counted when a
retry loop absorbed an `Interrupted` -/
theorem RI.step_ok_is_faultfree {β} {x : M (Except ZErr β × WState)} {y : MI (Except ZErr β × WState)} (h : RI x y)
    (hs : EP x) {k : Nat} {d d' : Dev} {v : β} {s' : WState} (hr : y (some k) d = (.ok (.ok v, s'), d')) :
    ∃ d0, x none d = (.ok (.ok v, s'), d0) ∧
      (d' = d0 ∨ (d.fkind = .interrupted ∧ Fired k d d0 ∧ d' = d0.shift 1)) := by
  rcases h.rel (some k) d with e | ⟨k', hk', hi, hf, e⟩
  · rw [e] at hr
    have hn : ¬ Fired k d (x (some k) d).2 := by rw [hr]; exact hs k d v s' d' hr
    exact ⟨d', by rw [← h.uni.same_of_not_fired hn, hr], Or.inl rfl⟩
  · cases hk'
    rw [e] at hr
    cases h0 : x none d with
    | mk o d0 =>
      rw [h0] at hr hf
      cases hr
      exact ⟨d0, rfl, Or.inr ⟨hi, hf, rfl⟩⟩

/-! ### `new_append` -/

theorem newAppendI_loop_ri (off : Nat) : ∀ n : Nat, RI (newAppend.loop off n) (newAppendI.loop off n)
  | 0 => by unfold newAppend.loop newAppendI.loop; exact RI.pure _
  | n + 1 => by
    have ih := newAppendI_loop_ri off n
    have hc := G.ri_centralHeader off
    rw [G.centralHeader_M] at hc
    unfold newAppend.loop newAppendI.loop
    repeat' (first | exact ih | exact hc | ri_step)

/-- **`ZipWriter::new_append`: the model and the model with std's `Interrupted` convention are related.** -/
theorem newAppendI_ri : RI newAppend newAppendI := by
  have h1 := G.ri_findAndParseEocd
  rw [G.findAndParseEocd_M] at h1
  have h2 := fun footer cde => G.ri_getDirectoryCounts footer cde
  simp only [G.getDirectoryCounts_M] at h2
  unfold newAppend newAppendI
  repeat' (first | exact h1 | exact h2 _ _ | exact newAppendI_loop_ri _ _ | ri_step)

/-! ### Call sequences -/

/-- `Props.C12.runCalls` over the writer with std's `Interrupted` convention. -/
def runCallsI (ext : WExt) : List Call → WState → Option Nat → Dev → List (Out (Option Nat)) × WState × Dev
  | [], s, _, d => ([], s, d)
  | c :: cs, s, fa, d =>
    match stepI ext c s fa d with
    | (.ok (.ok v, s'), d') =>
      let r := runCallsI ext cs s' fa d'
      (.ok v :: r.1, r.2)
    | (.ok (.error e, s'), d') =>
      let r := runCallsI ext cs s' fa d'
      (.err e :: r.1, r.2)
    | (.err e, d') =>
      let r := runCallsI ext cs s fa d'
      (.err e :: r.1, r.2)
    | (.panic site, d') => ([.panic site], s, d')

/-- on a device whose failures are hard ones, and without a fault, it IS `runCalls` -/
theorem runCallsI_hard (ext : WExt) (fa : Option Nat) : ∀ (cs : List Call) (s : WState) (d : Dev),
    (d.fkind ≠ .interrupted ∨ fa = none) → runCallsI ext cs s fa d = runCalls ext cs s fa d
  | [], _, _, _ => rfl
  | c :: cs, s, d, hk => by
    have e : stepI ext c s fa d = step ext c s fa d := by
      rcases hk with hk | rfl
      · exact (stepI_ri ext c s).hard fa d hk
      · exact (stepI_ri ext c s).no_fault d
    have hkd := (step_uniform ext c s).kind fa d
    rw [runCallsI, runCalls, e]
    rcases h : step ext c s fa d with ⟨(⟨(e | v), s'⟩ | e | p), d'⟩ <;> rw [h] at hkd <;> dsimp only at hkd ⊢
    · rw [runCallsI_hard ext fa cs s' d' (by rw [hkd]; exact hk)]
    · rw [runCallsI_hard ext fa cs s' d' (by rw [hkd]; exact hk)]
    · rw [runCallsI_hard ext fa cs s d' (by rw [hkd]; exact hk)]

/-- a fault index that lies before the run changes nothing -/
theorem runCallsI_past (ext : WExt) (k : Nat) : ∀ (cs : List Call) (s : WState) (d : Dev),
    k < d.calls → runCallsI ext cs s (some k) d = runCalls ext cs s none d
  | [], _, _, _ => rfl
  | c :: cs, s, d, hk => by
    have e : stepI ext c s (some k) d = step ext c s none d := by
      rcases (stepI_ri ext c s).rel (some k) d with e | ⟨k', hk', _, hf, _⟩
      · rw [e, (step_uniform ext c s).same_of_outside (Or.inl hk)]
      · cases hk'; unfold Fired at hf; omega
    have hm := (step_uniform ext c s).mono none d
    rw [runCallsI, runCalls, e]
    rcases h : step ext c s none d with ⟨(⟨(e | v), s'⟩ | e | p), d'⟩ <;> rw [h] at hm <;> dsimp only at hm ⊢
    · rw [runCallsI_past ext k cs s' d' (by omega)]
    · rw [runCallsI_past ext k cs s' d' (by omega)]
    · rw [runCallsI_past ext k cs s d' (by omega)]

/-- the failure-free run does not look at the call counter -/
theorem runCalls_shift (ext : WExt) (c0 : Nat) : ∀ (cs : List Call) (s : WState) (d : Dev),
    runCalls ext cs s none (d.shift c0) =
      ((runCalls ext cs s none d).1, (runCalls ext cs s none d).2.1, (runCalls ext cs s none d).2.2.shift c0)
  | [], _, _ => rfl
  | c :: cs, s, d => by
    have e := (stepI_ri ext c s).shift.eq d c0
    rw [runCalls, runCalls, e]
    rcases h : step ext c s none d with ⟨(⟨(e | v), s'⟩ | e | p), d'⟩ <;> dsimp only
    · rw [runCalls_shift ext c0 cs s' d']
    · rw [runCalls_shift ext c0 cs s' d']
    · rw [runCalls_shift ext c0 cs s d']

/-- **Every call `Ok` under one fault of ANY kind ⇒ the failure-free run**: the same return values, the same final
writer state, the same sink - bytes and position; the call counter is the failure-free one, or one more when a retry
loop absorbed an `Interrupted`. -/
theorem runCallsI_all_ok (ext : WExt) (k : Nat) : ∀ (cs : List Call) (s : WState) (d : Dev),
    (∀ c ∈ cs, isDrop c = false) → (∀ o ∈ (runCallsI ext cs s (some k) d).1, o.isOk = true) →
    (runCallsI ext cs s (some k) d).1 = (runCalls ext cs s none d).1 ∧
    (runCallsI ext cs s (some k) d).2.1 = (runCalls ext cs s none d).2.1 ∧
    ((runCallsI ext cs s (some k) d).2.2 = (runCalls ext cs s none d).2.2 ∨
      (d.fkind = .interrupted ∧ (runCallsI ext cs s (some k) d).2.2 = (runCalls ext cs s none d).2.2.shift 1))
  | [], _, _, _, _ => ⟨rfl, rfl, Or.inl rfl⟩
  | c :: cs, s, d, hnd, hok => by
    have hc : isDrop c = false := hnd c (List.mem_cons_self ..)
    have hnd' : ∀ c ∈ cs, isDrop c = false := fun c' h' => hnd c' (List.mem_cons_of_mem _ h')
    rw [runCallsI] at hok ⊢
    rw [runCalls]
    rcases h : stepI ext c s (some k) d with ⟨(⟨(e | v), s'⟩ | e | p), d'⟩ <;> rw [h] at hok <;> dsimp only at hok ⊢
    · exact absurd (hok _ (List.mem_cons_self ..)) (by simp [Out.isOk])
    · obtain ⟨d0, h0, hd⟩ := (stepI_ri ext c s).step_ok_is_faultfree (step_stepOK ext c hc s).ep h
      have hkd := (step_uniform ext c s).kind none d
      rw [h0] at hkd ⊢
      dsimp only at hkd ⊢
      rcases hd with rfl | ⟨hi, hf, rfl⟩
      · obtain ⟨i1, i2, i3⟩ := runCallsI_all_ok ext k cs s' d' hnd'
          (fun o ho => hok o (List.mem_cons_of_mem _ ho))
        refine ⟨by rw [i1], i2, ?_⟩
        rcases i3 with i3 | ⟨hi, i3⟩
        · exact Or.inl i3
        · exact Or.inr ⟨by rw [← hkd]; exact hi, i3⟩
      · have hp := runCallsI_past ext k cs s' (d0.shift 1) (by unfold Fired at hf; unfold Dev.shift; dsimp only; omega)
        rw [hp, runCalls_shift]
        exact ⟨rfl, rfl, Or.inr ⟨hi, rfl⟩⟩
    · exact absurd (hok _ (List.mem_cons_self ..)) (by simp [Out.isOk])
    · exact absurd (hok _ (List.mem_cons_self ..)) (by simp [Out.isOk])

end ZipVerif.Model
