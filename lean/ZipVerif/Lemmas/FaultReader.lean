import ZipVerif.Lemmas.FaultCore
import ZipVerif.Model.Reader
import ZipVerif.Lemmas.ReaderTotal
/-
Fault transparency for the seekable reader (`Model/Records.lean`, `Model/Reader.lean`) and for
`new_append` (`Model/Writer.lean`).

Every parser that contains no `attempt` is `Tight`: transparent to a fault that is not reached, and
returning exactly the injected error when it is.  So is `getDirectoryCounts` (since the D18 repair its
probe seek is `?`-propagated and the one `attempt` only swallows `InvalidArchive`, never an I/O error of any kind).
`openArchive` turns a failed seek into `InvalidArchive`: it is `Uniform` and `ErrOnFire`.  `newAppend`
does the same with its first seek and (since the D22 repair) `?`-propagates its last one, which used to be
ignored: it is `Uniform` and `ErrOnFire` too (`newAppend_errOnFire`).  The streaming reader is `Tight` as well.
-/

namespace ZipVerif.Model
open ZipVerif

theorem parseEocd_tight : Tight parseEocd := by unfold parseEocd; fault
macro_rules | `(tactic| fault_step) => `(tactic| with_reducible exact parseEocd_tight)

theorem parseLocator_tight : Tight parseLocator := by unfold parseLocator; fault
macro_rules | `(tactic| fault_step) => `(tactic| with_reducible exact parseLocator_tight)

theorem findEocdLoop_tight (bound fuel pos : Nat) : Tight (findEocdLoop bound fuel pos) := by
  induction fuel generalizing pos with
  | zero => unfold findEocdLoop; fault
  | succ n ih =>
    have := ih (pos - 1)
    unfold findEocdLoop; fault
macro_rules | `(tactic| fault_step) => `(tactic| with_reducible exact findEocdLoop_tight _ _ _)

theorem findAndParseEocd_tight : Tight findAndParseEocd := by unfold findAndParseEocd; fault
macro_rules | `(tactic| fault_step) => `(tactic| with_reducible exact findAndParseEocd_tight)

theorem findEocd64Loop_tight (nominal upper fuel pos : Nat) :
    Tight (findEocd64Loop nominal upper fuel pos) := by
  induction fuel generalizing pos with
  | zero => unfold findEocd64Loop; fault
  | succ n ih =>
    have := ih (pos + 1)
    unfold findEocd64Loop; fault
macro_rules | `(tactic| fault_step) => `(tactic| with_reducible exact findEocd64Loop_tight _ _ _ _)

theorem findEocd64_tight (nominal upper : Nat) : Tight (findEocd64 nominal upper) := by
  unfold findEocd64; fault
macro_rules | `(tactic| fault_step) => `(tactic| with_reducible exact findEocd64_tight _ _)

theorem centralHeaderInner_tight (off start : Nat) : Tight (centralHeaderInner off start) := by
  unfold centralHeaderInner; fault
macro_rules | `(tactic| fault_step) => `(tactic| with_reducible exact centralHeaderInner_tight _ _)

theorem centralHeader_tight (off : Nat) : Tight (centralHeader off) := by
  unfold centralHeader; fault
macro_rules | `(tactic| fault_step) => `(tactic| with_reducible exact centralHeader_tight _)

theorem readCentralLoop_tight (off n : Nat) : Tight (readCentralLoop off n) := by
  induction n with
  | zero => unfold readCentralLoop; fault
  | succ n ih => unfold readCentralLoop; fault
macro_rules | `(tactic| fault_step) => `(tactic| with_reducible exact readCentralLoop_tight _ _)

theorem findContent_tight (f : FileData) : Tight (findContent f) := by unfold findContent; fault
macro_rules | `(tactic| fault_step) => `(tactic| with_reducible exact findContent_tight _)

theorem takeAll_tight (limit : Nat) : Tight (takeAll limit) := by unfold takeAll; fault
macro_rules | `(tactic| fault_step) => `(tactic| with_reducible exact takeAll_tight _)

/-- `by_index` + read to end: no `attempt` anywhere — a fired fault is the call's error. -/
theorem byIndexRead_tight (ext : Ext) (a : Archive) (i : Nat) (pw : Option Bytes) :
    Tight (byIndexRead ext a i pw) := by
  unfold byIndexRead; fault

theorem byNameRead_tight (ext : Ext) (a : Archive) (name : Bytes) (pw : Option Bytes) :
    Tight (byNameRead ext a name pw) := by
  unfold byNameRead
  split
  · exact Tight.throw _
  · exact byIndexRead_tight _ _ _ _

theorem byIndexRaw_tight (a : Archive) (i : Nat) : Tight (byIndexRaw a i) := by
  unfold byIndexRaw; fault

/-! ### Generic consequences -/

theorem M.bind_assoc {α β γ} (m : M α) (f : α → M β) (g : β → M γ) :
    ((m >>= f) >>= g) = (m >>= fun a => f a >>= g) := by
  funext fa d
  simp only [M.bind_apply]
  cases m fa d with
  | mk o d' => cases o <;> rfl

theorem M.bind_congr {α β} {x : M α} {f g : α → M β} (h : ∀ a, f a = g a) : (x >>= f) = (x >>= g) := by
  rw [funext h]

theorem M.throw_bind {α β} (e : ZErr) (g : α → M β) : ((M.throw e : M α) >>= g) = M.throw e := rfl

theorem M.pure_bind {α β} (a : α) (g : α → M β) : ((pure a : M α) >>= g) = g a := by
  funext fa d; rfl

theorem M.ite_bind {α β} (c : Prop) [Decidable c] (a b : M α) (g : α → M β) :
    ((if c then a else b) >>= g) = if c then a >>= g else b >>= g := by
  split <;> rfl

theorem M.liftOut_apply {α} (o : Out α) (fa : Option Nat) (d : Dev) : M.liftOut o fa d = (o, d) := rfl

/-- A `Tight` action that succeeds under a fault succeeded without it, identically. -/
theorem Tight.ok_faultfree {α} {x : M α} (h : Tight x) {k : Nat} {d d' : Dev} {a : α}
    (hr : x (some k) d = (.ok a, d')) : x none d = (.ok a, d') := by
  have hn : ¬ Fired k d (x (some k) d).2 := by
    intro hf
    have := h.clean k d hf
    rw [hr] at this
    cases this
  rw [← h.uni.same_of_not_fired hn, hr]

/-- The same for an action that only guarantees *some* error when the fault fires. -/
theorem ErrOnFire.ok_faultfree {α} {x : M α} (hu : Uniform x) (h : ErrOnFire x) {k : Nat} {d d' : Dev}
    {a : α} (hr : x (some k) d = (.ok a, d')) : x none d = (.ok a, d') := by
  have hn : ¬ Fired k d (x (some k) d).2 := by
    intro hf
    obtain ⟨e, he⟩ := h k d hf
    rw [hr] at he
    cases he
  rw [← hu.same_of_not_fired hn, hr]

/-- `x >>= f` when the fault index lies beyond (or before) the fault-free run of `x`. -/
theorem bind_skip {α β} {x : M α} (hx : Uniform x) (f : α → M β) {k : Nat} {d d1 : Dev} {a : α}
    (h0 : x none d = (.ok a, d1)) (hk : k < d.calls ∨ d1.calls ≤ k) :
    (x >>= f) (some k) d = f a (some k) d1 := by
  have : x (some k) d = x none d := hx.same_of_outside (by rw [h0]; exact hk)
  rw [M.bind_apply, this, h0]

theorem bind_err_of {α β} {x : M α} (f : α → M β) {fa : Option Nat} {d : Dev} {e : ZErr}
    (h : (x fa d).1 = .err e) : ((x >>= f) fa d).1 = .err e := by
  rw [M.bind_apply]
  cases hx : x fa d with
  | mk o d' => rw [hx] at h; dsimp only at h; subst h; rfl

theorem seek_start_apply (n : Nat) (fa : Option Nat) (d : Dev) :
    M.seek (.start n) fa d =
      if fa = some d.calls then (.err (.io d.fkind), d.shift 1)
      else (.ok n, { d.shift 1 with pos := n }) := by
  unfold M.seek M.prim
  dsimp only
  split
  · rfl
  · simp [Dev.shift]

/-! ### `get_directory_counts`: the ZIP64 probe (after the D18 repair, both parts) -/

/-- **`get_directory_counts` reports every injected fault as that very error, whatever its kind** — at the
probe seek, in the locator parse, in the ZIP64 end-record search.  (Before D18 every failure of the probe
seek was taken for "no ZIP64 records"; after its first part a failure of kind `InvalidInput` still was.) -/
theorem getDirectoryCounts_tight (footer : Eocd) (cde : Nat) : Tight (getDirectoryCounts footer cde) := by
  unfold getDirectoryCounts; fault
macro_rules | `(tactic| fault_step) => `(tactic| with_reducible exact getDirectoryCounts_tight _ _)

/-- the probed position: where a ZIP64 locator would start -/
def probePos (footer : Eocd) : SeekFrom := .endOff (-(20 + 22 + (footer.comment.length : Int)))

/-- What `get_directory_counts` returns when no ZIP64 locator is found (`loc = none`): the fields of
the 22-byte end record. -/
def countsNoZip64 (footer : Eocd) (cdeStart : Nat) : Out (Nat × Nat × Nat) :=
  if cdeStart < footer.cdSize.toNat + footer.cdOffset.toNat then .err .invalidArchive
  else .ok (cdeStart - footer.cdSize.toNat - footer.cdOffset.toNat,
            footer.cdOffset.toNat + (cdeStart - footer.cdSize.toNat - footer.cdOffset.toNat),
            footer.filesOnDisk.toNat)

/-- The part of `get_directory_counts` after the locator question is settled. -/
def afterLocator (footer : Eocd) (cdeStart : Nat) (loc : Option Locator) : M (Nat × Nat × Nat) :=
  match loc with
  | none =>
    let sz := footer.cdSize.toNat
    let off := footer.cdOffset.toNat
    if cdeStart < sz + off then M.throw .invalidArchive else
    let archiveOffset := cdeStart - sz - off
    pure (archiveOffset, off + archiveOffset, footer.filesOnDisk.toNat)
  | some l =>
    if !footer.recordTooSmall && footer.diskNumber.toUInt32 != l.diskWithCd then
      M.throw .unsupportedArchive
    else if cdeStart < 60 then M.throw .invalidArchive else do
      let (f64, archiveOffset) ← findEocd64 l.eocd64Offset.toNat (cdeStart - 60)
      if f64.diskNumber != f64.diskWithCd then M.throw .unsupportedArchive else
      let ds := f64.cdOffset.toNat + archiveOffset
      if ds ≥ 18446744073709551616 then M.throw .invalidArchive else
      pure (archiveOffset, ds, f64.files.toNat)

/-- The locator parse behind a successful probe seek. -/
def probeLocator : M (Option Locator) := do
  let r ← M.attempt parseLocator
  match r with
  | .ok l => pure (some l)
  | .error .invalidArchive => pure none
  | .error e => M.throw e

/-- `get_directory_counts`, split at the probe: with the end record less than 20 bytes into the file there is
no I/O at all; otherwise the probe seek is an ordinary `?`-propagated call. -/
theorem getDirectoryCounts_eq (footer : Eocd) (cdeStart : Nat) :
    getDirectoryCounts footer cdeStart =
      if cdeStart < 20 then afterLocator footer cdeStart none
      else (M.seek (probePos footer) >>= fun _ => probeLocator >>= afterLocator footer cdeStart) := by
  unfold getDirectoryCounts afterLocator probeLocator probePos
  split
  · rfl
  · rw [M.bind_assoc]; rfl

/-- The probe seek, spelled out: the injected fault (of the device's kind); else `InvalidInput` iff the file
is shorter than locator + end record + comment (the target would be negative); else success. -/
theorem probe_seek_apply (footer : Eocd) (fa : Option Nat) (d : Dev) :
    M.seek (probePos footer) fa d =
      if fa = some d.calls then (.err (.io d.fkind), d.shift 1)
      else if d.buf.length < 42 + footer.comment.length then (.err (.io .invalidInput), d.shift 1)
      else (.ok (d.buf.length - (42 + footer.comment.length)),
            { d.shift 1 with pos := d.buf.length - (42 + footer.comment.length) }) := by
  unfold M.seek M.prim probePos
  dsimp only
  split
  · rfl
  · by_cases hl : d.buf.length < 42 + footer.comment.length
    · rw [if_pos hl, if_pos (by omega)]; rfl
    · rw [if_neg hl, if_neg (by omega)]
      have : ((d.buf.length : Int) + -(20 + 22 + (footer.comment.length : Int))).toNat
          = d.buf.length - (42 + footer.comment.length) := by omega
      simp only [this, Dev.shift]

/-- **`probe_skipped_without_room`.**  "There is no room for a locator" is decided from the known position of
the end record, not from an error: found less than 20 bytes into the file (an empty archive), no locator fits
in front of it, and `get_directory_counts` answers from the 22-byte end record WITHOUT ANY I/O call — for
every fault index and every device, so no failure can be mistaken for anything here. -/
theorem probe_skipped_without_room (footer : Eocd) (cde : Nat) (fa : Option Nat) (d : Dev)
    (h20 : cde < 20) :
    getDirectoryCounts footer cde fa d = (countsNoZip64 footer cde, d) := by
  rw [getDirectoryCounts_eq, if_pos h20]
  unfold afterLocator countsNoZip64
  dsimp only
  split <;> rfl

/-- **`probe_seek_error_reported`**: with the end record at 20 or later, EVERY error of the probe seek — of
whatever kind, `InvalidInput` included — is returned by `get_directory_counts` as it is; nothing else is
attempted. -/
theorem probe_seek_error_reported (footer : Eocd) (cde : Nat) (fa : Option Nat) (d d' : Dev)
    (e : ZErr) (h20 : 20 ≤ cde) (hs : M.seek (probePos footer) fa d = (.err e, d')) :
    getDirectoryCounts footer cde fa d = (.err e, d') := by
  rw [getDirectoryCounts_eq, if_neg (by omega), M.bind_apply, hs]

/-- In particular the injected fault at the probe seek is reported, whatever the kind of error the device
fails with (D18 regression statement). -/
theorem probe_injected_fault_reported (footer : Eocd) (cde : Nat) (d : Dev) (h20 : 20 ≤ cde) :
    getDirectoryCounts footer cde (some d.calls) d = (.err (.io d.fkind), d.shift 1) := by
  apply probe_seek_error_reported footer cde (some d.calls) d (d.shift 1) (.io d.fkind) h20
  rw [probe_seek_apply, if_pos rfl]

/-! ### `ZipArchive::new` -/

theorem openArchive_uniform : Uniform openArchive := by
  unfold openArchive; fault

/-- **`ZipArchive::new`: a fired fault is reported as an error** — the injected one, or
`InvalidArchive` when it hit the seek to the central directory. -/
theorem openArchive_errOnFire : ErrOnFire openArchive := by
  unfold openArchive; fault

/-- **`ZipArchive::new` succeeding under a fault returns exactly what the fault-free run returns**, and
leaves the same device. -/
theorem openArchive_ok_faultfree {k : Nat} {d d' : Dev} {a : Archive}
    (h : openArchive (some k) d = (.ok a, d')) : openArchive none d = (.ok a, d') :=
  ErrOnFire.ok_faultfree openArchive_uniform openArchive_errOnFire h

/-! ### `new_append` -/

theorem newAppend_loop_tight (off n : Nat) : Tight (newAppend.loop off n) := by
  induction n with
  | zero => unfold newAppend.loop; fault
  | succ n ih => unfold newAppend.loop; fault
macro_rules | `(tactic| fault_step) => `(tactic| with_reducible exact newAppend_loop_tight _ _)

theorem newAppend_uniform : Uniform newAppend := by
  unfold newAppend; fault

/-- `new_append`: a fired fault — at ANY of its I/O calls, the last seek included — is an error (the
injected one; `InvalidArchive` when it hit the first seek to the directory start, which the crate maps
to that). -/
theorem newAppend_errOnFire : ErrOnFire newAppend := by
  unfold newAppend; fault

/-- **`new_append` succeeding under a fault** is the failure-free call: the same writer state, the same
sink (bytes, position — the directory start —, call count).  Since D22 was repaired there is no
exception: the seek that repositions the writer onto the old central directory reports its failure. -/
theorem newAppend_ok_faultfree {k : Nat} {d d' : Dev} {s : WState}
    (h : newAppend (some k) d = (.ok s, d')) : newAppend none d = (.ok s, d') :=
  ErrOnFire.ok_faultfree newAppend_uniform newAppend_errOnFire h

open M in
/-- `new_append` up to (not including) its last seek: the writer state and the directory start it is
about to seek to. -/
def newAppendCore : M (WState × Nat) := do
  let (footer, cdeStart) ← findAndParseEocd
  if footer.diskNumber != footer.diskWithCd then throw .unsupportedArchive else do
    let (archiveOffset, directoryStart, numberOfFiles) ← getDirectoryCounts footer cdeStart
    if directoryStart > cdeStart then throw .invalidArchive else
    let r ← attempt (seek (.start directoryStart))
    match r with
    | .error _ => throw .invalidArchive
    | .ok _ =>
      let files ← newAppend.loop archiveOffset numberOfFiles
      pure ({ WState.init with files, comment := footer.comment, writingRaw := true }, directoryStart)

theorem newAppend_eq :
    newAppend = (newAppendCore >>= fun p => M.seek (.start p.2) >>= fun _ => pure p.1) := by
  unfold newAppend newAppendCore
  rw [M.bind_assoc]
  apply M.bind_congr
  rintro ⟨footer, cde⟩
  dsimp only
  rw [M.ite_bind, M.throw_bind, M.bind_assoc]
  congr 1
  apply M.bind_congr
  rintro ⟨ao, ds, n⟩
  dsimp only
  rw [M.ite_bind, M.throw_bind, M.bind_assoc]
  congr 1
  apply M.bind_congr
  intro r
  cases r with
  | error e => rfl
  | ok p =>
    dsimp only
    rw [M.bind_assoc]
    apply M.bind_congr
    intro files
    rw [M.pure_bind]

theorem newAppendCore_uniform : Uniform newAppendCore := by
  unfold newAppendCore; fault

/-- **The repositioning seek of `new_append` is reported** (D22, repaired: `seek(..)?` where the crate
had `let _ = seek(..)`).  If the fault-free `new_append` gets as far as its last seek — `d1` being the
sink after the central directory was parsed, `ds` the directory start —, it succeeds and leaves the sink
at `ds`; when exactly that seek fails, `new_append` returns the injected I/O error (it used to return
`Ok` with the sink still at `d1.pos`, behind the old central directory, so that everything written later
landed behind it). -/
theorem newAppend_last_seek_reported {d d1 : Dev} {s : WState} {ds : Nat}
    (h : newAppendCore none d = (.ok (s, ds), d1)) :
    newAppend none d = (.ok s, { d1.shift 1 with pos := ds }) ∧
    newAppend (some d1.calls) d = (.err (.io d.fkind), d1.shift 1) := by
  have hk : d1.fkind = d.fkind := by
    have := newAppendCore_uniform.kind none d
    rw [h] at this
    exact this
  constructor
  · rw [newAppend_eq, M.bind_apply, h]
    dsimp only
    rw [M.bind_apply, seek_start_apply, if_neg (by simp)]
    rfl
  · rw [newAppend_eq, bind_skip newAppendCore_uniform _ h (Or.inr (Nat.le_refl _))]
    dsimp only
    rw [M.bind_apply, seek_start_apply, if_pos rfl, hk]

/-! ### The scenario "open, then read every entry" -/

/-- `by_index(i)` + `read_to_end` for each index of the list, on one device. -/
def readEntries (ext : Ext) (a : Archive) (pw : Option Bytes) (fa : Option Nat) :
    List Nat → Dev → List (Out (PwResult (Nat × Out Bytes))) × Dev
  | [], d => ([], d)
  | i :: is, d =>
    ((byIndexRead ext a i pw fa d).1 :: (readEntries ext a pw fa is (byIndexRead ext a i pw fa d).2).1,
     (readEntries ext a pw fa is (byIndexRead ext a i pw fa d).2).2)

/-- Reading entries under a fault: identical to the fault-free reads (results and device), or one of
the reads reports the injected error (an I/O error of the kind the device fails with). -/
theorem readEntries_dichotomy (ext : Ext) (a : Archive) (pw : Option Bytes) (k : Nat) :
    ∀ (is : List Nat) (d : Dev),
      readEntries ext a pw (some k) is d = readEntries ext a pw none is d ∨
      .err (.io d.fkind) ∈ (readEntries ext a pw (some k) is d).1 := by
  intro is
  induction is with
  | nil => intro d; exact Or.inl rfl
  | cons i is ih =>
    intro d
    have ht := byIndexRead_tight ext a i pw
    unfold readEntries
    by_cases hf : Fired k d (byIndexRead ext a i pw (some k) d).2
    · right
      rw [ht.reports hf]
      exact List.mem_cons_self
    · rw [ht.uni.same_of_not_fired hf]
      rcases ih (byIndexRead ext a i pw none d).2 with h | h
      · left; rw [h]
      · right
        rw [ht.uni.kind] at h
        exact List.mem_cons_of_mem _ h

/-- `ZipArchive::new`, then every entry read to its end in index order. -/
def openAndReadAll (ext : Ext) (pw : Option Bytes) (fa : Option Nat) (d : Dev) :
    Out Archive × List (Out (PwResult (Nat × Out Bytes))) × Dev :=
  match openArchive fa d with
  | (.ok a, d') => (.ok a, readEntries ext a pw fa (List.range a.files.length) d')
  | (o, d') => (o, [], d')

/-- **The read scenario under a single fault, at ANY index**: the whole outcome — archive value, every
entry's result, final device — is identical to the failure-free run, or `new` reports an error, or one
of the entry reads reports the injected error. -/
theorem openAndReadAll_dichotomy (ext : Ext) (pw : Option Bytes) (k : Nat) (d : Dev) :
    openAndReadAll ext pw (some k) d = openAndReadAll ext pw none d ∨
    (∃ e, (openAndReadAll ext pw (some k) d).1 = .err e) ∨
    .err (.io d.fkind) ∈ (openAndReadAll ext pw (some k) d).2.1 := by
  unfold openAndReadAll
  rcases openArchive_uniform.dich k d with ⟨e, _⟩ | ⟨f, _⟩
  · rw [e]
    rcases h : openArchive none d with ⟨(a | e | p), d'⟩
    · dsimp only
      rcases readEntries_dichotomy ext a pw k (List.range a.files.length) d' with h | h
      · left; rw [h]
      · right; right
        have hk := openArchive_uniform.kind none d
        rw [‹openArchive none d = _›] at hk
        rw [← hk]; exact h
    · left; rfl
    · left; rfl
  · obtain ⟨e, he⟩ := openArchive_errOnFire k d f
    right; left
    rcases h : openArchive (some k) d with ⟨(a | e' | p), d'⟩ <;> rw [h] at he <;> cases he
    exact ⟨e, rfl⟩

/-! ### The streaming reader -/

theorem streamHeader_tight : Tight streamHeader := by unfold streamHeader; fault
macro_rules | `(tactic| fault_step) => `(tactic| with_reducible exact streamHeader_tight)

theorem streamEntry_tight (ext : Ext) : Tight (streamEntry ext) := by unfold streamEntry; fault
macro_rules | `(tactic| fault_step) => `(tactic| with_reducible exact streamEntry_tight _)

theorem streamEntries_tight (ext : Ext) (fuel : Nat) : Tight (streamEntries ext fuel) := by
  induction fuel with
  | zero => unfold streamEntries; fault
  | succ n ih => unfold streamEntries; fault
macro_rules | `(tactic| fault_step) => `(tactic| with_reducible exact streamEntries_tight _ _)

theorem streamCentralLoop_tight (fuel : Nat) : Tight (streamCentralLoop fuel) := by
  induction fuel with
  | zero => unfold streamCentralLoop; fault
  | succ n ih => unfold streamCentralLoop; fault
macro_rules | `(tactic| fault_step) => `(tactic| with_reducible exact streamCentralLoop_tight _)

/-- **`ZipStreamReader::visit`** (every entry read to its end, then the central directory): no failure
is tolerated anywhere. -/
theorem streamVisit_tight (ext : Ext) : Tight (streamVisit ext) := by unfold streamVisit; fault

/-! ### Partial consumption + `ZipFile::drop` (`streamEntryC` / `streamEntriesC`)

The drain of `ZipFile::drop` (`Model.drain`) swallows a read error, as the code does (`Err(_) => break`): these
functions are NOT `Tight` — a fault that fires inside the drain is not returned by any call (known finding K-J,
`Props.C11.stream_drain_fault_swallowed`).  What holds for every consumption pattern is `Uniform`: the call
counter is monotone, the device's error kind is kept, and a fault index that is not reached changes nothing. -/

theorem takeLoop_uniform (chunk : Nat) : ∀ fuel want : Nat, Uniform (takeLoop chunk fuel want)
  | 0, _ => by unfold takeLoop; fault
  | fuel + 1, want => by
    have ih := takeLoop_uniform chunk fuel
    unfold takeLoop
    repeat (first | exact ih _ | fault_step)
macro_rules | `(tactic| fault_step) => `(tactic| with_reducible exact takeLoop_uniform _ _ _)

theorem drain_uniform (rem : Nat) : Uniform (drain rem) := by unfold drain; fault
macro_rules | `(tactic| fault_step) => `(tactic| with_reducible exact drain_uniform _)

theorem streamEntryC_uniform (ext : Ext) (c : Consume) : Uniform (streamEntryC ext c) := by
  unfold streamEntryC; fault
macro_rules | `(tactic| fault_step) => `(tactic| with_reducible exact streamEntryC_uniform _ _)

theorem streamEntriesC_uniform (ext : Ext) (pattern : List Consume) :
    ∀ fuel i : Nat, Uniform (streamEntriesC ext pattern fuel i)
  | 0, _ => by unfold streamEntriesC; fault
  | fuel + 1, i => by
    have ih := streamEntriesC_uniform ext pattern fuel
    unfold streamEntriesC
    repeat (first | exact ih _ | fault_step)

end ZipVerif.Model
