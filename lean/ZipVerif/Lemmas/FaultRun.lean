import ZipVerif.Lemmas.FaultWriter
import ZipVerif.Props.C12
/-
Fault transparency and error propagation lifted to the call alphabet of C12 (`step`, `runCalls`):
every call is `Uniform`; every call except `drop` is `StepOK`; and the induction over call sequences
behind C11's headline theorems.
-/

namespace ZipVerif.Model
open ZipVerif ZipVerif.Props.C12

theorem mapStep_stepOK {α β} (f : α → β) (st : Step α) (s : WState) (h : StepOK (st s)) :
    StepOK (mapStep f st s) := by
  unfold mapStep
  apply StepOK.bind h
  · intro v s'; exact StepOK.pure _
  · intro e s'; exact StepErr.pure_error _ _

theorem mapStep_uniform {α β} (f : α → β) (st : Step α) (s : WState) (h : Uniform (st s)) :
    Uniform (mapStep f st s) := by
  unfold mapStep
  exact Uniform.bind h fun _ => Uniform.pure _

def isDrop : Call → Bool
  | .drop => true
  | _ => false

/-- **Every call except `drop`**: transparent to a fault that does not fire inside it, and not `Ok`
when one does. -/
theorem step_stepOK (ext : WExt) (c : Call) (hc : isDrop c = false) (s : WState) :
    StepOK (step ext c s) := by
  cases c with
  | startFile n o => exact mapStep_stepOK _ _ _ (startFile_stepOK ..)
  | startFileWithExtraData n o => exact mapStep_stepOK _ _ _ (startFileWithExtraData_stepOK ..)
  | startFileAligned n o a => exact mapStep_stepOK _ _ _ (startFileAligned_stepOK ..)
  | write b => exact mapStep_stepOK _ _ _ (writeData_stepOK ..)
  | endLocalStartCentral => exact mapStep_stepOK _ _ _ (endLocalStartCentral_stepOK ..)
  | endExtraData => exact mapStep_stepOK _ _ _ (endExtraData_stepOK ..)
  | addDirectory n o => exact mapStep_stepOK _ _ _ (addDirectory_stepOK ..)
  | addSymlink n t o => exact mapStep_stepOK _ _ _ (addSymlink_stepOK ..)
  | setComment cm => exact StepOK.pure _
  | rawCopy src raw n => exact mapStep_stepOK _ _ _ (rawCopy_stepOK ..)
  | finish => exact mapStep_stepOK _ _ _ (finish_stepOK ..)
  | drop => cases hc

/-- **Every call, `drop` included**, is transparent to a fault that does not fire inside it. -/
theorem step_uniform (ext : WExt) (c : Call) (s : WState) : Uniform (step ext c s) := by
  by_cases hc : isDrop c = false
  · exact (step_stepOK ext c hc s).uni
  · cases c <;> first | exact absurd rfl hc | exact mapStep_uniform _ _ _ (dropWriter_uniform ..)

/-! ### Call sequences -/

theorem runCalls_cons (ext : WExt) (c : Call) (cs : List Call) (s : WState) (fa : Option Nat) (d : Dev) :
    runCalls ext (c :: cs) s fa d =
      match step ext c s fa d with
      | (.ok (.ok v, s'), d') => (.ok v :: (runCalls ext cs s' fa d').1, (runCalls ext cs s' fa d').2)
      | (.ok (.error e, s'), d') => (.err e :: (runCalls ext cs s' fa d').1, (runCalls ext cs s' fa d').2)
      | (.err e, d') => (.err e :: (runCalls ext cs s fa d').1, (runCalls ext cs s fa d').2)
      | (.panic site, d') => ([.panic site], s, d') := by
  rw [runCalls]
  rcases step ext c s fa d with ⟨(⟨(e | v), s'⟩ | e | p), d'⟩ <;> rfl

/-- The faulted outcome list agrees with the fault-free one call by call up to a call whose outcome is
not `Ok` (an error — or a panic, excluded separately by `writer_no_panic`). -/
def AgreeUntilErr : List (Out (Option Nat)) → List (Out (Option Nat)) → Prop
  | o :: os, o0 :: os0 => (o = o0 ∧ AgreeUntilErr os os0) ∨ o.isOk = false
  | _, _ => False

/-- Induction behind the headline: for a call sequence without `drop`, the faulted run is either
*equal* to the fault-free run (outcomes, final writer state, final sink including its call counter),
or its outcomes agree with the fault-free ones up to a call that reports an error. -/
theorem run_fault_dichotomy (ext : WExt) (calls : List Call) (hnd : ∀ c ∈ calls, isDrop c = false)
    (k : Nat) : ∀ (s : WState) (d : Dev),
      runCalls ext calls s (some k) d = runCalls ext calls s none d ∨
      AgreeUntilErr (runCalls ext calls s (some k) d).1 (runCalls ext calls s none d).1 := by
  induction calls with
  | nil => intro s d; exact Or.inl rfl
  | cons c cs ih =>
    intro s d
    have ih' := ih (fun c' h' => hnd c' (by simp [h']))
    have hok := step_stepOK ext c (hnd c (by simp)) s
    rw [runCalls_cons, runCalls_cons]
    rcases hok.uni.dich k d with ⟨heq, _⟩ | ⟨hf, _⟩
    · -- the fault does not fire inside this call: same step, continue
      rw [heq]
      cases h0 : step ext c s none d with
      | mk o d' =>
        cases o with
        | ok rs =>
          obtain ⟨r, s'⟩ := rs
          cases r with
          | ok v =>
            dsimp only
            rcases ih' s' d' with h | h
            · exact Or.inl (by rw [h])
            · exact Or.inr (Or.inl ⟨rfl, h⟩)
          | error e =>
            dsimp only
            rcases ih' s' d' with h | h
            · exact Or.inl (by rw [h])
            · exact Or.inr (Or.inl ⟨rfl, h⟩)
        | err e =>
          dsimp only
          rcases ih' s d' with h | h
          · exact Or.inl (by rw [h])
          · exact Or.inr (Or.inl ⟨rfl, h⟩)
        | panic p => exact Or.inl rfl
    · -- the fault fires inside this call: its outcome is not `Ok`
      right
      have hnone : ∃ o0 os0, (match step ext c s none d with
          | (.ok (.ok v, s'), d') => (Out.ok v :: (runCalls ext cs s' none d').1, (runCalls ext cs s' none d').2)
          | (.ok (.error e, s'), d') => (.err e :: (runCalls ext cs s' none d').1, (runCalls ext cs s' none d').2)
          | (.err e, d') => (.err e :: (runCalls ext cs s none d').1, (runCalls ext cs s none d').2)
          | (.panic site, d') => ([.panic site], s, d')).1 = o0 :: os0 := by
        cases step ext c s none d with
        | mk o d' =>
          cases o with
          | ok rs =>
            obtain ⟨r, s'⟩ := rs
            cases r <;> exact ⟨_, _, rfl⟩
          | err e => exact ⟨_, _, rfl⟩
          | panic p => exact ⟨_, _, rfl⟩
      obtain ⟨o0, os0, h0⟩ := hnone
      rw [h0]
      cases hk : step ext c s (some k) d with
      | mk o d' =>
        rw [hk] at hf
        cases o with
        | ok rs =>
          obtain ⟨r, s'⟩ := rs
          cases r with
          | ok v => exact absurd hf (hok.ep k d v s' d' hk)
          | error e => exact Or.inr rfl
        | err e => exact Or.inr rfl
        | panic p => exact Or.inr rfl

theorem AgreeUntilErr.not_allOk {os os0 : List (Out (Option Nat))} (h : AgreeUntilErr os os0) :
    ∃ o ∈ os, o.isOk = false := by
  induction os generalizing os0 with
  | nil => cases os0 <;> exact h.elim
  | cons o os ih =>
    cases os0 with
    | nil => exact h.elim
    | cons o0 os0 =>
      rcases h with ⟨_, h⟩ | h
      · obtain ⟨o', ho', h'⟩ := ih h
        exact ⟨o', by simp [ho'], h'⟩
      · exact ⟨o, by simp, h⟩

/-- In an `AgreeUntilErr` pair the first non-`Ok` … is reached after a common prefix: there is an
index `i` with equal outcomes before `i` and a non-`Ok` faulted outcome at `i`. -/
theorem AgreeUntilErr.index {os os0 : List (Out (Option Nat))} (h : AgreeUntilErr os os0) :
    ∃ i o, os.take i = os0.take i ∧ os[i]? = some o ∧ o.isOk = false := by
  induction os generalizing os0 with
  | nil => cases os0 <;> exact h.elim
  | cons o os ih =>
    cases os0 with
    | nil => exact h.elim
    | cons o0 os0 =>
      rcases h with ⟨he, h⟩ | h
      · obtain ⟨i, o', h1, h2, h3⟩ := ih h
        exact ⟨i + 1, o', by simp [he, h1], by simpa using h2, h3⟩
      · exact ⟨0, o, rfl, rfl, h⟩

/-- The call counter of the sink never decreases along a run. -/
theorem runCalls_mono (ext : WExt) (calls : List Call) (fa : Option Nat) :
    ∀ (s : WState) (d : Dev), d.calls ≤ (runCalls ext calls s fa d).2.2.calls := by
  induction calls with
  | nil => intro s d; exact Nat.le_refl _
  | cons c cs ih =>
    intro s d
    have hm := (step_uniform ext c s).mono fa d
    rw [runCalls_cons]
    rcases h : step ext c s fa d with ⟨(⟨(e | v), s'⟩ | e | p), d'⟩ <;> rw [h] at hm <;> dsimp only at hm ⊢
    · exact Nat.le_trans hm (ih s' d')
    · exact Nat.le_trans hm (ih s' d')
    · exact Nat.le_trans hm (ih s d')
    · exact hm

/-- A fault index outside the window of I/O calls of the fault-free run changes nothing (any call
sequence, `drop` included). -/
theorem run_unreached (ext : WExt) (calls : List Call) (k : Nat) :
    ∀ (s : WState) (d : Dev), (k < d.calls ∨ (runCalls ext calls s none d).2.2.calls ≤ k) →
      runCalls ext calls s (some k) d = runCalls ext calls s none d := by
  induction calls with
  | nil => intro s d _; rfl
  | cons c cs ih =>
    intro s d hk
    have hu := step_uniform ext c s
    have hm := hu.mono none d
    rw [runCalls_cons] at hk
    rw [runCalls_cons, runCalls_cons]
    rcases h : step ext c s none d with ⟨(⟨(e | v), s'⟩ | e | p), d'⟩ <;> rw [h] at hm hk <;>
      dsimp only at hm hk
    · have hr := runCalls_mono ext cs none s' d'
      rw [hu.same_of_outside (by rw [h]; dsimp only; omega), h]
      dsimp only
      rw [ih s' d' (by omega)]
    · have hr := runCalls_mono ext cs none s' d'
      rw [hu.same_of_outside (by rw [h]; dsimp only; omega), h]
      dsimp only
      rw [ih s' d' (by omega)]
    · have hr := runCalls_mono ext cs none s d'
      rw [hu.same_of_outside (by rw [h]; dsimp only; omega), h]
      dsimp only
      rw [ih s d' (by omega)]
    · rw [hu.same_of_outside (by rw [h]; dsimp only; omega), h]

end ZipVerif.Model
