import ZipVerif.Lemmas.FaultReader
/-
C11, the streaming reader under faults after the repair of K-J for the visitor API: `ZipStreamReader::visit` drains
every entry itself (`ZipFile::drain_stream`) and returns a read error of that drain.

* `M.retried` (std's retry loops; `Model/IO.lean`): `Uniform` is kept; on a device that fails with any kind other
  than `Interrupted` it is the identity (`M.retried_hard`); on one that fails with `Interrupted` a fault among the
  calls of the wrapped computation is invisible but for one more I/O call (`M.retried_interrupted`).
* `ErrOnFireH x`: on a device whose failures are hard ones (`fkind ≠ interrupted`), a fault that fires inside `x`
  makes `x` return an error.  Closed under bind, `retried`, and (`bind_val`) under a first stage that turns the
  fired fault into a VALUE which the continuation then returns as an error — the visitor's failed read.
* `visitFile` / `visitEntry` / `visitEntries` / `visitCentral` / `streamVisitC`: `Uniform` and `ErrOnFireH`.
-/

namespace ZipVerif.Model
open ZipVerif

/-! ### `M.retried` -/

theorem M.retried_none {α} (m : M α) (d : Dev) : M.retried m none d = m none d := rfl

/-- on a device that fails with any other kind, a retry loop changes nothing -/
theorem M.retried_hard {α} (m : M α) (fa : Option Nat) (d : Dev) (h : d.fkind ≠ .interrupted) :
    M.retried m fa d = m fa d := by
  cases fa with
  | none => rfl
  | some k =>
    unfold M.retried
    dsimp only
    rw [if_neg (fun c => h c.1)]

/-- **`Interrupted` inside a retry loop is invisible**: the device fails with `Interrupted`, the fault index falls
among the calls `m` makes — outcome and device are those of the failure-free run, one more call is counted. -/
theorem M.retried_interrupted {α} (m : M α) (k : Nat) (d : Dev) (hi : d.fkind = .interrupted)
    (hf : Fired k d (m none d).2) :
    M.retried m (some k) d = ((m none d).1, { (m none d).2 with calls := (m none d).2.calls + 1 }) := by
  unfold M.retried
  dsimp only
  rw [if_pos ⟨hi, hf.1, hf.2⟩]

theorem Uniform.retried {α} {m : M α} (hm : Uniform m) : Uniform (M.retried m) := by
  refine ⟨?_, ?_, ?_⟩
  · intro fa d
    cases fa with
    | none => exact hm.mono none d
    | some k =>
      unfold M.retried
      dsimp only
      split
      · have := hm.mono none d
        dsimp only
        omega
      · exact hm.mono (some k) d
  · intro fa d
    cases fa with
    | none => exact hm.kind none d
    | some k =>
      unfold M.retried
      dsimp only
      split
      · exact hm.kind none d
      · exact hm.kind (some k) d
  · intro k d
    by_cases hc : d.fkind = .interrupted ∧ d.calls ≤ k ∧ k < (m none d).2.calls
    · refine Or.inr ⟨?_, ?_⟩
      · rw [M.retried_interrupted m k d hc.1 ⟨hc.2.1, hc.2.2⟩]
        unfold Fired
        dsimp only
        omega
      · rw [M.retried_none]
        exact ⟨hc.2.1, hc.2.2⟩
    · have e1 : M.retried m (some k) d = m (some k) d := by
        unfold M.retried
        dsimp only
        rw [if_neg hc]
      rw [e1, M.retried_none]
      exact hm.dich k d
macro_rules | `(tactic| fault_step) => `(tactic| with_reducible apply Uniform.retried)

/-! ### `ErrOnFireH` -/

/-- On a device whose failures are hard ones, a fault that fires inside `x` makes `x` return an error. -/
def ErrOnFireH {α} (x : M α) : Prop :=
  ∀ k d, d.fkind ≠ .interrupted → Fired k d (x (some k) d).2 → ∃ e, (x (some k) d).1 = .err e

theorem ErrOnFire.toH {α} {x : M α} (h : ErrOnFire x) : ErrOnFireH x := fun k d _ hf => h k d hf

theorem ErrOnFireH.retried {α} {m : M α} (h : ErrOnFireH m) : ErrOnFireH (M.retried m) := by
  intro k d hk hf
  rw [M.retried_hard m _ d hk] at hf ⊢
  exact h k d hk hf

/-- a computation that returns an error whatever happens -/
def AlwaysErr {α} (x : M α) : Prop := ∀ fa d, ∃ e, (x fa d).1 = .err e

theorem AlwaysErr.errOnFireH {α} {x : M α} (h : AlwaysErr x) : ErrOnFireH x := fun k d _ _ => h (some k) d

theorem ErrOnFireH.bind {α β} {x : M α} {f : α → M β} (hx : Uniform x) (cx : ErrOnFireH x)
    (cf : ∀ a, ErrOnFireH (f a)) : ErrOnFireH (x >>= f) := by
  intro k d hk hf
  have c1 := cx k d hk
  have hkd := hx.kind (some k) d
  rw [M.bind_apply] at hf ⊢
  cases h : x (some k) d with
  | mk o d' =>
    rw [h] at hf c1 hkd
    cases o with
    | ok a =>
      dsimp only at hf c1 hkd ⊢
      by_cases hfx : Fired k d d'
      · obtain ⟨e, he⟩ := c1 hfx
        cases he
      · exact cf a k d' (by rw [hkd]; exact hk) (by unfold Fired at *; omega)
    | err e => exact ⟨e, rfl⟩
    | panic s =>
      obtain ⟨e, he⟩ := c1 hf
      cases he

/-- The first stage `x` never fails but hands a fired fault on as a VALUE satisfying `P` (the error a consumer's
`read` returned), and the continuation returns an error for every such value: the fault is reported. -/
theorem ErrOnFireH.bind_val {α β} {x : M α} {f : α → M β} (P : α → Prop) (hx : Uniform x)
    (hfire : ∀ k d, Fired k d (x (some k) d).2 → ∃ a, (x (some k) d).1 = .ok a ∧ P a)
    (hP : ∀ a, P a → AlwaysErr (f a))
    (cf : ∀ a, ErrOnFireH (f a)) : ErrOnFireH (x >>= f) := by
  intro k d hk hf
  have c1 := hfire k d
  have hkd := hx.kind (some k) d
  rw [M.bind_apply] at hf ⊢
  cases h : x (some k) d with
  | mk o d' =>
    rw [h] at hf c1 hkd
    by_cases hfx : Fired k d d'
    · obtain ⟨a, ha, hp⟩ := c1 hfx
      dsimp only at ha
      subst ha
      exact hP a hp (some k) d'
    · cases o with
      | ok a =>
        dsimp only at hf hkd ⊢
        exact cf a k d' (by rw [hkd]; exact hk) (by unfold Fired at *; omega)
      | err e => exact absurd hf hfx
      | panic s => exact absurd hf hfx

/-! ### The take loop as a first stage -/

theorem read_ok_or_err (n : Nat) (fa : Option Nat) (d : Dev) :
    (∃ bs d', M.read n fa d = (.ok bs, d')) ∨ (∃ e d', M.read n fa d = (.err e, d')) := by
  unfold M.read M.prim
  dsimp only
  split
  · exact Or.inr ⟨_, _, rfl⟩
  · exact Or.inl ⟨_, _, rfl⟩

/-- the take loop never fails: a read error is part of its value -/
theorem takeLoop_ok (chunk : Nat) : ∀ (fuel want : Nat) (fa : Option Nat) (d : Dev),
    ∃ r d', takeLoop chunk fuel want fa d = (.ok r, d')
  | 0, _, _, _ => by unfold takeLoop; exact ⟨_, _, rfl⟩
  | fuel + 1, want, fa, d => by
    unfold takeLoop
    split
    · exact ⟨_, _, rfl⟩
    · rw [M.bind_apply, M.attempt_apply]
      rcases read_ok_or_err (min want chunk) fa d with ⟨bs, d', h⟩ | ⟨e, d', h⟩
      · rw [h]
        dsimp only
        split
        · exact ⟨_, _, rfl⟩
        · rw [M.bind_apply]
          obtain ⟨r, d'', h2⟩ := takeLoop_ok chunk fuel (want - bs.length) fa d'
          rw [h2]
          exact ⟨_, _, rfl⟩
      · rw [h]
        exact ⟨_, _, rfl⟩

/-- a fault that fires inside the take loop is the error in its value -/
theorem takeLoop_fired (chunk : Nat) : ∀ (fuel want k : Nat) (d : Dev),
    Fired k d (takeLoop chunk fuel want (some k) d).2 →
    ∃ a, (takeLoop chunk fuel want (some k) d).1 = .ok a ∧ a.2.isSome = true
  | 0, _, _, _ => by
    unfold takeLoop
    intro hf
    exact absurd hf Fired.self
  | fuel + 1, want, k, d => by
    unfold takeLoop
    split
    · intro hf
      exact absurd hf Fired.self
    · rw [M.bind_apply, M.attempt_apply]
      have hcl := (Tight.read (min want chunk)).clean k d
      rcases read_ok_or_err (min want chunk) (some k) d with ⟨bs, d', h⟩ | ⟨e, d', h⟩
      · rw [h] at hcl ⊢
        dsimp only at hcl ⊢
        have hnf : ¬ Fired k d d' := fun c => by have := hcl c; cases this
        split
        · intro hf
          exact absurd hf hnf
        · rw [M.bind_apply]
          intro hf
          have ih := takeLoop_fired chunk fuel (want - bs.length) k d'
          obtain ⟨r, d'', h2⟩ := takeLoop_ok chunk fuel (want - bs.length) (some k) d'
          rw [h2] at hf ih ⊢
          have hf' : Fired k d d'' := hf
          dsimp only at ih ⊢
          obtain ⟨a, ha, hs⟩ := ih (by unfold Fired at *; omega)
          cases ha
          exact ⟨_, rfl, hs⟩
      · rw [h]
        intro _
        exact ⟨_, rfl, rfl⟩

theorem drain_ok (rem : Nat) (fa : Option Nat) (d : Dev) : ∃ d', drain rem fa d = (.ok (), d') := by
  unfold drain
  rw [M.bind_apply]
  obtain ⟨r, d', h⟩ := takeLoop_ok 65536 rem rem fa d
  rw [h]
  exact ⟨_, rfl⟩

theorem retried_drain_ok (rem : Nat) (fa : Option Nat) (d : Dev) :
    ∃ d', M.retried (drain rem) fa d = (.ok (), d') := by
  cases fa with
  | none => exact drain_ok rem none d
  | some k =>
    unfold M.retried
    dsimp only
    split
    · obtain ⟨d', h⟩ := drain_ok rem none d
      rw [h]
      exact ⟨_, rfl⟩
    · exact drain_ok rem (some k) d

/-- `Drop` drains silently, then the visitor's error is `visit`'s: an error whatever happens in the drain -/
theorem drain_throw_alwaysErr {α} (rem : Nat) (e : ZErr) :
    AlwaysErr (M.retried (drain rem) >>= fun _ => (M.throw e : M α)) := by
  intro fa d
  rw [M.bind_apply]
  obtain ⟨d', h⟩ := retried_drain_ok rem fa d
  rw [h]
  exact ⟨e, rfl⟩

/-! ### `drain_stream`, `visit` -/

theorem drainE_uniform (rem : Nat) : Uniform (drainE rem) := by unfold drainE; fault
macro_rules | `(tactic| fault_step) => `(tactic| with_reducible exact drainE_uniform _)

/-- a fault that fires inside `drain_stream` is returned -/
theorem drainE_errOnFireH (rem : Nat) : ErrOnFireH (drainE rem) := by
  unfold drainE
  refine ErrOnFireH.bind_val (fun a => a.2.isSome = true) (takeLoop_uniform _ _ _) (takeLoop_fired _ _ _) ?_ ?_
  · rintro ⟨n, e⟩ hp
    cases e with
    | none => cases hp
    | some e => exact fun _ _ => ⟨e, rfl⟩
  · rintro ⟨n, e⟩
    cases e with
    | none => exact (ErrOnFire.pure _).toH
    | some e => exact (ErrOnFire.throw _).toH

theorem visitFile_uniform (ext : Ext) (c : Consume) : Uniform (visitFile ext c) := by
  unfold visitFile; fault
macro_rules | `(tactic| fault_step) => `(tactic| with_reducible exact visitFile_uniform _ _)

/-- **Up to the return of `visit_file`**: a fault that fires is an error of `visit` — in the header it is returned;
in one of the visitor's reads it is the error the visitor returns; the drop-time drain behind a failed `visit_file`
swallows a fault, but then `visit` is already returning the visitor's error. -/
theorem visitFile_errOnFireH (ext : Ext) (c : Consume) : ErrOnFireH (visitFile ext c) := by
  unfold visitFile
  refine ErrOnFireH.bind (Uniform.retried streamHeader_tight.uni)
    (ErrOnFireH.retried streamHeader_tight.errOnFire.toH) ?_
  intro h
  cases h with
  | none => exact (ErrOnFire.pure _).toH
  | some f =>
    dsimp only
    refine ErrOnFireH.bind Tight.getDev.uni Tight.getDev.errOnFire.toH ?_
    intro d0
    refine ErrOnFireH.bind_val (fun a => a.2.isSome = true) (takeLoop_uniform _ _ _) (takeLoop_fired _ _ _) ?_ ?_
    · rintro ⟨n, e⟩ hp
      cases e with
      | none => cases hp
      | some e => exact drain_throw_alwaysErr _ e
    · rintro ⟨n, e⟩
      cases e with
      | some e => exact (drain_throw_alwaysErr _ e).errOnFireH
      | none =>
        dsimp only
        split
        · exact (drain_throw_alwaysErr _ _).errOnFireH
        · exact (ErrOnFire.panic _).toH
        · exact (ErrOnFire.pure _).toH

theorem visitEntry_uniform (ext : Ext) (c : Consume) : Uniform (visitEntry ext c) := by
  unfold visitEntry; fault
macro_rules | `(tactic| fault_step) => `(tactic| with_reducible exact visitEntry_uniform _ _)

/-- **One round of `visit`**: a fault that fires — header, visitor's reads, the explicit drain — is `visit`'s error. -/
theorem visitEntry_errOnFireH (ext : Ext) (c : Consume) : ErrOnFireH (visitEntry ext c) := by
  unfold visitEntry
  refine ErrOnFireH.bind (visitFile_uniform ext c) (visitFile_errOnFireH ext c) ?_
  intro r
  cases r with
  | none => exact (ErrOnFire.pure _).toH
  | some x =>
    obtain ⟨f, bytes, rem⟩ := x
    dsimp only
    exact ErrOnFireH.bind (Uniform.retried (drainE_uniform rem)) (ErrOnFireH.retried (drainE_errOnFireH rem))
      fun _ => (ErrOnFire.pure _).toH

theorem visitEntries_uniform (ext : Ext) (pattern : List Consume) :
    ∀ fuel i : Nat, Uniform (visitEntries ext pattern fuel i)
  | 0, _ => by unfold visitEntries; fault
  | fuel + 1, i => by
    have ih := visitEntries_uniform ext pattern fuel
    unfold visitEntries
    repeat (first | exact ih _ | fault_step)
macro_rules | `(tactic| fault_step) => `(tactic| with_reducible exact visitEntries_uniform _ _ _ _)

theorem visitEntries_errOnFireH (ext : Ext) (pattern : List Consume) :
    ∀ fuel i : Nat, ErrOnFireH (visitEntries ext pattern fuel i)
  | 0, _ => by unfold visitEntries; exact (ErrOnFire.pure _).toH
  | fuel + 1, i => by
    have ih := visitEntries_errOnFireH ext pattern fuel
    unfold visitEntries
    refine ErrOnFireH.bind (visitEntry_uniform _ _) (visitEntry_errOnFireH _ _) ?_
    intro e
    cases e with
    | none => exact (ErrOnFire.pure _).toH
    | some x =>
      dsimp only
      exact ErrOnFireH.bind (visitEntries_uniform ext pattern fuel (i + 1)) (ih (i + 1))
        fun _ => (ErrOnFire.pure _).toH

theorem visitCentral_uniform (len : Nat) : Uniform (visitCentral len) := by unfold visitCentral; fault
macro_rules | `(tactic| fault_step) => `(tactic| with_reducible exact visitCentral_uniform _)

theorem visitCentral_errOnFireH (len : Nat) : ErrOnFireH (visitCentral len) := by
  unfold visitCentral
  refine ErrOnFireH.bind (Uniform.retried (centralHeaderInner_tight 0 0).uni)
    (ErrOnFireH.retried (centralHeaderInner_tight 0 0).errOnFire.toH) ?_
  intro first
  exact ErrOnFireH.bind (Uniform.retried (streamCentralLoop_tight _).uni)
    (ErrOnFireH.retried (streamCentralLoop_tight _).errOnFire.toH) fun _ => (ErrOnFire.pure _).toH

theorem streamVisitC_uniform (ext : Ext) (pattern : List Consume) : Uniform (streamVisitC ext pattern) := by
  unfold streamVisitC; fault

theorem streamVisitC_errOnFireH (ext : Ext) (pattern : List Consume) : ErrOnFireH (streamVisitC ext pattern) := by
  unfold streamVisitC
  refine ErrOnFireH.bind Tight.getDev.uni Tight.getDev.errOnFire.toH ?_
  intro d0
  refine ErrOnFireH.bind (visitEntries_uniform _ _ _ _) (visitEntries_errOnFireH _ _ _ _) ?_
  intro files
  exact ErrOnFireH.bind (visitCentral_uniform _) (visitCentral_errOnFireH _) fun _ => (ErrOnFire.pure _).toH

/-! ### `streamEntryCI` -/

theorem streamEntryCI_uniform (ext : Ext) (c : Consume) : Uniform (streamEntryCI ext c) := by
  unfold streamEntryCI; fault

/-- On a device that fails with any kind other than `Interrupted`, `streamEntryCI` is `streamEntryC`. -/
theorem streamEntryCI_hard (ext : Ext) (c : Consume) (fa : Option Nat) (d : Dev) (hk : d.fkind ≠ .interrupted) :
    streamEntryCI ext c fa d = streamEntryC ext c fa d := by
  unfold streamEntryCI streamEntryC
  rw [M.bind_apply, M.bind_apply, M.retried_hard _ _ _ hk]
  have hk1 := streamHeader_tight.uni.kind fa d
  cases h : streamHeader fa d with
  | mk o d1 =>
    rw [h] at hk1
    cases o with
    | err e => rfl
    | panic s => rfl
    | ok hd =>
      cases hd with
      | none => rfl
      | some f =>
        dsimp only at hk1 ⊢
        simp only [M.bind_apply, M.getDev]
        have hk2 := (takeLoop_uniform c.chunk (min c.pulled f.compressedSize.toNat)
          (min c.pulled f.compressedSize.toNat)).kind fa d1
        cases h2 : takeLoop c.chunk (min c.pulled f.compressedSize.toNat)
            (min c.pulled f.compressedSize.toNat) fa d1 with
        | mk o2 d2 =>
          rw [h2] at hk2
          cases o2 with
          | err e => rfl
          | panic s => rfl
          | ok ne =>
            obtain ⟨n, e⟩ := ne
            dsimp only at hk2 ⊢
            rw [M.retried_hard _ _ _ (by rw [hk2, hk1]; exact hk)]

end ZipVerif.Model
