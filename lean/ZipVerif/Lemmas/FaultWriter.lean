import ZipVerif.Lemmas.FaultCore
/-
Fault transparency (`Uniform`) and error propagation (`EP`) for every writer function of
`Model/Writer.lean`: each is `StepOK`, i.e. for every fault index the faulted run is equal to the
fault-free run unless the fault fires inside the call, and when it fires inside the call the call
does not return `Ok`.  `dropWriter` (Rust's `Drop`, which cannot return an error) is only `Uniform`.
-/

namespace ZipVerif.Model
open ZipVerif

section
variable {β : Type}

theorem StepOK.emit {s : WState} {enc : Option EncState} {bs : Bytes}
    {k : Option EncState → M (Except ZErr β × WState)} (hk : ∀ e, StepOK (k e)) :
    StepOK (Model.emit s enc bs k) := by
  unfold Model.emit
  cases enc with
  | some e => exact hk _
  | none => exact StepOK.io (Tight.writeAll _) fun _ => hk _

theorem StepErr.emit {s : WState} {enc : Option EncState} {bs : Bytes}
    {k : Option EncState → M (Except ZErr β × WState)} (hk : ∀ e, StepErr (k e)) :
    StepErr (Model.emit s enc bs k) := by
  unfold Model.emit
  cases enc with
  | some e => exact hk _
  | none => exact StepErr.io (Tight.writeAll _) fun _ => hk _

/-- the error path of `emitFinish`: the destructor's retry (result ignored), then the error -/
theorem errPath_never {s : WState} (m : Method) (bs : Bytes) (e : ZErr) :
    NeverOk ((if m == .deflated || m == .bzip2 then do
        let _ ← M.attempt (M.writeAll bs)
        pure (.error e, s)
      else pure (.error e, s)) : M (Except ZErr β × WState)) := by
  intro fa d v s' d' he
  split at he
  · rw [M.bind_apply, M.attempt_apply] at he
    cases h : M.writeAll bs fa d with
    | mk o d1 =>
      rw [h] at he
      cases o <;> cases he
  · cases he

theorem errPath_uni {s : WState} (m : Method) (bs : Bytes) (e : ZErr) :
    Uniform ((if m == .deflated || m == .bzip2 then do
        let _ ← M.attempt (M.writeAll bs)
        pure (.error e, s)
      else pure (.error e, s)) : M (Except ZErr β × WState)) := by
  split
  · exact Uniform.bind (Uniform.attempt (Tight.writeAll _).uni) fun _ => Uniform.pure _
  · exact Uniform.pure _

theorem StepOK.emitFinish {s : WState} {m : Method} {enc : Option EncState} {bs : Bytes}
    {k : Option EncState → M (Except ZErr β × WState)} (hk : ∀ e, StepOK (k e)) :
    StepOK (Model.emitFinish s m enc bs k) := by
  unfold Model.emitFinish
  cases enc with
  | some e => exact hk _
  | none =>
    dsimp only
    have hm := Tight.writeAll bs
    refine ⟨Uniform.bind (Uniform.attempt hm.uni) ?_, ?_⟩
    · intro r
      cases r with
      | ok a => exact (hk none).uni
      | error e => exact errPath_uni m bs e
    · intro kk d v s' d'' he
      rw [M.bind_apply, M.attempt_apply] at he
      have c1 := hm.clean kk d
      cases h : M.writeAll bs (some kk) d with
      | mk o d' =>
        rw [h] at he c1
        cases o with
        | ok a =>
          dsimp only at he c1
          have n2 := (hk none).ep kk d' v s' d'' he
          intro hf
          rcases hf.split (d' := d') with h | h
          · have := c1 h; cases this
          · exact n2 h
        | err e => exact absurd he (errPath_never m bs e _ _ _ _ _)
        | panic p => cases he

theorem StepErr.emitFinish {s : WState} {m : Method} {enc : Option EncState} {bs : Bytes}
    {k : Option EncState → M (Except ZErr β × WState)} (hk : ∀ e, StepErr (k e)) :
    StepErr (Model.emitFinish s m enc bs k) := by
  refine ⟨(StepOK.emitFinish (s := s) (m := m) (enc := enc) (bs := bs) fun e => (hk e).toOK).uni, ?_⟩
  unfold Model.emitFinish
  cases enc with
  | some e => exact (hk _).never
  | none =>
    dsimp only
    intro fa d v s' d'' he
    rw [M.bind_apply, M.attempt_apply] at he
    cases h : M.writeAll bs fa d with
    | mk o d' =>
      rw [h] at he
      cases o with
      | ok a => exact (hk none).never _ _ _ _ _ he
      | err e => exact absurd he (errPath_never m bs e _ _ _ _ _)
      | panic p => cases he

theorem StepOK.updateLocalHeader {s : WState} {file : FileData}
    {k : Unit → M (Except ZErr β × WState)} (hk : ∀ u, StepOK (k u)) :
    StepOK (Model.updateLocalHeader s file k) := by
  have := hk ()
  unfold Model.updateLocalHeader; fault

end

macro_rules | `(tactic| fault_step) => `(tactic| with_reducible apply StepOK.emit)
macro_rules | `(tactic| fault_step) => `(tactic| with_reducible apply StepOK.emitFinish)
macro_rules | `(tactic| fault_step) => `(tactic| with_reducible apply StepErr.emitFinish)
macro_rules | `(tactic| fault_step) => `(tactic| with_reducible apply StepOK.updateLocalHeader)

theorem switchTo_stepOK (ext : WExt) (c : Method) (l : Option Int) (s : WState) :
    StepOK (switchTo ext c l s) := by
  unfold switchTo; fault
macro_rules | `(tactic| fault_step) => `(tactic| with_reducible exact switchTo_stepOK _ _ _ _)

theorem endExtraData_stepOK (ext : WExt) (s : WState) : StepOK (endExtraData ext s) := by
  unfold endExtraData; fault
macro_rules | `(tactic| fault_step) => `(tactic| with_reducible exact endExtraData_stepOK _ _)

theorem finishFile_stepOK (ext : WExt) (s : WState) : StepOK (finishFile ext s) := by
  unfold finishFile; fault
macro_rules | `(tactic| fault_step) => `(tactic| with_reducible exact finishFile_stepOK _ _)

theorem startEntry_stepOK (ext : WExt) (name : Bytes) (o : FileOptions)
    (raw : Option (UInt32 × UInt64 × UInt64)) (s : WState) : StepOK (startEntry ext name o raw s) := by
  unfold startEntry; fault
macro_rules | `(tactic| fault_step) => `(tactic| with_reducible exact startEntry_stepOK _ _ _ _ _)

theorem startFile_stepOK (ext : WExt) (name : Bytes) (o : FileOptions) (s : WState) :
    StepOK (startFile ext name o s) := by
  unfold startFile; fault
macro_rules | `(tactic| fault_step) => `(tactic| with_reducible exact startFile_stepOK _ _ _ _)

theorem startFileWithExtraData_stepOK (ext : WExt) (name : Bytes) (o : FileOptions) (s : WState) :
    StepOK (startFileWithExtraData ext name o s) := by
  unfold startFileWithExtraData; fault
macro_rules | `(tactic| fault_step) => `(tactic| with_reducible exact startFileWithExtraData_stepOK _ _ _ _)

theorem writeData_stepOK (buf : Bytes) (s : WState) : StepOK (writeData buf s) := by
  unfold writeData; fault
macro_rules | `(tactic| fault_step) => `(tactic| with_reducible exact writeData_stepOK _ _)

theorem endLocalStartCentral_stepOK (ext : WExt) (s : WState) : StepOK (endLocalStartCentral ext s) := by
  unfold endLocalStartCentral; fault
macro_rules | `(tactic| fault_step) => `(tactic| with_reducible exact endLocalStartCentral_stepOK _ _)

theorem startFileAligned_stepOK (ext : WExt) (name : Bytes) (o : FileOptions) (align : UInt16)
    (s : WState) : StepOK (startFileAligned ext name o align s) := by
  unfold startFileAligned; fault
macro_rules | `(tactic| fault_step) => `(tactic| with_reducible exact startFileAligned_stepOK _ _ _ _ _)

theorem addDirectory_stepOK (ext : WExt) (name : Bytes) (o : FileOptions) (s : WState) :
    StepOK (addDirectory ext name o s) := by
  unfold addDirectory; fault
macro_rules | `(tactic| fault_step) => `(tactic| with_reducible exact addDirectory_stepOK _ _ _ _)

theorem addSymlink_stepOK (ext : WExt) (name target : Bytes) (o : FileOptions) (s : WState) :
    StepOK (addSymlink ext name target o s) := by
  unfold addSymlink; fault
macro_rules | `(tactic| fault_step) => `(tactic| with_reducible exact addSymlink_stepOK _ _ _ _ _)

theorem rawCopy_stepOK (ext : WExt) (src : FileData) (raw name : Bytes) (s : WState) :
    StepOK (rawCopy ext src raw name s) := by
  unfold rawCopy; fault
macro_rules | `(tactic| fault_step) => `(tactic| with_reducible exact rawCopy_stepOK _ _ _ _ _)

theorem writeAllCentral_stepOK (s : WState) (fs : List FileData) :
    StepOK (finalize.writeAllCentral s fs) := by
  induction fs with
  | nil => unfold finalize.writeAllCentral; fault
  | cons f rest ih => unfold finalize.writeAllCentral; fault
macro_rules | `(tactic| fault_step) => `(tactic| with_reducible exact writeAllCentral_stepOK _ _)

theorem finalize_stepOK (ext : WExt) (s : WState) : StepOK (finalize ext s) := by
  unfold finalize; fault
macro_rules | `(tactic| fault_step) => `(tactic| with_reducible exact finalize_stepOK _ _)

theorem finish_stepOK (ext : WExt) (s : WState) : StepOK (finish ext s) := by
  unfold finish; fault
macro_rules | `(tactic| fault_step) => `(tactic| with_reducible exact finish_stepOK _ _)

/-- The destructor of a still-alive encoder: one write whose failure is ignored. -/
theorem dropInner_uniform (ext : WExt) (s : WState) : Uniform (dropInner ext s) := by
  unfold dropInner; fault

/-- `Drop` discards `finalize`'s result and the result of the encoder's final write: transparent to
unreached faults, but it swallows errors. -/
theorem dropWriter_uniform (ext : WExt) (s : WState) : Uniform (dropWriter ext s) := by
  unfold dropWriter
  split
  · exact Uniform.pure _
  · exact Uniform.bind (finalize_stepOK ext s).uni fun _ => dropInner_uniform ext _

end ZipVerif.Model
