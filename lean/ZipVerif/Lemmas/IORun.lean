import ZipVerif.Model.Reader
/-
Fault-free run lemmas for the read-side I/O primitives and record parsers.

`Runs m B p o p'`: on EVERY device whose buffer is `B` and whose position is `p` (whatever its call
counter), the fault-free run of `m` has outcome `o`, leaves the buffer unchanged and the position at
`p'`.  The call counter is existentially hidden: it never influences a fault-free run.

`Parses m p x o`: sequential form for seek-free parsers — whenever the bytes at position `p` start with
`x`, `m` consumes exactly `x` and has outcome `o`.
-/

namespace ZipVerif.Model
open ZipVerif

/-! ### `runPure` through the monad structure -/

namespace M

@[simp] theorem runPure_pure {α} (a : α) (d : Dev) : (pure a : M α).runPure d = (.ok a, d) := rfl

theorem runPure_bind {α β} (m : M α) (f : α → M β) (d : Dev) :
    (m >>= f).runPure d =
      match m.runPure d with
      | (.ok a, d') => (f a).runPure d'
      | (.err e, d') => (.err e, d')
      | (.panic s, d') => (.panic s, d') := rfl

@[simp] theorem runPure_throw {α} (e : ZErr) (d : Dev) : (throw e : M α).runPure d = (.err e, d) := rfl

theorem runPure_attempt {α} (m : M α) (d : Dev) :
    (attempt m).runPure d =
      match m.runPure d with
      | (.ok a, d') => (.ok (.ok a), d')
      | (.err e, d') => (.ok (.error e), d')
      | (.panic s, d') => (.panic s, d') := rfl

theorem runPure_prim {α} (f : Dev → Out α × Dev) (d : Dev) :
    (prim f).runPure d = f { d with calls := d.calls + 1 } := by
  simp [runPure, prim]

end M

/-! ### `Runs` -/

def Runs {α} (m : M α) (B : Bytes) (p : Nat) (o : Out α) (p' : Nat) : Prop :=
  ∀ d : Dev, d.buf = B → d.pos = p → ∃ d', m.runPure d = (o, d') ∧ d'.buf = B ∧ d'.pos = p'

namespace Runs
variable {α β : Type} {B : Bytes} {p p' p'' : Nat}

theorem pure (a : α) : Runs (Pure.pure a : M α) B p (.ok a) p :=
  fun d hb hp => ⟨d, rfl, hb, hp⟩

theorem throw (e : ZErr) : Runs (M.throw e : M α) B p (.err e) p :=
  fun d hb hp => ⟨d, rfl, hb, hp⟩

theorem bind {m : M α} {f : α → M β} {a : α} {o : Out β}
    (h1 : Runs m B p (.ok a) p') (h2 : Runs (f a) B p' o p'') : Runs (m >>= f) B p o p'' := by
  intro d hb hp
  obtain ⟨d1, e1, hb1, hp1⟩ := h1 d hb hp
  obtain ⟨d2, e2, hb2, hp2⟩ := h2 d1 hb1 hp1
  exact ⟨d2, by rw [M.runPure_bind, e1]; exact e2, hb2, hp2⟩

theorem bind_err {m : M α} {f : α → M β} {e : ZErr}
    (h1 : Runs m B p (.err e) p') : Runs (m >>= f) B p (.err e) p' := by
  intro d hb hp
  obtain ⟨d1, e1, hb1, hp1⟩ := h1 d hb hp
  exact ⟨d1, by rw [M.runPure_bind, e1], hb1, hp1⟩

theorem attempt_ok {m : M α} {a : α} (h : Runs m B p (.ok a) p') :
    Runs (M.attempt m) B p (.ok (.ok a)) p' := by
  intro d hb hp
  obtain ⟨d1, e1, hb1, hp1⟩ := h d hb hp
  exact ⟨d1, by rw [M.runPure_attempt, e1], hb1, hp1⟩

theorem attempt_err {m : M α} {e : ZErr} (h : Runs m B p (.err e) p') :
    Runs (M.attempt m) B p (.ok (.error e)) p' := by
  intro d hb hp
  obtain ⟨d1, e1, hb1, hp1⟩ := h d hb hp
  exact ⟨d1, by rw [M.runPure_attempt, e1], hb1, hp1⟩

/-- change the stated final position / outcome along equalities -/
theorem cast {m : M α} {o o' : Out α} {q q' : Nat} (h : Runs m B p o q) (ho : o = o') (hq : q = q') :
    Runs m B p o' q' := by subst ho; subst hq; exact h

theorem seek_start (n : Nat) : Runs (M.seek (.start n)) B p (.ok n) n := by
  intro d hb hp
  refine ⟨{ d with calls := d.calls + 1, pos := n }, ?_, hb, rfl⟩
  rw [M.seek, M.runPure_prim]
  simp

theorem seek_end {off : Int} (h : 0 ≤ (B.length : Int) + off) :
    Runs (M.seek (.endOff off)) B p (.ok ((B.length : Int) + off).toNat) ((B.length : Int) + off).toNat := by
  intro d hb hp
  refine ⟨{ d with calls := d.calls + 1, pos := ((B.length : Int) + off).toNat }, ?_, hb, rfl⟩
  rw [M.seek, M.runPure_prim]
  simp only [hb]
  rw [if_neg (by omega)]

theorem seek_end_neg {off : Int} (h : (B.length : Int) + off < 0) :
    Runs (M.seek (.endOff off)) B p (.err (.io .invalidInput)) p := by
  intro d hb hp
  refine ⟨{ d with calls := d.calls + 1 }, ?_, hb, hp⟩
  rw [M.seek, M.runPure_prim]
  simp only [hb]
  rw [if_pos h]

theorem seek_cur (k : Nat) : Runs (M.seek (.current (k : Int))) B p (.ok (p + k)) (p + k) := by
  intro d hb hp
  refine ⟨{ d with calls := d.calls + 1, pos := p + k }, ?_, hb, rfl⟩
  rw [M.seek, M.runPure_prim]
  simp only [hp]
  have e : ((p : Int) + (k : Int)).toNat = p + k := by omega
  rw [if_neg (by omega), e]

theorem streamPosition : Runs M.streamPosition B p (.ok p) p := by
  have := seek_cur (B := B) (p := p) 0
  simpa [M.streamPosition] using this

theorem read (n : Nat) :
    Runs (M.read n) B p (.ok ((B.drop p).take n)) (p + ((B.drop p).take n).length) := by
  intro d hb hp
  refine ⟨{ d with calls := d.calls + 1, pos := p + ((B.drop p).take n).length }, ?_, hb, rfl⟩
  rw [M.read, M.runPure_prim]
  simp only [hb, hp]

theorem readExact {x rest : Bytes} (h : B.drop p = x ++ rest) :
    Runs (M.readExact x.length) B p (.ok x) (p + x.length) := by
  unfold M.readExact
  by_cases h0 : x.length = 0
  · rw [if_pos h0]
    have : x = [] := List.eq_nil_of_length_eq_zero h0
    subst this
    exact pure _
  · rw [if_neg h0]
    have ht : (B.drop p).take x.length = x := by rw [h]; simp
    refine bind (a := x) ((read x.length).cast (by rw [ht]) (by rw [ht])) ?_
    rw [if_pos rfl]
    exact pure _

theorem readExact' {x rest : Bytes} {n : Nat} (h : B.drop p = x ++ rest) (hn : x.length = n) :
    Runs (M.readExact n) B p (.ok x) (p + n) := by
  subst hn; exact readExact h

theorem readU16 {v : UInt16} {rest : Bytes} (h : B.drop p = le16 v ++ rest) :
    Runs M.readU16 B p (.ok v) (p + 2) := by
  unfold M.readU16
  refine bind (readExact' h rfl) ?_
  show Runs (Pure.pure (mk16 _ _)) B (p + 2) (.ok v) (p + 2)
  rw [mk16_le16]; exact pure _

theorem readU32 {v : UInt32} {rest : Bytes} (h : B.drop p = le32 v ++ rest) :
    Runs M.readU32 B p (.ok v) (p + 4) := by
  unfold M.readU32
  refine bind (readExact' h rfl) ?_
  show Runs (Pure.pure (mk32 _ _ _ _)) B (p + 4) (.ok v) (p + 4)
  rw [mk32_le32]; exact pure _

theorem readU64 {v : UInt64} {rest : Bytes} (h : B.drop p = le64 v ++ rest) :
    Runs M.readU64 B p (.ok v) (p + 8) := by
  unfold M.readU64
  refine bind (readExact' h rfl) ?_
  show Runs (Pure.pure (mk64 _ _ _ _ _ _ _ _)) B (p + 8) (.ok v) (p + 8)
  rw [mk64_le64]; exact pure _

end Runs

/-- `B.drop p = x ++ rest` moves past `x`. -/
theorem drop_past {B x rest : Bytes} {p : Nat} (h : B.drop p = x ++ rest) :
    B.drop (p + x.length) = rest := by
  rw [← List.drop_drop, h]; simp


/-! ### `Parses`: seek-free parsers consuming a known prefix -/

def Parses {α} (m : M α) (p : Nat) (x : Bytes) (a : α) : Prop :=
  ∀ B rest, B.drop p = x ++ rest → Runs m B p (.ok a) (p + x.length)

namespace Parses
variable {α β : Type} {p : Nat}

theorem toRuns {m : M α} {x rest B : Bytes} {a : α} (h : Parses m p x a) (hb : B.drop p = x ++ rest) :
    Runs m B p (.ok a) (p + x.length) := h B rest hb

theorem pure (a : α) : Parses (Pure.pure a : M α) p [] a :=
  fun _ _ _ => Runs.pure a

theorem bind {m : M α} {f : α → M β} {x y : Bytes} {a : α} {b : β}
    (h1 : Parses m p x a) (h2 : Parses (f a) (p + x.length) y b) : Parses (m >>= f) p (x ++ y) b := by
  intro B rest hb
  rw [List.append_assoc] at hb
  have h3 := h2 B rest (drop_past hb)
  exact (Runs.bind (h1 B _ hb) h3).cast rfl (by simp [Nat.add_assoc])

theorem bind_nil {m : M α} {f : α → M β} {y : Bytes} {a : α} {b : β}
    (h1 : Parses m p [] a) (h2 : Parses (f a) p y b) : Parses (m >>= f) p y b := by
  have := bind h1 (y := y) (by simpa using h2)
  simpa using this

theorem bind_last {m : M α} {f : α → M β} {x : Bytes} {a : α} {b : β}
    (h1 : Parses m p x a) (h2 : Parses (f a) (p + x.length) [] b) : Parses (m >>= f) p x b := by
  have := bind h1 h2
  simpa using this

theorem readU16 (v : UInt16) : Parses M.readU16 p (le16 v) v := fun _ _ hb => Runs.readU16 hb
theorem readU32 (v : UInt32) : Parses M.readU32 p (le32 v) v := fun _ _ hb => Runs.readU32 hb
theorem readU64 (v : UInt64) : Parses M.readU64 p (le64 v) v := fun _ _ hb => Runs.readU64 hb

theorem readExact {x : Bytes} {n : Nat} (h : x.length = n) : Parses (M.readExact n) p x x := by
  subst h; exact fun _ _ hb => Runs.readExact hb

theorem streamPosition : Parses M.streamPosition p [] p := fun _ _ _ => by
  simpa using Runs.streamPosition

theorem cast {m : M α} {x x' : Bytes} {a a' : α} (h : Parses m p x a) (hx : x = x') (ha : a = a') :
    Parses m p x' a' := by subst hx; subst ha; exact h

end Parses

/-! ### Record parsers on serialised records -/

theorem ofNat_length_toNat {c : Bytes} (hc : c.length ≤ 65535) : (UInt16.ofNat c.length).toNat = c.length := by
  rw [UInt16.toNat_ofNat']; omega

/-- `CentralDirectoryEnd::parse` on the 22 fixed bytes + comment. -/
theorem parses_eocd {p : Nat} (dn dw fd f : UInt16) (sz off : UInt32) (c : Bytes)
    (hc : c.length ≤ 65535) :
    Parses parseEocd p
      (le32 EOCD_SIG ++ (le16 dn ++ (le16 dw ++ (le16 fd ++ (le16 f ++ (le32 sz ++ (le32 off ++
        (le16 (UInt16.ofNat c.length) ++ c))))))))
      { diskNumber := dn, diskWithCd := dw, filesOnDisk := fd, files := f, cdSize := sz,
        cdOffset := off, comment := c } := by
  unfold parseEocd
  refine Parses.bind (Parses.readU32 _) ?_
  rw [if_neg (by decide)]
  refine Parses.bind (Parses.readU16 _) ?_
  refine Parses.bind (Parses.readU16 _) ?_
  refine Parses.bind (Parses.readU16 _) ?_
  refine Parses.bind (Parses.readU16 _) ?_
  refine Parses.bind (Parses.readU32 _) ?_
  refine Parses.bind (Parses.readU32 _) ?_
  refine Parses.bind (Parses.readU16 _) ?_
  refine Parses.bind_last (Parses.readExact (ofNat_length_toNat hc).symm) ?_
  exact Parses.pure _

end ZipVerif.Model
