import ZipVerif.Model.Layers
/-
Lemmas about sources, denotations and layers (C04, C09).
-/

namespace ZipVerif.Model.Layers
open ZipVerif ZipVerif.Spec

variable {σ : Type}

/-! ### Unfolding `Conforms` -/

theorem conforms_ok {src : Src σ} {o : Term} {s s' : σ} {rest bs : Bytes} {n : Nat} {ns : List Nat}
    (e : src.rd s n = (.ok bs, s')) :
    Conforms src o s rest (n :: ns) ↔
      (bs.length ≤ n ∧ bs <+: rest ∧ (0 < n → bs = [] → rest = [] ∧ o = .eof) ∧
        Conforms src o s' (rest.drop bs.length) ns) := by
  simp only [Conforms, e]

theorem conforms_err {src : Src σ} {o : Term} {s s' : σ} {rest : Bytes} {n : Nat} {ns : List Nat}
    {e' : IoKind} (e : src.rd s n = (.err e', s')) :
    Conforms src o s rest (n :: ns) ↔ (rest = [] ∧ o = .err e') := by
  simp only [Conforms, e]

theorem conforms_panic {src : Src σ} {o : Term} {s s' : σ} {rest : Bytes} {n : Nat} {ns : List Nat}
    (e : src.rd s n = (.panic, s')) :
    Conforms src o s rest (n :: ns) ↔ False := by
  simp only [Conforms, e]

/-- One-step unfolding of a denotation. -/
theorem Denotes.step {src : Src σ} {s : σ} {rest : Bytes} {o : Term} (h : Denotes src s rest o)
    (n : Nat) : StepOK src o (fun s' r' => Denotes src s' r' o) s rest n := by
  refine ⟨?_, ?_, ?_⟩
  · intro bs s' e
    obtain ⟨hl, ⟨r', hr'⟩, hz, _⟩ := (conforms_ok e).mp (h [n])
    refine ⟨hl, hz, r', hr'.symm, ?_⟩
    intro ns
    have h2 := ((conforms_ok e).mp (h (n :: ns))).2.2.2
    rw [← hr', List.drop_left] at h2
    exact h2
  · intro e' s' e
    exact (conforms_err e).mp (h [n])
  · intro s' e
    exact (conforms_panic e).mp (h [n])

/-- Coinduction principle: any step-closed invariant gives a denotation. -/
theorem Denotes.of_invariant {src : Src σ} {o : Term} (P : σ → Bytes → Prop)
    (hstep : ∀ s rest n, P s rest → StepOK src o P s rest n)
    {s : σ} {B : Bytes} (h0 : P s B) : Denotes src s B o := by
  intro reqs
  induction reqs generalizing s B with
  | nil => trivial
  | cons n ns ih =>
    obtain ⟨hok, herr, hpanic⟩ := hstep s B n h0
    match e : src.rd s n with
    | (.ok bs, s') =>
      obtain ⟨hl, hz, r', hr', hP⟩ := hok bs s' e
      rw [conforms_ok e]
      refine ⟨hl, ⟨r', hr'.symm⟩, hz, ?_⟩
      rw [hr', List.drop_left]
      exact ih hP
    | (.err e', s') =>
      rw [conforms_err e]
      exact herr e' s' e
    | (.panic, s') => exact absurd e (hpanic s')


theorem stepOK_of_ok {src : Src σ} {o : Term} {P : σ → Bytes → Prop} {s s' : σ} {rest bs : Bytes}
    {n : Nat} (e : src.rd s n = (.ok bs, s')) (h1 : bs.length ≤ n)
    (h2 : 0 < n → bs = [] → rest = [] ∧ o = .eof) (h3 : ∃ rest', rest = bs ++ rest' ∧ P s' rest') :
    StepOK src o P s rest n := by
  refine ⟨?_, ?_, ?_⟩
  · intro bs2 s2 e2
    rw [e] at e2
    cases e2
    exact ⟨h1, h2, h3⟩
  · intro e' s2 e2
    rw [e] at e2
    cases e2
  · intro s2 e2
    rw [e] at e2
    cases e2

theorem stepOK_of_err {src : Src σ} {o : Term} {P : σ → Bytes → Prop} {s s' : σ} {rest : Bytes}
    {n : Nat} {e' : IoKind} (e : src.rd s n = (.err e', s')) (h : rest = [] ∧ o = .err e') :
    StepOK src o P s rest n := by
  refine ⟨?_, ?_, ?_⟩
  · intro bs2 s2 e2
    rw [e] at e2
    cases e2
  · intro e2' s2 e2
    rw [e] at e2
    cases e2
    exact h
  · intro s2 e2
    rw [e] at e2
    cases e2

/-! ### `Take` -/

theorem take_denotes (inner : Src σ) {s : σ} {B : Bytes} {o : Term} (lim : Nat)
    (h : Denotes inner s B o) :
    Denotes (take inner) (s, lim) (takeBytes lim B) (takeTerm lim B o) := by
  apply Denotes.of_invariant
    (fun st rest => ∃ r, Denotes inner st.1 r o ∧ rest = r.take st.2 ∧
      (st.2 ≤ r.length ↔ lim ≤ B.length))
  · rintro ⟨si, l⟩ rest n ⟨r, hd, hrest, hiff⟩
    simp only at hd hrest hiff
    by_cases hl : l = 0
    · subst hl
      have e : (take inner).rd (si, 0) n = (.ok [], (si, 0)) := by simp [take]
      refine stepOK_of_ok e (Nat.zero_le _) ?_ ⟨rest, rfl, r, hd, hrest, hiff⟩
      intro _ _
      refine ⟨by rw [hrest]; rfl, ?_⟩
      have : lim ≤ B.length := hiff.mp (Nat.zero_le _)
      simp [takeTerm, this]
    · obtain ⟨hok, herr, hpanic⟩ := hd.step (min n l)
      match e : inner.rd si (min n l) with
      | (.ok bs, s') =>
        obtain ⟨hlen, hz, r', hr', hd'⟩ := hok bs s' e
        have hbl : bs.length ≤ l := by omega
        have e2 : (take inner).rd (si, l) n = (.ok bs, (s', l - bs.length)) := by
          simp [take, hl, e, hbl]
        refine stepOK_of_ok e2 (by omega) ?_ ⟨r'.take (l - bs.length), ?_, r', hd', rfl, ?_⟩
        · intro hn hb
          have hm : 0 < min n l := by omega
          obtain ⟨hr0, ho⟩ := hz hm hb
          refine ⟨by rw [hrest, hr0]; exact List.take_nil, ?_⟩
          simp [takeTerm, ho]
        · rw [hrest, hr', List.take_append]
          congr 1
          exact List.take_of_length_le hbl
        · simp only
          rw [← hiff, hr', List.length_append]
          omega
      | (.err e', s') =>
        obtain ⟨hr0, ho⟩ := herr e' s' e
        have e2 : (take inner).rd (si, l) n = (.err e', (s', l)) := by
          simp [take, hl, e]
        refine stepOK_of_err e2 ⟨by rw [hrest, hr0]; exact List.take_nil, ?_⟩
        have : ¬ lim ≤ B.length := by
          rw [← hiff, hr0]; simp; omega
        simp [takeTerm, this, ho]
      | (.panic, s') => exact absurd e (hpanic s')
  · exact ⟨B, h, rfl, Iff.rfl⟩


/-! ### CRC layer -/

theorem crcLayer_rd_zero {inner : Src σ} {check : UInt32} {ae2 : Bool} (st : σ × UInt32) :
    (crcLayer inner check ae2).rd st 0 = (.ok [], st) := by
  simp [crcLayer]

/-- Value of `Crc32Reader::read` when the inner read returned `bs` (non-empty buffer). -/
theorem crcLayer_rd_ok {inner : Src σ} {check : UInt32} {ae2 : Bool} {si s' : σ} {reg : UInt32}
    {n : Nat} {bs : Bytes} (hn : n ≠ 0) (e : inner.rd si n = (.ok bs, s')) :
    (crcLayer inner check ae2).rd (si, reg) n =
      if bs = [] ∧ check ≠ Crc32.finalize reg ∧ ae2 = false then (.err .other, (s', reg))
      else if bs.length ≤ n then (.ok bs, (s', Crc32.updateBytes reg bs))
      else (.panic, (s', reg)) := by
  simp only [crcLayer, e, if_neg hn]
  cases bs <;> cases ae2 <;> by_cases h2 : check = Crc32.finalize reg <;> simp [h2]

theorem crcLayer_rd_err {inner : Src σ} {check : UInt32} {ae2 : Bool} {si s' : σ} {reg : UInt32}
    {n : Nat} {e' : IoKind} (hn : n ≠ 0) (e : inner.rd si n = (.err e', s')) :
    (crcLayer inner check ae2).rd (si, reg) n = (.err e', (s', reg)) := by
  simp only [crcLayer, e, if_neg hn]

theorem crcLayer_rd_panic {inner : Src σ} {check : UInt32} {ae2 : Bool} {si s' : σ} {reg : UInt32}
    {n : Nat} (hn : n ≠ 0) (e : inner.rd si n = (.panic, s')) :
    (crcLayer inner check ae2).rd (si, reg) n = (.panic, (s', reg)) := by
  simp only [crcLayer, e, if_neg hn]

/-- A reader that answers zero-length requests itself. -/
theorem guardZero_rd_pos (src : Src σ) (s : σ) {n : Nat} (hn : n ≠ 0) :
    (guardZero src).rd s n = src.rd s n := by
  simp [guardZero, hn]

/-- The CRC layer needs its inner reader to be well behaved on NON-EMPTY requests only. -/
theorem crc_denotes_nz (inner : Src σ) (check : UInt32) (ae2 : Bool) {s : σ} {B : Bytes} {o : Term}
    (h : Denotes (guardZero inner) s B o) :
    Denotes (crcLayer inner check ae2) (s, Crc32.init) B (crcTerm check ae2 B o) := by
  apply Denotes.of_invariant
    (fun st rest => ∃ done, Denotes (guardZero inner) st.1 rest o ∧ done ++ rest = B ∧
      st.2 = Crc32.updateBytes Crc32.init done)
  · rintro ⟨si, reg⟩ rest n ⟨done, hd, hB, hreg⟩
    simp only at hd hreg
    by_cases hn0 : n = 0
    · subst hn0
      exact stepOK_of_ok (crcLayer_rd_zero _) (Nat.le_refl _) (by omega) ⟨rest, rfl, done, hd, hB, hreg⟩
    obtain ⟨hok, herr, hpanic⟩ := hd.step n
    rw [guardZero_rd_pos inner si hn0] at hok herr hpanic
    match e : inner.rd si n with
    | (.ok bs, s') =>
      obtain ⟨hlen, hz, r', hr', hd'⟩ := hok bs s' e
      have hv := crcLayer_rd_ok (check := check) (ae2 := ae2) (reg := reg) hn0 e
      by_cases hc : bs = [] ∧ check ≠ Crc32.finalize reg ∧ ae2 = false
      · rw [if_pos hc] at hv
        obtain ⟨hb, hne, hae⟩ := hc
        obtain ⟨hr0, ho⟩ := hz (Nat.pos_of_ne_zero hn0) hb
        refine stepOK_of_err hv ⟨hr0, ?_⟩
        have hdone : done = B := by rw [← hB, hr0, List.append_nil]
        have hcrc : Crc32.crc32 B ≠ check := by
          rw [Crc32.crc32_eq_finalize, ← hdone, ← hreg]
          exact fun h => hne h.symm
        simp [crcTerm, ho, hae, hcrc]
      · rw [if_neg hc, if_pos hlen] at hv
        refine stepOK_of_ok hv hlen ?_ ⟨r', hr', done ++ bs, hd', ?_, ?_⟩
        · intro hn hb
          obtain ⟨hr0, ho⟩ := hz hn hb
          refine ⟨hr0, ?_⟩
          have hdone : done = B := by rw [← hB, hr0, List.append_nil]
          have : ae2 = true ∨ Crc32.crc32 B = check := by
            rw [Crc32.crc32_eq_finalize, ← hdone, ← hreg]
            cases hae : ae2
            · right
              apply Classical.byContradiction
              intro hne
              exact hc ⟨hb, fun h => hne h.symm, hae⟩
            · left; rfl
          simp only [crcTerm, ho]
          rw [if_pos this]
        · rw [List.append_assoc, ← hr', hB]
        · simp only
          rw [Crc32.updateBytes_append, ← hreg]
    | (.err e', s') =>
      obtain ⟨hr0, ho⟩ := herr e' s' e
      refine stepOK_of_err (crcLayer_rd_err hn0 e) ⟨hr0, ?_⟩
      simp [crcTerm, ho]
    | (.panic, s') => exact absurd e (hpanic s')
  · exact ⟨[], h, rfl, rfl⟩

/-! ### Per-byte stateful transforms (ZipCrypto, AES-CTR style) -/

variable {κ : Type}

@[simp] theorem mapBytes_nil (f : κ → UInt8 → UInt8 × κ) (k : κ) : mapBytes f k [] = [] := rfl
@[simp] theorem mapKey_nil (f : κ → UInt8 → UInt8 × κ) (k : κ) : mapKey f k [] = k := rfl

theorem mapKey_cons (f : κ → UInt8 → UInt8 × κ) (k : κ) (b : UInt8) (bs : Bytes) :
    mapKey f k (b :: bs) = mapKey f (f k b).2 bs := rfl

@[simp] theorem mapBytes_length (f : κ → UInt8 → UInt8 × κ) (k : κ) (bs : Bytes) :
    (mapBytes f k bs).length = bs.length := by
  induction bs generalizing k with
  | nil => rfl
  | cons b bs ih => simp [mapBytes, ih]

theorem mapBytes_eq_nil (f : κ → UInt8 → UInt8 × κ) (k : κ) (bs : Bytes) :
    mapBytes f k bs = [] ↔ bs = [] := by
  cases bs <;> simp [mapBytes]

/-- Chunk independence of the transform itself: processing `xs ++ ys` in one go equals processing
`xs`, carrying the state, then `ys`. -/
theorem mapBytes_append (f : κ → UInt8 → UInt8 × κ) (k : κ) (xs ys : Bytes) :
    mapBytes f k (xs ++ ys) = mapBytes f k xs ++ mapBytes f (mapKey f k xs) ys := by
  induction xs generalizing k with
  | nil => rfl
  | cons b bs ih => simp [mapBytes, mapKey_cons, ih]

theorem mapKey_append (f : κ → UInt8 → UInt8 × κ) (k : κ) (xs ys : Bytes) :
    mapKey f k (xs ++ ys) = mapKey f (mapKey f k xs) ys := by
  simp [mapKey, List.foldl_append]

theorem map_layer_denotes (f : κ → UInt8 → UInt8 × κ) (inner : Src σ) (k : κ) {s : σ} {B : Bytes}
    {o : Term} (h : Denotes inner s B o) :
    Denotes (statefulMapLayer f inner) (s, k) (mapBytes f k B) o := by
  apply Denotes.of_invariant
    (fun st rest => ∃ r, Denotes inner st.1 r o ∧ rest = mapBytes f st.2 r)
  · rintro ⟨si, ki⟩ rest n ⟨r, hd, hrest⟩
    simp only at hd hrest
    obtain ⟨hok, herr, hpanic⟩ := hd.step n
    match e : inner.rd si n with
    | (.ok bs, s') =>
      obtain ⟨hlen, hz, r', hr', hd'⟩ := hok bs s' e
      have hv : (statefulMapLayer f inner).rd (si, ki) n =
          (.ok (mapBytes f ki bs), (s', mapKey f ki bs)) := by
        simp [statefulMapLayer, e, hlen]
      refine stepOK_of_ok hv (by simpa using hlen) ?_
        ⟨mapBytes f (mapKey f ki bs) r', ?_, r', hd', rfl⟩
      · intro hn hb
        obtain ⟨hr0, ho⟩ := hz hn ((mapBytes_eq_nil f ki bs).mp hb)
        exact ⟨by rw [hrest, hr0]; rfl, ho⟩
      · rw [hrest, hr', mapBytes_append]
    | (.err e', s') =>
      obtain ⟨hr0, ho⟩ := herr e' s' e
      have hv : (statefulMapLayer f inner).rd (si, ki) n = (.err e', (s', ki)) := by
        simp [statefulMapLayer, e]
      exact stepOK_of_err hv ⟨by rw [hrest, hr0]; rfl, ho⟩
    | (.panic, s') => exact absurd e (hpanic s')
  · exact ⟨B, h, rfl⟩

/-! ### The scripted source denotes its data -/

theorem chunk_bounds (nx : Option Nat) {n : Nat} (hn : 0 < n) : 1 ≤ chunk nx n ∧ chunk nx n ≤ n := by
  cases nx with
  | none => exact ⟨hn, Nat.le_refl _⟩
  | some k => simp only [chunk]; omega

theorem scripted_denotes (st : Scripted) : Denotes scripted st st.rest st.term := by
  apply Denotes.of_invariant (o := st.term)
    (fun s rest => rest = s.rest ∧ s.fail = st.fail)
  · rintro s rest n ⟨hrest, hfail⟩
    subst hrest
    by_cases hn : n = 0
    · have e : scripted.rd s n = (.ok [], s) := by simp [scripted, hn]
      exact stepOK_of_ok e (Nat.zero_le _) (by omega) ⟨s.rest, rfl, rfl, hfail⟩
    · by_cases hr : s.rest = []
      · cases hf : s.fail with
        | none =>
          have e : scripted.rd s n = (.ok [], s) := by simp [scripted, hn, hr, hf]
          refine stepOK_of_ok e (Nat.zero_le _) ?_ ⟨s.rest, rfl, rfl, hfail⟩
          intro _ _
          refine ⟨hr, ?_⟩
          simp [Scripted.term, ← hfail, hf]
        | some e' =>
          have e : scripted.rd s n = (.err e', s) := by simp [scripted, hn, hr, hf]
          refine stepOK_of_err e ⟨hr, ?_⟩
          simp [Scripted.term, ← hfail, hf]
      · generalize hm : chunk s.next.1 n = m
        have hm1 : 1 ≤ m ∧ m ≤ n := by
          subst hm
          exact chunk_bounds _ (by omega)
        have e : scripted.rd s n =
            (.ok (s.rest.take m), { s with rest := s.rest.drop m, cur := s.next.2 }) := by
          simp [scripted, hn, hr, hm]
        refine stepOK_of_ok e ?_ ?_ ⟨s.rest.drop m, (List.take_append_drop m s.rest).symm, rfl, hfail⟩
        · rw [List.length_take]; omega
        · intro _ hb
          exfalso
          cases hs : s.rest with
          | nil => exact hr hs
          | cons a t =>
            rw [hs] at hb
            obtain ⟨m', rfl⟩ : ∃ m', m = m' + 1 := ⟨m - 1, by omega⟩
            simp at hb
  · exact ⟨rfl, rfl⟩

/-! ### Observable consequences of a denotation -/

/-- After a clean EOF every further read returns 0 bytes, for every request size, forever. -/
theorem eof_sticky {src : Src σ} {s : σ} (h : Denotes src s [] .eof) (n : Nat) :
    ∃ s', src.rd s n = (.ok [], s') ∧ Denotes src s' [] .eof := by
  obtain ⟨hok, herr, hpanic⟩ := h.step n
  match e : src.rd s n with
  | (.ok bs, s') =>
    obtain ⟨_, _, r', hr', hd'⟩ := hok bs s' e
    have hb : bs = [] := (List.append_eq_nil_iff.mp hr'.symm).1
    have hr0 : r' = [] := (List.append_eq_nil_iff.mp hr'.symm).2
    subst hb hr0
    exact ⟨s', rfl, hd'⟩
  | (.err e', s') => exact absurd (herr e' s' e).2 (by intro h; cases h)
  | (.panic, s') => exact absurd e (hpanic s')

/-- EOF stays EOF along any list of further requests. -/
theorem eof_sticky_run {src : Src σ} {s : σ} (h : Denotes src s [] .eof) (reqs : List Nat) :
    ∀ r ∈ (run src s reqs).1, r = .ok [] := by
  induction reqs generalizing s with
  | nil => intro r hr; cases hr
  | cons n ns ih =>
    obtain ⟨s', e, hd'⟩ := eof_sticky h n
    intro r hr
    simp only [run, e, List.mem_cons] at hr
    rcases hr with rfl | hr
    · rfl
    · exact ih hd' r hr

/-- **Every schedule reads the same thing.** If a read-to-end loop with *any* list of buffer sizes
terminates, it has returned exactly `B` and ended the way the denotation says; after a clean EOF the
source is in an EOF-forever state. -/
theorem denotes_readToEnd {src : Src σ} {s : σ} {B : Bytes} {o : Term} (h : Denotes src s B o)
    {reqs : List Nat} {b : Bytes} {t : Term} {s' : σ}
    (hr : readToEnd src s reqs = some (b, t, s')) :
    b = B ∧ t = o ∧ (t = .eof → Denotes src s' [] .eof) := by
  induction reqs generalizing s B b t s' with
  | nil => cases hr
  | cons n ns ih =>
    obtain ⟨hok, herr, hpanic⟩ := h.step n
    match e : src.rd s n with
    | (.ok bs, s1) =>
      obtain ⟨_, hz, r', hr', hd'⟩ := hok bs s1 e
      simp only [readToEnd, e] at hr
      by_cases hc : 0 < n ∧ bs = []
      · rw [if_pos hc] at hr
        cases hr
        obtain ⟨hB, ho⟩ := hz hc.1 hc.2
        refine ⟨hB.symm, ho.symm, fun _ => ?_⟩
        have : r' = [] := by
          rw [hB, hc.2] at hr'
          exact (List.append_eq_nil_iff.mp hr'.symm).2
        rw [this, ho] at hd'
        exact hd'
      · rw [if_neg hc] at hr
        match e2 : readToEnd src s1 ns, hr with
        | some (b2, t2, s2), hr =>
          simp only [Option.map_some, Option.some.injEq, Prod.mk.injEq] at hr
          obtain ⟨hb, ht, hs⟩ := hr
          obtain ⟨h1, h2, h3⟩ := ih hd' e2
          subst hb ht hs
          exact ⟨by rw [hr', h1], h2, h3⟩
    | (.err e', s1) =>
      obtain ⟨hB, ho⟩ := herr e' s1 e
      simp only [readToEnd, e] at hr
      cases hr
      exact ⟨hB.symm, ho.symm, fun h => by cases h⟩
    | (.panic, s1) => exact absurd e (hpanic s1)

/-- Number of non-empty requests. -/
def nonzero (reqs : List Nat) : Nat := (reqs.filter (0 < ·)).length

/-- **Progress.** A read-to-end loop terminates as soon as the schedule contains more than
`B.length` non-empty requests (each of them delivers at least one byte or ends the stream). -/
theorem denotes_readToEnd_terminates {src : Src σ} {s : σ} {B : Bytes} {o : Term}
    (h : Denotes src s B o) {reqs : List Nat} (hn : B.length < nonzero reqs) :
    (readToEnd src s reqs).isSome = true := by
  induction reqs generalizing s B with
  | nil => simp [nonzero] at hn
  | cons n ns ih =>
    obtain ⟨hok, herr, hpanic⟩ := h.step n
    match e : src.rd s n with
    | (.ok bs, s1) =>
      obtain ⟨_, hz, r', hr', hd'⟩ := hok bs s1 e
      simp only [readToEnd, e]
      by_cases hc : 0 < n ∧ bs = []
      · rw [if_pos hc]; rfl
      · rw [if_neg hc]
        have : r'.length < nonzero ns := by
          have hl : B.length = bs.length + r'.length := by rw [hr', List.length_append]
          by_cases h0 : 0 < n
          · have hb : bs ≠ [] := fun hb => hc ⟨h0, hb⟩
            have : 0 < bs.length := List.length_pos_iff.mpr hb
            simp [nonzero, h0] at hn
            simp only [nonzero]
            omega
          · simp [nonzero, h0] at hn
            simp only [nonzero]
            omega
        have := ih hd' this
        simpa using this
    | (.err e', s1) => simp [readToEnd, e]
    | (.panic, s1) => exact absurd e (hpanic s1)


/-! ### `read_exact` -/

/-- The error `read_exact` reports when the stream ends early. -/
def exactErr : Term → IoKind
  | .eof => .unexpectedEof
  | .err e => e

theorem readExactAux_denotes {src : Src σ} {o : Term} (fuel : Nat) {s : σ} {B : Bytes}
    (h : Denotes src s B o) (n : Nat) (hf : n ≤ fuel) :
    (n ≤ B.length → ∃ s', readExactAux src fuel s n = (.ok (B.take n), s') ∧
        Denotes src s' (B.drop n) o) ∧
    (B.length < n → ∃ s', readExactAux src fuel s n = (.err (exactErr o), s')) := by
  induction fuel generalizing s B n with
  | zero =>
    have : n = 0 := by omega
    subst this
    exact ⟨fun _ => ⟨s, rfl, h⟩, fun hlt => by omega⟩
  | succ fuel ih =>
    cases n with
    | zero => exact ⟨fun _ => ⟨s, rfl, h⟩, fun hlt => by omega⟩
    | succ n =>
      obtain ⟨hok, herr, hpanic⟩ := h.step (n + 1)
      match e : src.rd s (n + 1) with
      | (.ok bs, s1) =>
        obtain ⟨hlen, hz, r', hr', hd'⟩ := hok bs s1 e
        by_cases hb : bs = []
        · obtain ⟨hB, ho⟩ := hz (by omega) hb
          have hv : readExactAux src (fuel + 1) s (n + 1) = (.err .unexpectedEof, s1) := by
            simp [readExactAux, e, hb]
          refine ⟨fun hle => by rw [hB] at hle; simp at hle, fun _ => ⟨s1, ?_⟩⟩
          rw [hv, ho]; rfl
        · have hpos : 0 < bs.length := List.length_pos_iff.mpr hb
          obtain ⟨ih1, ih2⟩ := ih hd' (n + 1 - bs.length) (by omega)
          have hBl : B.length = bs.length + r'.length := by rw [hr', List.length_append]
          constructor
          · intro hle
            obtain ⟨s2, hv2, hd2⟩ := ih1 (by omega)
            refine ⟨s2, ?_, ?_⟩
            · simp only [readExactAux, e, hb, if_false, hlen, if_true, hv2]
              rw [hr', List.take_append, List.take_of_length_le hlen]
            · have : B.drop (n + 1) = r'.drop (n + 1 - bs.length) := by
                rw [hr', List.drop_append, List.drop_eq_nil_of_le hlen, List.nil_append]
              rw [this]; exact hd2
          · intro hlt
            obtain ⟨s2, hv2⟩ := ih2 (by omega)
            refine ⟨s2, ?_⟩
            simp only [readExactAux, e, hb, if_false, hlen, if_true, hv2]
      | (.err e', s1) =>
        obtain ⟨hB, ho⟩ := herr e' s1 e
        refine ⟨fun hle => by rw [hB] at hle; simp at hle, fun _ => ⟨s1, ?_⟩⟩
        simp [readExactAux, e, ho, exactErr]
      | (.panic, s1) => exact absurd e (hpanic s1)

/-! ### CRC layer over an arbitrary inner reader (no assumption on the reader at all) -/

/-- A non-empty read that returns 0 bytes has passed the check. -/
theorem crcLayer_ok_nil {inner : Src σ} {check : UInt32} {ae2 : Bool} {si : σ} {reg : UInt32}
    {n : Nat} (hn : 0 < n) (h : ((crcLayer inner check ae2).rd (si, reg) n).1 = .ok []) :
    ae2 = true ∨ Crc32.finalize reg = check := by
  have hn0 : n ≠ 0 := by omega
  match e : inner.rd si n with
  | (.ok bs, s') =>
    rw [crcLayer_rd_ok hn0 e] at h
    by_cases hc : bs = [] ∧ check ≠ Crc32.finalize reg ∧ ae2 = false
    · rw [if_pos hc] at h; cases h
    · rw [if_neg hc] at h
      by_cases hl : bs.length ≤ n
      · rw [if_pos hl] at h
        have hb : bs = [] := by injection h
        cases hae : ae2
        · right
          apply Classical.byContradiction
          intro hne
          exact hc ⟨hb, fun h => hne h.symm, hae⟩
        · left; rfl
      · rw [if_neg hl] at h; cases h
  | (.err e', s') => rw [crcLayer_rd_err hn0 e] at h; cases h
  | (.panic, s') => rw [crcLayer_rd_panic hn0 e] at h; cases h

/-- The hasher state is the fold of exactly the bytes handed to the caller, through any sequence
of calls, including failed ones and zero-length ones. -/
theorem crc_run_register (inner : Src σ) (check : UInt32) (ae2 : Bool) (s : σ) (reg : UInt32)
    (reqs : List Nat) :
    (run (crcLayer inner check ae2) (s, reg) reqs).2.2 =
      Crc32.updateBytes reg (delivered (run (crcLayer inner check ae2) (s, reg) reqs).1) := by
  induction reqs generalizing s reg with
  | nil => rfl
  | cons n ns ih =>
    simp only [run]
    by_cases hn0 : n = 0
    · subst hn0
      rw [crcLayer_rd_zero]
      simp only [delivered, List.nil_append]; exact ih s reg
    match e : inner.rd s n with
    | (.ok bs, s') =>
      rw [crcLayer_rd_ok hn0 e]
      split
      · simp only [delivered]; exact ih s' reg
      · split
        · simp only [delivered]
          rw [Crc32.updateBytes_append]
          exact ih s' _
        · simp only [delivered]; exact ih s' reg
    | (.err e', s') =>
      rw [crcLayer_rd_err hn0 e]
      simp only [delivered]; exact ih s' reg
    | (.panic, s') =>
      rw [crcLayer_rd_panic hn0 e]
      simp only [delivered]; exact ih s' reg

/-! ### Writer side -/

variable {ω : Type}

theorem writeAllAux_spec {w : Wr ω} {contents : ω → Bytes} (hs : SinkSpec w contents)
    (hl : SinkLive w) (fuel : Nat) (t : ω) (buf : Bytes) (hf : buf.length ≤ fuel) :
    ∃ t', writeAllAux w fuel t buf = (.ok (), t') ∧ contents t' = contents t ++ buf := by
  induction fuel generalizing t buf with
  | zero =>
    have : buf = [] := List.eq_nil_of_length_eq_zero (by omega)
    subst this
    exact ⟨t, rfl, by simp⟩
  | succ fuel ih =>
    cases buf with
    | nil => exact ⟨t, rfl, by simp⟩
    | cons b bs =>
      obtain ⟨k, t1, e, hk⟩ := hl t (b :: bs) (by simp)
      obtain ⟨hkl, hc⟩ := hs.ok t (b :: bs) k t1 e
      obtain ⟨t2, hv, hc2⟩ := ih t1 ((b :: bs).drop k) (by
        rw [List.length_drop]; simp only [List.length_cons] at hf hkl ⊢; omega)
      refine ⟨t2, ?_, ?_⟩
      · obtain ⟨k', rfl⟩ : ∃ k', k = k' + 1 := ⟨k - 1, by omega⟩
        simp only [writeAllAux, e, hkl, if_true]
        exact hv
      · rw [hc2, hc, List.append_assoc, List.take_append_drop]

/-- Accounting invariant of `ZipWriter::write`, one call. -/
theorem zipWriterWr_ok {w : Wr ω} {contents : ω → Bytes} (hs : SinkSpec w contents)
    {st st' : ZwState ω} {buf : Bytes} {k : Nat} (h : (zipWriterWr w).wr st buf = (.ok k, st')) :
    k ≤ buf.length ∧ contents st'.sink = contents st.sink ++ buf.take k ∧
      st'.reg = Crc32.updateBytes st.reg (buf.take k) ∧ st'.written = st.written + k ∧
      st'.closed = false ∧ st'.largeFile = st.largeFile := by
  simp only [zipWriterWr] at h
  by_cases hc : st.closed = true
  · rw [if_pos hc] at h; cases h
  · rw [if_neg hc] at h
    match e : w.wr st.sink buf, h with
    | (.ok k1, t1), h =>
      obtain ⟨hkl, hcont⟩ := hs.ok _ _ _ _ e
      simp only [hkl, if_true] at h
      split at h
      · cases h
      · cases h
        exact ⟨hkl, hcont, rfl, rfl, by simpa using hc, rfl⟩
    | (.err e1, t1), h => cases h
    | (.panic, t1), h => cases h

theorem zipWriter_writeAllAux {w : Wr ω} {contents : ω → Bytes} (hs : SinkSpec w contents)
    (hl : SinkLive w) (fuel : Nat) (st : ZwState ω) (buf : Bytes) (hf : buf.length ≤ fuel)
    (hopen : st.closed = false)
    (hsz : st.written + buf.length ≤ zip64BytesThr ∨ st.largeFile = true) :
    ∃ st', writeAllAux (zipWriterWr w) fuel st buf = (.ok (), st') ∧
      contents st'.sink = contents st.sink ++ buf ∧
      st'.reg = Crc32.updateBytes st.reg buf ∧ st'.written = st.written + buf.length ∧
      st'.closed = false ∧ st'.largeFile = st.largeFile := by
  induction fuel generalizing st buf with
  | zero =>
    have : buf = [] := List.eq_nil_of_length_eq_zero (by omega)
    subst this
    exact ⟨st, rfl, by simp, rfl, rfl, hopen, rfl⟩
  | succ fuel ih =>
    cases buf with
    | nil => exact ⟨st, rfl, by simp, rfl, rfl, hopen, rfl⟩
    | cons b bs =>
      obtain ⟨k, t1, e, hk⟩ := hl st.sink (b :: bs) (by simp)
      obtain ⟨hkl, hc⟩ := hs.ok _ _ _ _ e
      have hthr : ¬ ((st.written + k > zip64BytesThr) && !st.largeFile) = true := by
        simp only [List.length_cons] at hsz hkl
        rcases hsz with h | h
        · simp; intro h2; omega
        · simp [h]
      have e1 : (zipWriterWr w).wr st (b :: bs) =
          (.ok k, { st with sink := t1, reg := Crc32.updateBytes st.reg ((b :: bs).take k),
                            written := st.written + k }) := by
        simp only [zipWriterWr, hopen, e, hkl, if_true]
        simp only [Bool.false_eq_true, if_false]
        rw [if_neg hthr]
      obtain ⟨st2, hv, h1, h2, h3, h4, h5⟩ := ih
        { st with sink := t1, reg := Crc32.updateBytes st.reg ((b :: bs).take k),
                  written := st.written + k } ((b :: bs).drop k)
        (by rw [List.length_drop]; simp only [List.length_cons] at hf hkl ⊢; omega) hopen
        (by
          rcases hsz with h | h
          · left; simp only [List.length_drop]; omega
          · right; exact h)
      refine ⟨st2, ?_, ?_, ?_, ?_, h4, h5⟩
      · obtain ⟨k', rfl⟩ : ∃ k', k = k' + 1 := ⟨k - 1, by omega⟩
        simp only [writeAllAux, e1, hkl, if_true]
        exact hv
      · rw [h1]; simp only; rw [hc, List.append_assoc, List.take_append_drop]
      · rw [h2]; simp only; rw [← Crc32.updateBytes_append, List.take_append_drop]
      · rw [h3]; simp only [List.length_drop]; omega


theorem zipWriter_writeAllSeq {w : Wr ω} {contents : ω → Bytes} (hs : SinkSpec w contents)
    (hl : SinkLive w) (st : ZwState ω) (cs : List Bytes) (hopen : st.closed = false)
    (hsz : st.written + cs.flatten.length ≤ zip64BytesThr ∨ st.largeFile = true) :
    ∃ st', writeAllSeq (zipWriterWr w) st cs = (.ok (), st') ∧
      contents st'.sink = contents st.sink ++ cs.flatten ∧
      st'.reg = Crc32.updateBytes st.reg cs.flatten ∧
      st'.written = st.written + cs.flatten.length ∧
      st'.closed = false ∧ st'.largeFile = st.largeFile := by
  induction cs generalizing st with
  | nil => exact ⟨st, rfl, by simp, rfl, rfl, hopen, rfl⟩
  | cons c cs ih =>
    simp only [List.flatten_cons, List.length_append] at hsz
    obtain ⟨st1, hv, h1, h2, h3, h4, h5⟩ :=
      zipWriter_writeAllAux hs hl c.length st c (Nat.le_refl _) hopen
        (by rcases hsz with h | h
            · left; omega
            · right; exact h)
    obtain ⟨st2, hv2, g1, g2, g3, g4, g5⟩ := ih st1 h4
      (by rcases hsz with h | h
          · left; omega
          · right; rw [h5]; exact h)
    refine ⟨st2, ?_, ?_, ?_, ?_, g4, by rw [g5, h5]⟩
    · simp only [writeAllSeq, writeAll, hv]; exact hv2
    · rw [g1, h1, List.flatten_cons, List.append_assoc]
    · rw [g2, h2, List.flatten_cons, Crc32.updateBytes_append]
    · rw [g3, h3, List.flatten_cons, List.length_append]; omega

theorem scriptedSink_spec : SinkSpec scriptedSink SSink.contents := by
  constructor
  · intro t buf k t' h
    simp only [scriptedSink] at h
    by_cases hb : buf = []
    · rw [if_pos hb] at h
      cases h
      subst hb
      exact ⟨Nat.le_refl _, by simp⟩
    · rw [if_neg hb] at h
      cases h
      have hpos : 0 < buf.length := List.length_pos_iff.mpr hb
      exact ⟨(chunk_bounds _ hpos).2, rfl⟩
  · intro t buf e t' h
    simp only [scriptedSink] at h
    split at h <;> cases h

theorem scriptedSink_live : SinkLive scriptedSink := by
  intro t buf hb
  have hpos : 0 < buf.length := List.length_pos_iff.mpr hb
  refine ⟨_, _, by simp only [scriptedSink, if_neg hb]; rfl, (chunk_bounds _ hpos).1⟩


/-! ### `ZipCryptoReader::validate` -/

theorem readExact_denotes {src : Src σ} {o : Term} {s : σ} {B : Bytes} (h : Denotes src s B o)
    (n : Nat) :
    (n ≤ B.length → ∃ s', readExact src s n = (.ok (B.take n), s') ∧ Denotes src s' (B.drop n) o) ∧
    (B.length < n → ∃ s', readExact src s n = (.err (exactErr o), s')) :=
  readExactAux_denotes n h n (Nat.le_refl _)

/-- The outcome of password validation and the reader it yields depend only on the bytes of the
stream, not on how they arrive. -/
theorem zcValidate_denotes (dec : κ → UInt8 → UInt8 × κ) (inner : Src σ) {s : σ} {B : Bytes}
    {o : Term} (k : κ) (expect : UInt8) (h : Denotes inner s B o) :
    (12 ≤ B.length → (mapBytes dec k (B.take 12))[11]? = some expect →
      ∃ s', zcValidate dec inner s k expect = .valid (s', mapKey dec k (B.take 12)) ∧
        Denotes (zipCryptoLayer dec inner) (s', mapKey dec k (B.take 12))
          (mapBytes dec (mapKey dec k (B.take 12)) (B.drop 12)) o) ∧
    (12 ≤ B.length → (mapBytes dec k (B.take 12))[11]? ≠ some expect →
      zcValidate dec inner s k expect = .wrongPassword) ∧
    (B.length < 12 → zcValidate dec inner s k expect = .err (exactErr o)) := by
  obtain ⟨h1, h2⟩ := readExact_denotes h 12
  refine ⟨?_, ?_, ?_⟩
  · intro hl hv
    obtain ⟨s', e, hd⟩ := h1 hl
    refine ⟨s', ?_, map_layer_denotes dec inner _ hd⟩
    simp only [zcValidate, e, hv, if_true]
  · intro hl hv
    obtain ⟨s', e, _⟩ := h1 hl
    simp only [zcValidate, e, hv, if_false]
  · intro hl
    obtain ⟨s', e⟩ := h2 hl
    simp only [zcValidate, e]


/-! ### Zero-length requests -/

theorem guardZero_denotes {src : Src σ} {s : σ} {B : Bytes} {o : Term} (h : Denotes src s B o) :
    Denotes (guardZero src) s B o := by
  apply Denotes.of_invariant (fun s' r' => Denotes src s' r' o)
  · intro s1 rest n hd
    by_cases hn : n = 0
    · have e : (guardZero src).rd s1 n = (.ok [], s1) := by simp [guardZero, hn]
      exact stepOK_of_ok e (Nat.zero_le _) (by omega) ⟨rest, rfl, hd⟩
    · have e : (guardZero src).rd s1 n = src.rd s1 n := by simp [guardZero, hn]
      obtain ⟨hok, herr, hpanic⟩ := hd.step n
      refine ⟨?_, ?_, ?_⟩
      · intro bs s' e2; exact hok bs s' (e ▸ e2)
      · intro e' s' e2; exact herr e' s' (e ▸ e2)
      · intro s' e2; exact hpanic s' (e ▸ e2)
  · exact h

theorem crc_denotes (inner : Src σ) (check : UInt32) (ae2 : Bool) {s : σ} {B : Bytes} {o : Term}
    (h : Denotes inner s B o) :
    Denotes (crcLayer inner check ae2) (s, Crc32.init) B (crcTerm check ae2 B o) :=
  crc_denotes_nz inner check ae2 (guardZero_denotes h)

end ZipVerif.Model.Layers

namespace ZipVerif.Model.Layers
open ZipVerif ZipVerif.Spec

variable {σ : Type}

/-! ### Codec hypotheses (finding F3) -/

/-- The all-streams hypothesis implies the per-stream one. -/
theorem Codec.ChunkIndependentNZ.on {c : Codec} (hc : c.ChunkIndependentNZ) (C : Bytes) (o : Term) :
    c.ChunkIndependentOn C o :=
  fun inner s h => hc.denotes inner s C o h

theorem storedCodec_on (C : Bytes) (o : Term) : storedCodec.ChunkIndependentOn C o :=
  fun _ _ h => guardZero_denotes h

theorem xorCodec_on (C : Bytes) (o : Term) : xorCodec.ChunkIndependentOn C o :=
  fun inner _ h => guardZero_denotes (map_layer_denotes _ inner () h)

theorem xor_mapBytes_involutive (p : Bytes) :
    mapBytes (fun (_ : Unit) b => (b ^^^ 0x55, ())) () (p.map (· ^^^ 0x55)) = p := by
  induction p with
  | nil => rfl
  | cons b bs ih =>
    simp only [List.map_cons, mapBytes, ih]
    congr 1
    rw [UInt8.xor_assoc]
    simp

/-- `xorCodec` decodes what `map (xor 0x55)` encodes, under every chunking. -/
theorem xorCodec_intact : xorCodec.IntactOK (fun p => p.map (· ^^^ 0x55)) :=
  ⟨fun p => by simp only [xorCodec, xor_mapBytes_involutive], fun p => xorCodec_on _ _⟩

theorem all_of_prefix {bs rest r' : Bytes} {f : UInt8 → Bool} (h : rest = bs ++ r')
    (ha : rest.all f = true) : bs.all f = true ∧ r'.all f = true := by
  rw [h, List.all_append, Bool.and_eq_true] at ha
  exact ha

/-- On a stream inside the format the picky decoder is the identity, under every chunking. -/
theorem pickyLayer_denotes (inner : Src σ) {s : σ} {C : Bytes} {o : Term}
    (hC : C.all (· < 0x80) = true) (h : Denotes inner s C o) : Denotes (pickyLayer inner) s C o := by
  apply Denotes.of_invariant (fun s' r => Denotes inner s' r o ∧ r.all (· < 0x80) = true)
  · rintro s1 rest n ⟨hd, hall⟩
    obtain ⟨hok, herr, hpanic⟩ := hd.step n
    match e : inner.rd s1 n with
    | (.ok bs, s') =>
      obtain ⟨hlen, hz, r', hr', hd'⟩ := hok bs s' e
      obtain ⟨hb, hr⟩ := all_of_prefix hr' hall
      have hv : (pickyLayer inner).rd s1 n = (.ok bs, s') := by
        simp only [pickyLayer, e, hb, if_true]
      exact stepOK_of_ok hv hlen hz ⟨r', hr', hd', hr⟩
    | (.err e', s') =>
      have hv : (pickyLayer inner).rd s1 n = (.err e', s') := by
        simp only [pickyLayer, e]
      exact stepOK_of_err hv (herr e' s' e)
    | (.panic, s') => exact absurd e (hpanic s')
  · exact ⟨h, hC⟩

theorem pickyCodec_on_intact {C : Bytes} (hC : C.all (· < 0x80) = true) (o : Term) :
    pickyCodec.ChunkIndependentOn C o := by
  intro σ inner s h
  have hd : pickyCodec.decode C o = (C, o) := by simp only [pickyCodec, hC, if_true]
  rw [hd]
  exact guardZero_denotes (pickyLayer_denotes inner hC h)

/-- … and on a stream outside the format its result DOES depend on the chunking: the all-streams
hypothesis fails for it (as it does for zstd / flate2 / bzip2). -/
theorem pickyCodec_not_chunk_independent : ¬ pickyCodec.ChunkIndependentNZ := by
  intro hc
  have h := hc.denotes scripted ⟨[1, 0x80], [], [], none⟩ [1, 0x80] .eof (scripted_denotes _) [2]
  have e : (guardZero (pickyCodec.layer scripted)).rd
      (pickyCodec.init (⟨[1, 0x80], [], [], none⟩ : Scripted)) 2 =
        (.err .invalidData, ({ rest := [], cur := [], full := [], fail := none } : Scripted)) := rfl
  have hd : (pickyCodec.decode [1, 0x80] .eof).1 = [1] := by decide
  rw [conforms_err e, hd] at h
  exact absurd h.1 (by decide)

/-! ### The declared CRC changed, everything else (reader below, schedule) the same -/

/-- If a read loop over `Crc32Reader(inner)` with declared CRC `check` ends with a clean end-of-file,
the same loop - same reader below, whatever it is, same buffer sizes - with any other declared CRC
returns the same bytes and then fails with "Invalid checksum". -/
theorem readToEnd_crc_other_check (inner : Src σ) (check check' : UInt32) (hne : check' ≠ check)
    (reqs : List Nat) (s : σ) (reg : UInt32) {b : Bytes} {s' : σ × UInt32}
    (h : readToEnd (crcLayer inner check false) (s, reg) reqs = some (b, .eof, s')) :
    ∃ s'', readToEnd (crcLayer inner check' false) (s, reg) reqs = some (b, .err .other, s'') := by
  induction reqs generalizing s reg b s' with
  | nil => cases h
  | cons n ns ih =>
    by_cases hn0 : n = 0
    · subst hn0
      simp only [readToEnd, crcLayer_rd_zero, Nat.lt_irrefl, false_and, if_false] at h ⊢
      match e2 : readToEnd (crcLayer inner check false) (s, reg) ns, h with
      | some (b2, t2, s2), h =>
        simp only [Option.map_some, Option.some.injEq, Prod.mk.injEq, List.nil_append] at h
        obtain ⟨hb, ht, hs⟩ := h
        subst hb ht hs
        obtain ⟨s3, e3⟩ := ih s reg e2
        exact ⟨s3, by rw [e3]; rfl⟩
    · have hpos : 0 < n := Nat.pos_of_ne_zero hn0
      match e : inner.rd s n with
      | (.ok bs, s1) =>
        have hv := crcLayer_rd_ok (check := check) (ae2 := false) (reg := reg) hn0 e
        have hv' := crcLayer_rd_ok (check := check') (ae2 := false) (reg := reg) hn0 e
        by_cases hb : bs = []
        · subst hb
          by_cases hc : check = Crc32.finalize reg
          · have hc' : check' ≠ Crc32.finalize reg := fun h2 => hne (h2.trans hc.symm)
            rw [if_neg (fun h3 => h3.2.1 hc), if_pos (show ([] : Bytes).length ≤ n from Nat.zero_le _)] at hv
            rw [if_pos ⟨rfl, hc', rfl⟩] at hv'
            simp only [readToEnd, hv, hpos, true_and, if_true] at h
            cases h
            exact ⟨(s1, reg), by simp only [readToEnd, hv']⟩
          · rw [if_pos ⟨rfl, hc, rfl⟩] at hv
            simp only [readToEnd, hv] at h
            cases h
        · rw [if_neg (fun h3 => hb h3.1)] at hv hv'
          by_cases hl : bs.length ≤ n
          · rw [if_pos hl] at hv hv'
            simp only [readToEnd, hv, hb, and_false, if_false] at h
            match e2 : readToEnd (crcLayer inner check false) (s1, Crc32.updateBytes reg bs) ns, h with
            | some (b2, t2, s2), h =>
              simp only [Option.map_some, Option.some.injEq, Prod.mk.injEq] at h
              obtain ⟨hb2, ht, hs⟩ := h
              subst hb2 ht hs
              obtain ⟨s3, e3⟩ := ih s1 _ e2
              refine ⟨s3, ?_⟩
              simp only [readToEnd, hv', hb, and_false, if_false, e3, Option.map_some]
          · rw [if_neg hl] at hv
            simp only [readToEnd, hv] at h
            cases h
      | (.err e', s1) =>
        simp only [readToEnd, crcLayer_rd_err hn0 e] at h
        cases h
      | (.panic, s1) =>
        simp only [readToEnd, crcLayer_rd_panic hn0 e] at h
        cases h

end ZipVerif.Model.Layers
