import ZipVerif.Model.Writer
/- Basic evaluation lemmas for the I/O monad `M` and the writer plumbing (`io`). -/

namespace ZipVerif.Model
open ZipVerif

theorem M.bind_run {α β} (m : M α) (f : α → M β) (fa : Option Nat) (d : Dev) :
    (m >>= f) fa d = match m fa d with
      | (.ok a, d') => f a fa d'
      | (.err e, d') => (.err e, d')
      | (.panic s, d') => (.panic s, d') := rfl

theorem M.pure_run {α} (a : α) (fa : Option Nat) (d : Dev) : (pure a : M α) fa d = (.ok a, d) := rfl

theorem io_run {α β} (s : WState) (m : M α) (k : α → M (Except ZErr β × WState)) (fa : Option Nat)
    (d : Dev) :
    io s m k fa d = match m fa d with
      | (.ok a, d') => k a fa d'
      | (.err e, d') => (.ok (.error e, s), d')
      | (.panic p, d') => (.panic p, d') := by
  unfold io
  rw [M.bind_run]
  unfold M.attempt
  cases h : m fa d with
  | mk o d' => cases o <;> simp [M.pure_run]

/-- the device after `n` counted calls -/
def Dev.tick (d : Dev) : Dev := { d with calls := d.calls + 1 }

theorem M.prim_run {α} (f : Dev → Out α × Dev) (fa : Option Nat) (d : Dev) :
    M.prim f fa d = if fa = some d.calls then (.err (.io d.fkind), d.tick) else f d.tick := rfl

theorem M.writeAll_run (bs : Bytes) (h : bs ≠ []) (fa : Option Nat) (d : Dev) :
    M.writeAll bs fa d =
      if fa = some d.calls then (.err (.io d.fkind), d.tick)
      else (.ok (), { d.tick with buf := writeAt d.buf d.pos bs, pos := d.pos + bs.length }) := by
  have hb : bs.isEmpty = false := by cases bs <;> simp_all
  unfold M.writeAll
  rw [hb]
  simp only [Bool.false_eq_true, if_false]
  rw [M.bind_run]
  unfold M.write
  rw [M.prim_run]
  by_cases hfa : fa = some d.calls
  · rw [if_pos hfa, if_pos hfa]
  · rw [if_neg hfa, if_neg hfa]; rfl

theorem M.seek_start_run (n : Nat) (fa : Option Nat) (d : Dev) :
    M.seek (.start n) fa d =
      if fa = some d.calls then (.err (.io d.fkind), d.tick)
      else (.ok n, { d.tick with pos := n }) := by
  unfold M.seek
  rw [M.prim_run]
  split
  · rfl
  · simp [Dev.tick]

end ZipVerif.Model
