import ZipVerif.Spec.Tree
/-
The order in which recorded modes are applied (`Spec.Tree.sortModes`: a stable sort by descending
depth): it is a rearrangement of the pending list, it is sorted, and it is stable in the form that is
used: whatever follows an element in the sorted list followed it in the original list or is less deep.
-/

namespace ZipVerif.Spec.Tree
open ZipVerif ZipVerif.Spec.Paths ZipVerif.Spec.FS ZipVerif.Model.Paths

theorem mem_insertMode {x y : Pending} {l : List Pending} : y ∈ insertMode x l ↔ y = x ∨ y ∈ l := by
  induction l with
  | nil => simp [insertMode]
  | cons z zs ih =>
    simp only [insertMode]
    split
    · simp
    · simp only [List.mem_cons, ih]
      constructor
      · rintro (h | h | h)
        · exact Or.inr (Or.inl h)
        · exact Or.inl h
        · exact Or.inr (Or.inr h)
      · rintro (h | h | h)
        · exact Or.inr (Or.inl h)
        · exact Or.inl h
        · exact Or.inr (Or.inr h)

theorem mem_sortModes {y : Pending} {l : List Pending} : y ∈ sortModes l ↔ y ∈ l := by
  induction l with
  | nil => simp [sortModes]
  | cons x xs ih => simp only [sortModes, mem_insertMode, ih, List.mem_cons]

theorem mem_pendingOf {p : Pending} {ms : List (Name × Option Nat)} :
    p ∈ pendingOf ms ↔ (p.2.1, some p.2.2) ∈ ms ∧ p.1 = pathDepth p.2.1 := by
  induction ms with
  | nil => simp [pendingOf]
  | cons m ms ih =>
    obtain ⟨n, md⟩ := m
    cases md with
    | none =>
      simp only [pendingOf, ih, List.mem_cons, Prod.mk.injEq]
      constructor
      · rintro ⟨h1, h2⟩; exact ⟨Or.inr h1, h2⟩
      · rintro ⟨h1 | h1, h2⟩
        · exact absurd h1.2 (by simp)
        · exact ⟨h1, h2⟩
    | some m0 =>
      simp only [pendingOf, List.mem_cons, ih, Prod.mk.injEq, Option.some.injEq]
      obtain ⟨d, n', m'⟩ := p
      simp only
      constructor
      · rintro (h | ⟨h1, h2⟩)
        · simp only [Prod.mk.injEq] at h
          obtain ⟨rfl, rfl, rfl⟩ := h
          exact ⟨Or.inl ⟨rfl, rfl⟩, rfl⟩
        · exact ⟨Or.inr h1, h2⟩
      · rintro ⟨⟨rfl, rfl⟩ | h1, h2⟩
        · left; simp [h2]
        · exact Or.inr ⟨h1, h2⟩

/-- What is applied is what was recorded. -/
theorem mem_modeOrder {m : Name × Option Nat} {ms : List (Name × Option Nat)} (h : m ∈ modeOrder ms) :
    m ∈ ms ∧ m.2.isSome = true := by
  unfold modeOrder at h
  obtain ⟨p, hp, rfl⟩ := List.mem_map.mp h
  exact ⟨(mem_pendingOf.mp (mem_sortModes.mp hp)).1, rfl⟩

/-! ### sorted -/

theorem sorted_insertMode {x : Pending} {l : List Pending} (h : l.Pairwise fun a b => b.1 ≤ a.1) :
    (insertMode x l).Pairwise fun a b => b.1 ≤ a.1 := by
  induction l with
  | nil => simp [insertMode]
  | cons y ys ih =>
    simp only [insertMode]
    rw [List.pairwise_cons] at h
    split
    · next hle =>
      rw [List.pairwise_cons]
      refine ⟨?_, List.pairwise_cons.mpr h⟩
      intro b hb
      rcases List.mem_cons.mp hb with rfl | hb
      · exact hle
      · exact Nat.le_trans (h.1 b hb) hle
    · next hgt =>
      rw [List.pairwise_cons]
      refine ⟨?_, ih h.2⟩
      intro b hb
      rcases mem_insertMode.mp hb with rfl | hb
      · omega
      · exact h.1 b hb

theorem sorted_sortModes (l : List Pending) : (sortModes l).Pairwise fun a b => b.1 ≤ a.1 := by
  induction l with
  | nil => simp [sortModes]
  | cons x xs ih => exact sorted_insertMode ih

/-! ### stable -/

theorem insertMode_append (z : Pending) (A C : List Pending) :
    (∃ A', insertMode z (A ++ C) = A' ++ C ∧ ∀ y ∈ A', y = z ∨ y ∈ A) ∨
    (insertMode z (A ++ C) = A ++ insertMode z C ∧ ∀ y ∈ A, z.1 < y.1) := by
  induction A with
  | nil => exact Or.inr ⟨rfl, by simp⟩
  | cons a A ih =>
    simp only [List.cons_append, insertMode]
    split
    · left
      refine ⟨z :: a :: A, by simp, ?_⟩
      intro y hy
      rcases List.mem_cons.mp hy with rfl | hy
      · exact Or.inl rfl
      · exact Or.inr hy
    · next hgt =>
      rcases ih with ⟨A', h1, h2⟩ | ⟨h1, h2⟩
      · left
        refine ⟨a :: A', by rw [h1]; rfl, ?_⟩
        intro y hy
        rcases List.mem_cons.mp hy with rfl | hy
        · exact Or.inr (by simp)
        · rcases h2 y hy with h | h
          · exact Or.inl h
          · exact Or.inr (List.mem_cons_of_mem _ h)
      · right
        refine ⟨by rw [h1], ?_⟩
        intro y hy
        rcases List.mem_cons.mp hy with rfl | hy
        · omega
        · exact h2 y hy

theorem insertMode_split (x : Pending) (l : List Pending) :
    ∃ A B, insertMode x l = A ++ x :: B ∧ ∀ w ∈ B, w ∈ l := by
  induction l with
  | nil => exact ⟨[], [], rfl, by simp⟩
  | cons a l ih =>
    simp only [insertMode]
    split
    · exact ⟨[], a :: l, rfl, fun w hw => hw⟩
    · obtain ⟨A, B, h1, h2⟩ := ih
      exact ⟨a :: A, B, by rw [h1]; rfl, fun w hw => List.mem_cons_of_mem _ (h2 w hw)⟩

/-- **Stability.** Whatever comes after `x` in the sorted list came after it in the original list or
is strictly less deep. -/
theorem sortModes_split (pre post : List Pending) (x : Pending) :
    ∃ A B, sortModes (pre ++ x :: post) = A ++ x :: B ∧ ∀ y ∈ B, y ∈ post ∨ y.1 < x.1 := by
  induction pre with
  | nil =>
    simp only [List.nil_append, sortModes]
    obtain ⟨A, B, h1, h2⟩ := insertMode_split x (sortModes post)
    exact ⟨A, B, h1, fun y hy => Or.inl (mem_sortModes.mp (h2 y hy))⟩
  | cons z pre ih =>
    obtain ⟨A, B, h1, h2⟩ := ih
    simp only [List.cons_append, sortModes]
    rw [h1]
    rcases insertMode_append z A (x :: B) with ⟨A', e1, _⟩ | ⟨e1, _⟩
    · exact ⟨A', B, e1, h2⟩
    · rw [e1]
      simp only [insertMode]
      split
      · exact ⟨A ++ [z], B, by simp, h2⟩
      · next hgt =>
        refine ⟨A, insertMode z B, rfl, ?_⟩
        intro y hy
        rcases mem_insertMode.mp hy with rfl | hy
        · exact Or.inr (by omega)
        · exact h2 y hy

/-! ### the depth key -/

theorem depthStep_walk {cs : List Comp} {d d' : Nat} (h : walk cs d = some d') :
    cs.foldl depthStep d = d' := by
  induction cs generalizing d with
  | nil => simpa [walk] using h
  | cons x cs ih =>
    cases x with
    | rootDir => simp [walk] at h
    | curDir => simp only [walk] at h; simpa [depthStep] using ih h
    | normal s => simp only [walk] at h; simpa [depthStep] using ih h
    | parentDir =>
      simp only [walk] at h
      split at h
      · cases h
      · simpa [depthStep] using ih h

end ZipVerif.Spec.Tree
