import ZipVerif.Model.Paths
/- Helper lemmas for C06 (Props/C06.lean). -/

namespace ZipVerif.Model.Paths
open ZipVerif.Spec.Paths

/-! ### splitting on '/' -/

theorem segments_nil : segments [] = [[]] := rfl

theorem segments_cons (c : Char) (r : Name) : segments (c :: r) = splitStep c (segments r) := rfl

theorem segments_ne_nil (n : Name) : segments n ≠ [] := by
  induction n with
  | nil => simp [segments_nil]
  | cons c r ih =>
    rw [segments_cons]; unfold splitStep
    split
    · simp
    · split <;> simp

theorem segments_slash (r : Name) : segments ('/' :: r) = [] :: segments r := by
  rw [segments_cons]; simp [splitStep]

theorem segments_length_le (n : Name) : (segments n).length ≤ n.length + 1 := by
  induction n with
  | nil => simp [segments_nil]
  | cons c r ih =>
    rw [segments_cons]; unfold splitStep
    split
    · simp; omega
    · split
      · simp
      · next h => rw [h] at ih; simp at ih ⊢; omega

/-- A '/'-free prefix followed by '/' is exactly the first segment. -/
theorem segments_append_slash (c t : Name) (hc : '/' ∉ c) :
    segments (c ++ '/' :: t) = c :: segments t := by
  induction c with
  | nil => exact segments_slash t
  | cons a c ih =>
    have ha : a ≠ '/' := fun h => hc (by simp [h])
    have hc' : '/' ∉ c := fun h => hc (by simp [h])
    rw [List.cons_append, segments_cons, ih hc']
    simp [splitStep, ha]

theorem segments_noslash (c : Name) (hc : '/' ∉ c) : segments c = [c] := by
  induction c with
  | nil => rfl
  | cons a c ih =>
    have ha : a ≠ '/' := fun h => hc (by simp [h])
    have hc' : '/' ∉ c := fun h => hc (by simp [h])
    rw [segments_cons, ih hc']
    simp [splitStep, ha]

/-- No segment contains '/', and every character of a segment is a character of the name. -/
theorem mem_segments (n : Name) : ∀ s ∈ segments n, '/' ∉ s ∧ ∀ x ∈ s, x ∈ n := by
  induction n with
  | nil => intro s hs; simp [segments_nil] at hs; subst hs; simp
  | cons c r ih =>
    intro s hs
    rw [segments_cons] at hs
    unfold splitStep at hs
    split at hs
    · rcases List.mem_cons.mp hs with h | h
      · subst h; simp
      · obtain ⟨h1, h2⟩ := ih s h
        exact ⟨h1, fun x hx => List.mem_cons_of_mem _ (h2 x hx)⟩
    · next hne =>
      split at hs
      · simp at hs; subst hs
        refine ⟨by simp; exact fun h => hne h.symm, by simp⟩
      · next s0 ss hseg =>
        rcases List.mem_cons.mp hs with h | h
        · subst h
          obtain ⟨h1, h2⟩ := ih s0 (by rw [hseg]; simp)
          refine ⟨?_, ?_⟩
          · intro hm
            rcases List.mem_cons.mp hm with h | h
            · exact hne h.symm
            · exact h1 h
          · intro x hx
            rcases List.mem_cons.mp hx with h | h
            · subst h; simp
            · exact List.mem_cons_of_mem _ (h2 x h)
        · obtain ⟨h1, h2⟩ := ih s (by rw [hseg]; exact List.mem_cons_of_mem _ h)
          exact ⟨h1, fun x hx => List.mem_cons_of_mem _ (h2 x hx)⟩

/-! ### classification of segments -/

theorem rootDir_not_mem_body (segs : List Name) : Comp.rootDir ∉ body segs := by
  unfold body
  intro h
  obtain ⟨s, _, hs⟩ := List.mem_filterMap.mp h
  unfold classify at hs
  split at hs; · cases hs
  split at hs; · cases hs
  split at hs <;> cases hs

theorem body_length_le (segs : List Name) : (body segs).length ≤ segs.length :=
  List.length_filterMap_le _ _

/-- `RootDir` occurs exactly when the name starts with '/', and then only in first position. -/
theorem rootDir_mem_components_iff (n : Name) :
    Comp.rootDir ∈ components n ↔ n.head? = some '/' := by
  unfold components
  split
  · simp
  · next c r =>
    split
    · next h => simp [h]
    · next h =>
      have hne : ¬ (some c = some '/') := fun e => h (Option.some.inj e)
      simp only [List.head?_cons, hne, iff_false]
      split
      · simp
      · split
        · intro hm
          rcases List.mem_cons.mp hm with h1 | h1
          · cases h1
          · exact rootDir_not_mem_body _ h1
        · exact rootDir_not_mem_body _

/-- At most `len + 1` components: the depth counter of `enclosed_name` cannot overflow `usize`. -/
theorem components_length_le (n : Name) : (components n).length ≤ n.length + 1 := by
  unfold components
  split
  · simp
  · next c r =>
    split
    · have := body_length_le (segments r)
      have := segments_length_le r
      simp only [List.length_cons]; omega
    · have hl := segments_length_le (c :: r)
      split
      · simp
      · next s rest hseg =>
        rw [hseg] at hl
        split
        · have := body_length_le rest
          simp only [List.length_cons] at hl ⊢; omega
        · have := body_length_le (s :: rest)
          simp only [List.length_cons] at hl this ⊢; omega

/-! ### the depth walk -/

theorem walk_le (cs : List Comp) (d d' : Nat) (h : walk cs d = some d') : d' ≤ d + cs.length := by
  induction cs generalizing d with
  | nil => simp [walk] at h; simp; omega
  | cons c r ih =>
    cases c with
    | rootDir => simp [walk] at h
    | curDir => have := ih d (by simpa [walk] using h); simp; omega
    | parentDir =>
      simp only [walk] at h
      split at h
      · cases h
      · have := ih (d - 1) h; simp; omega
    | normal s => have := ih (d + 1) (by simpa [walk] using h); simp; omega

/-- The checked walk succeeds exactly when there is no root component and the signed depth,
started at `d`, is never negative after any initial part of the walk. -/
theorem walk_isSome_iff (cs : List Comp) (d : Nat) :
    (walk cs d).isSome ↔ Comp.rootDir ∉ cs ∧ ∀ k, 0 ≤ (d : Int) + depth (cs.take k) := by
  induction cs generalizing d with
  | nil => simp [walk, depth]
  | cons c r ih =>
    cases c with
    | rootDir => simp [walk]
    | curDir =>
      simp only [walk, ih d]
      constructor
      · rintro ⟨h1, h2⟩
        refine ⟨by simp [h1], fun k => ?_⟩
        cases k with
        | zero => simp [depth]
        | succ k => simpa [depth] using h2 k
      · rintro ⟨h1, h2⟩
        refine ⟨fun hm => h1 (List.mem_cons_of_mem _ hm), fun k => ?_⟩
        simpa [depth] using h2 (k + 1)
    | normal s =>
      simp only [walk, ih (d + 1)]
      constructor
      · rintro ⟨h1, h2⟩
        refine ⟨by simp [h1], fun k => ?_⟩
        cases k with
        | zero => simp [depth]
        | succ k => have := h2 k; simp only [List.take_succ_cons, depth]; omega
      · rintro ⟨h1, h2⟩
        refine ⟨fun hm => h1 (List.mem_cons_of_mem _ hm), fun k => ?_⟩
        have := h2 (k + 1); simp only [List.take_succ_cons, depth] at this; omega
    | parentDir =>
      simp only [walk]
      split
      · next hd =>
        subst hd
        simp only [Option.isSome_none, Bool.false_eq_true, false_iff, not_and]
        intro _ h2
        have := h2 1
        simp [depth] at this
      · next hd =>
        rw [ih (d - 1)]
        constructor
        · rintro ⟨h1, h2⟩
          refine ⟨by simp [h1], fun k => ?_⟩
          cases k with
          | zero => simp [depth]
          | succ k => have := h2 k; simp only [List.take_succ_cons, depth]; omega
        · rintro ⟨h1, h2⟩
          refine ⟨fun hm => h1 (List.mem_cons_of_mem _ hm), fun k => ?_⟩
          have := h2 (k + 1); simp only [List.take_succ_cons, depth] at this; omega

/-- A successful walk is successful on every initial part. -/
theorem walk_take_isSome (cs : List Comp) (d k : Nat) (h : (walk cs d).isSome) :
    (walk (cs.take k) d).isSome := by
  rw [walk_isSome_iff] at h ⊢
  refine ⟨fun hm => h.1 (List.mem_of_mem_take hm), fun j => ?_⟩
  rw [List.take_take]
  exact h.2 _

/-- The lexical-normalisation stack machine, started on `base ++ r`, run over a walk that the
checked depth counter (started at `r.length`) accepts, never touches `base`. -/
theorem resolveFrom_of_walk (base : List Name) (cs : List Comp) (r : List Name) (d' : Nat)
    (h : walk cs r.length = some d') :
    ∃ r', r'.length = d' ∧ resolveFrom (base ++ r) cs = base ++ r' := by
  induction cs generalizing r with
  | nil =>
    simp only [walk, Option.some.injEq] at h
    exact ⟨r, h, rfl⟩
  | cons c cs ih =>
    cases c with
    | rootDir => simp [walk] at h
    | curDir =>
      simp only [walk] at h
      exact ih r h
    | normal s =>
      simp only [walk] at h
      obtain ⟨r', h1, h2⟩ := ih (r ++ [s]) (by simpa using h)
      refine ⟨r', h1, ?_⟩
      simp only [resolveFrom, List.foldl_cons, resolveStep] at h2 ⊢
      rw [List.append_assoc]; exact h2
    | parentDir =>
      simp only [walk] at h
      split at h
      · cases h
      · next hd =>
        have hr : r ≠ [] := fun e => hd (by simp [e])
        obtain ⟨r', h1, h2⟩ := ih r.dropLast (by simpa using h)
        refine ⟨r', h1, ?_⟩
        simp only [resolveFrom, List.foldl_cons, resolveStep] at h2 ⊢
        rw [List.dropLast_append_of_ne_nil hr]; exact h2

theorem resolveFrom_append (st : List Name) (a b : List Comp) :
    resolveFrom st (a ++ b) = resolveFrom (resolveFrom st a) b := by
  simp [resolveFrom, List.foldl_append]

theorem resolveFrom_normals (st base : List Name) :
    resolveFrom st (base.map Comp.normal) = st ++ base := by
  induction base generalizing st with
  | nil => simp [resolveFrom]
  | cons b bs ih =>
    have := ih (st ++ [b])
    simp only [resolveFrom, List.map_cons, List.foldl_cons, resolveStep] at this ⊢
    rw [this]; simp

/-- Joining an accepted walk onto any base stays inside the base at every step. -/
theorem staysInside_of_walk (base : List Name) (cs : List Comp) (h : (walk cs 0).isSome) :
    StaysInside base cs := by
  intro k
  have hk := walk_take_isSome cs 0 k h
  obtain ⟨d', hd'⟩ := Option.isSome_iff_exists.mp hk
  obtain ⟨r', _, h2⟩ := resolveFrom_of_walk base (cs.take k) [] d' (by simpa using hd')
  refine ⟨r', ?_⟩
  unfold joinResolve resolve
  rw [resolveFrom_append, resolveFrom_normals]
  simpa using h2

/-- Joining an accepted walk onto ANY base — relative or absolute, normalised or not, from any working
directory — never climbs above the directory the base resolves to. -/
theorem staysInsideAny_of_walk (cwd : List Name) (base cs : List Comp) (h : (walk cs 0).isSome) :
    StaysInsideAny cwd base cs := by
  intro k
  have hk := walk_take_isSome cs 0 k h
  obtain ⟨d', hd'⟩ := Option.isSome_iff_exists.mp hk
  obtain ⟨r', _, h2⟩ := resolveFrom_of_walk (resolveFrom cwd base) (cs.take k) [] d' (by simpa using hd')
  refine ⟨r', ?_⟩
  rw [resolveFrom_append]
  simpa using h2

/-- `StaysInside` is the instance "absolute, normalised base". -/
theorem staysInside_iff_any (base : List Name) (cs : List Comp) :
    StaysInside base cs ↔ StaysInsideAny [] (base.map Comp.normal) cs := by
  unfold StaysInside StaysInsideAny joinResolve resolve
  simp only [resolveFrom_normals, List.nil_append]

/-! ### `mangled_name` -/

/-- An ordinary file-name component: non-empty, no separator, not `.` and not `..`. -/
def Plain (s : Name) : Prop := s ≠ [] ∧ '/' ∉ s ∧ s ≠ ['.'] ∧ s ≠ ['.', '.']

theorem ordinary_iff (s : Name) : ordinary s = true ↔ s ≠ [] ∧ s ≠ ['.'] ∧ s ≠ ['.', '.'] := by
  simp [ordinary, and_assoc]

theorem classify_bind_normalOnly (s : Name) :
    (classify s).bind normalOnly = if ordinary s then some s else none := by
  unfold classify
  by_cases h1 : s = []
  · subst h1; simp [ordinary]
  · by_cases h2 : s = ['.']
    · subst h2; simp [ordinary]
    · by_cases h3 : s = ['.', '.']
      · subst h3; simp [ordinary, normalOnly]
      · have : ordinary s = true := (ordinary_iff s).mpr ⟨h1, h2, h3⟩
        simp [h1, h2, h3, this, normalOnly]

theorem body_filterMap_normalOnly (segs : List Name) :
    (body segs).filterMap normalOnly = segs.filter ordinary := by
  induction segs with
  | nil => rfl
  | cons s r ih =>
    unfold body at ih ⊢
    have hs := classify_bind_normalOnly s
    rw [List.filterMap_cons, List.filter_cons]
    cases hc : classify s with
    | none =>
      rw [hc] at hs
      have : ordinary s = false := by
        cases ho : ordinary s with
        | false => rfl
        | true => rw [ho] at hs; simp at hs
      simp only [this, ih]; simp
    | some c =>
      rw [hc] at hs
      simp only [Option.bind_some] at hs
      rw [List.filterMap_cons, hs]
      cases ho : ordinary s with
      | false => simp [ih]
      | true => simp [ih]

/-- The `Normal` components of any path are the ordinary '/'-segments of its text, in order. -/
theorem components_filterMap_normalOnly (n : Name) :
    (components n).filterMap normalOnly = (segments n).filter ordinary := by
  unfold components
  split
  · simp [segments_nil, ordinary]
  · next c r =>
    split
    · next h =>
      subst h
      rw [segments_slash, List.filterMap_cons]
      simp only [normalOnly]
      rw [body_filterMap_normalOnly]
      simp [ordinary]
    · split
      · next h => exact absurd h (segments_ne_nil _)
      · next s rest hseg =>
        rw [hseg]
        split
        · next hs =>
          subst hs
          rw [List.filterMap_cons]
          simp only [normalOnly]
          rw [body_filterMap_normalOnly]
          simp [ordinary]
        · exact body_filterMap_normalOnly _

theorem plain_of_mem_segments_ordinary (n s : Name) (hs : s ∈ (segments n).filter ordinary) :
    Plain s ∧ ∀ x ∈ s, x ∈ n := by
  obtain ⟨h1, h2⟩ := List.mem_filter.mp hs
  obtain ⟨h3, h4⟩ := mem_segments n s h1
  obtain ⟨a, b, c⟩ := (ordinary_iff s).mp h2
  exact ⟨⟨a, h3, b, c⟩, h4⟩

/-- `'/'`-prefixed concatenation of the remaining components. -/
def slashed (l : List Name) : Name := l.flatMap fun s => '/' :: s

theorem getLast?_ne_slash {c : Name} (h1 : c ≠ []) (h2 : '/' ∉ c) :
    ∃ l, c.getLast? = some l ∧ l ≠ '/' := by
  refine ⟨c.getLast h1, List.getLast?_eq_some_getLast h1, ?_⟩
  intro e
  exact h2 (e ▸ List.getLast_mem h1)

theorem head?_ne_slash {c : Name} (h2 : '/' ∉ c) : c.head? ≠ some '/' := by
  intro e
  cases c with
  | nil => cases e
  | cons a c => simp at e; subst e; simp at h2

theorem foldl_push_nonempty (buf : Name) (l : List Name)
    (hb : ∃ x, buf.getLast? = some x ∧ x ≠ '/') (hl : ∀ s ∈ l, Plain s) :
    l.foldl push buf = buf ++ slashed l := by
  induction l generalizing buf with
  | nil => simp [slashed]
  | cons c r ih =>
    obtain ⟨x, hx, hx'⟩ := hb
    obtain ⟨c1, c2, _, _⟩ := hl c (by simp)
    have hp : push buf c = buf ++ '/' :: c := by
      unfold push
      rw [if_neg (head?_ne_slash c2), hx]
      simp [hx']
    rw [List.foldl_cons, hp, ih]
    · simp [slashed]
    · obtain ⟨y, hy, hy'⟩ := getLast?_ne_slash c1 c2
      refine ⟨y, ?_, hy'⟩
      rw [List.getLast?_append, List.getLast?_cons, hy]; simp
    · exact fun s hs => hl s (List.mem_cons_of_mem _ hs)

/-- `c1/c2/…/ck`. -/
def joinSlash : List Name → Name
  | [] => []
  | c :: r => c ++ slashed r

/-- Folding plain components into an empty `PathBuf` gives `c1/c2/…/ck`. -/
theorem foldl_push_nil (l : List Name) (hl : ∀ s ∈ l, Plain s) :
    l.foldl push [] = joinSlash l := by
  cases l with
  | nil => rfl
  | cons c r =>
    obtain ⟨c1, c2, _, _⟩ := hl c (by simp)
    have hp : push [] c = c := by
      unfold push
      rw [if_neg (head?_ne_slash c2)]
      simp
    rw [List.foldl_cons, hp]
    exact foldl_push_nonempty c r (getLast?_ne_slash c1 c2) (fun s hs => hl s (List.mem_cons_of_mem _ hs))

theorem segments_plain_slashed (c : Name) (r : List Name) (hc : '/' ∉ c) (hr : ∀ s ∈ r, Plain s) :
    segments (c ++ slashed r) = c :: r := by
  induction r generalizing c with
  | nil => simp [slashed, segments_noslash c hc]
  | cons d r ih =>
    have hd := (hr d (by simp)).2.1
    have : slashed (d :: r) = '/' :: (d ++ slashed r) := by simp [slashed]
    rw [this, segments_append_slash c _ hc, ih d hd (fun s hs => hr s (List.mem_cons_of_mem _ hs))]

theorem body_plain (l : List Name) (hl : ∀ s ∈ l, Plain s) : body l = l.map Comp.normal := by
  induction l with
  | nil => rfl
  | cons c r ih =>
    obtain ⟨c1, _, c3, c4⟩ := hl c (by simp)
    unfold body at ih ⊢
    rw [List.filterMap_cons]
    have : classify c = some (.normal c) := by simp [classify, c1, c3, c4]
    rw [this, ih (fun s hs => hl s (List.mem_cons_of_mem _ hs))]
    rfl

/-- Reading back the `PathBuf` built from plain components yields exactly those components. -/
theorem components_foldl_push (l : List Name) (hl : ∀ s ∈ l, Plain s) :
    components (l.foldl push []) = l.map Comp.normal := by
  rw [foldl_push_nil l hl]
  cases l with
  | nil => rfl
  | cons c r =>
    obtain ⟨c1, c2, c3, c4⟩ := hl c (by simp)
    have hr : ∀ s ∈ r, Plain s := fun s hs => hl s (List.mem_cons_of_mem _ hs)
    have hseg := segments_plain_slashed c r c2 hr
    simp only [joinSlash]
    cases c with
    | nil => exact absurd rfl c1
    | cons a c =>
      have ha : a ≠ '/' := fun h => c2 (by simp [h])
      rw [List.cons_append] at hseg ⊢
      unfold components
      simp only [ha, if_false]
      rw [hseg]
      simp only [c3, if_false]
      exact body_plain _ hl

theorem of_mem_takeWhile {α} (p : α → Bool) (l : List α) (x : α) (h : x ∈ l.takeWhile p) :
    p x = true := by
  induction l with
  | nil => simp at h
  | cons a l ih =>
    rw [List.takeWhile_cons] at h
    split at h
    · next hp =>
      rcases List.mem_cons.mp h with e | e
      · exact e ▸ hp
      · exact ih e
    · simp at h

theorem mem_toMainSep_truncNul (n : Name) :
    ∀ x ∈ toMainSep (truncNul n), x ≠ '\x00' ∧ x ≠ '\\' := by
  intro x hx
  unfold toMainSep at hx
  obtain ⟨y, hy, rfl⟩ := List.mem_map.mp hx
  have hy0 : y ≠ '\x00' := by
    have := of_mem_takeWhile _ _ _ hy
    simpa using this
  split
  · exact ⟨by decide, by decide⟩
  · next h => exact ⟨hy0, h⟩

end ZipVerif.Model.Paths
