import ZipVerif.Lemmas.MRun
import ZipVerif.Lemmas.WLDefs
/-
Exact fault-free runs of the writer model for `raw_copy_file_rename` (C14): what `start_entry` pushes,
what reaches the sink, and that `finish_file` does not touch a raw copy.

`WR m B p a B' p'`: on EVERY device whose buffer is `B` and whose position is `p` (whatever its call
counter), the fault-free run of `m` returns `a` and leaves buffer `B'`, position `p'`.  It extends
`Runs` of `Lemmas/IORun.lean` (read side, buffer unchanged) to writes.
-/

namespace ZipVerif.Model
open ZipVerif

def WR {α} (m : M α) (B : Bytes) (p : Nat) (a : α) (B' : Bytes) (p' : Nat) : Prop :=
  ∀ d : Dev, d.buf = B → d.pos = p → ∃ d', m none d = (.ok a, d') ∧ d'.buf = B' ∧ d'.pos = p'

namespace WR
variable {α β : Type} {B B' B'' : Bytes} {p p' p'' : Nat}

theorem pure (a : α) : WR (Pure.pure a : M α) B p a B p :=
  fun d hb hp => ⟨d, rfl, hb, hp⟩

theorem bind {m : M α} {f : α → M β} {a : α} {b : β}
    (h1 : WR m B p a B' p') (h2 : WR (f a) B' p' b B'' p'') : WR (m >>= f) B p b B'' p'' := by
  intro d hb hp
  obtain ⟨d1, e1, hb1, hp1⟩ := h1 d hb hp
  obtain ⟨d2, e2, hb2, hp2⟩ := h2 d1 hb1 hp1
  exact ⟨d2, by rw [M.bind_run, e1]; exact e2, hb2, hp2⟩

theorem cast {m : M α} {a a' : α} {C C' : Bytes} {q q' : Nat} (h : WR m B p a C q)
    (ha : a = a') (hC : C = C') (hq : q = q') : WR m B p a' C' q' := by
  subst ha; subst hC; subst hq; exact h

/-- `io`: a device action that succeeds hands its value to the continuation -/
theorem io {γ : Type} {s : WState} {m : M α} {k : α → M (Except ZErr γ × WState)} {a : α}
    {r : Except ZErr γ × WState}
    (h1 : WR m B p a B' p') (h2 : WR (k a) B' p' r B'' p'') : WR (Model.io s m k) B p r B'' p'' := by
  intro d hb hp
  obtain ⟨d1, e1, hb1, hp1⟩ := h1 d hb hp
  obtain ⟨d2, e2, hb2, hp2⟩ := h2 d1 hb1 hp1
  exact ⟨d2, by rw [io_run, e1]; exact e2, hb2, hp2⟩

theorem streamPosition : WR M.streamPosition B p p B p := by
  intro d hb hp
  refine ⟨{ d.tick with pos := p }, ?_, hb, rfl⟩
  unfold M.streamPosition M.seek
  rw [M.prim_run, if_neg (by simp)]
  have e : ((d.tick.pos : Int) + 0).toNat = p := by simp [Dev.tick, hp]
  have hn : ¬ ((d.tick.pos : Int) + 0 < 0) := by omega
  simp only [hn, if_false, e]

/-- one in-bounds `write_all`: the bytes overwrite the buffer at the position -/
theorem writeAll (bs : Bytes) (hp : p ≤ B.length) :
    WR (M.writeAll bs) B p () (B.take p ++ bs ++ B.drop (p + bs.length)) (p + bs.length) := by
  intro d hb hpos
  by_cases hbs : bs = []
  · subst hbs
    refine ⟨d, rfl, ?_, by simpa using hpos⟩
    simp [hb]
  · refine ⟨_, M.writeAll_run bs hbs none d, ?_, ?_⟩
    · simp only [writeAt, hb, hpos, if_pos hp]
    · simp only [hpos]

theorem writeChunks : ∀ (cs : List Bytes) (B : Bytes) (p : Nat), p ≤ B.length →
    WR (M.writeChunks cs) B p () (B.take p ++ ser cs ++ B.drop (p + (ser cs).length)) (p + (ser cs).length) := by
  intro cs
  induction cs with
  | nil =>
    intro B p _
    refine (pure ()).cast rfl ?_ ?_ <;> simp [ser]
  | cons c cs ih =>
    intro B p hp
    unfold M.writeChunks
    refine (bind (writeAll c hp) (ih _ _ ?_)).cast rfl ?_ ?_
    · simp; omega
    · simp only [ser, List.flatten_cons, List.length_append]
      have h1 : (B.take p ++ c ++ B.drop (p + c.length)).take (p + c.length) = B.take p ++ c := by
        rw [List.append_assoc, ← List.append_assoc (B.take p)]
        exact List.take_left' (by simp; omega)
      have h2 : (B.take p ++ c ++ B.drop (p + c.length)).drop (p + c.length + cs.flatten.length) =
          B.drop (p + (c.length + cs.flatten.length)) := by
        have : p + c.length + cs.flatten.length = (B.take p ++ c).length + cs.flatten.length := by
          rw [List.length_append, List.length_take, Nat.min_eq_left hp]
        rw [this, List.drop_length_add_append, List.drop_drop]
        congr 1; omega
      rw [h1, h2]
      simp only [List.append_assoc]
    · simp only [ser, List.flatten_cons, List.length_append]; omega

end WR

/-- `WR` on one given device (used where the first step is known only as an equation on that device). -/
def WR1 {α} (m : M α) (d : Dev) (a : α) (B' : Bytes) (p' : Nat) : Prop :=
  ∃ d', m none d = (.ok a, d') ∧ d'.buf = B' ∧ d'.pos = p'

theorem WR.at1 {α} {m : M α} {d : Dev} {a : α} {B' : Bytes} {p' : Nat}
    (h : WR m d.buf d.pos a B' p') : WR1 m d a B' p' := h d rfl rfl

theorem WR1.bind {α β} {m : M α} {f : α → M β} {d d1 : Dev} {a : α} {b : β} {B'' : Bytes} {p'' : Nat}
    (h1 : m none d = (.ok a, d1)) (h2 : WR (f a) d1.buf d1.pos b B'' p'') : WR1 (m >>= f) d b B'' p'' := by
  obtain ⟨d2, e2, hb2, hp2⟩ := h2 d1 rfl rfl
  exact ⟨d2, by rw [M.bind_run, h1]; exact e2, hb2, hp2⟩

/-- The live part of the sink: everything in front of the position. -/
theorem take_after_write (B bs : Bytes) (p : Nat) (hp : p ≤ B.length) :
    (B.take p ++ bs ++ B.drop (p + bs.length)).take (p + bs.length) = B.take p ++ bs :=
  List.take_left' (by simp; omega)

/-! ### `finish_file` between entries -/

theorem switchTo_stored_storer (ext : WExt) (s : WState) (enc : Option EncState)
    (h : s.inner = .storer enc) : switchTo ext .stored none s = Pure.pure (.ok (), s) := by
  unfold switchTo; simp [h, Inner.currentCompression]

/-- **A raw copy is not re-patched**: `finish_file` on a writer whose current entry is a raw copy
(`writing_raw`) — or that has just been opened by `new_append` — performs NO I/O and changes nothing but
the two mode flags: the record keeps the source's CRC and sizes, the local header stays as written. -/
theorem finishFile_raw (ext : WExt) (s : WState) (hin : s.inner = .storer none)
    (hwe : s.writingToExtraField = false) (hwr : s.writingRaw = true) (fa : Option Nat) (d : Dev) :
    finishFile ext s fa d = (.ok (.ok (), { s with writingToFile := false, writingRaw := false }), d) := by
  obtain ⟨inner, files, sS, sB, sH, wF, wE, cO, wR, cm⟩ := s
  dsimp only at hin hwe hwr
  subst hin hwe hwr
  unfold finishFile
  simp only [Bool.false_eq_true, if_false]
  rw [M.bind_run, M.pure_run]
  dsimp only
  rw [switchTo_stored_storer ext _ none rfl, M.bind_run, M.pure_run]
  dsimp only
  simp only [Bool.not_true, Bool.false_eq_true, if_false]
  rfl

/-- `finish_file` on a writer without entries (a fresh writer) does nothing at all. -/
theorem finishFile_empty (ext : WExt) (s : WState) (hin : s.inner = .storer none)
    (hwe : s.writingToExtraField = false) (hwr : s.writingRaw = false) (hf : s.files = [])
    (fa : Option Nat) (d : Dev) :
    finishFile ext s fa d = (.ok (.ok (), s), d) := by
  obtain ⟨inner, files, sS, sB, sH, wF, wE, cO, wR, cm⟩ := s
  dsimp only at hin hwe hwr hf
  subst hin hwe hwr hf
  unfold finishFile
  simp only [Bool.false_eq_true, if_false]
  rw [M.bind_run, M.pure_run]
  dsimp only
  rw [switchTo_stored_storer ext _ none rfl, M.bind_run, M.pure_run]
  dsimp only
  simp only [Bool.not_false, if_true, List.getLast?_nil]
  rfl

/-! ### `start_entry` -/

/-- the record `start_entry` creates at sink position `hs` -/
def newFile (name : Bytes) (o : FileOptions) (raw : Option (UInt32 × UInt64 × UInt64)) (hs : Nat) : FileData :=
  { system := .unix, versionMadeBy := DEFAULT_VERSION, encrypted := o.encryptWith.isSome,
    usingDataDescriptor := false, method := o.method, level := o.level, time := o.time,
    crc32 := (raw.getD (0, 0, 0)).1, compressedSize := (raw.getD (0, 0, 0)).2.1,
    uncompressedSize := (raw.getD (0, 0, 0)).2.2, fileName := name,
    fileNameRaw := [], extraField := [], fileComment := [],
    headerStart := UInt64.ofNat hs, centralHeaderStart := 0, dataStart := 0,
    externalAttributes := (o.permissions.getD 0o100644) <<< 16, largeFile := o.largeFile, aesMode := none }

/-- **`start_entry`, exactly** (unencrypted entry, fault-free, in-bounds sink): after `finish_file` has
closed the previous entry leaving state `s1` and the sink at `(B1, p1)`, the local header `chunks` of the
new record is written at `p1` — nothing else reaches the sink — and the record, with `data_start` set to
the header's end, is pushed. -/
theorem startEntry_runs (ext : WExt) (name : Bytes) (o : FileOptions)
    (raw : Option (UInt32 × UInt64 × UInt64)) (s s1 : WState) (d d1 : Dev) (B1 : Bytes) (p1 : Nat)
    (chunks : List Bytes) (hn : name.length ≤ 65535) (henc : o.encryptWith = none)
    (hfin : finishFile ext s none d = (.ok (.ok (), s1), d1)) (hB1 : d1.buf = B1) (hP1 : d1.pos = p1)
    (hin : s1.inner = .storer none)
    (hch : localHeaderChunks (newFile name o raw p1) = .ok chunks) (hp1 : p1 ≤ B1.length) :
    WR1 (startEntry ext name o raw s) d
      (.ok (), { s1 with statsStart := p1 + (ser chunks).length, statsBytes := 0, statsHasher := 0xFFFFFFFF,
                         files := s1.files ++ [{ newFile name o raw p1 with
                           dataStart := UInt64.ofNat (p1 + (ser chunks).length) }] })
      (B1.take p1 ++ ser chunks ++ B1.drop (p1 + (ser chunks).length)) (p1 + (ser chunks).length) := by
  unfold startEntry
  rw [if_neg (by omega)]
  refine WR1.bind hfin ?_
  rw [hB1, hP1]
  dsimp only
  rw [hin]
  dsimp only
  refine WR.io WR.streamPosition ?_
  have hfile : ∀ hs : Nat, ({
      system := .unix, versionMadeBy := DEFAULT_VERSION, encrypted := o.encryptWith.isSome,
      usingDataDescriptor := false, method := o.method, level := o.level, time := o.time,
      crc32 := (raw.getD (0, 0, 0)).1, compressedSize := (raw.getD (0, 0, 0)).2.1,
      uncompressedSize := (raw.getD (0, 0, 0)).2.2, fileName := name,
      fileNameRaw := [], extraField := [], fileComment := [],
      headerStart := UInt64.ofNat hs, centralHeaderStart := 0, dataStart := 0,
      externalAttributes := (o.permissions.getD 0o100644) <<< 16, largeFile := o.largeFile,
      aesMode := none } : FileData) = newFile name o raw hs := fun _ => rfl
  simp only [hfile, hch]
  refine WR.io (WR.writeChunks chunks B1 p1 hp1) ?_
  refine WR.io WR.streamPosition ?_
  simp only [henc]
  refine (WR.pure _).cast ?_ rfl rfl
  simp [newFile, henc]

/-! ### `raw_copy_file_rename` -/

/-- the options `raw_copy_file_rename` derives from the source entry -/
def rawOptions (src : FileData) : FileOptions :=
  { method := src.method, level := none, time := src.time, permissions := src.unixMode,
    largeFile := (if src.compressedSize ≥ src.uncompressedSize then src.compressedSize
                  else src.uncompressedSize) ≥ ZIP64_BYTES_THR,
    encryptWith := none }

/-- the record a raw copy of `src` under `name` creates at sink position `hs` -/
def rawFile (src : FileData) (name : Bytes) (hs : Nat) : FileData :=
  newFile name (rawOptions src) (some (src.crc32, src.compressedSize, src.uncompressedSize)) hs

/-- the local header `start_entry` writes for a raw copy placed at sink position `hs` (`dp` = the DOS
date of the source's time; `hs` only matters through "version needed", which is 45 beyond 4 GiB) -/
def rawHeader (src : FileData) (name : Bytes) (dp : UInt16) (hs : Nat) : List Bytes :=
  let f := rawFile src name hs
  [le32 LOCAL_SIG, le16 f.versionNeeded, le16 (flagOf f), le16 src.method.toU16,
   le16 src.time.timepart, le16 dp, le32 src.crc32] ++
  (if f.largeFile then [le32 0xFFFFFFFF, le32 0xFFFFFFFF]
   else [le32 (trunc32 src.compressedSize), le32 (trunc32 src.uncompressedSize)]) ++
  [le16 (UInt16.ofNat name.length), le16 (UInt16.ofNat (if f.largeFile then 20 else 0)), name] ++
  (if f.largeFile then localZip64Chunks f else [])

theorem rawFile_header (src : FileData) (name : Bytes) (dp : UInt16) (hs : Nat)
    (hdp : src.time.datepart = some dp) :
    localHeaderChunks (rawFile src name hs) = .ok (rawHeader src name dp hs) := by
  unfold localHeaderChunks
  have hd : datepartOut (rawFile src name hs).time = .ok dp := by
    show datepartOut src.time = _
    unfold datepartOut; rw [hdp]
  have hl : localExtraLen (rawFile src name hs) =
      .ok (UInt16.ofNat (if (rawFile src name hs).largeFile then 20 else 0)) := by
    unfold localExtraLen
    have hx : (rawFile src name hs).extraField = [] := rfl
    rw [hx]
    cases (rawFile src name hs).largeFile <;> rfl
  rw [hd, hl]
  rfl

/-- the state `raw_copy_file_rename` leaves: the new record pushed, statistics counting the raw bytes,
`writing_to_file` and `writing_raw` set -/
def rawCopyState (s1 : WState) (src : FileData) (raw name : Bytes) (p1 hlen : Nat) : WState :=
  { s1 with statsStart := p1 + hlen, statsBytes := raw.length,
            statsHasher := Spec.Crc32.updateBytes 0xFFFFFFFF raw,
            files := s1.files ++ [{ rawFile src name p1 with dataStart := UInt64.ofNat (p1 + hlen) }],
            writingToFile := true, writingRaw := true }

/-- **`raw_copy_file_rename`, exactly** (fault-free, in-bounds sink).  After `finish_file` has closed the
previous entry (state `s1`, sink `(B1, p1)`): the local header of the new record, then `raw` — unchanged,
through the stored path, no compressor involved — are written at `p1`; the record carries the source's
values.  `hraw`: more than 4 GiB − 1 raw bytes are accepted only for a `large_file` record, i.e. when the
source's sizes say so (always the case when `raw` has the source's compressed size). -/
theorem rawCopy_runs (ext : WExt) (src : FileData) (raw name : Bytes) (dp : UInt16)
    (s s1 : WState) (d d1 : Dev) (B1 : Bytes) (p1 : Nat)
    (hn : name.length ≤ 65535) (hdp : src.time.datepart = some dp)
    (hfin : finishFile ext s none d = (.ok (.ok (), s1), d1)) (hB1 : d1.buf = B1) (hP1 : d1.pos = p1)
    (hin : s1.inner = .storer none)
    (hwe : s1.writingToExtraField = false) (hp1 : p1 ≤ B1.length)
    (hraw : raw.length ≤ 0xFFFFFFFF ∨ (rawFile src name p1).largeFile = true) :
    let hdr := ser (rawHeader src name dp p1)
    WR1 (rawCopy ext src raw name s) d
      (.ok (), rawCopyState s1 src raw name p1 hdr.length)
      (B1.take p1 ++ (hdr ++ raw) ++ B1.drop (p1 + (hdr ++ raw).length)) (p1 + (hdr ++ raw).length) := by
  intro hdr
  obtain ⟨d2, hstart, hb2, hpos2⟩ := startEntry_runs ext name (rawOptions src)
    (some (src.crc32, src.compressedSize, src.uncompressedSize)) s s1 d d1 B1 p1 (rawHeader src name dp p1)
    hn rfl hfin hB1 hP1 hin (rawFile_header src name dp p1 hdp) hp1
  unfold rawCopy
  dsimp only
  refine WR1.bind hstart ?_
  rw [hb2, hpos2]
  dsimp only
  unfold writeData
  by_cases hemp : raw = []
  · subst hemp
    simp only [List.isEmpty_nil, if_true]
    refine (WR.pure _).cast ?_ ?_ ?_
    · simp only [rawCopyState, List.length_nil]
      rfl
    · simp only [List.append_nil]; rfl
    · simp only [List.append_nil]; rfl
  · have hne : raw.isEmpty = false := by cases raw <;> simp_all
    simp only [hne, Bool.false_eq_true, if_false, Bool.not_true, hin, hwe]
    have hp2 : p1 + (ser (rawHeader src name dp p1)).length ≤
        (B1.take p1 ++ ser (rawHeader src name dp p1) ++
          B1.drop (p1 + (ser (rawHeader src name dp p1)).length)).length := by
      simp only [List.length_append, List.length_take, Nat.min_eq_left hp1]; omega
    refine WR.io (WR.writeAll raw hp2) ?_
    simp only [List.getLast?_concat, Nat.zero_add]
    have hbig : ¬ ((decide (raw.length > 0xFFFFFFFF) && !(newFile name (rawOptions src)
        (some (src.crc32, src.compressedSize, src.uncompressedSize)) p1).largeFile) = true) := by
      unfold rawFile at hraw
      rcases hraw with h | h
      · simp; intro h'; omega
      · simp [h]
    rw [if_neg hbig]
    refine (WR.pure _).cast ?_ ?_ ?_
    · clear hfin hstart
      obtain ⟨inner, files, sS, sB, sH, wF, wE, cO, wR, cm⟩ := s1
      dsimp only at hin hwe
      subst hin hwe
      rfl
    · have h1 := take_after_write B1 (ser (rawHeader src name dp p1)) p1 hp1
      rw [h1]
      have h2 : (B1.take p1 ++ ser (rawHeader src name dp p1) ++
          B1.drop (p1 + (ser (rawHeader src name dp p1)).length)).drop
            (p1 + (ser (rawHeader src name dp p1)).length + raw.length) =
          B1.drop (p1 + (hdr ++ raw).length) := by
        have : p1 + (ser (rawHeader src name dp p1)).length + raw.length =
            (B1.take p1 ++ ser (rawHeader src name dp p1)).length + raw.length := by
          rw [List.length_append, List.length_take, Nat.min_eq_left hp1]
        rw [this, List.drop_length_add_append, List.drop_drop]
        congr 1
        simp only [hdr, List.length_append]; omega
      rw [h2]
      simp only [hdr, List.append_assoc]
    · simp only [hdr, List.length_append]; omega

/-! ### The raw copy as a spec entry -/

open ZipVerif.Spec.Zip in
/-- The header a raw copy writes IS the spec's local record of the entry `WL.specEntry` describes,
provided the source's recorded compressed size is the length of the raw bytes. -/
theorem rawHeader_is_localRecord (src : FileData) (raw name gap : Bytes) (dp : UInt16) (hs : Nat)
    (hcs : src.compressedSize = UInt64.ofNat raw.length) :
    ser (rawHeader src name dp hs) =
      localRecord (WL.specEntry (rawFile src name hs) dp gap [] raw (rawFile src name hs).versionNeeded) := by
  unfold rawHeader localRecord WL.specEntry localZip64Chunks
  simp only [Entry.hasDesc, Entry.flagsOut, Entry.csize, ← hcs]
  have hd : (Desc.none != Desc.none) = false := by decide
  simp only [hd, Bool.false_eq_true, if_false, Option.getD_some]
  cases hl : (rawFile src name hs).largeFile <;>
    simp [ser, rawFile, newFile, rawOptions, LOCAL_SIG, sigLocal, trunc32, lo32]

end ZipVerif.Model
