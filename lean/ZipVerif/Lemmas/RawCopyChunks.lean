import ZipVerif.Model.RawCopyChunks
import ZipVerif.Lemmas.ShortWrite
import ZipVerif.Lemmas.WriterSat
/-
`Model.rawCopyChunks` (one `writeData` per chunk `io::copy` reads - what the translated
`raw_copy_file_rename` is tied to, `Tie/RawCopy.lean`) against `Model.rawCopy` (one `writeData` of the whole
raw stream - what the properties C02 / C12 / C14 are proved about):

  rawCopy_eq_chunks      `rawCopy raw = rawCopyChunks [raw]` - an equation, every device, every fault index
                         (a source that fits one 8 KiB read);
  writeDataList_split    on a fault-free sink, in data mode, without a 4 GiB refusal: `writeDataList chunks` and
                         `writeData chunks.flatten` end `Ok` with the SAME writer state and the same sink contents
                         and position (the number of I/O calls differs: one per chunk against one);
  rawCopyChunks_split    hence `rawCopyChunks chunks` and `rawCopy chunks.flatten` on a fault-free sink: same
                         outcome, same writer state, same sink contents and position - for every chunking of a raw
                         stream that is not longer than the source entry's `compressed_size` (the raw reader is
                         an `io::Take` of exactly that limit), from every state that satisfies the writer
                         invariant.  This is where the `large_file` decision matters: `compressed_size < 4 GiB - 1`
                         keeps the copy below the limit, `compressed_size ≥ 4 GiB - 1` makes the entry large.
NOT covered: an injected sink fault in the middle of a multi-chunk copy (the chunked copy leaves a prefix of the
stream in the sink and in the statistics, the one-write model nothing) - the fault theorems of C11 speak about
`rawCopy`, i.e. about copies of at most one chunk.
-/
namespace ZipVerif.Model
open ZipVerif

theorem writeDataList_single (raw : Bytes) (s : WState) : writeDataList [raw] s = writeData raw s := by
  unfold writeDataList
  conv => rhs; rw [← bind_pure (writeData raw s)]
  refine bind_congr fun r => ?_
  obtain ⟨r1, s1⟩ := r
  cases r1 <;> rfl

theorem rawCopy_eq_chunks (ext : WExt) (src : FileData) (raw name : Bytes) (s : WState) :
    rawCopy ext src raw name s = rawCopyChunks ext src [raw] name s := by
  unfold rawCopy rawCopyChunks
  simp only [writeDataList_single]
  rfl

namespace GW

/-- Fault-free, in data mode, without a 4 GiB refusal: the chunked copy ends `Ok` in the state and with the sink
effect of ONE `writeData` of the concatenation. -/
theorem writeDataList_run (f : FileData) : ∀ (chunks : List Bytes) (s : WState) (d : Dev),
    (∀ c ∈ chunks, c ≠ []) →
    s.writingToFile = true → s.writingToExtraField = false → s.inner ≠ .closed →
    s.files.getLast? = some f → Fits s f chunks.flatten →
    ∃ d', (d'.buf, d'.pos) = devEff s.inner d chunks.flatten ∧
      writeDataList chunks s none d = (.ok (.ok (), fin s chunks.flatten), d') := by
  intro chunks
  induction chunks with
  | nil =>
    intro s d _ _ _ _ _ _
    refine ⟨d, ?_, ?_⟩
    · simp only [List.flatten_nil, devEff_nil]
    · simp only [List.flatten_nil, fin_nil]; rfl
  | cons c cs ih =>
    intro s d hne hwf hx hcl hf hfit
    have hc : c ≠ [] := hne c (List.mem_cons_self ..)
    obtain ⟨b, bs, rfl⟩ : ∃ b bs, c = b :: bs := by
      cases c with
      | nil => exact absurd rfl hc
      | cons b bs => exact ⟨b, bs, rfl⟩
    simp only [List.flatten_cons] at hfit ⊢
    obtain ⟨d1, he1, hrun1⟩ := writeData_M_data s f hwf hx hcl hf b bs d
    rw [if_pos (fits_prefix hfit)] at hrun1
    have hfit2 : Fits (fin s (b :: bs)) f cs.flatten := (fits_fin s f _ _).mpr hfit
    obtain ⟨d2, he2, hrun2⟩ := ih (fin s (b :: bs)) d1 (fun c hc => hne c (List.mem_cons_of_mem _ hc))
      (by rw [fin_wf]; exact hwf) (by rw [fin_wx]; exact hx) (by rw [fin_inner]; exact absorb_ne_closed hcl _)
      (by rw [fin_files]; exact hf) hfit2
    refine ⟨d2, ?_, ?_⟩
    · rw [he2, fin_inner, devEff_append s.inner d d1 (b :: bs) cs.flatten (by simp) he1]
    · unfold writeDataList
      rw [M.bind_of_ok hrun1]
      dsimp only
      rw [hrun2, fin_fin]

/-- … and so does the single `writeData` of the concatenation: same outcome, same writer state, same sink
contents and position. -/
theorem writeDataList_split (f : FileData) (chunks : List Bytes) (s : WState) (d : Dev)
    (hne : ∀ c ∈ chunks, c ≠ [])
    (hwf : s.writingToFile = true) (hx : s.writingToExtraField = false) (hcl : s.inner ≠ .closed)
    (hf : s.files.getLast? = some f) (hfit : Fits s f chunks.flatten) :
    ∃ o d1 d2, writeDataList chunks s none d = (o, d1) ∧ Model.writeData chunks.flatten s none d = (o, d2) ∧
      d1.buf = d2.buf ∧ d1.pos = d2.pos := by
  obtain ⟨d1, he1, hrun1⟩ := writeDataList_run f chunks s d hne hwf hx hcl hf hfit
  cases hfl : chunks.flatten with
  | nil =>
    rw [hfl] at hrun1 he1
    rw [fin_nil] at hrun1
    rw [devEff_nil] at he1
    simp only [Prod.mk.injEq] at he1
    refine ⟨_, d1, d, hrun1, ?_, he1.1, he1.2⟩
    unfold Model.writeData
    rfl
  | cons b bs =>
    rw [hfl] at hrun1 he1 hfit
    obtain ⟨d2, he2, hrun2⟩ := writeData_M_data s f hwf hx hcl hf b bs d
    rw [if_pos hfit] at hrun2
    rw [← he1] at he2
    simp only [Prod.mk.injEq] at he2
    exact ⟨_, d1, d2, hrun1, hrun2, he2.1.symm, he2.2.symm⟩

end GW

/-! ### what `start_entry` leaves for the copy -/

/-- every value `m` returns satisfies `Q` (any device, any fault index) -/
def AllOk {α} (m : M α) (Q : α → Prop) : Prop := ∀ fa d a d', m fa d = (.ok a, d') → Q a

theorem AllOk.pure {α} {Q : α → Prop} {a : α} (h : Q a) : AllOk (pure a : M α) Q := by
  intro fa d a' d' he
  cases he
  exact h

theorem AllOk.panic {α} {Q : α → Prop} (s : String) : AllOk (M.panic s : M α) Q := by
  intro fa d a' d' he
  cases he

theorem AllOk.bind {α β} {Q : β → Prop} {x : M α} {f : α → M β} (h : ∀ a, AllOk (f a) Q) : AllOk (x >>= f) Q := by
  intro fa d b d' he
  rw [M.bind_apply] at he
  rcases hx : x fa d with ⟨o, d1⟩
  rw [hx] at he
  cases o with
  | ok a => exact h a fa d1 b d' he
  | err e => cases he
  | panic z => cases he

theorem AllOk.io {α β} {Q : Except ZErr β × WState → Prop} {s : WState} {m : M α}
    {k : α → M (Except ZErr β × WState)} (he : Q (.error e0, s) ∨ True) (hs : ∀ e, Q (.error e, s))
    (hk : ∀ a, AllOk (k a) Q) : AllOk (Model.io s m k) Q := by
  unfold Model.io
  apply AllOk.bind
  intro r
  cases r with
  | ok a => exact hk a
  | error e => exact AllOk.pure (hs e)

/-- after `start_entry` returned `Ok`: no byte of the new entry is counted yet, and the new entry (the last
one) carries the `large_file` flag of the options -/
def StartedFor (o : FileOptions) (r : Except ZErr Unit × WState) : Prop :=
  r.1 = .ok () → r.2.statsBytes = 0 ∧ ∃ f, r.2.files.getLast? = some f ∧ f.largeFile = o.largeFile

theorem startEntry_started (ext : WExt) (name : Bytes) (o : FileOptions)
    (raw : Option (UInt32 × UInt64 × UInt64)) (s : WState) :
    AllOk (startEntry ext name o raw s) (StartedFor o) := by
  have herr : ∀ e s', StartedFor o (.error e, s') := fun e s' h => by cases h
  unfold startEntry
  split
  · exact AllOk.pure (herr _ _)
  apply AllOk.bind
  intro ⟨r, s1⟩
  (try dsimp only)
  cases r with
  | error e => exact AllOk.pure (herr _ _)
  | ok u =>
    (try dsimp only)
    split
    · apply AllOk.io (e0 := .invalidArchive) (Or.inr trivial) (herr · _)
      intro headerStart
      (try dsimp only)
      split
      · exact AllOk.panic _
      · exact AllOk.pure (herr _ _)
      · apply AllOk.io (e0 := .invalidArchive) (Or.inr trivial) (herr · _)
        intro _
        apply AllOk.io (e0 := .invalidArchive) (Or.inr trivial) (herr · _)
        intro headerEnd
        (try dsimp only)
        split
        · exact AllOk.pure (fun _ => ⟨rfl, _, List.getLast?_concat .., rfl⟩)
        · exact AllOk.pure (fun _ => ⟨rfl, _, List.getLast?_concat .., rfl⟩)
    · exact AllOk.panic _

/-- the `large_file` decision against the length of the raw stream: a stream not longer than `compressed_size`
never meets the 4 GiB refusal -/
theorem rawCopy_fits (src : FileData) (n : Nat) (hlen : n ≤ src.compressedSize.toNat) :
    n ≤ 0xFFFFFFFF ∨ (rawCopyOptions src).largeFile = true := by
  have et : ZIP64_BYTES_THR.toNat = 4294967295 := by decide
  by_cases hbig : (if src.compressedSize ≥ src.uncompressedSize then src.compressedSize
      else src.uncompressedSize) ≥ ZIP64_BYTES_THR
  · right
    simp only [rawCopyOptions, hbig, decide_true]
  · left
    by_cases hge : src.compressedSize ≥ src.uncompressedSize
    · rw [if_pos hge] at hbig
      simp only [ge_iff_le, UInt64.le_iff_toNat_le, et, Nat.not_le] at hbig
      omega
    · rw [if_neg hge] at hbig
      simp only [ge_iff_le, UInt64.le_iff_toNat_le, et, Nat.not_le] at hbig hge
      omega

/-- **The chunking of `io::copy` is invisible on a fault-free sink.**  From every state that satisfies the writer
invariant, for a source entry with a DOS-representable time, for every chunking (non-empty chunks) of a raw
stream that is not longer than the entry's `compressed_size`: `rawCopyChunks chunks` and `rawCopy` of the
concatenation have the same outcome (value, error, panic) and final writer state, and leave the same bytes in
the sink at the same position.  They differ in the number of I/O calls. -/
theorem rawCopyChunks_split (ext : WExt) (src : FileData) (chunks : List Bytes) (name : Bytes) (s : WState)
    (hI : Inv s) (ho : TimeOk src.time) (hne : ∀ c ∈ chunks, c ≠ [])
    (hlen : chunks.flatten.length ≤ src.compressedSize.toNat) (d : Dev) :
    ∃ o d1 d2, rawCopyChunks ext src chunks name s none d = (o, d1) ∧
      rawCopy ext src chunks.flatten name s none d = (o, d2) ∧ d1.buf = d2.buf ∧ d1.pos = d2.pos := by
  have hR : rawCopy ext src chunks.flatten name s = (do
      let (r, s) ← startEntry ext name (rawCopyOptions src)
        (some (src.crc32, src.compressedSize, src.uncompressedSize)) s
      match r with
      | .error e => pure (.error e, s)
      | .ok () => writeData chunks.flatten { s with writingToFile := true, writingRaw := true }) := rfl
  rw [hR]
  unfold rawCopyChunks
  have hsat := startEntry_sat ext name (rawCopyOptions src)
    (some (src.crc32, src.compressedSize, src.uncompressedSize)) (by exact ho) s hI none d
  have hst := startEntry_started ext name (rawCopyOptions src)
    (some (src.crc32, src.compressedSize, src.uncompressedSize)) s none d
  rcases hse : startEntry ext name (rawCopyOptions src)
    (some (src.crc32, src.compressedSize, src.uncompressedSize)) s none d with ⟨o, d0⟩
  cases o with
  | err e => exact ⟨.err e, d0, d0, by rw [M.bind_apply, hse], by rw [M.bind_apply, hse], rfl, rfl⟩
  | panic z => exact ⟨.panic z, d0, d0, by rw [M.bind_apply, hse], by rw [M.bind_apply, hse], rfl, rfl⟩
  | ok p =>
    obtain ⟨r, s1⟩ := p
    rw [M.bind_of_ok hse, M.bind_of_ok hse]
    cases r with
    | error e => exact ⟨_, d0, d0, rfl, rfl, rfl, rfl⟩
    | ok u =>
      unfold Sat at hsat
      rw [hse] at hsat
      obtain ⟨hI1, hp⟩ := hsat
      obtain ⟨hwe, hco, hwf, hwr, hin, f, hf, _, _⟩ := hp () rfl
      obtain ⟨hb0, f', hf', hlf⟩ := hst _ _ hse rfl
      dsimp only at hwe hin hf hb0 hf'
      have hff : f' = f := by rw [hf] at hf'; exact (Option.some.inj hf').symm
      subst hff
      have hin' : s1.inner = .storer none := by rw [hin]; rfl
      dsimp only
      refine GW.writeDataList_split f' chunks _ d0 hne rfl hwe (by show s1.inner ≠ .closed; rw [hin']; simp) hf ?_
      show s1.statsBytes + chunks.flatten.length ≤ 0xFFFFFFFF ∨ f'.largeFile = true
      rw [hb0, hlf, Nat.zero_add]
      exact rawCopy_fits src _ hlen

end ZipVerif.Model
