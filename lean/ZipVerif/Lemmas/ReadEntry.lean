import ZipVerif.Lemmas.ReadWf
/-
Reading entries of `Spec.Zip.build l` through the archive value `ZipArchive::new` returns for it:
`find_content`, `by_index_raw`, `by_index` (+ read to end), lookup by name.
-/

namespace ZipVerif.Model
open ZipVerif ZipVerif.Spec.Zip

/-- `find_content` on the view of an entry whose local record really lies at `off + pre`. -/
theorem runs_findContent {B rest : Bytes} (e : Entry) (off pre chs p0 : Nat) (hf : e.Fits)
    (hb : off + pre + (localRecord e).length < 2 ^ 63)
    (hd : B.drop (off + pre) = localRecord e ++ rest) :
    Runs (findContent (viewEntry e off pre chs)) B p0 (.ok (e.dataStart off pre)) (e.dataStart off pre) := by
  obtain ⟨fixed, hfl, hrec⟩ := localRecord_eq e
  have hlen := localRecord_length e
  obtain ⟨hn, _, hxl, _, _, _⟩ := hf
  have hxl' : e.localExtraAll.length ≤ 65535 := by
    unfold Entry.localExtraAll
    revert hxl; cases e.localZip64 <;> simp <;> omega
  have hs : (viewEntry e off pre chs).headerStart.toNat = off + pre := u64_ofNat_toNat (by omega)
  rw [hrec] at hd
  simp only [List.append_assoc] at hd
  have hd2 := drop_past (drop_past hd)
  unfold findContent
  rw [hs]
  refine Runs.bind (Runs.seek_start _) ?_
  refine Runs.bind (Runs.readU32 hd) ?_
  rw [if_neg (by decide)]
  refine Runs.bind (Runs.seek_cur 22) ?_
  have e1 : off + pre + 4 + 22 = off + pre + (le32 sigLocal).length + fixed.length := by simp [hfl]
  rw [e1]
  refine Runs.bind (Runs.readU16 hd2) ?_
  refine Runs.bind (Runs.readU16 (drop_past hd2)) ?_
  rw [ofNat_toNat_of_le hn, ofNat_toNat_of_le hxl']
  have e2 : off + pre + 30 + e.name.length + e.localExtraAll.length = e.dataStart off pre := by
    simp [Entry.dataStart]; omega
  rw [e2, if_neg (by simp only [Entry.dataStart] at e2 ⊢; omega)]
  refine Runs.bind (Runs.seek_start _) ?_
  exact Runs.pure _


theorem runs_takeAll {B x rest : Bytes} {p : Nat} (h : B.drop p = x ++ rest) :
    Runs (takeAll x.length) B p (.ok x) (p + x.length) := by
  unfold takeAll
  by_cases h0 : x.length = 0
  · rw [if_pos h0]
    have : x = [] := List.eq_nil_of_length_eq_zero h0
    subst this
    exact Runs.pure _
  · rw [if_neg h0]
    have ht : (B.drop p).take x.length = x := by rw [h]; simp
    refine Runs.bind (a := x) ((Runs.read x.length).cast (by rw [ht]) (by rw [ht])) ?_
    rw [if_pos rfl]
    exact Runs.pure _

/-- the archive value `ZipArchive::new` returns for `build l` -/
def archiveOf (l : Layout) : Archive := { files := viewOf l, offset := l.pre.length, comment := l.comment }

/-- Everything the entry readers need to know about entry `i` of `build l`. -/
theorem entry_at (l : Layout) (hF : l.Fits) (i : Nat) (e : Entry) (he : l.entries[i]? = some e) :
    ∃ off chs rest, (localOffsets l.entries 0)[i]? = some off ∧
      (archiveOf l).files[i]? = some (viewEntry e off l.pre.length chs) ∧
      (build l).drop (off + l.pre.length) = localRecord e ++ (e.data ++ rest) ∧
      off + l.pre.length + (localRecord e).length + e.data.length < 2 ^ 63 := by
  obtain ⟨es1, es2, chs, h1, h2, h3, h4⟩ := viewList_getElem l.pre.length l.entries 0 l.cdStart i e he
  obtain ⟨rest, hr⟩ := drop_local l es1 es2 e h1
  refine ⟨_, chs, rest, h3, h4, ?_, ?_⟩
  · rw [← hr]; congr 1; omega
  · have hb := fits_bounds l hF
    rw [h1, localsBytes_append, localsBytes_cons] at hb
    simp only [List.length_append, Entry.localBytes] at hb
    omega

theorem runs_byIndexRaw (l : Layout) (hF : l.Fits) (i : Nat) (e : Entry) (he : l.entries[i]? = some e)
    (p0 : Nat) :
    ∃ off, (localOffsets l.entries 0)[i]? = some off ∧
      Runs (byIndexRaw (archiveOf l) i) (build l) p0 (.ok (e.dataStart off l.pre.length, e.data))
        (e.dataStart off l.pre.length + e.data.length) := by
  obtain ⟨off, chs, rest, h1, h2, h3, h4⟩ := entry_at l hF i e he
  have hfe := hF.1 e (List.mem_of_getElem? he)
  refine ⟨off, h1, ?_⟩
  unfold byIndexRaw
  rw [h2]
  dsimp only
  refine Runs.bind (runs_findContent e off l.pre.length chs p0 hfe (by omega) h3) ?_
  have hds : (build l).drop (e.dataStart off l.pre.length) = e.data ++ rest := by
    have := drop_past h3
    rw [localRecord_length] at this
    rw [← this]; congr 1; simp [Entry.dataStart]; omega
  have hcs : (viewEntry e off l.pre.length chs).compressedSize.toNat = e.data.length :=
    u64_ofNat_toNat (by omega)
  rw [hcs]
  refine Runs.bind (runs_takeAll hds) ?_
  exact Runs.pure _


theorem runs_byIndexRead (ext : Ext) (l : Layout) (hF : l.Fits) (i : Nat) (e : Entry)
    (he : l.entries[i]? = some e) (pw : Option Bytes)
    (henc : (e.flagsOut &&& 1 == 1) = false) (hdec : (Method.fromU16 e.method).decodable = true)
    (p0 : Nat) :
    ∃ off, (localOffsets l.entries 0)[i]? = some off ∧
      Runs (byIndexRead ext (archiveOf l) i pw) (build l) p0
        (.ok (.ok (e.dataStart off l.pre.length,
          ext.decode (Method.fromU16 e.method) e.data >>= fun dec => crcCheck false e.crc dec)))
        (e.dataStart off l.pre.length + e.data.length) := by
  obtain ⟨off, chs, rest, h1, h2, h3, h4⟩ := entry_at l hF i e he
  have hfe := hF.1 e (List.mem_of_getElem? he)
  refine ⟨off, h1, ?_⟩
  have hds : (build l).drop (e.dataStart off l.pre.length) = e.data ++ rest := by
    have := drop_past h3
    rw [localRecord_length] at this
    rw [← this]; congr 1; simp [Entry.dataStart]; omega
  have hcs : (viewEntry e off l.pre.length chs).compressedSize.toNat = e.data.length :=
    u64_ofNat_toNat (by omega)
  have hfc := runs_findContent e off l.pre.length chs p0 hfe (by omega) h3
  have hta := runs_takeAll hds
  unfold byIndexRead
  rw [h2]
  dsimp only
  have henc' : (viewEntry e off l.pre.length chs).encrypted = false := henc
  rw [henc', if_neg (by simp)]
  refine Runs.bind hfc ?_
  have hm : (viewEntry e off l.pre.length chs).method = Method.fromU16 e.method := rfl
  have ha : (viewEntry e off l.pre.length chs).aesMode = none := rfl
  have hc : (viewEntry e off l.pre.length chs).crc32 = e.crc := rfl
  rw [hm, ha, hcs, hc]
  generalize Method.fromU16 e.method = m at hdec
  cases m <;> simp only [Method.decodable] at hdec <;> try contradiction
  all_goals
    dsimp only [Bool.false_eq_true, if_false]
    refine Runs.bind hta ?_
    exact Runs.pure _


theorem runs_byIndexRead_unsupported (ext : Ext) (l : Layout) (hF : l.Fits) (i : Nat) (e : Entry)
    (he : l.entries[i]? = some e) (pw : Option Bytes)
    (hpw : (pw.isNone && (e.flagsOut &&& 1 == 1)) = false) (v : UInt16)
    (hm : Method.fromU16 e.method = .unsupported v) (p0 : Nat) :
    ∃ q, Runs (byIndexRead ext (archiveOf l) i pw) (build l) p0 (.err .unsupportedArchive) q := by
  obtain ⟨off, chs, rest, h1, h2, h3, h4⟩ := entry_at l hF i e he
  have hfe := hF.1 e (List.mem_of_getElem? he)
  have hfc := runs_findContent e off l.pre.length chs p0 hfe (by omega) h3
  refine ⟨e.dataStart off l.pre.length, ?_⟩
  unfold byIndexRead
  rw [h2]
  dsimp only
  have henc' : (viewEntry e off l.pre.length chs).encrypted = (e.flagsOut &&& 1 == 1) := rfl
  rw [henc', hpw, if_neg (by simp)]
  refine Runs.bind hfc ?_
  have hm' : (viewEntry e off l.pre.length chs).method = .unsupported v := hm
  rw [hm']
  exact Runs.throw _

/-! ### lookup by name -/

theorem getLast_filter_range (p : Nat → Bool) : ∀ n i,
    ((List.range n).filter p).getLast? = some i ↔
      (i < n ∧ p i = true ∧ ∀ j, i < j → j < n → p j = false) := by
  intro n
  induction n with
  | zero => intro i; simp
  | succ n ih =>
    intro i
    rw [List.range_succ, List.filter_append]
    by_cases hp : p n = true
    · have : List.filter p [n] = [n] := by simp [hp]
      rw [this, List.getLast?_concat]
      constructor
      · intro h; cases h
        exact ⟨by omega, hp, fun j h1 h2 => by omega⟩
      · rintro ⟨h1, h2, h3⟩
        by_cases hi : i = n
        · rw [hi]
        · have := h3 n (by omega) (by omega)
          rw [hp] at this; cases this
    · have : List.filter p [n] = [] := by simp [hp]
      rw [this, List.append_nil, ih]
      have hp' : p n = false := by simpa using hp
      constructor
      · rintro ⟨h1, h2, h3⟩
        refine ⟨by omega, h2, fun j hj1 hj2 => ?_⟩
        by_cases hj : j = n
        · rw [hj]; exact hp'
        · exact h3 j hj1 (by omega)
      · rintro ⟨h1, h2, h3⟩
        have hi : i ≠ n := by intro h; rw [h, hp'] at h2; cases h2
        exact ⟨by omega, h2, fun j hj1 hj2 => h3 j hj1 (by omega)⟩

theorem getLast_filter_range_none (p : Nat → Bool) (n : Nat) :
    ((List.range n).filter p).getLast? = none ↔ ∀ j, j < n → p j = false := by
  rw [List.getLast?_eq_none_iff, List.filter_eq_nil_iff]
  simp

/-- **lookup by name returns the LAST entry with that name** -/
theorem indexOfName_eq_some (a : Archive) (name : Bytes) (i : Nat) :
    a.indexOfName name = some i ↔
      ((∃ f, a.files[i]? = some f ∧ f.fileName = name) ∧
        ∀ j g, i < j → a.files[j]? = some g → g.fileName ≠ name) := by
  unfold Archive.indexOfName
  rw [getLast_filter_range]
  constructor
  · rintro ⟨h1, h2, h3⟩
    have hi : a.files[i]? = some a.files[i] := List.getElem?_eq_getElem h1
    rw [hi] at h2
    refine ⟨⟨a.files[i], hi, by simpa using h2⟩, ?_⟩
    intro j g hj hg
    have hjn : j < a.files.length := by
      rcases Nat.lt_or_ge j a.files.length with h | h
      · exact h
      · rw [List.getElem?_eq_none h] at hg; cases hg
    have := h3 j hj hjn
    rw [hg] at this
    simpa using this
  · rintro ⟨⟨f, hf, hn⟩, h3⟩
    have hi : i < a.files.length := by
      rcases Nat.lt_or_ge i a.files.length with h | h
      · exact h
      · rw [List.getElem?_eq_none h] at hf; cases hf
    refine ⟨hi, by rw [hf]; simpa using hn, ?_⟩
    intro j hj hjn
    have hg : a.files[j]? = some a.files[j] := List.getElem?_eq_getElem hjn
    rw [hg]
    have := h3 j _ hj hg
    simpa using this

theorem indexOfName_eq_none (a : Archive) (name : Bytes) :
    a.indexOfName name = none ↔ ∀ f ∈ a.files, f.fileName ≠ name := by
  unfold Archive.indexOfName
  rw [getLast_filter_range_none]
  constructor
  · intro h f hf
    obtain ⟨j, hj, rfl⟩ := List.getElem_of_mem hf
    have := h j hj
    rw [List.getElem?_eq_getElem hj] at this
    simpa using this
  · intro h j hj
    rw [List.getElem?_eq_getElem hj]
    have := h a.files[j] (List.getElem_mem hj)
    simpa using this

/-! ### attributes → Unix mode -/

theorem nat_and16 (x : Nat) : x &&& 16 = 16 * (x / 16 % 2) := by
  have h1 : (x &&& 16) % 2 ^ 4 = 0 := by rw [Nat.and_mod_two_pow]; simp
  have h2 : (x &&& 16) / 2 ^ 4 = x / 16 % 2 := by
    rw [Nat.and_div_two_pow]
    exact Nat.and_two_pow_sub_one_eq_mod (x / 2 ^ 4) 1
  have := Nat.div_add_mod (x &&& 16) (2 ^ 4)
  rw [h1, h2] at this
  omega

theorem u8_beq (a k : UInt8) : (a == k) = decide (a.toNat = k.toNat) := by
  by_cases h : a = k
  · subst h; simp
  · have : a.toNat ≠ k.toNat := fun h' => h (UInt8.toNat_inj.mp h')
    rw [beq_false_of_ne h]; exact (decide_eq_false this).symm

theorem system_of_madeBy (mb : UInt16) :
    System.fromU8 (mb >>> 8).toUInt8 =
      if mb.toNat / 256 = 0 then .dos else if mb.toNat / 256 = 3 then .unix else .unknown := by
  have hn : (mb >>> 8).toUInt8.toNat = mb.toNat / 256 := by
    rw [UInt16.toNat_toUInt8, UInt16.toNat_shiftRight]
    have : (8 : UInt16).toNat % 16 = 8 := by decide
    rw [this, Nat.shiftRight_eq_div_pow]
    have := mb.toNat_lt
    omega
  unfold System.fromU8
  have e0 : ((mb >>> 8).toUInt8 == 0) = decide (mb.toNat / 256 = 0) := by
    have := u8_beq (mb >>> 8).toUInt8 0; rw [hn] at this; exact this
  have e3 : ((mb >>> 8).toUInt8 == 3) = decide (mb.toNat / 256 = 3) := by
    have := u8_beq (mb >>> 8).toUInt8 3; rw [hn] at this; exact this
  rw [e0, e3]
  by_cases h0 : mb.toNat / 256 = 0 <;> by_cases h3 : mb.toNat / 256 = 3 <;> simp [h0, h3]


theorem u32_beq (a k : UInt32) : (a == k) = decide (a.toNat = k.toNat) := by
  by_cases h : a = k
  · subst h; simp
  · have : a.toNat ≠ k.toNat := fun h' => h (UInt32.toNat_inj.mp h')
    rw [beq_false_of_ne h]; exact (decide_eq_false this).symm

/-- `ZipFileData::unix_mode` is the documented host-system mapping. -/
theorem unixMode_eq_spec (f : FileData) (mb : UInt16)
    (hs : f.system = System.fromU8 (mb >>> 8).toUInt8) :
    f.unixMode.map UInt32.toNat = unixModeSpec mb f.externalAttributes := by
  unfold FileData.unixMode unixModeSpec
  rw [hs, system_of_madeBy, u32_beq]
  have z : (0 : UInt32).toNat = 0 := rfl
  rw [z]
  by_cases h0 : f.externalAttributes.toNat = 0
  · simp [h0]
  · simp only [h0, decide_false, Bool.false_eq_true, if_false]
    by_cases hu : mb.toNat / 256 = 3
    · have hd : ¬ mb.toNat / 256 = 0 := by omega
      rw [if_neg hd, if_pos hu, if_pos hu]
      simp only [Option.map_some]
      rw [UInt32.toNat_shiftRight]
      have e : (16 : UInt32).toNat % 32 = 16 := by decide
      rw [e, Nat.shiftRight_eq_div_pow]
    · by_cases hd : mb.toNat / 256 = 0
      · rw [if_pos hd, if_neg hu, if_pos hd]
        simp only [Option.map_some]
        have hdir : (0x10 == (f.externalAttributes &&& 0x10)) =
            decide (f.externalAttributes.toNat / 16 % 2 = 1) := by
          rw [u32_beq, UInt32.toNat_and]
          have e : (0x10 : UInt32).toNat = 16 := by decide
          rw [e, nat_and16]
          by_cases h : f.externalAttributes.toNat / 16 % 2 = 1
          · simp [h]
          · have : f.externalAttributes.toNat / 16 % 2 = 0 := by omega
            simp [this]
        have hro : (0x01 == (f.externalAttributes &&& 0x01)) =
            decide (f.externalAttributes.toNat % 2 = 1) := by
          rw [u32_beq, UInt32.toNat_and]
          have e : (0x01 : UInt32).toNat = 1 := by decide
          rw [e, Nat.and_one_is_mod]
          by_cases h : f.externalAttributes.toNat % 2 = 1
          · simp [h]
          · have : f.externalAttributes.toNat % 2 = 0 := by omega
            simp [this]
        rw [hdir, hro]
        by_cases h1 : f.externalAttributes.toNat / 16 % 2 = 1 <;>
          by_cases h2 : f.externalAttributes.toNat % 2 = 1 <;>
          simp only [h1, h2, decide_true, decide_false, if_true, Bool.false_eq_true, if_false] <;> decide
      · rw [if_neg hd, if_neg hu, if_neg hu, if_neg hd]
        rfl

end ZipVerif.Model
