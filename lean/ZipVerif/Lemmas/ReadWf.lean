import ZipVerif.Lemmas.CentralParse
import ZipVerif.Lemmas.ZipLayout
/-
`ZipArchive::new` on `Spec.Zip.build l`: the EOCD search, the ZIP64 locator probe, the ZIP64 forward
search, the central-directory loop.
-/

namespace ZipVerif.Model
open ZipVerif ZipVerif.Spec.Zip

/-! ### reading an arbitrary 32-bit word -/

theorem Runs.readU32_raw {B : Bytes} {p : Nat} {a b c d : UInt8} {rest : Bytes}
    (h : B.drop p = a :: b :: c :: d :: rest) : Runs M.readU32 B p (.ok (mk32 a b c d)) (p + 4) := by
  unfold M.readU32
  refine Runs.bind (Runs.readExact' (x := [a, b, c, d]) h rfl) ?_
  exact Runs.pure _

theorem Runs.readU32_any {B : Bytes} {p : Nat} (h : p + 4 ≤ B.length) :
    ∃ w, u32At B p = some w ∧ Runs M.readU32 B p (.ok w) (p + 4) := by
  have hl : 4 ≤ (B.drop p).length := by rw [List.length_drop]; omega
  match hd : B.drop p, hl with
  | a :: b :: c :: d :: rest, _ =>
    exact ⟨mk32 a b c d, by simp [u32At, hd, rd32], Runs.readU32_raw hd⟩

theorem u32At_of_drop {B rest : Bytes} {p : Nat} {v : UInt32} (h : B.drop p = le32 v ++ rest) :
    u32At B p = some v := by
  simp [u32At, h]

/-! ### `CentralDirectoryEnd::find_and_parse` -/

theorem runs_findEocdLoop {B : Bytes} {real bound top q : Nat} {E : Eocd}
    (hfound : u32At B real = some EOCD_SIG) (hparse : Runs parseEocd B real (.ok E) q)
    (hb : bound ≤ real) (htop : top + 4 ≤ B.length)
    (hnf : ∀ k, real < k → k ≤ top → u32At B k ≠ some EOCD_SIG) :
    ∀ (fuel pos p0 : Nat), real ≤ pos → pos ≤ top → pos - real < fuel →
      Runs (findEocdLoop bound fuel pos) B p0 (.ok (E, real)) q := by
  intro fuel
  induction fuel with
  | zero => intro pos p0 _ _ h; omega
  | succ n ih =>
    intro pos p0 h1 h2 h3
    unfold findEocdLoop
    rw [if_neg (by omega)]
    refine Runs.bind (Runs.seek_start pos) ?_
    obtain ⟨w, hw, hr⟩ := Runs.readU32_any (B := B) (p := pos) (by omega)
    refine Runs.bind hr ?_
    by_cases hpos : pos = real
    · subst hpos
      rw [hfound] at hw
      cases hw
      rw [if_pos (by decide)]
      refine Runs.bind (Runs.seek_cur 16) ?_
      refine Runs.bind (Runs.seek_start pos) ?_
      refine Runs.bind hparse ?_
      exact Runs.pure _
    · have hne : w ≠ EOCD_SIG := by
        intro h; subst h; exact hnf pos (by omega) h2 hw
      rw [if_neg (by simpa using hne), if_neg (by omega)]
      exact ih (pos - 1) _ (by omega) (by omega) (by omega)

theorem runs_findAndParseEocd {B : Bytes} {real q p0 : Nat} {E : Eocd}
    (hfound : u32At B real = some EOCD_SIG) (hparse : Runs parseEocd B real (.ok E) q)
    (hlen : real + 22 ≤ B.length) (hwin : B.length ≤ real + 22 + 65535)
    (hnf : ∀ k, real < k → k + 22 ≤ B.length → u32At B k ≠ some EOCD_SIG) :
    Runs findAndParseEocd B p0 (.ok (E, real)) q := by
  unfold findAndParseEocd
  have hs := Runs.seek_end (B := B) (p := p0) (off := 0) (by omega)
  have e : ((B.length : Int) + 0).toNat = B.length := by omega
  rw [e] at hs
  refine Runs.bind hs ?_
  rw [if_neg (by omega)]
  exact runs_findEocdLoop hfound hparse (by omega) (top := B.length - 22) (by omega)
    (fun k h1 h2 => hnf k h1 (by omega)) _ _ _ (by omega) (Nat.le_refl _) (by omega)

/-! ### ZIP64 locator probe and `get_directory_counts` -/

theorem parses_locator {p : Nat} (dw : UInt32) (off : UInt64) (disks : UInt32) :
    Parses parseLocator p (le32 LOCATOR_SIG ++ (le32 dw ++ (le64 off ++ le32 disks)))
      { diskWithCd := dw, eocd64Offset := off, disks := disks } := by
  unfold parseLocator
  refine Parses.bind (Parses.readU32 _) ?_
  rw [if_neg (by decide)]
  refine Parses.bind (Parses.readU32 _) ?_
  refine Parses.bind (Parses.readU64 _) ?_
  refine Parses.bind_last (Parses.readU32 _) ?_
  exact Parses.pure _

theorem runs_locator_absent {B : Bytes} {p : Nat} (hl : p + 4 ≤ B.length)
    (h : u32At B p ≠ some LOCATOR_SIG) :
    Runs parseLocator B p (.err .invalidArchive) (p + 4) := by
  unfold parseLocator
  obtain ⟨w, hw, hr⟩ := Runs.readU32_any hl
  refine Runs.bind hr ?_
  have hne : w ≠ LOCATOR_SIG := by intro e; subst e; exact h hw
  rw [if_pos (by simpa using hne)]
  exact Runs.throw _

/-- `get_directory_counts` when no ZIP64 locator sits in front of the end record.  `hroom`: the end record
and its comment lie inside the file (so, when the record starts at 20 or later, the probe position is not
negative); with the record less than 20 bytes into the file nothing is probed at all. -/
theorem runs_getDirectoryCounts_plain {B : Bytes} {footer : Eocd} {cdeStart p0 : Nat}
    (hprobe : 42 + footer.comment.length ≤ B.length →
      u32At B (B.length - 42 - footer.comment.length) ≠ some LOCATOR_SIG)
    (hroom : 20 ≤ cdeStart → 42 + footer.comment.length ≤ B.length)
    (h : footer.cdSize.toNat + footer.cdOffset.toNat ≤ cdeStart) :
    ∃ q, Runs (getDirectoryCounts footer cdeStart) B p0
      (.ok (cdeStart - footer.cdSize.toNat - footer.cdOffset.toNat,
            footer.cdOffset.toNat + (cdeStart - footer.cdSize.toNat - footer.cdOffset.toNat),
            footer.filesOnDisk.toNat)) q := by
  unfold getDirectoryCounts
  by_cases h20 : cdeStart < 20
  · refine ⟨p0, ?_⟩
    rw [if_pos h20]
    refine Runs.bind (Runs.pure _) ?_
    dsimp only
    rw [if_neg (by omega)]
    exact Runs.pure _
  · have hlen := hroom (by omega)
    refine ⟨B.length - 42 - footer.comment.length + 4, ?_⟩
    rw [if_neg h20]
    have hs := Runs.seek_end (B := B) (p := p0) (off := -(20 + 22 + (footer.comment.length : Int))) (by omega)
    have e : ((B.length : Int) + -(20 + 22 + (footer.comment.length : Int))).toNat =
        B.length - 42 - footer.comment.length := by omega
    rw [e] at hs
    refine Runs.bind (?_ : Runs _ B p0 (.ok none) (B.length - 42 - footer.comment.length + 4)) ?_
    · refine Runs.bind hs ?_
      refine Runs.bind (Runs.attempt_err (runs_locator_absent (by omega) (hprobe hlen))) ?_
      dsimp only
      exact Runs.pure _
    · dsimp only
      rw [if_neg (by omega)]
      exact Runs.pure _


/-! ### `Zip64CentralDirectoryEnd::find_and_parse` (forward search) -/

theorem runs_findEocd64Loop {B rest : Bytes} {real nominal upper : Nat}
    {rs : UInt64} {vm vn : UInt16} {dn dw : UInt32} {fd f sz off : UInt64}
    (hrec : B.drop real = le32 EOCD64_SIG ++ (le64 rs ++ (le16 vm ++ (le16 vn ++ (le32 dn ++ (le32 dw ++
      (le64 fd ++ (le64 f ++ (le64 sz ++ (le64 off ++ rest))))))))))
    (hup : real ≤ upper)
    (hnf : ∀ k, nominal ≤ k → k < real → u32At B k ≠ some EOCD64_SIG) :
    ∀ (fuel pos p0 : Nat), nominal ≤ pos → pos ≤ real → real - pos < fuel →
      Runs (findEocd64Loop nominal upper fuel pos) B p0
        (.ok ({ versionMadeBy := vm, versionNeeded := vn, diskNumber := dn, diskWithCd := dw,
                filesOnDisk := fd, files := f, cdSize := sz, cdOffset := off }, real - nominal))
        (real + 56) := by
  have hlen : real + 56 ≤ B.length := by
    have := congrArg List.length hrec
    simp only [List.length_drop, List.length_append, le16_length, le32_length, le64_length] at this
    omega
  intro fuel
  induction fuel with
  | zero => intro pos p0 _ _ h; omega
  | succ n ih =>
    intro pos p0 h1 h2 h3
    unfold findEocd64Loop
    rw [if_neg (by omega)]
    refine Runs.bind (Runs.seek_start pos) ?_
    by_cases hpos : pos = real
    · subst hpos
      refine Runs.bind (Runs.readU32 hrec) ?_
      rw [if_pos (by decide)]
      have hd : B.drop (pos + 4) = (le64 rs ++ (le16 vm ++ (le16 vn ++ (le32 dn ++ (le32 dw ++
            (le64 fd ++ (le64 f ++ (le64 sz ++ le64 off)))))))) ++ rest := by
        have := drop_past hrec
        simpa [List.append_assoc] using this
      refine (Parses.toRuns ?_ hd).cast rfl (by simp)
      refine Parses.bind (Parses.readU64 _) ?_
      refine Parses.bind (Parses.readU16 _) ?_
      refine Parses.bind (Parses.readU16 _) ?_
      refine Parses.bind (Parses.readU32 _) ?_
      refine Parses.bind (Parses.readU32 _) ?_
      refine Parses.bind (Parses.readU64 _) ?_
      refine Parses.bind (Parses.readU64 _) ?_
      refine Parses.bind (Parses.readU64 _) ?_
      refine Parses.bind_last (Parses.readU64 _) ?_
      exact Parses.pure _
    · obtain ⟨w, hw, hr⟩ := Runs.readU32_any (B := B) (p := pos) (by omega)
      refine Runs.bind hr ?_
      have hne : w ≠ EOCD64_SIG := by
        intro h; subst h; exact hnf pos h1 (by omega) hw
      rw [if_neg (by simpa using hne)]
      exact ih (pos + 1) _ (by omega) (by omega) (by omega)


/-- `get_directory_counts` when the ZIP64 locator is present and the forward search finds the ZIP64
end record at `real` (its nominal, prefix-less position being `loff`). -/
theorem runs_getDirectoryCounts_z64 {B rest rest' : Bytes} {footer : Eocd} {cdeStart p0 real : Nat}
    {ldw ldisks : UInt32} {loff : UInt64}
    {rs : UInt64} {vm vn : UInt16} {dn : UInt32} {fd f sz off : UInt64}
    (hlen : 42 + footer.comment.length ≤ B.length)
    (hloc : B.drop (B.length - 42 - footer.comment.length) =
      le32 LOCATOR_SIG ++ (le32 ldw ++ (le64 loff ++ le32 ldisks)) ++ rest')
    (hdisk : (!footer.recordTooSmall && footer.diskNumber.toUInt32 != ldw) = false)
    (hrec : B.drop real = le32 EOCD64_SIG ++ (le64 rs ++ (le16 vm ++ (le16 vn ++ (le32 dn ++ (le32 dn ++
      (le64 fd ++ (le64 f ++ (le64 sz ++ (le64 off ++ rest))))))))))
    (h60 : 60 ≤ cdeStart) (hup : real ≤ cdeStart - 60) (hnom : loff.toNat ≤ real)
    (hnf : ∀ k, loff.toNat ≤ k → k < real → u32At B k ≠ some EOCD64_SIG)
    (hds : off.toNat + (real - loff.toNat) < 2 ^ 64) :
    Runs (getDirectoryCounts footer cdeStart) B p0
      (.ok (real - loff.toNat, off.toNat + (real - loff.toNat), f.toNat)) (real + 56) := by
  unfold getDirectoryCounts
  have hs := Runs.seek_end (B := B) (p := p0) (off := -(20 + 22 + (footer.comment.length : Int))) (by omega)
  have e : ((B.length : Int) + -(20 + 22 + (footer.comment.length : Int))).toNat =
      B.length - 42 - footer.comment.length := by omega
  rw [e] at hs
  rw [if_neg (by omega)]
  refine Runs.bind (?_ : Runs _ B p0 (.ok (some ⟨ldw, loff, ldisks⟩)) (B.length - 42 - footer.comment.length + 20)) ?_
  · refine Runs.bind hs ?_
    refine Runs.bind (Runs.attempt_ok ((parses_locator ldw loff ldisks).toRuns hloc)) ?_
    dsimp only
    exact Runs.pure _
  dsimp only
  rw [hdisk, if_neg (by simp), if_neg (by omega)]
  unfold findEocd64
  refine Runs.bind (runs_findEocd64Loop hrec hup hnf _ _ _ (Nat.le_refl _) hnom (by omega)) ?_
  dsimp only
  rw [if_neg (by simp), if_neg (by omega)]
  exact Runs.pure _

/-! ### the central-directory loop -/

theorem parses_centralLoop (ao : Nat) : ∀ (es : List Entry) (loc chs : Nat),
    (∀ e ∈ es, e.Fits ∧ e.Readable) → loc + (localsBytes es).length + ao < 2 ^ 64 →
    Parses (readCentralLoop ao es.length) chs (centralBytes es (localOffsets es loc))
      (viewList ao es loc chs) := by
  intro es
  induction es with
  | nil => intro loc chs _ _; exact Parses.pure _
  | cons e es ih =>
    intro loc chs hall hb
    have he := hall e (List.mem_cons_self)
    rw [localsBytes_cons, List.length_append] at hb
    have hlb : e.gapBefore.length ≤ e.localBytes.length := by
      simp only [Entry.localBytes, List.length_append]; omega
    show Parses (readCentralLoop ao (es.length + 1)) chs
      (centralRecord e (UInt64.ofNat (loc + e.gapBefore.length)) ++
        centralBytes es (localOffsets es (loc + e.localBytes.length))) _
    unfold readCentralLoop
    refine Parses.bind (parses_centralHeader e _ ao chs he.1 he.2.1 he.2.2 (by omega)) ?_
    refine Parses.bind_last (ih _ _ (fun x hx => hall x (List.mem_cons_of_mem _ hx)) (by omega)) ?_
    exact Parses.pure _

/-! ### `ZipArchive::new` -/

/-- the end record a parser must recover from `l.eocd` -/
def eocdOf (l : Layout) : Eocd :=
  let f := l.zip64End
  let n16 : UInt16 := if f || l.count > 0xFFFF then 0xFFFF else UInt16.ofNat l.count
  { diskNumber := 0, diskWithCd := 0, filesOnDisk := n16, files := n16
    cdSize := if f || l.cdSize > 0xFFFFFFFF then 0xFFFFFFFF else UInt32.ofNat l.cdSize
    cdOffset := if f || l.cdOffset > 0xFFFFFFFF then 0xFFFFFFFF else UInt32.ofNat l.cdOffset
    comment := l.comment }

theorem runs_parseEocd_build (l : Layout) (hc : l.comment.length ≤ 0xFFFF) :
    Runs parseEocd (build l) l.eocdPos (.ok (eocdOf l)) (l.eocdPos + 22 + l.comment.length) := by
  have hd := drop_eocdPos l
  have hp := parses_eocd (p := l.eocdPos) (eocdOf l).diskNumber (eocdOf l).diskWithCd
    (eocdOf l).filesOnDisk (eocdOf l).files (eocdOf l).cdSize (eocdOf l).cdOffset l.comment hc
  refine (hp.toRuns (rest := l.trailing) ?_).cast rfl ?_
  · rw [hd]
    simp only [Layout.eocd, eocdOf, List.append_assoc]
    rfl
  · simp; omega

theorem u32At_eocdPos (l : Layout) : u32At (build l) l.eocdPos = some EOCD_SIG := by
  have hd := drop_eocdPos l
  refine u32At_of_drop (rest := ?_) ?_
  · exact (le16 0 ++ le16 0 ++ le16 (eocdOf l).files ++ le16 (eocdOf l).files ++ le32 (eocdOf l).cdSize ++
      le32 (eocdOf l).cdOffset ++ le16 (UInt16.ofNat l.comment.length) ++ l.comment) ++ l.trailing
  · rw [hd]
    simp only [Layout.eocd, eocdOf, List.append_assoc]
    rfl


theorem plain_facts (l : Layout) (h64 : l.needs64 = false) :
    l.end64 = [] ∧ (eocdOf l).cdSize.toNat = l.cdSize ∧ (eocdOf l).cdOffset.toNat = l.cdOffset ∧
    (eocdOf l).filesOnDisk.toNat = l.count ∧ l.eocdPos = l.pre.length + l.cdOffset + l.cdSize := by
  have h := h64
  simp only [Layout.needs64, Bool.or_eq_false_iff, decide_eq_false_iff_not, Nat.not_lt] at h
  obtain ⟨⟨⟨h1, h2⟩, h3⟩, h4⟩ := h
  have he : l.end64 = [] := by simp [Layout.end64, h64]
  refine ⟨he, ?_, ?_, ?_, ?_⟩
  · simp only [eocdOf, h1, Bool.false_or]
    rw [if_neg (by simpa using h3), UInt32.toNat_ofNat']; omega
  · simp only [eocdOf, h1, Bool.false_or]
    rw [if_neg (by simpa using h4), UInt32.toNat_ofNat']; omega
  · simp only [eocdOf, h1, Bool.false_or]
    rw [if_neg (by simpa using h2), UInt16.toNat_ofNat']; omega
  · simp [Layout.eocdPos, he, Layout.cdStart]


theorem fits_bounds (l : Layout) (hF : l.Fits) :
    l.pre.length + (localsBytes l.entries).length + l.gapBeforeCd.length + l.cdSize + l.end64.length
      + 22 + l.comment.length + l.trailing.length < 2 ^ 63 := by
  have := hF.2.2
  rw [build_length] at this
  simp only [Layout.eocdPos, Layout.cdStart, Layout.cdOffset] at this
  omega

/-- **`ZipArchive::new` on a layout without ZIP64 end records.** -/
theorem open_plain (l : Layout) (hF : l.Fits) (hR : l.Readable) (h64 : l.needs64 = false)
    (hwin : l.comment.length + l.trailing.length ≤ 65535)
    (hnfE : ∀ k, l.eocdPos < k → k + 22 ≤ (build l).length → u32At (build l) k ≠ some sigEocd)
    (hnfL : 42 + l.comment.length ≤ (build l).length →
      u32At (build l) ((build l).length - 42 - l.comment.length) ≠ some sigLocator) (p0 : Nat) :
    ∃ q, Runs openArchive (build l) p0
      (.ok { files := viewOf l, offset := l.pre.length, comment := l.comment }) q := by
  obtain ⟨he, hsz, hoff, hcnt, hpos⟩ := plain_facts l h64
  have hlen := build_length l
  have hb := fits_bounds l hF
  have hc := hF.2.1
  have hfind := runs_findAndParseEocd (p0 := p0) (u32At_eocdPos l) (runs_parseEocd_build l hc)
    (by omega) (by omega) hnfE
  have hle : (eocdOf l).cdSize.toNat + (eocdOf l).cdOffset.toNat ≤ l.eocdPos := by omega
  obtain ⟨q1, hq1⟩ := runs_getDirectoryCounts_plain (B := build l) (footer := eocdOf l)
    (cdeStart := l.eocdPos) (p0 := l.eocdPos + 22 + l.comment.length) hnfL (by intro _; have hcm : (eocdOf l).comment = l.comment := rfl; rw [hcm]; omega) hle
  have hq1' : Runs (getDirectoryCounts (eocdOf l) l.eocdPos) (build l) (l.eocdPos + 22 + l.comment.length)
      (.ok (l.pre.length, l.cdStart, l.entries.length)) q1 := by
    refine hq1.cast ?_ rfl
    rw [hsz, hoff, hcnt, hpos]
    have e1 : l.pre.length + l.cdOffset + l.cdSize - l.cdSize - l.cdOffset = l.pre.length := by omega
    rw [e1, Nat.add_comm l.cdOffset]
    rfl
  have hloop := (parses_centralLoop l.pre.length l.entries 0 l.cdStart
    (fun e he => ⟨hF.1 e he, hR e he⟩) (by omega)).toRuns (drop_cdStart l)
  refine ⟨l.cdStart + (centralBytes l.entries (localOffsets l.entries 0)).length, ?_⟩
  unfold openArchive
  refine Runs.bind hfind ?_
  dsimp only
  rw [if_neg (by simp [eocdOf])]
  refine Runs.bind hq1' ?_
  dsimp only
  refine Runs.bind (Runs.attempt_ok (Runs.seek_start _)) ?_
  dsimp only
  refine Runs.bind hloop ?_
  exact Runs.pure _

theorem count_le_locals : ∀ es : List Entry, es.length ≤ (localsBytes es).length := by
  intro es
  induction es with
  | nil => simp
  | cons e es ih =>
    rw [localsBytes_cons, List.length_append]
    have : 1 ≤ e.localBytes.length := by
      simp [Entry.localBytes, localRecord]; omega
    simp only [List.length_cons]; omega

theorem end64_eq (l : Layout) (h64 : l.needs64 = true) :
    l.end64 =
      (le32 EOCD64_SIG ++ (le64 44 ++ (le16 l.end64Versions.1 ++ (le16 l.end64Versions.2 ++ (le32 0 ++ (le32 0 ++
        (le64 (UInt64.ofNat l.count) ++ (le64 (UInt64.ofNat l.count) ++ (le64 (UInt64.ofNat l.cdSize) ++
        le64 (UInt64.ofNat l.cdOffset)))))))))) ++
      (le32 LOCATOR_SIG ++ (le32 0 ++ (le64 (UInt64.ofNat (l.cdOffset + l.cdSize)) ++ le32 1))) := by
  simp only [Layout.end64, h64, if_true, List.append_assoc]
  rfl


theorem u64_ofNat_toNat {n : Nat} (h : n < 2 ^ 63) : (UInt64.ofNat n).toNat = n := by
  rw [UInt64.toNat_ofNat']; omega

/-- **`ZipArchive::new` on a layout with ZIP64 end record + locator** (nothing after the comment). -/
theorem open_z64 (l : Layout) (hF : l.Fits) (hR : l.Readable) (h64 : l.needs64 = true)
    (ht : l.trailing = [])
    (hnfE : ∀ k, l.eocdPos < k → k + 22 ≤ (build l).length → u32At (build l) k ≠ some sigEocd)
    (hnf64 : ∀ k, l.cdOffset + l.cdSize ≤ k → k < l.end64Pos → u32At (build l) k ≠ some sigEocd64)
    (p0 : Nat) :
    ∃ q, Runs openArchive (build l) p0
      (.ok { files := viewOf l, offset := l.pre.length, comment := l.comment }) q := by
  have hlen := build_length l
  have hb := fits_bounds l hF
  have hc := hF.2.1
  have he := end64_eq l h64
  have hel : l.end64.length = 76 := by rw [he]; simp
  have hcl := count_le_locals l.entries
  rw [ht] at hlen hb
  simp only [List.length_nil, Nat.add_zero] at hlen hb
  have hcob : l.pre.length + l.cdOffset + l.cdSize + 98 + l.comment.length < 2 ^ 63 := by
    simp only [Layout.cdOffset]; omega
  have hcnt : l.count ≤ l.cdOffset := by simp only [Layout.cdOffset, Layout.count]; omega
  have hpos : l.eocdPos = l.end64Pos + 76 := by simp [Layout.eocdPos, Layout.end64Pos, hel]
  have h64p : l.end64Pos = l.pre.length + l.cdOffset + l.cdSize := by
    simp [Layout.end64Pos, Layout.cdStart]
  have hfind := runs_findAndParseEocd (p0 := p0) (u32At_eocdPos l) (runs_parseEocd_build l hc)
    (by omega) (by omega) hnfE
  -- the ZIP64 end record and the locator, where the reader looks for them
  have hd := drop_end64Pos l
  rw [he, List.append_assoc] at hd
  have hrec : (build l).drop l.end64Pos = le32 EOCD64_SIG ++ (le64 44 ++ (le16 l.end64Versions.1 ++
      (le16 l.end64Versions.2 ++ (le32 0 ++ (le32 0 ++ (le64 (UInt64.ofNat l.count) ++
      (le64 (UInt64.ofNat l.count) ++ (le64 (UInt64.ofNat l.cdSize) ++ (le64 (UInt64.ofNat l.cdOffset) ++
      ((le32 LOCATOR_SIG ++ (le32 0 ++ (le64 (UInt64.ofNat (l.cdOffset + l.cdSize)) ++ le32 1))) ++
        (l.eocd ++ l.trailing))))))))))) := by
    rw [hd]; simp only [List.append_assoc]
  have hloc : (build l).drop ((build l).length - 42 - (eocdOf l).comment.length) =
      le32 LOCATOR_SIG ++ (le32 0 ++ (le64 (UInt64.ofNat (l.cdOffset + l.cdSize)) ++ le32 1)) ++
        (l.eocd ++ l.trailing) := by
    have := drop_past hd
    have e : (build l).length - 42 - (eocdOf l).comment.length = l.end64Pos + 56 := by
      show (build l).length - 42 - l.comment.length = _
      omega
    rw [e]
    simpa using this
  have hnom : (UInt64.ofNat (l.cdOffset + l.cdSize)).toNat = l.cdOffset + l.cdSize :=
    u64_ofNat_toNat (by omega)
  have hq1 := runs_getDirectoryCounts_z64 (B := build l) (footer := eocdOf l) (cdeStart := l.eocdPos)
    (p0 := l.eocdPos + 22 + l.comment.length) (real := l.end64Pos)
    (by show 42 + l.comment.length ≤ _; omega) hloc (by simp [eocdOf]) hrec (by omega) (by omega)
    (by rw [hnom]; omega) (by rw [hnom]; exact hnf64)
    (by rw [hnom, u64_ofNat_toNat (n := l.cdOffset) (by omega)]; omega)
  have hq1' : Runs (getDirectoryCounts (eocdOf l) l.eocdPos) (build l) (l.eocdPos + 22 + l.comment.length)
      (.ok (l.pre.length, l.cdStart, l.entries.length)) (l.end64Pos + 56) := by
    refine hq1.cast ?_ rfl
    rw [hnom, u64_ofNat_toNat (n := l.cdOffset) (by omega),
      u64_ofNat_toNat (n := l.count) (by omega)]
    have e1 : l.end64Pos - (l.cdOffset + l.cdSize) = l.pre.length := by omega
    rw [e1, Nat.add_comm l.cdOffset]
    rfl
  have hloop := (parses_centralLoop l.pre.length l.entries 0 l.cdStart
    (fun e he => ⟨hF.1 e he, hR e he⟩) (by omega)).toRuns (drop_cdStart l)
  refine ⟨l.cdStart + (centralBytes l.entries (localOffsets l.entries 0)).length, ?_⟩
  unfold openArchive
  refine Runs.bind hfind ?_
  dsimp only
  rw [if_neg (by simp [eocdOf])]
  refine Runs.bind hq1' ?_
  dsimp only
  refine Runs.bind (Runs.attempt_ok (Runs.seek_start _)) ?_
  dsimp only
  refine Runs.bind hloop ?_
  exact Runs.pure _

end ZipVerif.Model
